import Wax.Proofs.ExecTrace
import Wax.Proofs.ExecCaps
/-!
# Completeness of `Re.exec` (property C04), for every pattern

  `exec_complete : Matches σ r s → ∃ caps, r.exec σ s = some caps`

Route (see `Wax/Proofs/ExecTrace.lean` for the trace machinery):

1. `Re.Tr σ r id` is the set of paths (traces) through the program of `r` rooted at node `id`:
   which union states are entered, which characters are consumed.  Loops may make any number of
   rounds, empty ones included.
2. every word of the language has a trace (`tr_cov`);
3. the trace sets are splice-closed (`tr_ws`: what follows the entry of a state does not depend on
   how the state was reached), so cycles can be cut: every word that has a trace has a trace that
   the `enter` guard does not kill (`cut`);
4. `Re.run` succeeds on every guard-respecting trace whose continuation succeeds (`run_stepT`).
   The executor refuses to start a further round of a loop after an empty round; a guard-respecting
   trace never asks for one, because all paths through a body begin with the same union state (or
   with a character, or all are empty: `tr_fed`), so the round after an empty round would re-enter
   a state.
-/
namespace Wax

/-- `f` succeeds on every guard-respecting trace of `A` after which its continuation succeeds -/
def StepT (A : TS) (f : Step) : Prop :=
  ∀ t w' v c k, A t → RunOK v t → (∀ c', Succ (k w' (after v t) c')) → Succ (f (word t ++ w') v c k)

theorem stepT_eps : StepT Eps (fun w v c k => k w v c) := by
  intro t w' v c k ht _ hk
  cases ht
  exact hk c

theorem stepT_empty (f : Step) : StepT (fun _ => False) f := fun _ _ _ _ _ h => h.elim

theorem stepT_seq {A B : TS} {f g : Step} (hA : StepT A f) (hB : StepT B g) :
    StepT (Seq A B) (fun w v c k => f w v c (fun w' v' c' => g w' v' c' k)) := by
  rintro _ w' v c k ⟨a, b, rfl, ha, hb⟩ hok hk
  rw [runOK_append] at hok
  rw [word_append, List.append_assoc]
  apply hA a (word b ++ w') v c _ ha hok.1
  intro c'
  apply hB b w' _ c' k hb hok.2
  rw [← after_append]
  exact hk

theorem stepT_pre {A : TS} {f : Step} (x : Sid) (hA : StepT A f) :
    StepT (Pre x A) (fun w v c k => enter x v (fun v' => f w v' c k)) := by
  rintro _ w' v c k ⟨a, rfl, ha⟩ hok hk
  simp only [word, enter_fresh hok.1]
  exact hA a w' _ c k ha hok.2 hk

theorem stepT_or {A B : TS} {f g : Step} (hA : StepT A f) (hB : StepT B g) :
    StepT (Or A B) (fun w v c k => orElse' (f w v c k) (fun _ => g w v c k)) := by
  rintro t w' v c k (ht | ht) hok hk
  · exact succ_orElse' (Or.inl (hA t w' v c k ht hok hk))
  · exact succ_orElse' (Or.inr (hB t w' v c k ht hok hk))

/-! ### the loops -/

section loops
variable {B : TS} {body : Step}

theorem stepT_lu (hb : StepT B body) (U : Sid) (lazy : Bool) :
    ∀ {t : Trace}, LU B U t → ∀ (w' : Str) (v : Vis) (c : Caps) (k : Kont) (fuel : Nat), RunOK v t →
      (word t ++ w').length ≤ fuel → (∀ c', Succ (k w' (after v t) c')) →
      Succ (loopU body U lazy fuel (word t ++ w') v c k) := by
  intro t ht
  induction ht with
  | leave =>
    intro w' v c k fuel hok _ hk
    simp only [word, List.nil_append]
    cases fuel with
    | zero => simp only [loopU, enter_fresh hok.1]; exact hk c
    | succ f => simp only [loopU, enter_fresh hok.1]; exact succ_prefer (Or.inr (hk c))
  | @more tb l hbt hl ih =>
    intro w' v c k fuel hok hlen hk
    obtain ⟨hU, hok⟩ := hok
    rw [runOK_append] at hok
    obtain ⟨hok1, hok2⟩ := hok
    have hne : word tb ≠ [] := by
      intro e
      obtain ⟨l', rfl⟩ := hl.head
      exact hok2.1 (mem_after_of_mem tb _ U e (List.mem_cons_self ..))
    have hpos : 0 < (word tb).length := List.length_pos_iff.mpr hne
    simp only [word, word_append, List.append_assoc] at hlen ⊢
    cases fuel with
    | zero => simp only [List.length_append] at hlen; omega
    | succ f =>
      simp only [loopU, enter_fresh hU]
      apply succ_prefer
      left
      apply hb tb (word l ++ w') (U :: v) c _ hbt hok1
      intro c'
      have hlt : (word l ++ w').length < (word tb ++ (word l ++ w')).length := by
        simp only [List.length_append]; omega
      rw [if_pos hlt]
      apply ih w' _ c' k f hok2 (by simp only [List.length_append] at hlen ⊢; omega)
      intro c''
      have := hk c''
      simpa only [after, after_append] using this

theorem hk_s_cases {t : Trace} {x : Sid} (h : hk t = some (some x)) : ∃ t', t = .s x :: t' := by
  cases t with
  | nil => simp [hk] at h
  | cons e t =>
    cases e with
    | s y => simp only [hk, Option.some.injEq] at h; subst h; exact ⟨t, rfl⟩
    | c a => simp [hk] at h

/-- a round that consumes nothing cannot be followed by another round on a guard-respecting path -/
theorem round_ne (hfed : FED B) {P : Sid} {tb tb2 l2 : Trace} {v : Vis} (h1 : B tb) (h2 : B tb2)
    (hl2 : LU B P l2) (hok : RunOK (P :: after v tb) (tb2 ++ l2)) : word tb ≠ [] := by
  intro e
  have hh := hfed tb tb2 h1 h2
  rcases word_nil_cases tb e with rfl | ⟨x, tb', rfl⟩
  · have : tb2 = [] := by rw [← hk_eq_none, ← hh]; rfl
    subst this
    obtain ⟨l', rfl⟩ := hl2.head
    exact hok.1 (List.mem_cons_self ..)
  · obtain ⟨tb2', rfl⟩ := hk_s_cases hh.symm
    have hx : x ∈ after v (.s x :: tb') := mem_after_of_ev _ v x e (List.mem_cons_self ..)
    exact hok.1 (List.mem_cons_of_mem _ hx)

theorem stepT_pl_aux (hb : StepT B body) (hfed : FED B) (P : Sid) (lazy : Bool) :
    ∀ {l : Trace}, LU B P l → ∀ (tb : Trace) (w' : Str) (v : Vis) (c : Caps) (k : Kont) (fuel : Nat), B tb →
      RunOK v (tb ++ l) → (word (tb ++ l) ++ w').length ≤ fuel → (∀ c', Succ (k w' (after v (tb ++ l)) c')) →
      Succ (plusLoop body P lazy fuel (word (tb ++ l) ++ w') v c k) := by
  intro l hl
  induction hl with
  | leave =>
    intro tb w' v c k fuel hbt hok _ hk
    rw [runOK_append] at hok
    obtain ⟨hok1, hP, _⟩ := hok
    have hk' : ∀ c', Succ (k w' (P :: after v tb) c') := by
      intro c'; have := hk c'; simpa only [after, after_append] using this
    simp only [word_append, word, List.append_nil]
    cases fuel with
    | zero =>
      simp only [plusLoop]
      apply hb tb w' v c _ hbt hok1
      intro c'
      rw [enter_fresh hP]
      exact hk' c'
    | succ f =>
      simp only [plusLoop]
      apply hb tb w' v c _ hbt hok1
      intro c'
      rw [enter_fresh hP]
      exact succ_prefer (Or.inr (hk' c'))
  | @more tb2 l2 hbt2 hl2 ih =>
    intro tb w' v c k fuel hbt hok hlen hk
    rw [runOK_append] at hok
    obtain ⟨hok1, hP, hok2⟩ := hok
    have hne : word tb ≠ [] := round_ne hfed hbt hbt2 hl2 hok2
    have hpos : 0 < (word tb).length := List.length_pos_iff.mpr hne
    have hw : word (tb ++ Ev.s P :: (tb2 ++ l2)) ++ w' = word tb ++ (word (tb2 ++ l2) ++ w') := by
      simp only [word, word_append, List.append_assoc]
    rw [hw] at hlen ⊢
    cases fuel with
    | zero => simp only [List.length_append] at hlen; omega
    | succ f =>
      simp only [plusLoop]
      apply hb tb _ v c _ hbt hok1
      intro c'
      rw [enter_fresh hP]
      apply succ_prefer
      left
      have hlt : (word (tb2 ++ l2) ++ w').length < (word tb ++ (word (tb2 ++ l2) ++ w')).length := by
        simp only [List.length_append]; omega
      rw [if_pos hlt]
      apply ih tb2 w' _ c' k f hbt2 hok2 (by simp only [List.length_append] at hlen ⊢; omega)
      intro c''
      have := hk c''
      simpa only [after, after_append] using this

theorem stepT_pl (hb : StepT B body) (hfed : FED B) (P : Sid) (lazy : Bool) {t : Trace} (ht : PL B P t)
    (w' : Str) (v : Vis) (c : Caps) (k : Kont) (fuel : Nat) (hok : RunOK v t)
    (hlen : (word t ++ w').length ≤ fuel) (hk : ∀ c', Succ (k w' (after v t) c')) :
    Succ (plusLoop body P lazy fuel (word t ++ w') v c k) := by
  obtain ⟨tb, l, rfl, hbt, hl⟩ := ht
  exact stepT_pl_aux hb hfed P lazy hl tb w' v c k fuel hbt hok hlen hk

theorem stepT_sq (hb : StepT B body) (hfed : FED B) (Q P : Sid) (lazy : Bool) :
    StepT (SQ B Q P) (starQ body Q P lazy) := by
  rintro _ w' v c k ⟨a, rfl, ha⟩ hok hk
  obtain ⟨hQ, hok⟩ := hok
  simp only [starQ, word, enter_fresh hQ]
  apply succ_prefer
  rcases ha with ha | ha
  · left
    exact stepT_pl hb hfed P lazy ha w' _ c k _ hok (Nat.le_refl _) hk
  · right
    cases ha
    exact hk c

end loops

section copies
variable {B : Nat → TS} {body : Nat → Step}

theorem stepT_starLoop (hb : ∀ i, StepT (B i) (body i)) (hfed : ∀ i, FED (B i)) (nn : Bool) (un : Nat → Sid)
    (lazy : Bool) : StepT (StarT nn B un) (starLoop nn body un lazy) := by
  intro t w' v c k ht hok hk
  unfold StarT at ht
  unfold starLoop
  split
  · rename_i h
    rw [if_pos h] at ht
    exact stepT_lu (hb 0) (un 0) lazy ht w' v c k _ hok (Nat.le_refl _) hk
  · rename_i h
    rw [if_neg h] at ht
    exact stepT_sq (hb 0) (hfed 0) (un 0) (un 1) lazy t w' v c k ht hok hk

theorem stepT_exactly (hb : ∀ i, StepT (B i) (body i)) : ∀ (n i : Nat), StepT (Exactly B n i) (exactly body n i)
  | 0, _ => stepT_eps
  | n + 1, i => fun t w' v c k =>
    stepT_seq (f := body i) (g := exactly body n (i + 1)) (hb i) (stepT_exactly hb n (i + 1)) t w' v c k

theorem stepT_optNest (hb : ∀ i, StepT (B i) (body i)) (un : Nat → Sid) :
    ∀ (n i : Nat), StepT (OptNest B un n i) (optNest body un n i)
  | 0, _ => stepT_eps
  | n + 1, i => fun t w' v c k =>
    stepT_pre (un i) (stepT_or (stepT_seq (f := body i) (g := optNest body un n (i + 1)) (hb i)
      (stepT_optNest hb un n (i + 1))) stepT_eps) t w' v c k

theorem stepT_repLoop (hb : ∀ i, StepT (B i) (body i)) (hfed : ∀ i, FED (B i)) (nn : Bool) (un : Nat → Sid)
    (lo : Nat) (hi : Option Nat) : StepT (RepT nn B un lo hi) (repLoop nn body un lo hi) := by
  intro t w' v c k ht hok hk
  unfold RepT at ht
  unfold repLoop
  split
  · rename_i hh
    simp only at ht
    split
    · rename_i hle
      rw [if_pos hle] at ht
      exact stepT_seq (stepT_exactly hb lo 0) (stepT_optNest hb un (hh - lo) lo) t w' v c k ht hok hk
    · rename_i hle
      rw [if_neg hle] at ht
      exact ht.elim
  · simp only at ht
    split
    · exact stepT_starLoop hb hfed nn un false t w' v c k ht hok hk
    · rename_i m
      obtain ⟨a, b, rfl, ha, hb'⟩ := ht
      rw [runOK_append] at hok
      rw [word_append, List.append_assoc]
      apply stepT_exactly hb m 0 a (word b ++ w') v c _ ha hok.1
      intro c'
      apply stepT_pl (hb m) (hfed m) (un m) false hb' w' _ c' k _ hok.2 (Nat.le_refl _)
      rw [← after_append]
      exact hk

end copies

/-! ### the traces of a pattern -/

mutual
  /-- the paths through the program of `r` at node `id` -/
  def Re.Tr (σ : Sem) : Re → Sid → TS
    | .lit s ci, _ => fun t => ∃ u, litEq σ ci s u = true ∧ t = u.map Ev.c
    | .chr p, _ => fun t => ∃ a, p.holds σ a = true ∧ t = [Ev.c a]
    | .never, _ => fun _ => False
    | .cat l, id => Re.TrCat σ l id 0
    | .alt l, id =>
      match l with
      | _ :: _ :: _ => Pre (0 :: id) (Re.TrAlt σ l id 1)
      | _ => Re.TrAlt σ l id 1
    | .star r, id => StarT r.nonNull (fun i => Re.Tr σ r ((2 * i + 1) :: id)) (fun i => (2 * i) :: id)
    | .lazyStar r, id => StarT r.nonNull (fun i => Re.Tr σ r ((2 * i + 1) :: id)) (fun i => (2 * i) :: id)
    | .opt r, id => Pre (0 :: id) (Or (Re.Tr σ r (1 :: id)) Eps)
    | .rep r lo hi, id =>
      RepT r.nonNull (fun i => Re.Tr σ r ((2 * i + 1) :: id)) (fun i => (2 * i) :: id) lo hi
    | .cap r, id => Re.Tr σ r (0 :: id)
    | .grp r, id => Re.Tr σ r (0 :: id)
  def Re.TrCat (σ : Sem) : List Re → Sid → Nat → TS
    | [], _, _ => Eps
    | r :: rs, id, j => Seq (Re.Tr σ r (j :: id)) (Re.TrCat σ rs id (j + 1))
  def Re.TrAlt (σ : Sem) : List Re → Sid → Nat → TS
    | [], _, _ => fun _ => False
    | r :: rs, id, j => Or (Re.Tr σ r (j :: id)) (Re.TrAlt σ rs id (j + 1))
end

/-! ### the trace sets are splice-closed -/

theorem WS.noS {D : Sid → Prop} {A : TS} (h : ∀ t, A t → ∀ x, Ev.s x ∉ t) : WS D A :=
  ⟨fun t ht x hx => (h t ht x hx).elim, fun p a _ _ x h1 _ => (h _ h1 x (by simp)).elim⟩

theorem not_s_mem_map_c (u : Str) (x : Sid) : Ev.s x ∉ u.map Ev.c := by
  intro h
  obtain ⟨_, _, e⟩ := List.mem_map.mp h
  cases e

theorem fam_re {B : Nat → TS} (id : Sid) (h : ∀ i, WS (fun x => ((2 * i + 1) :: id) <:+ x) (B i)) :
    Fam (fun i x => ((2 * i + 1) :: id) <:+ x) (fun i => (2 * i) :: id) B where
  ws := h
  disj := fun i j x h1 h2 => by have := own_inj h1 h2; omega
  un_not := fun i j h => by have := own_inj h (List.suffix_refl _); omega
  un_inj := fun i j e => by
    have : 2 * i = 2 * j := (List.cons.inj e).1
    omega

theorem fam_dom {id : Sid} {x : Sid} (h : ∃ t, x = (2 * t) :: id ∨ ((2 * t + 1) :: id) <:+ x) : id <:+ x := by
  obtain ⟨t, rfl | h⟩ := h
  · exact List.suffix_cons _ _
  · exact own_cons h

mutual
  theorem tr_ws (σ : Sem) : ∀ (r : Re) (id : Sid), WS (fun x => id <:+ x) (r.Tr σ id)
    | .lit s ci, id => WS.noS (by
        rintro t ⟨u, _, rfl⟩ x
        exact not_s_mem_map_c u x)
    | .chr p, id => WS.noS (by
        rintro t ⟨a, _, rfl⟩ x h
        simp at h)
    | .never, id => WS.empty _
    | .cat l, id => by
      simp only [Re.Tr]
      exact (trCat_ws σ l id 0).mono (fun x ⟨t, _, h⟩ => own_cons h)
    | .alt l, id => by
      have h := trAlt_ws σ l id 1
      simp only [Re.Tr]
      split
      · have h' := WS.pre (y := 0 :: id) h (by
          rintro ⟨t, ht, h⟩
          have := own_inj h (List.suffix_refl _)
          omega)
        exact h'.mono (by
          rintro x (rfl | ⟨t, _, h⟩)
          · exact List.suffix_cons _ _
          · exact own_cons h)
      · exact h.mono (fun x ⟨t, _, h⟩ => own_cons h)
    | .star r, id => by
      simp only [Re.Tr]
      exact (WS.starT (fam_re id (fun i => tr_ws σ r _)) _).mono (fun x => fam_dom)
    | .lazyStar r, id => by
      simp only [Re.Tr]
      exact (WS.starT (fam_re id (fun i => tr_ws σ r _)) _).mono (fun x => fam_dom)
    | .opt r, id => by
      simp only [Re.Tr]
      have h1 := (tr_ws σ r (1 :: id)).or (WS.eps (fun _ => False)) (fun _ _ h => h)
      have h2 := WS.pre (y := 0 :: id) h1 (by
        rintro (h | h)
        · have := own_inj h (List.suffix_refl _)
          omega
        · exact h)
      exact h2.mono (by
        rintro x (rfl | h | h)
        · exact List.suffix_cons _ _
        · exact own_cons h
        · exact h.elim)
    | .rep r lo hi, id => by
      simp only [Re.Tr]
      exact (WS.repT (fam_re id (fun i => tr_ws σ r _)) _ lo hi).mono (fun x => fam_dom)
    | .cap r, id => by
      simp only [Re.Tr]
      exact (tr_ws σ r (0 :: id)).mono (fun x h => own_cons h)
    | .grp r, id => by
      simp only [Re.Tr]
      exact (tr_ws σ r (0 :: id)).mono (fun x h => own_cons h)
  theorem trCat_ws (σ : Sem) : ∀ (l : List Re) (id : Sid) (j : Nat),
      WS (fun x => ∃ t, j ≤ t ∧ (t :: id) <:+ x) (Re.TrCat σ l id j)
    | [], id, j => by simp only [Re.TrCat]; exact WS.eps _
    | r :: rs, id, j => by
      simp only [Re.TrCat]
      have h := (tr_ws σ r (j :: id)).seq (trCat_ws σ rs id (j + 1)) (by
        rintro x h1 ⟨t, ht, h2⟩
        have := own_inj h1 h2
        omega)
      exact h.mono (by
        rintro x (h | ⟨t, ht, h⟩)
        · exact ⟨j, Nat.le_refl _, h⟩
        · exact ⟨t, by omega, h⟩)
  theorem trAlt_ws (σ : Sem) : ∀ (l : List Re) (id : Sid) (j : Nat),
      WS (fun x => ∃ t, j ≤ t ∧ (t :: id) <:+ x) (Re.TrAlt σ l id j)
    | [], id, j => by simp only [Re.TrAlt]; exact WS.empty _
    | r :: rs, id, j => by
      simp only [Re.TrAlt]
      have h := (tr_ws σ r (j :: id)).or (trAlt_ws σ rs id (j + 1)) (by
        rintro x h1 ⟨t, ht, h2⟩
        have := own_inj h1 h2
        omega)
      exact h.mono (by
        rintro x (h | ⟨t, ht, h⟩)
        · exact ⟨j, Nat.le_refl _, h⟩
        · exact ⟨t, by omega, h⟩)
end

/-! ### all paths through a pattern begin alike -/

mutual
  theorem tr_fed (σ : Sem) : ∀ (r : Re) (id : Sid), FED (r.Tr σ id)
    | .lit s ci, id => by
      rintro _ _ ⟨u, hu, rfl⟩ ⟨u', hu', rfl⟩
      cases s with
      | nil =>
        rw [litEq_nil_iff] at hu hu'
        subst hu; subst hu'; rfl
      | cons a s =>
        rw [litEq_cons_iff] at hu hu'
        obtain ⟨_, _, rfl, _, _⟩ := hu
        obtain ⟨_, _, rfl, _, _⟩ := hu'
        rfl
    | .chr p, id => by
      rintro _ _ ⟨a, _, rfl⟩ ⟨a', _, rfl⟩
      rfl
    | .never, id => FED.empty
    | .cat l, id => by simp only [Re.Tr]; exact trCat_fed σ l id 0
    | .alt [], id => by simp only [Re.Tr, Re.TrAlt]; exact FED.empty
    | .alt [r], id => by
      simp only [Re.Tr, Re.TrAlt]
      exact (tr_fed σ r (1 :: id)).or_empty
    | .alt (_ :: _ :: _), id => by simp only [Re.Tr]; exact FED.pre _
    | .star r, id => by simp only [Re.Tr]; exact FED.starT _ _
    | .lazyStar r, id => by simp only [Re.Tr]; exact FED.starT _ _
    | .opt r, id => by simp only [Re.Tr]; exact FED.pre _
    | .rep r lo hi, id => by
      simp only [Re.Tr]
      exact FED.repT (fun i => tr_fed σ r _) _ _ lo hi
    | .cap r, id => by simp only [Re.Tr]; exact tr_fed σ r (0 :: id)
    | .grp r, id => by simp only [Re.Tr]; exact tr_fed σ r (0 :: id)
  theorem trCat_fed (σ : Sem) : ∀ (l : List Re) (id : Sid) (j : Nat), FED (Re.TrCat σ l id j)
    | [], id, j => by simp only [Re.TrCat]; exact FED.eps
    | r :: rs, id, j => by
      simp only [Re.TrCat]
      exact (tr_fed σ r (j :: id)).seq (trCat_fed σ rs id (j + 1))
end

/-! ### every word of the language has a path -/

mutual
  theorem tr_cov (σ : Sem) : ∀ (r : Re) (id : Sid), Cov (Matches σ r) (r.Tr σ id)
    | .lit s ci, id => fun u hu => ⟨u.map Ev.c, ⟨u, matches_lit_iff.mp hu, rfl⟩, word_map_c u⟩
    | .chr p, id => fun u hu => by
      obtain ⟨a, rfl, ha⟩ := matches_chr_iff.mp hu
      exact ⟨[.c a], ⟨a, ha, rfl⟩, rfl⟩
    | .never, id => fun u hu => absurd hu not_matches_never
    | .cat l, id => fun u hu => by
      simp only [Re.Tr]
      exact trCat_cov σ l id 0 u (matches_cat_iff.mp hu)
    | .alt l, id => fun u hu => by
      obtain ⟨r, hr, hru⟩ := matches_alt_iff.mp hu
      obtain ⟨t, ht, hw⟩ := trAlt_cov σ l id 1 r hr u hru
      simp only [Re.Tr]
      split
      · exact ⟨.s (0 :: id) :: t, ⟨t, rfl, ht⟩, hw⟩
      · exact ⟨t, ht, hw⟩
    | .star r, id => fun u hu => by
      obtain ⟨m, hm⟩ := matches_star_iff.mp hu
      simp only [Re.Tr]
      exact cov_starT (fun i => tr_cov σ r _) _ _ m u hm
    | .lazyStar r, id => fun u hu => by
      obtain ⟨m, hm⟩ := matches_lazyStar_iff.mp hu
      simp only [Re.Tr]
      exact cov_starT (fun i => tr_cov σ r _) _ _ m u hm
    | .opt r, id => fun u hu => by
      simp only [Re.Tr]
      rcases matches_opt_iff.mp hu with rfl | hru
      · exact ⟨[.s (0 :: id)], ⟨[], rfl, Or.inr rfl⟩, rfl⟩
      · obtain ⟨t, ht, hw⟩ := tr_cov σ r (1 :: id) u hru
        exact ⟨.s (0 :: id) :: t, ⟨t, rfl, Or.inl ht⟩, hw⟩
    | .rep r lo hi, id => fun u hu => by
      obtain ⟨m, hlo, hhi, hm⟩ := matches_rep_iff.mp hu
      simp only [Re.Tr]
      exact cov_repT (fun i => tr_cov σ r _) _ _ lo hi m u hlo hhi hm
    | .cap r, id => fun u hu => by
      simp only [Re.Tr]
      exact tr_cov σ r (0 :: id) u (matches_cap_iff.mp hu)
    | .grp r, id => fun u hu => by
      simp only [Re.Tr]
      exact tr_cov σ r (0 :: id) u (matches_grp_iff.mp hu)
  theorem trCat_cov (σ : Sem) : ∀ (l : List Re) (id : Sid) (j : Nat), Cov (MatchesAll σ l) (Re.TrCat σ l id j)
    | [], id, j => fun u hu => by
      rw [matchesAll_nil_iff] at hu
      subst hu
      exact ⟨[], rfl, rfl⟩
    | r :: rs, id, j => fun u hu => by
      obtain ⟨a, b, rfl, ha, hb⟩ := matchesAll_cons_iff.mp hu
      obtain ⟨ta, hta, rfl⟩ := tr_cov σ r (j :: id) a ha
      obtain ⟨tb, htb, rfl⟩ := trCat_cov σ rs id (j + 1) b hb
      simp only [Re.TrCat]
      exact ⟨ta ++ tb, ⟨ta, tb, rfl, hta, htb⟩, word_append _ _⟩
  theorem trAlt_cov (σ : Sem) : ∀ (l : List Re) (id : Sid) (j : Nat) (r : Re), r ∈ l →
      Cov (Matches σ r) (Re.TrAlt σ l id j)
    | [], _, _, _, hr => by cases hr
    | x :: xs, id, j, r, hr => fun u hu => by
      simp only [Re.TrAlt]
      rcases List.mem_cons.mp hr with e | hr
      · have hu' : Matches σ x u := e ▸ hu
        obtain ⟨t, ht, hw⟩ := tr_cov σ x (j :: id) u hu'
        exact ⟨t, Or.inl ht, hw⟩
      · obtain ⟨t, ht, hw⟩ := trAlt_cov σ xs id (j + 1) r hr u hu
        exact ⟨t, Or.inr ht, hw⟩
end

/-! ### the executor follows every guard-respecting path -/

mutual
  theorem run_stepT (σ : Sem) : ∀ (r : Re) (id : Sid) (n : Nat), StepT (r.Tr σ id) (r.run σ id n)
    | .lit s ci, id, n => by
      rintro _ w' v c k ⟨u, hu, rfl⟩ _ hk
      obtain ⟨h1, h2⟩ := litStrip_complete σ ci s u w' hu
      simp only [Re.run, word_map_c, h1]
      have := hk c
      rw [after_map_c] at this
      by_cases hu' : u = []
      · rw [if_pos (h2.mpr hu')]; rw [if_pos hu'] at this; exact this
      · rw [if_neg (fun h => hu' (h2.mp h))]; rw [if_neg hu'] at this; exact this
    | .chr p, id, n => by
      rintro _ w' v c k ⟨a, ha, rfl⟩ _ hk
      simp only [Re.run, word, List.cons_append, List.nil_append, ha, if_true]
      exact hk c
    | .never, id, n => stepT_empty _
    | .cat l, id, n => by
      intro t w' v c k ht hok hk
      simp only [Re.Tr] at ht
      simp only [Re.run]
      exact runCat_stepT σ l id 0 n t w' v c k ht hok hk
    | .alt l, id, n => by
      intro t w' v c k ht hok hk
      have h := runAlt_stepT σ l id 1 n
      rcases l with _ | ⟨a, _ | ⟨b, l⟩⟩
      · simp only [Re.Tr] at ht
        simp only [Re.run]
        exact h t w' v c k ht hok hk
      · simp only [Re.Tr] at ht
        simp only [Re.run]
        exact h t w' v c k ht hok hk
      · simp only [Re.Tr] at ht
        simp only [Re.run]
        exact stepT_pre (0 :: id) h t w' v c k ht hok hk
    | .star r, id, n => by
      intro t w' v c k ht hok hk
      simp only [Re.Tr] at ht
      simp only [Re.run]
      exact stepT_starLoop (fun i => run_stepT σ r _ n) (fun i => tr_fed σ r _) _ _ false t w' v c k ht hok hk
    | .lazyStar r, id, n => by
      intro t w' v c k ht hok hk
      simp only [Re.Tr] at ht
      simp only [Re.run]
      exact stepT_starLoop (fun i => run_stepT σ r _ n) (fun i => tr_fed σ r _) _ _ true t w' v c k ht hok hk
    | .opt r, id, n => by
      intro t w' v c k ht hok hk
      simp only [Re.Tr] at ht
      simp only [Re.run]
      exact stepT_pre (0 :: id) (stepT_or (run_stepT σ r (1 :: id) n) stepT_eps) t w' v c k ht hok hk
    | .rep r lo hi, id, n => by
      intro t w' v c k ht hok hk
      simp only [Re.Tr] at ht
      simp only [Re.run]
      exact stepT_repLoop (fun i => run_stepT σ r _ n) (fun i => tr_fed σ r _) _ _ lo hi t w' v c k ht hok hk
    | .cap r, id, n => by
      intro t w' v c k ht hok hk
      simp only [Re.Tr] at ht
      simp only [Re.run]
      exact run_stepT σ r (0 :: id) (n + 1) t w' v c _ ht hok (fun c' => hk _)
    | .grp r, id, n => by
      intro t w' v c k ht hok hk
      simp only [Re.Tr] at ht
      simp only [Re.run]
      exact run_stepT σ r (0 :: id) n t w' v c k ht hok hk
  theorem runCat_stepT (σ : Sem) : ∀ (l : List Re) (id : Sid) (j n : Nat),
      StepT (Re.TrCat σ l id j) (Re.runCat σ l id j n)
    | [], id, j, n => by
      intro t w' v c k ht hok hk
      simp only [Re.TrCat] at ht
      simp only [Re.runCat]
      exact stepT_eps t w' v c k ht hok hk
    | r :: rs, id, j, n => by
      intro t w' v c k ht hok hk
      simp only [Re.TrCat] at ht
      simp only [Re.runCat]
      exact stepT_seq (run_stepT σ r (j :: id) n) (runCat_stepT σ rs id (j + 1) (n + r.ncaps)) t w' v c k ht hok hk
  theorem runAlt_stepT (σ : Sem) : ∀ (l : List Re) (id : Sid) (j n : Nat),
      StepT (Re.TrAlt σ l id j) (Re.runAlt σ l id j n)
    | [], id, j, n => by
      intro t w' v c k ht hok hk
      simp only [Re.TrAlt] at ht
    | r :: rs, id, j, n => by
      intro t w' v c k ht hok hk
      simp only [Re.TrAlt] at ht
      simp only [Re.runAlt]
      exact stepT_or (run_stepT σ r (j :: id) n) (runAlt_stepT σ rs id (j + 1) (n + r.ncaps)) t w' v c k ht hok hk
end

/-! ### the theorem -/

/-- a matching haystack has a path the guard does not kill -/
theorem matches_runOK {σ : Sem} {r : Re} {s : Str} (id : Sid) (hm : Matches σ r s) :
    ∃ t, r.Tr σ id t ∧ word t = s ∧ RunOK [] t := by
  obtain ⟨t, ht, rfl⟩ := tr_cov σ r id s hm
  exact cut (tr_ws σ r id).sp t.length t (Nat.le_refl _) ht

/-- the search `Re.run` is complete: it succeeds on a prefix in the language whenever its
    continuation succeeds on the rest with any visited set (started with an empty visited set) -/
theorem run_complete_all {σ : Sem} {r : Re} {u : Str} (hm : Matches σ r u) (id : Sid) (n : Nat) (w' : Str)
    (c : Caps) (k : Kont) (hk : ∀ v' c', Succ (k w' v' c')) : Succ (r.run σ id n (u ++ w') [] c k) := by
  obtain ⟨t, ht, rfl, hok⟩ := matches_runOK id hm
  exact run_stepT σ r id n t w' [] c k ht hok (fun c' => hk _ c')

/-- **completeness of `exec`** (property C04): every haystack in the language of `r` is matched -/
theorem exec_complete {σ : Sem} {r : Re} {s : Str} (hm : Matches σ r s) : ∃ caps, r.exec σ s = some caps := by
  have := run_complete_all hm [] 0 [] (List.replicate r.ncaps none) atEnd (fun v' c' => ⟨c', by simp [atEnd]⟩)
  rw [List.append_nil] at this
  obtain ⟨res, hres⟩ := this
  exact ⟨some s :: res, by simp [Re.exec, hres]⟩

/-- `exec` decides the language, for every pattern -/
theorem exec_isSome_eq_matchB {σ : Sem} (r : Re) (s : Str) : (r.exec σ s).isSome = r.matchB σ s := by
  rw [Bool.eq_iff_iff, matchB_iff, Option.isSome_iff_exists]
  exact ⟨fun ⟨_, he⟩ => (exec_sound he).1, exec_complete⟩

theorem exec_eq_none_iff {σ : Sem} (r : Re) (s : Str) : r.exec σ s = none ↔ ¬ Matches σ r s := by
  constructor
  · intro h hm
    obtain ⟨caps, hc⟩ := exec_complete hm
    rw [h] at hc; cases hc
  · intro h
    cases he : r.exec σ s with
    | none => rfl
    | some caps => exact absurd (exec_sound he).1 h

/-! ### consequences for the match model (`Re.hirNorm` then `Re.exec`) -/

/-- **the match model is complete**: `match_model_complete_partial` of `Wax/Proofs/ExecCaps.lean`
    without the hypothesis on the loops -/
theorem match_model_complete {orbit : Char → List Char} {σ : Sem} {r : Re} (h : HirHyp orbit σ r)
    {s : Str} (hm : Matches σ r s) : ∃ caps, (r.hirNorm orbit σ).exec σ s = some caps :=
  exec_complete ((hirNorm_lang h s).mpr hm)

/-- the match model decides the language of the printed pattern (`match_model_isSome` without the
    hypothesis on the loops) -/
theorem match_model_isSome_all {orbit : Char → List Char} {σ : Sem} {r : Re} (h : HirHyp orbit σ r) (s : Str) :
    ((r.hirNorm orbit σ).exec σ s).isSome = r.matchB σ s := by
  rw [exec_isSome_eq_matchB, hirNorm_matchB h]

/-! ### the hypotheses are satisfiable, outside the reach of `exec_complete_partial` -/

/-- `(?:a?b?)*`, the pattern of the header of `Wax/Proofs/ExecComplete.lean` -/
def exLoopAB : Re := .star (.cat [.opt (.lit ['a'] false), .opt (.lit ['b'] false)])

/-- the derivation `[a][b]` (two rounds), whose path the guard kills -/
example : Matches trivSem exLoopAB ['a', 'b'] := by
  have ha : Matches trivSem (.cat [.opt (.lit ['a'] false), .opt (.lit ['b'] false)]) ['a'] :=
    .cat (.cons (u := ['a']) (v := []) (.optSome (.lit (by decide))) (.cons (u := []) (v := []) .optNone .nil))
  have hb : Matches trivSem (.cat [.opt (.lit ['a'] false), .opt (.lit ['b'] false)]) ['b'] :=
    .cat (.cons (u := []) (v := ['b']) .optNone (.cons (u := ['b']) (v := []) (.optSome (.lit (by decide))) .nil))
  exact .starCons (u := ['a']) (v := ['b']) ha (.starCons (u := ['b']) (v := []) hb .starNil)

example : exLoopAB.loopsSimple = false := by decide
example : exLoopAB.exec trivSem ['a', 'b'] = some [some ['a', 'b']] := by decide

instance decRunOK : ∀ (v : Vis) (t : Trace), Decidable (RunOK v t)
  | _, [] => isTrue trivial
  | v, .s x :: t => by
    unfold RunOK
    exact @instDecidableAnd _ _ _ (decRunOK (x :: v) t)
  | _, .c _ :: t => by
    unfold RunOK
    exact decRunOK [] t

/-- the path of the derivation `[a][b]`: it arrives at `b?` (state `[0, 1, 1]`) twice at position 1 -/
def exTrKilled : Trace :=
  [.s [0], .s [0, 0, 1], .c 'a', .s [0, 1, 1], .s [2], .s [0, 0, 1], .s [0, 1, 1], .c 'b', .s [2]]

/-- the same with the cycle cut out: the path of the derivation `[ab]` -/
def exTrCut : Trace := [.s [0], .s [0, 0, 1], .c 'a', .s [0, 1, 1], .c 'b', .s [2]]

theorem exLoopAB_round_a : (Re.cat [.opt (.lit ['a'] false), .opt (.lit ['b'] false)]).Tr trivSem [1]
    [.s [0, 0, 1], .c 'a', .s [0, 1, 1]] := by
  simp only [Re.Tr, Re.TrCat]
  exact ⟨[.s [0, 0, 1], .c 'a'], [.s [0, 1, 1]], rfl, ⟨_, rfl, Or.inl ⟨['a'], by decide, rfl⟩⟩,
    ⟨_, [], rfl, ⟨_, rfl, Or.inr rfl⟩, rfl⟩⟩

theorem exLoopAB_round_b : (Re.cat [.opt (.lit ['a'] false), .opt (.lit ['b'] false)]).Tr trivSem [1]
    [.s [0, 0, 1], .s [0, 1, 1], .c 'b'] := by
  simp only [Re.Tr, Re.TrCat]
  exact ⟨[.s [0, 0, 1]], [.s [0, 1, 1], .c 'b'], rfl, ⟨_, rfl, Or.inr rfl⟩,
    ⟨_, [], rfl, ⟨_, rfl, Or.inl ⟨['b'], by decide, rfl⟩⟩, rfl⟩⟩

theorem exLoopAB_round_ab : (Re.cat [.opt (.lit ['a'] false), .opt (.lit ['b'] false)]).Tr trivSem [1]
    [.s [0, 0, 1], .c 'a', .s [0, 1, 1], .c 'b'] := by
  simp only [Re.Tr, Re.TrCat]
  exact ⟨[.s [0, 0, 1], .c 'a'], [.s [0, 1, 1], .c 'b'], rfl, ⟨_, rfl, Or.inl ⟨['a'], by decide, rfl⟩⟩,
    ⟨_, [], rfl, ⟨_, rfl, Or.inl ⟨['b'], by decide, rfl⟩⟩, rfl⟩⟩

theorem exLoopAB_nullable : (Re.cat [.opt (.lit ['a'] false), .opt (.lit ['b'] false)]).nonNull = false := by
  decide

/-- the killed path is a path of the program, and is not guard-respecting -/
example : exLoopAB.Tr trivSem [] exTrKilled ∧ word exTrKilled = ['a', 'b'] ∧ ¬ RunOK [] exTrKilled := by
  refine ⟨?_, rfl, by decide⟩
  simp only [exLoopAB, Re.Tr, StarT, exLoopAB_nullable]
  exact ⟨_, rfl, Or.inl ⟨_, _, rfl, exLoopAB_round_a, .more exLoopAB_round_b .leave⟩⟩

/-- the cut path is a path of the program with the same word, and is guard-respecting (the
    hypotheses of `run_stepT`) -/
example : exLoopAB.Tr trivSem [] exTrCut ∧ word exTrCut = ['a', 'b'] ∧ RunOK [] exTrCut := by
  refine ⟨?_, rfl, by decide⟩
  simp only [exLoopAB, Re.Tr, StarT, exLoopAB_nullable]
  exact ⟨_, rfl, Or.inl ⟨_, _, rfl, exLoopAB_round_ab, .leave⟩⟩

/-- `(?:[^/]*[/])*` (a `<*/>`-like body with a wildcard) -/
def exLoopWild : Re := .star (.cat [.star (.chr .nsep), .chr .sepc])

example : exLoopWild.loopsSimple = false := by decide
example : Matches trivSem exLoopWild ['x', '/', '/', 'y', 'z', '/'] := (matchB_iff _ _ _).mp (by decide)
example : exLoopWild.exec trivSem ['x', '/', '/', 'y', 'z', '/'] = some [some ['x', '/', '/', 'y', 'z', '/']] := by
  decide

/-- `((?:(?:a|b)[/]?)*)` (alternation and option in a loop body) -/
def exLoopAlt : Re := .cap (.star (.cat [.alt [.lit ['a'] false, .lit ['b'] false], .opt (.chr .sepc)]))

example : exLoopAlt.loopsSimple = false := by decide
example : Matches trivSem exLoopAlt ['a', '/', 'b', 'b', '/'] := (matchB_iff _ _ _).mp (by decide)
example : ∃ caps, exLoopAlt.exec trivSem ['a', '/', 'b', 'b', '/'] = some caps :=
  exec_complete ((matchB_iff _ _ _).mp (by decide))

/-- `(?:([^/]*)){1,}`, the shape of `<*:1,>`: an unbounded loop whose body matches the empty string
    (outside a class `loopBodiesNonNullable` as well) -/
def exLoopNullable : Re := .rep (.cap (.star (.chr .nsep))) 1 none

example : exLoopNullable.loopsSimple = false := by decide
example : Matches trivSem exLoopNullable ['x', 'y'] := (matchB_iff _ _ _).mp (by decide)
example : exLoopNullable.exec trivSem ['x', 'y'] = some [some ['x', 'y'], some ['x', 'y']] := by decide
example : exLoopNullable.exec trivSem [] = some [some [], some []] := by decide

/-- nested nullable loops, `(?:(?:a?)*(?:b?)*)*?` on `ba` -/
example : ∃ caps, (Re.lazyStar (.cat [.star (.opt (.lit ['a'] false)), .star (.opt (.lit ['b'] false))])).exec
    trivSem ['b', 'a'] = some caps := exec_complete ((matchB_iff _ _ _).mp (by decide))

end Wax
