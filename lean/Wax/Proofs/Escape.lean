import Wax.Parse
/-! `wax::escape` (lib.rs:956-972) and the parser: the escaped text of a string
without backslash parses to the literal / separator sequence that spells it. -/
namespace Wax

def isMeta (c : Char) : Bool := literalEsc.contains c

def escape (s : Str) : Str := s.flatMap fun c => if isMeta c then ['\\', c] else [c]

def ulen (s : Str) : Nat := (s.map Char.utf8Size).sum

theorem literalEsc_eq : literalEsc = ['?','*','$',':','<','>','(',')','[',']','{','}',','] := by decide
theorem literalStop_eq : literalStop = '/' :: (literalEsc ++ ['\\']) := by decide

theorem stop_iff (c : Char) : literalStop.contains c = (c == '/' || isMeta c || c == '\\') := by
  rw [literalStop_eq, isMeta]
  by_cases h1 : c = '/' <;> by_cases h2 : c ∈ literalEsc <;> by_cases h3 : c = '\\' <;>
    simp [h1, h2, h3]

/-- the first character of an escaped text is `\`, `/` or not a stop character -/
def safeHead : Str → Prop
  | [] => True
  | c :: _ => c = '\\' ∨ c = '/' ∨ literalStop.contains c = false

theorem safeHead_escape (s : Str) (h : '\\' ∉ s) (r : Str) (hr : safeHead r) : safeHead (escape s ++ r) := by
  cases s with
  | nil => simpa [escape] using hr
  | cons c cs =>
    simp only [escape, List.flatMap_cons]
    by_cases hm : isMeta c
    · simp [hm, safeHead]
    · have hc : c ≠ '\\' := fun e => h (by simp [e])
      simp only [hm, Bool.false_eq_true, if_false, List.cons_append, List.nil_append, safeHead]
      by_cases hs : c = '/'
      · simp [hs]
      · right; right; rw [stop_iff]; simp [hm, hs, hc]

theorem safe_not_meta {c : Char} {cs : Str} (h : safeHead (c :: cs)) {m : Char} (hm : m ∈ literalEsc) : c ≠ m := by
  intro e; subst e
  rcases h with h | h | h
  · subst h; revert hm; decide
  · subst h; revert hm; decide
  · rw [stop_iff] at h; simp [isMeta, hm] at h

theorem tag_none (i : Input) (t : String) (a : Char) (tl : Str) (ht : t.toList = a :: tl)
    (ha : a ∈ literalEsc) (hs : safeHead i.rest) : i.tag t = none := by
  unfold Input.tag
  rw [ht]
  cases hr : i.rest with
  | nil => simp [List.isPrefixOf]
  | cons c cs =>
    rw [hr] at hs
    have := safe_not_meta hs ha
    simp [List.isPrefixOf, Ne.symm this]

theorem adv_rest (i : Input) (a b : Str) (h : i.rest = a ++ b) :
    (i.adv a.length).rest = b ∧ (i.adv a.length).loc = i.loc + ulen a ∧
    (i.adv a.length).ci = i.ci ∧ (i.adv a.length).sub = i.sub := by
  simp [Input.adv, h, ulen]

theorem flags_safe (st : Bool) (n : Nat) (i : Input) (hs : safeHead i.rest) : flags st n i = i := by
  cases n with
  | zero => rfl
  | succ n =>
    unfold flags
    rw [tag_none i "(?" '(' ['?'] (by decide) (by decide) hs]

theorem ulen_pos {s : Str} (h : s ≠ []) : 0 < ulen s := by
  cases s with
  | nil => exact absurd rfl h
  | cons c cs =>
    simp only [ulen, List.map_cons, List.sum_cons]
    have := Char.utf8Size_pos c
    omega

/-- a component chunk: no separator, no backslash -/
def Chunk (w : Str) : Prop := ∀ c ∈ w, c ≠ '/' ∧ c ≠ '\\'

theorem literalLoop_escape (r : Str) (hr : r = [] ∨ ∃ r', r = '/' :: r') :
    ∀ (w : Str) (n : Nat) (i : Input) (acc : Str), Chunk w → w.length ≤ n →
      i.rest = escape w ++ r → acc ++ w ≠ [] →
      ∃ j, literalLoop n i acc = some (acc ++ w, j) ∧ j.rest = r ∧
        j.loc = i.loc + ulen (escape w) ∧ j.ci = i.ci ∧ j.sub = i.sub := by
  intro w
  induction w with
  | nil =>
    intro n i acc _ _ hrest hne
    simp only [escape, List.flatMap_nil, List.nil_append] at hrest
    simp only [List.append_nil] at hne
    have hacc : acc.isEmpty = false := by cases acc <;> simp_all
    refine ⟨i, ?_, hrest, by simp [escape, ulen], rfl, rfl⟩
    cases n with
    | zero => simp [literalLoop, hacc]
    | succ n =>
      rcases hr with hr | ⟨r', hr⟩
      · simp [literalLoop, hrest, hr, hacc]
      · have : '/' ∈ literalStop := by decide
        simp [literalLoop, hrest, hr, hacc, this]
  | cons c w ih =>
    intro n i acc hch hlen hrest hne
    have hc := hch c (by simp)
    have hch' : Chunk w := fun d hd => hch d (by simp [hd])
    cases n with
    | zero => simp at hlen
    | succ n =>
      have hlen' : w.length ≤ n := by simpa using hlen
      by_cases hm : isMeta c
      · have hrest' : i.rest = ['\\', c] ++ (escape w ++ r) := by
          simp [hrest, escape, hm]
        obtain ⟨h1, h2, h3, h4⟩ := adv_rest i ['\\', c] _ hrest'
        obtain ⟨j, hj, hjr, hjl, hjc, hjs⟩ := ih n (i.adv 2) (acc ++ [c]) hch' hlen' h1 (by simp)
        refine ⟨j, ?_, hjr, ?_, by rw [hjc]; exact h3, by rw [hjs]; exact h4⟩
        · have hm' : literalEsc.contains c = true := hm
          simp only [List.cons_append, List.nil_append] at hrest'
          rw [literalLoop, hrest']
          simp only [beq_self_eq_true, if_true, hm']
          rw [hj]; simp
        · rw [hjl]
          simp only [List.length_cons, List.length_nil] at h2
          rw [h2]
          simp [escape, hm, ulen]; omega
      · have hrest' : i.rest = [c] ++ (escape w ++ r) := by
          simp [hrest, escape, hm]
        obtain ⟨h1, h2, h3, h4⟩ := adv_rest i [c] _ hrest'
        obtain ⟨j, hj, hjr, hjl, hjc, hjs⟩ := ih n (i.adv 1) (acc ++ [c]) hch' hlen' h1 (by simp)
        refine ⟨j, ?_, hjr, ?_, by rw [hjc]; exact h3, by rw [hjs]; exact h4⟩
        · have hstop : literalStop.contains c = false := by
            rw [stop_iff]; simp [hm, hc.1, hc.2]
          have hb : (c == '\\') = false := by simp [hc.2]
          simp only [List.cons_append, List.nil_append] at hrest'
          rw [literalLoop, hrest']
          simp only [hb, hstop, Bool.false_eq_true, if_false]
          rw [hj]; simp
        · rw [hjl]
          simp only [List.length_cons, List.length_nil] at h2
          rw [h2]
          simp [escape, hm, ulen]; omega

theorem length_escape_ge (w : Str) : w.length ≤ (escape w).length := by
  induction w with
  | nil => simp [escape]
  | cons c w ih =>
    have : escape (c :: w) = (if isMeta c then ['\\', c] else [c]) ++ escape w := by
      simp [escape]
    rw [this, List.length_append, List.length_cons]
    split <;> simp <;> omega

theorem escape_append (a b : Str) : escape (a ++ b) = escape a ++ escape b := by
  simp [escape, List.flatMap_append]

theorem escape_slash (s : Str) : escape ('/' :: s) = '/' :: escape s := by
  have : isMeta '/' = false := by decide
  simp [escape, this]

theorem safeHead_tail (r : Str) (hr : r = [] ∨ ∃ r', r = '/' :: r') : safeHead r := by
  rcases hr with rfl | ⟨r', rfl⟩
  · trivial
  · right; left; rfl

theorem parseToken_chunk (w r : Str) (hw : Chunk w) (hne : w ≠ [])
    (hr : r = [] ∨ ∃ r', r = '/' :: r') (fuel : Nat) (t : Term) (i : Input)
    (hrest : i.rest = escape w ++ r) :
    ∃ j, parseToken (fuel + 1) t i = some (.lit ⟨i.loc, ulen (escape w)⟩ w i.ci, j) ∧
      j.rest = r ∧ j.loc = i.loc + ulen (escape w) ∧ j.ci = i.ci ∧ j.sub = i.sub := by
  have hb : '\\' ∉ w := fun h => (hw _ h).2 rfl
  have hsafe : safeHead i.rest := by rw [hrest]; exact safeHead_escape w hb r (safeHead_tail r hr)
  have hlen : w.length ≤ i.rest.length := by
    rw [hrest, List.length_append]; have := length_escape_ge w; omega
  obtain ⟨j, hj, hjr, hjl, hjc, hjs⟩ :=
    literalLoop_escape r hr w i.rest.length i [] hw hlen hrest (by simpa using hne)
  refine ⟨j, ?_, hjr, hjl, hjc, hjs⟩
  rw [parseToken]
  simp only [flagsS, flags_safe true _ i hsafe, parseLiteral, hj, List.nil_append]
  simp [hjl]

theorem tag_nil (i : Input) (t : String) (a : Char) (tl : Str) (ht : t.toList = a :: tl)
    (h : i.rest = []) : i.tag t = none := by
  simp [Input.tag, ht, h]

theorem tag_ne (i : Input) (t : String) (a c : Char) (tl cs : Str) (ht : t.toList = a :: tl)
    (h : i.rest = c :: cs) (hne : a ≠ c) : i.tag t = none := by
  simp [Input.tag, ht, h, List.isPrefixOf, hne]

theorem parseRepetition_none (fuel : Nat) (i : Input) (h : i.tag "<" = none) :
    parseRepetition fuel i = none := by
  cases fuel with
  | zero => simp [parseRepetition]
  | succ n => rw [parseRepetition, h]

theorem parseAlternation_none (fuel : Nat) (i : Input) (h : i.tag "{" = none) :
    parseAlternation fuel i = none := by
  cases fuel with
  | zero => simp [parseAlternation]
  | succ n => rw [parseAlternation, h]

theorem parseToken_nil (fuel : Nat) (t : Term) (i : Input) (h : i.rest = []) :
    parseToken fuel t i = none := by
  cases fuel with
  | zero => simp [parseToken]
  | succ n =>
    have hsafe : safeHead i.rest := by rw [h]; trivial
    have hlit : parseLiteral i = none := by simp [parseLiteral, h, literalLoop]
    have hq : i.tag "?" = none := tag_nil i _ '?' [] (by decide) h
    have hsl : i.tag "/" = none := tag_nil i _ '/' [] (by decide) h
    have hst : i.tag "*" = none := tag_nil i _ '*' [] (by decide) h
    have hss : i.tag "**" = none := tag_nil i _ '*' ['*'] (by decide) h
    have hd : i.tag "$" = none := tag_nil i _ '$' [] (by decide) h
    have hb : i.tag "[" = none := tag_nil i _ '[' [] (by decide) h
    have hw : parseWildcard t i = none := by
      by_cases hsub : (i.sub == i.loc) = true <;>
        simp [parseWildcard, hq, hsl, hst, hd, flagsS, flags_safe true _ i hsafe, hss, hsub]
    rw [parseToken]
    simp only [flagsS, flags_safe true _ i hsafe, hlit,
      parseRepetition_none n i (tag_nil i _ '<' [] (by decide) h),
      parseAlternation_none n i (tag_nil i _ '{' [] (by decide) h), hw, parseClass, hb, hsl]

theorem parseToken_sep (s' : Str) (hs : '\\' ∉ s') (fuel : Nat) (t : Term) (i : Input)
    (hrest : i.rest = '/' :: escape s') :
    ∃ j, parseToken (fuel + 1) t i = some (.sep ⟨i.loc, 1⟩, j) ∧
      j.rest = escape s' ∧ j.loc = i.loc + 1 ∧ j.ci = i.ci := by
  have hsafe : safeHead i.rest := by rw [hrest]; right; left; rfl
  have hrest' : i.rest = ['/'] ++ escape s' := by simpa using hrest
  obtain ⟨h1, h2, h3, _⟩ := adv_rest i ['/'] _ hrest'
  have hu : ulen ['/'] = 1 := by decide
  rw [hu] at h2
  simp only [List.length_cons, List.length_nil, Nat.zero_add] at h1 h2 h3
  have hsafe' : safeHead (i.adv 1).rest := by
    have := safeHead_escape s' hs [] trivial
    rw [h1]; simpa using this
  have hlit : parseLiteral i = none := by
    have : '/' ∈ literalStop := by decide
    have hb : ('/' == '\\') = false := by decide
    simp [parseLiteral, hrest, literalLoop, this]
  have hq : i.tag "?" = none := tag_ne i _ '?' '/' [] _ (by decide) hrest (by decide)
  have hsl : i.tag "/" = some (i.adv 1) := by
    simp [Input.tag, hrest, List.isPrefixOf]
  have hst : i.tag "*" = none := tag_ne i _ '*' '/' [] _ (by decide) hrest (by decide)
  have hd : i.tag "$" = none := tag_ne i _ '$' '/' [] _ (by decide) hrest (by decide)
  have hb : i.tag "[" = none := tag_ne i _ '[' '/' [] _ (by decide) hrest (by decide)
  have hss : (i.adv 1).tag "**" = none :=
    tag_none _ "**" '*' ['*'] (by decide) (by decide) hsafe'
  have hw : parseWildcard t i = none := by
    simp [parseWildcard, hq, hsl, hst, hd, flagsS, flags_safe true _ _ hsafe', hss]
  refine ⟨i.adv 1, ?_, h1, h2, h3⟩
  rw [parseToken]
  simp only [flagsS, flags_safe true _ i hsafe, hlit,
    parseRepetition_none fuel i (tag_ne i _ '<' '/' [] _ (by decide) hrest (by decide)),
    parseAlternation_none fuel i (tag_ne i _ '{' '/' [] _ (by decide) hrest (by decide)), hw,
    parseClass, hb, hsl]
  have : (i.adv 1).loc - i.loc = 1 := by rw [h2]; omega
  simp [this]

/-- `Spells loc toks s`: the tokens are literals and separators, tile the escaped
text from byte `loc` on, and spell `s` with maximal literal chunks. -/
inductive Spells : Nat → List Tok → Str → Prop
  | nil (loc : Nat) : Spells loc [] []
  | lit (loc : Nat) (w : Str) (ts : List Tok) (s : Str) : w ≠ [] → Chunk w →
      (s = [] ∨ ∃ s', s = '/' :: s') → Spells (loc + ulen (escape w)) ts s →
      Spells loc (.lit ⟨loc, ulen (escape w)⟩ w false :: ts) (w ++ s)
  | sep (loc : Nat) (ts : List Tok) (s : Str) : Spells (loc + 1) ts s →
      Spells loc (.sep ⟨loc, 1⟩ :: ts) ('/' :: s)

theorem split_chunk : ∀ (s : Str), s ≠ [] → (∀ cs, s ≠ '/' :: cs) → '\\' ∉ s →
    ∃ w r, s = w ++ r ∧ w ≠ [] ∧ Chunk w ∧ (r = [] ∨ ∃ r', r = '/' :: r') ∧
      r.length < s.length ∧ '\\' ∉ r
  | [], h, _, _ => absurd rfl h
  | [c], _, hs, hb =>
    ⟨[c], [], by simp, by simp, by
      intro d hd; simp at hd; subst hd
      exact ⟨fun e => hs [] (by rw [e]), fun e => hb (by simp [e])⟩, Or.inl rfl, by simp, by simp⟩
  | c :: d :: cs, _, hs, hb => by
    have hc : c ≠ '/' ∧ c ≠ '\\' := ⟨fun e => hs _ (by rw [e]), fun e => hb (by simp [e])⟩
    have hb' : '\\' ∉ d :: cs := fun h => hb (List.mem_cons_of_mem _ h)
    by_cases hd : d = '/'
    · refine ⟨[c], d :: cs, by simp, by simp, ?_, Or.inr ⟨cs, by rw [hd]⟩, by simp, hb'⟩
      intro x hx; simp at hx; subst hx; exact hc
    · obtain ⟨w, r, h1, _, h3, h4, h5, h6⟩ :=
        split_chunk (d :: cs) (by simp) (fun cs' e => hd (by injection e)) hb'
      refine ⟨c :: w, r, by rw [h1]; rfl, by simp, ?_, h4, by simp at h5 ⊢; omega, h6⟩
      intro x hx
      rcases List.mem_cons.mp hx with rfl | hx
      · exact hc
      · exact h3 x hx

theorem parseTokens_escape : ∀ (k : Nat) (s : Str), s.length ≤ k → '\\' ∉ s →
    ∀ (fuel : Nat), s.length + 1 ≤ fuel → ∀ (i : Input) (acc : List Tok),
      i.rest = escape s → i.ci = false →
      ∃ toks j, parseTokens fuel .eof i acc = some (acc ++ toks, j) ∧ j.rest = [] ∧
        j.loc = i.loc + ulen (escape s) ∧ Spells i.loc toks s := by
  intro k
  induction k with
  | zero =>
    intro s hk _ fuel hf i acc hrest _
    have hs : s = [] := by cases s <;> simp_all
    subst hs
    have hrest' : i.rest = [] := by simpa [escape] using hrest
    obtain ⟨f, rfl⟩ : ∃ f, fuel = f + 1 := ⟨fuel - 1, by simp at hf; omega⟩
    refine ⟨[], i, ?_, hrest', by simp [escape, ulen], Spells.nil _⟩
    rw [parseTokens, parseToken_nil f .eof i hrest']; simp
  | succ k ih =>
    intro s hk hb fuel hf i acc hrest hci
    cases s with
    | nil =>
      have hrest' : i.rest = [] := by simpa [escape] using hrest
      obtain ⟨f, rfl⟩ : ∃ f, fuel = f + 1 := ⟨fuel - 1, by simp at hf; omega⟩
      refine ⟨[], i, ?_, hrest', by simp [escape, ulen], Spells.nil _⟩
      rw [parseTokens, parseToken_nil f .eof i hrest']; simp
    | cons c cs =>
      obtain ⟨f, rfl⟩ : ∃ f, fuel = f + 1 + 1 := ⟨fuel - 2, by simp at hf; omega⟩
      by_cases hc : c = '/'
      · subst hc
        have hb' : '\\' ∉ cs := fun h => hb (List.mem_cons_of_mem _ h)
        rw [escape_slash] at hrest
        obtain ⟨j, hj, hjr, hjl, hjc⟩ := parseToken_sep cs hb' f .eof i hrest
        obtain ⟨toks, j', h1, h2, h3, h4⟩ :=
          ih cs (by simpa using hk) hb' (f + 1) (by simp at hf ⊢; omega) j
            (acc ++ [.sep ⟨i.loc, 1⟩]) hjr (by rw [hjc, hci])
        refine ⟨.sep ⟨i.loc, 1⟩ :: toks, j', ?_, h2, ?_, ?_⟩
        · rw [parseTokens, hj]
          have : (j.loc == i.loc) = false := by rw [hjl]; simp
          simp only [this, Bool.false_eq_true, if_false, h1]
          simp
        · rw [h3, hjl, escape_slash]
          have hu : ulen ('/' :: escape cs) = 1 + ulen (escape cs) := by
            simp only [ulen, List.map_cons, List.sum_cons]; rfl
          rw [hu]; omega
        · rw [hjl] at h4; exact Spells.sep _ _ _ h4
      · obtain ⟨w, r, hsw, hwne, hwch, hr, hrlen, hrb⟩ :=
          split_chunk (c :: cs) (by simp) (fun cs' e => hc (by injection e)) hb
        have hr' : escape r = [] ∨ ∃ r', escape r = '/' :: r' := by
          rcases hr with rfl | ⟨r', rfl⟩
          · left; simp [escape]
          · right; exact ⟨_, escape_slash r'⟩
        have hrest' : i.rest = escape w ++ escape r := by rw [hrest, hsw, escape_append]
        obtain ⟨j, hj, hjr, hjl, hjc, _⟩ := parseToken_chunk w (escape r) hwch hwne hr' f .eof i hrest'
        rw [hci] at hj
        simp only [List.length_cons] at hrlen hk hf
        obtain ⟨toks, j', h1, h2, h3, h4⟩ :=
          ih r (by omega) hrb (f + 1) (by omega) j
            (acc ++ [.lit ⟨i.loc, ulen (escape w)⟩ w false]) hjr (by rw [hjc, hci])
        refine ⟨.lit ⟨i.loc, ulen (escape w)⟩ w false :: toks, j', ?_, h2, ?_, ?_⟩
        · rw [parseTokens, hj]
          have hpos : 0 < ulen (escape w) := ulen_pos (by
            intro e; have := length_escape_ge w; rw [e] at this
            cases w <;> simp_all)
          have : (j.loc == i.loc) = false := by rw [hjl]; simp; omega
          simp only [this, Bool.false_eq_true, if_false, h1]
          simp
        · rw [h3, hjl, hsw, escape_append]
          simp only [ulen, List.map_append, List.sum_append]; omega
        · rw [hsw]; rw [hjl] at h4
          exact Spells.lit _ _ _ _ hwne hwch hr h4

theorem spells_nonempty {loc : Nat} {toks : List Tok} {s : Str} (h : Spells loc toks s)
    (hne : s ≠ []) : toks ≠ [] := by
  cases h with
  | nil => exact absurd rfl hne
  | lit => simp
  | sep => simp

/-- C18, parser half: for every non-empty string without a backslash the escaped
string parses, to literals and separators only, spelling the string, with spans
tiling the escaped text. -/
theorem parse_escape (s : Str) (hne : s ≠ []) (hb : '\\' ∉ s) :
    ∃ toks, parse (escape s) = .ok (.cat ⟨0, ulen (escape s)⟩ toks) ∧ Spells 0 toks s := by
  have he : (escape s).isEmpty = false := by
    have := length_escape_ge s
    cases hs : escape s with
    | nil => rw [hs] at this; cases s <;> simp_all
    | cons => rfl
  obtain ⟨toks, j, h1, h2, h3, h4⟩ :=
    parseTokens_escape s.length s (Nat.le_refl _) hb (4 * (escape s).length + 8)
      (by have := length_escape_ge s; omega)
      { rest := escape s, loc := 0, ci := false, sub := 0 } [] rfl rfl
  refine ⟨toks, ?_, h4⟩
  have hte : toks.isEmpty = false := by
    have := spells_nonempty h4 hne
    cases toks <;> simp_all
  simp only [List.nil_append] at h1
  simp only [Nat.zero_add] at h3
  unfold parse
  simp only [he, Bool.false_eq_true, if_false, h1, hte, h2, List.isEmpty_nil, if_true, h3]

/-- escaping leaves strings without meta-characters unchanged -/
theorem escape_id (s : Str) (h : ∀ c ∈ s, isMeta c = false) : escape s = s := by
  induction s with
  | nil => rfl
  | cons c s ih =>
    have hc := h c (by simp)
    have : escape (c :: s) = (if isMeta c then ['\\', c] else [c]) ++ escape s := by simp [escape]
    rw [this, hc, ih (fun d hd => h d (by simp [hd]))]; rfl

-- the hypotheses are satisfiable and the conclusion is not trivial
example : ∃ toks, parse (escape "a*/{b}".toList) = .ok (.cat ⟨0, 9⟩ toks) ∧ Spells 0 toks "a*/{b}".toList := by
  have h := parse_escape "a*/{b}".toList (by decide) (by decide)
  have hu : ulen (escape "a*/{b}".toList) = 9 := by decide
  rw [hu] at h; exact h

end Wax
