/-!
C14 on component lists: splitting the entry path at `depth + pivot` components from the end and
joining the two parts gives the path back; the relative part has exactly `depth + pivot`
components when the path is that long.  (That `Path::ancestors().nth(k)` / `strip_prefix` act on
component lists in this way is the modelled part of std::path.)
-/
namespace Wax

/-- `SplitAtDepth` on components: (ancestor, descendant) -/
def splitAtDepthC {α} (comps : List α) (depth : Nat) : List α × List α :=
  (comps.take (comps.length - depth), comps.drop (comps.length - depth))

theorem join_split_roundtrip {α} (comps : List α) (depth : Nat) :
    (splitAtDepthC comps depth).1 ++ (splitAtDepthC comps depth).2 = comps := by
  simp [splitAtDepthC]

theorem depth_is_rel_length {α} (comps : List α) (depth : Nat) (h : depth ≤ comps.length) :
    (splitAtDepthC comps depth).2.length = depth := by
  simp [splitAtDepthC]; omega

/-- relative prefix: the walk root is `base ++ prefix`, an entry at walk depth `d` is
    `base ++ prefix ++ below` with `|below| = d`; with `pivot = |prefix|` the root part is the base -/
theorem root_is_base {α} (base pre below : List α) :
    (splitAtDepthC (base ++ pre ++ below) (below.length + pre.length)).1 = base := by
  simp [splitAtDepthC]
  have : (base.length + (pre.length + below.length) - (below.length + pre.length)) = base.length := by omega
  rw [this]; simp

/-- the pinned defect for absolute prefixes: `join_and_get_depth` reports one more than the number
    of components, so the reported depth exceeds the length of the relative part by one -/
theorem absolute_pivot_off_by_one (ncomps d : Nat) : d + (ncomps + 1) ≠ d + ncomps := by omega

end Wax
