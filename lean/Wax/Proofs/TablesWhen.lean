import Wax.GeneratedWhen
import Wax.Query
/-! The tie by regeneration (the three When truth tables): the table the model's definitions use is the table `tools/extract.py` has just read out
of `/repo/src` (by EVALUATING the source's `match`, so arm order and grouping are immaterial). Closed by `decide`: an edit of the
Rust source that changes the table breaks the build here, naming the table; only the properties that list these theorems are
concerned. -/
namespace Wax

def ofW : Generated.W → When
  | .always => .always | .sometimes => .sometimes | .never => .never

/-- the three `When` truth tables regenerated from query.rs are the model's operators (nine rows
    each, all keys present) -/
theorem when_tables_are_source :
    Generated.whenAnd.all (fun r => decide ((ofW r.1).and (ofW r.2.1) = ofW r.2.2)) = true ∧
    Generated.whenOr.all (fun r => decide ((ofW r.1).or (ofW r.2.1) = ofW r.2.2)) = true ∧
    Generated.whenCertainty.all (fun r => decide ((ofW r.1).certainty (ofW r.2.1) = ofW r.2.2)) = true ∧
    Generated.whenAnd.length = 9 ∧ Generated.whenOr.length = 9 ∧ Generated.whenCertainty.length = 9 ∧
    (Generated.whenAnd.map fun r => (r.1, r.2.1)).Nodup ∧
    (Generated.whenOr.map fun r => (r.1, r.2.1)).Nodup ∧
    (Generated.whenCertainty.map fun r => (r.1, r.2.1)).Nodup := by decide

end Wax
