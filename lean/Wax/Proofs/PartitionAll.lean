import Wax.Proofs.PartitionMore
import Wax.Proofs.SpecRe
/-!
C08, every shape: ONE language theorem for `partition` under one decidable hypothesis.

`partition_lang_all_partial` (section H): for every token tree `t` with `partOk κ t`
(and `CasingHyp σ κ (cutToks κ t)`, vacuous unless a removed token holds a case-insensitive literal)

* `partition κ t = (P, off, some q)`:
  `Spec.Matches σ t w ↔ (∃ r, w = joinPath P r ∧ Spec.Matches σ q r) ∨ (bareTree q ∧ w = P)`,
  `hasRoot q ≠ .always`, `partition κ q = ([], 0, some q)`;
* `partition κ t = (P, off, none)`: `Spec.Matches σ t w ↔ w = P`;
* the prefix is the text of the removed (text-invariant) tokens, or the root of a leading `/**`.

`joinPath` is `Path::join` on strings for a relative right-hand side, as in the check's oracle
(`props/c08.py`): a separator is inserted unless the prefix is empty or ends with one, also when
the right-hand side is empty.  The disjunct `bareTree q ∧ w = P` is the bare prefix of `P/**`
(`partition_tree_last`); it is absorbed by the joined form whenever the prefix is empty or ends
with a separator (`bare_absorbed`).  The equation holds for ALL strings `w`, canonical or not.

Sections: A `leadBad` (finer than `leadTree`), A' `ciFree` / `CasingHyp`, definitions (`joinPath`,
`bareTree`, `partLangOk`, `keptUnrooted`, `partOk`), B the scan by shape (`scan_cases`: removed
count AND text), C the boundary lemmas, D `partition` by the scan result, E one lemma per shape,
F `partition_lang_all_core` (language half under the weaker `partLangOk`), G `postfix_unrooted`,
`partition_again`, `prefix_no_pattern`, H the headline theorem, I the five earlier partial
theorems (their shapes satisfy the hypothesis; four re-derived verbatim), J a kernel-checked
counterexample for every excluded shape, K the theorem on concrete globs.

Validation of `partOk` (not part of the build): 18,000 random token trees (parser-shaped or not)
and 3,362 parsed, rule-accepted expressions, the equation decided on all strings over a small
alphabet up to length 5 with the verified matcher on `specRe`: no glob with `partLangOk` violates
the equation, no glob with `partOk` has a rooted postfix; all 158 accepted expressions without
`partOk` begin with a rooting repetition (K-PART-ROOTED-BRANCH) or remove a class that lists a
separator (K-PART-SEPCLASS).
-/
set_option linter.unusedSimpArgs false
set_option linter.unusedVariables false
namespace Wax


/-! ### A. when the `first` flag is irrelevant: a finer `leadTree` -/

mutual
  /-- can the meaning of the token change with what precedes it, given whether it is last?  Only a
  tree wildcard that can be the first leaf is sensitive, and a ROOTED one only at the very end
  (`TreeLang`: `hasRoot || !first`). -/
  def leadBad (l : Bool) : Tok → Bool
    | .tree _ r => !r || l
    | .alt _ bs => leadBadB l bs
    | .cat _ ts => leadBadF l ts
    | .rep _ body _ _ => leadBad l body || leadBad false body
    | _ => false
  def leadBadF (l : Bool) : List Tok → Bool
    | [] => false
    | t :: ts => leadBad (l && ts.isEmpty) t
  def leadBadB (l : Bool) : List Tok → Bool
    | [] => false
    | b :: bs => leadBad l b || leadBadB l bs
end

theorem treeLang_first_irrel {f f' : Bool} {w : Str} (h : TreeLang ⟨f, false⟩ true w) :
    TreeLang ⟨f', false⟩ true w := by
  simpa [TreeLang] using h

mutual
  theorem firstIrrel_tok (σ : Sem) : ∀ (t : Tok) (l : Bool), leadBad l t = false →
      ∀ (f f' : Bool) (w : Str), SM σ ⟨f, l⟩ t w → SM σ ⟨f', l⟩ t w
    | .lit .., _, _, _, _, _, h => by cases h with | lit hl => exact .lit hl
    | .sep _, _, _, _, _, _, h => by cases h; exact .sep
    | .cls .., _, _, _, _, _, h => by cases h with | cls hc => exact .cls hc
    | .one _, _, _, _, _, _, h => by cases h with | one hc => exact .one hc
    | .zom .., _, _, _, _, _, h => by cases h with | zom hz => exact .zom hz
    | .tree _ r, l, hl, f, f', w, h => by
      simp only [leadBad, Bool.or_eq_false_iff, Bool.not_eq_false'] at hl
      obtain ⟨rfl, rfl⟩ := hl
      cases h with
      | tree ht => exact .tree (treeLang_first_irrel ht)
    | .alt _ bs, l, hl, f, f', w, h => by
      simp only [leadBad] at hl
      cases h with
      | alt hb hm =>
        exact .alt hb ((sms_conc_iff _).mpr
          (firstIrrel_branches σ bs l hl _ hb f f' w ((sms_conc_iff _).mp hm)))
    | .cat _ ts, l, hl, f, f', w, h => by
      simp only [leadBad] at hl
      cases h with
      | cat hm => exact .cat (firstIrrel_list σ ts l hl f f' w hm)
    | .rep _ body lo hi, l, hl, f, f', w, h => by
      simp only [leadBad, Bool.or_eq_false_iff] at hl
      cases h with
      | rep h1 h2 h3 =>
        refine .rep h1 h2 ?_
        cases h3 with
        | zero => exact .zero
        | one hm =>
          exact .one ((sms_conc_iff _).mpr (firstIrrel_tok σ body l hl.1 f f' _ ((sms_conc_iff _).mp hm)))
        | more hu hv =>
          exact .more ((sms_conc_iff _).mpr
            (firstIrrel_tok σ body false hl.2 f f' _ ((sms_conc_iff _).mp hu))) hv
  theorem firstIrrel_list (σ : Sem) : ∀ (ts : List Tok) (l : Bool), leadBadF l ts = false →
      ∀ (f f' : Bool) (w : Str), SMs σ ⟨f, l⟩ ts w → SMs σ ⟨f', l⟩ ts w
    | [], _, _, _, _, _, h => by cases h; exact .nil
    | t :: ts, l, hl, f, f', w, h => by
      simp only [leadBadF] at hl
      cases h with
      | cons hu hv => exact .cons (firstIrrel_tok σ t _ hl f f' _ hu) hv
  theorem firstIrrel_branches (σ : Sem) : ∀ (bs : List Tok) (l : Bool), leadBadB l bs = false →
      ∀ b ∈ bs, ∀ (f f' : Bool) (w : Str), SM σ ⟨f, l⟩ b w → SM σ ⟨f', l⟩ b w
    | [], _, _, _, hb, _, _, _, _ => by cases hb
    | b0 :: bs, l, hl, b, hb, f, f', w, h => by
      simp only [leadBadB, Bool.or_eq_false_iff] at hl
      cases hb with
      | head => exact firstIrrel_tok σ b0 l hl.1 f f' w h
      | tail _ hm => exact firstIrrel_branches σ bs l hl.2 b hm f f' w h
end

mutual
  /-- the coarser test of `PartitionSpec.lean` implies the finer one -/
  theorem leadBad_of_leadTree : ∀ (t : Tok) (l : Bool), leadTree t = false → leadBad l t = false
    | .lit .., _, _ => rfl
    | .sep _, _, _ => rfl
    | .cls .., _, _ => rfl
    | .one _, _, _ => rfl
    | .zom .., _, _ => rfl
    | .tree .., _, h => by simp [leadTree] at h
    | .alt _ bs, l, h => by
      simp only [leadTree] at h
      simp only [leadBad, leadBadB_of_leadTree bs l h]
    | .cat _ ts, l, h => by
      simp only [leadTree] at h
      simp only [leadBad, leadBadF_of_leadTree ts l h]
    | .rep _ body _ _, l, h => by
      simp only [leadTree] at h
      simp only [leadBad, leadBad_of_leadTree body l h, leadBad_of_leadTree body false h, Bool.or_self]
  theorem leadBadF_of_leadTree : ∀ (ts : List Tok) (l : Bool), leadTreeF ts = false →
      leadBadF l ts = false
    | [], _, _ => rfl
    | t :: ts, l, h => by
      simp only [leadTreeF] at h
      simp only [leadBadF, leadBad_of_leadTree t _ h]
  theorem leadBadB_of_leadTree : ∀ (bs : List Tok) (l : Bool), leadTreeB bs = false →
      leadBadB l bs = false
    | [], _, _ => rfl
    | b :: bs, l, h => by
      simp only [leadTreeB, Bool.or_eq_false_iff] at h
      simp only [leadBadB, leadBad_of_leadTree b l h.1, leadBadB_of_leadTree bs l h.2, Bool.or_self]
end

/-! ### A'. the comparison of characters matters only to case-insensitive literals -/

mutual
  /-- no case-insensitive literal anywhere in the token -/
  def ciFree : Tok → Bool
    | .lit _ _ ci => !ci
    | .alt _ bs => ciFreeL bs
    | .cat _ ts => ciFreeL ts
    | .rep _ b _ _ => ciFree b
    | _ => true
  def ciFreeL : List Tok → Bool
    | [] => true
    | t :: ts => ciFree t && ciFreeL ts
end

theorem litEq_false_indep (σ σ' : Sem) : ∀ (s w : Str), litEq σ false s w = litEq σ' false s w
  | [], [] => rfl
  | a :: s, b :: w => by
    simp only [litEq, Bool.false_eq_true, ↓reduceIte, litEq_false_indep σ σ' s w]
  | [], _ :: _ => rfl
  | _ :: _, [] => rfl

theorem ciFreeL_mem : ∀ {bs : List Tok}, ciFreeL bs = true → ∀ b ∈ bs, ciFree b = true
  | [], _, _, hb => by cases hb
  | b0 :: bs, h, b, hb => by
    simp only [ciFreeL, Bool.and_eq_true] at h
    cases hb with
    | head => exact h.1
    | tail _ hm => exact ciFreeL_mem h.2 b hm

theorem ciFreeL_concatenation {b : Tok} (h : ciFree b = true) : ciFreeL b.concatenation = true := by
  cases b with
  | cat sp ts => simpa [ciFree, Tok.concatenation] using h
  | _ => simpa [ciFreeL, Tok.concatenation] using h

theorem ciFreeL_append (a b : List Tok) : ciFreeL (a ++ b) = (ciFreeL a && ciFreeL b) := by
  induction a with
  | nil => simp [ciFreeL]
  | cons x xs ih => simp only [List.cons_append, ciFreeL, ih, Bool.and_assoc]

theorem srep_sem {σ σ' : Sem} {A : List Tok} (h : ∀ c u, SMs σ c A u → SMs σ' c A u) :
    ∀ {c : Ctx} {n : Nat} {w : Str}, SRep σ c A n w → SRep σ' c A n w
  | _, _, _, .zero => .zero
  | _, _, _, .one hm => .one (h _ _ hm)
  | _, _, _, .more hu hv => .more (h _ _ hu) (srep_sem h hv)

mutual
  /-- a token without case-insensitive literals means the same under every comparison -/
  theorem sm_ciFree (σ σ' : Sem) : ∀ (t : Tok), ciFree t = true → ∀ (c : Ctx) (w : Str),
      SM σ c t w → SM σ' c t w
    | .lit _ s ci, hc, _, w, h => by
      simp only [ciFree, Bool.not_eq_true'] at hc
      subst hc
      cases h with
      | lit hl => exact .lit (by rw [← litEq_false_indep σ σ']; exact hl)
    | .sep _, _, _, _, h => by cases h; exact .sep
    | .cls .., _, _, _, h => by cases h with | cls hc => exact .cls hc
    | .one _, _, _, _, h => by cases h with | one hc => exact .one hc
    | .zom .., _, _, _, h => by cases h with | zom hz => exact .zom hz
    | .tree .., _, _, _, h => by cases h with | tree ht => exact .tree ht
    | .alt _ bs, hc, c, w, h => by
      simp only [ciFree] at hc
      cases h with
      | alt hb hm =>
        exact .alt hb ((sms_conc_iff _).mpr
          (smB_ciFree σ σ' bs hc _ hb c w ((sms_conc_iff _).mp hm)))
    | .cat _ ts, hc, c, w, h => by
      simp only [ciFree] at hc
      cases h with
      | cat hm => exact .cat (sms_ciFree σ σ' ts hc c w hm)
    | .rep _ body lo hi, hc, c, w, h => by
      simp only [ciFree] at hc
      cases h with
      | rep h1 h2 h3 =>
        exact .rep h1 h2 (srep_sem (fun c u hu =>
          (sms_conc_iff _).mpr (sm_ciFree σ σ' body hc c u ((sms_conc_iff _).mp hu))) h3)
  theorem sms_ciFree (σ σ' : Sem) : ∀ (ts : List Tok), ciFreeL ts = true → ∀ (c : Ctx) (w : Str),
      SMs σ c ts w → SMs σ' c ts w
    | [], _, _, _, h => by cases h; exact .nil
    | t :: ts, hc, c, w, h => by
      simp only [ciFreeL, Bool.and_eq_true] at hc
      cases h with
      | cons hu hv => exact .cons (sm_ciFree σ σ' t hc.1 _ _ hu) (sms_ciFree σ σ' ts hc.2 _ _ hv)
  theorem smB_ciFree (σ σ' : Sem) : ∀ (bs : List Tok), ciFreeL bs = true → ∀ b ∈ bs,
      ∀ (c : Ctx) (w : Str), SM σ c b w → SM σ' c b w
    | [], _, _, hb, _, _, _ => by cases hb
    | b0 :: bs, hc, b, hb, c, w, h => by
      simp only [ciFreeL, Bool.and_eq_true] at hc
      cases hb with
      | head => exact sm_ciFree σ σ' b0 hc.1 c w h
      | tail _ hm => exact smB_ciFree σ σ' bs hc.2 b hm c w h
end

/-- the exact comparison with the `dotall` flag of `σ` -/
def exactSem (σ : Sem) : Sem := ⟨fun a b => a == b, σ.dotall⟩

theorem exactSem_refl (σ : Sem) : CeqRefl (exactSem σ) := fun a => by simp [exactSem]

theorem exactSem_casing (σ : Sem) (κ : Casing) : CasingOk (exactSem σ) κ :=
  fun a b h hne => absurd (by simpa [exactSem] using h) hne

/-- **the casing hypothesis, for the removed tokens only**: either none of them contains a
case-insensitive literal (then nothing is assumed of the comparison `σ` and the casing table `κ`),
or the comparison is reflexive and `κ` knows every character the comparison folds (`text_exact`) -/
def CasingHyp (σ : Sem) (κ : Casing) (ts : List Tok) : Prop :=
  ciFreeL ts = true ∨ (CeqRefl σ ∧ CasingOk σ κ)

/-- `invs_exact` under the casing hypothesis for these tokens only -/
theorem invs_exact_hyp (σ : Sem) (κ : Casing) (pre : List Tok) (fs : List Frag)
    (hc : CasingHyp σ κ pre) (hw : wellL pre = true) (h : textCat κ pre = .inv fs) :
    ∀ c w, SMs σ c pre w ↔ w = fragsToStr fs := by
  rcases hc with hc | ⟨hσ, hκ⟩
  · intro c w
    rw [← invs_exact (exactSem σ) κ (exactSem_refl σ) (exactSem_casing σ κ) pre fs hw h c w]
    exact ⟨sms_ciFree σ _ pre hc c w, sms_ciFree _ σ pre hc c w⟩
  · exact invs_exact σ κ hσ hκ pre fs hw h

/-! ### definitions -/

/-- `Path::join` on strings, for a relative right-hand side: a separator is inserted unless the
left-hand side is empty or already ends with one (also when the right-hand side is empty) -/
def joinPath (P r : Str) : Str :=
  if P = [] ∨ P.getLast? = some '/' then P ++ r else P ++ '/' :: r

def isUnrootedTree : Tok → Bool
  | .tree _ false => true
  | _ => false

/-- the postfix is exactly the unrooted tree wildcard (`P/**`): the one shape where the bare prefix
is matched although it is not of the joined form (`partition_tree_last`) -/
def bareTree (q : Tok) : Bool :=
  match q.concatenation with
  | [t] => isUnrootedTree t
  | _ => false

/-- non-empty text that does not end with a separator -/
def endsNonSep (P : Str) : Bool :=
  match P.getLast? with
  | some c => c != '/'
  | none => false

/-- the tokens `partition` keeps (before unrooting the first) -/
def keptToks (κ : Casing) (t : Tok) : List Tok := t.concatenation.drop (invariantTextPrefix κ t).1

/-- the tokens `partition` removes -/
def cutToks (κ : Casing) (t : Tok) : List Tok := t.concatenation.take (invariantTextPrefix κ t).1

/-- the condition on what is kept when something is removed -/
def keptCond (P : Str) : List Tok → Bool
  | [] => true
  | .tree _ _ :: _ => endsNonSep P
  | kept => !leadBadF true kept

/-- **the hypothesis of the language equation**, decidable, stated by what `partition` cuts:
* a glob that begins with a rooted variant token is a concatenation that begins with the rooted
  tree wildcard (no rooting repetition / rooted branch at the cut: `</a:1,>`, `{/a,/b}`);
* the removed tokens are well formed (`wellL`: no class lists a separator, `[/]ab`; no empty class
  or alternation);
* if something is removed and the kept part begins with a tree wildcard, the prefix text is not
  empty and does not end with a separator (`a//**` and `<a:0>/**` as token trees);
* if something is removed and the kept part begins with anything else, it cannot begin with a tree
  wildcard whose meaning depends on whether anything precedes it (`leadBadF`; `a/{**/x,y}`). -/
def partLangOk (κ : Casing) (t : Tok) : Bool :=
  if firstRootedVariant κ t.concatenation then
    (match t with
     | .cat _ (.tree _ true :: _) => true
     | _ => false)
  else
    wellL (cutToks κ t) &&
    ((invariantTextPrefix κ t).1 == 0 || keptCond (invariantTextPrefix κ t).2 (keptToks κ t))

/-- the first kept token, unrooted, is not (certainly) rooted: `{/a}*`, `a/{/b}*` -/
def keptUnrooted (κ : Casing) (t : Tok) : Bool :=
  match keptToks κ t with
  | [] => true
  | f :: _ => hasRoot (unroot f).1 != .always

/-- **`partOk`**: the single hypothesis of `partition_lang_all_partial` -/
def partOk (κ : Casing) (t : Tok) : Bool := partLangOk κ t && keptUnrooted κ t


/-! ### B. the scan, completely: number of removed tokens AND prefix text, by shape -/

theorem textCat_cons_of_inv {κ : Casing} {t : Tok} {ts : List Tok} {a b : List Frag}
    (ha : textTok κ t = .inv a) (hb : textCat κ ts = .inv b) :
    ∃ fs, textCat κ (t :: ts) = .inv fs ∧ fragsToStr fs = fragsToStr a ++ fragsToStr b := by
  cases ts with
  | nil =>
    simp only [textCat, TVar.inv.injEq] at hb
    subst hb
    exact ⟨a, by simp only [textCat, ha], by simp [fragsToStr]⟩
  | cons t2 ts =>
    refine ⟨fragConj a b, ?_, fragsToStr_fragConj a b⟩
    simp only [textCat] at hb ⊢
    rw [ha, hb]
    rfl

theorem textCat_append_inv (κ : Casing) : ∀ (xs ys : List Tok) (a b : List Frag),
    textCat κ xs = .inv a → textCat κ ys = .inv b →
    ∃ fs, textCat κ (xs ++ ys) = .inv fs ∧ fragsToStr fs = fragsToStr a ++ fragsToStr b
  | [], ys, a, b, ha, hb => by
    simp only [textCat, TVar.inv.injEq] at ha
    subst ha
    exact ⟨b, hb, by simp [fragsToStr]⟩
  | x :: xs, ys, a, b, ha, hb => by
    obtain ⟨a1, a2, h1, h2, h3⟩ := textCat_cons_inv ha
    obtain ⟨c, hc, hct⟩ := textCat_append_inv κ xs ys a2 b h2 hb
    obtain ⟨fs, hfs, hft⟩ := textCat_cons_of_inv h1 hc
    exact ⟨fs, hfs, by rw [hft, hct, h3, List.append_assoc]⟩

/-- scanning a wholly text-invariant list -/
theorem prefixGo_all_inv (κ : Casing) (ts : List Tok) (fs : List Frag)
    (h : textCat κ ts = .inv fs) :
    prefixGo κ 0 ts none none = (ts.length, fragsToStr fs) := by
  cases ts with
  | nil =>
    simp only [textCat, TVar.inv.injEq] at h
    subst h
    rfl
  | cons f more =>
    obtain ⟨c', hc'⟩ := prefixGo_invs κ (f :: more) fs h (by simp) [] 0 none none
    rw [List.append_nil] at hc'
    rw [hc']
    simp only [prefixGo, pick_some, headText, List.nil_append, Nat.zero_add, List.length_cons,
      Nat.add_sub_cancel]

/-- scanning text-invariant tokens up to a variant boundary token: cut right before it -/
theorem prefixGo_inv_boundary (κ : Casing) (inv : List Tok) (fs : List Frag)
    (h : textCat κ inv = .inv fs) (v : Tok) (rest : List Tok) (hv : isInv κ v = false)
    (hb : isBoundaryTok v = true) :
    prefixGo κ 0 (inv ++ v :: rest) none none = (inv.length, fragsToStr fs) := by
  have hv' := isInv_false.mp hv
  cases inv with
  | nil =>
    simp only [textCat, TVar.inv.injEq] at h
    subst h
    rw [List.nil_append, prefixGo_var_step κ hv']
    simp only [hb, ↓reduceIte]
    rfl
  | cons f more =>
    obtain ⟨c', hc'⟩ := prefixGo_invs κ (f :: more) fs h (by simp) (v :: rest) 0 none none
    rw [hc', prefixGo_var_step κ hv']
    simp only [hb, ↓reduceIte, pick_some, Nat.zero_add, List.length_cons, Nat.add_sub_cancel,
      headText, List.nil_append]

/-- scanning `pre / mid v`: cut after the separator -/
theorem prefixGo_sep_mid (κ : Casing) (pre : List Tok) (fs : List Frag)
    (h : textCat κ pre = .inv fs) (s : Span) (mid : List Tok) (hm : mid.all (isMid κ) = true)
    (v : Tok) (rest : List Tok) (hv : isInv κ v = false) (hb : isBoundaryTok v = false) :
    prefixGo κ 0 (pre ++ .sep s :: (mid ++ v :: rest)) none none =
      (pre.length + 1, fragsToStr fs ++ ['/']) := by
  rw [prefixGo_invs_sep κ pre fs h]
  obtain ⟨h', e⟩ := prefixGo_mid κ mid hm (v :: rest) (0 + pre.length + 1)
    (some (0 + pre.length, headText none ++ fragsToStr fs ++ ['/']))
    (some (0 + pre.length, headText none ++ fragsToStr fs ++ ['/']))
  rw [e, prefixGo_var_step κ (isInv_false.mp hv)]
  simp only [hb, Bool.false_eq_true, ↓reduceIte, pick_some, Nat.zero_add, headText, List.nil_append]

/-- scanning `mid v` with no boundary before the variant non-boundary token: nothing is cut -/
theorem prefixGo_mid_only (κ : Casing) (mid : List Tok) (hm : mid.all (isMid κ) = true)
    (v : Tok) (rest : List Tok) (hv : isInv κ v = false) (hb : isBoundaryTok v = false) :
    prefixGo κ 0 (mid ++ v :: rest) none none = (0, []) := by
  obtain ⟨h', e⟩ := prefixGo_mid κ mid hm (v :: rest) 0 none none
  rw [e, prefixGo_var_step κ (isInv_false.mp hv)]
  simp only [hb, Bool.false_eq_true, ↓reduceIte]
  rfl

/-- **the scan by shape**: every token list is of exactly one of four shapes, and the scan of
`invariant_text_prefix` returns, respectively: everything; the tokens before a variant boundary
token (a tree wildcard); nothing; the tokens up to and including the last separator before the
first variant token -/
theorem scan_cases (κ : Casing) (ts : List Tok) :
    (∃ fs, textCat κ ts = .inv fs ∧ prefixGo κ 0 ts none none = (ts.length, fragsToStr fs)) ∨
    (∃ inv v rest fs, ts = inv ++ v :: rest ∧ textCat κ inv = .inv fs ∧ isInv κ v = false ∧
      isBoundaryTok v = true ∧ prefixGo κ 0 ts none none = (inv.length, fragsToStr fs)) ∨
    (ts ≠ [] ∧ prefixGo κ 0 ts none none = (0, [])) ∨
    (∃ pre s mid v rest fs, ts = pre ++ .sep s :: (mid ++ v :: rest) ∧ textCat κ pre = .inv fs ∧
      mid.all (isMid κ) = true ∧ isInv κ v = false ∧ isBoundaryTok v = false ∧
      prefixGo κ 0 ts none none = (pre.length + 1, fragsToStr fs ++ ['/'])) := by
  rcases split_first_variant κ ts with hall | ⟨inv, v, rest, rfl, hi, hv⟩
  · obtain ⟨fs, hfs⟩ := textCat_of_all κ ts hall
    exact .inl ⟨fs, hfs, prefixGo_all_inv κ ts fs hfs⟩
  · cases hb : isBoundaryTok v with
    | true =>
      obtain ⟨fs, hfs⟩ := textCat_of_all κ inv hi
      exact .inr (.inl ⟨inv, v, rest, fs, rfl, hfs, hv, hb, prefixGo_inv_boundary κ inv fs hfs v rest hv hb⟩)
    | false =>
      rcases split_last_boundary κ inv hi with hm | ⟨pre, s, mid, rfl, hp, hm⟩
      · exact .inr (.inr (.inl ⟨by simp, prefixGo_mid_only κ inv hm v rest hv hb⟩))
      · obtain ⟨fs, hfs⟩ := textCat_of_all κ pre hp
        refine .inr (.inr (.inr ⟨pre, s, mid, v, rest, fs, by simp, hfs, hm, hv, hb, ?_⟩))
        have e0 : (pre ++ .sep s :: mid) ++ v :: rest = pre ++ .sep s :: (mid ++ v :: rest) := by simp
        rw [e0]
        exact prefixGo_sep_mid κ pre fs hfs s mid hm v rest hv hb

/-! ### C. `joinPath`, `bareTree`, and the language equation of each boundary shape -/

theorem joinPath_nil (r : Str) : joinPath [] r = r := by
  simp [joinPath]

theorem joinPath_sep (P r : Str) : joinPath (P ++ ['/']) r = P ++ '/' :: r := by
  simp [joinPath]

theorem joinPath_root (r : Str) : joinPath ['/'] r = '/' :: r := joinPath_sep [] r

theorem joinPath_nonSep {P : Str} (h : endsNonSep P = true) (r : Str) :
    joinPath P r = P ++ '/' :: r := by
  unfold endsNonSep at h
  unfold joinPath
  cases hl : P.getLast? with
  | none => rw [hl] at h; cases h
  | some c =>
    rw [hl] at h
    have hc : c ≠ '/' := by simpa using h
    have hP : P ≠ [] := by
      intro e; subst e; simp at hl
    simp [hP, hc]

/-- when the prefix is empty or ends with a separator, joining with the empty path is the prefix -/
theorem joinPath_empty_of_not_nonSep {P : Str} (h : endsNonSep P = false) : joinPath P [] = P := by
  unfold endsNonSep at h
  unfold joinPath
  cases hl : P.getLast? with
  | none => simp [List.getLast?_eq_none_iff.mp hl]
  | some c =>
    rw [hl] at h
    have hc : c = '/' := by simpa using h
    subst hc
    simp

theorem bareTree_matches (σ : Sem) {q : Tok} (h : bareTree q = true) (r : Str) :
    Spec.Matches σ q r := by
  unfold bareTree at h
  unfold Spec.Matches
  split at h
  · rename_i t heq
    rw [heq]
    cases t with
    | tree s r =>
      cases r with
      | true => cases h
      | false => exact sms_singleton.mpr (.tree (by simp [TreeLang]))
    | _ => cases h
  · cases h

theorem bareTree_mapSpans (f : Span → Span) (q : Tok) : bareTree (q.mapSpans f) = bareTree q := by
  unfold bareTree
  rw [mapSpans_concatenation]
  cases q.concatenation with
  | nil => rfl
  | cons t ts =>
    cases ts with
    | nil =>
      cases t with
      | tree s r => cases r <;> rfl
      | _ => rfl
    | cons t2 ts => rfl

theorem bareTree_cat_tree (sp st : Span) (rest : List Tok) :
    bareTree (.cat sp (.tree st false :: rest)) = rest.isEmpty := by
  cases rest <;> rfl

/-- the bare-prefix disjunct is absorbed by the joined form unless the prefix is non-empty text
without a final separator -/
theorem bare_absorbed (σ : Sem) {P : Str} {q : Tok} (hP : endsNonSep P = false) (w : Str) :
    ((∃ r, w = joinPath P r ∧ Spec.Matches σ q r) ∨ (bareTree q = true ∧ w = P)) ↔
      ∃ r, w = joinPath P r ∧ Spec.Matches σ q r := by
  constructor
  · rintro (h | ⟨hb, rfl⟩)
    · exact h
    · exact ⟨[], (joinPath_empty_of_not_nonSep hP).symm, bareTree_matches σ hb []⟩
  · exact .inl

/-- a tree wildcard that is not first means the same whatever its `hasRoot` flag and span -/
theorem sm_tree_nonfirst (σ : Sem) (l r r' : Bool) (sp sp' : Span) (w : Str) :
    SM σ ⟨false, l⟩ (.tree sp r) w ↔ SM σ ⟨false, l⟩ (.tree sp' r') w := by
  rw [sm_tree, sm_tree]
  simp [TreeLang]

theorem sms_tree_after (σ : Sem) (pre rest : List Tok) (hne : pre ≠ []) (r r' : Bool)
    (sp sp' : Span) (c : Ctx) (w : Str) :
    SMs σ c (pre ++ .tree sp r :: rest) w ↔ SMs σ c (pre ++ .tree sp' r' :: rest) w := by
  have hpe : pre.isEmpty = false := by cases pre <;> simp_all
  rw [sms_append, sms_append]
  simp only [hpe, Bool.and_false, List.isEmpty_cons]
  constructor
  · rintro ⟨u, v, rfl, hu, hv⟩
    obtain ⟨a, b, rfl, ha, hb⟩ := sms_cons.mp hv
    exact ⟨u, a ++ b, rfl, hu, sms_cons.mpr ⟨a, b, rfl, (sm_tree_nonfirst σ _ r r' sp sp' a).mp ha, hb⟩⟩
  · rintro ⟨u, v, rfl, hu, hv⟩
    obtain ⟨a, b, rfl, ha, hb⟩ := sms_cons.mp hv
    exact ⟨u, a ++ b, rfl, hu, sms_cons.mpr ⟨a, b, rfl, (sm_tree_nonfirst σ _ r r' sp sp' a).mpr ha, hb⟩⟩

/-- **separator boundary, finer hypothesis** (`partition_sep` with `leadBadF` for `leadTreeF`) -/
theorem partition_sep_fine (σ : Sem) (pre post : List Tok) (sp : Span) (P : Str)
    (hpre : ∀ c w, SMs σ c pre w ↔ w = P) (hpost : leadBadF true post = false) (w : Str) :
    SMs σ ⟨true, true⟩ (pre ++ .sep sp :: post) w ↔
      ∃ r, w = P ++ '/' :: r ∧ SMs σ ⟨true, true⟩ post r := by
  rw [sms_append]
  constructor
  · rintro ⟨u, v, rfl, hu, hv⟩
    rw [hpre] at hu; subst hu
    obtain ⟨s, r, rfl, hs, hr⟩ := sms_cons.mp hv
    cases hs
    exact ⟨r, by simp, firstIrrel_list σ post true hpost _ _ _ hr⟩
  · rintro ⟨r, rfl, hr⟩
    refine ⟨P, '/' :: r, rfl, (hpre _ _).mpr rfl, ?_⟩
    exact sms_cons.mpr ⟨['/'], r, rfl, .sep, firstIrrel_list σ post true hpost _ _ _ hr⟩

/-- **tree boundary, any `hasRoot` flag**, something after the tree wildcard -/
theorem partition_tree_any (σ : Sem) (pre rest : List Tok) (sp sp' : Span) (rt : Bool) (P : Str)
    (hpre : ∀ c w, SMs σ c pre w ↔ w = P) (hne : pre ≠ []) (hrest : rest ≠ []) (w : Str) :
    SMs σ ⟨true, true⟩ (pre ++ .tree sp rt :: rest) w ↔
      ∃ r, w = P ++ '/' :: r ∧ SMs σ ⟨true, true⟩ (.tree sp' false :: rest) r := by
  rw [sms_tree_after σ pre rest hne rt true sp sp]
  exact partition_tree σ pre rest sp sp' P hpre hne hrest w

/-- **tree boundary, any `hasRoot` flag**, at the end -/
theorem partition_tree_last_any (σ : Sem) (pre : List Tok) (sp : Span) (rt : Bool) (P : Str)
    (hpre : ∀ c w, SMs σ c pre w ↔ w = P) (hne : pre ≠ []) (w : Str) :
    SMs σ ⟨true, true⟩ (pre ++ [.tree sp rt]) w ↔ w = P ∨ ∃ r, w = P ++ '/' :: r := by
  rw [sms_tree_after σ pre [] hne rt true sp sp]
  exact partition_tree_last σ pre sp P hpre hne w

/-! ### D. `partition` by the scan result -/

theorem partition_fst (κ : Casing) (t : Tok) :
    (partition κ t).1 = (invariantTextPrefix κ t).2 := by
  unfold partition
  cases invariantTextPrefix κ t with
  | mk n text =>
    simp only

theorem itp_unrooted {κ : Casing} {t : Tok} (hfr : firstRootedVariant κ t.concatenation = false) :
    invariantTextPrefix κ t = prefixGo κ 0 t.concatenation none none := by
  unfold invariantTextPrefix
  simp only [hfr, Bool.false_eq_true, ↓reduceIte]

theorem partition_cat_eq (κ : Casing) (sp : Span) (ts : List Tok) (n : Nat) (text : Str)
    (first : Tok) (more : List Tok) (hpre : invariantTextPrefix κ (.cat sp ts) = (n, text))
    (hd : ts.drop n = first :: more) :
    partition κ (.cat sp ts) = (text, spanSum (ts.take n) + (unroot first).2,
      some ((Tok.cat sp ((unroot first).1 :: more)).mapSpans
        (shiftSpan (spanSum (ts.take n) + (unroot first).2)))) := by
  have hlen : ¬ (n ≥ ts.length) := by
    intro hge
    rw [List.drop_eq_nil_of_le hge] at hd
    cases hd
  unfold partition
  simp only [hpre, hlen, ↓reduceIte, hd, Option.map_some]
  rfl

theorem wellL_append (a b : List Tok) : wellL (a ++ b) = (wellL a && wellL b) := by
  induction a with
  | nil => simp [wellL]
  | cons x xs ih => simp only [List.cons_append, wellL, ih, Bool.and_assoc]

theorem wellT_of_concatenation {t : Tok} (h : wellL t.concatenation = true) : wellT t = true := by
  cases t with
  | cat sp ts => simpa [wellT, Tok.concatenation] using h
  | _ => simpa [wellL, Tok.concatenation] using h

theorem keptCond_tree (P : Str) (st : Span) (r : Bool) (rest : List Tok) :
    keptCond P (.tree st r :: rest) = endsNonSep P := rfl

theorem keptCond_nonboundary (P : Str) {f : Tok} (more : List Tok) (h : isBoundaryTok f = false) :
    keptCond P (f :: more) = !leadBadF true (f :: more) := by
  cases f with
  | tree s r => simp [isBoundaryTok] at h
  | _ => rfl

theorem partLangOk_unrooted {κ : Casing} {t : Tok}
    (hfr : firstRootedVariant κ t.concatenation = false) {n : Nat} {P : Str}
    (hs : prefixGo κ 0 t.concatenation none none = (n, P)) :
    partLangOk κ t =
      (wellL (t.concatenation.take n) && (n == 0 || keptCond P (t.concatenation.drop n))) := by
  unfold partLangOk cutToks keptToks
  rw [itp_unrooted hfr, hs]
  simp only [hfr, Bool.false_eq_true, ↓reduceIte]

theorem cat_of_concatenation_length {t : Tok} (h : 2 ≤ t.concatenation.length) :
    ∃ sp, t = .cat sp t.concatenation := by
  cases t with
  | cat sp ts => exact ⟨sp, rfl⟩
  | _ => simp [Tok.concatenation] at h

theorem variant_boundary_is_tree {κ : Casing} {v : Tok} (hv : isInv κ v = false)
    (hb : isBoundaryTok v = true) : ∃ st r, v = .tree st r := by
  cases v with
  | tree st r => exact ⟨st, r, rfl⟩
  | sep s => simp [isInv, textTok] at hv
  | _ => simp [isBoundaryTok] at hb

theorem unroot_tree (st : Span) (r : Bool) : ∃ st', (unroot (.tree st r)).1 = .tree st' false := by
  cases r with
  | true => exact ⟨_, rfl⟩
  | false => exact ⟨_, rfl⟩

/-- nothing removed: `partition` returns the glob itself -/
theorem partition_zero (κ : Casing) (t : Tok)
    (hfr : firstRootedVariant κ t.concatenation = false) (hne : t.concatenation ≠ [])
    (h0 : prefixGo κ 0 t.concatenation none none = (0, [])) : partition κ t = ([], 0, some t) := by
  cases hc : t.concatenation with
  | nil => exact absurd hc hne
  | cons f more =>
    rw [hc] at hfr h0
    exact partition_of_scan_zero κ t f more hc hfr h0

/-! ### E. the language equation, shape by shape -/

/-- the conclusion of the theorem: the language equation over `Path::join`, with the bare prefix of
`P/**`, when there is a postfix; the prefix as the one matched path when there is none -/
def PartLang (σ : Sem) (κ : Casing) (t : Tok) : Prop :=
  (∀ P off q, partition κ t = (P, off, some q) →
    ∀ w, Spec.Matches σ t w ↔
      (∃ r, w = joinPath P r ∧ Spec.Matches σ q r) ∨ (bareTree q = true ∧ w = P)) ∧
  (∀ P off, partition κ t = (P, off, none) → ∀ w, Spec.Matches σ t w ↔ w = P)

theorem partLang_of_some {σ : Sem} {κ : Casing} {t : Tok} {P0 : Str} {off0 : Nat} {q0 : Tok}
    (hp : partition κ t = (P0, off0, some q0))
    (hl : ∀ w, Spec.Matches σ t w ↔
      (∃ r, w = joinPath P0 r ∧ Spec.Matches σ q0 r) ∨ (bareTree q0 = true ∧ w = P0)) :
    PartLang σ κ t := by
  constructor
  · intro P off q h
    rw [hp] at h
    simp only [Prod.mk.injEq, Option.some.injEq] at h
    obtain ⟨rfl, rfl, rfl⟩ := h
    exact hl
  · intro P off h
    rw [hp] at h
    simp at h

theorem partLang_of_none {σ : Sem} {κ : Casing} {t : Tok} {P0 : Str} {off0 : Nat}
    (hp : partition κ t = (P0, off0, none)) (hl : ∀ w, Spec.Matches σ t w ↔ w = P0) :
    PartLang σ κ t := by
  constructor
  · intro P off q h
    rw [hp] at h
    simp at h
  · intro P off h
    rw [hp] at h
    simp only [Prod.mk.injEq] at h
    obtain ⟨rfl, rfl, _⟩ := h
    exact hl

theorem endsNonSep_nil : endsNonSep [] = false := rfl

theorem endsNonSep_sep (P : Str) : endsNonSep (P ++ ['/']) = false := by
  simp [endsNonSep]

/-- shape 0: nothing is removed -/
theorem partLang_zero (σ : Sem) (κ : Casing) (t : Tok)
    (hfr : firstRootedVariant κ t.concatenation = false) (hne : t.concatenation ≠ [])
    (h0 : prefixGo κ 0 t.concatenation none none = (0, [])) : PartLang σ κ t := by
  refine partLang_of_some (partition_zero κ t hfr hne h0) ?_
  intro w
  rw [bare_absorbed σ endsNonSep_nil]
  simp only [joinPath_nil]
  exact ⟨fun h => ⟨w, rfl, h⟩, fun ⟨r, hr, h⟩ => hr ▸ h⟩

/-- shape 1: the rooted tree wildcard first (`/**/a`) -/
theorem partLang_root (σ : Sem) (κ : Casing) (sp st : Span) (rest : List Tok) :
    PartLang σ κ (.cat sp (.tree st true :: rest)) := by
  obtain ⟨hp, hl⟩ := partition_tree_root σ κ sp st rest
  refine partLang_of_some hp ?_
  intro w
  rw [bare_absorbed σ (P := ['/']) (by decide)]
  simp only [joinPath_root]
  exact hl w

/-- shape 2: wholly invariant -/
theorem partLang_invariant (σ : Sem) (κ : Casing) (t : Tok) (hc : CasingHyp σ κ t.concatenation)
    (fs : List Frag) (hw : wellL t.concatenation = true) (h : textCat κ t.concatenation = .inv fs) :
    PartLang σ κ t := by
  have hex := invs_exact_hyp σ κ t.concatenation fs hc hw h
  rw [textCat_concatenation] at h
  exact partLang_of_none (partition_invariant_fn κ t fs h) (fun w => hex ⟨true, true⟩ w)

theorem kept_head_nonboundary {κ : Casing} (mid : List Tok) (hm : mid.all (isMid κ) = true) (v : Tok)
    (hb : isBoundaryTok v = false) (rest : List Tok) :
    ∃ first more, mid ++ v :: rest = first :: more ∧ isBoundaryTok first = false := by
  cases mid with
  | nil => exact ⟨v, rest, rfl, hb⟩
  | cons m mid' =>
    rw [List.all_cons, Bool.and_eq_true] at hm
    exact ⟨m, mid' ++ v :: rest, rfl, isMid_nonboundary hm.1⟩

/-- shape 3: cut after a separator -/
theorem partLang_sep (σ : Sem) (κ : Casing) (sp s : Span)
    (pre : List Tok) (hc : CasingHyp σ κ pre) (fs : List Frag) (hpre : textCat κ pre = .inv fs)
    (mid : List Tok)
    (hm : mid.all (isMid κ) = true) (v : Tok) (rest : List Tok) (hv : isInv κ v = false)
    (hb : isBoundaryTok v = false)
    (hok : partLangOk κ (.cat sp (pre ++ .sep s :: (mid ++ v :: rest))) = true) :
    PartLang σ κ (.cat sp (pre ++ .sep s :: (mid ++ v :: rest))) := by
  have hfr : firstRootedVariant κ (Tok.cat sp (pre ++ .sep s :: (mid ++ v :: rest))).concatenation
      = false := firstRootedVariant_invs_sep κ pre fs hpre s _
  have hs := prefixGo_sep_mid κ pre fs hpre s mid hm v rest hv hb
  have htake : (pre ++ .sep s :: (mid ++ v :: rest)).take (pre.length + 1) = pre ++ [.sep s] := by
    have : pre ++ .sep s :: (mid ++ v :: rest) = (pre ++ [.sep s]) ++ (mid ++ v :: rest) := by simp
    rw [this, List.take_left' (by simp)]
  have hdrop : (pre ++ .sep s :: (mid ++ v :: rest)).drop (pre.length + 1) = mid ++ v :: rest := by
    have : pre ++ .sep s :: (mid ++ v :: rest) = (pre ++ [.sep s]) ++ (mid ++ v :: rest) := by simp
    rw [this, List.drop_left' (by simp)]
  obtain ⟨first, more, hk, hfb⟩ := kept_head_nonboundary mid hm v hb rest
  rw [partLangOk_unrooted hfr hs] at hok
  simp only [Tok.concatenation, htake, hdrop, wellL_append, Bool.and_eq_true, Nat.add_one_ne_zero,
    beq_iff_eq, Bool.or_eq_true, false_or] at hok
  obtain ⟨⟨hwpre, _⟩, hkc⟩ := hok
  rw [hk, keptCond_nonboundary _ more hfb, ← hk] at hkc
  have hlead : leadBadF true (mid ++ v :: rest) = false := by simpa using hkc
  have hitp : invariantTextPrefix κ (.cat sp (pre ++ .sep s :: (mid ++ v :: rest))) =
      (pre.length + 1, fragsToStr fs ++ ['/']) := by rw [itp_unrooted hfr]; exact hs
  have hp := partition_cat_cut κ sp _ _ _ first more hitp (by rw [hdrop, hk]) hfb
  rw [← hk] at hp
  refine partLang_of_some hp ?_
  intro w
  rw [bare_absorbed σ (endsNonSep_sep _)]
  simp only [joinPath_sep]
  have h1 := partition_sep_fine σ pre (mid ++ v :: rest) s (fragsToStr fs)
    (invs_exact_hyp σ κ pre fs hc hwpre hpre) hlead w
  constructor
  · intro h
    obtain ⟨r, hr, hmr⟩ := h1.mp h
    exact ⟨r, hr, (matches_mapSpans σ _ _ r).mpr hmr⟩
  · rintro ⟨r, hr, hmr⟩
    exact h1.mpr ⟨r, hr, (matches_mapSpans σ _ _ r).mp hmr⟩

/-- shape 4: cut before a tree wildcard that follows text-invariant tokens -/
theorem partLang_tree (σ : Sem) (κ : Casing) (sp st : Span)
    (rt : Bool) (inv : List Tok) (hc : CasingHyp σ κ inv) (fs : List Frag) (hne : inv ≠ [])
    (hinv : textCat κ inv = .inv fs)
    (rest : List Tok) (hok : partLangOk κ (.cat sp (inv ++ .tree st rt :: rest)) = true) :
    PartLang σ κ (.cat sp (inv ++ .tree st rt :: rest)) := by
  have hvi : isInv κ (.tree st rt) = false := rfl
  have hfr : firstRootedVariant κ (Tok.cat sp (inv ++ .tree st rt :: rest)).concatenation = false := by
    cases inv with
    | nil => exact absurd rfl hne
    | cons f more =>
      obtain ⟨a, _, ha, _, _⟩ := textCat_cons_inv hinv
      exact firstRootedVariant_inv ha
  have hs := prefixGo_inv_boundary κ inv fs hinv (.tree st rt) rest hvi rfl
  have htake : (inv ++ .tree st rt :: rest).take inv.length = inv := List.take_left
  have hdrop : (inv ++ .tree st rt :: rest).drop inv.length = .tree st rt :: rest := List.drop_left
  have hlen : inv.length ≠ 0 := by
    intro e; exact hne (List.length_eq_zero_iff.mp e)
  rw [partLangOk_unrooted hfr hs] at hok
  simp only [Tok.concatenation, htake, hdrop, keptCond_tree, Bool.and_eq_true, beq_iff_eq, hlen,
    Bool.or_eq_true, false_or] at hok
  obtain ⟨hwinv, hP⟩ := hok
  have hitp : invariantTextPrefix κ (.cat sp (inv ++ .tree st rt :: rest)) =
      (inv.length, fragsToStr fs) := by rw [itp_unrooted hfr]; exact hs
  have hp := partition_cat_eq κ sp _ _ _ (.tree st rt) rest hitp hdrop
  obtain ⟨st', hst'⟩ := unroot_tree st rt
  rw [hst'] at hp
  refine partLang_of_some hp ?_
  intro w
  have hexact := invs_exact_hyp σ κ inv fs hc hwinv hinv
  rw [bareTree_mapSpans, bareTree_cat_tree]
  simp only [joinPath_nonSep hP]
  cases rest with
  | nil =>
    have h1 := partition_tree_last_any σ inv st rt (fragsToStr fs) hexact hne w
    constructor
    · intro h
      rcases h1.mp h with h | ⟨r, hr⟩
      · exact .inr ⟨rfl, h⟩
      · exact .inl ⟨r, hr, (matches_mapSpans σ _ _ r).mpr (matches_tree_false_only σ sp _ r)⟩
    · rintro (⟨r, hr, _⟩ | ⟨_, h⟩)
      · exact h1.mpr (.inr ⟨r, hr⟩)
      · exact h1.mpr (.inl h)
  | cons x xs =>
    have h1 := partition_tree_any σ inv (x :: xs) st st' rt (fragsToStr fs) hexact hne (by simp) w
    constructor
    · intro h
      obtain ⟨r, hr, hmr⟩ := h1.mp h
      exact .inl ⟨r, hr, (matches_mapSpans σ _ _ r).mpr hmr⟩
    · rintro (⟨r, hr, hmr⟩ | ⟨hc, _⟩)
      · exact h1.mpr ⟨r, hr, (matches_mapSpans σ _ _ r).mp hmr⟩
      · simp at hc

theorem cutToks_unrooted {κ : Casing} {t : Tok}
    (hfr : firstRootedVariant κ t.concatenation = false) {n : Nat} {P : Str}
    (hs : prefixGo κ 0 t.concatenation none none = (n, P)) :
    cutToks κ t = t.concatenation.take n := by
  unfold cutToks
  rw [itp_unrooted hfr, hs]

theorem casingHyp_append_left {σ : Sem} {κ : Casing} {a b : List Tok}
    (h : CasingHyp σ κ (a ++ b)) : CasingHyp σ κ a := by
  rcases h with h | h
  · rw [ciFreeL_append, Bool.and_eq_true] at h
    exact .inl h.1
  · exact .inr h

/-! ### F. the theorem -/

/-- **C08, every shape, language half** under the weaker hypothesis `partLangOk` -/
theorem partition_lang_all_core (σ : Sem) (κ : Casing) (t : Tok)
    (hc : CasingHyp σ κ (cutToks κ t)) (hok : partLangOk κ t = true) : PartLang σ κ t := by
  by_cases hfr : firstRootedVariant κ t.concatenation = true
  · unfold partLangOk at hok
    simp only [hfr, ↓reduceIte] at hok
    split at hok
    · exact partLang_root σ κ _ _ _
    · cases hok
  · have hfr' : firstRootedVariant κ t.concatenation = false := by simpa using hfr
    rcases scan_cases κ t.concatenation with ⟨fs, hfs, hs⟩ |
      ⟨inv, v, rest, fs, hts, hinv, hv, hb, hs⟩ | ⟨hne, hs⟩ |
      ⟨pre, s, mid, v, rest, fs, hts, hpre, hm, hv, hb, hs⟩
    · rw [partLangOk_unrooted hfr' hs] at hok
      rw [cutToks_unrooted hfr' hs] at hc
      simp only [List.take_length, Bool.and_eq_true] at hok hc
      exact partLang_invariant σ κ t hc fs hok.1 hfs
    · obtain ⟨st, rt, rfl⟩ := variant_boundary_is_tree hv hb
      cases inv with
      | nil =>
        simp only [textCat, TVar.inv.injEq] at hinv
        subst hinv
        exact partLang_zero σ κ t hfr' (by rw [hts]; simp) hs
      | cons f more =>
        have h2 : 2 ≤ t.concatenation.length := by rw [hts]; simp; omega
        obtain ⟨sp, ht⟩ := cat_of_concatenation_length h2
        rw [cutToks_unrooted hfr' hs, hts, List.take_left] at hc
        rw [hts] at ht
        subst ht
        exact partLang_tree σ κ sp st rt (f :: more) hc fs (by simp) hinv rest hok
    · exact partLang_zero σ κ t hfr' hne hs
    · have h2 : 2 ≤ t.concatenation.length := by rw [hts]; simp; omega
      obtain ⟨sp, ht⟩ := cat_of_concatenation_length h2
      have hc' : CasingHyp σ κ pre := by
        rw [cutToks_unrooted hfr' hs, hts] at hc
        have e : pre ++ .sep s :: (mid ++ v :: rest) = (pre ++ [.sep s]) ++ (mid ++ v :: rest) := by
          simp
        rw [e, List.take_left' (by simp)] at hc
        exact casingHyp_append_left hc
      rw [hts] at ht
      subst ht
      exact partLang_sep σ κ sp s pre hc' fs hpre mid hm v rest hv hb hok

/-! ### G. the postfix is not rooted, is a fixed point; the prefix has no pattern -/

theorem keptToks_cat (κ : Casing) (sp : Span) (ts : List Tok) :
    keptToks κ (.cat sp ts) = ts.drop (invariantTextPrefix κ (.cat sp ts)).1 := rfl

theorem partLangOk_not_bare_rooted_tree {κ : Casing} {t : Tok} (hok : partLangOk κ t = true) :
    ∀ st, t ≠ .tree st true := by
  intro st e
  subst e
  have : partLangOk κ (.tree st true) = false := rfl
  rw [this] at hok
  cases hok

/-- **the rootedness of the postfix is that of the first kept token, unrooted** (every shape) -/
theorem hasRoot_postfix (κ : Casing) (t : Tok) (P : Str) (off : Nat) (q : Tok)
    (h : partition κ t = (P, off, some q)) (hnt : ∀ st, t ≠ .tree st true) :
    ∃ f more, keptToks κ t = f :: more ∧ hasRoot q = hasRoot (unroot f).1 := by
  by_cases hcat : ∃ sp ts, t = .cat sp ts
  · obtain ⟨sp, ts, rfl⟩ := hcat
    obtain ⟨_, first, more, hd, rfl⟩ := partition_cat_some κ sp ts P off q h
    refine ⟨first, more, by rw [keptToks_cat, hd], ?_⟩
    rw [hasRoot_mapSpans]
    rfl
  · have hnc : ∀ sp ts, t ≠ .cat sp ts := fun sp ts e => hcat ⟨sp, ts, e⟩
    rw [partition_noncat κ t hnc] at h
    by_cases h0 : ((invariantTextPrefix κ t).1 == 0) = true
    · simp only [h0, ↓reduceIte, Prod.mk.injEq, Option.some.injEq] at h
      obtain ⟨_, _, rfl⟩ := h
      have hn : (invariantTextPrefix κ t).1 = 0 := by simpa using h0
      refine ⟨t, [], ?_, ?_⟩
      · unfold keptToks
        rw [hn, concatenation_noncat t hnc]
        rfl
      · have : unroot t = (t, 0) := by
          cases t with
          | tree st r =>
            cases r with
            | true => exact absurd rfl (hnt st)
            | false => rfl
          | _ => rfl
        rw [this]
    · simp [h0] at h

/-- **the postfix is not (certainly) rooted** -/
theorem postfix_unrooted (κ : Casing) (t : Tok) (hok : partOk κ t = true) {P : Str} {off : Nat}
    {q : Tok} (h : partition κ t = (P, off, some q)) : hasRoot q ≠ .always := by
  unfold partOk at hok
  rw [Bool.and_eq_true] at hok
  obtain ⟨f, more, hk, hr⟩ := hasRoot_postfix κ t P off q h (partLangOk_not_bare_rooted_tree hok.1)
  have h2 := hok.2
  unfold keptUnrooted at h2
  rw [hk] at h2
  rw [hr]
  simpa using h2

/-- the stronger reading of C08 ("never rooted") under the correspondingly stronger hypothesis -/
theorem postfix_never_rooted (κ : Casing) (t : Tok) (hok : partLangOk κ t = true) {P : Str}
    {off : Nat} {q : Tok} (h : partition κ t = (P, off, some q))
    (hn : ∀ f more, keptToks κ t = f :: more → hasRoot (unroot f).1 = .never) :
    hasRoot q = .never := by
  obtain ⟨f, more, hk, hr⟩ := hasRoot_postfix κ t P off q h (partLangOk_not_bare_rooted_tree hok)
  rw [hr]
  exact hn f more hk

/-- **partitioning the postfix again yields the empty prefix and the same postfix** -/
theorem partition_again (κ : Casing) (t : Tok) (hok : partOk κ t = true) {P : Str} {off : Nat}
    {q : Tok} (h : partition κ t = (P, off, some q)) : partition κ q = ([], 0, some q) := by
  refine partition_idempotent κ t P off q h ?_
  have hr := postfix_unrooted κ t hok h
  cases hc : q.concatenation with
  | nil => rfl
  | cons f more =>
    rw [hasRoot_of_concatenation hc] at hr
    have : (hasRoot f == When.always) = false := by simpa using hr
    simp only [firstRootedVariant, this, Bool.false_and]

/-- **the prefix contains no pattern** (every shape, no hypothesis): it is the text of the removed
tokens, all of which are text-invariant; or the glob begins with a rooted variant token, nothing
is removed and the prefix is the root `/` -/
theorem prefix_no_pattern (κ : Casing) (t : Tok) :
    (∃ fs, textCat κ (cutToks κ t) = .inv fs ∧ (partition κ t).1 = fragsToStr fs) ∨
    (firstRootedVariant κ t.concatenation = true ∧ cutToks κ t = [] ∧ (partition κ t).1 = ['/']) := by
  rw [partition_fst]
  by_cases hfr : firstRootedVariant κ t.concatenation = true
  · right
    have : invariantTextPrefix κ t = (0, ['/']) := by
      unfold invariantTextPrefix
      simp only [hfr, ↓reduceIte]
    refine ⟨hfr, ?_, by rw [this]⟩
    unfold cutToks
    rw [this]
    rfl
  · left
    have hfr' : firstRootedVariant κ t.concatenation = false := by simpa using hfr
    unfold cutToks
    rw [itp_unrooted hfr']
    rcases scan_cases κ t.concatenation with ⟨fs, hfs, hs⟩ |
      ⟨inv, v, rest, fs, hts, hinv, hv, hb, hs⟩ | ⟨hne, hs⟩ |
      ⟨pre, s, mid, v, rest, fs, hts, hpre, hm, hv, hb, hs⟩
    · rw [hs]
      exact ⟨fs, by simpa using hfs, rfl⟩
    · rw [hs, hts]
      exact ⟨fs, by simpa using hinv, rfl⟩
    · rw [hs]
      exact ⟨[], rfl, rfl⟩
    · rw [hs, hts]
      have e : pre ++ .sep s :: (mid ++ v :: rest) = (pre ++ [.sep s]) ++ (mid ++ v :: rest) := by simp
      obtain ⟨fs', h1, h2⟩ := textCat_append_inv κ pre [.sep s] fs [.str ['/']] hpre rfl
      refine ⟨fs', ?_, ?_⟩
      · simp only
        rw [e, List.take_left' (by simp)]
        exact h1
      · rw [h2]; rfl

/-! ### H. the headline theorem -/

/--
**C08, ONE theorem for every shape** (`partition_lang_all_partial`).  For every token tree `t`
(concatenation or single token, parser-shaped or not) with `partOk κ t`:

* if `partition` leaves a postfix `q` after the prefix `P`: `t` matches `w` iff `w = Path::join(P, r)`
  for an `r` that `q` matches as a glob of its own, or `q` is exactly the tree wildcard and `w` is
  the bare prefix (`P/**`); `q` is not rooted; partitioning `q` again returns the empty prefix and
  `q` itself;
* if it leaves none: `t` matches exactly the prefix;
* the prefix is the text of the removed, text-invariant tokens (or the root `/` of the rooted tree
  wildcard the glob begins with).

Partial, in exactly this sense (FULL statement: the same with `partOk` dropped, which is FALSE, see
the counterexamples in section J):
`partOk` (decidable, section "definitions") excludes (1) a rooted variant first token other than
the rooted tree wildcard, (2) removed tokens that are not `wellL`, (3) a tree wildcard cut after an
empty prefix text or one that ends with a separator, (4) a separator cut before something whose
meaning depends on what precedes it (`leadBadF`), (5) a first kept token that is certainly rooted;
`hc : CasingHyp σ κ (cutToks κ t)` is the casing hypothesis of `text_exact`, needed only if a removed
token contains a case-insensitive literal (`.inl (by decide)` otherwise, `.inr ⟨hσ, hκ⟩` always). -/
theorem partition_lang_all_partial (σ : Sem) (κ : Casing) (t : Tok)
    (hc : CasingHyp σ κ (cutToks κ t)) (hok : partOk κ t = true) :
    (∀ P off q, partition κ t = (P, off, some q) →
      (∀ w, Spec.Matches σ t w ↔
        (∃ r, w = joinPath P r ∧ Spec.Matches σ q r) ∨ (bareTree q = true ∧ w = P)) ∧
      hasRoot q ≠ .always ∧ partition κ q = ([], 0, some q)) ∧
    (∀ P off, partition κ t = (P, off, none) → ∀ w, Spec.Matches σ t w ↔ w = P) ∧
    ((∃ fs, textCat κ (cutToks κ t) = .inv fs ∧ (partition κ t).1 = fragsToStr fs) ∨
      ((partition κ t).1 = ['/'] ∧ ∃ sp st rest, t = .cat sp (.tree st true :: rest))) := by
  have hlang : partLangOk κ t = true := by
    unfold partOk at hok
    rw [Bool.and_eq_true] at hok
    exact hok.1
  obtain ⟨h1, h2⟩ := partition_lang_all_core σ κ t hc hlang
  refine ⟨fun P off q h => ⟨h1 P off q h, postfix_unrooted κ t hok h, partition_again κ t hok h⟩,
    h2, ?_⟩
  rcases prefix_no_pattern κ t with h | ⟨hfr, _, hP⟩
  · exact .inl h
  · right
    refine ⟨hP, ?_⟩
    unfold partLangOk at hlang
    simp only [hfr, ↓reduceIte] at hlang
    split at hlang
    · exact ⟨_, _, _, rfl⟩
    · cases hlang

/-! ### I. the shapes of the five partial theorems satisfy the hypothesis -/

theorem wellL_concatenation {t : Tok} (h : wellT t = true) : wellL t.concatenation = true := by
  cases t with
  | cat sp ts => simpa [wellT, Tok.concatenation] using h
  | _ => simpa [wellL, Tok.concatenation] using h

theorem firstRootedVariant_of_textCat {κ : Casing} {ts : List Tok} {fs : List Frag}
    (h : textCat κ ts = .inv fs) : firstRootedVariant κ ts = false := by
  cases ts with
  | nil => rfl
  | cons f more =>
    obtain ⟨a, _, ha, _, _⟩ := textCat_cons_inv h
    exact firstRootedVariant_inv ha

/-- `partition_invariant` (wholly invariant glob) is the `none` case of the theorem -/
theorem partOk_of_invariant (κ : Casing) (t : Tok) (fs : List Frag) (hw : wellT t = true)
    (h : textTok κ t = .inv fs) : partOk κ t = true := by
  rw [← textCat_concatenation] at h
  have hfr := firstRootedVariant_of_textCat h
  have hs := prefixGo_all_inv κ t.concatenation fs h
  unfold partOk
  rw [partLangOk_unrooted hfr hs]
  unfold keptUnrooted keptToks
  rw [itp_unrooted hfr, hs]
  simp only [List.take_length, wellL_concatenation hw, List.drop_length, keptCond, Bool.or_true,
    Bool.and_self]

/-- `partition_none` (variant, not certainly rooted first token) is the zero case of the theorem -/
theorem partOk_of_none (κ : Casing) (t f : Tok) (more : List Tok)
    (hc : t.concatenation = f :: more) (hv : ∀ fs, textTok κ f ≠ .inv fs)
    (hr : hasRoot f ≠ .always) : partOk κ t = true := by
  have hfr : firstRootedVariant κ t.concatenation = false := by
    rw [hc]
    have : (hasRoot f == When.always) = false := by simpa using hr
    simp only [firstRootedVariant, this, Bool.false_and]
  have hs : prefixGo κ 0 t.concatenation none none = (0, []) := by
    rw [hc, prefixGo_var_step κ hv]
    cases isBoundaryTok f <;> rfl
  unfold partOk
  rw [partLangOk_unrooted hfr hs]
  unfold keptUnrooted keptToks
  rw [itp_unrooted hfr, hs, hc]
  simp only [List.take_zero, wellL, BEq.rfl, Bool.true_or, Bool.and_self, List.drop_zero,
    unroot_not_always hr, Bool.true_and]
  simpa using hr

/-- `partition_invariant_mid_partial` (and `partition_invariant_branches_partial`, its `mid = []`):
the language hypothesis holds; with a never / sometimes rooted first kept token, all of `partOk` -/
theorem partLangOk_of_sep_mid (κ : Casing) (sp s : Span) (pre : List Tok) (fs : List Frag)
    (hw : wellL pre = true) (hpre : textCat κ pre = .inv fs) (mid : List Tok)
    (hmid : mid.all (isMid κ) = true) (v : Tok) (more : List Tok) (hv1 : isInv κ v = false)
    (hv2 : isBoundaryTok v = false) (hlead : leadTreeF (mid ++ v :: more) = false) :
    partLangOk κ (.cat sp (pre ++ .sep s :: (mid ++ v :: more))) = true := by
  have hfr : firstRootedVariant κ (Tok.cat sp (pre ++ .sep s :: (mid ++ v :: more))).concatenation
      = false := firstRootedVariant_invs_sep κ pre fs hpre s _
  have hs := prefixGo_sep_mid κ pre fs hpre s mid hmid v more hv1 hv2
  have htake : (pre ++ .sep s :: (mid ++ v :: more)).take (pre.length + 1) = pre ++ [.sep s] := by
    have : pre ++ .sep s :: (mid ++ v :: more) = (pre ++ [.sep s]) ++ (mid ++ v :: more) := by simp
    rw [this, List.take_left' (by simp)]
  have hdrop : (pre ++ .sep s :: (mid ++ v :: more)).drop (pre.length + 1) = mid ++ v :: more := by
    have : pre ++ .sep s :: (mid ++ v :: more) = (pre ++ [.sep s]) ++ (mid ++ v :: more) := by simp
    rw [this, List.drop_left' (by simp)]
  obtain ⟨first, rest', hk, hfb⟩ := kept_head_nonboundary mid hmid v hv2 more
  rw [partLangOk_unrooted hfr hs]
  simp only [Tok.concatenation, htake, hdrop, wellL_append, hw, wellL, wellT, Bool.and_self,
    Bool.true_and]
  rw [hk, keptCond_nonboundary _ rest' hfb, ← hk, leadBadF_of_leadTree _ true hlead]
  simp

theorem spells_textCat (κ : Casing) {loc : Nat} {pre : List Tok} {P : Str} (hs : Spells loc pre P) :
    ∃ fs, textCat κ pre = .inv fs ∧ fragsToStr fs = P ∧ wellL pre = true ∧ ciFreeL pre = true := by
  induction hs with
  | nil loc => exact ⟨[], rfl, rfl, rfl, rfl⟩
  | lit loc w ts s' hw _ _ _ ih =>
    obtain ⟨b, hb, hbt, hbw, hbc⟩ := ih
    obtain ⟨fs, h1, h2⟩ := textCat_cons_of_inv (κ := κ) (t := .lit ⟨loc, ulen (escape w)⟩ w false)
      (a := [.nom w]) (by simp [textTok]) hb
    exact ⟨fs, h1, by rw [h2, hbt]; simp [fragsToStr, Frag.text], by simp [wellL, wellT, hbw],
      by simp [ciFreeL, ciFree, hbc]⟩
  | sep loc ts s' _ ih =>
    obtain ⟨b, hb, hbt, hbw, hbc⟩ := ih
    obtain ⟨fs, h1, h2⟩ := textCat_cons_of_inv (κ := κ) (t := .sep ⟨loc, 1⟩)
      (a := [.str ['/']]) rfl hb
    exact ⟨fs, h1, by rw [h2, hbt]; simp [fragsToStr, Frag.text], by simp [wellL, wellT, hbw],
      by simp [ciFreeL, ciFree, hbc]⟩

/-- what is removed at a separator cut -/
theorem cutToks_sep_mid (κ : Casing) (sp s : Span) (pre : List Tok) (fs : List Frag)
    (hpre : textCat κ pre = .inv fs) (mid : List Tok) (hmid : mid.all (isMid κ) = true) (v : Tok)
    (more : List Tok) (hv1 : isInv κ v = false) (hv2 : isBoundaryTok v = false) :
    cutToks κ (.cat sp (pre ++ .sep s :: (mid ++ v :: more))) = pre ++ [.sep s] := by
  have hfr : firstRootedVariant κ (Tok.cat sp (pre ++ .sep s :: (mid ++ v :: more))).concatenation
      = false := firstRootedVariant_invs_sep κ pre fs hpre s _
  have hs : prefixGo κ 0 (Tok.cat sp (pre ++ .sep s :: (mid ++ v :: more))).concatenation none none =
      (pre.length + 1, fragsToStr fs ++ ['/']) := prefixGo_sep_mid κ pre fs hpre s mid hmid v more hv1 hv2
  rw [cutToks_unrooted hfr hs]
  have : pre ++ .sep s :: (mid ++ v :: more) = (pre ++ [.sep s]) ++ (mid ++ v :: more) := by simp
  simp only [Tok.concatenation]
  rw [this, List.take_left' (by simp)]

/-- `partition_lang_partial` (literal / separator prefix) -/
theorem partLangOk_of_spells (κ : Casing) (sp s : Span) {loc : Nat} {pre : List Tok} {P : Str}
    (hs : Spells loc pre P) (v : Tok) (more : List Tok) (hv1 : ∀ fs, textTok κ v ≠ .inv fs)
    (hv2 : isBoundaryTok v = false) (hlead : leadTree v = false) :
    partLangOk κ (.cat sp (pre ++ .sep s :: v :: more)) = true := by
  obtain ⟨fs, hfs, _, hw, _⟩ := spells_textCat κ hs
  exact partLangOk_of_sep_mid κ sp s pre fs hw hfs [] rfl v more (isInv_false.mpr hv1) hv2
    (by simpa [leadTreeF] using hlead)

/-- `partition_tree_boundary_partial`, where its string formula IS `Path::join` (the prefix text is
not empty and does not end with a separator): all of `partOk`, for either `hasRoot` flag -/
theorem partOk_of_tree_boundary (κ : Casing) (sp st : Span) (rt : Bool) (pre : List Tok)
    (fs : List Frag) (hne : pre ≠ []) (hw : wellL pre = true) (hpre : textCat κ pre = .inv fs)
    (hP : endsNonSep (fragsToStr fs) = true) (rest : List Tok) :
    partOk κ (.cat sp (pre ++ .tree st rt :: rest)) = true := by
  have hfr : firstRootedVariant κ (Tok.cat sp (pre ++ .tree st rt :: rest)).concatenation = false := by
    cases pre with
    | nil => exact absurd rfl hne
    | cons f more =>
      obtain ⟨a, _, ha, _, _⟩ := textCat_cons_inv hpre
      exact firstRootedVariant_inv ha
  have hs : prefixGo κ 0 (Tok.cat sp (pre ++ .tree st rt :: rest)).concatenation none none =
      (pre.length, fragsToStr fs) := prefixGo_inv_boundary κ pre fs hpre (.tree st rt) rest rfl rfl
  have htake : (pre ++ .tree st rt :: rest).take pre.length = pre := List.take_left
  have hdrop : (pre ++ .tree st rt :: rest).drop pre.length = .tree st rt :: rest := List.drop_left
  unfold partOk
  rw [partLangOk_unrooted hfr hs]
  unfold keptUnrooted keptToks
  rw [itp_unrooted hfr, hs]
  simp only [Tok.concatenation, htake, hdrop, hw, keptCond_tree, hP, Bool.or_true, Bool.and_self,
    Bool.true_and]
  cases rt <;> rfl

/-- `partition_tree_root` -/
theorem partOk_of_tree_root (κ : Casing) (sp st : Span) (rest : List Tok) :
    partOk κ (.cat sp (.tree st true :: rest)) = true := rfl

/-- a worked corollary: the language conjunct of `partition_invariant_mid_partial`, verbatim, from
the general theorem (the value of `partition` is the function half of the old theorem) -/
theorem partition_invariant_mid_from_all (σ : Sem) (κ : Casing) (hσ : CeqRefl σ) (hκ : CasingOk σ κ)
    (sp s : Span) (pre : List Tok) (fs : List Frag) (hw : wellL pre = true)
    (hpre : textCat κ pre = .inv fs) (mid : List Tok) (hmid : mid.all (isMid κ) = true)
    (v : Tok) (more : List Tok) (hv1 : isInv κ v = false) (hv2 : isBoundaryTok v = false)
    (hlead : leadTreeF (mid ++ v :: more) = false) :
    ∀ w, Spec.Matches σ (.cat sp (pre ++ .sep s :: (mid ++ v :: more))) w ↔
      ∃ r, w = fragsToStr fs ++ '/' :: r ∧
        Spec.Matches σ ((Tok.cat sp (mid ++ v :: more)).mapSpans (shiftSpan (spanSum pre + s.len))) r := by
  intro w
  have hval := (partition_invariant_mid_partial σ κ hσ hκ sp s pre fs hw hpre mid hmid v more hv1 hv2
    hlead).1
  have hok := partLangOk_of_sep_mid κ sp s pre fs hw hpre mid hmid v more hv1 hv2 hlead
  rw [(partition_lang_all_core σ κ _ (.inr ⟨hσ, hκ⟩) hok).1 _ _ _ hval w,
    bare_absorbed σ (endsNonSep_sep _)]
  simp only [joinPath_sep]

/-- a worked corollary: `partition_lang_partial`, verbatim (no hypothesis on the comparison: a
literal / separator prefix contains no case-insensitive literal) -/
theorem partition_lang_partial_from_all (σ : Sem) (κ : Casing) (sp s : Span) {loc : Nat}
    {pre : List Tok} {P : Str} (hs : Spells loc pre P) (v : Tok) (more : List Tok)
    (hv1 : ∀ fs, textTok κ v ≠ .inv fs) (hv2 : isBoundaryTok v = false) (hlead : leadTree v = false) :
    ∃ off q, partition κ (.cat sp (pre ++ .sep s :: v :: more)) = (P ++ ['/'], off, some q) ∧
      ∀ w, Spec.Matches σ (.cat sp (pre ++ .sep s :: v :: more)) w ↔
        ∃ r, w = P ++ '/' :: r ∧ Spec.Matches σ q r := by
  obtain ⟨off, q, hval, _⟩ := partition_lang_partial σ κ sp s hs v more hv1 hv2 hlead
  refine ⟨off, q, hval, fun w => ?_⟩
  obtain ⟨fs, hfs, _, _, hci⟩ := spells_textCat κ hs
  have hcut := cutToks_sep_mid κ sp s pre fs hfs [] rfl v more (isInv_false.mpr hv1) hv2
  have hc : CasingHyp σ κ (cutToks κ (.cat sp (pre ++ .sep s :: v :: more))) := by
    left
    rw [List.nil_append] at hcut
    rw [hcut, ciFreeL_append, hci]
    rfl
  have hok := partLangOk_of_spells κ sp s hs v more hv1 hv2 hlead
  rw [(partition_lang_all_core σ κ _ hc hok).1 _ _ _ hval w, bare_absorbed σ (endsNonSep_sep _)]
  simp only [joinPath_sep]

/-- a worked corollary: `partition_invariant`, verbatim -/
theorem partition_invariant_from_all (σ : Sem) (κ : Casing) (hσ : CeqRefl σ) (hκ : CasingOk σ κ)
    (t : Tok) (fs : List Frag) (hw : wellT t = true) (h : textTok κ t = .inv fs) :
    ∀ w, Spec.Matches σ t w ↔ w = fragsToStr fs :=
  (partition_lang_all_partial σ κ t (.inr ⟨hσ, hκ⟩) (partOk_of_invariant κ t fs hw h)).2.1 _ _
    (partition_invariant_fn κ t fs h)

/-- a worked corollary: the language conjuncts of `partition_tree_boundary_partial`, from the
general theorem, where the prefix text does not end with a separator -/
theorem partition_tree_boundary_from_all (σ : Sem) (κ : Casing) (hσ : CeqRefl σ) (hκ : CasingOk σ κ)
    (sp st : Span) (pre : List Tok) (fs : List Frag) (hne : pre ≠ []) (hw : wellL pre = true)
    (hpre : textCat κ pre = .inv fs) (hP : endsNonSep (fragsToStr fs) = true) (rest : List Tok) :
    ∀ w, Spec.Matches σ (.cat sp (pre ++ .tree st true :: rest)) w ↔
      (∃ r, w = fragsToStr fs ++ '/' :: r ∧
        Spec.Matches σ (treePostfix sp st rest (spanSum pre + 1)) r) ∨
      (rest = [] ∧ w = fragsToStr fs) := by
  intro w
  have hval := (partition_tree_boundary_partial σ κ hσ hκ sp st pre fs hne hw hpre rest).1
  have hok := partOk_of_tree_boundary κ sp st true pre fs hne hw hpre hP rest
  rw [((partition_lang_all_partial σ κ _ (.inr ⟨hσ, hκ⟩) hok).1 _ _ _ hval).1 w]
  simp only [joinPath_nonSep hP]
  have : bareTree (treePostfix sp st rest (spanSum pre + 1)) = rest.isEmpty := by
    unfold treePostfix
    rw [bareTree_mapSpans, bareTree_cat_tree]
  rw [this]
  cases rest <;> simp

/-! ### J. every excluded shape: a kernel-checked counterexample -/

namespace PartitionAllEx
open PartitionMoreEx

/-- the documented language, decided (for the concrete negative facts below) -/
theorem specDec (t : Tok) (w : Str) : Spec.Matches σ0 t w ↔ (specRe t).matchB σ0 w = true := by
  rw [matchB_iff, specRe_correct σ0 rfl]

/-- how a counterexample refutes the language equation -/
theorem refute_some {t q : Tok} {P : Str} {off : Nat} (hp : partition κ0 t = (P, off, some q))
    (w r : Str) (hl : ¬ Spec.Matches σ0 t w) (hj : w = joinPath P r) (hr : Spec.Matches σ0 q r) :
    ¬ PartLang σ0 κ0 t :=
  fun h => hl ((h.1 P off q hp w).mpr (.inl ⟨r, hj, hr⟩))

/-- (1) **rooted variant first token that is not the tree wildcard**, `</a:1,>` (K-PART-ROOTED-BRANCH;
`rooting_repetition_breaks_C08` in `PartitionMore.lean`): `partOk` is false and the equation fails -/
theorem cx_rooted_repetition : partLangOk κ0 gRoot = false ∧ ¬ PartLang σ0 κ0 gRoot := by
  refine ⟨by decide, fun h => ?_⟩
  obtain ⟨hp, hm, hno⟩ := rooting_repetition_breaks_C08
  rcases (h.1 _ _ _ hp _).mp hm with ⟨r, hr, hq⟩ | ⟨hb, _⟩
  · exact hno ⟨r, by rw [hr, joinPath_root], hq⟩
  · cases hb

/-- the same for a rooted alternation `{/a,/b}` (token tree; the rule checker rejects the text) -/
def gRootAlt : Tok :=
  .cat ⟨0, 7⟩ [.alt ⟨0, 7⟩ [.cat ⟨1, 2⟩ [.sep ⟨1, 1⟩, .lit ⟨2, 1⟩ ['a'] false],
    .cat ⟨4, 2⟩ [.sep ⟨4, 1⟩, .lit ⟨5, 1⟩ ['b'] false]]]

theorem cx_rooted_alternation : partLangOk κ0 gRootAlt = false ∧ ¬ PartLang σ0 κ0 gRootAlt := by
  refine ⟨by decide, fun h => ?_⟩
  have hp : partition κ0 gRootAlt = (['/'], 0, some gRootAlt) := rfl
  have hm : Spec.Matches σ0 gRootAlt ['/', 'a'] := by rw [specDec]; decide
  rcases (h.1 _ _ _ hp _).mp hm with ⟨r, hr, hq⟩ | ⟨hb, _⟩
  · rw [joinPath_root] at hr
    injection hr with _ hr
    subst hr
    exact absurd hq (by rw [specDec]; decide)
  · cases hb

/-- (2) **a removed token that is not well formed**, `[/]ab` (K-PART-SEPCLASS): the prefix is `/ab`,
nothing is left, and the glob matches nothing -/
def gSepClass : Tok :=
  .cat ⟨0, 5⟩ [.cls ⟨0, 3⟩ false [.chr '/'], .lit ⟨3, 2⟩ ['a', 'b'] false]

theorem cx_separator_class : partLangOk κ0 gSepClass = false ∧ ¬ PartLang σ0 κ0 gSepClass := by
  refine ⟨by decide, fun h => ?_⟩
  have hp : partition κ0 gSepClass = (['/', 'a', 'b'], 5, none) := rfl
  exact absurd ((h.2 _ _ hp _).mpr rfl) (by rw [specDec]; decide)

/-- (3a) **a tree wildcard cut after a prefix that ends with a separator**, `a//**` as a token tree
(the rule checker rejects the text): the prefix is `a/`, `Path::join("a/", "x") = "a/x"`, the
postfix `**` matches `x`, the glob does not match `a/x` -/
def gSepTree : Tok := .cat ⟨0, 5⟩ [.lit ⟨0, 1⟩ ['a'] false, .sep ⟨1, 1⟩, .tree ⟨2, 3⟩ true]

theorem cx_separator_then_tree : partLangOk κ0 gSepTree = false ∧ ¬ PartLang σ0 κ0 gSepTree :=
  ⟨by decide, refute_some (q := .cat ⟨0, 5⟩ [.tree ⟨0, 2⟩ false]) (P := ['a', '/']) (off := 3) rfl
    ['a', '/', 'x'] ['x'] (by rw [specDec]; decide) (by decide) (by rw [specDec]; decide)⟩

/-- (3b) **a tree wildcard cut after tokens with EMPTY text**, `<a:0,0>/**` as a token tree: the
prefix is empty, `Path::join("", "x") = "x"`, the glob matches only rooted paths -/
def gEmptyTree : Tok :=
  .cat ⟨0, 10⟩ [.rep ⟨0, 7⟩ (.cat ⟨1, 1⟩ [.lit ⟨1, 1⟩ ['a'] false]) 0 (some 0), .tree ⟨7, 3⟩ true]

theorem cx_empty_text_then_tree : partLangOk κ0 gEmptyTree = false ∧ ¬ PartLang σ0 κ0 gEmptyTree :=
  ⟨by decide, refute_some (q := .cat ⟨0, 10⟩ [.tree ⟨0, 2⟩ false]) (P := []) (off := 8) rfl
    ['x'] ['x'] (by rw [specDec]; decide) (by decide) (by rw [specDec]; decide)⟩

/-- (4) **a separator cut before something that can begin with an unrooted tree wildcard**,
`a/{**/x,y}` as a token tree (the rule checker rejects the text): after the cut the tree wildcard
is first and matches zero components, so the postfix matches `x`; inside the glob it follows `a/`
and needs a separator of its own, so the glob does not match `a/x` (it matches `a//x`) -/
def gLead : Tok :=
  .cat ⟨0, 10⟩ [.lit ⟨0, 1⟩ ['a'] false, .sep ⟨1, 1⟩,
    .alt ⟨2, 8⟩ [.cat ⟨3, 4⟩ [.tree ⟨3, 3⟩ false, .lit ⟨6, 1⟩ ['x'] false],
      .cat ⟨8, 1⟩ [.lit ⟨8, 1⟩ ['y'] false]]]

theorem cx_lead_tree : partLangOk κ0 gLead = false ∧ ¬ PartLang σ0 κ0 gLead :=
  ⟨by decide, refute_some
    (q := .cat ⟨0, 10⟩ [.alt ⟨0, 8⟩ [.cat ⟨1, 4⟩ [.tree ⟨1, 3⟩ false, .lit ⟨4, 1⟩ ['x'] false],
      .cat ⟨6, 1⟩ [.lit ⟨6, 1⟩ ['y'] false]]]) (P := ['a', '/']) (off := 2) rfl
    ['a', '/', 'x'] ['x'] (by rw [specDec]; decide) (by decide) (by rw [specDec]; decide)⟩

/-- (4') the finer test `leadBadF` is not the coarser `leadTreeF`: a ROOTED tree wildcard that is
not last may lead what is kept, `a/{/**/x,y}` as a token tree: `partOk` holds, the theorem applies -/
def gLeadRooted : Tok :=
  .cat ⟨0, 11⟩ [.lit ⟨0, 1⟩ ['a'] false, .sep ⟨1, 1⟩,
    .alt ⟨2, 9⟩ [.cat ⟨3, 5⟩ [.tree ⟨3, 4⟩ true, .lit ⟨7, 1⟩ ['x'] false],
      .cat ⟨9, 1⟩ [.lit ⟨9, 1⟩ ['y'] false]]]

example : leadTreeF (keptToks κ0 gLeadRooted) = true ∧ partLangOk κ0 gLeadRooted = true := by decide

/-- (5) **a first kept token that is certainly rooted**, `{/a}*` as a token tree (the rule checker
rejects the text): nothing is removed, the language equation holds trivially (`partLangOk`), but
the postfix is the glob itself and is rooted -/
def gKeptRooted : Tok :=
  .cat ⟨0, 5⟩ [.alt ⟨0, 4⟩ [.cat ⟨1, 2⟩ [.sep ⟨1, 1⟩, .lit ⟨2, 1⟩ ['a'] false]], .zom ⟨4, 1⟩ false]

theorem cx_kept_rooted : partLangOk κ0 gKeptRooted = true ∧ partOk κ0 gKeptRooted = false ∧
    partition κ0 gKeptRooted = ([], 0, some gKeptRooted) ∧ hasRoot gKeptRooted = .always :=
  ⟨by decide, by decide, rfl, by decide⟩

/-- a single rooted tree wildcard that is not inside a concatenation (never produced by the parser)
is not unrooted by `partition` -/
theorem cx_bare_rooted_tree : partLangOk κ0 (.tree ⟨0, 3⟩ true) = false ∧
    partition κ0 (.tree ⟨0, 3⟩ true) = (['/'], 0, some (.tree ⟨0, 3⟩ true)) ∧
    ¬ PartLang σ0 κ0 (.tree ⟨0, 3⟩ true) := by
  refine ⟨rfl, rfl, fun h => ?_⟩
  have hm : Spec.Matches σ0 (.tree ⟨0, 3⟩ true) ['/'] := by rw [specDec]; decide
  rcases (h.1 _ _ _ rfl _).mp hm with ⟨r, hr, hq⟩ | ⟨hb, _⟩
  · rw [joinPath_root] at hr
    injection hr with _ hr
    subst hr
    exact absurd hq (by rw [specDec]; decide)
  · cases hb

/-- (6) **the casing hypothesis**: `(?i)a/*` with a comparison that folds `a` and `A` and a casing
table that does not know it: `partOk` holds, the prefix is `a/`, but the glob matches `A/` -/
def σfold : Sem :=
  ⟨fun a b => a == b || (a == 'a' && b == 'A') || (a == 'A' && b == 'a'), true⟩

def gCi : Tok := .cat ⟨0, 7⟩ [.lit ⟨0, 5⟩ ['a'] true, .sep ⟨5, 1⟩, .zom ⟨6, 1⟩ false]

theorem cx_casing : partOk κ0 gCi = true ∧ ciFreeL (cutToks κ0 gCi) = false ∧
    ¬ CasingOk σfold κ0 ∧ ¬ PartLang σfold κ0 gCi := by
  refine ⟨by decide, by decide, fun h => ?_, fun h => ?_⟩
  · exact absurd (h 'a' 'A' (by decide) (by decide)) (by decide)
  · have hp : partition κ0 gCi = (['a', '/'], 6, some (.cat ⟨0, 7⟩ [.zom ⟨0, 1⟩ false])) := rfl
    have hm : Spec.Matches σfold gCi ['A', '/'] := by
      rw [← specRe_correct σfold rfl, ← matchB_iff]; decide
    rcases (h.1 _ _ _ hp _).mp hm with ⟨r, hr, _⟩ | ⟨hb, _⟩
    · simp [joinPath] at hr
    · cases hb

/-! ### K. the hypothesis is satisfiable: the theorem on concrete globs of every shape -/

/-- `{a}/<b:2>/c*.rs`: separator cut, invariant alternation and repetition in the prefix, an
invariant literal kept with the postfix -/
def gMid : Tok :=
  .cat ⟨0, 15⟩ (pre3 ++ .sep ⟨9, 1⟩ :: ([.lit ⟨10, 1⟩ ['c'] false] ++
    .zom ⟨11, 1⟩ false :: [.lit ⟨12, 3⟩ ['.', 'r', 's'] false]))

def qMid : Tok :=
  .cat ⟨0, 15⟩ [.lit ⟨0, 1⟩ ['c'] false, .zom ⟨1, 1⟩ false, .lit ⟨2, 3⟩ ['.', 'r', 's'] false]

example : partOk κ0 gMid = true := by decide

example : partition κ0 gMid = (['a', '/', 'b', 'b', '/'], 10, some qMid) ∧
    (∀ w, Spec.Matches σ0 gMid w ↔ ∃ r, w = ['a', '/', 'b', 'b', '/'] ++ r ∧ Spec.Matches σ0 qMid r) ∧
    hasRoot qMid ≠ .always ∧ partition κ0 qMid = ([], 0, some qMid) := by
  have hp : partition κ0 gMid = (['a', '/', 'b', 'b', '/'], 10, some qMid) := rfl
  obtain ⟨hl, hr, ha⟩ := (partition_lang_all_partial σ0 κ0 gMid (.inl (by decide)) (by decide)).1 _ _ _ hp
  refine ⟨hp, fun w => ?_, hr, ha⟩
  rw [hl w, bare_absorbed σ0 (by decide)]
  rfl

/-- `[a]/**/b*`: tree boundary, class prefix -/
def gTree : Tok :=
  .cat ⟨0, 9⟩ [.cls ⟨0, 3⟩ false [.chr 'a'], .tree ⟨3, 4⟩ true, .lit ⟨7, 1⟩ ['b'] false,
    .zom ⟨8, 1⟩ false]

def qTree : Tok := .cat ⟨0, 9⟩ [.tree ⟨0, 3⟩ false, .lit ⟨3, 1⟩ ['b'] false, .zom ⟨4, 1⟩ false]

example : partOk κ0 gTree = true ∧ partition κ0 gTree = (['a'], 4, some qTree) ∧
    ∀ w, Spec.Matches σ0 gTree w ↔ ∃ r, w = 'a' :: '/' :: r ∧ Spec.Matches σ0 qTree r := by
  have hp : partition κ0 gTree = (['a'], 4, some qTree) := rfl
  obtain ⟨hl, _, _⟩ := (partition_lang_all_partial σ0 κ0 gTree (.inl (by decide)) (by decide)).1 _ _ _ hp
  refine ⟨by decide, hp, fun w => ?_⟩
  rw [hl w]
  have : bareTree qTree = false := rfl
  simp only [this, Bool.false_eq_true, false_and, or_false]
  rfl

/-- `a/**`: the bare prefix -/
def gBare : Tok := .cat ⟨0, 4⟩ [.lit ⟨0, 1⟩ ['a'] false, .tree ⟨1, 3⟩ true]

example : partOk κ0 gBare = true ∧
    ∀ w, Spec.Matches σ0 gBare w ↔ (∃ r, w = 'a' :: '/' :: r) ∨ w = ['a'] := by
  have hp : partition κ0 gBare = (['a'], 2, some (.cat ⟨0, 4⟩ [.tree ⟨0, 2⟩ false])) := rfl
  obtain ⟨hl, _, _⟩ := (partition_lang_all_partial σ0 κ0 gBare (.inr ⟨hσ0, hκ0⟩) (by decide)).1 _ _ _ hp
  refine ⟨by decide, fun w => ?_⟩
  rw [hl w]
  have hb : bareTree (.cat ⟨0, 4⟩ [.tree ⟨0, 2⟩ false]) = true := rfl
  constructor
  · rintro (⟨r, hr, _⟩ | ⟨_, h⟩)
    · exact .inl ⟨r, hr⟩
    · exact .inr h
  · rintro (⟨r, hr⟩ | h)
    · exact .inl ⟨r, hr, bareTree_matches σ0 hb r⟩
    · exact .inr ⟨hb, h⟩

/-- `/**/a`: the root -/
example : partOk κ0 (.cat ⟨0, 5⟩ [.tree ⟨0, 4⟩ true, .lit ⟨4, 1⟩ ['a'] false]) = true := rfl

/-- `{a}/b`: wholly invariant -/
example : partOk κ0 g1 = true ∧ ∀ w, Spec.Matches σ0 g1 w ↔ w = ['a', '/', 'b'] :=
  ⟨by decide, (partition_lang_all_partial σ0 κ0 g1 (.inl (by decide)) (by decide)).2.1 _ _
    (rfl : partition κ0 g1 = (['a', '/', 'b'], 5, none))⟩

/-- `{a,b}/c`: no prefix -/
example : partOk κ0 g2 = true := by decide

end PartitionAllEx

end Wax
