import Wax.Proofs.RuleAdjNested
/-!
C06, rules R1 / R2, the COMPLETENESS direction, generic in the leaf predicate `p`: if every flat
expansion of a tree is free of adjacent `p`-leaves, then the adjacency part of the rule checker
(`adjBody`: the `p`-clauses of `checkBranchOk` / `checkRepetitionOk` and the window rule of each
concatenation, with the checker's own inheritance of the outer neighbours) accepts.

The invariant is a *context*: a non-empty family of left and right contexts `(u, v)` such that
`u ++ l ++ v` is adjacency-free for every expansion `l` of the sub-tree, and such that whenever the
inherited neighbour can end (start) with a `p`-leaf some left (right) context does.
-/
set_option linter.unusedSimpArgs false
namespace Wax
namespace AdjN

/-! ### the adjacency part of the checker -/

def genOk (q : Tok → Bool) (o : Outer) (ts : Terms) : Bool :=
  !(q ts.start && endsWith q o.left) && !(q ts.end_ && startsWith q o.right)
def selfOk (q : Tok → Bool) (self : Bool) (ts : Terms) : Bool := !(self && q ts.start && q ts.end_)

mutual
  def adjBody (q : Tok → Bool) (win self : Bool) (o : Outer) : Tok → Bool
    | .cat _ ts => (!win || noAdjT q ts) && adjSeq q win self o none ts
    | .alt _ bs => adjBranches q win self o bs
    | .rep _ b _ _ =>
      termsOk (fun ts => genOk q o ts && selfOk q self ts) b && adjBody q win self o b
    | _ => true
  def adjSeq (q : Tok → Bool) (win self : Bool) (inh : Outer) (prev : Option Tok) : List Tok → Bool
    | [] => true
    | a :: rest =>
      adjBody q win self (inh.or prev rest.head?) a && adjSeq q win self inh (some (respan a)) rest
  def adjBranches (q : Tok → Bool) (win self : Bool) (o : Outer) : List Tok → Bool
    | [] => true
    | b :: bs => termsOk (genOk q o) b && adjBody q win self o b && adjBranches q win self o bs
end

mutual
  /-- a repetition that cannot iterate twice does not both start and end with a `q`-leaf
  (the checker applies the self-adjacency rule whatever the bounds are) -/
  def onceOpen (q : Tok → Bool) : Tok → Bool
    | .alt _ bs => onceOpenL q bs
    | .cat _ ts => onceOpenL q ts
    | .rep _ b _ hi => (!onceOnly hi || !(startQ q b && endQ q b)) && onceOpen q b
    | _ => true
  def onceOpenL (q : Tok → Bool) : List Tok → Bool
    | [] => true
    | t :: ts => onceOpen q t && onceOpenL q ts
end

/-! ### lists -/

theorem noAdj_append_inv (p : LK → Bool) : ∀ (c r : List LK), noAdj p (c ++ r) = true →
    noAdj p c = true ∧ noAdj p r = true ∧ (lastP p c = true → headP p r = false)
  | [], r, h => ⟨rfl, by simpa using h, fun e => by simp [lastP] at e⟩
  | [a], [], _ => ⟨rfl, rfl, fun _ => rfl⟩
  | [a], b :: r, h => by
    simp only [List.cons_append, List.nil_append, noAdj, Bool.and_eq_true, Bool.not_eq_true',
      Bool.and_eq_false_iff] at h
    refine ⟨rfl, h.2, ?_⟩
    intro ha
    simp only [lastP] at ha
    rcases h.1 with h1 | h1
    · rw [ha] at h1; cases h1
    · simpa [headP] using h1
  | a :: b :: c, r, h => by
    simp only [List.cons_append, noAdj, Bool.and_eq_true] at h
    obtain ⟨i1, i2, i3⟩ := noAdj_append_inv p (b :: c) r (by simpa using h.2)
    exact ⟨by simp only [noAdj, Bool.and_eq_true]; exact ⟨h.1, i1⟩, i2, by simpa [lastP] using i3⟩

theorem noAdj_mid (p : LK → Bool) {u l v : List LK} (h : noAdj p (u ++ l ++ v) = true) :
    noAdj p l = true :=
  (noAdj_append_inv p u l (noAdj_append_inv p (u ++ l) v h).1).2.1

theorem headP_ne {p : LK → Bool} {l : List LK} (h : headP p l = true) : l ≠ [] := by
  intro e; subst e; cases h
theorem lastP_ne {p : LK → Bool} {l : List LK} (h : lastP p l = true) : l ≠ [] := by
  intro e; subst e; cases h

/-- a left context that ends with `p` next to an expansion that starts with `p` -/
theorem seam_left (p : LK → Bool) {u l v : List LK} (hu : lastP p u = true) (hl : headP p l = true) :
    noAdj p (u ++ l ++ v) = false := by
  cases h : noAdj p (u ++ l ++ v) with
  | false => rfl
  | true =>
    have := (noAdj_append_inv p u l (noAdj_append_inv p (u ++ l) v h).1).2.2 hu
    rw [hl] at this; cases this

theorem seam_right (p : LK → Bool) {u l v : List LK} (hl : lastP p l = true) (hv : headP p v = true) :
    noAdj p (u ++ l ++ v) = false := by
  cases h : noAdj p (u ++ l ++ v) with
  | false => rfl
  | true =>
    have := (noAdj_append_inv p (u ++ l) v h).2.2 (by rw [lastP_append p u (lastP_ne hl)]; exact hl)
    rw [hv] at this; cases this

/-! ### contexts -/

def Ctx (p : LK → Bool) (E : List (List LK)) (L R : Bool) : Prop :=
  ∃ Ku Kv : List LK → Prop, (∃ u, Ku u) ∧ (∃ v, Kv v) ∧
    (∀ u v l, Ku u → Kv v → l ∈ E → noAdj p (u ++ l ++ v) = true) ∧
    (L = true → ∃ u, Ku u ∧ lastP p u = true) ∧ (R = true → ∃ v, Kv v ∧ headP p v = true)

theorem Ctx.top {p : LK → Bool} {E : List (List LK)} (h : ∀ l ∈ E, noAdj p l = true) :
    Ctx p E false false :=
  ⟨fun u => u = [], fun v => v = [], ⟨[], rfl⟩, ⟨[], rfl⟩,
    fun u v l hu hv hl => by subst hu hv; simpa using h l hl,
    fun e => (by cases e), fun e => (by cases e)⟩

theorem Ctx.sub {p : LK → Bool} {E E' : List (List LK)} {L R : Bool} (h : Ctx p E L R)
    (hs : ∀ l ∈ E', l ∈ E) : Ctx p E' L R := by
  obtain ⟨Ku, Kv, h1, h2, h3, h4, h5⟩ := h
  exact ⟨Ku, Kv, h1, h2, fun u v l hu hv hl => h3 u v l hu hv (hs l hl), h4, h5⟩

theorem Ctx.fst {p : LK → Bool} {X Y : List (List LK)} {L R R' : Bool} (h : Ctx p (prodL X Y) L R)
    (hY : ∃ y, y ∈ Y)
    (hR : R' = true → (∃ y ∈ Y, headP p y = true) ∨ ([] ∈ Y ∧ R = true)) : Ctx p X L R' := by
  obtain ⟨Ku, Kv, h1, ⟨v0, hv0⟩, h3, h4, h5⟩ := h
  obtain ⟨y0, hy0⟩ := hY
  refine ⟨Ku, fun w => ∃ y ∈ Y, ∃ v, Kv v ∧ w = y ++ v, h1, ⟨y0 ++ v0, y0, hy0, v0, hv0, rfl⟩, ?_, h4, ?_⟩
  · rintro u w x hu ⟨y, hy, v, hv, rfl⟩ hx
    have := h3 u v (x ++ y) hu hv (mem_prodL.2 ⟨x, hx, y, hy, rfl⟩)
    simpa [List.append_assoc] using this
  · intro e
    rcases hR e with ⟨y, hy, hh⟩ | ⟨hy, hr⟩
    · exact ⟨y ++ v0, ⟨y, hy, v0, hv0, rfl⟩, by rw [headP_append p v0 (headP_ne hh)]; exact hh⟩
    · obtain ⟨v, hv, hh⟩ := h5 hr
      exact ⟨[] ++ v, ⟨[], hy, v, hv, rfl⟩, by simpa using hh⟩

theorem Ctx.snd {p : LK → Bool} {X Y : List (List LK)} {L L' R : Bool} (h : Ctx p (prodL X Y) L R)
    (hX : ∃ x, x ∈ X) (hL : L' = true → ∃ x ∈ X, lastP p x = true) : Ctx p Y L' R := by
  obtain ⟨Ku, Kv, ⟨u0, hu0⟩, h2, h3, h4, h5⟩ := h
  obtain ⟨x0, hx0⟩ := hX
  refine ⟨fun w => ∃ u, Ku u ∧ ∃ x ∈ X, w = u ++ x, Kv, ⟨u0 ++ x0, u0, hu0, x0, hx0, rfl⟩, h2, ?_, ?_, h5⟩
  · rintro w v y ⟨u, hu, x, hx, rfl⟩ hv hy
    have := h3 u v (x ++ y) hu hv (mem_prodL.2 ⟨x, hx, y, hy, rfl⟩)
    simpa [List.append_assoc] using this
  · intro e
    obtain ⟨x, hx, hh⟩ := hL e
    exact ⟨u0 ++ x, ⟨u0, hu0, x, hx, rfl⟩, by rw [lastP_append p u0 (lastP_ne hh)]; exact hh⟩

/-- the terminal conditions of one branch, from its context -/
theorem Ctx.terminal {p : LK → Bool} {E : List (List LK)} {L R : Bool} (h : Ctx p E L R)
    (hE : ∃ l, l ∈ E) :
    ((∀ l ∈ E, headP p l = true) → L = false) ∧ ((∀ l ∈ E, lastP p l = true) → R = false) := by
  obtain ⟨Ku, Kv, ⟨u0, hu0⟩, ⟨v0, hv0⟩, h3, h4, h5⟩ := h
  obtain ⟨l, hl⟩ := hE
  constructor
  · intro hall
    cases hL : L with
    | false => rfl
    | true =>
      obtain ⟨u, hu, hh⟩ := h4 hL
      have := h3 u v0 l hu hv0 hl
      rw [seam_left p hh (hall l hl)] at this; cases this
  · intro hall
    cases hR : R with
    | false => rfl
    | true =>
      obtain ⟨v, hv, hh⟩ := h5 hR
      have := h3 u0 v l hu0 hv hl
      rw [seam_right p (hall l hl) hh] at this; cases this


/-! ### `anyStart` / `anyEnd` are realised by expansions -/

theorem liftK_exp (p : LK → Bool) (tw : Bool) {a : Tok} (h : liftK p a = true) :
    ∃ k, expU tw a = [[k]] ∧ p k = true := by
  cases a with
  | lit => exact ⟨.other, rfl, h⟩
  | cls => exact ⟨.other, rfl, h⟩
  | one => exact ⟨.other, rfl, h⟩
  | sep => exact ⟨.sepK, rfl, h⟩
  | tree sp r => exact ⟨.treeK r, rfl, h⟩
  | zom => exact ⟨.zomK, rfl, h⟩
  | alt => cases h
  | cat => cases h
  | rep => cases h

theorem expU_rep_sub {tw : Bool} {sp : Span} {b : Tok} {lo : Nat} {hi : Option Nat} {l : List LK}
    (h : l ∈ expU tw b) : l ∈ expU tw (.rep sp b lo hi) := by
  simp only [expU]
  generalize (tw && (match hi with | some h => decide (2 ≤ h) | none => true)) = c
  by_cases hc : c = true
  · rw [if_pos hc]; exact List.mem_append.2 (Or.inl h)
  · rw [if_neg hc]; exact h

theorem expU_rep_twice {sp : Span} {b : Tok} {lo : Nat} {hi : Option Nat} {x y : List LK}
    (ho : onceOnly hi = false) (hx : x ∈ expU true b) (hy : y ∈ expU true b) :
    x ++ y ∈ expU true (.rep sp b lo hi) := by
  cases hi with
  | none =>
    simp only [expU, Bool.and_self, if_true]
    exact List.mem_append.2 (Or.inr (mem_prodL.2 ⟨x, hx, y, hy, rfl⟩))
  | some n =>
    simp only [onceOnly, decide_eq_false_iff_not] at ho
    have : decide (2 ≤ n) = true := by simp only [decide_eq_true_eq]; omega
    simp only [expU, this, Bool.and_self, if_true]
    exact List.mem_append.2 (Or.inr (mem_prodL.2 ⟨x, hx, y, hy, rfl⟩))

mutual
  theorem rsem (p : LK → Bool) (tw : Bool) : ∀ (t : Tok), pshape t = true →
      (∃ l, l ∈ expU tw t) ∧
      (anyStart (liftK p) t = true → ∃ l ∈ expU tw t, headP p l = true) ∧
      (anyEnd (liftK p) t = true → ∃ l ∈ expU tw t, lastP p l = true)
    | .lit a b c, _ => ⟨⟨_, List.mem_singleton.2 rfl⟩,
        fun h => ⟨_, List.mem_singleton.2 rfl, by simpa [anyStart, liftK, headP] using h⟩,
        fun h => ⟨_, List.mem_singleton.2 rfl, by simpa [anyEnd, liftK, lastP] using h⟩⟩
    | .cls a b c, _ => ⟨⟨_, List.mem_singleton.2 rfl⟩,
        fun h => ⟨_, List.mem_singleton.2 rfl, by simpa [anyStart, liftK, headP] using h⟩,
        fun h => ⟨_, List.mem_singleton.2 rfl, by simpa [anyEnd, liftK, lastP] using h⟩⟩
    | .one a, _ => ⟨⟨_, List.mem_singleton.2 rfl⟩,
        fun h => ⟨_, List.mem_singleton.2 rfl, by simpa [anyStart, liftK, headP] using h⟩,
        fun h => ⟨_, List.mem_singleton.2 rfl, by simpa [anyEnd, liftK, lastP] using h⟩⟩
    | .sep a, _ => ⟨⟨_, List.mem_singleton.2 rfl⟩,
        fun h => ⟨_, List.mem_singleton.2 rfl, by simpa [anyStart, liftK, headP] using h⟩,
        fun h => ⟨_, List.mem_singleton.2 rfl, by simpa [anyEnd, liftK, lastP] using h⟩⟩
    | .tree a b, _ => ⟨⟨_, List.mem_singleton.2 rfl⟩,
        fun h => ⟨_, List.mem_singleton.2 rfl, by simpa [anyStart, liftK, headP] using h⟩,
        fun h => ⟨_, List.mem_singleton.2 rfl, by simpa [anyEnd, liftK, lastP] using h⟩⟩
    | .zom a b, _ => ⟨⟨_, List.mem_singleton.2 rfl⟩,
        fun h => ⟨_, List.mem_singleton.2 rfl, by simpa [anyStart, liftK, headP] using h⟩,
        fun h => ⟨_, List.mem_singleton.2 rfl, by simpa [anyEnd, liftK, lastP] using h⟩⟩
    | .alt _ bs, hs => by
      simp only [pshape, Bool.and_eq_true, Bool.not_eq_true', List.isEmpty_eq_false_iff] at hs
      rw [anyStart_alt, anyEnd_alt]
      simp only [expU]
      exact rsemAlt p tw bs hs.2 hs.1
    | .cat _ ts, hs => by
      simp only [pshape, Bool.and_eq_true, Bool.not_eq_true', List.isEmpty_eq_false_iff] at hs
      rw [anyStart_cat, anyEnd_cat]
      simp only [expU]
      exact rsemCat p tw ts hs.2 hs.1
    | .rep _ b _ _, hs => by
      simp only [pshape] at hs
      rw [anyStart_rep, anyEnd_rep]
      obtain ⟨⟨l, hl⟩, h2, h3⟩ := rsem p tw b hs
      refine ⟨⟨l, expU_rep_sub hl⟩, fun h => ?_, fun h => ?_⟩
      · obtain ⟨l, hl, hh⟩ := h2 h; exact ⟨l, expU_rep_sub hl, hh⟩
      · obtain ⟨l, hl, hh⟩ := h3 h; exact ⟨l, expU_rep_sub hl, hh⟩
  theorem rsemAlt (p : LK → Bool) (tw : Bool) : ∀ (bs : List Tok), pshapeL false bs = true →
      bs ≠ [] →
      (∃ l, l ∈ expAltU tw bs) ∧
      (anyStartB (liftK p) bs = true → ∃ l ∈ expAltU tw bs, headP p l = true) ∧
      (anyEndB (liftK p) bs = true → ∃ l ∈ expAltU tw bs, lastP p l = true)
    | [], _, hne => absurd rfl hne
    | b :: bs, hs, _ => by
      simp only [pshapeL, Bool.false_and, Bool.not_false, Bool.true_and, Bool.and_eq_true] at hs
      obtain ⟨⟨l, hl⟩, h2, h3⟩ := rsem p tw b hs.1
      simp only [expAltU, anyStartB, anyEndB, Bool.or_eq_true]
      refine ⟨⟨l, List.mem_append.2 (Or.inl hl)⟩, fun h => ?_, fun h => ?_⟩
      · rcases h with h | h
        · obtain ⟨l, hl, hh⟩ := h2 h; exact ⟨l, List.mem_append.2 (Or.inl hl), hh⟩
        · cases bs with
          | nil => simp [anyStartB] at h
          | cons b' bs' =>
            obtain ⟨l, hl, hh⟩ := (rsemAlt p tw (b' :: bs') hs.2 (by simp)).2.1 h
            exact ⟨l, List.mem_append.2 (Or.inr hl), hh⟩
      · rcases h with h | h
        · obtain ⟨l, hl, hh⟩ := h3 h; exact ⟨l, List.mem_append.2 (Or.inl hl), hh⟩
        · cases bs with
          | nil => simp [anyEndB] at h
          | cons b' bs' =>
            obtain ⟨l, hl, hh⟩ := (rsemAlt p tw (b' :: bs') hs.2 (by simp)).2.2 h
            exact ⟨l, List.mem_append.2 (Or.inr hl), hh⟩
  theorem rsemCat (p : LK → Bool) (tw : Bool) : ∀ (ts : List Tok), pshapeL true ts = true →
      ts ≠ [] →
      (∃ l, l ∈ expCatU tw ts) ∧
      (anyStartF (liftK p) ts = true → ∃ l ∈ expCatU tw ts, headP p l = true) ∧
      (anyEndL (liftK p) ts = true → ∃ l ∈ expCatU tw ts, lastP p l = true)
    | [], _, hne => absurd rfl hne
    | [a], hs, _ => by
      simp only [pshapeL, Bool.and_eq_true] at hs
      obtain ⟨⟨l, hl⟩, h2, h3⟩ := rsem p tw a hs.1.2
      have key : ∀ l, l ∈ expU tw a → l ∈ expCatU tw [a] := fun l hl => by
        simp only [expCatU]; exact mem_prodL.2 ⟨l, hl, [], List.mem_singleton.2 rfl, by simp⟩
      simp only [anyStartF, anyEndL]
      refine ⟨⟨l, key l hl⟩, fun h => ?_, fun h => ?_⟩
      · obtain ⟨l, hl, hh⟩ := h2 h; exact ⟨l, key l hl, hh⟩
      · obtain ⟨l, hl, hh⟩ := h3 h; exact ⟨l, key l hl, hh⟩
    | a :: c :: rest, hs, _ => by
      simp only [pshapeL, Bool.and_eq_true] at hs
      obtain ⟨⟨x, hx⟩, h2, _⟩ := rsem p tw a hs.1.2
      obtain ⟨⟨y, hy⟩, _, i3⟩ := rsemCat p tw (c :: rest)
        (by simp only [pshapeL, Bool.and_eq_true]; exact hs.2) (by simp)
      rw [expCatU]
      simp only [anyStartF, anyEndL]
      refine ⟨⟨x ++ y, mem_prodL.2 ⟨x, hx, y, hy, rfl⟩⟩, fun h => ?_, fun h => ?_⟩
      · obtain ⟨x', hx', hh⟩ := h2 h
        exact ⟨x' ++ y, mem_prodL.2 ⟨x', hx', y, hy, rfl⟩, by rw [headP_append p y (headP_ne hh)]; exact hh⟩
      · obtain ⟨y', hy', hh⟩ := i3 h
        exact ⟨x ++ y', mem_prodL.2 ⟨x, hx, y', hy', rfl⟩, by rw [lastP_append p x (lastP_ne hh)]; exact hh⟩
end

/-- if the first (last) token of a branch is a `p`-leaf, every expansion starts (ends) with `p` -/
theorem allLast_cat (p : LK → Bool) (tw : Bool) : ∀ (a : Tok) (r : List Tok),
    pshapeL true (a :: r) = true → liftK p (lastOf a r) = true →
    ∀ l ∈ expCatU tw (a :: r), lastP p l = true
  | a, [], _, h, l, hl => by
    simp only [expCatU, lastOf] at hl h
    obtain ⟨k, hk, hp⟩ := liftK_exp p tw h
    obtain ⟨x, hx, y, hy, rfl⟩ := mem_prodL.1 hl
    rw [hk] at hx
    simp only [List.mem_singleton] at hx hy; subst hx hy
    simpa [lastP] using hp
  | a, c :: r, hs, h, l, hl => by
    simp only [pshapeL, Bool.and_eq_true] at hs
    rw [expCatU] at hl
    obtain ⟨x, hx, y, hy, rfl⟩ := mem_prodL.1 hl
    have hy' := allLast_cat p tw c r (by simp only [pshapeL, Bool.and_eq_true]; exact hs.2) h y hy
    rw [lastP_append p x (lastP_ne hy')]; exact hy'

theorem allStart (p : LK → Bool) (tw : Bool) {b : Tok} (hs : pshape b = true) :
    (startQ (liftK p) b = true → ∀ l ∈ expU tw b, headP p l = true) ∧
    (endQ (liftK p) b = true → ∀ l ∈ expU tw b, lastP p l = true) := by
  by_cases hc : isCatT b = true
  · cases b with
    | cat sp ts =>
      cases ts with
      | nil => simp [pshape] at hs
      | cons a r =>
        simp only [pshape, Bool.and_eq_true] at hs
        rw [startQ_cat, endQ_cat]
        simp only [expU]
        constructor
        · intro h l hl
          obtain ⟨k, hk, hp⟩ := liftK_exp p tw h
          rw [expCatU, hk] at hl
          obtain ⟨x, hx, y, hy, rfl⟩ := mem_prodL.1 hl
          simp only [List.mem_singleton] at hx; subst hx
          simpa [headP] using hp
        · exact fun h => allLast_cat p tw a r hs.2 h
    | _ => simp [isCatT] at hc
  · have hc : isCatT b = false := by simpa using hc
    rw [startQ_noCat _ hc, endQ_noCat _ hc]
    constructor
    · intro h l hl
      obtain ⟨k, hk, hp⟩ := liftK_exp p tw h
      rw [hk] at hl
      simp only [List.mem_singleton] at hl; subst hl
      simpa [headP] using hp
    · intro h l hl
      obtain ⟨k, hk, hp⟩ := liftK_exp p tw h
      rw [hk] at hl
      simp only [List.mem_singleton] at hl; subst hl
      simpa [lastP] using hp

/-- the window rule of one concatenation, read off any of its expansions -/
theorem noAdjT_of_exp (p : LK → Bool) (tw : Bool) : ∀ (ts : List Tok) (l : List LK),
    l ∈ expCatU tw ts → noAdj p l = true → noAdjT (liftK p) ts = true
  | [], _, _, _ => rfl
  | [_], _, _, _ => rfl
  | a :: c :: rest, l, hl, hn => by
    rw [expCatU] at hl
    obtain ⟨x, hx, y, hy, rfl⟩ := mem_prodL.1 hl
    obtain ⟨n1, n2, n3⟩ := noAdj_append_inv p x y hn
    simp only [noAdjT, Bool.and_eq_true, Bool.not_eq_true', Bool.and_eq_false_iff]
    refine ⟨?_, noAdjT_of_exp p tw (c :: rest) y hy n2⟩
    cases ha : liftK p a with
    | false => exact Or.inl rfl
    | true =>
      right
      cases hc : liftK p c with
      | false => rfl
      | true =>
        exfalso
        obtain ⟨k, hk, hp⟩ := liftK_exp p tw ha
        obtain ⟨k', hk', hp'⟩ := liftK_exp p tw hc
        rw [hk] at hx
        rw [expCatU, hk'] at hy
        obtain ⟨y1, hy1, y2, _, rfl⟩ := mem_prodL.1 hy
        simp only [List.mem_singleton] at hx hy1; subst hx hy1
        have := n3 (by simpa [lastP] using hp)
        simp [headP, hp'] at this

/-! ### `termsOk` -/

theorem termsOk_and (f g : Terms → Bool) (b : Tok) :
    termsOk (fun ts => f ts && g ts) b = (termsOk f b && termsOk g b) := by
  unfold termsOk
  cases terminals b.concatenation <;> simp

theorem termsOk_gen {q : Tok → Bool} {o : Outer} {b : Tok}
    (h1 : startQ q b = true → endsWith q o.left = false)
    (h2 : endQ q b = true → startsWith q o.right = false) : termsOk (genOk q o) b = true := by
  unfold termsOk
  unfold startQ at h1
  unfold endQ at h2
  cases hc : b.concatenation with
  | nil => rfl
  | cons a r =>
    rw [hc] at h1 h2
    cases r with
    | nil =>
      simp only [terminals, genOk, Terms.start, Terms.end_, Bool.and_eq_true, Bool.not_eq_true',
        Bool.and_eq_false_iff]
      simp only [lastOf] at h2
      constructor
      · cases hq : q a with
        | false => exact Or.inl rfl
        | true => exact Or.inr (h1 hq)
      · cases hq : q a with
        | false => exact Or.inl rfl
        | true => exact Or.inr (h2 hq)
    | cons x xs =>
      simp only [terminals, genOk, Terms.start, Terms.end_, Bool.and_eq_true, Bool.not_eq_true',
        Bool.and_eq_false_iff]
      simp only [lastOf] at h2
      constructor
      · cases hq : q a with
        | false => exact Or.inl rfl
        | true => exact Or.inr (h1 hq)
      · cases hq : q (lastOf x xs) with
        | false => exact Or.inl rfl
        | true => exact Or.inr (h2 hq)

theorem termsOk_self {q : Tok → Bool} {self : Bool} {b : Tok}
    (h : self = true → startQ q b = true → endQ q b = true → False) :
    termsOk (selfOk q self) b = true := by
  unfold termsOk
  unfold startQ endQ at h
  cases hc : b.concatenation with
  | nil => rfl
  | cons a r =>
    rw [hc] at h
    cases r with
    | nil =>
      simp only [terminals, selfOk, Terms.start, Terms.end_]
      simp only [lastOf] at h
      cases self <;> cases hq : q a <;> simp_all
    | cons x xs =>
      simp only [terminals, selfOk, Terms.start, Terms.end_]
      simp only [lastOf] at h
      cases self <;> cases hq : q a <;> cases hq' : q (lastOf x xs) <;> simp_all


/-! ### the adjacency part of the checker is complete -/

mutual
  theorem CB {p : LK → Bool} (tw win self : Bool) (hst : self = true → tw = true) :
      ∀ (t : Tok) (o : Outer), pshape t = true → (self = true → onceOpen (liftK p) t = true) →
      Ctx p (expU tw t) (endsWith (liftK p) o.left) (startsWith (liftK p) o.right) →
      adjBody (liftK p) win self o t = true
    | .lit .., _, _, _, _ => rfl
    | .cls .., _, _, _, _ => rfl
    | .one _, _, _, _, _ => rfl
    | .sep _, _, _, _, _ => rfl
    | .tree .., _, _, _, _ => rfl
    | .zom .., _, _, _, _ => rfl
    | .alt _ bs, o, hs, ho, hc => by
      simp only [pshape, Bool.and_eq_true] at hs
      simp only [adjBody]
      exact CBr tw win self hst bs o hs.2 (by simpa only [onceOpen] using ho)
        (by simpa only [expU] using hc)
    | .cat _ ts, o, hs, ho, hc => by
      simp only [pshape, Bool.and_eq_true, Bool.not_eq_true', List.isEmpty_eq_false_iff] at hs
      simp only [expU] at hc
      simp only [adjBody, Bool.and_eq_true]
      constructor
      · obtain ⟨Ku, Kv, ⟨u, hu⟩, ⟨v, hv⟩, h3, _, _⟩ := hc
        obtain ⟨⟨l, hl⟩, _, _⟩ := rsemCat p tw ts hs.2 hs.1
        simp only [Bool.or_eq_true]; right
        exact noAdjT_of_exp p tw ts l hl (noAdj_mid p (h3 u v l hu hv hl))
      · exact CSeq tw win self hst ts o none hs.2 (by simpa only [onceOpen] using ho) hc
    | .rep _ b lo hi, o, hs, ho, hc => by
      simp only [pshape] at hs
      simp only [adjBody, Bool.and_eq_true]
      have hcb : Ctx p (expU tw b) (endsWith (liftK p) o.left) (startsWith (liftK p) o.right) :=
        hc.sub (fun l hl => expU_rep_sub hl)
      obtain ⟨⟨l0, hl0⟩, _, _⟩ := rsem p tw b hs
      obtain ⟨t1, t2⟩ := hcb.terminal ⟨l0, hl0⟩
      obtain ⟨a1, a2⟩ := allStart p tw hs
      refine ⟨?_, CB tw win self hst b o hs (fun e => by
        have := ho e; simp only [onceOpen, Bool.and_eq_true] at this; exact this.2) hcb⟩
      rw [termsOk_and, Bool.and_eq_true]
      constructor
      · exact termsOk_gen (fun h => t1 (a1 h)) (fun h => t2 (a2 h))
      · apply termsOk_self
        intro hself hS hE
        have htw := hst hself; subst htw
        have ho' := ho hself
        simp only [onceOpen, Bool.and_eq_true, Bool.or_eq_true, Bool.not_eq_true'] at ho'
        rcases ho'.1 with h1 | h1
        · obtain ⟨Ku, Kv, ⟨u, hu⟩, ⟨v, hv⟩, h3, _, _⟩ := hc
          have h4 := noAdj_mid p (h3 u v (l0 ++ l0) hu hv (expU_rep_twice h1 hl0 hl0))
          have h5 := (noAdj_append_inv p l0 l0 h4).2.2 (a2 hE l0 hl0)
          rw [a1 hS l0 hl0] at h5; cases h5
        · simp [hS, hE] at h1
  theorem CSeq {p : LK → Bool} (tw win self : Bool) (hst : self = true → tw = true) :
      ∀ (ts : List Tok) (inh : Outer) (prev : Option Tok), pshapeL true ts = true →
      (self = true → onceOpenL (liftK p) ts = true) →
      Ctx p (expCatU tw ts) (endsWith (liftK p) (inh.or prev none).left)
        (startsWith (liftK p) inh.right) →
      adjSeq (liftK p) win self inh prev ts = true
    | [], _, _, _, _, _ => rfl
    | a :: rest, inh, prev, hs, ho, hc => by
      simp only [pshapeL, Bool.and_eq_true, Bool.true_and, Bool.not_eq_true'] at hs
      rw [expCatU] at hc
      simp only [adjSeq, Bool.and_eq_true]
      obtain ⟨⟨x0, hx0⟩, _, ha3⟩ := rsem p tw a hs.1.2
      constructor
      · apply CB tw win self hst a _ hs.1.2 (fun e => by
          have := ho e; simp only [onceOpenL, Bool.and_eq_true] at this; exact this.1)
        cases rest with
        | nil =>
          exact hc.fst ⟨[], List.mem_singleton.2 rfl⟩
            (fun e => Or.inr ⟨List.mem_singleton.2 rfl, e⟩)
        | cons c r =>
          obtain ⟨hy, hst', _⟩ := rsemCat p tw (c :: r) hs.2 (by simp)
          exact hc.fst hy (fun e => Or.inl (hst' e))
      · apply CSeq tw win self hst rest inh (some (respan a)) hs.2 (fun e => by
          have := ho e; simp only [onceOpenL, Bool.and_eq_true] at this; exact this.2)
        refine hc.snd ⟨x0, hx0⟩ (fun e => ?_)
        have : anyEnd (liftK p) a = true := by
          simpa only [or_left_some, endsWith, anyEnd_respan] using e
        exact ha3 this
  theorem CBr {p : LK → Bool} (tw win self : Bool) (hst : self = true → tw = true) :
      ∀ (bs : List Tok) (o : Outer), pshapeL false bs = true →
      (self = true → onceOpenL (liftK p) bs = true) →
      Ctx p (expAltU tw bs) (endsWith (liftK p) o.left) (startsWith (liftK p) o.right) →
      adjBranches (liftK p) win self o bs = true
    | [], _, _, _, _ => rfl
    | b :: bs, o, hs, ho, hc => by
      simp only [pshapeL, Bool.false_and, Bool.not_false, Bool.true_and, Bool.and_eq_true] at hs
      simp only [expAltU] at hc
      simp only [adjBranches, Bool.and_eq_true]
      have hcb : Ctx p (expU tw b) (endsWith (liftK p) o.left) (startsWith (liftK p) o.right) :=
        hc.sub (fun l hl => List.mem_append.2 (Or.inl hl))
      obtain ⟨⟨l0, hl0⟩, _, _⟩ := rsem p tw b hs.1
      obtain ⟨t1, t2⟩ := hcb.terminal ⟨l0, hl0⟩
      obtain ⟨a1, a2⟩ := allStart p tw hs.1
      refine ⟨⟨termsOk_gen (fun h => t1 (a1 h)) (fun h => t2 (a2 h)), ?_⟩, ?_⟩
      · exact CB tw win self hst b o hs.1 (fun e => by
          have := ho e; simp only [onceOpenL, Bool.and_eq_true] at this; exact this.1) hcb
      · exact CBr tw win self hst bs o hs.2 (fun e => by
          have := ho e; simp only [onceOpenL, Bool.and_eq_true] at this; exact this.2)
          (hc.sub (fun l hl => List.mem_append.2 (Or.inr hl)))
end

/-- **completeness of the adjacency part**, for a whole pattern -/
theorem adjBody_complete {p : LK → Bool} (tw win self : Bool) (hst : self = true → tw = true) (t : Tok)
    (hs : pshape t = true) (ho : self = true → onceOpen (liftK p) t = true)
    (h : ∀ l ∈ expU tw t, noAdj p l = true) : adjBody (liftK p) win self ⟨none, none⟩ t = true :=
  CB tw win self hst t ⟨none, none⟩ hs ho (Ctx.top h)

-- non-vacuity: on the nested example all 18 expansions are adjacency-free, and the conclusion is
-- a non-trivial verdict (it fails on `ex2`, whose expansion `a b c / / f` is not)
example : pshape ex1 = true ∧ onceOpen (liftK LK.isB) ex1 = true ∧
    (expU true ex1).all (noAdj LK.isB) = true ∧
    adjBody (liftK LK.isB) true true ⟨none, none⟩ ex2 = false := by decide

end AdjN
end Wax
