import Wax.Proofs.Exec
import Wax.Proofs.ReLang
/-!
# Completeness of `Re.exec` on patterns with simple loops (partial)

Full statement (NOT proved here):

  `Matches σ r s → ∃ caps, r.exec σ s = some caps`

What is proved: `exec_complete_partial`, the same under the decidable hypothesis
`r.loopsSimple = true`: the body of every *unbounded* loop (`x*`, `x*?`, `x{n,}`) is free of union
states (it is built from literals, one-character atoms, concatenation and groups only).  Bounded
repetitions, alternations and options may be nested in any way outside such bodies.  This covers
every pattern the encoder emits for a glob without an unbounded `<…:n,>` repetition of a body that
itself contains a wildcard, alternative or repetition (`*` is `[^/]*`, `**` is `.*`).

Why the hypothesis.  `Re.run` kills a path that enters a union state twice without consuming a
character in between (`enter`).  Outside unbounded loops that cannot happen, because every state
is entered at most once on any path (copies of an unrolled repetition have their own states): the
proof carries the invariant that the visited set contains no state of the piece about to be run
(`Fresh`).  Around an unbounded loop whose body has union states it *does* happen, and then a
`Matches` derivation does not map to a successful path directly: `(?:a?b?)*` matches `ab` by the
derivation `[a][b]` (two rounds), whose path skips `b?`, re-enters the loop, skips `a?` and arrives
at `b?` a second time at the same position, where it is killed; the engine finds the other path
(`[ab]`, one round).  Completeness in general needs the cycle-cutting argument (a shortest
accepting path never repeats a state at a position), for which the continuation-passing
presentation gives no handle: one would need an explicit graph of program states and a proof that
the continuation at a state is determined by the state.  A brute-force comparison of
`(r.exec σ s).isSome` with `r.matchB σ s` (run with `lean --run`, not part of the build) over all
5088 patterns of depth ≤ 2 over the atoms `a`, `b`, `ε` on the 31 strings over `{a, b}` of length
≤ 4, and over 70792 patterns of depth 3–4 (every unary operator on every depth-2 pattern, 10000
random concatenations / alternations of depth-2 patterns, `*`, `*?`, `{1,}` on 5000 of those) on the
15 strings of length ≤ 3, found no disagreement, so the full statement is probably true of the
model.
-/
namespace Wax

/-- the search succeeds -/
def Succ (o : Option Caps) : Prop := ∃ res, o = some res

theorem succ_orElse' {a : Option Caps} {b : Unit → Option Caps} : Succ a ∨ Succ (b ()) → Succ (orElse' a b) := by
  unfold orElse'
  rintro (⟨x, rfl⟩ | h)
  · exact ⟨x, rfl⟩
  · cases a with
    | none => exact h
    | some x => exact ⟨x, rfl⟩

theorem succ_prefer {lazy : Bool} {more leave : Unit → Option Caps} :
    Succ (more ()) ∨ Succ (leave ()) → Succ (prefer lazy more leave) := by
  unfold prefer
  intro h
  cases lazy with
  | true => simp only [if_true]; exact succ_orElse' h.symm
  | false => simp only [Bool.false_eq_true, if_false]; exact succ_orElse' h

theorem enter_fresh {s : Sid} {v : Vis} {f : Vis → Option Caps} (h : s ∉ v) : enter s v f = f (s :: v) := by
  unfold enter
  rw [if_neg]
  simpa using h

/-! ### which states belong to which node -/

theorem own_cons {j : Nat} {id x : Sid} (h : (j :: id) <:+ x) : id <:+ x :=
  (List.suffix_cons j id).trans h

theorem own_inj {j j' : Nat} {id x : Sid} (h : (j :: id) <:+ x) (h' : (j' :: id) <:+ x) : j = j' := by
  obtain ⟨p, hp⟩ := h
  obtain ⟨p', hp'⟩ := h'
  have := (List.append_inj' (hp.trans hp'.symm) (by simp)).2
  simpa using this

/-- no state of the node `id` has been visited -/
def Fresh (id : Sid) (v : Vis) : Prop := ∀ x ∈ v, ¬ id <:+ x

/-- no state of the children `j`, `j + 1`, … of the node `id` has been visited -/
def FreshFrom (id : Sid) (j : Nat) (v : Vis) : Prop := ∀ x ∈ v, ∀ t, j ≤ t → ¬ (t :: id) <:+ x

/-- the visited set after the node `id` consumed `u`: states of the node, and, if nothing was
    consumed, what was there before -/
def Out (id : Sid) (v : Vis) (u : Str) (v' : Vis) : Prop := ∀ x ∈ v', (u = [] ∧ x ∈ v) ∨ id <:+ x

theorem Fresh.from {id : Sid} {v : Vis} (h : Fresh id v) (j : Nat) : FreshFrom id j v :=
  fun x hx _ _ ho => h x hx (own_cons ho)

theorem FreshFrom.child {id : Sid} {j t : Nat} {v : Vis} (h : FreshFrom id j v) (ht : j ≤ t) :
    Fresh (t :: id) v := fun x hx => h x hx t ht

theorem FreshFrom.not_mem {id : Sid} {j t : Nat} {v : Vis} (h : FreshFrom id j v) (ht : j ≤ t) :
    (t :: id) ∉ v := fun hm => h _ hm t ht (List.suffix_refl _)

theorem FreshFrom.mono {id : Sid} {j j' : Nat} {v : Vis} (h : FreshFrom id j v) (hj : j ≤ j') :
    FreshFrom id j' v := fun x hx t ht => h x hx t (Nat.le_trans hj ht)

theorem Fresh.not_mem {id : Sid} {t : Nat} {v : Vis} (h : Fresh id v) : (t :: id) ∉ v :=
  (h.from 0).not_mem (Nat.zero_le _)

/-- after the child `t`, the later children are still fresh -/
theorem FreshFrom.after {id : Sid} {j t : Nat} {v v1 : Vis} {a : Str} (h : FreshFrom id j v) (ht : j ≤ t)
    (ho : Out (t :: id) v a v1) : FreshFrom id (t + 1) v1 := by
  intro x hx t' ht' hown
  rcases ho x hx with ⟨_, hv⟩ | hx'
  · exact h x hv t' (by omega) hown
  · have := own_inj hx' hown; omega

/-- after entering the union state `t` of the node, the later children are still fresh -/
theorem FreshFrom.entered {id : Sid} {j t : Nat} {v : Vis} (h : FreshFrom id j v) (ht : j ≤ t) :
    FreshFrom id (t + 1) ((t :: id) :: v) := by
  intro x hx t' ht' hown
  rcases List.mem_cons.mp hx with rfl | hv
  · have := own_inj (List.suffix_refl _) hown; omega
  · exact h x hv t' (by omega) hown

theorem Out.refl (id : Sid) (v : Vis) : Out id v [] v := fun _ hx => Or.inl ⟨rfl, hx⟩

theorem Out.child {id : Sid} {t : Nat} {v v' : Vis} {u : Str} (h : Out (t :: id) v u v') : Out id v u v' :=
  fun x hx => (h x hx).imp (fun h => h) own_cons

theorem Out.entered {id : Sid} {t : Nat} {v v' : Vis} {u : Str} (h : Out id ((t :: id) :: v) u v') :
    Out id v u v' := by
  intro x hx
  rcases h x hx with ⟨hu, hm⟩ | ho
  · rcases List.mem_cons.mp hm with rfl | hm
    · exact Or.inr (List.suffix_cons _ _)
    · exact Or.inl ⟨hu, hm⟩
  · exact Or.inr ho

theorem Out.comp {id : Sid} {v v1 v2 : Vis} {a b : Str} (h1 : Out id v a v1) (h2 : Out id v1 b v2) :
    Out id v (a ++ b) v2 := by
  intro x hx
  rcases h2 x hx with ⟨hb, hm⟩ | ho
  · rcases h1 x hm with ⟨ha, hm'⟩ | ho
    · exact Or.inl ⟨by rw [ha, hb]; rfl, hm'⟩
    · exact Or.inr ho
  · exact Or.inr ho

/-- `f` succeeds on a prefix in `L` whenever its continuation succeeds on the rest, for every
    visited set the node `id` may leave behind -/
def StepC (L : Str → Prop) (id : Sid) (f : Step) : Prop :=
  ∀ u w' v c k, L u → Fresh id v → (∀ v' c', Out id v u v' → Succ (k w' v' c')) → Succ (f (u ++ w') v c k)

/-- `f` has no union states: on a prefix in `L` it just calls its continuation -/
def DetStep (L : Str → Prop) (f : Step) : Prop :=
  ∀ u w' v c k, L u → ∃ c', f (u ++ w') v c k = k w' (if u = [] then v else []) c'

theorem DetStep.stepC {L : Str → Prop} {f : Step} (h : DetStep L f) (id : Sid) : StepC L id f := by
  intro u w' v c k hu _ hk
  obtain ⟨c', e⟩ := h u w' v c k hu
  rw [e]
  apply hk
  intro x hx
  split at hx
  · rename_i hu'; exact Or.inl ⟨hu', hx⟩
  · cases hx

/-! ### iteration without empty rounds -/

theorem IterN.dropEmpty {L : Str → Prop} : ∀ {m : Nat} {u : Str}, IterN L m u →
    ∃ m', IterN (fun x => L x ∧ x ≠ []) m' u
  | 0, _, h => ⟨0, h⟩
  | m + 1, _, ⟨a, b, e, ha, hb⟩ => by
    obtain ⟨m', hm'⟩ := IterN.dropEmpty hb
    by_cases hne : a = []
    · subst hne; subst e; exact ⟨m', hm'⟩
    · exact ⟨m' + 1, a, b, e, ⟨ha, hne⟩, hm'⟩

theorem IterN.split {L : Str → Prop} : ∀ {a b : Nat} {u : Str}, IterN L (a + b) u →
    ∃ u1 u2, u = u1 ++ u2 ∧ IterN L a u1 ∧ IterN L b u2
  | 0, b, u, h => ⟨[], u, rfl, rfl, by simpa using h⟩
  | a + 1, b, u, h => by
    have e : a + 1 + b = (a + b) + 1 := by omega
    rw [e] at h
    obtain ⟨x, y, rfl, hx, hy⟩ := h
    obtain ⟨u1, u2, rfl, h1, h2⟩ := IterN.split hy
    exact ⟨x ++ u1, u2, by simp, ⟨x, u1, rfl, hx, h1⟩, h2⟩

theorem IterN.nil_head {L : Str → Prop} {m : Nat} (h : IterN L (m + 1) []) : L [] := by
  obtain ⟨a, b, e, ha, _⟩ := h
  have : a = [] := by
    cases a with
    | nil => rfl
    | cons => simp at e
  rw [this] at ha; exact ha

/-! ### the loops, with a body without union states -/

section detloops
variable {L : Str → Prop} {body : Step}

theorem loopU_complete (hb : DetStep L body) (U : Sid) (lazy : Bool) (w' : Str) (k : Kont) :
    ∀ (m : Nat) (u : Str) (v : Vis) (c : Caps) (fuel : Nat), IterN (fun x => L x ∧ x ≠ []) m u →
      (u ++ w').length ≤ fuel → U ∉ v →
      (∀ v' c', (∀ x ∈ v', x = U ∨ (u = [] ∧ x ∈ v)) → Succ (k w' v' c')) →
      Succ (loopU body U lazy fuel (u ++ w') v c k) := by
  intro m
  induction m with
  | zero =>
    intro u v c fuel hu _ hU hk
    simp only [IterN] at hu
    subst hu
    have hleave : Succ (k w' (U :: v) c) := hk _ _ (fun x hx => by
      rcases List.mem_cons.mp hx with rfl | hx
      · exact Or.inl rfl
      · exact Or.inr ⟨rfl, hx⟩)
    cases fuel with
    | zero => simp only [loopU, List.nil_append, enter_fresh hU]; exact hleave
    | succ f =>
      simp only [loopU, List.nil_append, enter_fresh hU]
      exact succ_prefer (Or.inr hleave)
  | succ m ih =>
    intro u v c fuel hu hlen hU hk
    obtain ⟨a, b, rfl, ⟨ha, hne⟩, hb'⟩ := hu
    have hapos : 0 < a.length := List.length_pos_iff.mpr hne
    cases fuel with
    | zero => exact absurd hlen (by simp only [List.length_append]; omega)
    | succ f =>
      simp only [loopU, enter_fresh hU]
      apply succ_prefer
      left
      obtain ⟨c', e⟩ := hb a (b ++ w') (U :: v) c _ ha
      rw [List.append_assoc, e, if_neg hne]
      have hlt : (b ++ w').length < (a ++ (b ++ w')).length := by simp; omega
      rw [if_pos hlt]
      apply ih b [] c' f hb' (by simp at hlen ⊢; omega) (by simp)
      intro v' c'' hv'
      apply hk
      intro x hx
      rcases hv' x hx with h | ⟨_, h⟩
      · exact Or.inl h
      · cases h

theorem plusLoop_complete_ne (hb : DetStep L body) (P : Sid) (lazy : Bool) (w' : Str) (k : Kont) :
    ∀ (m : Nat) (u : Str) (v : Vis) (c : Caps) (fuel : Nat), IterN (fun x => L x ∧ x ≠ []) (m + 1) u →
      (u ++ w').length ≤ fuel →
      (∀ v' c', (∀ x ∈ v', x = P) → Succ (k w' v' c')) →
      Succ (plusLoop body P lazy fuel (u ++ w') v c k) := by
  intro m
  induction m with
  | zero =>
    intro u v c fuel hu hlen hk
    obtain ⟨a, b, rfl, ⟨ha, hne⟩, hb'⟩ := hu
    simp only [IterN] at hb'
    subst hb'
    have hleave : ∀ c', Succ (k w' [P] c') := fun c' => hk _ _ (fun x hx => by simpa using hx)
    cases fuel with
    | zero =>
      obtain ⟨c', e⟩ := hb a w' v c (fun w1 v1 c1 => enter P v1 (fun v2 => k w1 v2 c1)) ha
      simp only [plusLoop, List.append_nil, e, if_neg hne, enter_fresh (List.not_mem_nil)]
      exact hleave c'
    | succ f =>
      simp only [plusLoop, List.append_nil]
      obtain ⟨c', e⟩ := hb a w' v c _ ha
      rw [e, if_neg hne, enter_fresh (List.not_mem_nil)]
      exact succ_prefer (Or.inr (hleave c'))
  | succ m ih =>
    intro u v c fuel hu hlen hk
    obtain ⟨a, b, rfl, ⟨ha, hne⟩, hb'⟩ := hu
    have hapos : 0 < a.length := List.length_pos_iff.mpr hne
    cases fuel with
    | zero => exact absurd hlen (by simp only [List.length_append]; omega)
    | succ f =>
      simp only [plusLoop]
      obtain ⟨c', e⟩ := hb a (b ++ w') v c _ ha
      rw [List.append_assoc, e, if_neg hne, enter_fresh (List.not_mem_nil)]
      apply succ_prefer
      left
      have hlt : (b ++ w').length < (a ++ (b ++ w')).length := by simp; omega
      rw [if_pos hlt]
      exact ih b [P] c' f hb' (by simp at hlen ⊢; omega) hk

theorem plusLoop_complete_empty (hb : DetStep L body) (P : Sid) (lazy : Bool) (w' : Str) (k : Kont)
    (v : Vis) (c : Caps) (fuel : Nat) (hL : L []) (hP : P ∉ v)
    (hk : ∀ v' c', (∀ x ∈ v', x = P ∨ x ∈ v) → Succ (k w' v' c')) :
    Succ (plusLoop body P lazy fuel w' v c k) := by
  have hleave : ∀ c', Succ (k w' (P :: v) c') := fun c' => hk _ _ (fun x hx => by
    rcases List.mem_cons.mp hx with rfl | hx
    · exact Or.inl rfl
    · exact Or.inr hx)
  cases fuel with
  | zero =>
    obtain ⟨c', e⟩ := hb [] w' v c (fun w1 v1 c1 => enter P v1 (fun v2 => k w1 v2 c1)) hL
    simp only [List.nil_append, if_true] at e
    simp only [plusLoop, e, enter_fresh hP]
    exact hleave c'
  | succ f =>
    simp only [plusLoop]
    obtain ⟨c', e⟩ := hb [] w' v c _ hL
    simp only [List.nil_append, if_true] at e
    rw [e, enter_fresh hP]
    exact succ_prefer (Or.inr (hleave c'))

/-- one or more rounds, some of which may be empty -/
theorem plusLoop_complete (hb : DetStep L body) (P : Sid) (lazy : Bool) (w' : Str) (k : Kont)
    (m : Nat) (u : Str) (v : Vis) (c : Caps) (fuel : Nat) (hu : IterN L (m + 1) u)
    (hlen : (u ++ w').length ≤ fuel) (hP : P ∉ v)
    (hk : ∀ v' c', (∀ x ∈ v', x = P ∨ (u = [] ∧ x ∈ v)) → Succ (k w' v' c')) :
    Succ (plusLoop body P lazy fuel (u ++ w') v c k) := by
  by_cases hne : u = []
  · subst hne
    exact plusLoop_complete_empty hb P lazy w' k v c fuel hu.nil_head hP
      (fun v' c' h => hk v' c' (fun x hx => (h x hx).imp id (fun h => ⟨rfl, h⟩)))
  · obtain ⟨m', hm'⟩ := hu.dropEmpty
    cases m' with
    | zero => exact absurd hm' hne
    | succ m' =>
      exact plusLoop_complete_ne hb P lazy w' k m' u v c fuel hm' hlen
        (fun v' c' h => hk v' c' (fun x hx => Or.inl (h x hx)))

theorem starQ_complete (hb : DetStep L body) (Q P : Sid) (lazy : Bool) (w' : Str) (k : Kont)
    (m : Nat) (u : Str) (v : Vis) (c : Caps) (hu : IterN L m u) (hQ : Q ∉ v)
    (hk : ∀ v' c', (∀ x ∈ v', x = Q ∨ x = P ∨ (u = [] ∧ x ∈ v)) → Succ (k w' v' c')) :
    Succ (starQ body Q P lazy (u ++ w') v c k) := by
  simp only [starQ, enter_fresh hQ]
  apply succ_prefer
  by_cases hne : u = []
  · right
    subst hne
    apply hk
    intro x hx
    rcases List.mem_cons.mp hx with rfl | hx
    · exact Or.inl rfl
    · exact Or.inr (Or.inr ⟨rfl, hx⟩)
  · left
    obtain ⟨m', hm'⟩ := hu.dropEmpty
    cases m' with
    | zero => exact absurd hm' hne
    | succ m' =>
      exact plusLoop_complete_ne hb P lazy w' k m' u _ c _ hm' (Nat.le_refl _)
        (fun v' c' h => hk v' c' (fun x hx => Or.inr (Or.inl (h x hx))))

theorem starLoop_complete {bodyI : Nat → Step} (hb : DetStep L (bodyI 0)) (nn : Bool) (un : Nat → Sid)
    (lazy : Bool) (w' : Str) (k : Kont) (m : Nat) (u : Str) (v : Vis) (c : Caps) (hu : IterN L m u)
    (h0 : un 0 ∉ v)
    (hk : ∀ v' c', (∀ x ∈ v', x = un 0 ∨ x = un 1 ∨ (u = [] ∧ x ∈ v)) → Succ (k w' v' c')) :
    Succ (starLoop nn bodyI un lazy (u ++ w') v c k) := by
  simp only [starLoop]
  split
  · obtain ⟨m', hm'⟩ := hu.dropEmpty
    exact loopU_complete hb (un 0) lazy w' k m' u v c _ hm' (Nat.le_refl _) h0
      (fun v' c' h => hk v' c' (fun x hx => (h x hx).imp id Or.inr))
  · exact starQ_complete hb (un 0) (un 1) lazy w' k m u v c hu h0 hk

end detloops

/-! ### unrolled copies, with any body -/

section copies
variable {L : Str → Prop} {body : Nat → Step} {id : Sid}

theorem exactly_complete (hb : ∀ i, StepC L ((2 * i + 1) :: id) (body i)) (w' : Str) (k : Kont) :
    ∀ (cnt i : Nat) (u : Str) (v : Vis) (c : Caps), IterN L cnt u → FreshFrom id (2 * i) v →
      (∀ v' c', Out id v u v' → FreshFrom id (2 * (i + cnt)) v' → Succ (k w' v' c')) →
      Succ (exactly body cnt i (u ++ w') v c k) := by
  intro cnt
  induction cnt with
  | zero =>
    intro i u v c hu hf hk
    simp only [IterN] at hu
    subst hu
    simp only [exactly, List.nil_append]
    exact hk v c (Out.refl id v) hf
  | succ cnt ih =>
    intro i u v c hu hf hk
    obtain ⟨a, b, rfl, ha, hb'⟩ := hu
    simp only [exactly, List.append_assoc]
    apply hb i a (b ++ w') v c _ ha (hf.child (by omega))
    intro v1 c1 ho1
    have hf1 : FreshFrom id (2 * (i + 1)) v1 := by
      have := hf.after (t := 2 * i + 1) (by omega) ho1
      exact this.mono (by omega)
    apply ih (i + 1) b v1 c1 hb' hf1
    intro v2 c2 ho2 hf2
    apply hk v2 c2 (Out.comp ho1.child ho2)
    have e : 2 * (i + (cnt + 1)) = 2 * (i + 1 + cnt) := by omega
    rw [e]; exact hf2

theorem optNest_complete (hb : ∀ i, StepC L ((2 * i + 1) :: id) (body i)) (w' : Str) (k : Kont) :
    ∀ (cnt i m : Nat) (u : Str) (v : Vis) (c : Caps), IterN L m u → m ≤ cnt → FreshFrom id (2 * i) v →
      (∀ v' c', Out id v u v' → Succ (k w' v' c')) →
      Succ (optNest body (fun i => (2 * i) :: id) cnt i (u ++ w') v c k) := by
  intro cnt
  induction cnt with
  | zero =>
    intro i m u v c hu hm hf hk
    have : m = 0 := by omega
    subst this
    simp only [IterN] at hu
    subst hu
    simp only [optNest, List.nil_append]
    exact hk v c (Out.refl id v)
  | succ cnt ih =>
    intro i m u v c hu hm hf hk
    simp only [optNest, enter_fresh (hf.not_mem (Nat.le_refl _))]
    apply succ_orElse'
    cases m with
    | zero =>
      right
      simp only [IterN] at hu
      subst hu
      simp only [List.nil_append]
      exact hk _ c (Out.entered (t := 2 * i) (Out.refl id _))
    | succ m =>
      left
      obtain ⟨a, b, rfl, ha, hb'⟩ := hu
      rw [List.append_assoc]
      have hf0 := hf.entered (t := 2 * i) (Nat.le_refl _)
      apply hb i a (b ++ w') _ c _ ha (hf0.child (Nat.le_refl _))
      intro v1 c1 ho1
      have hf1 : FreshFrom id (2 * (i + 1)) v1 := by
        have := hf0.after (t := 2 * i + 1) (Nat.le_refl _) ho1
        exact this.mono (by omega)
      apply ih (i + 1) m b v1 c1 hb' (by omega) hf1
      intro v2 c2 ho2
      exact hk v2 c2 (Out.entered (t := 2 * i) (Out.comp ho1.child ho2))

end copies

/-! ### the pattern -/

mutual
  /-- no union states: literals, one-character atoms, concatenation, groups -/
  def Re.unionFree : Re → Bool
    | .lit .. | .chr _ | .never => true
    | .cat l => Re.unionFreeL l
    | .cap r | .grp r => r.unionFree
    | _ => false
  def Re.unionFreeL : List Re → Bool
    | [] => true
    | r :: rs => r.unionFree && Re.unionFreeL rs
end

mutual
  /-- the body of every unbounded loop is free of union states -/
  def Re.loopsSimple : Re → Bool
    | .lit .. | .chr _ | .never => true
    | .cat l | .alt l => Re.loopsSimpleL l
    | .star r | .lazyStar r => r.unionFree
    | .opt r | .cap r | .grp r => r.loopsSimple
    | .rep r _ (some _) => r.loopsSimple
    | .rep r _ none => r.unionFree
  def Re.loopsSimpleL : List Re → Bool
    | [] => true
    | r :: rs => r.loopsSimple && Re.loopsSimpleL rs
end

theorem litStrip_complete (σ : Sem) (ci : Bool) : ∀ (s u w' : Str), litEq σ ci s u = true →
    litStrip σ ci s (u ++ w') = some w' ∧ (s.isEmpty = true ↔ u = [])
  | [], u, w', h => by
    rw [litEq_nil_iff] at h
    subst h
    simp [litStrip]
  | a :: s, u, w', h => by
    rw [litEq_cons_iff] at h
    obtain ⟨b, x, rfl, hab, hx⟩ := h
    simp only [List.cons_append, litStrip, hab, if_true, (litStrip_complete σ ci s x w' hx).1]
    simp

mutual
  theorem run_det (σ : Sem) : ∀ (r : Re), r.unionFree = true → ∀ (id : Sid) (n : Nat),
      DetStep (Matches σ r) (r.run σ id n)
    | .lit s ci, _, id, n => by
      intro u w' v c k hu
      obtain ⟨h1, h2⟩ := litStrip_complete σ ci s u w' (matches_lit_iff.mp hu)
      refine ⟨c, ?_⟩
      simp only [Re.run, h1]
      by_cases hu' : u = []
      · rw [if_pos (h2.mpr hu'), if_pos hu']
      · rw [if_neg (fun h => hu' (h2.mp h)), if_neg hu']
    | .chr p, _, id, n => by
      intro u w' v c k hu
      obtain ⟨a, rfl, ha⟩ := matches_chr_iff.mp hu
      exact ⟨c, by simp [Re.run, ha]⟩
    | .never, _, id, n => by
      intro u w' v c k hu
      exact absurd hu not_matches_never
    | .cat l, h, id, n => by
      intro u w' v c k hu
      simp only [Re.unionFree] at h
      simp only [Re.run]
      exact runCat_det σ l h id 0 n u w' v c k (matches_cat_iff.mp hu)
    | .cap r, h, id, n => by
      intro u w' v c k hu
      simp only [Re.unionFree] at h
      simp only [Re.run]
      obtain ⟨c', e⟩ := run_det σ r h (0 :: id) (n + 1) u w' v c _ (matches_cap_iff.mp hu)
      exact ⟨_, e⟩
    | .grp r, h, id, n => by
      intro u w' v c k hu
      simp only [Re.unionFree] at h
      simp only [Re.run]
      exact run_det σ r h (0 :: id) n u w' v c k (matches_grp_iff.mp hu)
    | .alt _, h, _, _ => by simp [Re.unionFree] at h
    | .star _, h, _, _ => by simp [Re.unionFree] at h
    | .lazyStar _, h, _, _ => by simp [Re.unionFree] at h
    | .opt _, h, _, _ => by simp [Re.unionFree] at h
    | .rep _ _ _, h, _, _ => by simp [Re.unionFree] at h
  theorem runCat_det (σ : Sem) : ∀ (l : List Re), Re.unionFreeL l = true → ∀ (id : Sid) (j n : Nat),
      DetStep (MatchesAll σ l) (Re.runCat σ l id j n)
    | [], _, id, j, n => by
      intro u w' v c k hu
      rw [matchesAll_nil_iff] at hu
      subst hu
      exact ⟨c, by simp [Re.runCat]⟩
    | r :: rs, h, id, j, n => by
      intro u w' v c k hu
      simp only [Re.unionFreeL, Bool.and_eq_true] at h
      obtain ⟨a, b, rfl, ha, hb⟩ := matchesAll_cons_iff.mp hu
      simp only [Re.runCat, List.append_assoc]
      obtain ⟨c1, e1⟩ := run_det σ r h.1 (j :: id) n a (b ++ w') v c _ ha
      rw [e1]
      obtain ⟨c2, e2⟩ := runCat_det σ rs h.2 id (j + 1) (n + r.ncaps) b w' (if a = [] then v else []) c1 k hb
      refine ⟨c2, ?_⟩
      rw [e2]
      by_cases ha' : a = [] <;> by_cases hb' : b = [] <;> simp [ha', hb']
end

mutual
  theorem run_complete (σ : Sem) : ∀ (r : Re), r.loopsSimple = true → ∀ (id : Sid) (n : Nat),
      StepC (Matches σ r) id (r.run σ id n)
    | .lit s ci, _, id, n => (run_det σ (.lit s ci) rfl id n).stepC id
    | .chr p, _, id, n => (run_det σ (.chr p) rfl id n).stepC id
    | .never, _, id, n => (run_det σ .never rfl id n).stepC id
    | .cat l, h, id, n => by
      intro u w' v c k hu hf hk
      simp only [Re.loopsSimple] at h
      simp only [Re.run]
      exact runCat_complete σ l h id 0 n u w' v c k (matches_cat_iff.mp hu) (hf.from 0) hk
    | .alt l, h, id, n => by
      intro u w' v c k hu hf hk
      simp only [Re.loopsSimple] at h
      obtain ⟨r, hr, hru⟩ := matches_alt_iff.mp hu
      simp only [Re.run]
      have key1 := runAlt_complete σ l h id 1 n r hr u w' ((0 :: id) :: v) c k hru
        ((hf.from 0).entered (Nat.zero_le 0)) (fun v' c' ho => hk v' c' (Out.entered (t := 0) ho))
      have key2 := runAlt_complete σ l h id 1 n r hr u w' v c k hru (hf.from 1) hk
      split
      · rw [enter_fresh hf.not_mem]
        exact key1
      · exact key2
    | .star r, h, id, n => by
      intro u w' v c k hu hf hk
      simp only [Re.loopsSimple] at h
      obtain ⟨m, hm⟩ := matches_star_iff.mp hu
      simp only [Re.run]
      apply starLoop_complete (bodyI := fun i => Re.run σ r ((2 * i + 1) :: id) n)
        (run_det σ r h _ n) _ (fun i => (2 * i) :: id) false w' k m u v c hm hf.not_mem
      intro v' c' hv'
      apply hk
      intro x hx
      rcases hv' x hx with rfl | rfl | h
      · exact Or.inr (List.suffix_cons _ _)
      · exact Or.inr (List.suffix_cons _ _)
      · exact Or.inl h
    | .lazyStar r, h, id, n => by
      intro u w' v c k hu hf hk
      simp only [Re.loopsSimple] at h
      obtain ⟨m, hm⟩ := matches_lazyStar_iff.mp hu
      simp only [Re.run]
      apply starLoop_complete (bodyI := fun i => Re.run σ r ((2 * i + 1) :: id) n)
        (run_det σ r h _ n) _ (fun i => (2 * i) :: id) true w' k m u v c hm hf.not_mem
      intro v' c' hv'
      apply hk
      intro x hx
      rcases hv' x hx with rfl | rfl | h
      · exact Or.inr (List.suffix_cons _ _)
      · exact Or.inr (List.suffix_cons _ _)
      · exact Or.inl h
    | .opt r, h, id, n => by
      intro u w' v c k hu hf hk
      simp only [Re.loopsSimple] at h
      simp only [Re.run, enter_fresh hf.not_mem]
      apply succ_orElse'
      rcases matches_opt_iff.mp hu with rfl | hru
      · right
        exact hk _ c (Out.entered (t := 0) (Out.refl id _))
      · left
        have hf0 := (hf.from 0).entered (Nat.zero_le 0)
        apply run_complete σ r h (1 :: id) n u w' _ c k hru (hf0.child (Nat.le_refl _))
        intro v' c' ho
        exact hk v' c' (Out.entered (t := 0) ho.child)
    | .rep r lo (some hh), h, id, n => by
      intro u w' v c k hu hf hk
      simp only [Re.loopsSimple] at h
      obtain ⟨m, hlo, hhi, hm⟩ := matches_rep_iff.mp hu
      have hle := hhi hh rfl
      have hb := fun i => run_complete σ r h ((2 * i + 1) :: id) n
      have e : m = lo + (m - lo) := by omega
      rw [e] at hm
      obtain ⟨u1, u2, rfl, h1, h2⟩ := hm.split
      simp only [Re.run, repLoop, if_pos (Nat.le_trans hlo hle), List.append_assoc]
      apply exactly_complete hb (u2 ++ w') _ lo 0 u1 v c h1 (hf.from _)
      intro v1 c1 ho1 hf1
      apply optNest_complete hb w' k (hh - lo) lo (m - lo) u2 v1 c1 h2 (by omega)
        (by simpa using hf1)
      intro v2 c2 ho2
      exact hk v2 c2 (Out.comp ho1 ho2)
    | .rep r lo none, h, id, n => by
      intro u w' v c k hu hf hk
      simp only [Re.loopsSimple] at h
      obtain ⟨m, hlo, _, hm⟩ := matches_rep_iff.mp hu
      have hd := fun i => run_det σ r h ((2 * i + 1) :: id) n
      have hb := fun i => (hd i).stepC ((2 * i + 1) :: id)
      cases lo with
      | zero =>
        simp only [Re.run, repLoop]
        apply starLoop_complete (bodyI := fun i => Re.run σ r ((2 * i + 1) :: id) n)
          (hd 0) _ (fun i => (2 * i) :: id) false w' k m u v c hm hf.not_mem
        intro v' c' hv'
        apply hk
        intro x hx
        rcases hv' x hx with rfl | rfl | h
        · exact Or.inr (List.suffix_cons _ _)
        · exact Or.inr (List.suffix_cons _ _)
        · exact Or.inl h
      | succ lo' =>
        have e : m = lo' + (m - lo' - 1 + 1) := by omega
        rw [e] at hm
        obtain ⟨u1, u2, rfl, h1, h2⟩ := hm.split
        simp only [Re.run, repLoop, List.append_assoc]
        apply exactly_complete hb (u2 ++ w') _ lo' 0 u1 v c h1 (hf.from _)
        intro v1 c1 ho1 hf1
        have hf1' : FreshFrom id (2 * lo') v1 := by simpa using hf1
        apply plusLoop_complete (hd lo') ((2 * lo') :: id) false w' k _ u2 v1 c1 _ h2 (Nat.le_refl _)
          (hf1'.not_mem (Nat.le_refl _))
        intro v2 c2 hv2
        apply hk v2 c2
        apply Out.comp ho1
        intro x hx
        rcases hv2 x hx with rfl | h
        · exact Or.inr (List.suffix_cons _ _)
        · exact Or.inl h
    | .cap r, h, id, n => by
      intro u w' v c k hu hf hk
      simp only [Re.loopsSimple] at h
      simp only [Re.run]
      apply run_complete σ r h (0 :: id) (n + 1) u w' v c _ (matches_cap_iff.mp hu) ((hf.from 0).child (Nat.le_refl _))
      intro v' c' ho
      exact hk v' _ ho.child
    | .grp r, h, id, n => by
      intro u w' v c k hu hf hk
      simp only [Re.loopsSimple] at h
      simp only [Re.run]
      apply run_complete σ r h (0 :: id) n u w' v c k (matches_grp_iff.mp hu) ((hf.from 0).child (Nat.le_refl _))
      intro v' c' ho
      exact hk v' c' ho.child
  theorem runCat_complete (σ : Sem) : ∀ (l : List Re), Re.loopsSimpleL l = true → ∀ (id : Sid) (j n : Nat)
      (u w' : Str) (v : Vis) (c : Caps) (k : Kont), MatchesAll σ l u → FreshFrom id j v →
      (∀ v' c', Out id v u v' → Succ (k w' v' c')) → Succ (Re.runCat σ l id j n (u ++ w') v c k)
    | [], _, id, j, n, u, w', v, c, k, hu, _, hk => by
      rw [matchesAll_nil_iff] at hu
      subst hu
      simp only [Re.runCat, List.nil_append]
      exact hk v c (Out.refl id v)
    | r :: rs, h, id, j, n, u, w', v, c, k, hu, hf, hk => by
      simp only [Re.loopsSimpleL, Bool.and_eq_true] at h
      obtain ⟨a, b, rfl, ha, hb⟩ := matchesAll_cons_iff.mp hu
      simp only [Re.runCat, List.append_assoc]
      apply run_complete σ r h.1 (j :: id) n a (b ++ w') v c _ ha (hf.child (Nat.le_refl _))
      intro v1 c1 ho1
      apply runCat_complete σ rs h.2 id (j + 1) (n + r.ncaps) b w' v1 c1 k hb (hf.after (Nat.le_refl _) ho1)
      intro v2 c2 ho2
      exact hk v2 c2 (Out.comp ho1.child ho2)
  theorem runAlt_complete (σ : Sem) : ∀ (l : List Re), Re.loopsSimpleL l = true → ∀ (id : Sid) (j n : Nat)
      (r : Re), r ∈ l → ∀ (u w' : Str) (v : Vis) (c : Caps) (k : Kont), Matches σ r u → FreshFrom id j v →
      (∀ v' c', Out id v u v' → Succ (k w' v' c')) → Succ (Re.runAlt σ l id j n (u ++ w') v c k)
    | [], _, _, _, _, _, hr, _, _, _, _, _, _, _, _ => by cases hr
    | x :: xs, h, id, j, n, r, hr, u, w', v, c, k, hu, hf, hk => by
      simp only [Re.loopsSimpleL, Bool.and_eq_true] at h
      simp only [Re.runAlt]
      apply succ_orElse'
      rcases List.mem_cons.mp hr with e | hr
      · left
        rw [e] at hu
        apply run_complete σ x h.1 (j :: id) n u w' v c k hu (hf.child (Nat.le_refl _))
        intro v' c' ho
        exact hk v' c' ho.child
      · right
        exact runAlt_complete σ xs h.2 id (j + 1) (n + x.ncaps) r hr u w' v c k hu (hf.mono (by omega)) hk
end

/-- **completeness of `exec`, for patterns whose unbounded loops have bodies without union
    states** (full statement: without `h`; see the header for what is missing) -/
theorem exec_complete_partial {σ : Sem} {r : Re} (h : r.loopsSimple = true) {s : Str}
    (hm : Matches σ r s) : ∃ caps, r.exec σ s = some caps := by
  have := run_complete σ r h [] 0 s [] [] (List.replicate r.ncaps none) atEnd hm
    (fun _ hx => by cases hx) (fun v' c' _ => ⟨c', by simp [atEnd]⟩)
  rw [List.append_nil] at this
  obtain ⟨res, hres⟩ := this
  exact ⟨some s :: res, by simp [Re.exec, hres]⟩

/-- `exec` decides the language on such patterns -/
theorem exec_isSome_iff {σ : Sem} {r : Re} (h : r.loopsSimple = true) (s : Str) :
    (r.exec σ s).isSome = r.matchB σ s := by
  rw [Bool.eq_iff_iff, matchB_iff, Option.isSome_iff_exists]
  exact ⟨fun ⟨_, he⟩ => (exec_sound he).1, exec_complete_partial h⟩

/-- the hypothesis holds for `([^/]*)(?:[/]|[/](.*[/]))(?:x|y{2,5})z?`-like patterns -/
example : (Re.cat [.cap (.star (.chr .nsep)),
    .grp (.alt [.chr .sepc, .cat [.chr .sepc, .cap (.cat [.star (.chr .dot), .chr .sepc])]]),
    .grp (.alt [.lit ['x'] false, .rep (.lit ['y'] true) 2 (some 5)]), .opt (.lit ['z'] false),
    .rep (.grp (.cat [.lit ['a'] false, .chr .nsep])) 1 none]).loopsSimple = true := by decide

end Wax
