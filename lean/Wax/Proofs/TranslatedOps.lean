import Wax.GeneratedOps
import Wax.Natural
/-! The tie by TRANSLATION (src/token/variance/ops.rs): `tools/rs2lean.py` has just translated these straight-line integer functions of the Rust
source into `Wax/GeneratedOps.lean`. Each theorem says that the hand-written model IS the translated function, for all arguments; an edit
of the source that changes what one of them computes makes the proof fail here, naming the function; an edit outside the
translatable fragment leaves the function out of the generated file, so that the theorem no longer elaborates. Only the
properties whose theorems live here are affected. -/
namespace Wax

/-- the checked addition of the size / depth folds is `usize::conjunction`, with its panic -/
theorem cadd_is_source (what : String) (a b : Nat) :
    cadd what a b = if a + b ≤ Generated.usizeMax then pure (Generated.conjunctionUsize a b) else throw s!"overflow {what}" := by
  unfold cadd Generated.conjunctionUsize Generated.checkedAddExpect Generated.usizeMax usizeLim
  by_cases h : a + b < 18446744073709551616
  · have : a + b ≤ 2 ^ 64 - 1 := by omega
    simp [h, this]
  · have : ¬ a + b ≤ 2 ^ 64 - 1 := by omega
    simp [h, this]

theorem cmul_is_source (what : String) (a b : Nat) :
    cmul what a b = if a * b ≤ Generated.usizeMax then pure (Generated.productUsize a b) else throw s!"overflow {what}" := by
  unfold cmul Generated.productUsize Generated.checkedMulExpect Generated.usizeMax usizeLim
  by_cases h : a * b < 18446744073709551616
  · have : a * b ≤ 2 ^ 64 - 1 := by omega
    simp [h, this]
  · have : ¬ a * b ≤ 2 ^ 64 - 1 := by omega
    simp [h, this]

/-- the two word types share their operations -/
theorem nonzero_ops_are_usize_ops (a b : Nat) :
    Generated.conjunctionNonZero a b = Generated.conjunctionUsize a b ∧
    Generated.productNonZero a b = Generated.productUsize a b := ⟨rfl, rfl⟩


end Wax
