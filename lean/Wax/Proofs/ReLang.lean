import Wax.Regex
import Wax.Proofs.Exec
/-!
Inversion lemmas for the declarative semantics `Matches`: the language of every constructor in
terms of the languages of its parts (so that languages can be rewritten under constructors).
-/
namespace Wax

theorem iterN_of_star_aux {σ : Sem} : ∀ {r' : Re} {w : Str}, Matches σ r' w → ∀ r, r' = .star r →
    ∃ m, IterN (Matches σ r) m w
  | _, _, .starNil, _, _ => ⟨0, rfl⟩
  | _, _, .starCons hu hv, r, e => by
    cases e
    obtain ⟨m, hm⟩ := iterN_of_star_aux hv _ rfl
    exact ⟨m + 1, _, _, rfl, hu, hm⟩
  | _, _, .lit _, _, e => nomatch e
  | _, _, .chr _, _, e => nomatch e
  | _, _, .cat _, _, e => nomatch e
  | _, _, .alt _ _, _, e => nomatch e
  | _, _, .lazyStar _, _, e => nomatch e
  | _, _, .optNone, _, e => nomatch e
  | _, _, .optSome _, _, e => nomatch e
  | _, _, .rep _ _ _, _, e => nomatch e
  | _, _, .cap _, _, e => nomatch e
  | _, _, .grp _, _, e => nomatch e

theorem iterN_of_iter {σ : Sem} {r : Re} : ∀ {n : Nat} {w : Str}, Iter σ r n w → IterN (Matches σ r) n w
  | _, _, .zero => rfl
  | _, _, .succ hu hv => ⟨_, _, rfl, hu, iterN_of_iter hv⟩

theorem matches_star_iff {σ : Sem} {r : Re} {w : Str} :
    Matches σ (.star r) w ↔ ∃ m, IterN (Matches σ r) m w :=
  ⟨fun h => iterN_of_star_aux h r rfl, fun ⟨_, hm⟩ => star_of_iterN hm⟩

theorem matches_lazyStar_iff {σ : Sem} {r : Re} {w : Str} :
    Matches σ (.lazyStar r) w ↔ ∃ m, IterN (Matches σ r) m w := by
  constructor
  · intro h; cases h with | lazyStar h => exact matches_star_iff.mp h
  · intro h; exact .lazyStar (matches_star_iff.mpr h)

theorem matches_rep_iff {σ : Sem} {r : Re} {lo : Nat} {hi : Option Nat} {w : Str} :
    Matches σ (.rep r lo hi) w ↔
      ∃ m, lo ≤ m ∧ (∀ h, hi = some h → m ≤ h) ∧ IterN (Matches σ r) m w := by
  constructor
  · intro h; cases h with | rep h1 h2 h3 => exact ⟨_, h1, h2, iterN_of_iter h3⟩
  · rintro ⟨m, h1, h2, h3⟩; exact .rep h1 h2 (iter_of_iterN h3)

theorem matches_opt_iff {σ : Sem} {r : Re} {w : Str} :
    Matches σ (.opt r) w ↔ w = [] ∨ Matches σ r w := by
  constructor
  · intro h
    cases h with
    | optNone => exact Or.inl rfl
    | optSome h => exact Or.inr h
  · rintro (rfl | h)
    · exact .optNone
    · exact .optSome h

theorem matches_cap_iff {σ : Sem} {r : Re} {w : Str} : Matches σ (.cap r) w ↔ Matches σ r w :=
  ⟨fun h => by cases h with | cap h => exact h, .cap⟩

theorem matches_grp_iff {σ : Sem} {r : Re} {w : Str} : Matches σ (.grp r) w ↔ Matches σ r w :=
  ⟨fun h => by cases h with | grp h => exact h, .grp⟩

theorem matches_cat_iff {σ : Sem} {l : List Re} {w : Str} : Matches σ (.cat l) w ↔ MatchesAll σ l w :=
  ⟨fun h => by cases h with | cat h => exact h, .cat⟩

theorem matches_alt_iff {σ : Sem} {l : List Re} {w : Str} :
    Matches σ (.alt l) w ↔ ∃ r ∈ l, Matches σ r w :=
  ⟨fun h => by cases h with | alt hr h => exact ⟨_, hr, h⟩, fun ⟨_, hr, h⟩ => .alt hr h⟩

theorem matches_lit_iff {σ : Sem} {s : Str} {ci : Bool} {w : Str} :
    Matches σ (.lit s ci) w ↔ litEq σ ci s w = true :=
  ⟨fun h => by cases h with | lit h => exact h, .lit⟩

theorem matches_chr_iff {σ : Sem} {p : CharPred} {w : Str} :
    Matches σ (.chr p) w ↔ ∃ c, w = [c] ∧ p.holds σ c = true :=
  ⟨fun h => by cases h with | chr h => exact ⟨_, rfl, h⟩, fun ⟨_, e, h⟩ => e ▸ .chr h⟩

theorem not_matches_never {σ : Sem} {w : Str} : ¬ Matches σ .never w := fun h => nomatch h

theorem matchesAll_nil_iff {σ : Sem} {w : Str} : MatchesAll σ [] w ↔ w = [] :=
  ⟨fun h => by cases h; rfl, fun h => h ▸ .nil⟩

theorem matchesAll_cons_iff {σ : Sem} {r : Re} {rs : List Re} {w : Str} :
    MatchesAll σ (r :: rs) w ↔ ∃ u v, w = u ++ v ∧ Matches σ r u ∧ MatchesAll σ rs v :=
  ⟨fun h => by cases h with | cons hu hv => exact ⟨_, _, rfl, hu, hv⟩,
   fun ⟨_, _, e, hu, hv⟩ => e ▸ .cons hu hv⟩

theorem matchesAll_single_iff {σ : Sem} {r : Re} {w : Str} : MatchesAll σ [r] w ↔ Matches σ r w := by
  rw [matchesAll_cons_iff]
  constructor
  · rintro ⟨u, v, rfl, hu, hv⟩
    rw [matchesAll_nil_iff.mp hv, List.append_nil]; exact hu
  · intro h; exact ⟨w, [], by simp, h, .nil⟩

theorem matchesAll_append_iff {σ : Sem} : ∀ {l1 l2 : List Re} {w : Str},
    MatchesAll σ (l1 ++ l2) w ↔ ∃ u v, w = u ++ v ∧ MatchesAll σ l1 u ∧ MatchesAll σ l2 v
  | [], l2, w => by
    simp only [List.nil_append, matchesAll_nil_iff]
    constructor
    · intro h; exact ⟨[], w, rfl, rfl, h⟩
    · rintro ⟨u, v, rfl, rfl, h⟩; exact h
  | r :: l1, l2, w => by
    simp only [List.cons_append, matchesAll_cons_iff, matchesAll_append_iff (l1 := l1)]
    constructor
    · rintro ⟨u, v, rfl, hu, a, b, rfl, ha, hb⟩
      exact ⟨u ++ a, b, by simp, ⟨u, a, rfl, hu, ha⟩, hb⟩
    · rintro ⟨x, b, rfl, ⟨u, a, rfl, hu, ha⟩, hb⟩
      exact ⟨u, a ++ b, by simp, hu, a, b, rfl, ha, hb⟩

/-- the empty literal matches the empty string only -/
theorem litEq_nil_iff {σ : Sem} {ci : Bool} {w : Str} : litEq σ ci [] w = true ↔ w = [] := by
  cases w <;> simp [litEq]

theorem litEq_cons_iff {σ : Sem} {ci : Bool} {a : Char} {s w : Str} :
    litEq σ ci (a :: s) w = true ↔
      ∃ b v, w = b :: v ∧ (if ci then σ.ceq a b else a == b) = true ∧ litEq σ ci s v = true := by
  cases w with
  | nil => simp [litEq]
  | cons b v =>
    simp only [litEq, Bool.and_eq_true]
    constructor
    · rintro ⟨h1, h2⟩; exact ⟨b, v, rfl, h1, h2⟩
    · rintro ⟨b', v', e, h1, h2⟩
      cases e
      exact ⟨h1, h2⟩

theorem litEq_cs_iff {σ : Sem} : ∀ {s w : Str}, litEq σ false s w = true ↔ w = s
  | [], w => by rw [litEq_nil_iff]
  | a :: s, w => by
    rw [litEq_cons_iff]
    constructor
    · rintro ⟨b, v, rfl, hab, hv⟩
      have : a = b := by simpa using hab
      rw [this, litEq_cs_iff.mp hv]
    · rintro rfl
      exact ⟨a, s, rfl, by simp, litEq_cs_iff.mpr rfl⟩

theorem litEq_append_iff {σ : Sem} {ci : Bool} : ∀ {s t w : Str},
    litEq σ ci (s ++ t) w = true ↔ ∃ u v, w = u ++ v ∧ litEq σ ci s u = true ∧ litEq σ ci t v = true
  | [], t, w => by
    simp only [List.nil_append, litEq_nil_iff]
    constructor
    · intro h; exact ⟨[], w, rfl, rfl, h⟩
    · rintro ⟨u, v, rfl, rfl, h⟩; exact h
  | a :: s, t, w => by
    simp only [List.cons_append, litEq_cons_iff, litEq_append_iff (s := s)]
    constructor
    · rintro ⟨b, x, rfl, hab, u, v, rfl, hu, hv⟩
      exact ⟨b :: u, v, rfl, ⟨b, u, rfl, hab, hu⟩, hv⟩
    · rintro ⟨x, v, rfl, ⟨b, u, rfl, hab, hu⟩, hv⟩
      exact ⟨b, u ++ v, rfl, hab, u, v, rfl, hu, hv⟩

/-! ### congruence of iteration -/

theorem IterN.congr {L L' : Str → Prop} (h : ∀ w, L w ↔ L' w) : ∀ {m : Nat} {w : Str}, IterN L m w ↔ IterN L' m w
  | 0, _ => Iff.rfl
  | m + 1, w => by
    simp only [IterN]
    constructor
    · rintro ⟨a, b, e, ha, hb⟩; exact ⟨a, b, e, (h a).mp ha, (IterN.congr h).mp hb⟩
    · rintro ⟨a, b, e, ha, hb⟩; exact ⟨a, b, e, (h a).mpr ha, (IterN.congr h).mpr hb⟩

/-- iterating a language that contains at most the empty string -/
theorem IterN.of_null {L : Str → Prop} (h : ∀ w, L w → w = []) : ∀ {m : Nat} {w : Str}, IterN L m w →
    w = [] ∧ (m = 0 ∨ L [])
  | 0, _, hw => ⟨hw, Or.inl rfl⟩
  | m + 1, w, ⟨a, b, e, ha, hb⟩ => by
    have ha' := h a ha
    have hb' := (IterN.of_null h hb).1
    subst ha' hb'
    exact ⟨e, Or.inr ha⟩

theorem IterN.null {L : Str → Prop} (h : L []) : ∀ (m : Nat), IterN L m []
  | 0 => rfl
  | m + 1 => ⟨[], [], rfl, h, IterN.null h m⟩

theorem IterN.one_iff {L : Str → Prop} {w : Str} : IterN L 1 w ↔ L w := by
  constructor
  · rintro ⟨a, b, rfl, ha, hb⟩
    simp only [IterN] at hb
    subst hb
    simpa using ha
  · exact IterN.one

end Wax
