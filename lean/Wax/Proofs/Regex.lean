import Wax.Regex
/-! `matchB` decides `Matches`. -/
namespace Wax

theorem mem_splits {s u v : Str} : (u, v) ∈ splits s ↔ u ++ v = s := by
  induction s generalizing u v with
  | nil => simp [splits]
  | cons c cs ih =>
    simp only [splits, List.mem_cons, List.mem_map, Prod.mk.injEq, Prod.exists]
    constructor
    · rintro (⟨rfl, rfl⟩ | ⟨a, b, hab, rfl, rfl⟩)
      · rfl
      · simp [ih.mp hab]
    · intro h
      cases u with
      | nil => left; simpa using h
      | cons x xs =>
        right
        simp at h
        exact ⟨xs, v, ih.mpr h.2, by simp [h.1], rfl⟩

theorem any_splits {s : Str} {p : Str × Str → Bool} :
    (splits s).any p = true ↔ ∃ u v, u ++ v = s ∧ p (u, v) = true := by
  simp only [List.any_eq_true, Prod.exists]
  constructor
  · rintro ⟨u, v, hm, hp⟩; exact ⟨u, v, mem_splits.mp hm, hp⟩
  · rintro ⟨u, v, hm, hp⟩; exact ⟨u, v, mem_splits.mpr hm, hp⟩

/-! ### star -/

theorem starB_mono {m : Str → Bool} : ∀ (n : Nat) (w : Str), starB m n w = true → ∀ n', n ≤ n' → starB m n' w = true := by
  intro n
  induction n with
  | zero =>
    intro w h n' _
    cases w with
    | nil => cases n' <;> simp [starB]
    | cons c cs => simp [starB] at h
  | succ n ih =>
    intro w h n' hn
    cases w with
    | nil => cases n' <;> simp [starB]
    | cons c cs =>
      cases n' with
      | zero => omega
      | succ n' =>
        simp only [starB, any_splits, Bool.and_eq_true] at h ⊢
        obtain ⟨u, v, huv, ⟨hne, hm⟩, hs⟩ := h
        exact ⟨u, v, huv, ⟨hne, hm⟩, ih v hs n' (by omega)⟩

theorem starB_sound {σ : Sem} {r : Re} (ih : ∀ s, r.matchB σ s = true → Matches σ r s) :
    ∀ n w, starB (r.matchB σ) n w = true → Matches σ (.star r) w := by
  intro n
  induction n with
  | zero =>
    intro w h
    cases w with
    | nil => exact .starNil
    | cons => simp [starB] at h
  | succ n ihn =>
    intro w h
    cases w with
    | nil => exact .starNil
    | cons c cs =>
      simp only [starB, any_splits, Bool.and_eq_true] at h
      obtain ⟨u, v, huv, ⟨_, hu⟩, hv⟩ := h
      rw [← huv]
      exact .starCons (ih u hu) (ihn v hv)

/-! ### counted iteration -/

theorem iterB_sound {σ : Sem} {r : Re} (ih : ∀ s, r.matchB σ s = true → Matches σ r s) :
    ∀ n w, iterB (r.matchB σ) n w = true → Iter σ r n w := by
  intro n
  induction n with
  | zero => intro w h; simp [iterB] at h; subst h; exact .zero
  | succ n ihn =>
    intro w h
    simp only [iterB, any_splits, Bool.and_eq_true] at h
    obtain ⟨u, v, huv, hu, hv⟩ := h
    rw [← huv]
    exact .succ (ih u hu) (ihn v hv)

theorem repB_iff {m : Str → Bool} {lo : Nat} {hi : Option Nat} {w : Str} :
    ∀ K, repB m lo hi w K = true ↔
      ∃ k, k ≤ K ∧ (∀ h, hi = some h → lo + k ≤ h) ∧ iterB m (lo + k) w = true := by
  intro K
  induction K with
  | zero =>
    simp only [repB, Bool.and_eq_true]
    constructor
    · rintro ⟨hb, hi'⟩
      refine ⟨0, Nat.le_refl _, ?_, by simpa using hi'⟩
      intro h hh; subst hh; simpa using hb
    · rintro ⟨k, hk, hb, hi'⟩
      have : k = 0 := by omega
      subst this
      refine ⟨?_, by simpa using hi'⟩
      cases hi with
      | none => rfl
      | some h => simpa using hb h rfl
  | succ K ih =>
    simp only [repB, Bool.or_eq_true, Bool.and_eq_true, ih]
    constructor
    · rintro (⟨hb, hi'⟩ | ⟨k, hk, hb, hi'⟩)
      · refine ⟨K + 1, Nat.le_refl _, ?_, hi'⟩
        intro h hh; subst hh; simpa using hb
      · exact ⟨k, by omega, hb, hi'⟩
    · rintro ⟨k, hk, hb, hi'⟩
      by_cases hkk : k = K + 1
      · subst hkk
        left
        refine ⟨?_, hi'⟩
        cases hi with
        | none => rfl
        | some h => simpa using hb h rfl
      · right; exact ⟨k, by omega, hb, hi'⟩

/-- empty iterations beyond the lower bound can be dropped -/
theorem iterB_shrink {m : Str → Bool} :
    ∀ (n : Nat) (w : Str) (lo : Nat), lo ≤ n → iterB m n w = true →
      ∃ n', lo ≤ n' ∧ n' ≤ n ∧ n' ≤ lo + w.length ∧ iterB m n' w = true := by
  intro n
  induction n with
  | zero => intro w lo hlo h; exact ⟨0, by omega, by omega, by omega, h⟩
  | succ n ih =>
    intro w lo hlo h
    by_cases hlo' : lo = n + 1
    · exact ⟨n + 1, by omega, by omega, by omega, h⟩
    · have hlon : lo ≤ n := by omega
      simp only [iterB, any_splits, Bool.and_eq_true] at h
      obtain ⟨u, v, huv, hu, hv⟩ := h
      cases u with
      | nil =>
        simp at huv; subst huv
        obtain ⟨n', h1, h2, h3, h4⟩ := ih v lo hlon hv
        exact ⟨n', h1, by omega, h3, h4⟩
      | cons c cs =>
        have hlen : v.length + 1 ≤ w.length := by rw [← huv]; simp
        obtain ⟨n'', h1, h2, h3, h4⟩ := ih v (lo - 1) (by omega) hv
        refine ⟨n'' + 1, by omega, by omega, by omega, ?_⟩
        simp only [iterB, any_splits, Bool.and_eq_true]
        exact ⟨c :: cs, v, huv, hu, h4⟩

/-! ### soundness -/

theorem litEq_refl_cs (σ : Sem) : ∀ s, litEq σ false s s = true := by
  intro s; induction s with
  | nil => rfl
  | cons a s ih => simp [litEq, ih]

mutual
  theorem matchB_sound (σ : Sem) : ∀ (r : Re) (w : Str), r.matchB σ w = true → Matches σ r w
    | .lit s ci, w, h => by simp only [Re.matchB] at h; exact .lit h
    | .chr p, w, h => by
      simp only [Re.matchB] at h
      match w, h with
      | [c], h => exact .chr h
    | .never, w, h => by simp [Re.matchB] at h
    | .cat l, w, h => by simp only [Re.matchB] at h; exact .cat (matchAllB_sound σ l w h)
    | .alt l, w, h => by
      simp only [Re.matchB] at h
      obtain ⟨r, hr, hm⟩ := matchAnyB_sound σ l w h
      exact .alt hr hm
    | .star r, w, h => by
      simp only [Re.matchB] at h
      exact starB_sound (fun s hs => matchB_sound σ r s hs) _ _ h
    | .lazyStar r, w, h => by
      simp only [Re.matchB] at h
      exact .lazyStar (starB_sound (fun s hs => matchB_sound σ r s hs) _ _ h)
    | .opt r, w, h => by
      simp only [Re.matchB, Bool.or_eq_true] at h
      rcases h with h | h
      · have : w = [] := by simpa using h
        subst this; exact .optNone
      · exact .optSome (matchB_sound σ r w h)
    | .rep r lo hi, w, h => by
      simp only [Re.matchB] at h
      obtain ⟨k, _, hb, hi'⟩ := (repB_iff _).mp h
      exact .rep (Nat.le_add_right lo k) hb (iterB_sound (fun s hs => matchB_sound σ r s hs) _ _ hi')
    | .cap r, w, h => by simp only [Re.matchB] at h; exact .cap (matchB_sound σ r w h)
    | .grp r, w, h => by simp only [Re.matchB] at h; exact .grp (matchB_sound σ r w h)
  theorem matchAllB_sound (σ : Sem) : ∀ (l : List Re) (w : Str), Re.matchAllB σ l w = true → MatchesAll σ l w
    | [], w, h => by
      simp only [Re.matchAllB] at h
      have : w = [] := by simpa using h
      subst this; exact .nil
    | r :: rs, w, h => by
      simp only [Re.matchAllB, any_splits, Bool.and_eq_true] at h
      obtain ⟨u, v, huv, hu, hv⟩ := h
      rw [← huv]
      exact .cons (matchB_sound σ r u hu) (matchAllB_sound σ rs v hv)
  theorem matchAnyB_sound (σ : Sem) : ∀ (l : List Re) (w : Str), Re.matchAnyB σ l w = true → ∃ r ∈ l, Matches σ r w
    | [], w, h => by simp [Re.matchAnyB] at h
    | r :: rs, w, h => by
      simp only [Re.matchAnyB, Bool.or_eq_true] at h
      rcases h with h | h
      · exact ⟨r, List.mem_cons_self .., matchB_sound σ r w h⟩
      · obtain ⟨r', hr', hm⟩ := matchAnyB_sound σ rs w h
        exact ⟨r', List.mem_cons_of_mem _ hr', hm⟩
end

/-! ### completeness -/

theorem matchAnyB_of_mem {σ : Sem} {l : List Re} {r : Re} {w : Str} (hr : r ∈ l) (h : r.matchB σ w = true) :
    Re.matchAnyB σ l w = true := by
  induction l with
  | nil => cases hr
  | cons x xs ih =>
    simp only [Re.matchAnyB, Bool.or_eq_true]
    cases hr with
    | head => exact Or.inl h
    | tail _ hm => exact Or.inr (ih hm)

mutual
  theorem matchB_complete (σ : Sem) : ∀ {r : Re} {w : Str}, Matches σ r w → r.matchB σ w = true
    | _, _, .lit h => by simpa [Re.matchB] using h
    | _, _, .chr h => by simpa [Re.matchB] using h
    | _, _, .cat h => by simp only [Re.matchB]; exact matchAllB_complete σ h
    | _, _, .alt hr h => by simp only [Re.matchB]; exact matchAnyB_of_mem hr (matchB_complete σ h)
    | _, _, .starNil => by simp [Re.matchB, starB]
    | _, _, @Matches.starCons _ r u v hu hv => by
      have ihu := matchB_complete σ hu
      have ihv := matchB_complete σ hv
      simp only [Re.matchB] at ihv ⊢
      cases u with
      | nil => simpa using ihv
      | cons c cs =>
        simp only [List.cons_append, List.length_cons, starB, any_splits, Bool.and_eq_true]
        refine ⟨c :: cs, v, rfl, ⟨by simp, ihu⟩, ?_⟩
        exact starB_mono _ _ ihv _ (by simp)
    | _, _, .lazyStar h => by
      have := matchB_complete σ h
      simpa [Re.matchB] using this
    | _, _, .optNone => by simp [Re.matchB]
    | _, _, .optSome h => by simp [Re.matchB, matchB_complete σ h]
    | _, _, @Matches.rep _ r lo hi n w hlo hhi hit => by
      have hi' := iter_complete σ hit
      obtain ⟨n', h1, h2, h3, h4⟩ := iterB_shrink n w lo hlo hi'
      simp only [Re.matchB]
      refine (repB_iff _).mpr ⟨n' - lo, by omega, ?_, ?_⟩
      · intro h hh
        have := hhi h hh
        omega
      · have : lo + (n' - lo) = n' := by omega
        rw [this]; exact h4
    | _, _, .cap h => by simpa [Re.matchB] using matchB_complete σ h
    | _, _, .grp h => by simpa [Re.matchB] using matchB_complete σ h
  theorem matchAllB_complete (σ : Sem) : ∀ {l : List Re} {w : Str}, MatchesAll σ l w → Re.matchAllB σ l w = true
    | _, _, .nil => by simp [Re.matchAllB]
    | _, _, .cons hu hv => by
      simp only [Re.matchAllB, any_splits, Bool.and_eq_true]
      exact ⟨_, _, rfl, matchB_complete σ hu, matchAllB_complete σ hv⟩
  theorem iter_complete (σ : Sem) : ∀ {r : Re} {n : Nat} {w : Str}, Iter σ r n w → iterB (r.matchB σ) n w = true
    | _, _, _, .zero => by simp [iterB]
    | _, _, _, .succ hu hv => by
      simp only [iterB, any_splits, Bool.and_eq_true]
      exact ⟨_, _, rfl, matchB_complete σ hu, iter_complete σ hv⟩
end

/-- the executable matcher decides the declarative semantics -/
theorem matchB_iff (σ : Sem) (r : Re) (w : Str) : r.matchB σ w = true ↔ Matches σ r w :=
  ⟨matchB_sound σ r w, matchB_complete σ⟩

instance (σ : Sem) (r : Re) (w : Str) : Decidable (Matches σ r w) :=
  decidable_of_iff _ (matchB_iff σ r w)

end Wax
