import Wax.Literals
import Wax.SemSpec
import Wax.Proofs.ParseShape
/-!
C12, last clause: the queue-driven search `Token::literals` (model: `hasSemanticLiterals`) answers
the structural question `semSpec` ("some component, at any nesting depth, all of whose tokens are
literals spelling `.` or `..`").

The unconditional statement is FALSE (see `hasSemanticLiterals_ne_semSpec_alt` / `_rep`): the code
splits the *list of alternatives* of an alternation (and the one-token list holding a repetition
body) into components as if it were a concatenation, so a literal that is directly a branch or a
repetition body is found by the code while the specification only looks *inside* branches.  The
parser never builds such a tree (every branch and every repetition body is a `cat`), so the
statement holds for everything the parser returns; the hypothesis actually needed (`semShape`) is
weaker: no literal is directly an alternative or a repetition body.
-/
set_option linter.unusedSimpArgs false
namespace Wax

/-! ### the shape hypothesis -/

mutual
  /-- no literal is directly a branch of an alternation or the body of a repetition -/
  def semShape : Tok → Bool
    | .alt _ bs => bs.all (fun b => !b.isLitT) && semShapeL bs
    | .cat _ ts => semShapeL ts
    | .rep _ b _ _ => !b.isLitT && semShape b
    | _ => true
  def semShapeL : List Tok → Bool
    | [] => true
    | t :: ts => semShape t && semShapeL ts
end

mutual
  /-- what the parser builds: every branch of an alternation and every repetition body is a `cat` -/
  def catKids : Tok → Bool
    | .alt _ bs => catKidsL true bs
    | .cat _ ts => catKidsL false ts
    | .rep _ b _ _ => isCatT b && catKids b
    | _ => true
  def catKidsL (br : Bool) : List Tok → Bool
    | [] => true
    | t :: ts => (!br || isCatT t) && catKids t && catKidsL br ts
end

/-! ### components -/

/-- the literal text of a run of tokens (non-literals contribute nothing) -/
def semTexts (c : List Tok) : Str := (c.map Tok.litText).flatten

/-- no component boundary in the run -/
def semBfree (p : List Tok) : Bool := p.all (fun t => !t.isBoundaryS)

theorem splitComps_semBfree : ∀ (p : List Tok), semBfree p = true → splitComps p = [p]
  | [], _ => rfl
  | t :: p, h => by
    simp only [semBfree, List.all_cons, Bool.and_eq_true, Bool.not_eq_true'] at h
    have ih := splitComps_semBfree p (by simpa [semBfree] using h.2)
    simp only [splitComps, h.1, ih]; rfl

theorem splitComps_semBfree_boundary (b : Tok) (ts : List Tok) (hb : b.isBoundaryS = true) :
    ∀ (p : List Tok), semBfree p = true → splitComps (p ++ b :: ts) = p :: splitComps ts
  | [], _ => by simp only [List.nil_append, splitComps, hb]; rfl
  | t :: p, h => by
    simp only [semBfree, List.all_cons, Bool.and_eq_true, Bool.not_eq_true'] at h
    have ih := splitComps_semBfree_boundary b ts hb p (by simpa [semBfree] using h.2)
    simp only [List.cons_append, splitComps, h.1, ih]; rfl

theorem semToks_append : ∀ (a b : List Tok), semToks (a ++ b) = (semToks a || semToks b)
  | [], b => by simp [semToks]
  | t :: a, b => by simp [semToks, semToks_append a b, Bool.or_assoc]

theorem semToks_allLit : ∀ (p : List Tok), p.all Tok.isLitT = true → semToks p = false
  | [], _ => by simp [semToks]
  | t :: p, h => by
    simp only [List.all_cons, Bool.and_eq_true] at h
    have ih := semToks_allLit p h.2
    cases t <;> simp_all [semToks, semTok, Tok.isLitT]

/-- a finished component, as the code sees it, is the specification of that component -/
theorem semFinish_comp (p : List Tok) :
    semFinish (!p.isEmpty) (p.all Tok.isLitT) (semTexts p) (semToks p) =
      (isSemComp p || semToks p) := by
  cases hl : p.all Tok.isLitT
  · simp only [semFinish, isSemComp, hl, Bool.and_false, Bool.false_and, Bool.false_or,
      Bool.false_eq_true, if_false]
    cases p with
    | nil => simp [semToks]
    | cons t p => simp
  · have h0 := semToks_allLit p hl
    simp only [semFinish, isSemComp, hl, h0, if_true, Bool.and_true, Bool.or_false, semTexts,
      isSemanticText]

/-! ### the state of the scan after a boundary-free prefix -/

theorem semBfree_snoc {p : List Tok} {t : Tok} (hp : semBfree p = true) (ht : t.isBoundaryS = false) :
    semBfree (p ++ [t]) = true := by
  simp only [semBfree, List.all_append, List.all_cons, List.all_nil, Bool.and_true, Bool.and_eq_true,
    Bool.not_eq_true'] at hp ⊢
  exact ⟨hp, ht⟩

theorem sem_isEmpty_snoc (p : List Tok) (t : Tok) : (p ++ [t]).isEmpty = false := by
  cases p <;> rfl

theorem semTexts_snoc (p : List Tok) (t : Tok) : semTexts (p ++ [t]) = semTexts p ++ t.litText := by
  simp [semTexts]

/-- components without a literal are not semantic -/
theorem splitComps_noLit : ∀ (bs : List Tok), bs.all (fun b => !b.isLitT) = true →
    (splitComps bs).all (fun c => c.all (fun b => !b.isLitT)) = true
  | [], _ => by simp [splitComps]
  | t :: ts, h => by
    simp only [List.all_cons, Bool.and_eq_true] at h
    have ih := splitComps_noLit ts h.2
    simp only [splitComps]
    split
    · simp [ih]
    · split
      · rename_i c cs hc
        rw [hc] at ih
        simp only [List.all_cons, Bool.and_eq_true] at ih ⊢
        exact ⟨⟨h.1, ih.1⟩, ih.2⟩
      · simp [h.1]

theorem isSemComp_noLit (c : List Tok) (h : c.all (fun b => !b.isLitT) = true) :
    isSemComp c = false := by
  cases c with
  | nil => simp [isSemComp]
  | cons t c =>
    simp only [List.all_cons, Bool.and_eq_true, Bool.not_eq_true'] at h
    simp [isSemComp, h.1]

theorem any_isSemComp_noLit (bs : List Tok) (h : bs.all (fun b => !b.isLitT) = true) :
    (splitComps bs).any isSemComp = false := by
  have h1 := splitComps_noLit bs h
  generalize splitComps bs = L at h1
  induction L with
  | nil => rfl
  | cons c L ih =>
    simp only [List.all_cons, Bool.and_eq_true] at h1
    simp only [List.any_cons, isSemComp_noLit c h1.1, ih h1.2, Bool.or_false]

/-! ### the search is the specification -/

mutual
  theorem semOne_eq_semTok : ∀ (t : Tok), semShape t = true → t.isLitT = false →
      semOne t = semTok t
    | .alt _ bs, h, _ => by
      simp only [semShape, Bool.and_eq_true] at h
      have := semRun_eq_semList bs h.2 [] rfl
      simp only [List.isEmpty_nil, Bool.not_true, List.all_nil, semTexts, List.map_nil,
        List.flatten_nil, semToks, List.nil_append] at this
      simp only [semOne, semTok, this, semList, any_isSemComp_noLit bs h.1, Bool.false_or]
    | .cat _ ts, h, _ => by
      simp only [semShape] at h
      have := semRun_eq_semList ts h [] rfl
      simp only [List.isEmpty_nil, Bool.not_true, List.all_nil, semTexts, List.map_nil,
        List.flatten_nil, semToks, List.nil_append] at this
      simp only [semOne, semTok, this]
    | .rep _ b _ _, h, _ => by
      simp only [semShape, Bool.and_eq_true, Bool.not_eq_true'] at h
      simp only [semOne, semTok, semOne_eq_semTok b h.2 h.1]
    | .lit .., _, hl => by simp [Tok.isLitT] at hl
    | .sep _, _, _ => by simp [semOne, semTok]
    | .cls .., _, _ => by simp [semOne, semTok]
    | .one _, _, _ => by simp [semOne, semTok]
    | .zom .., _, _ => by simp [semOne, semTok]
    | .tree .., _, _ => by simp [semOne, semTok]
  /-- after scanning a boundary-free prefix `p` of the current component, the rest of the scan
      answers the specification of the whole sequence -/
  theorem semRun_eq_semList : ∀ (ts : List Tok), semShapeL ts = true → ∀ (p : List Tok),
      semBfree p = true →
      semRun ts (!p.isEmpty) (p.all Tok.isLitT) (semTexts p) (semToks p) = semList (p ++ ts)
    | [], _, p, hp => by
      simp only [semRun, List.append_nil, semList, splitComps_semBfree p hp, List.any_cons,
        List.any_nil, Bool.or_false, semFinish_comp]
    | .sep sp :: ts, h, p, hp => by
      simp only [semShapeL, Bool.and_eq_true] at h
      have ih := semRun_eq_semList ts h.2 [] rfl
      simp only [List.isEmpty_nil, Bool.not_true, List.all_nil, semTexts, List.map_nil,
        List.flatten_nil, semToks, List.nil_append] at ih
      simp only [semRun, ih, semFinish_comp, semList,
        splitComps_semBfree_boundary (.sep sp) ts rfl p hp, List.any_cons, semToks_append, semToks,
        semTok, Bool.false_or]
      cases isSemComp p <;> cases semToks p <;> cases (splitComps ts).any isSemComp <;>
        cases semToks ts <;> rfl
    | .tree sp r :: ts, h, p, hp => by
      simp only [semShapeL, Bool.and_eq_true] at h
      have ih := semRun_eq_semList ts h.2 [] rfl
      simp only [List.isEmpty_nil, Bool.not_true, List.all_nil, semTexts, List.map_nil,
        List.flatten_nil, semToks, List.nil_append] at ih
      simp only [semRun, ih, semFinish_comp, semList,
        splitComps_semBfree_boundary (.tree sp r) ts rfl p hp, List.any_cons, semToks_append, semToks,
        semTok, Bool.false_or]
      cases isSemComp p <;> cases semToks p <;> cases (splitComps ts).any isSemComp <;>
        cases semToks ts <;> rfl
    | .lit sp s ci :: ts, h, p, hp => by
      simp only [semShapeL, Bool.and_eq_true] at h
      have ih := semRun_eq_semList ts h.2 (p ++ [.lit sp s ci]) (semBfree_snoc hp rfl)
      simp only [sem_isEmpty_snoc, Bool.and_false, Bool.not_false,
        List.all_append, List.all_cons, List.all_nil, Tok.isLitT, Bool.and_true, semTexts_snoc,
        Tok.litText, semToks_append, semToks, semTok, Bool.or_false, List.append_assoc,
        List.cons_append, List.nil_append] at ih
      simp only [semRun, ih]
    | .cls sp n its :: ts, h, p, hp => by
      simp only [semShapeL, Bool.and_eq_true] at h
      have ih := semRun_eq_semList ts h.2 (p ++ [.cls sp n its]) (semBfree_snoc hp rfl)
      simp only [sem_isEmpty_snoc, Bool.and_false, Bool.not_false,
        List.all_append, List.all_cons, List.all_nil, Tok.isLitT, Bool.and_true, semTexts_snoc,
        Tok.litText, semToks_append, semToks, semTok, Bool.or_false, List.append_assoc,
        List.cons_append, List.nil_append, List.append_nil, Bool.and_false] at ih
      simp only [semRun, ih]
    | .one sp :: ts, h, p, hp => by
      simp only [semShapeL, Bool.and_eq_true] at h
      have ih := semRun_eq_semList ts h.2 (p ++ [.one sp]) (semBfree_snoc hp rfl)
      simp only [sem_isEmpty_snoc, Bool.and_false, Bool.not_false,
        List.all_append, List.all_cons, List.all_nil, Tok.isLitT, Bool.and_true, semTexts_snoc,
        Tok.litText, semToks_append, semToks, semTok, Bool.or_false, List.append_assoc,
        List.cons_append, List.nil_append, List.append_nil, Bool.and_false] at ih
      simp only [semRun, ih]
    | .zom sp l :: ts, h, p, hp => by
      simp only [semShapeL, Bool.and_eq_true] at h
      have ih := semRun_eq_semList ts h.2 (p ++ [.zom sp l]) (semBfree_snoc hp rfl)
      simp only [sem_isEmpty_snoc, Bool.and_false, Bool.not_false,
        List.all_append, List.all_cons, List.all_nil, Tok.isLitT, Bool.and_true, semTexts_snoc,
        Tok.litText, semToks_append, semToks, semTok, Bool.or_false, List.append_assoc,
        List.cons_append, List.nil_append, List.append_nil, Bool.and_false] at ih
      simp only [semRun, ih]
    | .alt sp bs :: ts, h, p, hp => by
      simp only [semShapeL, Bool.and_eq_true] at h
      have h1 := semOne_eq_semTok (.alt sp bs) h.1 rfl
      simp only [semOne] at h1
      have ih := semRun_eq_semList ts h.2 (p ++ [.alt sp bs]) (semBfree_snoc hp rfl)
      simp only [sem_isEmpty_snoc, Bool.and_false, Bool.not_false,
        List.all_append, List.all_cons, List.all_nil, Tok.isLitT, Bool.and_true, semTexts_snoc,
        Tok.litText, semToks_append, semToks, Bool.or_false, List.append_assoc,
        List.cons_append, List.nil_append, List.append_nil, Bool.and_false] at ih
      simp only [semRun, h1, ih]
    | .cat sp cs :: ts, h, p, hp => by
      simp only [semShapeL, Bool.and_eq_true] at h
      have h1 := semOne_eq_semTok (.cat sp cs) h.1 rfl
      simp only [semOne] at h1
      have ih := semRun_eq_semList ts h.2 (p ++ [.cat sp cs]) (semBfree_snoc hp rfl)
      simp only [sem_isEmpty_snoc, Bool.and_false, Bool.not_false,
        List.all_append, List.all_cons, List.all_nil, Tok.isLitT, Bool.and_true, semTexts_snoc,
        Tok.litText, semToks_append, semToks, Bool.or_false, List.append_assoc,
        List.cons_append, List.nil_append, List.append_nil, Bool.and_false] at ih
      simp only [semRun, h1, ih]
    | .rep sp b lo hi :: ts, h, p, hp => by
      simp only [semShapeL, Bool.and_eq_true] at h
      have h1 := semOne_eq_semTok (.rep sp b lo hi) h.1 rfl
      simp only [semOne] at h1
      have ih := semRun_eq_semList ts h.2 (p ++ [.rep sp b lo hi]) (semBfree_snoc hp rfl)
      simp only [sem_isEmpty_snoc, Bool.and_false, Bool.not_false,
        List.all_append, List.all_cons, List.all_nil, Tok.isLitT, Bool.and_true, semTexts_snoc,
        Tok.litText, semToks_append, semToks, Bool.or_false, List.append_assoc,
        List.cons_append, List.nil_append, List.append_nil, Bool.and_false] at ih
      simp only [semRun, h1, ih]
end


/-! ### headline theorem -/

/-- **C12, last clause.**  On every token tree in which no literal is directly an alternative or a
    repetition body (in particular on every tree the parser returns, `parse_hasSemanticLiterals`),
    the queue-driven search of `Token::literals` answers exactly the structural specification.
    The hypothesis cannot be dropped: `hasSemanticLiterals_ne_semSpec_alt`, `_rep`. -/
theorem hasSemanticLiterals_eq_semSpec (t : Tok) (h : semShape t = true) :
    hasSemanticLiterals t = semSpec t := by
  cases t with
  | cat sp ts =>
    simp only [semShape] at h
    have := semRun_eq_semList ts h [] rfl
    simp only [List.isEmpty_nil, Bool.not_true, List.all_nil, semTexts, List.map_nil,
      List.flatten_nil, semToks, List.nil_append] at this
    simp only [hasSemanticLiterals, semSpec, Tok.concatenation, this]
  | lit sp s ci =>
    simp [hasSemanticLiterals, semSpec, Tok.concatenation, semOne, semList, splitComps,
      Tok.isBoundaryS, isSemComp, Tok.isLitT, Tok.litText, semToks, semTok, isSemanticText]
  | alt sp bs =>
    have h1 := semOne_eq_semTok (.alt sp bs) h rfl
    simp [hasSemanticLiterals, semSpec, Tok.concatenation, h1, semList, splitComps,
      Tok.isBoundaryS, isSemComp, Tok.isLitT, semToks]
  | rep sp b lo hi =>
    have h1 := semOne_eq_semTok (.rep sp b lo hi) h rfl
    simp [hasSemanticLiterals, semSpec, Tok.concatenation, h1, semList, splitComps,
      Tok.isBoundaryS, isSemComp, Tok.isLitT, semToks]
  | sep sp =>
    simp [hasSemanticLiterals, semSpec, Tok.concatenation, semOne, semList, splitComps,
      Tok.isBoundaryS, isSemComp, semToks, semTok]
  | tree sp r =>
    simp [hasSemanticLiterals, semSpec, Tok.concatenation, semOne, semList, splitComps,
      Tok.isBoundaryS, isSemComp, semToks, semTok]
  | cls sp n its =>
    simp [hasSemanticLiterals, semSpec, Tok.concatenation, semOne, semList, splitComps,
      Tok.isBoundaryS, isSemComp, Tok.isLitT, semToks, semTok]
  | one sp =>
    simp [hasSemanticLiterals, semSpec, Tok.concatenation, semOne, semList, splitComps,
      Tok.isBoundaryS, isSemComp, Tok.isLitT, semToks, semTok]
  | zom sp l =>
    simp [hasSemanticLiterals, semSpec, Tok.concatenation, semOne, semList, splitComps,
      Tok.isBoundaryS, isSemComp, Tok.isLitT, semToks, semTok]

/-! ### the unconditional statement is false -/

/-- `{.}` with the branch a bare literal instead of `cat [lit]` (2 nodes) -/
def semCexAlt : Tok := .alt ⟨0, 3⟩ [.lit ⟨1, 1⟩ ['.'] false]
/-- `<.>` with the body a bare literal instead of `cat [lit]` (2 nodes) -/
def semCexRep : Tok := .rep ⟨0, 3⟩ (.lit ⟨1, 1⟩ ['.'] false) 1 none

theorem hasSemanticLiterals_semCexAlt : hasSemanticLiterals semCexAlt = true := by decide
theorem hasSemanticLiterals_semCexRep : hasSemanticLiterals semCexRep = true := by decide
theorem semSpec_semCexAlt : semSpec semCexAlt = false := by
  simp [semCexAlt, semSpec, Tok.concatenation, semList, splitComps, Tok.isBoundaryS, isSemComp,
    Tok.isLitT, semToks, semTok]
theorem semSpec_semCexRep : semSpec semCexRep = false := by
  simp [semCexRep, semSpec, Tok.concatenation, semList, splitComps, Tok.isBoundaryS, isSemComp,
    Tok.isLitT, semToks, semTok]

/-- the code finds the literal that is directly an alternative; the specification does not
    (`semSpec` is defined by well-founded recursion, so `decide` cannot evaluate it; the two sides
    are evaluated separately above) -/
theorem hasSemanticLiterals_ne_semSpec_alt : hasSemanticLiterals semCexAlt ≠ semSpec semCexAlt := by
  rw [hasSemanticLiterals_semCexAlt, semSpec_semCexAlt]; decide
theorem hasSemanticLiterals_ne_semSpec_rep : hasSemanticLiterals semCexRep ≠ semSpec semCexRep := by
  rw [hasSemanticLiterals_semCexRep, semSpec_semCexRep]; decide

/-- so the statement without a hypothesis is refuted -/
theorem not_forall_hasSemanticLiterals_eq_semSpec :
    ¬ ∀ t : Tok, hasSemanticLiterals t = semSpec t :=
  fun h => hasSemanticLiterals_ne_semSpec_alt (h semCexAlt)

/-- and `pshape` (the hypothesis of `parse_pshape`) does not help: both witnesses have it -/
theorem pshape_semCex : pshape semCexAlt = true ∧ pshape semCexRep = true := by decide

/-- the witnesses are minimal: a tree without child tokens (one node) is never a counterexample -/
theorem hasSemanticLiterals_eq_semSpec_leaf (t : Tok)
    (h : match t with | .alt _ bs => bs = [] | .cat _ ts => ts = [] | .rep .. => False | _ => True) :
    hasSemanticLiterals t = semSpec t := by
  apply hasSemanticLiterals_eq_semSpec
  cases t <;> simp_all [semShape, semShapeL]

/-- `semShape` is sufficient, not necessary: a non-semantic literal alternative does no harm -/
example : semShape (.alt ⟨0, 3⟩ [.lit ⟨1, 1⟩ ['a'] false]) = false ∧
    hasSemanticLiterals (.alt ⟨0, 3⟩ [.lit ⟨1, 1⟩ ['a'] false]) =
      semSpec (.alt ⟨0, 3⟩ [.lit ⟨1, 1⟩ ['a'] false]) := by
  refine ⟨by decide, ?_⟩
  simp [hasSemanticLiterals, semOne, semRun, semFinish, isSemanticText, semSpec, Tok.concatenation,
    semList, splitComps, Tok.isBoundaryS, isSemComp, Tok.isLitT, semToks, semTok]

/-! ### what the parser builds -/

theorem catKidsL_true_noLit : ∀ (bs : List Tok), catKidsL true bs = true →
    bs.all (fun b => !b.isLitT) = true
  | [], _ => rfl
  | t :: ts, h => by
    simp only [catKidsL, Bool.not_true, Bool.false_or, Bool.and_eq_true] at h
    simp only [List.all_cons, Bool.and_eq_true, Bool.not_eq_true']
    refine ⟨?_, catKidsL_true_noLit ts h.2⟩
    cases t <;> simp_all [isCatT, Tok.isLitT]

mutual
  theorem catKids_semShape : ∀ (t : Tok), catKids t = true → semShape t = true
    | .alt _ bs, h => by
      simp only [catKids] at h
      simp only [semShape, Bool.and_eq_true]
      exact ⟨catKidsL_true_noLit bs h, catKidsL_semShapeL true bs h⟩
    | .cat _ ts, h => by
      simp only [catKids] at h
      simp only [semShape]; exact catKidsL_semShapeL false ts h
    | .rep _ b _ _, h => by
      simp only [catKids, Bool.and_eq_true] at h
      simp only [semShape, Bool.and_eq_true, Bool.not_eq_true']
      refine ⟨?_, catKids_semShape b h.2⟩
      cases b <;> simp_all [isCatT, Tok.isLitT]
    | .lit .., _ => rfl
    | .sep _, _ => rfl
    | .cls .., _ => rfl
    | .one _, _ => rfl
    | .zom .., _ => rfl
    | .tree .., _ => rfl
  theorem catKidsL_semShapeL (br : Bool) : ∀ (ts : List Tok), catKidsL br ts = true →
      semShapeL ts = true
    | [], _ => rfl
    | t :: ts, h => by
      simp only [catKidsL, Bool.and_eq_true] at h
      simp only [semShapeL, Bool.and_eq_true]
      exact ⟨catKids_semShape t h.1.2, catKidsL_semShapeL br ts h.2⟩
end

theorem catKidsL_append (c : Bool) : ∀ (a b : List Tok),
    catKidsL c (a ++ b) = (catKidsL c a && catKidsL c b)
  | [], b => by simp [catKidsL]
  | t :: a, b => by simp [catKidsL, catKidsL_append c a b, Bool.and_assoc]

theorem catKidsL_snoc {c : Bool} {a : List Tok} {t : Tok} (ha : catKidsL c a = true)
    (ht : catKids t = true) (hc : (!c || isCatT t) = true) : catKidsL c (a ++ [t]) = true := by
  rw [catKidsL_append]; simp only [catKidsL, ha, ht, hc, Bool.and_self]

structure CatKidsInv (fuel : Nat) : Prop where
  glob : ∀ t i tok j, parseGlob fuel t i = some (tok, j) → catKids tok = true ∧ isCatT tok = true
  tokens : ∀ t i acc toks j, parseTokens fuel t i acc = some (toks, j) → catKidsL false acc = true →
    catKidsL false toks = true
  token : ∀ t i tok j, parseToken fuel t i = some (tok, j) → catKids tok = true
  rep : ∀ i body lo hi j, parseRepetition fuel i = some (body, lo, hi, j) →
    catKids body = true ∧ isCatT body = true
  alt : ∀ i bs j, parseAlternation fuel i = some (bs, j) → catKidsL true bs = true
  branches : ∀ i acc bs j, parseBranches fuel i acc = (bs, j) → catKidsL true acc = true →
    catKidsL true bs = true

theorem catKidsInv_zero : CatKidsInv 0 where
  glob := by intro t i tok j h; simp [parseGlob] at h
  tokens := by
    intro t i acc toks j h ha
    simp only [parseTokens, Option.some.injEq, Prod.mk.injEq] at h
    obtain ⟨rfl, rfl⟩ := h; exact ha
  token := by intro t i tok j h; simp [parseToken] at h
  rep := by intro i body lo hi j h; simp [parseRepetition] at h
  alt := by intro i bs j h; simp [parseAlternation] at h
  branches := by
    intro i acc bs j h ha
    simp only [parseBranches, Prod.mk.injEq] at h
    obtain ⟨rfl, rfl⟩ := h; exact ha

theorem catKidsInv_succ (fuel : Nat) (ih : CatKidsInv fuel) : CatKidsInv (fuel + 1) where
  glob := by
    intro t i0 tok j h
    rw [parseGlob] at h
    dsimp only at h
    split at h
    · cases h
    · rename_i toks k hk
      have hts := ih.tokens _ _ _ _ _ hk rfl
      split at h
      · cases h
      · split at h
        · injection h with h; injection h with h1 h2; subst h1 h2
          exact ⟨by simp only [catKids, hts], rfl⟩
        · cases h
  tokens := by
    intro t i acc toks j h ha
    rw [parseTokens] at h
    split at h
    · rename_i tok k hk
      have ht := ih.token _ _ _ _ hk
      split at h
      · injection h with h; injection h with h1 h2; subst h1 h2; exact ha
      · exact ih.tokens _ _ _ _ _ h (catKidsL_snoc ha ht rfl)
    · injection h with h; injection h with h1 h2; subst h1 h2; exact ha
  token := by
    intro t i tok j h
    rw [parseToken] at h
    dsimp only at h
    split at h
    · injection h with h; injection h with h1 h2; subst h1 h2; rfl
    · split at h
      · rename_i body lo hi k hk
        injection h with h; injection h with h1 h2; subst h1 h2
        obtain ⟨hb, hc⟩ := ih.rep _ _ _ _ _ hk
        simp only [catKids, hb, hc, Bool.and_self]
      · split at h
        · rename_i bs k hk
          injection h with h; injection h with h1 h2; subst h1 h2
          simpa only [catKids] using ih.alt _ _ _ hk
        · split at h
          · injection h with h; injection h with h1 h2; subst h1 h2; rfl
          · injection h with h; injection h with h1 h2; subst h1 h2; rfl
          · injection h with h; injection h with h1 h2; subst h1 h2; rfl
          · split at h
            · injection h with h; injection h with h1 h2; subst h1 h2; rfl
            · split at h
              · injection h with h; injection h with h1 h2; subst h1 h2; rfl
              · cases h
  rep := by
    intro i body lo hi j h
    rw [parseRepetition] at h
    split at h
    · cases h
    · split at h
      · cases h
      · rename_i b k hk
        have hb := ih.glob _ _ _ _ hk
        generalize parseBounds k = R at h
        obtain ⟨lo', hi', l⟩ := R
        dsimp only at h
        split at h
        · injection h with h; injection h with h1 h; subst h1; exact hb
        · cases h
  alt := by
    intro i bs j h
    rw [parseAlternation] at h
    split at h
    · cases h
    · split at h
      · cases h
      · rename_i b k hk
        obtain ⟨hb, hc⟩ := ih.glob _ _ _ _ hk
        have hB := ih.branches k [b]
        generalize parseBranches fuel k [b] = R at h hB
        obtain ⟨bs', l⟩ := R
        have h1 := hB bs' l rfl (by simp [catKidsL, hb, hc])
        dsimp only at h
        split at h
        · injection h with h; injection h with e1 e2; subst e1; exact h1
        · cases h
  branches := by
    intro i acc bs j h ha
    rw [parseBranches] at h
    split at h
    · injection h with h1 h2; subst h1 h2; exact ha
    · split at h
      · injection h with h1 h2; subst h1 h2; exact ha
      · rename_i b k hk
        obtain ⟨hb, hc⟩ := ih.glob _ _ _ _ hk
        exact ih.branches _ _ _ _ h (catKidsL_snoc ha hb (by simp [hc]))

theorem catKidsInv_all : ∀ fuel, CatKidsInv fuel
  | 0 => catKidsInv_zero
  | n + 1 => catKidsInv_succ n (catKidsInv_all n)

/-- every alternative and every repetition body of a tree the parser returns is a `cat` -/
theorem parse_catKids (e : Str) (t : Tok) (h : parse e = .ok t) : catKids t = true := by
  unfold parse at h
  split at h
  · injection h with h; subst h; rfl
  · dsimp only at h
    split at h
    · cases h
    · rename_i toks j hj
      have hts := (catKidsInv_all _).tokens _ _ _ _ _ hj rfl
      split at h
      · cases h
      · split at h
        · injection h with h; subst h
          simp only [catKids, hts]
        · cases h

theorem parse_semShape (e : Str) (t : Tok) (h : parse e = .ok t) : semShape t = true :=
  catKids_semShape t (parse_catKids e t h)

/-- **C12, last clause, for everything the parser returns** (no hypothesis on the tree) -/
theorem parse_hasSemanticLiterals (e : Str) (t : Tok) (h : parse e = .ok t) :
    hasSemanticLiterals t = semSpec t :=
  hasSemanticLiterals_eq_semSpec t (parse_semShape e t h)

/-! ### the hypotheses are satisfiable on non-trivial inputs -/

/-- the tree of `a/{..,<.:2>b}` -/
def semDemo : Tok :=
  .cat ⟨0, 13⟩ [.lit ⟨0, 1⟩ ['a'] false, .sep ⟨1, 1⟩,
    .alt ⟨2, 11⟩ [.cat ⟨3, 2⟩ [.lit ⟨3, 2⟩ ['.', '.'] false],
      .cat ⟨6, 6⟩ [.rep ⟨6, 5⟩ (.cat ⟨7, 1⟩ [.lit ⟨7, 1⟩ ['.'] false]) 2 (some 2),
        .lit ⟨11, 1⟩ ['b'] false]]]

example : semShape semDemo = true ∧ catKids semDemo = true ∧
    hasSemanticLiterals semDemo = true := by decide
example : semSpec semDemo = true :=
  (hasSemanticLiterals_eq_semSpec semDemo (by decide)).symm.trans (by decide)

/-- `parse_hasSemanticLiterals` is not vacuous: the parser returns `semDemo` for `a/{..,<.:2>b}`
    (the real crate prints the same tree and `sem=1` for `B 61.2f.7b.2e.2e.2c.3c.2e.3a.32.3e.62.7d`) -/
example : parse ['a', '/', '{', '.', '.', ',', '<', '.', ':', '2', '>', 'b', '}'] = .ok semDemo := rfl
example : semSpec semDemo = true :=
  (parse_hasSemanticLiterals ['a', '/', '{', '.', '.', ',', '<', '.', ':', '2', '>', 'b', '}']
    semDemo rfl).symm.trans (by decide)

end Wax
