import Wax.Proofs.Total
import Wax.DepthFold
/-!
C05, operation level: every operation of the natural-range algebra (`Wax/Natural.lean`,
`Wax/Depth.lean`, `Wax/DepthFold.lean`) *returns* — neither an overflow `expect` nor an
`unreachable!()` arm — when its operands are well formed and their finite bounds are small enough
that the obvious result bound (`A + B`, `max A B`, `M * R`) is below `usizeLim = 2^64`; and the
result is again well formed and below that bound.

A bounded range is viewed through its closed lower bound `BVR.lo` (0 when open), its upper bound
`BVR.hi` (`none` when open) and its magnitude `BVR.mag` (the largest finite bound).
-/
namespace Wax

/-! ### the monad -/

@[simp] theorem P.ok_bind {α β} (a : α) (f : α → P β) : ((Except.ok a : P α) >>= f) = f a := rfl
@[simp] theorem P.pure_eq {α} (a : α) : (pure a : P α) = Except.ok a := rfl

theorem cmul_of_lt {w : String} {a b : Nat} (h : a * b < usizeLim) : cmul w a b = .ok (a * b) := by
  unfold cmul; simp [h]

/-! ### views of a bounded range -/

def BVR.lo : BVR → Nat
  | .lower n => n | .upper _ => 0 | .both l _ => l
def BVR.hi : BVR → Option Nat
  | .lower _ => none | .upper n => some n | .both l e => some (l + e)
/-- the largest finite bound -/
def BVR.mag : BVR → Nat
  | .lower n => n | .upper n => n | .both l e => l + e
/-- what `upperB` answers when it does not overflow -/
def BVR.ub : BVR → NBound
  | .lower _ => .unb | .upper n => .bnd n | .both l e => .bnd (l + e)

theorem BVR.upperB_eq {a : BVR} (h : a.mag < usizeLim) : a.upperB = .ok a.ub := by
  cases a with
  | lower n => rfl
  | upper n => rfl
  | both l e =>
    simp only [BVR.mag] at h
    simp only [BVR.upperB, cadd_of_lt h, P.ok_bind, P.pure_eq, BVR.ub]

theorem BVR.ub_upper (a : BVR) : a.ub.upperUsize = a.hi := by cases a <;> rfl
theorem BVR.lowerB_lo (a : BVR) : a.lowerB.lowerUsize = a.lo := by cases a <;> rfl

theorem BVR.wf_hi {a : BVR} (ha : a.wf) {h : Nat} (hh : a.hi = some h) : a.lo < h := by
  cases a <;> simp_all [BVR.wf, BVR.hi, BVR.lo] <;> omega
theorem BVR.wf_lo {a : BVR} (ha : a.wf) (hh : a.hi = none) : 0 < a.lo := by
  cases a <;> simp_all [BVR.wf, BVR.hi, BVR.lo]
theorem BVR.lo_le_mag (a : BVR) : a.lo ≤ a.mag := by
  cases a <;> simp [BVR.lo, BVR.mag]
theorem BVR.hi_eq_mag {a : BVR} {h : Nat} (hh : a.hi = some h) : a.mag = h := by
  cases a <;> simp_all [BVR.hi, BVR.mag]
theorem BVR.mag_of_hi_none {a : BVR} (hh : a.hi = none) : a.mag = a.lo := by
  cases a <;> simp_all [BVR.hi, BVR.mag, BVR.lo]

/-- a range given by a closed lower bound strictly below its upper bound (not `[0, inf)`) -/
theorem tryFrom_spec {lo : Nat} {hi : Option Nat} (h1 : ∀ x, hi = some x → lo < x)
    (h2 : hi = none → 0 < lo) :
    ∃ r, BVR.tryFrom lo hi = some r ∧ r.wf ∧ r.lo = lo ∧ r.hi = hi := by
  cases hi with
  | none =>
    have := h2 rfl
    have hl : (lo == 0) = false := by simp; omega
    exact ⟨.lower lo, by simp [BVR.tryFrom, hl], by simpa [BVR.wf] using this, rfl, rfl⟩
  | some x =>
    have hx := h1 x rfl
    have hx0 : (x == 0) = false := by simp; omega
    by_cases hl : lo = 0
    · subst hl
      exact ⟨.upper x, by simp [BVR.tryFrom, hx0], by simpa [BVR.wf] using hx, rfl, rfl⟩
    · have hl' : (lo == 0) = false := by simpa using hl
      refine ⟨.both lo (x - lo), by simp [BVR.tryFrom, hx0, hl', hx], ?_, rfl, ?_⟩
      · simp only [BVR.wf]; omega
      · simp only [BVR.hi, Option.some.injEq]; omega

theorem fco_spec {lo : Nat} {hi : Option Nat} (h : ∀ x, hi = some x → lo < x) :
    (lo = 0 ∧ hi = none ∧ NRange.fromClosedOpen lo hi = .var .unbounded) ∨
    (∃ r, NRange.fromClosedOpen lo hi = .var (.bounded r) ∧ r.wf ∧ r.lo = lo ∧ r.hi = hi) := by
  by_cases h0 : lo = 0 ∧ hi = none
  · obtain ⟨rfl, rfl⟩ := h0
    exact Or.inl ⟨rfl, rfl, rfl⟩
  · right
    have h2 : hi = none → 0 < lo := by intro hn; simp [hn] at h0; omega
    obtain ⟨r, hr, hwf, hlo, hhi⟩ := tryFrom_spec h h2
    refine ⟨r, ?_, hwf, hlo, hhi⟩
    cases hi with
    | none =>
      have hl : (lo == 0) = false := by have := h2 rfl; simp; omega
      simp only [NRange.fromClosedOpen, hl, Bool.false_and, Bool.false_eq_true, ↓reduceIte, hr]
    | some x =>
      have hx := h x rfl
      have hgt : ¬ lo > x := by omega
      simp [NRange.fromClosedOpen, hgt, hr]

/-! ### bounded values -/

/-- well formed and every finite bound at most `M` -/
def NVar.Ok (v : NVar) (M : Nat) : Prop :=
  match v with
  | .inv n => n ≤ M
  | .unb => True
  | .bnd r => r.wf ∧ r.mag ≤ M

def NRange.Ok (r : NRange) (R : Nat) : Prop :=
  match r with
  | .inv n => n ≤ R
  | .var .unbounded => True
  | .var (.bounded b) => b.wf ∧ b.mag ≤ R

theorem NVar.Ok.mono {v : NVar} {M N : Nat} (h : v.Ok M) (hle : M ≤ N) : v.Ok N := by
  cases v with
  | inv n => exact Nat.le_trans h hle
  | unb => trivial
  | bnd r => exact ⟨h.1, Nat.le_trans h.2 hle⟩

theorem NVar.ofV_ok_of {v : VRange} {M : Nat} (h : ∀ r, v = .bounded r → r.wf ∧ r.mag ≤ M) :
    (NVar.ofV v).Ok M := by
  cases v with
  | unbounded => trivial
  | bounded r => exact h r rfl

/-- the range a repetition `{lo, hi}` stands for: whatever the parser hands over, the range is
    well formed and bounded by the larger of the two numbers -/
theorem fco_ok (lo : Nat) (hi : Option Nat) :
    (NRange.fromClosedOpen lo hi).Ok (max lo (hi.getD 0)) := by
  cases hi with
  | none =>
    rcases fco_spec (lo := lo) (hi := none) (by intro x hx; cases hx) with ⟨_, _, h⟩ | ⟨r, h, hwf, hlo, hhi⟩
    · rw [h]; trivial
    · rw [h]
      refine ⟨hwf, ?_⟩
      rw [BVR.mag_of_hi_none hhi, hlo]; exact Nat.le_max_left _ _
  | some o =>
    simp only [Option.getD]
    by_cases hgt : lo > o
    · -- swapped
      have e : NRange.fromClosedOpen lo (some o) = NRange.fromClosedOpen o (some lo) := by
        have h2 : ¬ o > lo := by omega
        simp [NRange.fromClosedOpen, hgt, h2]
      rw [e]
      rcases fco_spec (lo := o) (hi := some lo) (by intro x hx; cases hx; exact hgt) with ⟨_, h, _⟩ | ⟨r, h, hwf, hlo, hhi⟩
      · cases h
      · rw [h]
        refine ⟨hwf, ?_⟩
        rw [BVR.hi_eq_mag hhi]; exact Nat.le_max_left _ _
    · by_cases heq : lo = o
      · subst heq
        have : NRange.fromClosedOpen lo (some lo) = .inv lo := by
          by_cases h0 : lo = 0
          · subst h0; rfl
          · have h0' : (lo == 0) = false := by simpa using h0
            simp [NRange.fromClosedOpen, BVR.tryFrom, h0']
        rw [this]; exact Nat.le_max_left _ _
      · rcases fco_spec (lo := lo) (hi := some o) (by intro x hx; cases hx; omega) with ⟨_, h, _⟩ | ⟨r, h, hwf, hlo, hhi⟩
        · cases h
        · rw [h]
          refine ⟨hwf, ?_⟩
          rw [BVR.hi_eq_mag hhi]; exact Nat.le_max_right _ _

/-! ### bounds -/

theorem NBound.ofNat_lower (n : Nat) : (NBound.ofNat n).lowerUsize = n := by
  unfold NBound.ofNat; by_cases h : n = 0 <;> simp [h, NBound.lowerUsize]
theorem NBound.ofNat_upper (n : Nat) : (NBound.ofNat n).upperUsize = some n := by
  unfold NBound.ofNat; by_cases h : n = 0 <;> simp [h, NBound.upperUsize]

/-- product of upper bounds: an open bound absorbs -/
def omul : Option Nat → Option Nat → Option Nat
  | some a, some b => some (a * b)
  | _, _ => none
/-- maximum of upper bounds: an open bound is greatest -/
def omax : Option Nat → Option Nat → Option Nat
  | some a, some b => some (max a b)
  | _, _ => none

theorem NBound.prod_lower (x y : NBound) (h : x.lowerUsize * y.lowerUsize < usizeLim) :
    ∃ z, x.prod y = .ok z ∧ z.lowerUsize = x.lowerUsize * y.lowerUsize := by
  cases x <;> cases y <;> simp only [NBound.lowerUsize] at h <;>
    simp [NBound.prod, NBound.lowerUsize, cmul_of_lt, h]

theorem NBound.prod_upper (x y : NBound)
    (h : ∀ a b, x.upperUsize = some a → y.upperUsize = some b → a * b < usizeLim) :
    ∃ z, x.prod y = .ok z ∧ z.upperUsize = omul x.upperUsize y.upperUsize := by
  cases x <;> cases y <;> simp only [NBound.upperUsize] at h <;>
    simp [NBound.prod, NBound.upperUsize, omul]
  rename_i a b
  have := h a b rfl rfl
  simp [cmul_of_lt this]

theorem lowerMin_eq (a b : NBound) :
    (if lowerLe a b = true then a else b).lowerUsize = min a.lowerUsize b.lowerUsize := by
  rw [apply_ite NBound.lowerUsize]
  cases a <;> cases b <;> simp only [lowerLe, NBound.lowerUsize] <;> grind

theorem upperMax_eq (a b : NBound) :
    (if upperLe a b = true then b else a).upperUsize = omax a.upperUsize b.upperUsize := by
  rw [apply_ite NBound.upperUsize]
  cases a <;> cases b <;> simp only [upperLe, NBound.upperUsize, omax, Option.getD] <;> grind

/-! ### products (`byBound` with `NBound.prod`) -/

theorem byBound_prod {l r : NRange} {lu ru : NBound} (hl : l.upperB = .ok lu) (hr : r.upperB = .ok ru)
    (h1 : l.lowerB.lowerUsize * r.lowerB.lowerUsize < usizeLim)
    (h2 : ∀ a b, lu.upperUsize = some a → ru.upperUsize = some b → a * b < usizeLim) :
    NRange.byBound l r NBound.prod =
      .ok (NRange.fromClosedOpen (l.lowerB.lowerUsize * r.lowerB.lowerUsize)
        (omul lu.upperUsize ru.upperUsize)) := by
  obtain ⟨lo, hlo, elo⟩ := NBound.prod_lower _ _ h1
  obtain ⟨hi, hhi, ehi⟩ := NBound.prod_upper _ _ h2
  simp only [NRange.byBound, hlo, hl, hr, hhi, P.ok_bind, P.pure_eq, elo, ehi]

theorem mul_lt_mul_of_lt {a b c d : Nat} (h1 : a < c) (h2 : b < d) : a * b < c * d :=
  Nat.lt_of_le_of_lt (Nat.mul_le_mul_right b (Nat.le_of_lt h1))
    (Nat.mul_lt_mul_of_pos_left h2 (Nat.lt_of_le_of_lt (Nat.zero_le _) h1))

/-- a bounded range times a non-zero number: never the `unreachable!()` of natural.rs:790 -/
theorem BVR.prodN_ok {a : BVR} {n M R : Nat} (ha : a.wf) (hm : a.mag ≤ M) (hn : n ≤ R) (hn0 : 0 < n)
    (h : M * R < usizeLim) : ∃ r, a.prodN n = .ok r ∧ r.wf ∧ r.mag ≤ M * R := by
  have hmn : a.mag * n ≤ M * R := Nat.mul_le_mul hm hn
  have hmag : a.mag < usizeLim := by
    have : a.mag * 1 ≤ a.mag * n := Nat.mul_le_mul_left _ hn0
    omega
  have hu : (NRange.var (.bounded a)).upperB = .ok a.ub := BVR.upperB_eq hmag
  have hr : (NRange.inv n).upperB = .ok (NBound.ofNat n) := rfl
  have e := byBound_prod (l := .var (.bounded a)) (r := .inv n) hu hr
    (by
      show a.lowerB.lowerUsize * (NBound.ofNat n).lowerUsize < usizeLim
      rw [BVR.lowerB_lo, NBound.ofNat_lower]
      have : a.lo * n ≤ a.mag * n := Nat.mul_le_mul_right _ a.lo_le_mag
      omega)
    (by
      intro x y hx hy
      rw [BVR.ub_upper] at hx
      rw [NBound.ofNat_upper] at hy; cases hy
      rw [← BVR.hi_eq_mag hx]; omega)
  have e1 : (NRange.var (.bounded a)).lowerB.lowerUsize = a.lo := BVR.lowerB_lo a
  have e2 : (NRange.inv n).lowerB.lowerUsize = n := NBound.ofNat_lower n
  rw [e1, e2, BVR.ub_upper, NBound.ofNat_upper] at e
  unfold BVR.prodN
  rw [e]
  rcases fco_spec (lo := a.lo * n) (hi := omul a.hi (some n)) (by
      intro x hx
      cases hh : a.hi with
      | none => rw [hh] at hx; cases hx
      | some h =>
        rw [hh] at hx; simp only [omul, Option.some.injEq] at hx; subst hx
        exact Nat.mul_lt_mul_of_pos_right (BVR.wf_hi ha hh) hn0) with ⟨h0, hn', _⟩ | ⟨r, hr', hwf, hlo, hhi⟩
  · exfalso
    cases hh : a.hi with
    | none =>
      have := BVR.wf_lo ha hh
      have := Nat.mul_pos this hn0
      omega
    | some h => rw [hh] at hn'; cases hn'
  · refine ⟨r, by simp only [hr', P.ok_bind, P.pure_eq], hwf, ?_⟩
    cases hh : a.hi with
    | none =>
      rw [hh] at hhi
      rw [BVR.mag_of_hi_none hhi, hlo]
      have : a.lo * n ≤ a.mag * n := Nat.mul_le_mul_right _ a.lo_le_mag
      omega
    | some h =>
      rw [hh] at hhi
      rw [BVR.hi_eq_mag hhi, ← BVR.hi_eq_mag hh]; exact hmn

/-- a bounded range times a bounded range: never the `unreachable!()` of natural.rs:777 -/
theorem BVR.prodB_ok {a b : BVR} {M R : Nat} (ha : a.wf) (hb : b.wf) (hm : a.mag ≤ M) (hr : b.mag ≤ R)
    (hM : M < usizeLim) (hR : R < usizeLim)
    (h : M * R < usizeLim) : ∃ v, a.prodB b = .ok v ∧ (NVar.ofV v).Ok (M * R) := by
  have hmn : a.mag * b.mag ≤ M * R := Nat.mul_le_mul hm hr
  have hu : (NRange.var (.bounded a)).upperB = .ok a.ub := BVR.upperB_eq (by omega)
  have hv : (NRange.var (.bounded b)).upperB = .ok b.ub := BVR.upperB_eq (by omega)
  have hlolo : a.lo * b.lo ≤ a.mag * b.mag := Nat.mul_le_mul a.lo_le_mag b.lo_le_mag
  have e := byBound_prod (l := .var (.bounded a)) (r := .var (.bounded b)) hu hv
    (by
      show a.lowerB.lowerUsize * b.lowerB.lowerUsize < usizeLim
      rw [BVR.lowerB_lo, BVR.lowerB_lo]; omega)
    (by
      intro x y hx hy
      rw [BVR.ub_upper] at hx hy
      rw [← BVR.hi_eq_mag hx, ← BVR.hi_eq_mag hy]; omega)
  have e1 : (NRange.var (.bounded a)).lowerB.lowerUsize = a.lo := BVR.lowerB_lo a
  have e2 : (NRange.var (.bounded b)).lowerB.lowerUsize = b.lo := BVR.lowerB_lo b
  rw [e1, e2, BVR.ub_upper, BVR.ub_upper] at e
  unfold BVR.prodB
  rw [e]
  rcases fco_spec (lo := a.lo * b.lo) (hi := omul a.hi b.hi) (by
      intro x hx
      cases hh : a.hi with
      | none => rw [hh] at hx; cases hx
      | some h =>
        cases hk : b.hi with
        | none => rw [hh, hk] at hx; cases hx
        | some k =>
          rw [hh, hk] at hx; simp only [omul, Option.some.injEq] at hx; subst hx
          exact mul_lt_mul_of_lt (BVR.wf_hi ha hh) (BVR.wf_hi hb hk)) with ⟨_, _, hr'⟩ | ⟨r, hr', hwf, hlo, hhi⟩
  · exact ⟨.unbounded, by simp only [hr', P.ok_bind, P.pure_eq], trivial⟩
  · refine ⟨.bounded r, by simp only [hr', P.ok_bind, P.pure_eq], hwf, ?_⟩
    cases hrh : r.hi with
    | none => rw [BVR.mag_of_hi_none hrh, hlo]; omega
    | some x =>
      rw [BVR.hi_eq_mag hrh]
      rw [hrh] at hhi
      cases hh : a.hi with
      | none => rw [hh] at hhi; cases hhi
      | some h =>
        cases hk : b.hi with
        | none => rw [hh, hk] at hhi; cases hhi
        | some k =>
          rw [hh, hk] at hhi; simp only [omul, Option.some.injEq] at hhi; subst hhi
          rw [← BVR.hi_eq_mag hh, ← BVR.hi_eq_mag hk]; exact hmn

/-! ### union (the hull) -/

/-- the hull of a bounded range and another range or number: never the `unreachable!()` of
    natural.rs:666 -/
theorem BVR.union_ok {a : BVR} {o : NRange} {ou : NBound} {M : Nat} (ha : a.wf) (hm : a.mag ≤ M)
    (hM : M < usizeLim) (ho : o.upperB = .ok ou) (hol : ∀ x, ou.upperUsize = some x → x ≤ M) :
    ∃ v, a.union o = .ok v ∧ (NVar.ofV v).Ok M := by
  have hu : (NRange.var (.bounded a)).upperB = .ok a.ub := BVR.upperB_eq (by omega)
  have e1 : (NRange.var (.bounded a)).lowerB = a.lowerB := rfl
  unfold BVR.union
  simp only [hu, ho, P.ok_bind, e1, lowerMin_eq, upperMax_eq, BVR.lowerB_lo, BVR.ub_upper]
  rcases fco_spec (lo := min a.lo o.lowerB.lowerUsize) (hi := omax a.hi ou.upperUsize) (by
      intro x hx
      cases hh : a.hi with
      | none => rw [hh] at hx; cases hx
      | some h =>
        cases hk : ou.upperUsize with
        | none => rw [hh, hk] at hx; cases hx
        | some k =>
          rw [hh, hk] at hx; simp only [omax, Option.some.injEq] at hx; subst hx
          have := BVR.wf_hi ha hh
          omega) with ⟨_, _, hr'⟩ | ⟨r, hr', hwf, hlo, hhi⟩
  · exact ⟨.unbounded, by simp only [hr', P.pure_eq], trivial⟩
  · refine ⟨.bounded r, by simp only [hr', P.pure_eq], hwf, ?_⟩
    cases hrh : r.hi with
    | none =>
      rw [BVR.mag_of_hi_none hrh, hlo]
      have := a.lo_le_mag
      omega
    | some x =>
      rw [BVR.hi_eq_mag hrh]
      rw [hrh] at hhi
      cases hh : a.hi with
      | none => rw [hh] at hhi; cases hhi
      | some h =>
        cases hk : ou.upperUsize with
        | none => rw [hh, hk] at hhi; cases hhi
        | some k =>
          rw [hh, hk] at hhi; simp only [omax, Option.some.injEq] at hhi; subst hhi
          have := BVR.hi_eq_mag hh
          have := hol k hk
          omega

/-! ### translation and conjunction -/

theorem BVR.translation_ok {a : BVR} {k A B : Nat} (ha : a.wf) (hm : a.mag ≤ A) (hk : k ≤ B)
    (h : A + B < usizeLim) : ∃ r, a.translation k = .ok r ∧ r.wf ∧ r.mag ≤ A + B := by
  cases a with
  | lower n =>
    simp only [BVR.mag] at hm; simp only [BVR.wf] at ha
    have : n + k < usizeLim := by omega
    exact ⟨.lower (n + k), by simp only [BVR.translation, cadd_of_lt this, P.ok_bind, P.pure_eq],
      by simp only [BVR.wf]; omega, by simp only [BVR.mag]; omega⟩
  | upper n =>
    simp only [BVR.mag] at hm; simp only [BVR.wf] at ha
    have : n + k < usizeLim := by omega
    exact ⟨.upper (n + k), by simp only [BVR.translation, cadd_of_lt this, P.ok_bind, P.pure_eq],
      by simp only [BVR.wf]; omega, by simp only [BVR.mag]; omega⟩
  | both l e =>
    simp only [BVR.mag] at hm; simp only [BVR.wf] at ha
    have : l + k < usizeLim := by omega
    exact ⟨.both (l + k) e, by simp only [BVR.translation, cadd_of_lt this, P.ok_bind, P.pure_eq],
      by simp only [BVR.wf]; omega, by simp only [BVR.mag]; omega⟩

/-- the (repaired) conjunction of bounded ranges: no overflow and never its `expect` -/
theorem BVR.conjFixed_ok {a b : BVR} {A B : Nat} (ha : a.wf) (hb : b.wf) (hA : a.mag ≤ A)
    (hB : b.mag ≤ B) (h : A + B < usizeLim) :
    ∃ r, a.conjFixed b = .ok r ∧ r.wf ∧ r.mag ≤ A + B := by
  have hla := a.lo_le_mag
  have hlb := b.lo_le_mag
  have hlo : a.lo + b.lo < usizeLim := by omega
  unfold BVR.conjFixed
  simp only [BVR.lowerB_lo, cadd_of_lt hlo, BVR.upperB_eq (show a.mag < usizeLim by omega),
    BVR.upperB_eq (show b.mag < usizeLim by omega), P.ok_bind, BVR.ub_upper]
  cases hh : a.hi with
  | none =>
    have := BVR.wf_lo ha hh
    obtain ⟨r, hr, hwf, hrl, hrh⟩ := tryFrom_spec (lo := a.lo + b.lo) (hi := none)
      (by intro x hx; cases hx) (by intro _; omega)
    refine ⟨r, by simp only [P.pure_eq, P.ok_bind, hr], hwf, ?_⟩
    rw [BVR.mag_of_hi_none hrh, hrl]; omega
  | some x =>
    cases hk : b.hi with
    | none =>
      have := BVR.wf_lo hb hk
      obtain ⟨r, hr, hwf, hrl, hrh⟩ := tryFrom_spec (lo := a.lo + b.lo) (hi := none)
        (by intro x hx; cases hx) (by intro _; omega)
      refine ⟨r, by simp only [P.pure_eq, P.ok_bind, hr], hwf, ?_⟩
      rw [BVR.mag_of_hi_none hrh, hrl]; omega
    | some y =>
      have h1 := BVR.wf_hi ha hh
      have h2 := BVR.wf_hi hb hk
      have e1 := BVR.hi_eq_mag hh
      have e2 := BVR.hi_eq_mag hk
      have hxy : x + y < usizeLim := by omega
      obtain ⟨r, hr, hwf, hrl, hrh⟩ := tryFrom_spec (lo := a.lo + b.lo) (hi := some (x + y))
        (by intro z hz; cases hz; omega) (by intro hn; cases hn)
      refine ⟨r, by simp only [cadd_of_lt hxy, P.pure_eq, P.ok_bind, hr], hwf, ?_⟩
      rw [BVR.hi_eq_mag hrh]; omega

/-! ### variances -/

theorem BVR.openedUpper_ok {b : BVR} {M : Nat} (hb : b.wf) (hm : b.mag ≤ M) :
    (NVar.ofV b.openedUpper).Ok M := by
  cases b with
  | lower n => exact ⟨hb, hm⟩
  | upper n => trivial
  | both l e =>
    simp only [BVR.wf] at hb; simp only [BVR.mag] at hm
    exact ⟨by simp only [BVR.wf]; omega, by simp only [BVR.mag]; omega⟩

theorem NVar.lowerOrUnb_ok {i M : Nat} (hi : i ≤ M) :
    (if (i == 0) = true then NVar.unb else NVar.bnd (.lower i)).Ok M := by
  by_cases h : i = 0
  · subst h; trivial
  · have h' : (i == 0) = false := by simpa using h
    simp only [h', Bool.false_eq_true, ↓reduceIte]
    exact ⟨by simp only [BVR.wf]; omega, hi⟩

/-- **conjunction** (sum) of variances -/
theorem NVar.conj_ok {a b : NVar} {A B : Nat} (ha : a.Ok A) (hb : b.Ok B) (h : A + B < usizeLim) :
    ∃ r, a.conj b = .ok r ∧ r.Ok (A + B) := by
  cases a with
  | inv x =>
    cases b with
    | inv y =>
      have hx : x ≤ A := ha
      have hy : y ≤ B := hb
      have : x + y < usizeLim := by omega
      exact ⟨.inv (x + y), by simp only [NVar.conj, cadd_of_lt this, P.ok_bind, P.pure_eq],
        show x + y ≤ A + B by omega⟩
    | unb =>
      have hx : x ≤ A := ha
      exact ⟨_, rfl, NVar.lowerOrUnb_ok (by omega)⟩
    | bnd r =>
      have hx : x ≤ A := ha
      obtain ⟨t, ht, hwf, hmag⟩ := BVR.translation_ok (k := x) hb.1 hb.2 hx (by omega : B + A < usizeLim)
      exact ⟨.bnd t, by simp only [NVar.conj, ht, P.ok_bind, P.pure_eq], hwf, by omega⟩
  | unb =>
    cases b with
    | inv y =>
      have hy : y ≤ B := hb
      exact ⟨_, rfl, NVar.lowerOrUnb_ok (by omega)⟩
    | unb => exact ⟨.unb, rfl, trivial⟩
    | bnd r => exact ⟨_, rfl, BVR.openedUpper_ok hb.1 (by have := hb.2; omega)⟩
  | bnd l =>
    cases b with
    | inv y =>
      have hy : y ≤ B := hb
      obtain ⟨t, ht, hwf, hmag⟩ := BVR.translation_ok (k := y) ha.1 ha.2 hy h
      exact ⟨.bnd t, by simp only [NVar.conj, ht, P.ok_bind, P.pure_eq], hwf, hmag⟩
    | unb => exact ⟨_, rfl, BVR.openedUpper_ok ha.1 (by have := ha.2; omega)⟩
    | bnd r =>
      obtain ⟨t, ht, hwf, hmag⟩ := BVR.conjFixed_ok ha.1 hb.1 ha.2 hb.2 h
      exact ⟨.bnd t, by simp only [NVar.conj, ht, P.ok_bind, P.pure_eq], hwf, hmag⟩

theorem tryFrom_minmax_ok (a b M : Nat) (ha : a ≤ M) (hb : b ≤ M) :
    (match BVR.tryFrom (min a b) (some (max a b)) with
      | some x => NVar.bnd x | none => NVar.unb).Ok M := by
  by_cases hlt : min a b < max a b
  · obtain ⟨r, hr, hwf, _, hrh⟩ := tryFrom_spec (lo := min a b) (hi := some (max a b))
      (by intro x hx; cases hx; exact hlt) (by intro hn; cases hn)
    rw [hr]
    exact ⟨hwf, by rw [BVR.hi_eq_mag hrh]; omega⟩
  · have : BVR.tryFrom (min a b) (some (max a b)) = none := by
      have e : min a b = max a b := by omega
      rw [e]
      by_cases h0 : max a b = 0
      · rw [h0]; rfl
      · have h0' : (max a b == 0) = false := by simpa using h0
        simp [BVR.tryFrom, h0']
    rw [this]; trivial

/-- **disjunction** (hull) of variances -/
theorem NVar.disj_ok {a b : NVar} {M : Nat} (ha : a.Ok M) (hb : b.Ok M) (hM : M < usizeLim) :
    ∃ r, a.disj b = .ok r ∧ r.Ok M := by
  unfold NVar.disj
  by_cases heq : (a == b) = true
  · exact ⟨a, by simp only [heq, ↓reduceIte, P.pure_eq], ha⟩
  · simp only [heq, Bool.false_eq_true, ↓reduceIte]
    cases a with
    | inv x =>
      have hx : x ≤ M := ha
      cases b with
      | inv y => exact ⟨_, rfl, tryFrom_minmax_ok x y M hx hb⟩
      | unb => exact ⟨.unb, rfl, trivial⟩
      | bnd r =>
        obtain ⟨v, hv, hok⟩ := BVR.union_ok (o := .inv x) hb.1 hb.2 hM rfl
          (by intro z hz; rw [NBound.ofNat_upper] at hz; cases hz; exact hx)
        exact ⟨_, by simp only [hv, P.ok_bind, P.pure_eq], hok⟩
    | unb => exact ⟨.unb, by cases b <;> rfl, trivial⟩
    | bnd l =>
      cases b with
      | inv y =>
        have hy : y ≤ M := hb
        obtain ⟨v, hv, hok⟩ := BVR.union_ok (o := .inv y) ha.1 ha.2 hM rfl
          (by intro z hz; rw [NBound.ofNat_upper] at hz; cases hz; exact hy)
        exact ⟨_, by simp only [hv, P.ok_bind, P.pure_eq], hok⟩
      | unb => exact ⟨.unb, rfl, trivial⟩
      | bnd r =>
        have hu : (NRange.var (.bounded r)).upperB = .ok r.ub := BVR.upperB_eq (by have := hb.2; omega)
        obtain ⟨v, hv, hok⟩ := BVR.union_ok (o := .var (.bounded r)) ha.1 ha.2 hM hu
          (by intro z hz; rw [BVR.ub_upper] at hz; rw [← BVR.hi_eq_mag hz]; exact hb.2)
        exact ⟨_, by simp only [hv, P.ok_bind, P.pure_eq], hok⟩

/-- **product** of a variance and a repetition range -/
theorem NVar.prod_ok {l : NVar} {r : NRange} {M R : Nat} (hl : l.Ok M) (hr : r.Ok R)
    (hM : M < usizeLim) (hR : R < usizeLim) (h : M * R < usizeLim) :
    ∃ v, l.prod r = .ok v ∧ v.Ok (M * R) := by
  cases l with
  | inv a =>
    have ha : a ≤ M := hl
    cases r with
    | inv n =>
      have hn : n ≤ R := hr
      have hle : a * n ≤ M * R := Nat.mul_le_mul ha hn
      have : a * n < usizeLim := by omega
      exact ⟨.inv (a * n), by simp only [NVar.prod, cmul_of_lt this, P.ok_bind, P.pure_eq], hle⟩
    | var v =>
      by_cases ha0 : a = 0
      · subst ha0
        exact ⟨.inv 0, rfl, Nat.zero_le _⟩
      · have ha0' : (a == 0) = false := by simpa using ha0
        cases v with
        | unbounded => exact ⟨.unb, by simp [NVar.prod, ha0'], trivial⟩
        | bounded b =>
          obtain ⟨t, ht, hwf, hmag⟩ := BVR.prodN_ok (n := a) (M := R) (R := M) hr.1 hr.2 ha (by omega)
            (by rw [Nat.mul_comm]; exact h)
          refine ⟨.bnd t, by simp [NVar.prod, ha0', ht], hwf, ?_⟩
          rw [Nat.mul_comm]; exact hmag
  | unb =>
    cases r with
    | inv n =>
      by_cases hn : n = 0
      · subst hn; exact ⟨.inv 0, rfl, Nat.zero_le _⟩
      · have hn' : (n == 0) = false := by simpa using hn
        exact ⟨.unb, by simp [NVar.prod, hn'], trivial⟩
    | var v => exact ⟨.unb, rfl, trivial⟩
  | bnd b =>
    cases r with
    | inv n =>
      have hn : n ≤ R := hr
      by_cases hn0 : n = 0
      · subst hn0; exact ⟨.inv 0, rfl, Nat.zero_le _⟩
      · obtain ⟨t, ht, hwf, hmag⟩ := BVR.prodN_ok (n := n) hl.1 hl.2 hn (by omega) h
        exact ⟨.bnd t, by simp [NVar.prod, hn0, ht], hwf, hmag⟩
    | var v =>
      cases v with
      | unbounded => exact ⟨.unb, rfl, trivial⟩
      | bounded c =>
        obtain ⟨t, ht, hok⟩ := BVR.prodB_ok hl.1 hr.1 hl.2 hr.2 hM hR h
        exact ⟨_, by simp only [NVar.prod, ht, P.ok_bind, P.pure_eq], hok⟩

/-! ### the hypotheses are satisfiable -/

/-- a lower-open plus an upper-open range (where the pinned code reached `unreachable!()`) -/
example : ∃ r, (NVar.bnd (.upper 2)).conj (.bnd (.lower 1)) = .ok r ∧ r.Ok (2 + 1) :=
  NVar.conj_ok (a := .bnd (.upper 2)) (b := .bnd (.lower 1))
    ⟨(by decide : 0 < 2), Nat.le_refl 2⟩ ⟨(by decide : 0 < 1), Nat.le_refl 1⟩ (by decide)

/-- `[0, 3] * [2, inf)` is `[0, inf)`: the product leaves the bounded ranges, not the variants -/
example : ∃ v, (NVar.bnd (.upper 3)).prod (.var (.bounded (.lower 2))) = .ok v ∧ v.Ok (3 * 2) :=
  NVar.prod_ok (l := .bnd (.upper 3)) (r := .var (.bounded (.lower 2)))
    ⟨(by decide : 0 < 3), Nat.le_refl 3⟩ ⟨(by decide : 0 < 2), Nat.le_refl 2⟩
    (by decide) (by decide) (by decide)

/-- the hull of `[2, 5]` and `7` -/
example : ∃ r, (NVar.bnd (.both 2 3)).disj (.inv 7) = .ok r ∧ r.Ok 7 :=
  NVar.disj_ok (a := .bnd (.both 2 3)) (b := .inv 7)
    ⟨⟨(by decide : 0 < 2), (by decide : 0 < 3)⟩, (by decide : 2 + 3 ≤ 7)⟩ (Nat.le_refl 7) (by decide)

/-- the bounds on the operands are needed: `usize::MAX + 1` -/
example : ∀ r, (NVar.inv (usizeLim - 1)).conj (.inv 1) ≠ .ok r := by
  intro r h
  have : ((NVar.inv (usizeLim - 1)).conj (.inv 1)).toBool = false := by decide
  rw [h] at this; cases this

end Wax
