import Wax.Proofs.GrammarParse
import Wax.Partition
/-!
C19 at the level of syntax — **a canonical re-spelling of any parsed glob parses to the same tree
(modulo spans)**.

`unparse ts` spells a token sequence canonically: meta-characters in literals escaped, `[`, `]`, `-`
in classes escaped, bounds always explicit (`<…:lo,hi>` / `<…:lo,>`), tree wildcards always with
their trailing `/` (`/**/`, `**/`), and an inline flag group in front of a literal exactly where the
case flag changes — or where the previous token is a literal too (two adjacent literals only arise
from text such as `a(?i)(?-i)b`; without a flag group between them the re-spelling `ab` would be a
single literal, see the `example` at the end).

`wfToks` is a decidable well-formedness predicate on trees; every tree the grammar derives (hence
every tree the parser returns) satisfies it (`Gram.wf`), and the canonical spelling of a well-formed
tree is derivable to the same tree modulo spans (`gram_unparse`).  With `Gram_functional`:
`unparse_roundtrip : Gram c e ts f → Gram c (unparse c ts) ts' f' → stripL ts' = stripL ts`.
-/
set_option linter.unusedSimpArgs false
set_option linter.unusedVariables false
namespace Wax

/-! ### the canonical spelling -/

def flagFor (ci : Bool) : Str := if ci then ['(', '?', 'i', ')'] else ['(', '?', '-', 'i', ')']

def unChar (ch : Char) : Str := if ch == '[' || ch == ']' || ch == '-' then ['\\', ch] else [ch]

def unItem : Arch → Str
  | .chr a => unChar a
  | .rng a b => unChar a ++ '-' :: unChar b

def unBounds (lo : Nat) (hi : Option Nat) : Str :=
  ':' :: Nat.toDigits 10 lo ++ ',' :: (match hi with | none => [] | some h => Nat.toDigits 10 h)

def Tok.isLit : Tok → Bool | .lit .. => true | _ => false
def Tok.isCatK : Tok → Bool | .cat .. => true | _ => false
def Tok.isZomK : Tok → Bool | .zom .. => true | _ => false
def Tok.isSep : Tok → Bool | .sep .. => true | _ => false

mutual
/-- spelling and resulting flag state of a token read in flag state `c`; `pl`: the previous token
is a literal.  A `cat` (a branch or a repetition body) is spelled as its concatenation. -/
def unTok (c : Bool) (pl : Bool) : Tok → Str × Bool
  | .lit _ text ci => ((if pl || (ci != c) then flagFor ci else []) ++ escape text, ci)
  | .sep _ => (['/'], c)
  | .cls _ neg items => ('[' :: (if neg then ['!'] else []) ++ items.flatMap unItem ++ [']'], c)
  | .one _ => (['?'], c)
  | .zom _ lazy => ([if lazy then '$' else '*'], c)
  | .tree _ root => (if root then ['/', '*', '*', '/'] else ['*', '*', '/'], c)
  | .alt _ bs => ('{' :: (unBranches c true bs).1 ++ ['}'], (unBranches c true bs).2)
  | .cat _ ts => unToks c false ts
  | .rep _ body lo hi =>
    ('<' :: (unTok c false body).1 ++ unBounds lo hi ++ ['>'], (unTok c false body).2)
def unToks (c : Bool) (pl : Bool) : List Tok → Str × Bool
  | [] => ([], c)
  | tk :: ts =>
    ((unTok c pl tk).1 ++ (unToks (unTok c pl tk).2 tk.isLit ts).1,
      (unToks (unTok c pl tk).2 tk.isLit ts).2)
def unBranches (c : Bool) (first : Bool) : List Tok → Str × Bool
  | [] => ([], c)
  | b :: bs =>
    ((if first then [] else [',']) ++ (unTok c false b).1 ++
        (unBranches (unTok c false b).2 false bs).1,
      (unBranches (unTok c false b).2 false bs).2)
end

/-- **the canonical spelling** of a token sequence read in flag state `c` -/
def unparse (c : Bool) (ts : List Tok) : Str := (unToks c false ts).1

def Tok.strip (t : Tok) : Tok := t.mapSpans (fun _ => ⟨0, 0⟩)
def stripL (ts : List Tok) : List Tok := mapSpansL (fun _ => ⟨0, 0⟩) ts

/-! ### well-formed trees -/

def archOk : Arch → Bool
  | .chr a => a != '\\'
  | .rng a b => a != '\\' && b != '\\'

def archHead : Arch → Char
  | .chr a => a
  | .rng a _ => a

def headNotBang : List Arch → Bool
  | a :: _ => archHead a != '!'
  | [] => true

def itemsOk (neg : Bool) (items : List Arch) : Bool :=
  !items.isEmpty && items.all archOk && (neg || headNotBang items)

def litOk (text : Str) : Bool :=
  !text.isEmpty && text.all (fun ch => isMeta ch || !literalStop.contains ch)

def bndOk (lo : Nat) (hi : Option Nat) : Bool :=
  decide (lo ≤ usizeMax) && (match hi with | none => true | some h => decide (h ≤ usizeMax))

def headZom : List Tok → Bool
  | tk :: _ => tk.isZomK
  | [] => false

mutual
def wfTok (first : Bool) : Tok → Bool
  | .lit _ text _ => litOk text
  | .sep _ => true
  | .cls _ neg items => itemsOk neg items
  | .one _ => true
  | .zom _ _ => true
  | .tree _ root => root || first
  | .alt _ bs => !bs.isEmpty && wfBranches bs
  | .cat _ ts => !ts.isEmpty && wfToks true ts
  | .rep _ body lo hi => body.isCatK && wfTok true body && bndOk lo hi
def wfToks (first : Bool) : List Tok → Bool
  | [] => true
  | tk :: ts => !tk.isCatK && wfTok first tk && !(tk.isZomK && headZom ts) && wfToks false ts
def wfBranches : List Tok → Bool
  | [] => true
  | b :: bs => b.isCatK && wfTok true b && wfBranches bs
end

/-! ### the split of a text into inline flags and the rest is unique -/

theorem flags_split_unique {c1 d1 c2 d2 : Bool} {fl1 fl2 r1 r2 : Str} (h1 : Flags c1 fl1 d1)
    (h2 : Flags c2 fl2 d2) (n1 : ¬ FlagHead r1) (n2 : ¬ FlagHead r2) (e : fl1 ++ r1 = fl2 ++ r2) :
    r1 = r2 := by
  obtain ⟨e1, g1⟩ := h1.restart false
  obtain ⟨e2, g2⟩ := h2.restart false
  have a1 := flagsS_complete g1 r1 n1 0 0
  have a2 := flagsS_complete g2 r2 n2 0 0
  rw [e, a2] at a1
  injection a1 with a1 _
  exact a1.symm

/-- the first character after the inline flags -/
def FH (S : Str) (ch : Char) (r : Str) : Prop :=
  ∃ (c : Bool) (fl : Str) (c' : Bool), Flags c fl c' ∧ S = fl ++ ch :: r ∧ ch ≠ '('

theorem FH.unique {S : Str} {ch ch' : Char} {r r' : Str} (h : FH S ch r) (h' : FH S ch' r') :
    ch = ch' ∧ r = r' := by
  obtain ⟨c, fl, d, hf, e, hc⟩ := h
  obtain ⟨c', fl', d', hf', e', hc'⟩ := h'
  have := flags_split_unique hf hf' (not_flagHead_cons hc) (not_flagHead_cons hc') (e.symm.trans e')
  injection this with a b
  exact ⟨a, b⟩

theorem FH.here {ch : Char} (r : Str) (h : ch ≠ '(') : FH (ch :: r) ch r :=
  ⟨false, [], false, .nil _, rfl, h⟩

theorem FH.nsf {S : Str} {ch : Char} {r : Str} (h : FH S ch r) (h1 : ch ≠ '*') (h2 : ch ≠ '$') :
    NotStarAfterFlags S := by
  obtain ⟨c, fl, d, hf, e, hc⟩ := h
  exact ⟨c, fl, d, ch, r, hf, e, not_flagHead_cons hc, h1, h2⟩

theorem not_zomOk_of_fh {t : Term} {S : Str} {ch : Char} {r : Str} (h : FH S ch r)
    (hc : ch = '*' ∨ ch = '$') : ¬ ZomOk t S := by
  rintro (⟨c, fl, d, ch', r', hf, e, nf, h1, h2⟩ | hT)
  · have hne : ch' ≠ '(' := by
      intro e'; subst e'
      obtain ⟨c0, fl0, d0, hf0, e0, _⟩ := h
      -- `(` after maximal flags: the split is unique, so `ch = '('`, excluded
      have := flags_split_unique hf hf0 nf (not_flagHead_cons (by rcases hc with rfl | rfl <;> decide))
        (e.symm.trans e0)
      injection this with a _
      rcases hc with rfl | rfl <;> cases a
    obtain ⟨a, _⟩ := h.unique ⟨c, fl, d, hf, e, hne⟩
    subst a
    rcases hc with rfl | rfl
    · exact h1 rfl
    · exact h2 rfl
  · obtain ⟨c, fl, d, hf, e, hne⟩ := h
    rcases hT.head with h0 | ⟨x, r', h0, hx⟩
    · rw [h0] at e
      rcases hf.head with rfl | ⟨q, rfl⟩ <;> cases e
    · rw [h0] at e
      rcases hf.head with rfl | ⟨q, rfl⟩
      · injection e with e _; subst e
        rcases hc with rfl | rfl <;> revert hx <;> decide
      · injection e with e _; subst e; revert hx; decide

/-- a `/` followed by `S` could be read as the start of a rooted tree wildcard -/
def TAS (t : Term) (S : Str) : Prop :=
  ∃ (a c : Bool) (body' rest' : Str) (c' : Bool),
    '/' :: S = body' ++ rest' ∧ TreeSpell t a c body' rest' true c'

theorem TAS.fh {t : Term} {S : Str} (h : TAS t S) : ∃ r, FH S '*' ('*' :: r) := by
  obtain ⟨a, c, body', rest', c', e, hT⟩ := h
  match hT with
  | .mk _ pre _ c1 post _ _ hpre _ =>
    match hpre with
    | .rooted _ fl _ hf =>
      simp only [List.cons_append, List.append_assoc, List.cons.injEq, true_and] at e
      exact ⟨post ++ rest', _, fl, _, hf, e, by decide⟩

theorem not_TAS_of_fh {t : Term} {S : Str} {ch : Char} {r : Str} (h : FH S ch r)
    (hc : ch ≠ '*' ∨ ∀ r', r ≠ '*' :: r') : ¬ TAS t S := by
  intro hT
  obtain ⟨r0, h0⟩ := hT.fh
  obtain ⟨a, b⟩ := h.unique h0
  rcases hc with hc | hc
  · exact hc a
  · exact hc _ b

theorem not_TAS_of_term {t : Term} {S : Str} (h : TermAt t S) : ¬ TAS t S := by
  intro hT
  obtain ⟨r0, c, fl, d, hf, e, _⟩ := hT.fh
  rcases h.head with h0 | ⟨x, r', h0, hx⟩
  · rw [h0] at e
    rcases hf.head with rfl | ⟨q, rfl⟩ <;> cases e
  · rw [h0] at e
    rcases hf.head with rfl | ⟨q, rfl⟩
    · injection e with e _; subst e; revert hx; decide
    · injection e with e _; subst e; revert hx; decide

theorem TermAt.litEnd {t : Term} {r : Str} (h : TermAt t r) : LitEnd r := by
  rcases h.head with h0 | ⟨x, r', h0, hx⟩
  · exact .inl h0
  · refine .inr ⟨x, r', h0, ?_, ?_⟩
    · rcases isTermC_cases hx with rfl | rfl | rfl | rfl <;> decide
    · rcases isTermC_cases hx with rfl | rfl | rfl | rfl <;> decide

theorem TermAt.zomOk {t : Term} {r : Str} (h : TermAt t r) : ZomOk t r := .inr h

/-! ### every derivable tree is well-formed -/

theorem LitText.ok {s t : Str} (h : LitText s t) :
    t.all (fun ch => isMeta ch || !literalStop.contains ch) = true := by
  induction h with
  | nil => rfl
  | plain ch s t hs _ ih => simp only [List.all_cons, hs, ih]; simp
  | esc ch s t hs _ ih =>
    have : isMeta ch = true := hs
    simp only [List.all_cons, this, ih]; simp

theorem litOk_of {body text : Str} (h : LitText body text) (hb : body ≠ []) : litOk text = true := by
  have := h.text_ne hb
  unfold litOk
  rw [h.ok]
  cases text with
  | nil => exact absurd rfl this
  | cons => rfl

theorem ClassChar.ne_bs {s : Str} {a : Char} (h : ClassChar s a) : a ≠ '\\' := by
  cases h with
  | plain _ h1 _ _ _ => exact h1
  | esc _ h => rcases h with rfl | rfl | rfl <;> decide

theorem ClassItem.ok {s : Str} {a : Arch} (h : ClassItem s a) : archOk a = true := by
  cases h with
  | chr s a h => simp [archOk, h.ne_bs]
  | rng s1 s2 a b h1 h2 => simp [archOk, h1.ne_bs, h2.ne_bs]

theorem ClassItems.ok {s : Str} {as : List Arch} (h : ClassItems s as) : as.all archOk = true := by
  induction h with
  | nil => rfl
  | cons s s' a as h1 _ ih => simp only [List.all_cons, h1.ok, ih]; rfl

theorem ClassChar.bang {s : Str} {a : Char} (h : ClassChar s a) (hs : ∀ s', s ≠ '!' :: s') :
    a ≠ '!' := by
  cases h with
  | plain _ _ _ _ _ => intro e; subst e; exact hs [] rfl
  | esc _ h => rcases h with rfl | rfl | rfl <;> decide

theorem ClassItems.bang {s : Str} {as : List Arch} (h : ClassItems s as)
    (hs : ∀ s', s ≠ '!' :: s') :
    headNotBang as = true := by
  cases h with
  | nil => rfl
  | cons s1 s2 a as h1 _ =>
    unfold headNotBang
    cases h1 with
    | chr _ a h =>
      simp only [archHead, bne_iff_ne, ne_eq]
      apply h.bang
      intro s' e
      obtain ⟨ch, tl, e1, _⟩ := h.head
      exact hs (s' ++ s2) (by rw [e]; rfl)
    | rng t1 t2 a b h _ =>
      simp only [archHead, bne_iff_ne, ne_eq]
      apply h.bang
      intro s' e
      exact hs (s' ++ '-' :: t2 ++ s2) (by rw [e]; simp)

theorem itemsOk_of {body : Str} {neg : Bool} {items : List Arch} (h : ClassSpell body neg items) :
    itemsOk neg items = true := by
  cases h with
  | pos s items hi hne hb =>
    unfold itemsOk
    rw [hi.ok, hi.bang hb]
    cases items with
    | nil => exact absurd rfl hne
    | cons => rfl
  | neg s items hi hne =>
    unfold itemsOk
    rw [hi.ok]
    cases items with
    | nil => exact absurd rfl hne
    | cons => rfl

theorem bndOk_of {bd : Str} {lo : Nat} {hi : Option Nat} (h : Bounds bd lo hi) :
    bndOk lo hi = true := by
  cases h with
  | none => decide
  | open_ => decide
  | exact ds n hn => simp [bndOk, hn.2.2.2]
  | atLeast ds n hn => simp [bndOk, hn.2.2.2]
  | range ds es n m hn hm => simp [bndOk, hn.2.2.2, hm.2.2.2]

theorem GBody.zom_inv : ∀ {t : Term} {a : Bool} {sp : Span} {q : Nat} {c : Bool} {body rest : Str}
    {tok : Tok} {c' : Bool}, GBody t a sp q c body rest tok c' → tok.isZomK = true →
    (body = ['*'] ∨ body = ['$']) ∧ ZomOk t rest
  | _, _, _, _, _, _, _, _, _, .lit .., h => by cases h
  | _, _, _, _, _, _, _, _, _, .rep .., h => by cases h
  | _, _, _, _, _, _, _, _, _, .alt .., h => by cases h
  | _, _, _, _, _, _, _, _, _, .one .., h => by cases h
  | _, _, _, _, _, _, _, _, _, .tree .., h => by cases h
  | _, _, _, _, _, _, _, _, _, .zom _ _ _ _ _ _ h1, _ => ⟨.inl rfl, h1⟩
  | _, _, _, _, _, _, _, _, _, .zomLazy _ _ _ _ _ _ h1, _ => ⟨.inr rfl, h1⟩
  | _, _, _, _, _, _, _, _, _, .cls .., h => by cases h
  | _, _, _, _, _, _, _, _, _, .sep .., h => by cases h

/-- a zero-or-more wildcard is never followed by another one -/
theorem zom_adj {t : Term} {first : Bool} {p : Nat} {c : Bool} {s1 s2 rest : Str} {tok : Tok}
    {c1 : Bool} {p' : Nat} {toks : List Tok} {c' : Bool}
    (h1 : GTok t first p c s1 (s2 ++ rest) tok c1) (h2 : GToks t false p' c1 s2 rest toks c') :
    (tok.isZomK && headZom toks) = false := by
  cases hz : tok.isZomK with
  | false => rfl
  | true =>
    cases hh : headZom toks with
    | false => rfl
    | true =>
      exfalso
      -- the side condition of the first wildcard
      have hok : ZomOk t (s2 ++ rest) := by
        match h1 with
        | .mk _ _ _ _ fl _ body _ _ _ _ hb => exact (hb.zom_inv hz).2
      -- the second one starts, after its flags, with `*` or `$`
      match h2 with
      | .cons _ _ _ _ s3 s4 _ tk2 _ _ _ g1 _ =>
        have hz2 : tk2.isZomK = true := hh
        match g1 with
        | .mk _ _ _ _ fl _ body _ _ _ hfl hb =>
          rcases (hb.zom_inv hz2).1 with rfl | rfl
          · have hS : (fl ++ ['*']) ++ s4 ++ rest = fl ++ '*' :: (s4 ++ rest) := by simp
            rw [hS] at hok
            have hfh : FH (fl ++ '*' :: (s4 ++ rest)) '*' (s4 ++ rest) :=
              ⟨_, fl, _, hfl, rfl, by decide⟩
            exact not_zomOk_of_fh hfh (.inl rfl) hok
          · have hS : (fl ++ ['$']) ++ s4 ++ rest = fl ++ '$' :: (s4 ++ rest) := by simp
            rw [hS] at hok
            have hfh : FH (fl ++ '$' :: (s4 ++ rest)) '$' (s4 ++ rest) :=
              ⟨_, fl, _, hfl, rfl, by decide⟩
            exact not_zomOk_of_fh hfh (.inr rfl) hok

mutual
theorem aTok : ∀ {t : Term} {first : Bool} {p : Nat} {c : Bool} {s rest : Str} {tok : Tok}
    {c' : Bool}, GTok t first p c s rest tok c' → wfTok first tok = true ∧ tok.isCatK = false
  | _, first, _, _, _, _, _, _, .mk _ _ _ _ fl _ _ _ _ _ _ hb =>
    aBody hb first (by intro h; simp only [Bool.and_eq_true] at h; exact h.1)

theorem aBody : ∀ {t : Term} {a : Bool} {sp : Span} {q : Nat} {c : Bool} {body rest : Str}
    {tok : Tok} {c' : Bool}, GBody t a sp q c body rest tok c' →
    ∀ first, (a = true → first = true) → wfTok first tok = true ∧ tok.isCatK = false
  | _, _, _, _, _, _, _, _, _, .lit _ _ _ _ _ _ _ _ h1 h2 _, _, _ => ⟨by
      rw [wfTok]; exact litOk_of h1 h2, rfl⟩
  | _, _, _, _, _, _, _, _, _, .rep _ _ _ _ _ _ _ _ toks _ _ _ hT hne hB, _, _ => ⟨by
      rw [wfTok, wfTok, aToks hT, bndOk_of hB]
      cases toks with
      | nil => exact absurd rfl hne
      | cons => rfl, rfl⟩
  | _, _, _, _, _, _, _, _, _, .alt _ _ _ _ _ _ _ _ toks _ _ _ hT hne hBr, _, _ => ⟨by
      rw [wfTok, wfBranches, wfTok, aToks hT, aBr hBr]
      cases toks with
      | nil => exact absurd rfl hne
      | cons => rfl, rfl⟩
  | _, _, _, _, _, _, _, _, _, .one .., _, _ => ⟨by rw [wfTok], rfl⟩
  | _, _, _, _, _, _, _, _, _, .tree _ a _ _ _ _ _ root _ h1, first, ha => ⟨by
      rw [wfTok]
      cases root with
      | true => rfl
      | false =>
        match h1 with
        | .mk _ pre _ c1 post _ _ hpre _ =>
          match hpre with
          | .start _ hst => simp [ha hst], rfl⟩
  | _, _, _, _, _, _, _, _, _, .zom .., _, _ => ⟨by rw [wfTok], rfl⟩
  | _, _, _, _, _, _, _, _, _, .zomLazy .., _, _ => ⟨by rw [wfTok], rfl⟩
  | _, _, _, _, _, _, _, _, _, .cls _ _ _ _ _ _ _ _ _ h1, _, _ => ⟨by
      rw [wfTok]; exact itemsOk_of h1, rfl⟩
  | _, _, _, _, _, _, _, _, _, .sep .., _, _ => ⟨by rw [wfTok], rfl⟩

theorem aToks : ∀ {t : Term} {first : Bool} {p : Nat} {c : Bool} {s rest : Str} {ts : List Tok}
    {c' : Bool}, GToks t first p c s rest ts c' → wfToks first ts = true
  | _, _, _, _, _, _, _, _, .nil .. => by rw [wfToks]
  | _, _, _, _, _, _, _, _, .cons _ _ _ _ _ _ _ _ _ _ _ h1 h2 => by
    rw [wfToks, (aTok h1).1, (aTok h1).2, zom_adj h1 h2, aToks h2]; rfl

theorem aBr : ∀ {p : Nat} {c : Bool} {s rest : Str} {bs : List Tok} {c' : Bool},
    GBranches p c s rest bs c' → wfBranches bs = true
  | _, _, _, _, _, _, .nil .. => by rw [wfBranches]
  | _, _, _, _, _, _, .cons _ _ _ _ _ toks _ _ _ hT hne hBr => by
    rw [wfBranches, wfTok, aToks hT, aBr hBr]
    cases toks with
    | nil => exact absurd rfl hne
    | cons => rfl
end

/-- **every tree the grammar derives (hence every tree the parser returns) is well-formed** -/
theorem Gram.wf {c : Bool} {e : Str} {ts : List Tok} {f : Bool} (h : Gram c e ts f) :
    wfToks true ts = true := aToks h

/-! ### the canonical spelling of the leaves is spelled as the grammar says -/

theorem flagFor_flags (c ci : Bool) : Flags c (flagFor ci) ci := by
  cases ci with
  | true =>
    exact .group c ['i'] true [] true (.on _ [] _ (.nil _)) (by simp) (.nil _)
  | false =>
    exact .group c ['-', 'i'] false [] false (.off _ [] _ (.nil _)) (by simp) (.nil _)

theorem litFlags (c pl ci : Bool) : Flags c (if pl || (ci != c) then flagFor ci else []) ci := by
  by_cases h : (pl || (ci != c)) = true
  · rw [if_pos h]; exact flagFor_flags c ci
  · rw [if_neg h]
    have : ci = c := by
      simp only [Bool.or_eq_true, bne_iff_ne, ne_eq, not_or, Bool.not_eq_true, Decidable.not_not] at h
      exact h.2
    subst this; exact .nil _

theorem escape_cons (ch : Char) (t : Str) :
    escape (ch :: t) = (if isMeta ch then ['\\', ch] else [ch]) ++ escape t := by
  simp [escape]

theorem litText_escape : ∀ (text : Str),
    text.all (fun ch => isMeta ch || !literalStop.contains ch) = true → LitText (escape text) text
  | [], _ => .nil
  | ch :: t, h => by
    simp only [List.all_cons, Bool.and_eq_true] at h
    rw [escape_cons]
    cases hm : isMeta ch with
    | true => exact .esc ch _ _ hm (litText_escape t h.2)
    | false =>
      have h1 := h.1
      rw [hm] at h1
      simp only [Bool.false_or, Bool.not_eq_true'] at h1
      exact .plain ch _ _ h1 (litText_escape t h.2)

theorem escape_head {text : Str} (h : litOk text = true) :
    ∃ ch r, escape text = ch :: r ∧ ch ≠ '(' ∧ ch ≠ '*' ∧ ch ≠ '$' := by
  unfold litOk at h
  cases text with
  | nil => simp at h
  | cons ch t =>
    simp only [List.isEmpty_cons, Bool.not_false, Bool.true_and, List.all_cons,
      Bool.and_eq_true] at h
    rw [escape_cons]
    cases hm : isMeta ch with
    | true => exact ⟨'\\', ch :: escape t, rfl, by decide, by decide, by decide⟩
    | false =>
      have h1 := h.1
      rw [hm] at h1
      simp only [Bool.false_or, Bool.not_eq_true'] at h1
      refine ⟨ch, escape t, rfl, ?_, ?_, ?_⟩ <;> (intro e; subst e; revert h1; decide)

theorem litOk_parts {text : Str} (h : litOk text = true) :
    text ≠ [] ∧ text.all (fun ch => isMeta ch || !literalStop.contains ch) = true := by
  unfold litOk at h
  simp only [Bool.and_eq_true] at h
  refine ⟨?_, h.2⟩
  intro e; subst e; simp at h

theorem decimal_eq (ds : Str) : decimal ds = Nat.ofDigitChars 10 ds 0 := by
  unfold decimal Nat.ofDigitChars
  congr 1
  funext a ch
  rw [Nat.mul_comm]

theorem number_toDigits {n : Nat} (h : n ≤ usizeMax) : Number (Nat.toDigits 10 n) n :=
  ⟨Nat.toDigits_ne_nil, fun ch hc => Nat.isDigit_of_mem_toDigits (by decide) (by decide) hc,
    by rw [decimal_eq]; exact Nat.ofDigitChars_ten_toDigits, h⟩

theorem bounds_unBounds {lo : Nat} {hi : Option Nat} (h : bndOk lo hi = true) :
    Bounds (unBounds lo hi) lo hi := by
  unfold bndOk at h
  unfold unBounds
  cases hi with
  | none =>
    simp only [Bool.and_true, decide_eq_true_eq] at h
    exact .atLeast _ _ (number_toDigits h)
  | some m =>
    simp only [Bool.and_eq_true, decide_eq_true_eq] at h
    exact .range _ _ _ _ (number_toDigits h.1) (number_toDigits h.2)

theorem unBounds_head (lo : Nat) (hi : Option Nat) : ∃ r, unBounds lo hi = ':' :: r := ⟨_, rfl⟩

theorem classChar_unChar {ch : Char} (h : ch ≠ '\\') : ClassChar (unChar ch) ch := by
  unfold unChar
  by_cases hs : (ch == '[' || ch == ']' || ch == '-') = true
  · rw [if_pos hs]
    simp only [Bool.or_eq_true, beq_iff_eq] at hs
    exact .esc ch (by rcases hs with (h1 | h1) | h1 <;> simp [h1])
  · rw [if_neg hs]
    simp only [Bool.or_eq_true, beq_iff_eq, not_or] at hs
    exact .plain ch h hs.1.1 hs.1.2 hs.2

theorem classItem_unItem {a : Arch} (h : archOk a = true) : ClassItem (unItem a) a := by
  cases a with
  | chr a =>
    simp only [archOk, bne_iff_ne, ne_eq] at h
    exact .chr _ _ (classChar_unChar h)
  | rng a b =>
    simp only [archOk, Bool.and_eq_true, bne_iff_ne, ne_eq] at h
    exact .rng _ _ _ _ (classChar_unChar h.1) (classChar_unChar h.2)

theorem classItems_flatMap : ∀ (items : List Arch), items.all archOk = true →
    ClassItems (items.flatMap unItem) items
  | [], _ => .nil
  | a :: as, h => by
    simp only [List.all_cons, Bool.and_eq_true] at h
    rw [List.flatMap_cons]
    exact .cons _ _ _ _ (classItem_unItem h.1) (classItems_flatMap as h.2)

theorem unChar_head (ch : Char) : ∃ r, unChar ch = '\\' :: r ∨ unChar ch = ch :: r := by
  unfold unChar
  split
  · exact ⟨[ch], .inl rfl⟩
  · exact ⟨[], .inr rfl⟩

theorem flatMap_not_bang {items : List Arch} (h : headNotBang items = true) :
    ∀ s', items.flatMap unItem ≠ '!' :: s' := by
  intro s' e
  cases items with
  | nil => simp at e
  | cons a as =>
    simp only [headNotBang, bne_iff_ne, ne_eq] at h
    rw [List.flatMap_cons] at e
    have : ∃ r, unItem a = '\\' :: r ∨ unItem a = archHead a :: r := by
      cases a with
      | chr a => exact unChar_head a
      | rng a b =>
        obtain ⟨r, hr | hr⟩ := unChar_head a
        · exact ⟨r ++ '-' :: unChar b, .inl (by simp [unItem, hr])⟩
        · exact ⟨r ++ '-' :: unChar b, .inr (by simp [unItem, archHead, hr])⟩
    obtain ⟨r, hr | hr⟩ := this
    · rw [hr] at e; simp at e
    · rw [hr] at e; simp at e; exact h e.1

theorem classSpell_un {neg : Bool} {items : List Arch} (h : itemsOk neg items = true) :
    ClassSpell ('[' :: (if neg then ['!'] else []) ++ items.flatMap unItem ++ [']']) neg items := by
  unfold itemsOk at h
  simp only [Bool.and_eq_true, Bool.or_eq_true] at h
  obtain ⟨⟨h1, h2⟩, h3⟩ := h
  have hne : items ≠ [] := by intro e; subst e; simp at h1
  cases neg with
  | true => exact .neg _ _ (classItems_flatMap items h2) hne
  | false =>
    have h3' : headNotBang items = true := by rcases h3 with h3 | h3; cases h3; exact h3
    exact .pos _ _ (classItems_flatMap items h2) hne (flatMap_not_bang h3')

/-! ### what the canonical spelling of a token looks like from the left -/

theorem litEnd_cons {ch : Char} (r : Str) (h1 : literalStop.contains ch = true) (h2 : ch ≠ '\\') :
    LitEnd (ch :: r) := .inr ⟨ch, r, rfl, h1, h2⟩

theorem canon_head {c pl : Bool} {tk : Tok} (hw : wfTok false tk = true) (hc : tk.isCatK = false)
    (R : Str) :
    ∃ ch r, FH ((unTok c pl tk).1 ++ R) ch r ∧ (tk.isZomK = false → ch ≠ '*' ∧ ch ≠ '$') ∧
      (tk.isZomK = true → r = R) ∧
      ((pl = true ∨ tk.isLit = false) → LitEnd ((unTok c pl tk).1 ++ R)) := by
  cases tk with
  | lit sp text ci =>
    rw [wfTok] at hw
    obtain ⟨ch, r0, e, h1, h2, h3⟩ := escape_head hw
    rw [unTok]
    dsimp only
    refine ⟨ch, r0 ++ R, ⟨c, _, ci, litFlags c pl ci, by rw [e]; simp, h1⟩, fun _ => ⟨h2, h3⟩,
      (fun h => by cases h), ?_⟩
    intro h
    have hp : pl = true := by rcases h with h | h; exact h; cases h
    subst hp
    simp only [Bool.true_or, if_true]
    cases ci with
    | true => exact litEnd_cons _ (by decide) (by decide)
    | false => exact litEnd_cons _ (by decide) (by decide)
  | sep sp =>
    rw [unTok]
    exact ⟨'/', R, FH.here R (by decide), fun _ => ⟨by decide, by decide⟩, (fun h => by cases h),
      fun _ => litEnd_cons _ (by decide) (by decide)⟩
  | cls sp neg items =>
    rw [unTok]
    exact ⟨'[', _, FH.here _ (by decide), fun _ => ⟨by decide, by decide⟩, (fun h => by cases h),
      fun _ => litEnd_cons _ (by decide) (by decide)⟩
  | one sp =>
    rw [unTok]
    exact ⟨'?', R, FH.here R (by decide), fun _ => ⟨by decide, by decide⟩, (fun h => by cases h),
      fun _ => litEnd_cons _ (by decide) (by decide)⟩
  | zom sp lazy =>
    rw [unTok]
    cases lazy with
    | true =>
      exact ⟨'$', R, FH.here R (by decide), (fun h => by cases h), fun _ => rfl,
        fun _ => litEnd_cons _ (by decide) (by decide)⟩
    | false =>
      exact ⟨'*', R, FH.here R (by decide), (fun h => by cases h), fun _ => rfl,
        fun _ => litEnd_cons _ (by decide) (by decide)⟩
  | tree sp root =>
    rw [wfTok] at hw
    simp only [Bool.or_false] at hw
    subst hw
    rw [unTok]
    exact ⟨'/', _, FH.here _ (by decide), fun _ => ⟨by decide, by decide⟩, (fun h => by cases h),
      fun _ => litEnd_cons _ (by decide) (by decide)⟩
  | alt sp bs =>
    rw [unTok]
    exact ⟨'{', _, FH.here _ (by decide), fun _ => ⟨by decide, by decide⟩, (fun h => by cases h),
      fun _ => litEnd_cons _ (by decide) (by decide)⟩
  | cat sp ts => cases hc
  | rep sp body lo hi =>
    rw [unTok]
    exact ⟨'<', _, FH.here _ (by decide), fun _ => ⟨by decide, by decide⟩, (fun h => by cases h),
      fun _ => litEnd_cons _ (by decide) (by decide)⟩

theorem wfToks_cons {first : Bool} {tk : Tok} {ts : List Tok} (h : wfToks first (tk :: ts) = true) :
    tk.isCatK = false ∧ wfTok first tk = true ∧ (tk.isZomK = true → headZom ts = false) ∧
      wfToks false ts = true := by
  rw [wfToks] at h
  simp only [Bool.and_eq_true, Bool.not_eq_true', Bool.and_eq_false_iff] at h
  obtain ⟨⟨⟨h1, h2⟩, h3⟩, h4⟩ := h
  refine ⟨h1, h2, ?_, h4⟩
  intro hz
  rcases h3 with h3 | h3
  · rw [hz] at h3; cases h3
  · exact h3

theorem unToks_cons (c pl : Bool) (tk : Tok) (ts : List Tok) (rest : Str) :
    (unToks c pl (tk :: ts)).1 ++ rest =
      (unTok c pl tk).1 ++ ((unToks (unTok c pl tk).2 tk.isLit ts).1 ++ rest) := by
  rw [unToks]; simp

/-- after a literal, the canonical spelling of what follows ends the literal -/
theorem canon_litEnd {t : Term} {c : Bool} {ts : List Tok} {rest : Str}
    (hw : wfToks false ts = true) (ht : TermAt t rest) : LitEnd ((unToks c true ts).1 ++ rest) := by
  cases ts with
  | nil => rw [unToks]; exact ht.litEnd
  | cons tk ts =>
    obtain ⟨h1, h2, _, _⟩ := wfToks_cons hw
    rw [unToks_cons]
    obtain ⟨ch, r, _, _, _, h⟩ := canon_head (c := c) (pl := true) h2 h1
      ((unToks (unTok c true tk).2 tk.isLit ts).1 ++ rest)
    exact h (.inl rfl)

/-- after a `*` / `$`, the canonical spelling of what follows keeps it a wildcard of its own -/
theorem canon_zomOk {t : Term} {c pl : Bool} {ts : List Tok} {rest : Str}
    (hw : wfToks false ts = true) (hz : headZom ts = false) (ht : TermAt t rest) :
    ZomOk t ((unToks c pl ts).1 ++ rest) := by
  cases ts with
  | nil => rw [unToks]; exact ht.zomOk
  | cons tk ts =>
    obtain ⟨h1, h2, _, _⟩ := wfToks_cons hw
    rw [unToks_cons]
    obtain ⟨ch, r, hfh, hns, _, _⟩ := canon_head (c := c) (pl := pl) h2 h1
      ((unToks (unTok c pl tk).2 tk.isLit ts).1 ++ rest)
    have := hns hz
    exact .inl (hfh.nsf this.1 this.2)

/-- after a `/`, the canonical spelling of what follows is not the rest of a tree wildcard -/
theorem canon_notTAS {t : Term} {c pl : Bool} {ts : List Tok} {rest : Str}
    (hw : wfToks false ts = true) (ht : TermAt t rest) : ¬ TAS t ((unToks c pl ts).1 ++ rest) := by
  cases ts with
  | nil => rw [unToks]; exact not_TAS_of_term ht
  | cons tk ts =>
    obtain ⟨h1, h2, h3, h4⟩ := wfToks_cons hw
    rw [unToks_cons]
    obtain ⟨ch, r, hfh, hns, hr, _⟩ := canon_head (c := c) (pl := pl) h2 h1
      ((unToks (unTok c pl tk).2 tk.isLit ts).1 ++ rest)
    apply not_TAS_of_fh hfh
    cases hz : tk.isZomK with
    | false => exact .inl (hns hz).1
    | true =>
      right
      rw [hr hz]
      exact (canon_zomOk (t := t) h4 (h3 hz) ht).not_star

/-! ### the canonical spelling of a well-formed tree is derivable, to the same tree -/

/-- what the text after a token has to satisfy (the token's own maximal-munch side condition) -/
def RestOk (t : Term) (tk : Tok) (rest : Str) : Prop :=
  (tk.isLit = true → LitEnd rest) ∧ (tk.isZomK = true → ZomOk t rest) ∧
    (tk.isSep = true → ¬ TAS t rest)

def TokB (tk : Tok) : Prop :=
  tk.isCatK = false → ∀ (first : Bool) (t : Term) (p : Nat) (c pl : Bool) (rest : Str),
    wfTok first tk = true → RestOk t tk rest →
    ∃ tk', GTok t first p c (unTok c pl tk).1 rest tk' (unTok c pl tk).2 ∧ tk'.strip = tk.strip

def CatB (tk : Tok) : Prop :=
  tk.isCatK = true → ∀ (t : Term) (p : Nat) (c : Bool) (rest : Str),
    wfTok true tk = true → TermAt t rest →
    ∃ ts', GToks t true p c (unTok c false tk).1 rest ts' (unTok c false tk).2 ∧ ts' ≠ [] ∧
      ∀ sp, (Tok.cat sp ts').strip = tk.strip

def ToksB (ts : List Tok) : Prop :=
  ∀ (first : Bool) (t : Term) (p : Nat) (c pl : Bool) (rest : Str),
    wfToks first ts = true → TermAt t rest →
    ∃ ts', GToks t first p c (unToks c pl ts).1 rest ts' (unToks c pl ts).2 ∧
      stripL ts' = stripL ts

def BrB (bs : List Tok) : Prop :=
  ∀ (p : Nat) (c : Bool) (rest : Str), wfBranches bs = true → (∃ r, rest = '}' :: r) →
    ∃ bs', GBranches p c (unBranches c false bs).1 rest bs' (unBranches c false bs).2 ∧
      stripL bs' = stripL bs

def AltB (bs : List Tok) : Prop :=
  ∀ (q : Nat) (c : Bool) (rest : Str), wfBranches bs = true → bs ≠ [] →
    ∃ s1 s2 toks c1 bs', (unBranches c true bs).1 = s1 ++ s2 ∧
      GToks .altT true (q + 1) c s1 (s2 ++ '}' :: rest) toks c1 ∧ toks ≠ [] ∧
      GBranches (q + 1 + ulen s1) c1 s2 ('}' :: rest) bs' (unBranches c true bs).2 ∧
      stripL (.cat ⟨q + 1, ulen s1⟩ toks :: bs') = stripL bs

theorem gtok_noflags {t : Term} {first : Bool} {p : Nat} {c : Bool} {body rest : Str} {tok : Tok}
    {c' : Bool} (h : GBody t (first && true) ⟨p, ulen body⟩ p c body rest tok c') :
    GTok t first p c body rest tok c' :=
  GTok.mk t first p c [] c body rest tok c' (.nil c) h

theorem stripL_cons (t : Tok) (ts : List Tok) : stripL (t :: ts) = t.strip :: stripL ts := by
  simp [stripL, Tok.strip, mapSpansL]

theorem stripL_nil : stripL [] = [] := by simp [stripL, mapSpansL]

theorem stripL_ne_nil {a b : List Tok} (h : stripL a = stripL b) (hb : b ≠ []) : a ≠ [] := by
  intro e; subst e
  cases b with
  | nil => exact hb rfl
  | cons t ts => rw [stripL_nil, stripL_cons] at h; cases h

theorem strip_cat (sp : Span) (ts : List Tok) : (Tok.cat sp ts).strip = .cat ⟨0, 0⟩ (stripL ts) := by
  simp [Tok.strip, stripL, Tok.mapSpans]

theorem strip_rep (sp : Span) (b : Tok) (lo : Nat) (hi : Option Nat) :
    (Tok.rep sp b lo hi).strip = .rep ⟨0, 0⟩ b.strip lo hi := by
  simp [Tok.strip, Tok.mapSpans]

theorem strip_alt (sp : Span) (bs : List Tok) : (Tok.alt sp bs).strip = .alt ⟨0, 0⟩ (stripL bs) := by
  simp [Tok.strip, stripL, Tok.mapSpans]

theorem tokB_lit (sp : Span) (text : Str) (ci : Bool) : TokB (.lit sp text ci) := by
  intro _ first t p c pl rest hw hr
  rw [wfTok] at hw
  obtain ⟨hne, hall⟩ := litOk_parts hw
  obtain ⟨ch, r0, e, _⟩ := escape_head hw
  rw [unTok]
  refine ⟨.lit ⟨p, ulen ((if pl || (ci != c) then flagFor ci else []) ++ escape text)⟩ text ci,
    ?_, by simp [Tok.strip, Tok.mapSpans]⟩
  exact GTok.mk t first p c _ ci (escape text) rest _ ci (litFlags c pl ci)
    (.lit _ _ _ _ _ _ _ _ (litText_escape text hall) (by rw [e]; simp) (hr.1 rfl))

theorem tokB_sep (sp : Span) : TokB (.sep sp) := by
  intro _ first t p c pl rest hw hr
  rw [unTok]
  refine ⟨.sep ⟨p, ulen ['/']⟩, gtok_noflags (.sep _ _ _ _ _ _ ?_), by simp [Tok.strip, Tok.mapSpans]⟩
  rintro ⟨body', rest', c', e, hT⟩
  exact hr.2.2 rfl ⟨_, _, body', rest', c', e, hT⟩

theorem tokB_cls (sp : Span) (neg : Bool) (items : List Arch) : TokB (.cls sp neg items) := by
  intro _ first t p c pl rest hw hr
  rw [wfTok] at hw
  rw [unTok]
  exact ⟨.cls ⟨p, ulen _⟩ neg items, gtok_noflags (.cls _ _ _ _ _ _ _ _ _ (classSpell_un hw)),
    by simp [Tok.strip, Tok.mapSpans]⟩

theorem tokB_one (sp : Span) : TokB (.one sp) := by
  intro _ first t p c pl rest hw hr
  rw [unTok]
  exact ⟨.one ⟨p, ulen ['?']⟩, gtok_noflags (.one _ _ _ _ _ _), by simp [Tok.strip, Tok.mapSpans]⟩

theorem tokB_zom (sp : Span) (lazy : Bool) : TokB (.zom sp lazy) := by
  intro _ first t p c pl rest hw hr
  rw [unTok]
  cases lazy with
  | true =>
    exact ⟨.zom ⟨p, ulen ['$']⟩ true, gtok_noflags (.zomLazy _ _ _ _ _ _ (hr.2.1 rfl)),
      by simp [Tok.strip, Tok.mapSpans]⟩
  | false =>
    exact ⟨.zom ⟨p, ulen ['*']⟩ false, gtok_noflags (.zom _ _ _ _ _ _ (hr.2.1 rfl)),
      by simp [Tok.strip, Tok.mapSpans]⟩

theorem tokB_tree (sp : Span) (root : Bool) : TokB (.tree sp root) := by
  intro _ first t p c pl rest hw hr
  rw [wfTok] at hw
  rw [unTok]
  cases root with
  | true =>
    refine ⟨.tree ⟨p, ulen ['/', '*', '*', '/']⟩ true, gtok_noflags (.tree _ _ _ _ _ _ _ _ _ ?_),
      by simp [Tok.strip, Tok.mapSpans]⟩
    exact .mk c ['/'] true c ['/'] rest c (.rooted c [] c (.nil c)) (.slash c [] rest c (.nil c))
  | false =>
    simp only [Bool.false_or] at hw
    subst hw
    refine ⟨.tree ⟨p, ulen ['*', '*', '/']⟩ false, gtok_noflags (.tree _ _ _ _ _ _ _ _ _ ?_),
      by simp [Tok.strip, Tok.mapSpans]⟩
    exact .mk c [] false c ['/'] rest c (.start c rfl) (.slash c [] rest c (.nil c))

theorem tokB_cat (sp : Span) (ts : List Tok) : TokB (.cat sp ts) := by
  intro h; cases h

theorem tokB_rep {body : Tok} (h : CatB body) (sp : Span) (lo : Nat) (hi : Option Nat) :
    TokB (.rep sp body lo hi) := by
  intro _ first t p c pl rest hw hr
  rw [wfTok] at hw
  simp only [Bool.and_eq_true] at hw
  obtain ⟨⟨hc, hwb⟩, hb⟩ := hw
  have hB := bounds_unBounds hb
  obtain ⟨ts', g, hne, hs⟩ := h hc .repT (p + 1) c (unBounds lo hi ++ '>' :: rest) hwb (hB.term rest)
  rw [unTok]
  refine ⟨.rep ⟨p, ulen _⟩ (.cat ⟨p + 1, ulen (unTok c false body).1⟩ ts') lo hi,
    gtok_noflags (.rep _ _ _ _ _ _ _ _ _ _ _ _ g hne hB), ?_⟩
  rw [strip_rep, strip_rep, hs]

theorem tokB_alt {bs : List Tok} (h : AltB bs) (sp : Span) : TokB (.alt sp bs) := by
  intro _ first t p c pl rest hw hr
  rw [wfTok] at hw
  simp only [Bool.and_eq_true, Bool.not_eq_true', List.isEmpty_eq_false_iff] at hw
  obtain ⟨s1, s2, toks, c1, bs', e, g1, hne, g2, hs⟩ := h p c rest hw.2 hw.1
  rw [unTok]
  dsimp only
  rw [e]
  refine ⟨.alt ⟨p, ulen ('{' :: s1 ++ s2 ++ ['}'])⟩ (.cat ⟨p + 1, ulen s1⟩ toks :: bs'), ?_, ?_⟩
  · have := gtok_noflags (t := t) (first := first) (p := p) (c := c) (rest := rest)
      (GBody.alt t (first && true) ⟨p, ulen ('{' :: s1 ++ s2 ++ ['}'])⟩ p c s1 s2 rest toks c1 bs' _
        g1 hne g2)
    have e2 : '{' :: (s1 ++ s2) ++ ['}'] = '{' :: s1 ++ s2 ++ ['}'] := by simp
    rw [e2]; exact this
  · rw [strip_alt, strip_alt, hs]

theorem tokB_other {tk : Tok} (h : tk.isCatK = true) : TokB tk := by
  intro h'; rw [h] at h'; cases h'

theorem catB_other {tk : Tok} (h : tk.isCatK = false) : CatB tk := by
  intro h'; rw [h] at h'; cases h'

theorem catB_cat {ts : List Tok} (h : ToksB ts) (sp : Span) : CatB (.cat sp ts) := by
  intro _ t p c rest hw ht
  rw [wfTok] at hw
  simp only [Bool.and_eq_true, Bool.not_eq_true', List.isEmpty_eq_false_iff] at hw
  obtain ⟨ts', g, hs⟩ := h true t p c false rest hw.2 ht
  rw [unTok]
  exact ⟨ts', g, stripL_ne_nil hs hw.1, fun sp' => by rw [strip_cat, strip_cat, hs]⟩

theorem toksB_nil : ToksB [] := by
  intro first t p c pl rest _ _
  rw [unToks]
  exact ⟨[], .nil _ _ _ _ _, rfl⟩

theorem toksB_cons {tk : Tok} {ts : List Tok} (h1 : TokB tk) (h2 : ToksB ts) : ToksB (tk :: ts) := by
  intro first t p c pl rest hw ht
  obtain ⟨a1, a2, a3, a4⟩ := wfToks_cons hw
  have hr : RestOk t tk ((unToks (unTok c pl tk).2 tk.isLit ts).1 ++ rest) :=
    ⟨fun hl => by rw [hl]; exact canon_litEnd a4 ht, fun hz => canon_zomOk a4 (a3 hz) ht,
      fun _ => canon_notTAS a4 ht⟩
  obtain ⟨tk', g1, e1⟩ := h1 a1 first t p c pl _ a2 hr
  obtain ⟨ts', g2, e2⟩ := h2 false t (p + ulen (unTok c pl tk).1) (unTok c pl tk).2 tk.isLit rest a4 ht
  rw [unToks]
  exact ⟨tk' :: ts', .cons _ _ _ _ _ _ _ _ _ _ _ g1 g2, by rw [stripL_cons, stripL_cons, e1, e2]⟩

theorem wfBranches_cons {b : Tok} {bs : List Tok} (h : wfBranches (b :: bs) = true) :
    b.isCatK = true ∧ wfTok true b = true ∧ wfBranches bs = true := by
  rw [wfBranches] at h
  simp only [Bool.and_eq_true] at h
  exact ⟨h.1.1, h.1.2, h.2⟩

theorem brB_nil : BrB [] := by
  intro p c rest _ _
  rw [unBranches]
  exact ⟨[], .nil _ _ _, rfl⟩

theorem brB_cons {b : Tok} {bs : List Tok} (h1 : CatB b) (h2 : BrB bs) : BrB (b :: bs) := by
  have u1 : (',' : Char).utf8Size = 1 := by decide
  intro p c rest hw hr
  obtain ⟨a1, a2, a3⟩ := wfBranches_cons hw
  obtain ⟨bs', g2, e2⟩ := h2 (p + 1 + ulen (unTok c false b).1) (unTok c false b).2 rest a3 hr
  obtain ⟨ts', g1, hne, e1⟩ := h1 a1 .altT (p + 1) c _ a2 (g2.term hr)
  rw [unBranches]
  dsimp only
  refine ⟨.cat ⟨p + 1, ulen (unTok c false b).1⟩ ts' :: bs', ?_, by rw [stripL_cons, stripL_cons, e1, e2]⟩
  have := GBranches.cons p c _ _ rest ts' _ bs' _ g1 hne g2
  simpa using this

theorem altB_nil : AltB [] := by
  intro q c rest _ h; exact absurd rfl h

theorem altB_cons {b : Tok} {bs : List Tok} (h1 : CatB b) (h2 : BrB bs) : AltB (b :: bs) := by
  intro q c rest hw _
  obtain ⟨a1, a2, a3⟩ := wfBranches_cons hw
  obtain ⟨bs', g2, e2⟩ := h2 (q + 1 + ulen (unTok c false b).1) (unTok c false b).2 ('}' :: rest) a3
    ⟨rest, rfl⟩
  obtain ⟨ts', g1, hne, e1⟩ := h1 a1 .altT (q + 1) c _ a2 (g2.term ⟨rest, rfl⟩)
  refine ⟨(unTok c false b).1, (unBranches (unTok c false b).2 false bs).1, ts', (unTok c false b).2,
    bs', ?_, g1, hne, ?_, by rw [stripL_cons, stripL_cons, e1, e2]⟩
  · rw [unBranches]; simp
  · rw [unBranches]; exact g2

mutual
theorem bTok : ∀ (tk : Tok), TokB tk ∧ CatB tk
  | .lit sp text ci => ⟨tokB_lit sp text ci, catB_other rfl⟩
  | .sep sp => ⟨tokB_sep sp, catB_other rfl⟩
  | .cls sp neg items => ⟨tokB_cls sp neg items, catB_other rfl⟩
  | .one sp => ⟨tokB_one sp, catB_other rfl⟩
  | .zom sp lazy => ⟨tokB_zom sp lazy, catB_other rfl⟩
  | .tree sp root => ⟨tokB_tree sp root, catB_other rfl⟩
  | .alt sp bs => ⟨tokB_alt (bAlt bs) sp, catB_other rfl⟩
  | .cat sp ts => ⟨tokB_other rfl, catB_cat (bToks ts) sp⟩
  | .rep sp body lo hi => ⟨tokB_rep (bTok body).2 sp lo hi, catB_other rfl⟩
theorem bToks : ∀ (ts : List Tok), ToksB ts
  | [] => toksB_nil
  | tk :: ts => toksB_cons (bTok tk).1 (bToks ts)
theorem bBr : ∀ (bs : List Tok), BrB bs
  | [] => brB_nil
  | b :: bs => brB_cons (bTok b).2 (bBr bs)
theorem bAlt : ∀ (bs : List Tok), AltB bs
  | [] => altB_nil
  | b :: bs => altB_cons (bTok b).2 (bBr bs)
end

/-! ### headline theorems -/

/-- the canonical spelling of a well-formed token sequence is derivable, from any flag state, to
the same sequence modulo spans -/
theorem gram_unparse (c : Bool) {ts : List Tok} (hw : wfToks true ts = true) :
    ∃ ts', Gram c (unparse c ts) ts' (unToks c false ts).2 ∧ stripL ts' = stripL ts :=
  bToks ts true .eof 0 c false [] hw rfl

/-- **re-spelling a pattern canonically does not change it**: if the grammar derives `ts` from some
text `e` (equivalently: the parser returns `ts` for `e`), then whatever the grammar derives from the
canonical spelling `unparse c ts` is `ts` again, up to spans -/
theorem unparse_roundtrip {c : Bool} {e : Str} {ts : List Tok} {f : Bool} (h : Gram c e ts f)
    {ts' : List Tok} {f' : Bool} (h' : Gram c (unparse c ts) ts' f') : stripL ts' = stripL ts := by
  obtain ⟨ts'', g, e⟩ := gram_unparse c h.wf
  rw [(Gram_functional h' g).1]; exact e

/-- the same for any well-formed tree (a decidable condition), parsed or not -/
theorem unparse_roundtrip_wf {c : Bool} {ts : List Tok} (hw : wfToks true ts = true)
    {ts' : List Tok} {f' : Bool} (h' : Gram c (unparse c ts) ts' f') : stripL ts' = stripL ts := by
  obtain ⟨ts'', g, e⟩ := gram_unparse c hw
  rw [(Gram_functional h' g).1]; exact e

/-- in terms of the parser: the canonical spelling of a parsed expression parses, to the same tree
up to spans -/
theorem parse_unparse {e : Str} {t : Tok} (h : parse e = .ok t) :
    ∃ t', parse (unparse false (toksOf t)) = .ok t' ∧ stripL (toksOf t') = stripL (toksOf t) := by
  obtain ⟨ts, f, hg, rfl⟩ := parse_sound h
  rw [toksOf_topTok hg]
  obtain ⟨ts', g, e'⟩ := gram_unparse false hg.wf
  exact ⟨_, parse_complete g, by rw [toksOf_topTok g]; exact e'⟩

/-! ### non-vacuity, and why adjacent literals need a flag group between them -/

-- `a(?i)(?-i)b` parses to two adjacent case-sensitive literals …
example : parse "a(?i)(?-i)b".toList =
    .ok (.cat ⟨0, 11⟩ [.lit ⟨0, 1⟩ ['a'] false, .lit ⟨1, 10⟩ ['b'] false]) := by rfl
-- … the spelling without inline flags is a different tree (one literal) …
example : parse "ab".toList = .ok (.cat ⟨0, 2⟩ [.lit ⟨0, 2⟩ ['a', 'b'] false]) := by rfl
-- … and the canonical spelling keeps them apart
example : unparse false [.lit ⟨0, 1⟩ ['a'] false, .lit ⟨1, 10⟩ ['b'] false] = "a(?-i)b".toList := by
  decide
example : parse "a(?-i)b".toList =
    .ok (.cat ⟨0, 7⟩ [.lit ⟨0, 1⟩ ['a'] false, .lit ⟨1, 6⟩ ['b'] false]) := by rfl

-- a bigger instance: the canonical spelling of a parsed expression, and its re-parse
example : unparse false
    [.lit ⟨0, 1⟩ ['a'] false, .tree ⟨1, 4⟩ true,
     .alt ⟨5, 9⟩ [.cat ⟨6, 1⟩ [.lit ⟨6, 1⟩ ['b'] false], .cat ⟨8, 5⟩ [.lit ⟨8, 5⟩ ['c'] true]],
     .rep ⟨14, 12⟩ (.cat ⟨15, 6⟩ [.cls ⟨15, 6⟩ true [.rng 'x' 'z']]) 1 (some 2),
     .zom ⟨26, 1⟩ false] = "a/**/{b,(?i)c}<[!x-z]:1,2>*".toList := by decide

-- the hypothesis of `parse_unparse` / `unparse_roundtrip` is satisfiable (`Gram` holds of every
-- parsed expression): the glob `a\*<b:2>` is re-spelled `a\*<b:2,2>`
example : ∃ t', parse (unparse false (toksOf (.cat ⟨0, 8⟩
    [.lit ⟨0, 3⟩ ['a', '*'] false, .rep ⟨3, 5⟩ (.cat ⟨4, 1⟩ [.lit ⟨4, 1⟩ ['b'] false]) 2 (some 2)])))
      = .ok t' ∧ stripL (toksOf t') = stripL (toksOf (.cat ⟨0, 8⟩
    [.lit ⟨0, 3⟩ ['a', '*'] false, .rep ⟨3, 5⟩ (.cat ⟨4, 1⟩ [.lit ⟨4, 1⟩ ['b'] false]) 2 (some 2)])) :=
  parse_unparse (e := "a\\*<b:2>".toList) (by rfl)

example : unparse false [.lit ⟨0, 3⟩ ['a', '*'] false,
    .rep ⟨3, 5⟩ (.cat ⟨4, 1⟩ [.lit ⟨4, 1⟩ ['b'] false]) 2 (some 2)] = "a\\*<b:2,2>".toList := by
  decide

end Wax
