import Wax.GeneratedEncode
import Wax.Encode
/-!
The tie by regeneration for the encoder's table of leaf tokens without a payload (separator, `?`,
`*`, `$`, rooted and unrooted tree wildcards).  `tools/enctables.py` reads the arms of the
`match (position, leaf)` of `encode` out of `/repo/src/encode.rs` and INTERPRETS their bodies
(`pattern.push_str`, `grouping.push_str`, `encode_intermediate_tree`, the conditions on the
inherited superposition and on `has_root`, the macros `sepexpr!` / `nsepexpr!` and
`Grouping::push_with`, all read from the source) on every point of the domain: 6 leaves x 4
positions x 5 inherited superpositions x 2 groupings = 240 texts.  Here: the model's `encodeTok`,
printed, is that text on every row, and the rows cover the whole domain.
-/
namespace Wax
open Generated (EPos ELeaf)

def ofEPos : EPos → Pos
  | .first => .first | .middle => .middle | .last => .last | .only => .only

def ofELeaf : ELeaf → Tok
  | .sep => .sep ⟨0, 0⟩
  | .one => .one ⟨0, 0⟩
  | .zomEager => .zom ⟨0, 0⟩ false
  | .zomLazy => .zom ⟨0, 0⟩ true
  | .treeRooted => .tree ⟨0, 0⟩ true
  | .treeUnrooted => .tree ⟨0, 0⟩ false

/-- one row holds: the model prints what the source pushes -/
def rowOk (r : ELeaf × EPos × Option EPos × Bool × String) : Bool :=
  (encodeTok r.2.2.2.1 (r.2.2.1.map ofEPos) (ofEPos r.2.1) (ofELeaf r.1)).print == r.2.2.2.2

def allLeaves : List ELeaf := [.sep, .one, .zomEager, .zomLazy, .treeRooted, .treeUnrooted]
def allEPos : List EPos := [.first, .middle, .last, .only]

/-- **the encoder's leaf table read from encode.rs is what the model prints**, on all 240 rows, and
    every point of the domain has a row -/
theorem leaf_encodings_are_source :
    Generated.leafEncodings.all rowOk = true ∧
    (allLeaves.all fun l => allEPos.all fun p => (none :: allEPos.map some).all fun s => [true, false].all fun c =>
      Generated.leafEncodings.any fun r => r.1 == l && r.2.1 == p && r.2.2.1 == s && r.2.2.2.1 == c) = true := by
  constructor <;> decide +kernel

theorem mem_allLeaves (l : ELeaf) : l ∈ allLeaves := by cases l <;> simp [allLeaves]
theorem mem_allEPos (p : EPos) : p ∈ allEPos := by cases p <;> simp [allEPos]

/-- the spans of a leaf do not matter to the encoder -/
theorem encodeTok_leaf_span (c : Bool) (sup : Option Pos) (p : Pos) :
    (∀ sp, encodeTok c sup p (.sep sp) = encodeTok c sup p (.sep ⟨0, 0⟩)) ∧
    (∀ sp, encodeTok c sup p (.one sp) = encodeTok c sup p (.one ⟨0, 0⟩)) ∧
    (∀ sp l, encodeTok c sup p (.zom sp l) = encodeTok c sup p (.zom ⟨0, 0⟩ l)) ∧
    (∀ sp r, encodeTok c sup p (.tree sp r) = encodeTok c sup p (.tree ⟨0, 0⟩ r)) := by
  refine ⟨fun _ => ?_, fun _ => ?_, fun _ l => ?_, fun _ _ => ?_⟩
  · simp [encodeTok]
  · simp [encodeTok]
  · cases l <;> simp [encodeTok]
  · simp [encodeTok]

/-- for every leaf kind, position, inherited superposition and grouping there is a row of the table
    read from the source, and the model prints its text -/
theorem leaf_encoding_lookup (l : ELeaf) (p : EPos) (s : Option EPos) (c : Bool) :
    ∃ txt, (l, p, s, c, txt) ∈ Generated.leafEncodings ∧
      (encodeTok c (s.map ofEPos) (ofEPos p) (ofELeaf l)).print = txt := by
  have h := leaf_encodings_are_source
  have hs : s ∈ (none :: allEPos.map some) := by
    cases s with
    | none => simp
    | some x => simp [mem_allEPos x]
  have hc : c ∈ [true, false] := by cases c <;> simp
  have h2 := List.all_eq_true.mp h.2 l (mem_allLeaves l)
  have h3 := List.all_eq_true.mp h2 p (mem_allEPos p)
  have h4 := List.all_eq_true.mp h3 s hs
  have h5 := List.all_eq_true.mp h4 c hc
  obtain ⟨r, hr, hk⟩ := List.any_eq_true.mp h5
  simp only [Bool.and_eq_true, beq_iff_eq] at hk
  obtain ⟨⟨⟨h1, h2'⟩, h3'⟩, h4'⟩ := hk
  have hok := List.all_eq_true.mp h.1 r hr
  obtain ⟨a, b, c', d, e⟩ := r
  simp only at h1 h2' h3' h4'
  subst h1 h2' h3' h4'
  exact ⟨e, hr, by simpa [rowOk] using hok⟩

/-- **the Literal arm**: for every text and either casing the model prints what the source pushes
    before the escaped text, the escaped text, and what the source pushes after it (that `escStr` is
    `regex::escape` is the correspondence's to establish, on every generated literal) -/
theorem literal_encoding_is_source (c : Bool) (sup : Option Pos) (p : Pos) (sp : Span) (s : Str) (ci : Bool) :
    (encodeTok c sup p (.lit sp s ci)).print = Generated.literalBefore ci ++ escStr s ++ Generated.literalAfter ci := by
  cases ci <;> simp [encodeTok, Re.print, Generated.literalBefore, Generated.literalAfter]

end Wax
