import Wax.Proofs.Text
/-!
C11 (existence): the invariant text a pattern reports is a path the pattern matches, provided
classes are what the parser produces with no separator among their characters (the crate's
`a[/]` reports `Invariant("a/")` and matches nothing: finding) and case folding is reflexive.
-/
namespace Wax

def archGood : Arch → Bool
  | .chr c => c != '/'
  | .rng a _ => a != '/'

mutual
  /-- parser shape plus separator-free, non-empty classes -/
  def wellT : Tok → Bool
    | .cls _ _ items => !items.isEmpty && items.all archGood
    | .alt _ bs => !bs.isEmpty && wellL bs
    | .cat _ ts => wellL ts
    | .rep _ b _ _ => wellT b
    | _ => true
  def wellL : List Tok → Bool
    | [] => true
    | t :: ts => wellT t && wellL ts
end

def CeqRefl (σ : Sem) : Prop := ∀ a, σ.ceq a a = true

theorem litEq_refl {σ : Sem} (hσ : CeqRefl σ) (ci : Bool) : ∀ (s : Str), litEq σ ci s s = true
  | [] => rfl
  | a :: s => by
    simp only [litEq, Bool.and_eq_true]
    refine ⟨?_, litEq_refl hσ ci s⟩
    cases ci <;> simp [hσ a]

theorem archText_witness {a : Arch} {fs : List Frag} (hg : archGood a = true)
    (h : archText a = .inv fs) : ∃ ch, fragsToStr fs = [ch] ∧ ch ≠ '/' ∧ Arch.mem ch a = true := by
  cases a with
  | chr c =>
    simp only [archText, TVar.inv.injEq] at h; subst h
    exact ⟨c, by simp [fragsToStr, Frag.text], by simpa [archGood] using hg, by simp [Arch.mem]⟩
  | rng x y =>
    simp only [archText] at h
    by_cases hxy : x = y
    · subst hxy
      simp only [ne_eq, not_true_eq_false, ↓reduceIte, TVar.inv.injEq] at h; subst h
      exact ⟨x, by simp [fragsToStr, Frag.text], by simpa [archGood] using hg, by simp [Arch.mem]⟩
    · simp [hxy] at h

theorem classText_head {a : Arch} {rest : List Arch} {fs : List Frag}
    (h : classText (a :: rest) = .inv fs) : archText a = .inv fs := by
  cases rest with
  | nil => simpa [classText] using h
  | cons b bs => simp only [classText] at h; exact (disj_inv h).1

theorem textAlt_head {κ : Casing} {b : Tok} {bs : List Tok} {fs : List Frag}
    (h : textAlt κ (b :: bs) = .inv fs) : textTok κ b = .inv fs := by
  cases bs with
  | nil => simpa [textAlt] using h
  | cons b2 bs => simp only [textAlt] at h; exact (disj_inv h).1

theorem srep_repeat {σ : Sem} {body : List Tok} {s : Str} (hb : ∀ c, SMs σ c body s) :
    ∀ (n : Nat) (c : Ctx), SRep σ c body n (repeatStr s n)
  | 0, _ => .zero
  | 1, c => by simpa [repeatStr] using SRep.one (hb c)
  | n + 2, c => by
    have := SRep.more (c := c) (hb ⟨c.first, false⟩) (srep_repeat hb (n + 1) ⟨false, c.last⟩)
    simpa [repeatStr] using this

mutual
  theorem textm_tok (σ : Sem) (κ : Casing) (hσ : CeqRefl σ) : ∀ (t : Tok) (fs : List Frag),
      wellT t = true → textTok κ t = .inv fs → ∀ (c : Ctx), SM σ c t (fragsToStr fs)
    | .lit _ s ci, fs, _, h, c => by
      simp only [textTok] at h
      by_cases hc : (ci && s.any κ.hasCasing) = true
      · simp [hc] at h
      · have hc' : (ci && s.any κ.hasCasing) = false := by simpa using hc
        simp only [hc', Bool.false_eq_true, ↓reduceIte, TVar.inv.injEq] at h
        subst h
        simp only [fragsToStr, Frag.text, List.append_nil]
        exact .lit (litEq_refl hσ ci s)
    | .sep _, fs, _, h, c => by
      simp only [textTok, TVar.inv.injEq] at h; subst h
      exact .sep
    | .cls _ neg items, fs, hw, h, c => by
      simp only [textTok] at h
      simp only [wellT, Bool.and_eq_true, List.all_eq_true] at hw
      cases neg with
      | true => simp at h
      | false =>
        simp only [Bool.false_eq_true, ↓reduceIte] at h
        cases items with
        | nil => simp at hw
        | cons a rest =>
          obtain ⟨ch, hfs, hne, hmem⟩ := archText_witness (hw.2 a (by simp)) (classText_head h)
          rw [hfs]
          refine .cls ?_
          simp [classHolds, hne, hmem]
    | .one _, fs, _, h, _ => by simp [textTok] at h
    | .zom .., fs, _, h, _ => by simp [textTok] at h
    | .tree .., fs, _, h, _ => by simp [textTok] at h
    | .alt _ bs, fs, hw, h, c => by
      simp only [textTok] at h
      simp only [wellT, Bool.and_eq_true] at hw
      cases bs with
      | nil => simp at hw
      | cons b bs =>
        simp only [wellL, Bool.and_eq_true] at hw
        exact .alt (List.mem_cons_self ..)
          ((sms_conc_iff _).mpr (textm_tok σ κ hσ b fs hw.2.1 (textAlt_head h) c))
    | .cat _ ts, fs, hw, h, c => by
      simp only [textTok] at h
      simp only [wellT] at hw
      exact .cat (textm_cat σ κ hσ ts fs hw h c)
    | .rep _ body lo hi, fs, hw, h, c => by
      simp only [textTok] at h
      simp only [wellT] at hw
      cases hr : NRange.fromClosedOpen lo hi with
      | var v =>
        rw [hr] at h
        cases hb : textTok κ body <;> rw [hb] at h <;> cases v <;> simp [TVar.prod] at h
      | inv k =>
        rw [hr] at h
        obtain ⟨hhi, hk⟩ := fromClosedOpen_inv hr
        subst hk
        have hbounds : ∀ h', hi = some h' → k ≤ h' := by
          intro h' e; rw [hhi] at e; injection e with e; omega
        cases hb : textTok κ body with
        | inv a =>
          rw [hb] at h
          simp only [TVar.prod, TVar.inv.injEq] at h
          subst h
          rw [fragsToStr_repeat]
          refine .rep (Nat.le_refl _) hbounds ?_
          exact srep_repeat (fun c' => (sms_conc_iff _).mpr (textm_tok σ κ hσ body a hw hb c')) k c
        | unb =>
          rw [hb] at h
          simp only [TVar.prod] at h
          by_cases h0 : k = 0
          · subst h0
            simp only [beq_self_eq_true, ↓reduceIte, TVar.inv.injEq] at h
            subst h
            exact .rep (Nat.le_refl _) hbounds .zero
          · have : (k == 0) = false := by simpa using h0
            simp [this] at h
        | bnd =>
          rw [hb] at h
          simp only [TVar.prod] at h
          by_cases h0 : k = 0
          · subst h0
            simp only [beq_self_eq_true, ↓reduceIte, TVar.inv.injEq] at h
            subst h
            exact .rep (Nat.le_refl _) hbounds .zero
          · have : (k == 0) = false := by simpa using h0
            simp [this] at h
  theorem textm_cat (σ : Sem) (κ : Casing) (hσ : CeqRefl σ) : ∀ (ts : List Tok) (fs : List Frag),
      wellL ts = true → textCat κ ts = .inv fs → ∀ (c : Ctx), SMs σ c ts (fragsToStr fs)
    | [], fs, _, h, c => by
      simp only [textCat, TVar.inv.injEq] at h; subst h
      exact .nil
    | [t], fs, hw, h, c => by
      simp only [textCat] at h
      simp only [wellL, Bool.and_eq_true] at hw
      exact sms_singleton.mpr (textm_tok σ κ hσ t fs hw.1 h c)
    | t :: t2 :: ts, fs, hw, h, c => by
      simp only [textCat] at h
      simp only [wellL, Bool.and_eq_true] at hw
      obtain ⟨a, b, ha, hb, rfl⟩ := conj_inv h
      rw [fragsToStr_fragConj]
      exact .cons (textm_tok σ κ hσ t a hw.1 ha _)
        (textm_cat σ κ hσ (t2 :: ts) b (by simp [wellL, hw.2.1, hw.2.2]) hb _)
end

/-- **C11 (existence)**: the pattern matches its invariant text -/
theorem text_matches (σ : Sem) (κ : Casing) (hσ : CeqRefl σ) (t : Tok) (fs : List Frag)
    (hw : wellT t = true) (h : textTok κ t = .inv fs) : Spec.Matches σ t (fragsToStr fs) :=
  (sms_conc_iff t).mpr (textm_tok σ κ hσ t fs hw h ⟨true, true⟩)

/-- **C11**: invariant text is the one and only path the pattern matches -/
theorem text_exact (σ : Sem) (κ : Casing) (hσ : CeqRefl σ) (hκ : CasingOk σ κ) (t : Tok)
    (fs : List Frag) (hw : wellT t = true) (h : textTok κ t = .inv fs) (w : Str) :
    Spec.Matches σ t w ↔ w = fragsToStr fs :=
  ⟨text_unique σ κ hκ t fs h w, fun e => e ▸ text_matches σ κ hσ t fs hw h⟩

end Wax
