import Wax.Proofs.PriorityRuns
/-!
# What the priority order means for the patterns wax emits

Consequences of `exec_least` / `least_unique` (`Wax/Proofs/Priority.lean`, `PriorityTotal.lean`) for
the first element `X` of a top-level concatenation `X rest…` (`encodeTop` always produces a
concatenation):

* `zom_greedy_longest`: `X = ([^/]*)` (the token `*`): the capture is the LONGEST separator-free
  prefix after which the rest of the pattern matches the rest of the text;
* `zom_lazy_shortest`: `X = ([^/]*?)` (the token `$`): the SHORTEST;
* `alt_first_branch_wins`: `X = (b₀|b₁|…)` (the token `{…}`): the reported branch is the first one that
  leads to an overall match (no earlier branch has a match after which the rest matches);
* `siteIntermediate_zero_no_capture`, `siteFirstUnrooted_zero_no_capture`: at a tree-wildcard site
  the alternative without a group comes first, so when zero components is possible the group does not
  participate; `tree_zero_components_no_capture` of `Wax/Proofs/CapTile.lean` (there: by evaluation)
  follows.

The tool is `LeastC.seq_inv`: the order is lexicographic, so the first component of the least tree
of a concatenation is the least first component that can be completed, and the second component is
the least tree of the rest from where the first one stopped.
-/
namespace Wax

/-! ### least candidates of a concatenation -/

/-- `t` is the least guard-respecting tree of `A` that consumes all of `w`, from the visited set `v` -/
def LeastC (A : PSet) (w : Str) (v : Vis) (t : PT) : Prop :=
  Cand A w v t [] ∧ ∀ t', Cand A w v t' [] → ¬ Prefer t' t

theorem isLeast_iff {σ : Sem} {r : Re} {s : Str} {t : PT} : IsLeast σ r s t ↔ LeastC (r.PT σ [] 0) s [] t :=
  ⟨fun h => ⟨accepts_cand.mp h.1, fun t' ht' => h.2 t' (accepts_cand.mpr ht')⟩,
    fun h => ⟨accepts_cand.mpr h.1, fun t' ht' => h.2 t' (accepts_cand.mp ht')⟩⟩

/-- **lexicographic order, read backwards** -/
theorem LeastC.seq_inv {A B : PSet} {w : Str} {v : Vis} {t : PT} (hA : Tot A) (h : LeastC (SeqP A B) w v t) :
    ∃ a b, t = .seq a b ∧ Cand A w v a b.word ∧ LeastC B b.word (after v a.flat) b ∧
      ∀ a' b' y, Cand A w v a' y → Cand B y (after v a'.flat) b' [] → a = a' ∨ Prefer a a' := by
  obtain ⟨⟨⟨a, b, rfl, ha, hb⟩, hs, hok⟩, hmin⟩ := h
  simp only [PT.word, List.append_nil] at hs
  simp only [PT.flat, runOK_append] at hok
  have ca : Cand A w v a b.word := ⟨ha, hs, hok.1⟩
  refine ⟨a, b, rfl, ca, ⟨⟨hb, by simp, hok.2⟩, ?_⟩, ?_⟩
  · intro b' cb' hp
    refine hmin (.seq a b') ⟨⟨a, b', rfl, ha, cb'.mem⟩, ?_, ?_⟩ (.seqR hp)
    · have := cb'.split
      simp only [List.append_nil] at this
      simp only [PT.word, List.append_nil, ← this]
      exact hs
    · simp only [PT.flat, runOK_append]
      exact ⟨hok.1, cb'.ok⟩
  · intro a' b' y ca' cb'
    have hy : y = b'.word := by simpa using cb'.split
    subst hy
    have ct' : Cand (SeqP A B) w v (.seq a' b') [] := by
      refine ⟨⟨a', b', rfl, ca'.mem, cb'.mem⟩, ?_, ?_⟩
      · simp only [PT.word, List.append_nil]
        exact ca'.split
      · simp only [PT.flat, runOK_append]
        exact ⟨ca'.ok, cb'.ok⟩
    rcases hA w a a' ha ca'.mem ⟨_, hs.symm⟩ ⟨_, ca'.split.symm⟩ with e | hp | hp
    · exact Or.inl e
    · exact Or.inr hp
    · exact (hmin _ ct' (.seqL hp)).elim

/-- a concatenation does not touch the slots below its base -/
theorem ptCat_frame {σ : Sem} {l : List Re} {id : Sid} {j n : Nat} {b : PT} (h : Re.PTCat σ l id j n b)
    (c : Caps) {i : Nat} (hi : i < n) : (b.caps c)[i]? = c[i]? :=
  (runsAll_touch (ptCat_runs σ l id j n b c h)).out i (Or.inl hi)

theorem initCaps_get {r : Re} {i : Nat} (h : i < r.ncaps) : r.initCaps[i]? = some none := by
  simp [Re.initCaps, h]

/-- the states of a first element are foreign to the rest of a top-level concatenation -/
theorem foreign_head {σ : Sem} {X : Re} {n : Nat} {a : PT} (ha : X.PT σ [0] n a) :
    ∀ x ∈ after [] a.flat, ∀ i, 1 ≤ i → ¬ (i :: []) <:+ x := by
  intro x hx i hi hs
  rcases mem_after _ _ _ hx with h | h
  · cases h
  · have := own_inj (pt_own ha h) hs
    omega

/-- **the first element of a top-level concatenation**: its tree in the least tree is the least
    tree of that element after which the rest can match -/
theorem least_head {σ : Sem} {X : Re} {rest : List Re} {s : Str} {t : PT}
    (h : IsLeast σ (.cat (X :: rest)) s t) :
    ∃ a b, t = .seq a b ∧ X.PT σ [0] 0 a ∧ RunOK [] a.flat ∧ Re.PTCat σ rest [] 1 X.ncaps b ∧
      s = a.word ++ b.word ∧
      ∀ a' y, X.PT σ [0] 0 a' → RunOK [] a'.flat → s = a'.word ++ y → MatchesAll σ rest y →
        a = a' ∨ Prefer a a' := by
  have h' := isLeast_iff.mp h
  simp only [Re.PT, Re.PTCat, Nat.zero_add] at h'
  obtain ⟨a, b, rfl, ca, lb, hmin⟩ := LeastC.seq_inv (pt_total σ X [0] 0) h'
  refine ⟨a, b, rfl, ca.mem, ca.ok, lb.1.mem, ca.split, ?_⟩
  intro a' y ha' hok' hs' hy
  obtain ⟨b', hb', hw', hokb'⟩ := ptCat_exists hy [] 1 X.ncaps (after [] a'.flat) (foreign_head ha')
  exact hmin a' b' y ⟨ha', hs', hok'⟩ ⟨hb', by rw [hw', List.append_nil], hokb'⟩

/-! ### (a) `*` and `$` -/

/-- the tree of `[^/]*` / `[^/]*?` that consumes `u`: one round per character -/
def zomTree (lazy : Bool) (U : Sid) : Str → PT
  | [] => .st U (leaveT lazy)
  | a :: u => .st U (moreT lazy (.seq (.chars [a]) (zomTree lazy U u)))

theorem zomTree_word (lazy : Bool) (U : Sid) : ∀ (u : Str), (zomTree lazy U u).word = u
  | [] => by simp only [zomTree, PT.word, word_leaveT]
  | a :: u => by simp only [zomTree, PT.word, word_moreT, zomTree_word lazy U u, List.singleton_append]

theorem zomTree_caps (lazy : Bool) (U : Sid) : ∀ (u : Str) (c : Caps), (zomTree lazy U u).caps c = c
  | [], c => by simp only [zomTree, PT.caps, caps_leaveT]
  | a :: u, c => by simp only [zomTree, PT.caps, caps_moreT, zomTree_caps lazy U u]

theorem zomTree_ok (lazy : Bool) (U : Sid) : ∀ (u : Str) (v : Vis), U ∉ v → RunOK v (zomTree lazy U u).flat
  | [], v, h => by
    simp only [zomTree, PT.flat, flat_leaveT]
    exact ⟨h, trivial⟩
  | a :: u, v, h => by
    simp only [zomTree, PT.flat, flat_moreT]
    exact ⟨h, zomTree_ok lazy U u [] (by simp)⟩

/-- greedy: the longer tree is tried first -/
theorem zomTree_prefer_greedy (U : Sid) : ∀ (u : Str) (b : Char) (x : Str),
    Prefer (zomTree false U (u ++ b :: x)) (zomTree false U u)
  | [], _, _ => .st .inlr
  | _ :: u, b, x => .st (.inl (.seqR (zomTree_prefer_greedy U u b x)))

/-- lazy: the shorter tree is tried first -/
theorem zomTree_prefer_lazy (U : Sid) : ∀ (u : Str) (b : Char) (x : Str),
    Prefer (zomTree true U u) (zomTree true U (u ++ b :: x))
  | [], _, _ => .st .inlr
  | _ :: u, b, x => .st (.inr (.seqR (zomTree_prefer_lazy U u b x)))

theorem zom_lup_iff {σ : Sem} {p : CharPred} {lazy : Bool} {U : Sid} {t : PT} :
    LUP lazy (fun t => ∃ a, p.holds σ a = true ∧ t = .chars [a]) U t ↔
      ∃ u, (∀ a ∈ u, p.holds σ a = true) ∧ t = zomTree lazy U u := by
  constructor
  · intro h
    induction h with
    | leave => exact ⟨[], by simp, rfl⟩
    | more ha _ ih =>
      obtain ⟨x, hx, rfl⟩ := ha
      obtain ⟨u, hu, rfl⟩ := ih
      refine ⟨x :: u, ?_, rfl⟩
      intro a ha
      rcases List.mem_cons.mp ha with rfl | ha
      · exact hx
      · exact hu a ha
  · rintro ⟨u, hu, rfl⟩
    induction u with
    | nil => exact .leave
    | cons a u ih =>
      exact .more ⟨a, hu a (List.mem_cons_self ..), rfl⟩ (ih (fun x hx => hu x (List.mem_cons_of_mem _ hx)))

theorem nsep_nonNull : (Re.chr CharPred.nsep).nonNull = true := by decide

theorem nsep_holds_iff {σ : Sem} {u : Str} : (∀ a ∈ u, CharPred.nsep.holds σ a = true) ↔ SepFree u := by
  simp [CharPred.holds, SepFree]

/-- the trees of the token `*` (`lazy = false`) / `$` (`lazy = true`) -/
theorem zom_pt_iff {σ : Sem} {lazy : Bool} {id : Sid} {n : Nat} {t : PT} :
    (Re.cap (if lazy then .lazyStar (.chr .nsep) else .star (.chr .nsep))).PT σ id n t ↔
      ∃ u, SepFree u ∧ t = .cap n (zomTree lazy (0 :: 0 :: id) u) := by
  cases lazy with
  | true =>
    simp only [if_true, Re.PT, CapP, StarP, nsep_nonNull, Nat.mul_zero]
    constructor
    · rintro ⟨a, rfl, ha⟩
      obtain ⟨u, hu, rfl⟩ := zom_lup_iff.mp ha
      exact ⟨u, nsep_holds_iff.mp hu, rfl⟩
    · rintro ⟨u, hu, rfl⟩
      exact ⟨_, rfl, zom_lup_iff.mpr ⟨u, nsep_holds_iff.mpr hu, rfl⟩⟩
  | false =>
    simp only [Bool.false_eq_true, if_false, Re.PT, CapP, StarP, nsep_nonNull, if_true, Nat.mul_zero]
    constructor
    · rintro ⟨a, rfl, ha⟩
      obtain ⟨u, hu, rfl⟩ := zom_lup_iff.mp ha
      exact ⟨u, nsep_holds_iff.mp hu, rfl⟩
    · rintro ⟨u, hu, rfl⟩
      exact ⟨_, rfl, zom_lup_iff.mpr ⟨u, nsep_holds_iff.mpr hu, rfl⟩⟩

theorem split_longer {u u' y y' : Str} (h : u ++ y = u' ++ y') (hl : u.length < u'.length) :
    ∃ b x, u' = u ++ b :: x := by
  have hp : u <+: u' := List.prefix_of_prefix_length_le ⟨y, rfl⟩ ⟨y', h.symm⟩ (Nat.le_of_lt hl)
  obtain ⟨z, rfl⟩ := hp
  cases z with
  | nil => simp at hl
  | cons b x => exact ⟨b, x, rfl⟩

theorem zom_caps_slot {σ : Sem} {X : Re} {rest : List Re} {b : PT} {u : Str} (hX : X.ncaps = 1)
    (hb : Re.PTCat σ rest [] 1 X.ncaps b) :
    (b.caps (((Re.cat (X :: rest)).initCaps).set 0 (some u)))[0]? = some (some u) := by
  rw [ptCat_frame hb _ (by omega)]
  exact getElem?_set_self_lt (by simp only [Re.initCaps, Re.ncaps, Re.ncapsList, hX, List.length_replicate]; omega)

/-- common part of the two theorems on `*` / `$` -/
theorem zom_least {σ : Sem} {lazy : Bool} {rest : List Re} {s : Str} {caps : Caps}
    (h : (Re.cat (.cap (if lazy then .lazyStar (.chr .nsep) else .star (.chr .nsep)) :: rest)).exec σ s =
      some (some s :: caps)) :
    ∃ u y, s = u ++ y ∧ caps[0]? = some (some u) ∧ SepFree u ∧ MatchesAll σ rest y ∧
      ∀ u' y', s = u' ++ y' → SepFree u' → MatchesAll σ rest y' →
        u = u' ∨ Prefer (zomTree lazy [0, 0, 0] u) (zomTree lazy [0, 0, 0] u') := by
  obtain ⟨t, ht, rfl⟩ := exec_least h
  obtain ⟨a, b, rfl, ha, _, hb, hs, hmin⟩ := least_head ht
  obtain ⟨u, hu, rfl⟩ := zom_pt_iff.mp ha
  have hn : (Re.cap (if lazy then Re.lazyStar (.chr .nsep) else Re.star (.chr .nsep))).ncaps = 1 := by
    cases lazy <;> rfl
  refine ⟨u, b.word, ?_, ?_, hu, ptCat_matches hb, ?_⟩
  · simpa only [PT.word, zomTree_word] using hs
  · simp only [PT.caps, zomTree_caps, zomTree_word]
    exact zom_caps_slot hn hb
  · intro u' y' hs' hu' hy'
    have hc := hmin (.cap 0 (zomTree lazy [0, 0, 0] u')) y' (zom_pt_iff.mpr ⟨u', hu', rfl⟩)
      (zomTree_ok lazy _ u' [] (by simp)) (by simpa only [PT.word, zomTree_word] using hs') hy'
    rcases hc with e | hp
    · left
      have := congrArg PT.word e
      simpa only [PT.word, zomTree_word] using this
    · right
      cases hp with
      | cap hp => exact hp

/-- **(a) greedy**: with `([^/]*)` in front, the capture is the longest separator-free prefix after
    which the rest of the pattern matches the rest of the text -/
theorem zom_greedy_longest {σ : Sem} {rest : List Re} {s : Str} {caps : Caps}
    (h : (Re.cat (.cap (.star (.chr .nsep)) :: rest)).exec σ s = some (some s :: caps)) :
    ∃ u y, s = u ++ y ∧ caps[0]? = some (some u) ∧ SepFree u ∧ MatchesAll σ rest y ∧
      ∀ u' y', s = u' ++ y' → SepFree u' → MatchesAll σ rest y' → u'.length ≤ u.length := by
  obtain ⟨u, y, hs, hc, hu, hy, hmin⟩ := zom_least (lazy := false) h
  refine ⟨u, y, hs, hc, hu, hy, ?_⟩
  intro u' y' hs' hu' hy'
  apply Nat.le_of_not_lt
  intro hl
  obtain ⟨b, x, rfl⟩ := split_longer (hs.symm.trans hs') hl
  rcases hmin _ y' hs' hu' hy' with e | hp
  · have := congrArg List.length e
    simp at this
  · exact hp.asymm (zomTree_prefer_greedy _ u b x)

/-- **(a) lazy**: with `([^/]*?)` in front, the shortest -/
theorem zom_lazy_shortest {σ : Sem} {rest : List Re} {s : Str} {caps : Caps}
    (h : (Re.cat (.cap (.lazyStar (.chr .nsep)) :: rest)).exec σ s = some (some s :: caps)) :
    ∃ u y, s = u ++ y ∧ caps[0]? = some (some u) ∧ SepFree u ∧ MatchesAll σ rest y ∧
      ∀ u' y', s = u' ++ y' → SepFree u' → MatchesAll σ rest y' → u.length ≤ u'.length := by
  obtain ⟨u, y, hs, hc, hu, hy, hmin⟩ := zom_least (lazy := true) h
  refine ⟨u, y, hs, hc, hu, hy, ?_⟩
  intro u' y' hs' hu' hy'
  apply Nat.le_of_not_lt
  intro hl
  obtain ⟨b, x, rfl⟩ := split_longer (hs'.symm.trans hs) hl
  rcases hmin _ y' hs' hu' hy' with e | hp
  · have := congrArg List.length e
    simp at this
  · exact hp.asymm (zomTree_prefer_lazy _ u' b x)

/-! ### (b) alternatives -/

/-- the tree of branch `i` of an alternation: `i` times "not this one", then "this one" -/
def altTree : Nat → PT → PT
  | 0, a => .inl a
  | i + 1, a => .inr (altTree i a)

theorem altTree_word : ∀ (i : Nat) (a : PT), (altTree i a).word = a.word
  | 0, _ => rfl
  | i + 1, a => altTree_word i a

theorem altTree_flat : ∀ (i : Nat) (a : PT), (altTree i a).flat = a.flat
  | 0, _ => rfl
  | i + 1, a => altTree_flat i a

/-- **at an alternation the earlier branch is tried first** -/
theorem altTree_prefer : ∀ (i j : Nat) (a b : PT), i < j → Prefer (altTree i a) (altTree j b)
  | 0, j + 1, _, _, _ => .inlr
  | i + 1, j + 1, a, b, h => .inr (altTree_prefer i j a b (by omega))

theorem altTree_inj : ∀ (i j : Nat) (a b : PT), altTree i a = altTree j b → i = j
  | 0, 0, _, _, _ => rfl
  | 0, j + 1, _, _, h => by simp [altTree] at h
  | i + 1, 0, _, _, h => by simp [altTree] at h
  | i + 1, j + 1, a, b, h => by
    simp only [altTree, PT.inr.injEq] at h
    rw [altTree_inj i j a b h]

/-- the trees of the branches of an alternation -/
theorem ptAlt_iff {σ : Sem} : ∀ (l : List Re) (id : Sid) (j n : Nat) (t : PT),
    Re.PTAlt σ l id j n t ↔
      ∃ i A a, l[i]? = some A ∧ A.PT σ ((j + i) :: id) (n + Re.ncapsList (l.take i)) a ∧ t = altTree i a
  | [], id, j, n, t => by
    simp only [Re.PTAlt, NoneP, false_iff]
    rintro ⟨i, A, a, h, _⟩
    simp at h
  | r :: rs, id, j, n, t => by
    simp only [Re.PTAlt, OrP]
    constructor
    · rintro (⟨a, rfl, ha⟩ | ⟨b, rfl, hb⟩)
      · exact ⟨0, r, a, rfl, by simpa [Re.ncapsList] using ha, rfl⟩
      · obtain ⟨i, A, a, hi, ha, rfl⟩ := (ptAlt_iff rs id (j + 1) (n + r.ncaps) b).mp hb
        refine ⟨i + 1, A, a, by simpa using hi, ?_, rfl⟩
        have e1 : j + (i + 1) = j + 1 + i := by omega
        simp only [List.take_succ_cons, Re.ncapsList, e1, ← Nat.add_assoc]
        exact ha
    · rintro ⟨i, A, a, hi, ha, rfl⟩
      cases i with
      | zero =>
        simp only [List.getElem?_cons_zero, Option.some.injEq] at hi
        subst hi
        exact Or.inl ⟨a, rfl, by simpa [Re.ncapsList] using ha⟩
      | succ i =>
        refine Or.inr ⟨altTree i a, rfl, (ptAlt_iff rs id (j + 1) (n + r.ncaps) _).mpr ⟨i, A, a, by simpa using hi, ?_, rfl⟩⟩
        have e1 : j + (i + 1) = j + 1 + i := by omega
        simp only [List.take_succ_cons, Re.ncapsList, e1, ← Nat.add_assoc] at ha
        exact ha

/-- the union state of an alternation with two or more branches -/
def altWrap (l : List Re) (S : Sid) (y : PT) : PT :=
  match l with
  | _ :: _ :: _ => .st S y
  | _ => y

def altVis (l : List Re) (S : Sid) : Vis :=
  match l with
  | _ :: _ :: _ => [S]
  | _ => []

theorem alt_pt_iff {σ : Sem} {l : List Re} {id : Sid} {n : Nat} {t : PT} :
    (Re.alt l).PT σ id n t ↔ ∃ y, Re.PTAlt σ l id 1 n y ∧ t = altWrap l (0 :: id) y := by
  rcases l with _ | ⟨a, _ | ⟨b, l⟩⟩
  · simp only [Re.PT, altWrap]
    exact ⟨fun h => ⟨t, h, rfl⟩, fun ⟨y, h, e⟩ => e ▸ h⟩
  · simp only [Re.PT, altWrap]
    exact ⟨fun h => ⟨t, h, rfl⟩, fun ⟨y, h, e⟩ => e ▸ h⟩
  · simp only [Re.PT, altWrap, StP]
    exact ⟨fun ⟨y, e, h⟩ => ⟨y, h, e⟩, fun ⟨y, h, e⟩ => ⟨y, e, h⟩⟩

theorem altWrap_word (l : List Re) (S : Sid) (y : PT) : (altWrap l S y).word = y.word := by
  rcases l with _ | ⟨a, _ | ⟨b, l⟩⟩ <;> rfl

theorem altWrap_ok (l : List Re) (S : Sid) (y : PT) : RunOK [] (altWrap l S y).flat ↔ RunOK (altVis l S) y.flat := by
  rcases l with _ | ⟨a, _ | ⟨b, l⟩⟩
  · exact Iff.rfl
  · exact Iff.rfl
  · simp only [altWrap, altVis, PT.flat, RunOK, List.not_mem_nil, not_false_eq_true, true_and]

theorem altWrap_prefer (l : List Re) (S : Sid) {y y' : PT} (h : Prefer y y') :
    Prefer (altWrap l S y) (altWrap l S y') := by
  rcases l with _ | ⟨a, _ | ⟨b, l⟩⟩
  · exact h
  · exact h
  · exact .st h

theorem altWrap_inj (l : List Re) (S : Sid) {y y' : PT} (h : altWrap l S y = altWrap l S y') : y = y' := by
  rcases l with _ | ⟨a, _ | ⟨b, l⟩⟩
  · exact h
  · exact h
  · simpa [altWrap] using h

theorem altVis_mem {l : List Re} {S x : Sid} (h : x ∈ altVis l S) : x = S := by
  rcases l with _ | ⟨a, _ | ⟨b, l⟩⟩
  · cases h
  · cases h
  · simpa [altVis] using h

theorem cap_pt_iff {σ : Sem} {r : Re} {id : Sid} {n : Nat} {t : PT} :
    (Re.cap r).PT σ id n t ↔ ∃ a, t = .cap n a ∧ r.PT σ (0 :: id) (n + 1) a := by
  simp only [Re.PT, CapP]

/-- the slot of a group in front: the text of its tree -/
theorem head_cap_slot {σ : Sem} {r0 : Re} {rest : List Re} {a b : PT} (ha : (Re.cap r0).PT σ [0] 0 a)
    (hb : Re.PTCat σ rest [] 1 (Re.cap r0).ncaps b) :
    (b.caps (a.caps (Re.cat (.cap r0 :: rest)).initCaps))[0]? = some (some a.word) := by
  rw [ptCat_frame hb _ (by simp [Re.ncaps])]
  exact runs_cap_slot (pt_runs σ (.cap r0) [0] 0 a _ ha)
    (by simp only [Re.initCaps, Re.ncaps, Re.ncapsList, List.length_replicate]; omega)

/-- **(b)**: with `(b₀|b₁|…)` in front, the branch that is reported is the first one that leads to
    an overall match: it has a match `u` after which the rest of the pattern matches, and no earlier
    branch has one -/
theorem alt_first_branch_wins {σ : Sem} {l rest : List Re} {s : Str} {caps : Caps}
    (h : (Re.cat (.cap (.alt l) :: rest)).exec σ s = some (some s :: caps)) :
    ∃ (i : Nat) (A : Re) (u y : Str), l[i]? = some A ∧ s = u ++ y ∧ caps[0]? = some (some u) ∧ Matches σ A u ∧
      MatchesAll σ rest y ∧
      ∀ j B u' y', j < i → l[j]? = some B → s = u' ++ y' → Matches σ B u' → ¬ MatchesAll σ rest y' := by
  obtain ⟨t, ht, rfl⟩ := exec_least h
  obtain ⟨a, b, rfl, ha, _, hb, hs, hmin⟩ := least_head ht
  have hslot := head_cap_slot ha hb
  obtain ⟨a1, rfl, ha1⟩ := cap_pt_iff.mp ha
  obtain ⟨y0, hy0, rfl⟩ := alt_pt_iff.mp ha1
  obtain ⟨i, A, tA, hi, htA, rfl⟩ := (ptAlt_iff l [0, 0] 1 1 y0).mp hy0
  simp only [PT.word, altWrap_word, altTree_word] at hs hslot
  refine ⟨i, A, tA.word, b.word, hi, hs, hslot, pt_matches htA, ptCat_matches hb, ?_⟩
  intro j B u' y' hji hj hs' hB hy'
  obtain ⟨tB, htB, hwB, hokB⟩ := pt_exists hB ((1 + j) :: [0, 0]) (1 + Re.ncapsList (l.take j))
    (altVis l [0, 0, 0]) (by
      intro x hx hsuf
      rw [altVis_mem hx] at hsuf
      have := own_inj hsuf (List.suffix_refl [0, 0, 0])
      omega)
  have ha' : (Re.cap (.alt l)).PT σ [0] 0 (.cap 0 (altWrap l [0, 0, 0] (altTree j tB))) :=
    cap_pt_iff.mpr ⟨_, rfl, alt_pt_iff.mpr ⟨_, (ptAlt_iff l [0, 0] 1 1 _).mpr ⟨j, B, tB, hj, htB, rfl⟩, rfl⟩⟩
  have hok' : RunOK [] (PT.cap 0 (altWrap l [0, 0, 0] (altTree j tB))).flat := by
    simp only [PT.flat]
    rw [altWrap_ok, altTree_flat]
    exact hokB
  have hpref : Prefer (PT.cap 0 (altWrap l [0, 0, 0] (altTree j tB))) (PT.cap 0 (altWrap l [0, 0, 0] (altTree i tA))) :=
    .cap (altWrap_prefer l _ (altTree_prefer j i tB tA hji))
  rcases hmin _ y' ha' hok' (by simpa only [PT.word, altWrap_word, altTree_word, hwB] using hs') hy' with e | hp
  · simp only [PT.cap.injEq, true_and] at e
    have := altTree_inj _ _ _ _ (altWrap_inj l _ e)
    omega
  · exact hp.asymm hpref

/-! ### (c) tree-wildcard sites: the alternative without a group comes first -/

theorem pt_cat_cons {σ : Sem} {r : Re} {rs : List Re} {id : Sid} {n : Nat} :
    (Re.cat (r :: rs)).PT σ id n = SeqP (r.PT σ (0 :: id) n) (Re.PTCat σ rs id 1 (n + r.ncaps)) := by
  simp only [Re.PT, Re.PTCat, Nat.zero_add]

theorem ptCat_cons {σ : Sem} {r : Re} {rs : List Re} {id : Sid} {j n : Nat} :
    Re.PTCat σ (r :: rs) id j n = SeqP (r.PT σ (j :: id) n) (Re.PTCat σ rs id (j + 1) (n + r.ncaps)) := by
  simp only [Re.PTCat]

/-- **the second element of a top-level concatenation that begins with a literal** -/
theorem least_second {σ : Sem} {p : Str} {ci : Bool} {X : Re} {rest : List Re} {s : Str} {t : PT}
    (h : IsLeast σ (.cat (.lit p ci :: X :: rest)) s t) :
    ∃ p' a b, t = .seq (.chars p') (.seq a b) ∧ litEq σ ci p p' = true ∧ X.PT σ [1] 0 a ∧
      Re.PTCat σ rest [] 2 X.ncaps b ∧ s = p' ++ (a.word ++ b.word) ∧
      ∀ a' y, X.PT σ [1] 0 a' → RunOK [] a'.flat → s = p' ++ (a'.word ++ y) → MatchesAll σ rest y →
        a = a' ∨ Prefer a a' := by
  have h' := isLeast_iff.mp h
  rw [pt_cat_cons, ptCat_cons] at h'
  obtain ⟨a0, b0, rfl, ca0, lb0, _⟩ := LeastC.seq_inv (pt_total σ _ [0] 0) h'
  obtain ⟨p', hp', rfl⟩ := ca0.mem
  have hv : after [] (PT.chars p').flat = [] := by
    simp only [PT.flat, after_map_c]
    split <;> rfl
  rw [hv] at lb0
  have hn : 0 + (Re.lit p ci).ncaps = 0 := by simp [Re.ncaps]
  rw [hn] at lb0
  obtain ⟨a, b, rfl, ca, lb, hmin⟩ := LeastC.seq_inv (pt_total σ X [1] 0) lb0
  have hb : Re.PTCat σ rest [] 2 X.ncaps b := by simpa using lb.1.mem
  refine ⟨p', a, b, rfl, hp', ca.mem, hb, ca0.split, ?_⟩
  intro a' y ha' hok' hs' hy
  have e : (a.seq b).word = a'.word ++ y := List.append_cancel_left (ca0.split.symm.trans hs')
  obtain ⟨b', hb', hw', hokb'⟩ := ptCat_exists hy [] 2 X.ncaps (after [] a'.flat) (by
    intro x hx i hi hsuf
    rcases mem_after _ _ _ hx with h | h
    · cases h
    · have := own_inj (pt_own ha' h) hsuf
      omega)
  refine hmin a' b' y ⟨ha', e, hok'⟩ ⟨?_, by rw [hw', List.append_nil], hokb'⟩
  simpa using hb'

theorem prefer_chars_false {x : PT} {u : Str} (h : Prefer x (.chars u)) : False := by cases h

/-- the trees of the alternative `[/]` of `(?:[/]|[/](.*[/]))` -/
theorem siteIntermediate_bare {σ : Sem} (id : Sid) (n : Nat) :
    (siteIntermediate true).PT σ id n (.st (0 :: 0 :: id) (.inl (.chars ['/']))) := by
  simp only [siteIntermediate, Re.PT, Re.PTAlt]
  exact ⟨_, rfl, Or.inl ⟨_, rfl, '/', rfl, rfl⟩⟩

/-- **(c)** `lit (?:[/]|[/](.*[/])) rest…` (a tree wildcard between components, `a/**/…`): when the
    rest of the pattern matches right after the separator (zero components), the group of the tree
    wildcard does not participate -/
theorem siteIntermediate_zero_no_capture {σ : Sem} {p : Str} {ci : Bool} {rest : List Re} {s : Str} {caps : Caps}
    {p' y : Str}
    (h : (Re.cat (.lit p ci :: siteIntermediate true :: rest)).exec σ s = some (some s :: caps))
    (hs : s = p' ++ '/' :: y) (hp : litEq σ ci p p' = true) (hy : MatchesAll σ rest y) :
    caps[0]? = some none := by
  obtain ⟨t, ht, rfl⟩ := exec_least h
  obtain ⟨p'', a, b, rfl, hp'', ha, hb, hs2, hmin⟩ := least_second ht
  have e : p'' = p' := prefix_eq_of_length ⟨_, hs2.symm⟩ ⟨_, hs.symm⟩
    ((litEq_len σ ci p p'' hp'').trans (litEq_len σ ci p p' hp).symm)
  subst e
  have hc := hmin _ y (siteIntermediate_bare [1] 0) (by decide) (by simpa [PT.word] using hs) hy
  have ea : a = .st [0, 0, 1] (.inl (.chars ['/'])) := by
    rcases hc with e | hp
    · exact e
    · cases hp with
      | st hp =>
        cases hp with
        | inl hp => exact (prefer_chars_false hp).elim
  subst ea
  simp only [PT.caps]
  rw [ptCat_frame hb _ (by rw [ncaps_siteIntermediate]; exact Nat.one_pos)]
  exact initCaps_get (by simp only [Re.ncaps, Re.ncapsList, ncaps_siteIntermediate]; omega)

/-- the alternative `[/]?` of `(?:[/]?|(.*[/]))` writes no slot -/
theorem siteFirstUnrooted_first_caps {σ : Sem} {id : Sid} {n : Nat} {x : PT} {S : Sid}
    (h : (siteFirstUnrooted true).PT σ id n (.st S (.inl x))) (c : Caps) : x.caps c = c := by
  simp only [siteFirstUnrooted, Re.PT, Re.PTAlt] at h
  obtain ⟨y, e, hy⟩ := h
  cases e
  rcases hy with ⟨z, e, hz⟩ | ⟨z, e, _⟩
  · cases e
    have hz' : (Re.opt (.chr .sepc)).PT σ (1 :: 0 :: id) n x := by
      simp only [Re.PT]
      exact hz
    exact runs_nocap (pt_runs σ _ _ n x c hz') ncaps_optSepc
  · cases e

theorem siteFirstUnrooted_skip {σ : Sem} (id : Sid) (n : Nat) :
    (siteFirstUnrooted true).PT σ id n (.st (0 :: 0 :: id) (.inl (.st (0 :: 1 :: 0 :: id) (.inr .eps)))) := by
  simp only [siteFirstUnrooted, Re.PT, Re.PTAlt]
  exact ⟨_, rfl, Or.inl ⟨_, rfl, _, rfl, Or.inr ⟨_, rfl, rfl⟩⟩⟩

theorem siteFirstUnrooted_sep {σ : Sem} (id : Sid) (n : Nat) :
    (siteFirstUnrooted true).PT σ id n
      (.st (0 :: 0 :: id) (.inl (.st (0 :: 1 :: 0 :: id) (.inl (.chars ['/']))))) := by
  simp only [siteFirstUnrooted, Re.PT, Re.PTAlt]
  exact ⟨_, rfl, Or.inl ⟨_, rfl, _, rfl, Or.inl ⟨_, rfl, '/', rfl, rfl⟩⟩⟩

/-- **(c)** `(?:[/]?|(.*[/])) rest…` (a tree wildcard in front, `**/…`): when the rest of the pattern
    matches the whole text, or the text without its leading separator, the group does not
    participate (although `(.*[/])` could have captured the `/`) -/
theorem siteFirstUnrooted_zero_no_capture {σ : Sem} {rest : List Re} {s : Str} {caps : Caps}
    (h : (Re.cat (siteFirstUnrooted true :: rest)).exec σ s = some (some s :: caps))
    (hy : MatchesAll σ rest s ∨ ∃ y, s = '/' :: y ∧ MatchesAll σ rest y) : caps[0]? = some none := by
  obtain ⟨t, ht, rfl⟩ := exec_least h
  obtain ⟨a, b, rfl, ha, _, hb, hs, hmin⟩ := least_head ht
  have hshape : ∃ x, a = .st [0, 0, 0] (.inl x) := by
    have key : ∀ z : PT, (a = .st [0, 0, 0] (.inl z) ∨ Prefer a (.st [0, 0, 0] (.inl z))) →
        ∃ x, a = .st [0, 0, 0] (.inl x) := by
      rintro z (e | hp)
      · exact ⟨_, e⟩
      · cases hp with
        | st hp =>
          cases hp with
          | inl hp => exact ⟨_, rfl⟩
    rcases hy with hy | ⟨y, rfl, hy⟩
    · exact key _ (hmin _ s (siteFirstUnrooted_skip [0] 0) (by decide) (by simp [PT.word]) hy)
    · exact key _ (hmin _ y (siteFirstUnrooted_sep [0] 0) (by decide) (by simp [PT.word]) hy)
  obtain ⟨x, rfl⟩ := hshape
  simp only [PT.caps]
  rw [siteFirstUnrooted_first_caps ha]
  rw [ptCat_frame hb _ (by rw [ncaps_siteFirstUnrooted]; exact Nat.one_pos)]
  exact initCaps_get (by simp only [Re.ncaps, Re.ncapsList, ncaps_siteFirstUnrooted]; omega)

/-! ### the restriction to guard-respecting trees is necessary: `(?:a?)*` on the empty text -/

theorem exOptStar1_accepts : Accepts trivSem exOptStar [] exOptStar1 := ⟨exOptStar1_mem, rfl, by decide⟩

/-- the search reports the tree with one empty round: it is the least guard-respecting tree.  (The
    tree `exOptStar2` with two empty rounds is preferred to it, and is not guard respecting: see
    `Wax/Proofs/Priority.lean`.) -/
theorem exOptStar1_least : IsLeast trivSem exOptStar [] exOptStar1 := by
  obtain ⟨t0, h0⟩ := least_exists exOptStar1_accepts
  suffices e : t0 = exOptStar1 by rw [← e]; exact h0
  rcases h0.le exOptStar1_accepts with e | hp
  · exact e
  · exfalso
    obtain ⟨⟨hmem, hword, hok⟩, _⟩ := h0
    unfold exOptStar1 at hp
    cases hp with
    | st hp =>
      cases hp with
      | inl hp =>
        unfold exOptStar at hmem
        rw [Re.PT] at hmem
        simp only [StarP, exOptStar_nullable, SQP] at hmem
        obtain ⟨y, e, hy⟩ := hmem
        cases e
        rcases hy with ⟨z, e, hz⟩ | ⟨z, e, _⟩
        · cases e
          cases hp with
          | seqL hp =>
            cases hp with
            | st hp =>
              cases hp with
              | @inlr a2 _ =>
                -- the first round takes `a`: the text is not empty
                obtain ⟨a, y2, e, ha, _⟩ := (plp_unfold _).mp hz
                cases e
                simp only [Re.PT] at ha
                obtain ⟨y3, e, hy3⟩ := ha
                cases e
                rcases hy3 with ⟨z3, e, u, hu, rfl⟩ | ⟨z3, e, _⟩
                · cases e
                  have hl := litEq_len trivSem false _ _ hu
                  simp only [PT.word] at hword
                  have := congrArg List.length hword
                  simp only [List.length_append, List.length_nil, List.length_cons] at this hl
                  omega
                · cases e
              | inr hp => cases hp
          | seqR hp =>
            cases hp with
            | st hp =>
              cases hp with
              | @inlr l _ =>
                -- a second round after an empty one: killed by the guard
                cases hz with
                | more ha hl =>
                  simp only [PT.flat] at hok
                  obtain ⟨_, hok⟩ := hok
                  rw [runOK_append] at hok
                  exact plp_after_empty (pt_fed trivSem _ _ 0) hl ha rfl hok.2.2
              | inr hp => cases hp
        · cases e

/-- what `Re.exec` reports for `(?:a?)*` on the empty text, read off the least tree -/
example : exOptStar.exec trivSem [] = some [some []] := exec_eq_of_least exOptStar1_least

/-! ### `tree_zero_components_no_capture` of `Wax/Proofs/CapTile.lean`, from the order -/

theorem caps_singleton_none {caps : Caps} (hl : caps.length = 1) (h0 : caps[0]? = some none) : caps = [none] := by
  match caps, hl, h0 with
  | [x], _, h0 =>
    simp only [List.getElem?_cons_zero, Option.some.injEq] at h0
    rw [h0]

/-- the statement of `tree_zero_components_no_capture`, proved from the priority order instead of
    by evaluating the search: the group-free alternative is preferred -/
theorem tree_zero_components_no_capture_of_order :
    (Re.cat [.lit ['a'] false, siteIntermediate true, .lit ['b'] false]).exec σcs "a/b".toList =
      some [some "a/b".toList, none] ∧
    (Re.cat [siteFirstUnrooted true, .lit ['a'] false]).exec σcs "/a".toList =
      some [some "/a".toList, none] := by
  constructor
  · have hm : Matches σcs (Re.cat [.lit ['a'] false, siteIntermediate true, .lit ['b'] false]) "a/b".toList :=
      (matchB_iff _ _ _).mp (by decide)
    obtain ⟨res, he⟩ := exec_complete hm
    obtain ⟨caps, rfl⟩ := exec_shape he
    have h0 := siteIntermediate_zero_no_capture (p' := ['a']) (y := ['b']) he (by decide) (by decide)
      (.cons (u := ['b']) (v := []) (.lit (by decide)) .nil)
    have hl := (exec_sound he).2.2.2
    simp only [List.length_cons, Re.ncaps, Re.ncapsList, ncaps_siteIntermediate] at hl
    rw [he, caps_singleton_none (by omega) h0]
  · have hm : Matches σcs (Re.cat [siteFirstUnrooted true, .lit ['a'] false]) "/a".toList :=
      (matchB_iff _ _ _).mp (by decide)
    obtain ⟨res, he⟩ := exec_complete hm
    obtain ⟨caps, rfl⟩ := exec_shape he
    have h0 := siteFirstUnrooted_zero_no_capture he
      (Or.inr ⟨['a'], by decide, .cons (u := ['a']) (v := []) (.lit (by decide)) .nil⟩)
    have hl := (exec_sound he).2.2.2
    simp only [List.length_cons, Re.ncaps, Re.ncapsList, ncaps_siteFirstUnrooted] at hl
    rw [he, caps_singleton_none (by omega) h0]

/-! ### the hypotheses are satisfiable, on patterns wax emits -/

/-- `*a*` is `([^/]*)(?-i:a)([^/]*)` -/
example (sp : Span) : encodeTop (.cat sp [.zom sp false, .lit sp ['a'] false, .zom sp false]) =
    .cat [.cap (.star (.chr .nsep)), .lit ['a'] false, .cap (.star (.chr .nsep))] := by
  simp [encodeTop, encodeList, encodeTok, G]

/-- `*a*` on `xaya`: the first `*` takes `xay`, the longest prefix after which `a*` still matches -/
theorem exZomGreedy : (Re.cat [.cap (.star (.chr .nsep)), .lit ['a'] false, .cap (.star (.chr .nsep))]).exec trivSem
    ['x', 'a', 'y', 'a'] = some (some ['x', 'a', 'y', 'a'] :: [some ['x', 'a', 'y'], some []]) := by decide

example : ∃ u y, ['x', 'a', 'y', 'a'] = u ++ y ∧ [some ['x', 'a', 'y'], some []][0]? = some (some u) ∧ SepFree u ∧
    MatchesAll trivSem [.lit ['a'] false, .cap (.star (.chr .nsep))] y ∧
    ∀ u' y', ['x', 'a', 'y', 'a'] = u' ++ y' → SepFree u' →
      MatchesAll trivSem [.lit ['a'] false, .cap (.star (.chr .nsep))] y' → u'.length ≤ u.length :=
  zom_greedy_longest exZomGreedy

/-- `$a*` on `xaya`: the `$` takes `x`, the shortest -/
theorem exZomLazy : (Re.cat [.cap (.lazyStar (.chr .nsep)), .lit ['a'] false, .cap (.star (.chr .nsep))]).exec trivSem
    ['x', 'a', 'y', 'a'] = some (some ['x', 'a', 'y', 'a'] :: [some ['x'], some ['y', 'a']]) := by decide

example : ∃ u y, ['x', 'a', 'y', 'a'] = u ++ y ∧ [some ['x'], some ['y', 'a']][0]? = some (some u) ∧ SepFree u ∧
    MatchesAll trivSem [.lit ['a'] false, .cap (.star (.chr .nsep))] y ∧
    ∀ u' y', ['x', 'a', 'y', 'a'] = u' ++ y' → SepFree u' →
      MatchesAll trivSem [.lit ['a'] false, .cap (.star (.chr .nsep))] y' → u.length ≤ u'.length :=
  zom_lazy_shortest exZomLazy

/-- `{a,ab}*` is `((?:(?-i:a))|(?:(?-i:ab)))([^/]*)` -/
example (sp : Span) : encodeTop (.cat sp [.alt sp [.cat sp [.lit sp ['a'] false], .cat sp [.lit sp ['a', 'b'] false]],
      .zom sp false]) =
    .cat [.cap (.alt [.grp (.cat [.lit ['a'] false]), .grp (.cat [.lit ['a', 'b'] false])]),
      .cap (.star (.chr .nsep))] := by
  simp [encodeTop, encodeList, encodeTok, encodeBranches, G]

/-- `{a,ab}*` on `abc`: the first branch leads to a match, so it wins: `a`, then `bc` -/
theorem exAltFirst : (Re.cat [.cap (.alt [.grp (.cat [.lit ['a'] false]), .grp (.cat [.lit ['a', 'b'] false])]),
      .cap (.star (.chr .nsep))]).exec trivSem ['a', 'b', 'c'] =
    some (some ['a', 'b', 'c'] :: [some ['a'], some ['b', 'c']]) := by decide

/-- `{a,ab}c` on `abc`: the first branch does not lead to a match, the second one is reported -/
theorem exAltSecond : (Re.cat [.cap (.alt [.grp (.cat [.lit ['a'] false]), .grp (.cat [.lit ['a', 'b'] false])]),
      .lit ['c'] false]).exec trivSem ['a', 'b', 'c'] = some (some ['a', 'b', 'c'] :: [some ['a', 'b']]) := by decide

example := alt_first_branch_wins exAltFirst
example := alt_first_branch_wins exAltSecond

/-- `a/**/b` is `(?-i:a)(?:[/]|[/](.*[/]))(?-i:b)` -/
example (sp : Span) : encodeTop (.cat sp [.lit sp ['a'] false, .tree sp false, .lit sp ['b'] false]) =
    .cat [.lit ['a'] false, siteIntermediate true, .lit ['b'] false] := by
  simp [encodeTop, encodeList, encodeTok, encodeTree, posOf]

/-- `**/a` is `(?:[/]?|(.*[/]))(?-i:a)` -/
example (sp : Span) : encodeTop (.cat sp [.tree sp false, .lit sp ['a'] false]) =
    .cat [siteFirstUnrooted true, .lit ['a'] false] := by
  simp [encodeTop, encodeList, encodeTok, encodeTree, posOf]

end Wax
