import Wax.Exec
import Wax.Proofs.Regex
/-!
Soundness of the capture semantics: whenever `Re.exec` reports captures, the haystack is in the
language of the pattern (`Matches`, equivalently `matchB`), and group 0 is the whole haystack.

The visited set and the preference order only ever remove or reorder paths, so soundness does not
depend on them: every success of a `Step` is a success of its continuation on a suffix, after a
prefix in the language of the piece.
-/
namespace Wax

/-- every success of `f` is a success of the continuation after a prefix in `L`, with as many slots -/
def StepSound (L : Str → Prop) (f : Step) : Prop :=
  ∀ w v c k res, f w v c k = some res →
    ∃ u w' v' c', w = u ++ w' ∧ L u ∧ c'.length = c.length ∧ k w' v' c' = some res

/-- `m` pieces, each in `L` -/
def IterN (L : Str → Prop) : Nat → Str → Prop
  | 0, u => u = []
  | m + 1, u => ∃ a b, u = a ++ b ∧ L a ∧ IterN L m b

theorem IterN.append {L : Str → Prop} : ∀ {a b : Nat} {u v : Str},
    IterN L a u → IterN L b v → IterN L (a + b) (u ++ v) := by
  intro a
  induction a with
  | zero => intro b u v hu hv; simp only [IterN] at hu; subst hu; simpa using hv
  | succ a ih =>
    intro b u v hu hv
    obtain ⟨x, y, rfl, hx, hy⟩ := hu
    have : a + 1 + b = (a + b) + 1 := by omega
    rw [this]
    exact ⟨x, y ++ v, by simp, hx, ih hy hv⟩

theorem IterN.one {L : Str → Prop} {u : Str} (h : L u) : IterN L 1 u :=
  ⟨u, [], by simp, h, rfl⟩

theorem orElse'_some {a : Option Caps} {b : Unit → Option Caps} {res : Caps}
    (h : orElse' a b = some res) : a = some res ∨ b () = some res := by
  unfold orElse' at h
  cases a with
  | none => exact Or.inr h
  | some x => exact Or.inl h

theorem prefer_some {lazy : Bool} {more leave : Unit → Option Caps} {res : Caps}
    (h : prefer lazy more leave = some res) : more () = some res ∨ leave () = some res := by
  unfold prefer at h
  cases lazy with
  | true => simp only [if_true] at h; exact (orElse'_some h).symm
  | false => exact orElse'_some (by simpa using h)

theorem enter_some {s : Sid} {v : Vis} {f : Vis → Option Caps} {res : Caps}
    (h : enter s v f = some res) : ∃ v', f v' = some res := by
  unfold enter at h
  split at h
  · cases h
  · exact ⟨_, h⟩

theorem ite_some {p : Prop} [Decidable p] {x : Option Caps} {res : Caps}
    (h : (if p then x else none) = some res) : x = some res := by
  split at h
  · exact h
  · cases h

/-! ### the loops -/

theorem loopU_sound {L : Str → Prop} {body : Step} (hb : StepSound L body) (u : Sid) (lazy : Bool) :
    ∀ n, StepSound (fun x => ∃ m, IterN L m x) (loopU body u lazy n) := by
  intro n
  induction n with
  | zero =>
    intro w v c k res h
    simp only [loopU] at h
    obtain ⟨v', h⟩ := enter_some h
    exact ⟨[], w, v', c, rfl, ⟨0, rfl⟩, rfl, h⟩
  | succ n ih =>
    intro w v c k res h
    simp only [loopU] at h
    obtain ⟨v', h⟩ := enter_some h
    rcases prefer_some h with h | h
    · obtain ⟨a, w1, v1, c1, rfl, ha, hl1, h1⟩ := hb _ _ _ _ _ h
      have h1 := ite_some h1
      obtain ⟨b, w2, v2, c2, rfl, ⟨m, hm⟩, hl2, h2⟩ := ih _ _ _ _ _ h1
      refine ⟨a ++ b, w2, v2, c2, by simp, ⟨m + 1, ?_⟩, hl2.trans hl1, h2⟩
      exact ⟨a, b, rfl, ha, hm⟩
    · exact ⟨[], w, v', c, rfl, ⟨0, rfl⟩, rfl, h⟩

theorem plusLoop_sound {L : Str → Prop} {body : Step} (hb : StepSound L body) (p : Sid) (lazy : Bool) :
    ∀ n, StepSound (fun x => ∃ m, IterN L (m + 1) x) (plusLoop body p lazy n) := by
  intro n
  induction n with
  | zero =>
    intro w v c k res h
    simp only [plusLoop] at h
    obtain ⟨a, w1, v1, c1, rfl, ha, hl1, h1⟩ := hb _ _ _ _ _ h
    obtain ⟨v2, h2⟩ := enter_some h1
    exact ⟨a, w1, v2, c1, rfl, ⟨0, IterN.one ha⟩, hl1, h2⟩
  | succ n ih =>
    intro w v c k res h
    simp only [plusLoop] at h
    obtain ⟨a, w1, v1, c1, rfl, ha, hl1, h1⟩ := hb _ _ _ _ _ h
    obtain ⟨v2, h2⟩ := enter_some h1
    rcases prefer_some h2 with h3 | h3
    · have h3 := ite_some h3
      obtain ⟨b, w2, v3, c2, rfl, ⟨m, hm⟩, hl2, h4⟩ := ih _ _ _ _ _ h3
      refine ⟨a ++ b, w2, v3, c2, by simp, ⟨m + 1, ?_⟩, hl2.trans hl1, h4⟩
      exact ⟨a, b, rfl, ha, hm⟩
    · exact ⟨a, w1, v2, c1, rfl, ⟨0, IterN.one ha⟩, hl1, h3⟩

theorem starQ_sound {L : Str → Prop} {body : Step} (hb : StepSound L body) (q p : Sid) (lazy : Bool) :
    StepSound (fun x => ∃ m, IterN L m x) (starQ body q p lazy) := by
  intro w v c k res h
  simp only [starQ] at h
  obtain ⟨v', h⟩ := enter_some h
  rcases prefer_some h with h | h
  · obtain ⟨a, w1, v1, c1, e, ⟨m, hm⟩, hl, h1⟩ := plusLoop_sound hb p lazy _ _ _ _ _ _ h
    exact ⟨a, w1, v1, c1, e, ⟨m + 1, hm⟩, hl, h1⟩
  · exact ⟨[], w, v', c, rfl, ⟨0, rfl⟩, rfl, h⟩

theorem starLoop_sound {L : Str → Prop} {body : Nat → Step} (hb : ∀ i, StepSound L (body i))
    (nn : Bool) (un : Nat → Sid) (lazy : Bool) :
    StepSound (fun x => ∃ m, IterN L m x) (starLoop nn body un lazy) := by
  intro w v c k res h
  simp only [starLoop] at h
  split at h
  · exact loopU_sound (hb 0) _ _ _ _ _ _ _ _ h
  · exact starQ_sound (hb 0) _ _ _ _ _ _ _ _ h

theorem exactly_sound {L : Str → Prop} {body : Nat → Step} (hb : ∀ i, StepSound L (body i)) :
    ∀ n i, StepSound (IterN L n) (exactly body n i) := by
  intro n
  induction n with
  | zero =>
    intro i w v c k res h
    simp only [exactly] at h
    exact ⟨[], w, v, c, rfl, rfl, rfl, h⟩
  | succ n ih =>
    intro i w v c k res h
    simp only [exactly] at h
    obtain ⟨a, w1, v1, c1, rfl, ha, hl1, h1⟩ := hb i _ _ _ _ _ h
    obtain ⟨b, w2, v2, c2, rfl, hm, hl2, h2⟩ := ih _ _ _ _ _ _ h1
    exact ⟨a ++ b, w2, v2, c2, by simp, ⟨a, b, rfl, ha, hm⟩, hl2.trans hl1, h2⟩

theorem optNest_sound {L : Str → Prop} {body : Nat → Step} (hb : ∀ i, StepSound L (body i))
    (un : Nat → Sid) :
    ∀ n i, StepSound (fun x => ∃ m, m ≤ n ∧ IterN L m x) (optNest body un n i) := by
  intro n
  induction n with
  | zero =>
    intro i w v c k res h
    simp only [optNest] at h
    exact ⟨[], w, v, c, rfl, ⟨0, Nat.le_refl _, rfl⟩, rfl, h⟩
  | succ n ih =>
    intro i w v c k res h
    simp only [optNest] at h
    obtain ⟨v', h⟩ := enter_some h
    rcases orElse'_some h with h | h
    · obtain ⟨a, w1, v1, c1, rfl, ha, hl1, h1⟩ := hb i _ _ _ _ _ h
      obtain ⟨b, w2, v2, c2, rfl, ⟨m, hmn, hm⟩, hl2, h2⟩ := ih _ _ _ _ _ _ h1
      exact ⟨a ++ b, w2, v2, c2, by simp, ⟨m + 1, by omega, a, b, rfl, ha, hm⟩, hl2.trans hl1, h2⟩
    · exact ⟨[], w, v', c, rfl, ⟨0, Nat.zero_le _, rfl⟩, rfl, h⟩

theorem repLoop_sound {L : Str → Prop} {body : Nat → Step} (hb : ∀ i, StepSound L (body i))
    (nn : Bool) (un : Nat → Sid) (lo : Nat) (hi : Option Nat) :
    StepSound (fun x => ∃ m, lo ≤ m ∧ (∀ h, hi = some h → m ≤ h) ∧ IterN L m x)
      (repLoop nn body un lo hi) := by
  intro w v c k res h
  simp only [repLoop] at h
  cases hi with
  | some hh =>
    simp only at h
    split at h
    · rename_i hle
      obtain ⟨a, w1, v1, c1, rfl, ha, hl1, h1⟩ := exactly_sound hb _ _ _ _ _ _ _ h
      obtain ⟨b, w2, v2, c2, rfl, ⟨m, hmn, hm⟩, hl2, h2⟩ := optNest_sound hb un _ _ _ _ _ _ _ h1
      refine ⟨a ++ b, w2, v2, c2, by simp, ⟨lo + m, Nat.le_add_right _ _, ?_, IterN.append ha hm⟩, hl2.trans hl1, h2⟩
      intro h' e
      cases e
      omega
    · cases h
  | none =>
    simp only at h
    cases lo with
    | zero =>
      simp only at h
      obtain ⟨a, w1, v1, c1, e, ⟨m, hm⟩, hl, h1⟩ := starLoop_sound hb nn un false _ _ _ _ _ h
      exact ⟨a, w1, v1, c1, e, ⟨m, Nat.zero_le _, (by intro _ e; cases e), hm⟩, hl, h1⟩
    | succ lo' =>
      simp only at h
      obtain ⟨a, w1, v1, c1, rfl, ha, hl1, h1⟩ := exactly_sound hb _ _ _ _ _ _ _ h
      obtain ⟨b, w2, v2, c2, rfl, ⟨m, hm⟩, hl2, h2⟩ := plusLoop_sound (hb lo') _ _ _ _ _ _ _ _ h1
      refine ⟨a ++ b, w2, v2, c2, by simp, ⟨lo' + (m + 1), by omega, (by intro _ e; cases e), IterN.append ha hm⟩, hl2.trans hl1, h2⟩

/-! ### from `IterN (Matches σ r)` to the declarative semantics -/

theorem iter_of_iterN {σ : Sem} {r : Re} : ∀ {m : Nat} {u : Str}, IterN (Matches σ r) m u → Iter σ r m u := by
  intro m
  induction m with
  | zero => intro u h; simp only [IterN] at h; subst h; exact .zero
  | succ m ih =>
    intro u h
    obtain ⟨a, b, rfl, ha, hb⟩ := h
    exact .succ ha (ih hb)

theorem star_of_iterN {σ : Sem} {r : Re} : ∀ {m : Nat} {u : Str}, IterN (Matches σ r) m u → Matches σ (.star r) u := by
  intro m
  induction m with
  | zero => intro u h; simp only [IterN] at h; subst h; exact .starNil
  | succ m ih =>
    intro u h
    obtain ⟨a, b, rfl, ha, hb⟩ := h
    exact .starCons ha (ih hb)

theorem litStrip_sound (σ : Sem) (ci : Bool) : ∀ (s w w' : Str), litStrip σ ci s w = some w' →
    ∃ u, w = u ++ w' ∧ litEq σ ci s u = true := by
  intro s
  induction s with
  | nil =>
    intro w w' h
    simp only [litStrip] at h
    cases h
    exact ⟨[], rfl, rfl⟩
  | cons a s ih =>
    intro w w' h
    cases w with
    | nil => simp [litStrip] at h
    | cons b w =>
      simp only [litStrip] at h
      by_cases hab : (if ci then σ.ceq a b else a == b) = true
      · rw [if_pos hab] at h
        obtain ⟨u, rfl, hu⟩ := ih _ _ h
        refine ⟨b :: u, rfl, ?_⟩
        simp only [litEq, Bool.and_eq_true]
        exact ⟨hab, hu⟩
      · rw [if_neg hab] at h
        cases h

/-! ### the pattern -/

mutual
  theorem run_sound (σ : Sem) : ∀ (r : Re) (id : Sid) (n : Nat), StepSound (Matches σ r) (r.run σ id n)
    | .lit s ci, id, n => by
      intro w v c k res h
      simp only [Re.run] at h
      split at h
      · rename_i w' hw
        obtain ⟨u, rfl, hu⟩ := litStrip_sound σ ci _ _ _ hw
        exact ⟨u, w', _, c, rfl, .lit hu, rfl, h⟩
      · cases h
    | .chr p, id, n => by
      intro w v c k res h
      simp only [Re.run] at h
      split at h
      · rename_i a w'
        split at h
        · rename_i hp
          exact ⟨[a], w', [], c, rfl, .chr hp, rfl, h⟩
        · cases h
      · cases h
    | .never, id, n => by
      intro w v c k res h
      simp [Re.run] at h
    | .cat l, id, n => by
      intro w v c k res h
      simp only [Re.run] at h
      obtain ⟨u, w', v', c', e, hu, hl, hk⟩ := runCat_sound σ l id 0 n _ _ _ _ _ h
      exact ⟨u, w', v', c', e, .cat hu, hl, hk⟩
    | .alt l, id, n => by
      intro w v c k res h
      simp only [Re.run] at h
      have key : ∀ v, Re.runAlt σ l id 1 n w v c k = some res →
          ∃ u w' v' c', w = u ++ w' ∧ Matches σ (.alt l) u ∧ c'.length = c.length ∧ k w' v' c' = some res := by
        intro v h
        obtain ⟨r, hr, u, w', v', c', e, hu, hl, hk⟩ := runAlt_sound σ l id 1 n _ _ _ _ _ h
        exact ⟨u, w', v', c', e, .alt hr hu, hl, hk⟩
      split at h
      · obtain ⟨v', h⟩ := enter_some h
        exact key _ h
      · exact key _ h
    | .star r, id, n => by
      intro w v c k res h
      simp only [Re.run] at h
      obtain ⟨u, w', v', c', e, ⟨m, hm⟩, hl, hk⟩ :=
        starLoop_sound (fun i => run_sound σ r ((2 * i + 1) :: id) n) _ _ _ _ _ _ _ _ h
      exact ⟨u, w', v', c', e, star_of_iterN hm, hl, hk⟩
    | .lazyStar r, id, n => by
      intro w v c k res h
      simp only [Re.run] at h
      obtain ⟨u, w', v', c', e, ⟨m, hm⟩, hl, hk⟩ :=
        starLoop_sound (fun i => run_sound σ r ((2 * i + 1) :: id) n) _ _ _ _ _ _ _ _ h
      exact ⟨u, w', v', c', e, .lazyStar (star_of_iterN hm), hl, hk⟩
    | .opt r, id, n => by
      intro w v c k res h
      simp only [Re.run] at h
      obtain ⟨v', h⟩ := enter_some h
      rcases orElse'_some h with h | h
      · obtain ⟨u, w', v'', c', e, hu, hl, hk⟩ := run_sound σ r (1 :: id) n _ _ _ _ _ h
        exact ⟨u, w', v'', c', e, .optSome hu, hl, hk⟩
      · exact ⟨[], w, v', c, rfl, .optNone, rfl, h⟩
    | .rep r lo hi, id, n => by
      intro w v c k res h
      simp only [Re.run] at h
      obtain ⟨u, w', v', c', e, ⟨m, hlo, hhi, hm⟩, hl, hk⟩ :=
        repLoop_sound (fun i => run_sound σ r ((2 * i + 1) :: id) n) _ _ _ _ _ _ _ _ _ h
      exact ⟨u, w', v', c', e, .rep hlo hhi (iter_of_iterN hm), hl, hk⟩
    | .cap r, id, n => by
      intro w v c k res h
      simp only [Re.run] at h
      obtain ⟨u, w', v', c', e, hu, hl, hk⟩ := run_sound σ r (0 :: id) (n + 1) _ _ _ _ _ h
      exact ⟨u, w', v', _, e, .cap hu, by simpa using hl, hk⟩
    | .grp r, id, n => by
      intro w v c k res h
      simp only [Re.run] at h
      obtain ⟨u, w', v', c', e, hu, hl, hk⟩ := run_sound σ r (0 :: id) n _ _ _ _ _ h
      exact ⟨u, w', v', c', e, .grp hu, hl, hk⟩
  theorem runCat_sound (σ : Sem) : ∀ (l : List Re) (id : Sid) (j n : Nat),
      StepSound (MatchesAll σ l) (Re.runCat σ l id j n)
    | [], id, j, n => by
      intro w v c k res h
      simp only [Re.runCat] at h
      exact ⟨[], w, v, c, rfl, .nil, rfl, h⟩
    | r :: rs, id, j, n => by
      intro w v c k res h
      simp only [Re.runCat] at h
      obtain ⟨a, w1, v1, c1, rfl, ha, hl1, h1⟩ := run_sound σ r (j :: id) n _ _ _ _ _ h
      obtain ⟨b, w2, v2, c2, rfl, hb, hl2, h2⟩ := runCat_sound σ rs id (j + 1) (n + r.ncaps) _ _ _ _ _ h1
      exact ⟨a ++ b, w2, v2, c2, by simp, .cons ha hb, hl2.trans hl1, h2⟩
  theorem runAlt_sound (σ : Sem) : ∀ (l : List Re) (id : Sid) (j n : Nat) (w : Str) (v : Vis) (c : Caps)
      (k : Kont) (res : Caps), Re.runAlt σ l id j n w v c k = some res →
      ∃ r ∈ l, ∃ u w' v' c', w = u ++ w' ∧ Matches σ r u ∧ c'.length = c.length ∧ k w' v' c' = some res
    | [], id, j, n, w, v, c, k, res, h => by simp [Re.runAlt] at h
    | r :: rs, id, j, n, w, v, c, k, res, h => by
      simp only [Re.runAlt] at h
      rcases orElse'_some h with h | h
      · obtain ⟨u, w', v', c', e, hu, hl, hk⟩ := run_sound σ r (j :: id) n _ _ _ _ _ h
        exact ⟨r, List.mem_cons_self .., u, w', v', c', e, hu, hl, hk⟩
      · obtain ⟨r', hr', rest⟩ := runAlt_sound σ rs id (j + 1) (n + r.ncaps) _ _ _ _ _ h
        exact ⟨r', List.mem_cons_of_mem _ hr', rest⟩
end

/-- a reported match is a match of the declarative semantics (equivalently of `matchB`), group 0 is
    the whole haystack, and there is one entry per group -/
theorem exec_sound {σ : Sem} {r : Re} {s : Str} {caps : List (Option Str)}
    (h : r.exec σ s = some caps) :
    Matches σ r s ∧ r.matchB σ s = true ∧ caps.head? = some (some s) ∧ caps.length = r.ncaps + 1 := by
  unfold Re.exec at h
  split at h
  · cases h
  · rename_i c hc
    cases h
    obtain ⟨u, w', v', c', e, hu, hl, hk⟩ := run_sound σ r [] 0 _ _ _ _ _ hc
    simp only [atEnd] at hk
    split at hk
    · rename_i hw
      have : w' = [] := by simpa using hw
      subst this
      have : s = u := by simpa using e
      subst this
      cases hk
      refine ⟨hu, (matchB_iff σ r s).mpr hu, rfl, ?_⟩
      simpa using hl
    · cases hk

/-- no reported match without a match: the contrapositive, for the decision procedure -/
theorem exec_none_of_not_matchB {σ : Sem} {r : Re} {s : Str} (h : r.matchB σ s = false) :
    r.exec σ s = none := by
  cases he : r.exec σ s with
  | none => rfl
  | some caps => rw [(exec_sound he).2.1] at h; cases h

end Wax
