import Wax.Proofs.WalkFaults
import Wax.Proofs.WalkLogs
/-!
Link behaviours bound the walk as documented (C15, link part); the walk root (C02).

Everything is stated on `viewList follow` (what walkdir sees of a recorded tree under
`LinkBehavior::ReadFile` = `follow = false` / `ReadTarget` = `follow = true`) and `visitListB`
(the structural traversal with depth bounds and a verdict), which `walk_refinesB` /
`walkItems_eq_spec` prove to be what the executable machine `run` / `walkItems` yields; the
`…_walk` forms are about `walkItems` itself.

**What is true by definition.**  `view` *is* the model's account of links: `view false` maps every
link to a leaf of link type, `view true` maps a link to a directory to a directory with the recorded
contents, a link to a file to a file, a re-entrant or dangling link to an error leaf with its path,
a link to an unreadable directory to an error leaf without path (`view_readfile_link`,
`view_readtarget_linkDir`, `view_readtarget_cycle`, … all by `rfl` / case analysis).  Whether the
crate and walkdir behave so is the business of the differential walks (`W` command), not of these
theorems.  What is *proved* here is what that account implies for the items of a whole walk, for
every tree, every depth bounds and every verdict:

* `focus` (the tool): in a recorded forest without clashing names, the items of the walk that lie
  at or beneath a node the walk reaches (`Reached`) are exactly the walk of what walkdir sees of that
  node.  `under_occurs`: for any node that occurs (`Occurs`), reached or not, any item at or beneath
  it is an item of the full walk of the node (`visitListB_sublist_full`: a bounded, pruned walk
  yields a sublist of the full walk).
* 1. `readfile_never_descends`, `readfile_nothing_beneath_link` (+ `readfile_no_item_extends_link`,
  `readfile_no_error_at_link`), and without any hypothesis on names `readfile_ignores_targets`
  (the walk cannot tell what a link points to) and `readfile_no_errors_list` (links never produce
  error items).  `readfile_nothing_beneath_needs_distinct`: the path-based forms need distinct names.
* 2. `readtarget_descends`, `readtarget_link_as_dir`, `readtarget_link_file`, `readtarget_follows`,
  `reached_through_link`, and without hypothesis `readtarget_transparent`.
* 3. `readtarget_cycle_error`, `readtarget_cycle_error_leaf` (through `error_items_exactB`),
  `readtarget_cycle_error_mem`, `readtarget_nothing_beneath_cycle`, `readtarget_unreadable_error`.
* 4. `links_only_differ_at_links` (+ `_walk`), and for trees *with* links `differ_only_at_links`:
  away from the paths of the links both walks yield the same items in the same order.
* whole walks: `walk_focus`, `readfile_never_descends_walk`, `readtarget_descends_walk`,
  `readtarget_cycle_error_walk`.
* the root (C02, K-WALK-ROOT-LINK): the statements of 1. are FALSE for the path the walk starts
  from: `readfile_root_link_is_descended`, `readfile_root_link_error`,
  `root_link_cannot_be_cancelled`.
-/
set_option linter.unusedSimpArgs false

namespace Wax.Walk
open Wax

/-! ## vocabulary -/

/-- the recorded node is a symbolic link (of any of the five recorded kinds) -/
def RNode.isLink : RNode → Bool
  | .linkDangling _ | .linkFile _ | .linkDir .. | .linkCycle _ | .linkUnreadable _ => true
  | _ => false

/-- the names an item carries: those of the entry, or those the error stands at -/
def Item.names : Item → List Str
  | .ok e => e.names
  | .err q _ => q

/-- the item lies at or beneath the path `q` -/
def Item.under (q : List Str) (it : Item) : Bool := decide (q <+: it.names)

theorem viewList_eq_map (follow : Bool) : ∀ t : List RNode, viewList follow t = t.map (view follow)
  | [] => rfl
  | n :: ns => by simp [viewList, viewList_eq_map follow ns]

theorem mem_viewList (follow : Bool) {n : RNode} {t : List RNode} (h : n ∈ t) :
    view follow n ∈ viewList follow t := by
  rw [viewList_eq_map]; exact List.mem_map_of_mem h

/-! ## every item of the walk of a node lies at or beneath the node -/

theorem mem_visitB_dir {mn : Nat} {mx : Option Nat} {v : Entry → Bool} {p : List Str} {nm : Str}
    {cs : List WNode} {it : Item} (h : it ∈ visitB mn mx v p (.dir nm cs)) :
    it = .ok ⟨p ++ [nm], .d⟩ ∨ it ∈ visitListB mn mx v (p ++ [nm]) cs := by
  simp only [visitB] at h
  by_cases hm : p.length + 1 < mn
  · simp only [hm, if_true] at h
    split at h
    · cases h
    · exact Or.inr h
  · simp only [hm, if_false] at h
    rcases List.mem_cons.mp h with h | h
    · exact Or.inl h
    · split at h
      · cases h
      · split at h
        · cases h
        · exact Or.inr h

theorem prefix_snoc_left {p r : List Str} {nm : Str} (h : (p ++ [nm]) <+: r) : p <+: r :=
  (List.prefix_append p [nm]).trans h

mutual
  theorem visitB_under (mn : Nat) (mx : Option Nat) (v : Entry → Bool) :
      ∀ (w : WNode) (p : List Str) (it : Item), it ∈ visitB mn mx v p w →
        p <+: it.names ∧ ∀ nm, w.name? = some nm → (p ++ [nm]) <+: it.names
    | .leaf nm k, p, it, h => by
      simp only [visitB] at h
      split at h
      · cases h
      · have : it = .ok ⟨p ++ [nm], k.kind⟩ := by simpa using h
        subst this
        refine ⟨List.prefix_append _ _, ?_⟩
        intro nm' hn
        simp only [WNode.name?, Option.some.injEq] at hn
        subst hn
        exact List.prefix_rfl
    | .errChild nm a, p, it, h => by
      have : it = .err (p ++ [nm]) a := by simpa [visitB] using h
      subst this
      refine ⟨List.prefix_append _ _, ?_⟩
      intro nm' hn
      simp only [WNode.name?, Option.some.injEq] at hn
      subst hn
      exact List.prefix_rfl
    | .errHere, p, it, h => by
      have : it = .err p false := by simpa [visitB] using h
      subst this
      exact ⟨List.prefix_rfl, by intro nm hn; simp [WNode.name?] at hn⟩
    | .dir nm cs, p, it, h => by
      have key : (p ++ [nm]) <+: it.names := by
        rcases mem_visitB_dir h with h | h
        · subst h; exact List.prefix_rfl
        · exact visitListB_under mn mx v cs (p ++ [nm]) it h
      refine ⟨prefix_snoc_left key, ?_⟩
      intro nm' hn
      simp only [WNode.name?, Option.some.injEq] at hn
      subst hn
      exact key
  /-- every item yielded while reading the directory `p` lies at or beneath `p` -/
  theorem visitListB_under (mn : Nat) (mx : Option Nat) (v : Entry → Bool) :
      ∀ (ws : List WNode) (p : List Str) (it : Item), it ∈ visitListB mn mx v p ws → p <+: it.names
    | [], _, _, h => by simp [visitListB] at h
    | w :: ws, p, it, h => by
      simp only [visitListB, List.mem_append] at h
      rcases h with h | h
      · exact (visitB_under mn mx v w p it h).1
      · exact visitListB_under mn mx v ws p it h
end

/-! ## the items at or beneath a node of the forest are the walk of that node -/

/-- two children of one directory that lie above the same path have the same name -/
theorem snoc_prefix_unique {p r : List Str} {a b : Str} (ha : (p ++ [a]) <+: r)
    (hb : (p ++ [b]) <+: r) : a = b := by
  have h := List.prefix_of_prefix_length_le ha hb (by simp)
  have := h.eq_of_length (by simp)
  simpa using this

theorem not_snoc_prefix_self (p : List Str) (nm : Str) : ¬ (p ++ [nm]) <+: p := by
  intro h
  have := h.length_le
  simp at this
  omega

/-- a sibling of another name yields nothing at or beneath the path -/
theorem filter_under_other (mn : Nat) (mx : Option Nat) (v : Entry → Bool) (p r : List Str) (nm : Str)
    (hr : (p ++ [nm]) <+: r) (m : WNode) (hm : m.name? ≠ some nm) :
    (visitB mn mx v p m).filter (Item.under r) = [] := by
  apply List.filter_eq_nil_iff.mpr
  intro it hit hu
  have hu : r <+: it.names := by simpa [Item.under] using hu
  have h1 : (p ++ [nm]) <+: it.names := hr.trans hu
  cases hn : m.name? with
  | some nm' =>
    have h2 := (visitB_under mn mx v m p it hit).2 nm' hn
    have := snoc_prefix_unique h1 h2
    subst this
    exact hm hn
  | none =>
    cases m with
    | errHere =>
      have : it = .err p false := by simpa [visitB] using hit
      subst this
      exact not_snoc_prefix_self p nm h1
    | leaf _ _ => simp [WNode.name?] at hn
    | dir _ _ => simp [WNode.name?] at hn
    | errChild _ _ => simp [WNode.name?] at hn

theorem filter_under_others (mn : Nat) (mx : Option Nat) (v : Entry → Bool) (p r : List Str) (nm : Str)
    (hr : (p ++ [nm]) <+: r) : ∀ (ws : List WNode), (∀ m ∈ ws, m.name? ≠ some nm) →
    (visitListB mn mx v p ws).filter (Item.under r) = []
  | [], _ => rfl
  | w :: ws, h => by
    simp only [visitListB, List.filter_append]
    rw [filter_under_other mn mx v p r nm hr w (h w (by simp)),
      filter_under_others mn mx v p r nm hr ws (fun m hm => h m (by simp [hm]))]
    rfl

theorem distinctNames_of_mem : ∀ (ws : List WNode) (w : WNode), distinctNamesL ws = true → w ∈ ws →
    distinctNames w = true
  | [], _, _, h => by cases h
  | x :: xs, w, hd, h => by
    simp only [distinctNamesL, Bool.and_eq_true] at hd
    rcases List.mem_cons.mp h with h | h
    · subst h; exact hd.1.1
    · exact distinctNames_of_mem xs w hd.2 h

/-- in a directory without clashing names, the items at or beneath a path that passes through the
    child `w` are items of the walk of `w` -/
theorem filter_under_mem (mn : Nat) (mx : Option Nat) (v : Entry → Bool) (p r : List Str) (nm : Str)
    (hr : (p ++ [nm]) <+: r) : ∀ (ws : List WNode) (w : WNode), distinctNamesL ws = true → w ∈ ws →
    w.name? = some nm →
    (visitListB mn mx v p ws).filter (Item.under r) = (visitB mn mx v p w).filter (Item.under r)
  | [], _, _, h, _ => by cases h
  | x :: xs, w, hd, h, hn => by
    simp only [distinctNamesL, Bool.and_eq_true, List.all_eq_true] at hd
    obtain ⟨⟨_, hall⟩, hxs⟩ := hd
    simp only [visitListB, List.filter_append]
    by_cases hx : x.name? = some nm
    · -- the head carries the name: nothing else does
      have hrest : ∀ m ∈ xs, m.name? ≠ some nm := by
        intro m hm
        have := hall m hm
        simp only [hx, Bool.or_eq_true, beq_iff_eq, bne_iff_ne, ne_eq] at this
        rcases this with this | this
        · cases this
        · exact this
      rw [filter_under_others mn mx v p r nm hr xs hrest, List.append_nil]
      rcases List.mem_cons.mp h with h | h
      · subst h; rfl
      · exact absurd hn (hrest w h)
    · rw [filter_under_other mn mx v p r nm hr x hx, List.nil_append]
      rcases List.mem_cons.mp h with h | h
      · subst h; exact absurd hn hx
      · exact filter_under_mem mn mx v p r nm hr xs w hxs h hn

/-- `w` stands in the directory `p'` of the forest `ws` (itself read in the directory `p`), and the
    walk gets there: no directory on the way is cut (discarded by the verdict while within the
    bounds, or with its children beyond `max_depth`) -/
inductive ReachedW (mn : Nat) (mx : Option Nat) (v : Entry → Bool) :
    List Str → List WNode → List Str → WNode → Prop where
  | here {p : List Str} {ws : List WNode} {w : WNode} : w ∈ ws → ReachedW mn mx v p ws p w
  | inDir {p : List Str} {ws : List WNode} {d : Str} {cs : List WNode} {p' : List Str} {w : WNode} :
      WNode.dir d cs ∈ ws → cutAt mn mx v (p ++ [d]) = false →
      ReachedW mn mx v (p ++ [d]) cs p' w → ReachedW mn mx v p ws p' w

theorem ReachedW.prefix {mn : Nat} {mx : Option Nat} {v : Entry → Bool} {p p' : List Str}
    {ws : List WNode} {w : WNode} (h : ReachedW mn mx v p ws p' w) : p <+: p' := by
  induction h with
  | here _ => exact List.prefix_rfl
  | inDir _ _ _ ih => exact prefix_snoc_left ih

/-- a directory that is not cut: its entry (unless `min_depth` hides it), then its children -/
theorem visitB_dir_not_cut (mn : Nat) (mx : Option Nat) (v : Entry → Bool) (p : List Str) (d : Str)
    (cs : List WNode) (h : cutAt mn mx v (p ++ [d]) = false) :
    visitB mn mx v p (.dir d cs) =
      (if p.length + 1 < mn then [] else [.ok ⟨p ++ [d], .d⟩]) ++ visitListB mn mx v (p ++ [d]) cs := by
  simp only [cutAt, List.length_append, List.length_cons, List.length_nil, Nat.zero_add,
    Bool.or_eq_false_iff, Bool.and_eq_false_iff, Bool.not_eq_false', decide_eq_true_eq] at h
  obtain ⟨h1, h2⟩ := h
  simp only [visitB, List.length_append, List.length_cons, List.length_nil, Nat.zero_add, h2]
  by_cases hm : p.length + 1 < mn
  · simp [hm]
  · rcases h1 with h1 | h1
    · exact absurd h1 hm
    · simp [hm, h1]

/-- a directory that is cut: at most its entry -/
theorem visitB_dir_cut (mn : Nat) (mx : Option Nat) (v : Entry → Bool) (p : List Str) (d : Str)
    (cs : List WNode) (h : cutAt mn mx v (p ++ [d]) = true) :
    visitB mn mx v p (.dir d cs) = if p.length + 1 < mn then [] else [.ok ⟨p ++ [d], .d⟩] := by
  simp only [cutAt, List.length_append, List.length_cons, List.length_nil, Nat.zero_add,
    Bool.or_eq_true, Bool.and_eq_true, Bool.not_eq_true', decide_eq_false_iff_not] at h
  simp only [visitB, List.length_append, List.length_cons, List.length_nil, Nat.zero_add]
  by_cases hm : p.length + 1 < mn
  · rcases h with ⟨h, _⟩ | h
    · exact absurd hm h
    · simp [hm, h]
  · rcases h with ⟨_, h⟩ | h
    · simp [hm, h]
    · simp [hm, h]

/-- **focus**: in a forest without clashing names, the items of the walk that lie at or beneath a
    node the walk reaches are exactly the walk of that node, in the directory it stands in -/
theorem focusW (mn : Nat) (mx : Option Nat) (v : Entry → Bool) {p p' : List Str} {ws : List WNode}
    {w : WNode} (hr : ReachedW mn mx v p ws p' w) :
    ∀ nm, distinctNamesL ws = true → w.name? = some nm →
    (visitListB mn mx v p ws).filter (Item.under (p' ++ [nm])) = visitB mn mx v p' w := by
  induction hr with
  | @here p ws w hmem =>
    intro nm hd hn
    rw [filter_under_mem mn mx v p (p ++ [nm]) nm List.prefix_rfl ws w hd hmem hn]
    apply List.filter_eq_self.mpr
    intro it hit
    simpa [Item.under] using (visitB_under mn mx v w p it hit).2 nm hn
  | @inDir p ws d cs p' w hmem hcut hrec ih =>
    intro nm hd hn
    have hpre : (p ++ [d]) <+: (p' ++ [nm]) := hrec.prefix.trans (List.prefix_append _ _)
    rw [filter_under_mem mn mx v p (p' ++ [nm]) d hpre ws (.dir d cs) hd hmem rfl,
      visitB_dir_not_cut mn mx v p d cs hcut, List.filter_append,
      ih nm (by simpa [distinctNames] using distinctNames_of_mem ws _ hd hmem) hn]
    have hhead : (if p.length + 1 < mn then [] else [Item.ok ⟨p ++ [d], .d⟩]).filter
        (Item.under (p' ++ [nm])) = [] := by
      apply List.filter_eq_nil_iff.mpr
      intro it hit hu
      split at hit
      · cases hit
      · have : it = .ok ⟨p ++ [d], .d⟩ := by simpa using hit
        subst this
        have hu : (p' ++ [nm]) <+: (p ++ [d]) := of_decide_eq_true hu
        have h1 := hu.length_le
        have h2 := hrec.prefix.length_le
        simp at h1 h2
        omega
    rw [hhead, List.nil_append]

/-! ## the same on recorded trees, under either link behaviour -/

/-- the recorded node `n` stands in the directory `p'` of the recorded forest `t` (itself read in
    the directory `p`), and the walk gets there: the way leads through directories — and, only when
    links are read as their targets, through links to directories — none of which is cut.
    `Reached false` never passes a link. -/
inductive Reached (follow : Bool) (mn : Nat) (mx : Option Nat) (v : Entry → Bool) :
    List Str → List RNode → List Str → RNode → Prop where
  | here {p : List Str} {t : List RNode} {n : RNode} : n ∈ t → Reached follow mn mx v p t p n
  | inDir {p : List Str} {t : List RNode} {d : Str} {cs : List RNode} {p' : List Str} {n : RNode} :
      RNode.dir d cs ∈ t → cutAt mn mx v (p ++ [d]) = false →
      Reached follow mn mx v (p ++ [d]) cs p' n → Reached follow mn mx v p t p' n
  | inLink {p : List Str} {t : List RNode} {d : Str} {cs : List RNode} {p' : List Str} {n : RNode} :
      follow = true → RNode.linkDir d cs ∈ t → cutAt mn mx v (p ++ [d]) = false →
      Reached follow mn mx v (p ++ [d]) cs p' n → Reached follow mn mx v p t p' n

/-- the node occurs there, whatever the bounds and the verdict: reached by the full walk -/
abbrev Occurs (follow : Bool) := Reached follow 0 none never

theorem cutAt_full (q : List Str) : cutAt 0 none never q = false := by
  simp [cutAt, never, over]

theorem Reached.occurs {follow : Bool} {mn : Nat} {mx : Option Nat} {v : Entry → Bool}
    {p p' : List Str} {t : List RNode} {n : RNode} (h : Reached follow mn mx v p t p' n) :
    Occurs follow p t p' n := by
  induction h with
  | here hm => exact .here hm
  | inDir hm _ _ ih => exact .inDir hm (cutAt_full _) ih
  | inLink hf hm _ _ ih => exact .inLink hf hm (cutAt_full _) ih

theorem Reached.toW {follow : Bool} {mn : Nat} {mx : Option Nat} {v : Entry → Bool}
    {p p' : List Str} {t : List RNode} {n : RNode} (h : Reached follow mn mx v p t p' n) :
    ReachedW mn mx v p (viewList follow t) p' (view follow n) := by
  induction h with
  | here hm => exact .here (mem_viewList follow hm)
  | @inDir p t d cs p' n hm hc _ ih =>
    have := mem_viewList follow hm
    simp only [view] at this
    exact .inDir this hc ih
  | @inLink p t d cs p' n hf hm hc _ ih =>
    subst hf
    have := mem_viewList true hm
    simp only [view, if_true] at this
    exact .inDir this hc ih

/-- **focus, recorded trees**: in a recorded forest without clashing names (as on a file system),
    under either link behaviour and any bounds and verdict, the items of the walk that lie at or
    beneath a node the walk reaches are exactly the walk of what walkdir sees of that node -/
theorem focus (follow : Bool) (mn : Nat) (mx : Option Nat) (v : Entry → Bool) {p p' : List Str}
    {t : List RNode} {n : RNode} (hd : distinctR t = true) (hr : Reached follow mn mx v p t p' n) :
    (visitListB mn mx v p (viewList follow t)).filter (Item.under (p' ++ [n.name])) =
      visitB mn mx v p' (view follow n) :=
  focusW mn mx v hr.toW n.name (viewList_distinct follow t hd) (view_name follow n)

/-! ### the bounded, pruned walk yields a sublist of the full walk -/

theorem visitB_dir_eq (mn : Nat) (mx : Option Nat) (v : Entry → Bool) (p : List Str) (d : Str)
    (cs : List WNode) :
    visitB mn mx v p (.dir d cs) =
      (if p.length + 1 < mn then [] else [.ok ⟨p ++ [d], .d⟩]) ++
        (if cutAt mn mx v (p ++ [d]) then [] else visitListB mn mx v (p ++ [d]) cs) := by
  cases hc : cutAt mn mx v (p ++ [d]) with
  | true => rw [visitB_dir_cut mn mx v p d cs hc]; simp
  | false => rw [visitB_dir_not_cut mn mx v p d cs hc]; simp

mutual
  theorem visitB_sublist_full (mn : Nat) (mx : Option Nat) (v : Entry → Bool) :
      ∀ (w : WNode) (p : List Str), (visitB mn mx v p w).Sublist (visitB 0 none never p w)
    | .leaf nm k, p => by
      simp only [visitB, Nat.not_lt_zero, if_false]
      split
      · exact List.nil_sublist _
      · exact List.Sublist.refl _
    | .errChild nm a, p => by simp [visitB]
    | .errHere, p => by simp [visitB]
    | .dir nm cs, p => by
      rw [visitB_dir_eq mn mx v, visitB_dir_eq 0 none never, cutAt_full]
      apply List.Sublist.append
      · simp only [Nat.not_lt_zero, if_false]
        split
        · exact List.nil_sublist _
        · exact List.Sublist.refl _
      · simp only [Bool.false_eq_true, if_false]
        split
        · exact List.nil_sublist _
        · exact visitListB_sublist_full mn mx v cs (p ++ [nm])
  /-- whatever the bounds and the verdict, the walk yields a sublist of what the unbounded walk that
      never discards yields -/
  theorem visitListB_sublist_full (mn : Nat) (mx : Option Nat) (v : Entry → Bool) :
      ∀ (ws : List WNode) (p : List Str),
        (visitListB mn mx v p ws).Sublist (visitListB 0 none never p ws)
    | [], _ => by simp [visitListB]
    | w :: ws, p => by
      simp only [visitListB]
      exact (visitB_sublist_full mn mx v w p).append (visitListB_sublist_full mn mx v ws p)
end

/-- what lies at or beneath a node that occurs in the tree is, under any bounds and verdict, an
    item of the full walk of that node -/
theorem under_occurs (follow : Bool) (mn : Nat) (mx : Option Nat) (v : Entry → Bool) {p p' : List Str}
    {t : List RNode} {n : RNode} (hd : distinctR t = true) (ho : Occurs follow p t p' n)
    {it : Item} (hit : it ∈ visitListB mn mx v p (viewList follow t))
    (hu : (p' ++ [n.name]) <+: it.names) : it ∈ visitB 0 none never p' (view follow n) := by
  rw [← focus follow 0 none never hd ho]
  exact List.mem_filter.mpr
    ⟨(visitListB_sublist_full mn mx v _ p).subset hit, by simpa [Item.under] using hu⟩

/-! ## 1. links read as files (`LinkBehavior::ReadFile`, `follow = false`) -/

/-- by the definition of `view`: read as a file, a link of any kind is a leaf of link type, whatever
    is behind it (this is what the model *asserts*; it is checked against the crate by the
    differential walks, not proved) -/
theorem view_readfile_link (n : RNode) (h : n.isLink = true) : view false n = .leaf n.name .l := by
  cases n <;> simp [RNode.isLink] at h <;> simp [view, RNode.name]

/-- the walk of a link read as a file: one Ok entry of link type (not a directory), unless
    `min_depth` hides it; no error item; whatever the verdict -/
theorem visitB_readfile_link (mn : Nat) (mx : Option Nat) (v : Entry → Bool) (p : List Str) (n : RNode)
    (h : n.isLink = true) :
    visitB mn mx v p (view false n) =
      if p.length + 1 < mn then [] else [.ok ⟨p ++ [n.name], .l⟩] := by
  rw [view_readfile_link n h]; rfl

mutual
  /-- the recorded tree with everything behind its links forgotten -/
  def sever : RNode → RNode
    | .dir n cs => .dir n (severList cs)
    | .linkDir n _ => .linkDangling n
    | .linkFile n => .linkDangling n
    | .linkCycle n => .linkDangling n
    | .linkUnreadable n => .linkDangling n
    | n => n
  def severList : List RNode → List RNode
    | [] => []
    | n :: ns => sever n :: severList ns
end

mutual
  theorem view_sever : ∀ n : RNode, view false (sever n) = view false n
    | .file _ => rfl
    | .unreadable _ => rfl
    | .linkDangling _ => rfl
    | .linkFile _ => rfl
    | .linkCycle _ => rfl
    | .linkUnreadable _ => rfl
    | .linkDir _ _ => rfl
    | .dir n cs => by simp [sever, view, viewList_sever cs]
  /-- **read as files, the targets of links play no part**: walkdir sees the same tree when every
      link is replaced by a link to nothing of the same name (no hypothesis on names) -/
  theorem viewList_sever : ∀ t : List RNode, viewList false (severList t) = viewList false t
    | [] => rfl
    | n :: ns => by simp [severList, viewList, view_sever n, viewList_sever ns]
end

/-- hence every walk, with any bounds and verdict, yields the same items on the severed tree -/
theorem readfile_ignores_targets (mn : Nat) (mx : Option Nat) (v : Entry → Bool) (p : List Str)
    (t : List RNode) :
    visitListB mn mx v p (viewList false (severList t)) = visitListB mn mx v p (viewList false t) := by
  rw [viewList_sever]

/-- **C15, `ReadFile`, a link the walk reaches**: in a recorded forest without clashing names, for
    any bounds and any verdict, the items of the walk that lie at or beneath the path of a reached
    link — of any kind: to a file, to a directory with any contents, to nothing, to an ancestor, to
    an unreadable directory — are exactly ONE Ok entry of link type at the link's path (none when
    `min_depth` hides it).  So the link is yielded once and is not a directory; nothing is yielded
    beneath it; no error item is produced for it. -/
theorem readfile_never_descends (mn : Nat) (mx : Option Nat) (v : Entry → Bool) {p p' : List Str}
    {t : List RNode} {n : RNode} (hd : distinctR t = true) (hl : n.isLink = true)
    (hr : Reached false mn mx v p t p' n) :
    (visitListB mn mx v p (viewList false t)).filter (Item.under (p' ++ [n.name])) =
      if p'.length + 1 < mn then [] else [.ok ⟨p' ++ [n.name], .l⟩] := by
  rw [focus false mn mx v hd hr, visitB_readfile_link mn mx v p' n hl]

/-- **C15, `ReadFile`, every link of the tree, reached or not**: whatever the bounds and the verdict,
    an item of the walk whose path is or extends the path of a link (one that is not itself behind
    a link) IS the Ok entry of link type for that link: no item has a path that properly extends
    the path of a link, and no error item stands at the path of a link -/
theorem readfile_nothing_beneath_link (mn : Nat) (mx : Option Nat) (v : Entry → Bool)
    {p p' : List Str} {t : List RNode} {n : RNode} (hd : distinctR t = true) (hl : n.isLink = true)
    (ho : Occurs false p t p' n) {it : Item} (hit : it ∈ visitListB mn mx v p (viewList false t))
    (hu : (p' ++ [n.name]) <+: it.names) : it = .ok ⟨p' ++ [n.name], .l⟩ := by
  have := under_occurs false mn mx v hd ho hit hu
  rw [visitB_readfile_link 0 none never p' n hl] at this
  simpa using this

/-- no item properly extends the path of a link -/
theorem readfile_no_item_extends_link (mn : Nat) (mx : Option Nat) (v : Entry → Bool)
    {p p' : List Str} {t : List RNode} {n : RNode} (hd : distinctR t = true) (hl : n.isLink = true)
    (ho : Occurs false p t p' n) {it : Item} (hit : it ∈ visitListB mn mx v p (viewList false t))
    (hu : (p' ++ [n.name]) <+: it.names) : it.names = p' ++ [n.name] := by
  rw [readfile_nothing_beneath_link mn mx v hd hl ho hit hu]; rfl

/-- no error item stands at or beneath the path of a link -/
theorem readfile_no_error_at_link (mn : Nat) (mx : Option Nat) (v : Entry → Bool)
    {p p' : List Str} {t : List RNode} {n : RNode} (hd : distinctR t = true) (hl : n.isLink = true)
    (ho : Occurs false p t p' n) (q : List Str) (a : Bool)
    (hit : Item.err q a ∈ visitListB mn mx v p (viewList false t)) : ¬ (p' ++ [n.name]) <+: q := by
  intro hu
  have := readfile_nothing_beneath_link mn mx v hd hl ho hit hu
  cases this

mutual
  /-- no unreadable directory outside the links of the tree -/
  def RNode.allReadable : RNode → Bool
    | .unreadable _ => false
    | .dir _ cs => allReadableL cs
    | _ => true
  def allReadableL : List RNode → Bool
    | [] => true
    | n :: ns => n.allReadable && allReadableL ns
end

mutual
  theorem readfile_no_errors_node (mn : Nat) (mx : Option Nat) (v : Entry → Bool) :
      ∀ (n : RNode) (p : List Str), n.allReadable = true →
        errItems (visitB mn mx v p (view false n)) = []
    | .file nm, p, _ => by
      simp only [view, visitB]; split <;> simp
    | .unreadable _, _, h => by simp [RNode.allReadable] at h
    | .linkDangling nm, p, _ => by rw [visitB_readfile_link mn mx v p _ rfl]; split <;> simp
    | .linkFile nm, p, _ => by rw [visitB_readfile_link mn mx v p _ rfl]; split <;> simp
    | .linkCycle nm, p, _ => by rw [visitB_readfile_link mn mx v p _ rfl]; split <;> simp
    | .linkUnreadable nm, p, _ => by rw [visitB_readfile_link mn mx v p _ rfl]; split <;> simp
    | .linkDir nm cs, p, _ => by rw [visitB_readfile_link mn mx v p _ rfl]; split <;> simp
    | .dir nm cs, p, h => by
      have ih := readfile_no_errors_list mn mx v cs (p ++ [nm]) (by simpa [RNode.allReadable] using h)
      simp only [view]
      rw [visitB_dir_eq, errItems_append]
      have h1 : errItems (if p.length + 1 < mn then [] else [Item.ok ⟨p ++ [nm], .d⟩]) = [] := by
        split <;> simp
      rw [h1, List.nil_append]
      split
      · rfl
      · exact ih
  /-- **no hypothesis on names**: read as files, links never produce an error item — if no
      directory of the tree (outside its links) is unreadable, the walk yields no error item at
      all, whatever the links point to (nothing, an ancestor, an unreadable directory) -/
  theorem readfile_no_errors_list (mn : Nat) (mx : Option Nat) (v : Entry → Bool) :
      ∀ (t : List RNode) (p : List Str), allReadableL t = true →
        errItems (visitListB mn mx v p (viewList false t)) = []
    | [], _, _ => rfl
    | n :: ns, p, h => by
      simp only [allReadableL, Bool.and_eq_true] at h
      simp only [viewList, visitListB, errItems_append,
        readfile_no_errors_node mn mx v n p h.1, readfile_no_errors_list mn mx v ns p h.2,
        List.append_nil]
end

/-- names must not clash for the path-based statements: with a link and a directory of the same name
    in one directory (impossible on a file system, expressible in `RNode`), an item does extend the
    path of the link -/
theorem readfile_nothing_beneath_needs_distinct :
    let t : List RNode := [.linkDir ['a'] [], .dir ['a'] [.file ['x']]]
    Occurs false [] t [] (.linkDir ['a'] []) ∧
    Item.ok ⟨[['a'], ['x']], .f⟩ ∈ visitListB 0 none never [] (viewList false t) ∧
    distinctR t = false := by
  refine ⟨.here (.head _), by decide, by decide⟩

/-! ## 2. links read as their targets (`LinkBehavior::ReadTarget`, `follow = true`) -/

/-- by the definition of `view`: read as its target, a link to a directory is what the directory of
    the same name with the recorded contents would be (again: asserted by the model, checked by the
    differential walks) -/
theorem view_readtarget_linkDir (d : Str) (cs : List RNode) :
    view true (.linkDir d cs) = view true (.dir d cs) := rfl

theorem view_readtarget_linkFile (nm : Str) : view true (.linkFile nm) = view true (.file nm) := rfl

/-- **C15, `ReadTarget`, a link to a directory**: the items at or beneath the path of a reached link
    to a directory are the walk of a directory of that name holding the recorded contents: unless the
    bounds or the verdict cut it, the link is yielded as ONE Ok entry of directory type at the LINK's
    path, followed by the walk of the recorded contents read in the directory that is the link's
    path (so every item of it lies beneath the link's path, `visitListB_under`) -/
theorem readtarget_descends (mn : Nat) (mx : Option Nat) (v : Entry → Bool) {p p' : List Str}
    {t : List RNode} {d : Str} {cs : List RNode} (hd : distinctR t = true)
    (hr : Reached true mn mx v p t p' (.linkDir d cs)) :
    (visitListB mn mx v p (viewList true t)).filter (Item.under (p' ++ [d])) =
      (if p'.length + 1 < mn then [] else [.ok ⟨p' ++ [d], .d⟩]) ++
        (if cutAt mn mx v (p' ++ [d]) then []
         else visitListB mn mx v (p' ++ [d]) (viewList true cs)) := by
  have := focus true mn mx v hd hr
  simp only [RNode.name] at this
  rw [this]
  simp only [view, if_true]
  exact visitB_dir_eq mn mx v p' d (viewList true cs)

/-- the link is indistinguishable from a directory: the same items as for `.dir d cs` in its place -/
theorem readtarget_link_as_dir (mn : Nat) (mx : Option Nat) (v : Entry → Bool) {p p' : List Str}
    {t : List RNode} {d : Str} {cs : List RNode} (hd : distinctR t = true)
    (hr : Reached true mn mx v p t p' (.linkDir d cs)) :
    (visitListB mn mx v p (viewList true t)).filter (Item.under (p' ++ [d])) =
      visitB mn mx v p' (view true (.dir d cs)) :=
  focus true mn mx v hd hr

/-- what is found through a reached link to a directory is reached in turn, in the directory that is
    the link's path -/
theorem reached_through_link {mn : Nat} {mx : Option Nat} {v : Entry → Bool} {p p' : List Str}
    {t : List RNode} {d : Str} {cs : List RNode} {n : RNode}
    (hr : Reached true mn mx v p t p' (.linkDir d cs)) (hc : cutAt mn mx v (p' ++ [d]) = false)
    (hn : n ∈ cs) : Reached true mn mx v p t (p' ++ [d]) n := by
  generalize hk : RNode.linkDir d cs = k at hr
  induction hr with
  | here hm => subst hk; exact .inLink rfl hm hc (.here hn)
  | inDir hm hcut _ ih => exact .inDir hm hcut (ih hc hk)
  | inLink hf hm hcut _ ih => exact .inLink hf hm hcut (ih hc hk)

/-- **C15, `ReadTarget`, a link to a file**: ONE Ok entry of file type at the link's path -/
theorem readtarget_link_file (mn : Nat) (mx : Option Nat) (v : Entry → Bool) {p p' : List Str}
    {t : List RNode} {nm : Str} (hd : distinctR t = true)
    (hr : Reached true mn mx v p t p' (.linkFile nm)) :
    (visitListB mn mx v p (viewList true t)).filter (Item.under (p' ++ [nm])) =
      if p'.length + 1 < mn then [] else [.ok ⟨p' ++ [nm], .f⟩] :=
  focus true mn mx v hd hr

/-- the two `ReadTarget` clauses of the property together -/
theorem readtarget_follows (mn : Nat) (mx : Option Nat) (v : Entry → Bool) {p p' : List Str}
    {t : List RNode} (hd : distinctR t = true) :
    (∀ d cs, Reached true mn mx v p t p' (.linkDir d cs) →
      (visitListB mn mx v p (viewList true t)).filter (Item.under (p' ++ [d])) =
        (if p'.length + 1 < mn then [] else [.ok ⟨p' ++ [d], .d⟩]) ++
          (if cutAt mn mx v (p' ++ [d]) then []
           else visitListB mn mx v (p' ++ [d]) (viewList true cs))) ∧
    (∀ nm, Reached true mn mx v p t p' (.linkFile nm) →
      (visitListB mn mx v p (viewList true t)).filter (Item.under (p' ++ [nm])) =
        if p'.length + 1 < mn then [] else [.ok ⟨p' ++ [nm], .f⟩]) :=
  ⟨fun _ _ hr => readtarget_descends mn mx v hd hr, fun _ hr => readtarget_link_file mn mx v hd hr⟩

mutual
  /-- the recorded tree with every link to a file or to a readable directory replaced by what it
      points to -/
  def resolveLinks : RNode → RNode
    | .dir n cs => .dir n (resolveLinksL cs)
    | .linkDir n cs => .dir n (resolveLinksL cs)
    | .linkFile n => .file n
    | n => n
  def resolveLinksL : List RNode → List RNode
    | [] => []
    | n :: ns => resolveLinks n :: resolveLinksL ns
end

mutual
  theorem view_resolveLinks : ∀ n : RNode, view true (resolveLinks n) = view true n
    | .file _ => rfl
    | .unreadable _ => rfl
    | .linkDangling _ => rfl
    | .linkFile _ => rfl
    | .linkCycle _ => rfl
    | .linkUnreadable _ => rfl
    | .linkDir n cs => by simp [resolveLinks, view, viewList_resolveLinks cs]
    | .dir n cs => by simp [resolveLinks, view, viewList_resolveLinks cs]
  /-- **read as their targets, sound links are transparent** (no hypothesis on names): walkdir sees
      the same tree when every link to a file is replaced by a file and every link to a readable
      directory by a directory holding the recorded contents -/
  theorem viewList_resolveLinks : ∀ t : List RNode, viewList true (resolveLinksL t) = viewList true t
    | [] => rfl
    | n :: ns => by simp [resolveLinksL, viewList, view_resolveLinks n, viewList_resolveLinks ns]
end

theorem readtarget_transparent (mn : Nat) (mx : Option Nat) (v : Entry → Bool) (p : List Str)
    (t : List RNode) :
    visitListB mn mx v p (viewList true (resolveLinksL t)) = visitListB mn mx v p (viewList true t) := by
  rw [viewList_resolveLinks]

/-! ## 3. re-entrant and dangling links under `ReadTarget` -/

/-- by the definition of `view`: read as its target, a link that re-enters one of its ancestors is
    an error leaf at the link's name, with its path attached -/
theorem view_readtarget_cycle (nm : Str) : view true (.linkCycle nm) = .errChild nm false := rfl
theorem view_readtarget_dangling (nm : Str) : view true (.linkDangling nm) = .errChild nm false := rfl
/-- … and a link to a directory that cannot be opened is an error leaf whose item carries no path -/
theorem view_readtarget_unreadable (nm : Str) : view true (.linkUnreadable nm) = .errChild nm true := rfl

/-- **C15, `ReadTarget`, re-entrant and dangling links**: the items at or beneath the path of a
    reached link that re-enters an ancestor, or that points to nothing, are exactly ONE error item
    naming the link's path (hence at the link's depth `p'.length + 1`), whatever `min_depth`,
    `max_depth` and the verdict: no Ok entry for the link, nothing beneath it — the link is not
    followed -/
theorem readtarget_cycle_error (mn : Nat) (mx : Option Nat) (v : Entry → Bool) {p p' : List Str}
    {t : List RNode} {n : RNode} {nm : Str} (hd : distinctR t = true)
    (hk : n = .linkCycle nm ∨ n = .linkDangling nm) (hr : Reached true mn mx v p t p' n) :
    (visitListB mn mx v p (viewList true t)).filter (Item.under (p' ++ [nm])) =
      [.err (p' ++ [nm]) false] := by
  have := focus true mn mx v hd hr
  rcases hk with hk | hk <;> subst hk <;> exact this

/-- a link to an unreadable directory: ONE error item at the link's depth, without its path -/
theorem readtarget_unreadable_error (mn : Nat) (mx : Option Nat) (v : Entry → Bool) {p p' : List Str}
    {t : List RNode} {nm : Str} (hd : distinctR t = true)
    (hr : Reached true mn mx v p t p' (.linkUnreadable nm)) :
    (visitListB mn mx v p (viewList true t)).filter (Item.under (p' ++ [nm])) =
      [.err (p' ++ [nm]) true] :=
  focus true mn mx v hd hr

theorem errItems_filter_comm (f : Item → Bool) (l : List Item) :
    (errItems l).filter f = errItems (l.filter f) := by
  simp only [errItems, List.filter_filter]
  congr 1; funext it; exact Bool.and_comm _ _

/-- the same through `error_items_exactB`: among the error leaves of the forest the walk reads (the
    view pruned where the verdict and the bounds cut it), those at or beneath the link's path are
    the one leaf that stands for the link -/
theorem readtarget_cycle_error_leaf (mn : Nat) (mx : Option Nat) (v : Entry → Bool) {p p' : List Str}
    {t : List RNode} {n : RNode} {nm : Str} (hd : distinctR t = true)
    (hk : n = .linkCycle nm ∨ n = .linkDangling nm) (hr : Reached true mn mx v p t p' n) :
    (errLeavesList p (pruneListB mn mx v p (viewList true t))).filter (Item.under (p' ++ [nm])) =
      [.err (p' ++ [nm]) false] := by
  rw [← error_items_exactB, errItems_filter_comm, readtarget_cycle_error mn mx v hd hk hr]
  rfl

/-- … and so the error item is among the error items of the walk -/
theorem readtarget_cycle_error_mem (mn : Nat) (mx : Option Nat) (v : Entry → Bool) {p p' : List Str}
    {t : List RNode} {n : RNode} {nm : Str} (hd : distinctR t = true)
    (hk : n = .linkCycle nm ∨ n = .linkDangling nm) (hr : Reached true mn mx v p t p' n) :
    Item.err (p' ++ [nm]) false ∈ errItems (visitListB mn mx v p (viewList true t)) := by
  have h : Item.err (p' ++ [nm]) false ∈
      (visitListB mn mx v p (viewList true t)).filter (Item.under (p' ++ [nm])) := by
    rw [readtarget_cycle_error mn mx v hd hk hr]; simp
  have := (List.mem_filter.mp h).1
  exact List.mem_filter.mpr ⟨this, rfl⟩

/-- every link of the tree that occurs (reached or not), any bounds and verdict: an item at or
    beneath a re-entrant or dangling link is the error item that names it -/
theorem readtarget_nothing_beneath_cycle (mn : Nat) (mx : Option Nat) (v : Entry → Bool)
    {p p' : List Str} {t : List RNode} {n : RNode} {nm : Str} (hd : distinctR t = true)
    (hk : n = .linkCycle nm ∨ n = .linkDangling nm) (ho : Occurs true p t p' n) {it : Item}
    (hit : it ∈ visitListB mn mx v p (viewList true t)) (hu : (p' ++ [nm]) <+: it.names) :
    it = .err (p' ++ [nm]) false := by
  have hn : n.name = nm := by rcases hk with hk | hk <;> subst hk <;> rfl
  have := under_occurs true mn mx v hd ho hit (by rw [hn]; exact hu)
  rcases hk with hk | hk <;> subst hk <;> simpa [view, visitB] using this

/-! ## 4. the two behaviours differ only at links -/

mutual
  /-- no link anywhere in the recorded tree -/
  def RNode.linkFree : RNode → Bool
    | .file _ => true
    | .unreadable _ => true
    | .dir _ cs => linkFreeL cs
    | _ => false
  def linkFreeL : List RNode → Bool
    | [] => true
    | n :: ns => n.linkFree && linkFreeL ns
end

mutual
  theorem view_linkFree : ∀ n : RNode, n.linkFree = true → view false n = view true n
    | .file _, _ => rfl
    | .unreadable _, _ => rfl
    | .linkDangling _, h => by simp [RNode.linkFree] at h
    | .linkFile _, h => by simp [RNode.linkFree] at h
    | .linkCycle _, h => by simp [RNode.linkFree] at h
    | .linkUnreadable _, h => by simp [RNode.linkFree] at h
    | .linkDir _ _, h => by simp [RNode.linkFree] at h
    | .dir n cs, h => by
      simp only [view]
      rw [viewList_linkFree cs (by simpa [RNode.linkFree] using h)]
  /-- walkdir sees the same tree under either behaviour when there is no link in it -/
  theorem viewList_linkFree : ∀ t : List RNode, linkFreeL t = true → viewList false t = viewList true t
    | [], _ => rfl
    | n :: ns, h => by
      simp only [linkFreeL, Bool.and_eq_true] at h
      simp only [viewList, view_linkFree n h.1, viewList_linkFree ns h.2]
end

/-- **C15, no links**: the walks of a tree without links yield the same items under `ReadFile` and
    `ReadTarget`, for any bounds and verdict -/
theorem links_only_differ_at_links (mn : Nat) (mx : Option Nat) (v : Entry → Bool) (p : List Str)
    (t : List RNode) (h : linkFreeL t = true) :
    visitListB mn mx v p (viewList false t) = visitListB mn mx v p (viewList true t) := by
  rw [viewList_linkFree t h]

/-- the same for the root of a walk … -/
theorem rootView_linkFree (final : Bool) (r : RNode) (h : r.linkFree = true) :
    rootView false final r = rootView true final r := by
  cases r with
  | file _ => rfl
  | unreadable _ => rfl
  | dir n cs =>
    simp only [rootView]
    rw [viewList_linkFree cs (by simpa [RNode.linkFree] using h)]
  | linkDangling _ => simp [RNode.linkFree] at h
  | linkFile _ => simp [RNode.linkFree] at h
  | linkCycle _ => simp [RNode.linkFree] at h
  | linkUnreadable _ => simp [RNode.linkFree] at h
  | linkDir _ _ => simp [RNode.linkFree] at h

/-- … and so for the whole walk of the executable machine, root entry included -/
theorem links_only_differ_at_links_walk (mn : Nat) (mx : Option Nat) (v : Entry → Bool) (final : Bool)
    (r : RNode) (h : r.linkFree = true) :
    (rootView false final r).map (walkItems mn mx v) = (rootView true final r).map (walkItems mn mx v) := by
  rw [rootView_linkFree final r h]

/-! ### … and on a tree with links, the walks agree away from the links -/

mutual
  /-- the paths of the outermost links of the tree (those not behind another link) -/
  def linkPaths (p : List Str) : RNode → List (List Str)
    | .file _ => []
    | .unreadable _ => []
    | .dir n cs => linkPathsL (p ++ [n]) cs
    | .linkDangling n => [p ++ [n]]
    | .linkFile n => [p ++ [n]]
    | .linkDir n _ => [p ++ [n]]
    | .linkCycle n => [p ++ [n]]
    | .linkUnreadable n => [p ++ [n]]
  def linkPathsL (p : List Str) : List RNode → List (List Str)
    | [] => []
    | n :: ns => linkPaths p n ++ linkPathsL p ns
end

/-- the item lies neither at nor beneath any of the paths -/
def Item.clearOf (L : List (List Str)) (it : Item) : Bool := L.all (fun l => !it.under l)

theorem filter_clearOf_nil (L : List (List Str)) (l : List Str) (hl : l ∈ L) (xs : List Item)
    (h : ∀ it ∈ xs, l <+: it.names) : xs.filter (Item.clearOf L) = [] := by
  apply List.filter_eq_nil_iff.mpr
  intro it hit hc
  simp only [Item.clearOf, List.all_eq_true] at hc
  have := hc l hl
  simp [Item.under, h it hit] at this

theorem linkPaths_of_link (p : List Str) (n : RNode) (h : n.isLink = true) :
    linkPaths p n = [p ++ [n.name]] := by
  cases n <;> simp [RNode.isLink] at h <;> rfl

/-- at a link both walks yield only items at or beneath the link's path -/
theorem visitB_clear_link (mn : Nat) (mx : Option Nat) (v : Entry → Bool) (L : List (List Str))
    (n : RNode) (p : List Str) (hl : n.isLink = true) (h : ∀ l ∈ linkPaths p n, l ∈ L) :
    (visitB mn mx v p (view false n)).filter (Item.clearOf L) =
      (visitB mn mx v p (view true n)).filter (Item.clearOf L) := by
  have hmem : p ++ [n.name] ∈ L := h _ (by rw [linkPaths_of_link p n hl]; simp)
  rw [filter_clearOf_nil L _ hmem _ (fun it hit =>
        (visitB_under mn mx v (view false n) p it hit).2 n.name (view_name false n)),
    filter_clearOf_nil L _ hmem _ (fun it hit =>
        (visitB_under mn mx v (view true n) p it hit).2 n.name (view_name true n))]

mutual
  theorem visitB_clear (mn : Nat) (mx : Option Nat) (v : Entry → Bool) (L : List (List Str)) :
      ∀ (n : RNode) (p : List Str), (∀ l ∈ linkPaths p n, l ∈ L) →
        (visitB mn mx v p (view false n)).filter (Item.clearOf L) =
          (visitB mn mx v p (view true n)).filter (Item.clearOf L)
    | .file _, _, _ => rfl
    | .unreadable _, _, _ => rfl
    | .dir nm cs, p, h => by
      have ih := visitListB_clear mn mx v L cs (p ++ [nm]) (by simpa [linkPaths] using h)
      simp only [view]
      rw [visitB_dir_eq, visitB_dir_eq, List.filter_append, List.filter_append]
      congr 1
      split
      · rfl
      · exact ih
    | .linkDangling nm, p, h => visitB_clear_link mn mx v L _ p rfl h
    | .linkFile nm, p, h => visitB_clear_link mn mx v L _ p rfl h
    | .linkDir nm cs, p, h => visitB_clear_link mn mx v L _ p rfl h
    | .linkCycle nm, p, h => visitB_clear_link mn mx v L _ p rfl h
    | .linkUnreadable nm, p, h => visitB_clear_link mn mx v L _ p rfl h
  theorem visitListB_clear (mn : Nat) (mx : Option Nat) (v : Entry → Bool) (L : List (List Str)) :
      ∀ (t : List RNode) (p : List Str), (∀ l ∈ linkPathsL p t, l ∈ L) →
        (visitListB mn mx v p (viewList false t)).filter (Item.clearOf L) =
          (visitListB mn mx v p (viewList true t)).filter (Item.clearOf L)
    | [], _, _ => rfl
    | n :: ns, p, h => by
      simp only [linkPathsL, List.mem_append] at h
      simp only [viewList, visitListB, List.filter_append]
      rw [visitB_clear mn mx v L n p (fun l hl => h l (Or.inl hl)),
        visitListB_clear mn mx v L ns p (fun l hl => h l (Or.inr hl))]
end

/-- **C15, any tree**: for any bounds and verdict, the `ReadFile` walk and the `ReadTarget` walk of
    a recorded tree yield the same items, in the same order, away from its links — once the items at
    or beneath the path of an (outermost) link are set aside, nothing distinguishes them (no
    hypothesis on names) -/
theorem differ_only_at_links (mn : Nat) (mx : Option Nat) (v : Entry → Bool) (p : List Str)
    (t : List RNode) :
    (visitListB mn mx v p (viewList false t)).filter (Item.clearOf (linkPathsL p t)) =
      (visitListB mn mx v p (viewList true t)).filter (Item.clearOf (linkPathsL p t)) :=
  visitListB_clear mn mx v _ t p (fun _ h => h)

/-! ## whole walks: the executable machine from the root entry on -/

theorem walkItems_dir_eq (mn : Nat) (mx : Option Nat) (v : Entry → Bool) (ws : List WNode) :
    walkItems mn mx v (.dir ws) =
      (if 0 < mn then [] else [.ok ⟨[], .d⟩]) ++
        (if cutAt mn mx v [] then [] else visitListB mn mx v [] ws) := by
  rw [walkItems_eq_spec]
  simp only [walkSpec, cutAt, List.length_nil, Nat.zero_add]
  by_cases hm : 0 < mn
  · simp [hm]
  · by_cases hv : v ⟨[], .d⟩ = true
    · simp [hm, hv]
    · simp [hm, hv]

theorem walkItems_link_eq (mn : Nat) (mx : Option Nat) (v : Entry → Bool) (ws : List WNode) :
    walkItems mn mx v (.link ws) =
      (if 0 < mn then [] else [.ok ⟨[], .l⟩]) ++
        (if over 1 mx then [] else visitListB mn mx v [] ws) := by
  rw [walkItems_eq_spec]
  simp only [walkSpec]
  by_cases hm : 0 < mn <;> simp [hm]

theorem filter_under_root_entry (mn : Nat) (k : Kind) (q : List Str) (nm : Str) :
    (if 0 < mn then [] else [Item.ok ⟨[], k⟩]).filter (Item.under (q ++ [nm])) = [] := by
  apply List.filter_eq_nil_iff.mpr
  intro it hit hu
  split at hit
  · cases hit
  · have : it = .ok ⟨[], k⟩ := by simpa using hit
    subst this
    have hu : (q ++ [nm]) <+: [] := of_decide_eq_true hu
    have := hu.length_le
    simp at this

/-- **focus for the whole walk** (the machine `walkItems` on the root of a recorded directory `cs`,
    under either link behaviour): the items at or beneath a node the walk reaches are the walk of
    what walkdir sees of that node — nothing when the root itself is cut -/
theorem walk_focus (follow : Bool) (mn : Nat) (mx : Option Nat) (v : Entry → Bool) {p' : List Str}
    {cs : List RNode} {n : RNode} (hd : distinctR cs = true) (hr : Reached follow mn mx v [] cs p' n) :
    (walkItems mn mx v (.dir (viewList follow cs))).filter (Item.under (p' ++ [n.name])) =
      if cutAt mn mx v [] then [] else visitB mn mx v p' (view follow n) := by
  rw [walkItems_dir_eq, List.filter_append, filter_under_root_entry, List.nil_append]
  split
  · rfl
  · exact focus follow mn mx v hd hr

/-- the root of the walk is a recorded directory: walkdir sees its children through `viewList` -/
theorem rootView_dir (follow final : Bool) (r : Str) (cs : List RNode) :
    rootView follow final (.dir r cs) = some (.dir (viewList follow cs)) := rfl

/-- goal 1 for the whole walk of the machine -/
theorem readfile_never_descends_walk (mn : Nat) (mx : Option Nat) (v : Entry → Bool) {p' : List Str}
    {cs : List RNode} {n : RNode} (hd : distinctR cs = true) (hl : n.isLink = true)
    (hr : Reached false mn mx v [] cs p' n) (hroot : cutAt mn mx v [] = false) :
    (walkItems mn mx v (.dir (viewList false cs))).filter (Item.under (p' ++ [n.name])) =
      if p'.length + 1 < mn then [] else [.ok ⟨p' ++ [n.name], .l⟩] := by
  rw [walk_focus false mn mx v hd hr, visitB_readfile_link mn mx v p' n hl]
  simp [hroot]

/-- goal 2 for the whole walk of the machine -/
theorem readtarget_descends_walk (mn : Nat) (mx : Option Nat) (v : Entry → Bool) {p' : List Str}
    {cs : List RNode} {d : Str} {ds : List RNode} (hd : distinctR cs = true)
    (hr : Reached true mn mx v [] cs p' (.linkDir d ds)) (hroot : cutAt mn mx v [] = false) :
    (walkItems mn mx v (.dir (viewList true cs))).filter (Item.under (p' ++ [d])) =
      (if p'.length + 1 < mn then [] else [.ok ⟨p' ++ [d], .d⟩]) ++
        (if cutAt mn mx v (p' ++ [d]) then []
         else visitListB mn mx v (p' ++ [d]) (viewList true ds)) := by
  have := walk_focus true mn mx v hd hr
  simp only [RNode.name] at this
  rw [this]
  simp only [hroot, Bool.false_eq_true, if_false, view, if_true]
  exact visitB_dir_eq mn mx v p' d (viewList true ds)

/-- goal 3 for the whole walk of the machine -/
theorem readtarget_cycle_error_walk (mn : Nat) (mx : Option Nat) (v : Entry → Bool) {p' : List Str}
    {cs : List RNode} {n : RNode} {nm : Str} (hd : distinctR cs = true)
    (hk : n = .linkCycle nm ∨ n = .linkDangling nm) (hr : Reached true mn mx v [] cs p' n)
    (hroot : cutAt mn mx v [] = false) :
    (walkItems mn mx v (.dir (viewList true cs))).filter (Item.under (p' ++ [nm])) =
      [.err (p' ++ [nm]) false] := by
  have := walk_focus true mn mx v hd hr
  rcases hk with hk | hk <;> subst hk <;> simpa [hroot, RNode.name, view, visitB] using this

/-- the same for the items of a walk with its glob and its stack of combinators -/
theorem readfile_never_descends_items (π : Pipeline) (mn : Nat) (mx : Option Nat) {p' : List Str}
    {cs : List RNode} {n : RNode} (hd : distinctR cs = true) (hl : n.isLink = true)
    (hr : Reached false mn mx π.cancels [] cs p' n) (hroot : cutAt mn mx π.cancels [] = false) :
    (π.items mn mx (.dir (viewList false cs))).filter (Item.under (p' ++ [n.name])) =
      if p'.length + 1 < mn then [] else [.ok ⟨p' ++ [n.name], .l⟩] :=
  readfile_never_descends_walk mn mx π.cancels hd hl hr hroot

theorem readtarget_cycle_error_items (π : Pipeline) (mn : Nat) (mx : Option Nat) {p' : List Str}
    {cs : List RNode} {n : RNode} {nm : Str} (hd : distinctR cs = true)
    (hk : n = .linkCycle nm ∨ n = .linkDangling nm) (hr : Reached true mn mx π.cancels [] cs p' n)
    (hroot : cutAt mn mx π.cancels [] = false) :
    (π.items mn mx (.dir (viewList true cs))).filter (Item.under (p' ++ [nm])) =
      [.err (p' ++ [nm]) false] :=
  readtarget_cycle_error_walk mn mx π.cancels hd hk hr hroot

/-! ## the root of the walk is not an ordinary entry (C02, K-WALK-ROOT-LINK)

The statements above are about what the walk finds *below* its root.  At the root itself they
FAIL: walkdir follows the path it is started from whatever the link behaviour. -/

/-- `ReadFile`, the walk is started from a link to a directory (path without trailing separator):
    the root is reported as a link and read all the same … -/
theorem rootView_readfile_linkDir (r : Str) (cs : List RNode) :
    rootView false false (.linkDir r cs) = some (.link (viewList false cs)) := rfl

mutual
  theorem visitB_congr_below (mn : Nat) (mx : Option Nat) (v v' : Entry → Bool) :
      ∀ (w : WNode) (p : List Str), (∀ q, p <+: q → q ≠ p → v ⟨q, .d⟩ = v' ⟨q, .d⟩) →
        visitB mn mx v p w = visitB mn mx v' p w
    | .leaf _ _, _, _ => rfl
    | .errChild _ _, _, _ => rfl
    | .errHere, _, _ => rfl
    | .dir nm cs, p, H => by
      have hne : p ++ [nm] ≠ p := by
        intro h
        have := congrArg List.length h
        simp at this
      have hv := H (p ++ [nm]) (List.prefix_append _ _) hne
      have ih := visitListB_congr_below mn mx v v' cs (p ++ [nm]) (fun q hq hq' =>
        H q (prefix_snoc_left hq) (by
          intro h
          subst h
          exact not_snoc_prefix_self _ _ hq))
      have hc : cutAt mn mx v (p ++ [nm]) = cutAt mn mx v' (p ++ [nm]) := by
        simp only [cutAt, hv]
      rw [visitB_dir_eq mn mx v, visitB_dir_eq mn mx v', ih, hc]
  /-- reading the directory `p`, the verdict is consulted on entries strictly beneath `p` only -/
  theorem visitListB_congr_below (mn : Nat) (mx : Option Nat) (v v' : Entry → Bool) :
      ∀ (ws : List WNode) (p : List Str), (∀ q, p <+: q → q ≠ p → v ⟨q, .d⟩ = v' ⟨q, .d⟩) →
        visitListB mn mx v p ws = visitListB mn mx v' p ws
    | [], _, _ => rfl
    | w :: ws, p, H => by
      simp only [visitListB, visitB_congr_below mn mx v v' w p H,
        visitListB_congr_below mn mx v v' ws p H]
end

/-- … and no verdict on the root entry can stop that (`cancel_walk_tree` acts on directories): two
    verdicts that agree below the root give the same walk -/
theorem root_link_cannot_be_cancelled (mn : Nat) (mx : Option Nat) (v v' : Entry → Bool)
    (ws : List WNode) (h : ∀ e : Entry, e.names ≠ [] → v e = v' e) :
    walkItems mn mx v (.link ws) = walkItems mn mx v' (.link ws) := by
  rw [walkItems_link_eq, walkItems_link_eq,
    visitListB_congr_below mn mx v v' ws [] (fun q _ hq => h ⟨q, .d⟩ hq)]

/-- **the whole-walk reading of goal 1 is FALSE at the root**: started from a link to a directory,
    the `ReadFile` walk yields an item beneath the link — even under the verdict that discards
    everything (K-WALK-ROOT-LINK) -/
theorem readfile_root_link_is_descended :
    ¬ (∀ (r : RNode) (rv : RootView), r.isLink = true → rootView false false r = some rv →
        ∀ it ∈ walkItems 0 none always rv, it.names = []) := by
  intro h
  have := h (.linkDir ['r'] [.file ['x']]) _ rfl rfl (.ok ⟨[['x']], .f⟩) (by decide)
  simp [Item.names] at this

example : (rootView false false (.linkDir ['r'] [.file ['x']])).map (walkItems 0 none always) =
    some [.ok ⟨[], .l⟩, .ok ⟨[['x']], .f⟩] := by decide
/-- the same link found *below* the root is one entry of link type -/
example : (rootView false false (.dir ['q'] [.linkDir ['r'] [.file ['x']]])).map (walkItems 0 none never) =
    some [.ok ⟨[], .d⟩, .ok ⟨[['r']], .l⟩] := by decide
/-- with a trailing separator the root link is resolved before walkdir sees it: a directory, which
    the verdict can discard -/
example : (rootView false true (.linkDir ['r'] [.file ['x']])).map (walkItems 0 none always) =
    some [.ok ⟨[], .d⟩] := by decide

/-- **"no error item for a link" is FALSE at the root**: started from a link to nothing, the
    `ReadFile` walk yields an error item and no entry (K-WALK-ROOT-LINK) -/
theorem readfile_root_link_error :
    ¬ (∀ (r : RNode) (rv : RootView), r.isLink = true → rootView false false r = some rv →
        errItems (walkItems 0 none never rv) = []) := by
  intro h
  have := h (.linkDangling ['r']) _ rfl rfl
  revert this
  decide

example : (rootView false false (.linkDangling ['r'])).map (walkItems 0 none never) =
    some [.err [] false] := by decide
/-- the same link found below the root is one entry of link type, without error -/
example : (rootView false false (.dir ['q'] [.linkDangling ['r']])).map (walkItems 0 none never) =
    some [.ok ⟨[], .d⟩, .ok ⟨[['r']], .l⟩] := by decide
/-- a walk started from a re-entrant link is outside the model -/
example (follow final : Bool) : rootView follow final (.linkCycle ['r']) = none := rfl

/-! ## the statements are not vacuous -/

/-- `a/{x, l -> dir {y, c -> ancestor}, g -> nothing}`, `f -> file`, `u` unreadable, `k -> ancestor` -/
def linkForest : List RNode :=
  [.dir ['a'] [.file ['x'], .linkDir ['l'] [.file ['y'], .linkCycle ['c']], .linkDangling ['g']],
   .linkFile ['f'], .unreadable ['u'], .linkCycle ['k']]

example : distinctR linkForest = true := by decide

example : visitListB 0 none never [] (viewList false linkForest) =
    [.ok ⟨[['a']], .d⟩, .ok ⟨[['a'], ['x']], .f⟩, .ok ⟨[['a'], ['l']], .l⟩, .ok ⟨[['a'], ['g']], .l⟩,
     .ok ⟨[['f']], .l⟩, .ok ⟨[['u']], .d⟩, .err [['u']] false, .ok ⟨[['k']], .l⟩] := by decide

example : visitListB 0 none never [] (viewList true linkForest) =
    [.ok ⟨[['a']], .d⟩, .ok ⟨[['a'], ['x']], .f⟩, .ok ⟨[['a'], ['l']], .d⟩,
     .ok ⟨[['a'], ['l'], ['y']], .f⟩, .err [['a'], ['l'], ['c']] false, .err [['a'], ['g']] false,
     .ok ⟨[['f']], .f⟩, .ok ⟨[['u']], .d⟩, .err [['u']] false, .err [['k']] false] := by decide

/-- the link `a/l` is reached by the `ReadFile` walk with `min_depth = 2`, `max_depth = 2` … -/
theorem linkForest_reached_l :
    Reached false 2 (some 2) never [] linkForest [['a']] (.linkDir ['l'] [.file ['y'], .linkCycle ['c']]) :=
  .inDir (.head _) (by decide) (.here (.tail _ (.head _)))

/-- … so `readfile_never_descends` applies: one entry of link type, nothing beneath -/
example : (visitListB 2 (some 2) never [] (viewList false linkForest)).filter
    (Item.under [['a'], ['l']]) = [.ok ⟨[['a'], ['l']], .l⟩] :=
  readfile_never_descends 2 (some 2) never (by decide) rfl linkForest_reached_l

example : Occurs false [] linkForest [['a']] (.linkDangling ['g']) :=
  .inDir (.head _) (by decide) (.here (.tail _ (.tail _ (.head _))))

/-- the same link is reached by the unbounded `ReadTarget` walk … -/
theorem linkForest_reached_l_target :
    Reached true 0 none never [] linkForest [['a']] (.linkDir ['l'] [.file ['y'], .linkCycle ['c']]) :=
  .inDir (.head _) (by decide) (.here (.tail _ (.head _)))

/-- … so `readtarget_descends` applies: a directory entry, then the contents beneath the link's path -/
example : (visitListB 0 none never [] (viewList true linkForest)).filter (Item.under [['a'], ['l']]) =
    [.ok ⟨[['a'], ['l']], .d⟩, .ok ⟨[['a'], ['l'], ['y']], .f⟩, .err [['a'], ['l'], ['c']] false] := by
  rw [show [['a'], ['l']] = [['a']] ++ [['l']] from rfl,
    readtarget_descends 0 none never (by decide) linkForest_reached_l_target]
  decide

/-- the re-entrant link `a/l/c` behind the link `a/l` is reached (`reached_through_link`) and
    `readtarget_cycle_error` applies to it -/
example : (visitListB 0 none never [] (viewList true linkForest)).filter
    (Item.under [['a'], ['l'], ['c']]) = [.err [['a'], ['l'], ['c']] false] :=
  readtarget_cycle_error 0 none never (by decide) (Or.inl rfl)
    (reached_through_link linkForest_reached_l_target (by decide) (.tail _ (.head _)))

/-- the dangling link `a/g` -/
example : (visitListB 0 none never [] (viewList true linkForest)).filter
    (Item.under [['a'], ['g']]) = [.err [['a'], ['g']] false] :=
  readtarget_cycle_error 0 none never (t := linkForest) (p := []) (p' := [['a']]) (by decide) (Or.inr rfl)
    (.inDir (.head _) (cutAt_full _) (.here (.tail _ (.tail _ (.head _)))))

/-- the link to a file `f` -/
example : (visitListB 0 none never [] (viewList true linkForest)).filter (Item.under [['f']]) =
    [.ok ⟨[['f']], .f⟩] :=
  readtarget_link_file 0 none never (p' := []) (by decide) (.here (.tail _ (.head _)))

/-- a tree without links (and with a fault), for `links_only_differ_at_links` -/
example : linkFreeL [.dir ['a'] [.file ['x'], .unreadable ['u']], .file ['b']] = true := by decide

/-- `differ_only_at_links` on `linkForest`: away from `a/l`, `a/g`, `f`, `k` both walks yield this -/
example : linkPathsL [] linkForest = [[['a'], ['l']], [['a'], ['g']], [['f']], [['k']]] := by decide
example : (visitListB 0 none never [] (viewList true linkForest)).filter
      (Item.clearOf (linkPathsL [] linkForest)) =
    [.ok ⟨[['a']], .d⟩, .ok ⟨[['a'], ['x']], .f⟩, .ok ⟨[['u']], .d⟩, .err [['u']] false] := by decide

end Wax.Walk
