import Wax.Proofs.ExecComplete
/-!
# Paths through the program of `Re.run`, as traces

A *trace* records, in order, the union states a path enters (`Ev.s`) and the characters it consumes
(`Ev.c`).  `RunOK v t` says the path is not killed by the `enter` guard when started with visited
set `v`; `after v t` is the visited set it leaves behind.

Trace sets are built from a few combinators that mirror the combinators of `Wax/Exec.lean`
(`Seq`, `Pre`, `Or`, `LU` = the loop `U: x → U | leave`, `PL` = `x; P: x | leave`, `Exactly`,
`OptNest`, `StarT`, `RepT`).  For each combinator three properties are transported:

* `Own D A`: the states occurring in traces of `A` are in the domain `D`;
* `SP A` (*splice*): what may follow the entry of a state `x` does not depend on how `x` was
  reached: `p ++ x :: a ∈ A → q ++ x :: b ∈ A → p ++ x :: b ∈ A`.  This is "the continuation at a
  state is determined by the state", for traces;
* `FED A` (*first event determined*): all traces of `A` begin with the same kind of event (the same
  state, or a character, or all are empty).

`cut` is the cycle-cutting argument: in a splice-closed set every trace can be replaced by a
guard-respecting trace of the same word.
-/
namespace Wax

/-- events of a path through the program -/
inductive Ev where
  /-- a union state is entered -/
  | s (x : Sid)
  /-- a character is consumed -/
  | c (a : Char)

abbrev Trace := List Ev

/-- a set of traces -/
abbrev TS := Trace → Prop

/-- the characters consumed -/
def word : Trace → Str
  | [] => []
  | .s _ :: t => word t
  | .c a :: t => a :: word t

/-- the visited set after the path -/
def after (v : Vis) : Trace → Vis
  | [] => v
  | .s x :: t => after (x :: v) t
  | .c _ :: t => after [] t

/-- the `enter` guard never fires -/
def RunOK (v : Vis) : Trace → Prop
  | [] => True
  | .s x :: t => x ∉ v ∧ RunOK (x :: v) t
  | .c _ :: t => RunOK [] t

/-- kind of the first event -/
def hk : Trace → Option (Option Sid)
  | [] => none
  | .s x :: _ => some (some x)
  | .c _ :: _ => some none

theorem word_append : ∀ (a b : Trace), word (a ++ b) = word a ++ word b
  | [], b => rfl
  | .s _ :: a, b => by simp only [List.cons_append, word, word_append a b]
  | .c _ :: a, b => by simp only [List.cons_append, word, word_append a b]

theorem after_append : ∀ (a b : Trace) (v : Vis), after v (a ++ b) = after (after v a) b
  | [], _, _ => rfl
  | .s _ :: a, b, v => by simp only [List.cons_append, after, after_append a b]
  | .c _ :: a, b, v => by simp only [List.cons_append, after, after_append a b]

theorem runOK_append : ∀ (a b : Trace) (v : Vis), RunOK v (a ++ b) ↔ RunOK v a ∧ RunOK (after v a) b
  | [], _, _ => by simp [RunOK, after]
  | .s _ :: a, b, v => by simp only [List.cons_append, RunOK, after, runOK_append a b, and_assoc]
  | .c _ :: a, b, v => by simp only [List.cons_append, RunOK, after, runOK_append a b]

theorem word_map_c : ∀ (u : Str), word (u.map Ev.c) = u
  | [] => rfl
  | a :: u => by simp only [List.map, word, word_map_c u]

theorem runOK_map_c : ∀ (u : Str) (v : Vis), RunOK v (u.map Ev.c)
  | [], _ => trivial
  | _ :: u, _ => by simp only [List.map, RunOK]; exact runOK_map_c u []

theorem after_map_c : ∀ (u : Str) (v : Vis), after v (u.map Ev.c) = if u = [] then v else []
  | [], _ => rfl
  | _ :: u, _ => by
    simp only [List.map, after, after_map_c u []]
    simp

/-- nothing consumed: the old visited states are still there -/
theorem mem_after_of_mem : ∀ (t : Trace) (v : Vis) (x : Sid), word t = [] → x ∈ v → x ∈ after v t
  | [], _, _, _, h => h
  | .s y :: t, v, x, hw, h => mem_after_of_mem t (y :: v) x hw (List.mem_cons_of_mem _ h)
  | .c _ :: _, _, _, hw, _ => by simp [word] at hw

/-- nothing consumed: the states entered are in the visited set -/
theorem mem_after_of_ev : ∀ (t : Trace) (v : Vis) (x : Sid), word t = [] → Ev.s x ∈ t → x ∈ after v t
  | [], _, _, _, h => by cases h
  | .s y :: t, v, x, hw, h => by
    rcases List.mem_cons.mp h with e | h
    · have e' : x = y := by injection e
      subst e'
      exact mem_after_of_mem t (x :: v) x hw (List.mem_cons_self ..)
    · exact mem_after_of_ev t (y :: v) x hw h
  | .c _ :: _, _, _, hw, _ => by simp [word] at hw

theorem word_nil_cases : ∀ (t : Trace), word t = [] → t = [] ∨ ∃ x t', t = .s x :: t'
  | [], _ => Or.inl rfl
  | .s x :: t, _ => Or.inr ⟨x, t, rfl⟩
  | .c _ :: _, hw => by simp [word] at hw

theorem hk_eq_none {t : Trace} : hk t = none ↔ t = [] := by
  cases t with
  | nil => simp [hk]
  | cons e t => cases e <;> simp [hk]

theorem hk_append (a b : Trace) : hk (a ++ b) = if a = [] then hk b else hk a := by
  cases a with
  | nil => simp
  | cons e a => cases e <;> simp [hk]

/-! ### properties of trace sets -/

/-- the states of the traces are in `D` -/
def Own (D : Sid → Prop) (A : TS) : Prop := ∀ t, A t → ∀ x, Ev.s x ∈ t → D x

/-- what follows the entry of a state does not depend on what came before -/
def SP (A : TS) : Prop := ∀ p a q b x, A (p ++ .s x :: a) → A (q ++ .s x :: b) → A (p ++ .s x :: b)

/-- all traces begin alike -/
def FED (A : TS) : Prop := ∀ t1 t2, A t1 → A t2 → hk t1 = hk t2

structure WS (D : Sid → Prop) (A : TS) : Prop where
  own : Own D A
  sp : SP A

/-- every word of `L` has a trace -/
def Cov (L : Str → Prop) (A : TS) : Prop := ∀ u, L u → ∃ t, A t ∧ word t = u

theorem WS.mono {D D' : Sid → Prop} {A : TS} (h : WS D A) (hd : ∀ x, D x → D' x) : WS D' A :=
  ⟨fun t ht x hx => hd x (h.own t ht x hx), h.sp⟩

/-! ### the cycle-cutting argument -/

/-- a path killed by the guard re-enters a state without consuming anything in between -/
theorem not_runOK : ∀ (t : Trace) (v : Vis), ¬ RunOK v t →
    (∃ x, x ∈ v ∧ ∃ m b, t = m ++ .s x :: b ∧ word m = []) ∨
    (∃ p x m b, t = p ++ .s x :: (m ++ .s x :: b) ∧ word m = [])
  | [], _, h => absurd trivial h
  | .s x :: t, v, h => by
    by_cases hx : x ∈ v
    · exact Or.inl ⟨x, hx, [], t, rfl, rfl⟩
    · have h' : ¬ RunOK (x :: v) t := fun h' => h ⟨hx, h'⟩
      rcases not_runOK t (x :: v) h' with ⟨y, hy, m, b, e, hm⟩ | ⟨p, y, m, b, e, hm⟩
      · rcases List.mem_cons.mp hy with rfl | hy
        · exact Or.inr ⟨[], y, m, b, by rw [e]; rfl, hm⟩
        · exact Or.inl ⟨y, hy, .s x :: m, b, by rw [e]; rfl, hm⟩
      · exact Or.inr ⟨.s x :: p, y, m, b, by rw [e]; rfl, hm⟩
  | .c a :: t, v, h => by
    have h' : ¬ RunOK [] t := h
    rcases not_runOK t [] h' with ⟨y, hy, _⟩ | ⟨p, y, m, b, e, hm⟩
    · cases hy
    · exact Or.inr ⟨.c a :: p, y, m, b, by rw [e]; rfl, hm⟩

/-- **cycle cutting**: a splice-closed set has a guard-respecting trace for every word it has a
    trace for -/
theorem cut {A : TS} (hsp : SP A) : ∀ (n : Nat) (t : Trace), t.length ≤ n → A t →
    ∃ t', A t' ∧ word t' = word t ∧ RunOK [] t' := by
  intro n
  induction n with
  | zero =>
    intro t hn ht
    have : t = [] := List.length_eq_zero_iff.mp (Nat.le_zero.mp hn)
    subst this
    exact ⟨[], ht, rfl, trivial⟩
  | succ n ih =>
    intro t hn ht
    by_cases hok : RunOK [] t
    · exact ⟨t, ht, rfl, hok⟩
    · rcases not_runOK t [] hok with ⟨y, hy, _⟩ | ⟨p, x, m, b, e, hm⟩
      · cases hy
      · subst e
        have h1 : A (p ++ .s x :: b) := by
          apply hsp p (m ++ .s x :: b) (p ++ .s x :: m) b x ht
          simpa using ht
        obtain ⟨t', ht', hw, hok'⟩ := ih (p ++ .s x :: b) (by simp at hn ⊢; omega) h1
        refine ⟨t', ht', ?_, hok'⟩
        rw [hw]
        simp only [word_append, word, hm, List.nil_append]

/-! ### combinators -/

def Eps : TS := fun t => t = []

def Seq (A B : TS) : TS := fun t => ∃ a b, t = a ++ b ∧ A a ∧ B b

def Pre (x : Sid) (A : TS) : TS := fun t => ∃ a, t = .s x :: a ∧ A a

def Or (A B : TS) : TS := fun t => A t ∨ B t

/-- `U: x → U | leave` -/
inductive LU (B : TS) (U : Sid) : TS
  | leave : LU B U [.s U]
  | more {t l : Trace} : B t → LU B U l → LU B U (.s U :: (t ++ l))

/-- `x; P: x | leave` -/
def PL (B : TS) (P : Sid) : TS := Seq B (LU B P)

/-- `Q: x+ | leave` -/
def SQ (B : TS) (Q P : Sid) : TS := Pre Q (Or (PL B P) Eps)

def Exactly (B : Nat → TS) : Nat → Nat → TS
  | 0, _ => Eps
  | n + 1, i => Seq (B i) (Exactly B n (i + 1))

def OptNest (B : Nat → TS) (un : Nat → Sid) : Nat → Nat → TS
  | 0, _ => Eps
  | n + 1, i => Pre (un i) (Or (Seq (B i) (OptNest B un n (i + 1))) Eps)

def StarT (nn : Bool) (B : Nat → TS) (un : Nat → Sid) : TS :=
  if nn then LU (B 0) (un 0) else SQ (B 0) (un 0) (un 1)

def RepT (nn : Bool) (B : Nat → TS) (un : Nat → Sid) (lo : Nat) (hi : Option Nat) : TS :=
  match hi with
  | some h => if lo ≤ h then Seq (Exactly B lo 0) (OptNest B un (h - lo) lo) else fun _ => False
  | none =>
    match lo with
    | 0 => StarT nn B un
    | m + 1 => Seq (Exactly B m 0) (PL (B m) (un m))

/-! ### `Own`, `SP` -/

theorem WS.eps (D : Sid → Prop) : WS D Eps :=
  ⟨fun t ht x hx => (by cases ht; cases hx), fun p a q b x h _ => by
    have h' : p ++ Ev.s x :: a = [] := h
    simp at h'⟩

theorem WS.empty (D : Sid → Prop) : WS D (fun _ => False) :=
  ⟨fun _ ht => ht.elim, fun _ _ _ _ _ h _ => h⟩

/-- where an occurrence lies in a concatenation -/
theorem append_split {p a t1 t2 : Trace} {e : Ev} (h : t1 ++ t2 = p ++ e :: a) :
    (∃ a1, t1 = p ++ e :: a1 ∧ a = a1 ++ t2) ∨ (∃ p2, p = t1 ++ p2 ∧ t2 = p2 ++ e :: a) := by
  rcases List.append_eq_append_iff.mp h with ⟨a', h1, h2⟩ | ⟨c', h1, h2⟩
  · -- p = t1 ++ a', t2 = a' ++ e :: a
    exact Or.inr ⟨a', h1, h2⟩
  · -- t1 = p ++ c', e :: a = c' ++ t2
    cases c' with
    | nil =>
      right
      refine ⟨[], by simpa using h1.symm, ?_⟩
      simpa using h2.symm
    | cons e' c'' =>
      left
      simp only [List.cons_append, List.cons.injEq] at h2
      obtain ⟨rfl, rfl⟩ := h2
      exact ⟨c'', h1, rfl⟩

theorem WS.seq {D D' : Sid → Prop} {A B : TS} (hA : WS D A) (hB : WS D' B)
    (hd : ∀ x, D x → D' x → False) : WS (fun x => D x ∨ D' x) (Seq A B) := by
  constructor
  · rintro t ⟨a, b, rfl, ha, hb⟩ x hx
    rcases List.mem_append.mp hx with h | h
    · exact Or.inl (hA.own a ha x h)
    · exact Or.inr (hB.own b hb x h)
  · rintro p a q b x ⟨t1, t2, e1, h1, h2⟩ ⟨s1, s2, e2, g1, g2⟩
    rcases append_split e1.symm with ⟨a1, rfl, rfl⟩ | ⟨p2, rfl, rfl⟩
    · have hx : D x := hA.own _ h1 x (by simp)
      rcases append_split e2.symm with ⟨b1, rfl, rfl⟩ | ⟨q2, rfl, rfl⟩
      · exact ⟨p ++ .s x :: b1, s2, by simp, hA.sp _ _ _ _ _ h1 g1, g2⟩
      · exact (hd x hx (hB.own _ g2 x (by simp))).elim
    · have hx : D' x := hB.own _ h2 x (by simp)
      rcases append_split e2.symm with ⟨b1, rfl, rfl⟩ | ⟨q2, rfl, rfl⟩
      · exact (hd x (hA.own _ g1 x (by simp)) hx).elim
      · exact ⟨t1, p2 ++ .s x :: b, by simp, h1, hB.sp _ _ _ _ _ h2 g2⟩

theorem WS.or {D D' : Sid → Prop} {A B : TS} (hA : WS D A) (hB : WS D' B)
    (hd : ∀ x, D x → D' x → False) : WS (fun x => D x ∨ D' x) (Or A B) := by
  constructor
  · rintro t (ht | ht) x hx
    · exact Or.inl (hA.own t ht x hx)
    · exact Or.inr (hB.own t ht x hx)
  · rintro p a q b x (h1 | h1) (h2 | h2)
    · exact Or.inl (hA.sp _ _ _ _ _ h1 h2)
    · exact (hd x (hA.own _ h1 x (by simp)) (hB.own _ h2 x (by simp))).elim
    · exact (hd x (hA.own _ h2 x (by simp)) (hB.own _ h1 x (by simp))).elim
    · exact Or.inr (hB.sp _ _ _ _ _ h1 h2)

theorem WS.pre {D : Sid → Prop} {A : TS} {y : Sid} (hA : WS D A) (hy : ¬ D y) :
    WS (fun x => x = y ∨ D x) (Pre y A) := by
  constructor
  · rintro t ⟨a, rfl, ha⟩ x hx
    rcases List.mem_cons.mp hx with e | h
    · cases e; exact Or.inl rfl
    · exact Or.inr (hA.own a ha x h)
  · rintro p a q b x ⟨a1, e1, h1⟩ ⟨b1, e2, h2⟩
    cases p with
    | nil =>
      simp only [List.nil_append, List.cons.injEq, Ev.s.injEq] at e1
      obtain ⟨rfl, rfl⟩ := e1
      cases q with
      | nil =>
        simp only [List.nil_append, List.cons.injEq] at e2
        obtain ⟨_, rfl⟩ := e2
        exact ⟨b, rfl, h2⟩
      | cons e' q' =>
        simp only [List.cons_append, List.cons.injEq] at e2
        obtain ⟨_, rfl⟩ := e2
        exact (hy (hA.own _ h2 x (by simp))).elim
    | cons e' p' =>
      simp only [List.cons_append, List.cons.injEq] at e1
      obtain ⟨rfl, rfl⟩ := e1
      have hx : D x := hA.own _ h1 x (by simp)
      cases q with
      | nil =>
        simp only [List.nil_append, List.cons.injEq, Ev.s.injEq] at e2
        obtain ⟨rfl, _⟩ := e2
        exact (hy hx).elim
      | cons e'' q' =>
        simp only [List.cons_append, List.cons.injEq] at e2
        obtain ⟨_, rfl⟩ := e2
        exact ⟨p' ++ .s x :: b, rfl, hA.sp _ _ _ _ _ h1 h2⟩

/-! #### the loop -/

theorem LU.head {B : TS} {U : Sid} {l : Trace} (h : LU B U l) : ∃ l', l = .s U :: l' := by
  cases h with
  | leave => exact ⟨_, rfl⟩
  | more _ _ => exact ⟨_, rfl⟩

theorem LU.own {D : Sid → Prop} {B : TS} {U : Sid} (hB : Own D B) :
    Own (fun x => x = U ∨ D x) (LU B U) := by
  intro t ht
  induction ht with
  | leave =>
    intro x hx
    simp only [List.mem_singleton, Ev.s.injEq] at hx
    exact Or.inl hx
  | more hb _ ih =>
    intro x hx
    rcases List.mem_cons.mp hx with e | h
    · cases e; exact Or.inl rfl
    · rcases List.mem_append.mp h with h | h
      · exact Or.inr (hB _ hb x h)
      · exact ih x h

/-- what follows an entry of `U` is a loop trace -/
theorem LU.tail_U {D : Sid → Prop} {B : TS} {U : Sid} (hB : Own D B) (hU : ¬ D U) :
    ∀ {t : Trace}, LU B U t → ∀ (q b : Trace), t = q ++ .s U :: b → LU B U (.s U :: b) := by
  intro t ht
  induction ht with
  | leave =>
    intro q b e
    cases q with
    | nil => simp only [List.nil_append, List.cons.injEq, true_and] at e; subst e; exact .leave
    | cons _ q' => cases q' <;> simp at e
  | @more t l hb hl ih =>
    intro q b e
    cases q with
    | nil =>
      simp only [List.nil_append, List.cons.injEq, true_and] at e
      subst e
      exact .more hb hl
    | cons e' q' =>
      simp only [List.cons_append, List.cons.injEq] at e
      obtain ⟨_, e⟩ := e
      rcases append_split e with ⟨a1, rfl, rfl⟩ | ⟨p2, rfl, rfl⟩
      · exact (hU (hB _ hb U (by simp))).elim
      · exact ih p2 b rfl

/-- what follows an entry of a body state is the rest of the round and a loop trace -/
theorem LU.tail_body {B : TS} {U : Sid} {x : Sid} (hx : x ≠ U) :
    ∀ {t : Trace}, LU B U t → ∀ (q b : Trace), t = q ++ .s x :: b →
      ∃ q1 b1 l, B (q1 ++ .s x :: b1) ∧ LU B U l ∧ b = b1 ++ l := by
  intro t ht
  induction ht with
  | leave =>
    intro q b e
    cases q with
    | nil => simp only [List.nil_append, List.cons.injEq, Ev.s.injEq] at e; exact (hx e.1.symm).elim
    | cons _ q' => cases q' <;> simp at e
  | @more t l hb hl ih =>
    intro q b e
    cases q with
    | nil =>
      simp only [List.nil_append, List.cons.injEq, Ev.s.injEq] at e
      exact (hx e.1.symm).elim
    | cons e' q' =>
      simp only [List.cons_append, List.cons.injEq] at e
      obtain ⟨_, e⟩ := e
      rcases append_split e with ⟨a1, rfl, rfl⟩ | ⟨p2, rfl, rfl⟩
      · exact ⟨q', a1, l, hb, hl, rfl⟩
      · exact ih p2 b rfl

theorem LU.splice {D : Sid → Prop} {B : TS} {U : Sid} (hB : WS D B) (hU : ¬ D U) {x : Sid} {b : Trace}
    (hb : (x = U ∧ LU B U (.s U :: b)) ∨
      (D x ∧ ∃ q1 b1 l, B (q1 ++ .s x :: b1) ∧ LU B U l ∧ b = b1 ++ l)) :
    ∀ {t : Trace}, LU B U t → ∀ (p a : Trace), t = p ++ .s x :: a → LU B U (p ++ .s x :: b) := by
  have hnil : ∀ a', [Ev.s U] = Ev.s x :: a' → LU B U (.s x :: b) := by
    intro a' e
    simp only [List.cons.injEq, Ev.s.injEq] at e
    rcases hb with ⟨rfl, h⟩ | ⟨hd, _⟩
    · exact h
    · rw [← e.1] at hd; exact (hU hd).elim
  intro t ht
  induction ht with
  | leave =>
    intro p a e
    cases p with
    | nil => exact hnil a e
    | cons _ p' => cases p' <;> simp at e
  | @more t l hbt hl ih =>
    intro p a e
    cases p with
    | nil =>
      simp only [List.nil_append, List.cons.injEq, Ev.s.injEq] at e
      exact hnil [] (by rw [e.1])
    | cons e' p' =>
      simp only [List.cons_append, List.cons.injEq] at e
      obtain ⟨rfl, e⟩ := e
      rcases append_split e with ⟨a1, rfl, rfl⟩ | ⟨p2, rfl, rfl⟩
      · have hdx : D x := hB.own _ hbt x (by simp)
        rcases hb with ⟨rfl, _⟩ | ⟨_, q1, b1, l2, hq, hl2, rfl⟩
        · exact (hU hdx).elim
        · have := LU.more (U := U) (hB.sp _ _ _ _ _ hbt hq) hl2
          simpa using this
      · have := LU.more (U := U) hbt (ih p2 a rfl)
        simpa using this

theorem WS.lu {D : Sid → Prop} {B : TS} {U : Sid} (hB : WS D B) (hU : ¬ D U) :
    WS (fun x => x = U ∨ D x) (LU B U) := by
  refine ⟨LU.own hB.own, ?_⟩
  intro p a q b x h1 h2
  refine LU.splice hB hU ?_ h1 p a rfl
  rcases LU.own hB.own _ h2 x (by simp) with rfl | hd
  · exact Or.inl ⟨rfl, LU.tail_U hB.own hU h2 q b rfl⟩
  · have hx : x ≠ U := fun e => hU (e ▸ hd)
    exact Or.inr ⟨hd, LU.tail_body hx h2 q b rfl⟩

theorem pl_iff {B : TS} {P : Sid} {t : Trace} : PL B P t ↔ t ≠ [] ∧ LU B P (.s P :: t) := by
  constructor
  · rintro ⟨a, l, rfl, ha, hl⟩
    obtain ⟨l', rfl⟩ := hl.head
    exact ⟨by simp, .more ha hl⟩
  · rintro ⟨hne, h⟩
    cases h with
    | leave => exact (hne rfl).elim
    | more hb hl => exact ⟨_, _, rfl, hb, hl⟩

theorem WS.pl {D : Sid → Prop} {B : TS} {P : Sid} (hB : WS D B) (hP : ¬ D P) :
    WS (fun x => x = P ∨ D x) (PL B P) := by
  have hlu := WS.lu hB hP
  constructor
  · intro t ht x hx
    exact hlu.own _ (pl_iff.mp ht).2 x (List.mem_cons_of_mem _ hx)
  · intro p a q b x h1 h2
    rw [pl_iff] at h1 h2 ⊢
    refine ⟨by simp, ?_⟩
    exact hlu.sp (.s P :: p) a (.s P :: q) b x h1.2 h2.2

theorem WS.sq {D : Sid → Prop} {B : TS} {Q P : Sid} (hB : WS D B) (hP : ¬ D P) (hQ : ¬ D Q) (hQP : Q ≠ P) :
    WS (fun x => x = Q ∨ x = P ∨ D x) (SQ B Q P) := by
  have h1 := (WS.pl hB hP).or (WS.eps (fun _ => False)) (fun _ _ h => h)
  have h2 := WS.pre (y := Q) h1 (by
    rintro ((e | h) | h)
    · exact hQP e
    · exact hQ h
    · exact h)
  exact h2.mono (by
    rintro x (h | (h | h) | h)
    · exact Or.inl h
    · exact Or.inr (Or.inl h)
    · exact Or.inr (Or.inr h)
    · exact h.elim)

/-! #### unrolled copies -/

/-- a family of bodies (copies of one pattern) with their union states -/
structure Fam (DB : Nat → Sid → Prop) (un : Nat → Sid) (B : Nat → TS) : Prop where
  ws : ∀ i, WS (DB i) (B i)
  disj : ∀ i j x, DB i x → DB j x → i = j
  un_not : ∀ i j, ¬ DB j (un i)
  un_inj : ∀ i j, un i = un j → i = j

theorem WS.exactly {DB : Nat → Sid → Prop} {un : Nat → Sid} {B : Nat → TS} (hF : Fam DB un B) :
    ∀ (n i : Nat), WS (fun x => ∃ t, i ≤ t ∧ t < i + n ∧ DB t x) (Exactly B n i) := by
  intro n
  induction n with
  | zero => intro i; exact WS.eps _
  | succ n ih =>
    intro i
    have h := (hF.ws i).seq (ih (i + 1)) (by
      rintro x h1 ⟨t, ht, _, h2⟩
      have := hF.disj _ _ _ h1 h2
      omega)
    exact h.mono (by
      rintro x (h | ⟨t, h1, h2, h3⟩)
      · exact ⟨i, Nat.le_refl _, by omega, h⟩
      · exact ⟨t, by omega, by omega, h3⟩)

theorem WS.optNest {DB : Nat → Sid → Prop} {un : Nat → Sid} {B : Nat → TS} (hF : Fam DB un B) :
    ∀ (n i : Nat), WS (fun x => ∃ t, i ≤ t ∧ (x = un t ∨ DB t x)) (OptNest B un n i) := by
  intro n
  induction n with
  | zero => intro i; exact WS.eps _
  | succ n ih =>
    intro i
    have h1 := (hF.ws i).seq (ih (i + 1)) (by
      rintro x h1 ⟨t, ht, h2 | h2⟩
      · rw [h2] at h1; exact hF.un_not _ _ h1
      · have := hF.disj _ _ _ h1 h2
        omega)
    have h2 := h1.or (WS.eps (fun _ => False)) (fun _ _ h => h)
    have h3 := WS.pre (y := un i) h2 (by
      rintro ((h | ⟨t, ht, h | h⟩) | h)
      · exact hF.un_not _ _ h
      · have := hF.un_inj _ _ h; omega
      · exact hF.un_not _ _ h
      · exact h)
    exact h3.mono (by
      rintro x (h | (h | ⟨t, ht, h⟩) | h)
      · exact ⟨i, Nat.le_refl _, Or.inl h⟩
      · exact ⟨i, Nat.le_refl _, Or.inr h⟩
      · exact ⟨t, by omega, h⟩
      · exact h.elim)

theorem WS.starT {DB : Nat → Sid → Prop} {un : Nat → Sid} {B : Nat → TS} (hF : Fam DB un B) (nn : Bool) :
    WS (fun x => ∃ t, x = un t ∨ DB t x) (StarT nn B un) := by
  unfold StarT
  split
  · exact (WS.lu (hF.ws 0) (hF.un_not 0 0)).mono (by
      rintro x (h | h)
      · exact ⟨0, Or.inl h⟩
      · exact ⟨0, Or.inr h⟩)
  · exact (WS.sq (hF.ws 0) (hF.un_not 1 0) (hF.un_not 0 0)
      (fun e => by have := hF.un_inj _ _ e; omega)).mono (by
      rintro x (h | h | h)
      · exact ⟨0, Or.inl h⟩
      · exact ⟨1, Or.inl h⟩
      · exact ⟨0, Or.inr h⟩)

theorem WS.repT {DB : Nat → Sid → Prop} {un : Nat → Sid} {B : Nat → TS} (hF : Fam DB un B) (nn : Bool)
    (lo : Nat) (hi : Option Nat) : WS (fun x => ∃ t, x = un t ∨ DB t x) (RepT nn B un lo hi) := by
  unfold RepT
  split
  · rename_i hh
    split
    · have h := (WS.exactly hF lo 0).seq (WS.optNest hF (hh - lo) lo) (by
        rintro x ⟨t, _, ht, h1⟩ ⟨t', ht', h2 | h2⟩
        · rw [h2] at h1; exact hF.un_not _ _ h1
        · have := hF.disj _ _ _ h1 h2
          omega)
      exact h.mono (by
        rintro x (⟨t, _, _, h⟩ | ⟨t, _, h⟩)
        · exact ⟨t, Or.inr h⟩
        · exact ⟨t, h⟩)
    · exact WS.empty _
  · split
    · exact WS.starT hF nn
    · rename_i m
      have h := (WS.exactly hF m 0).seq (WS.pl (hF.ws m) (hF.un_not m m)) (by
        rintro x ⟨t, _, ht, h1⟩ (h2 | h2)
        · rw [h2] at h1; exact hF.un_not _ _ h1
        · have := hF.disj _ _ _ h1 h2
          omega)
      exact h.mono (by
        rintro x (⟨t, _, _, h⟩ | h | h)
        · exact ⟨t, Or.inr h⟩
        · exact ⟨m, Or.inl h⟩
        · exact ⟨m, Or.inr h⟩)

/-! ### `FED` -/

theorem FED.eps : FED Eps := by
  intro t1 t2 h1 h2
  cases h1; cases h2; rfl

theorem FED.empty : FED (fun _ => False) := fun _ _ h => h.elim

theorem FED.seq {A B : TS} (hA : FED A) (hB : FED B) : FED (Seq A B) := by
  rintro _ _ ⟨a, b, rfl, ha, hb⟩ ⟨a', b', rfl, ha', hb'⟩
  rw [hk_append, hk_append]
  have h := hA a a' ha ha'
  by_cases e : a = []
  · have e' : a' = [] := by rw [← hk_eq_none, ← h, hk_eq_none]; exact e
    rw [if_pos e, if_pos e']
    exact hB b b' hb hb'
  · have e' : ¬ a' = [] := by rw [← hk_eq_none, ← h, hk_eq_none]; exact e
    rw [if_neg e, if_neg e']
    exact h

theorem FED.pre {A : TS} (x : Sid) : FED (Pre x A) := by
  rintro _ _ ⟨a, rfl, _⟩ ⟨a', rfl, _⟩
  rfl

theorem FED.or_empty {A : TS} (hA : FED A) : FED (Or A (fun _ => False)) := by
  rintro t1 t2 (h1 | h1) (h2 | h2)
  · exact hA t1 t2 h1 h2
  · exact h2.elim
  · exact h1.elim
  · exact h1.elim

theorem FED.lu {B : TS} (U : Sid) : FED (LU B U) := by
  intro t1 t2 h1 h2
  obtain ⟨_, rfl⟩ := h1.head
  obtain ⟨_, rfl⟩ := h2.head
  rfl

theorem FED.pl {B : TS} (hB : FED B) (P : Sid) : FED (PL B P) := hB.seq (FED.lu P)

theorem FED.exactly {B : Nat → TS} (hB : ∀ i, FED (B i)) : ∀ (n i : Nat), FED (Exactly B n i)
  | 0, _ => FED.eps
  | n + 1, i => (hB i).seq (FED.exactly hB n (i + 1))

theorem FED.optNest {B : Nat → TS} (un : Nat → Sid) : ∀ (n i : Nat), FED (OptNest B un n i)
  | 0, _ => FED.eps
  | _ + 1, i => FED.pre (un i)

theorem FED.starT {B : Nat → TS} (nn : Bool) (un : Nat → Sid) : FED (StarT nn B un) := by
  unfold StarT
  split
  · exact FED.lu _
  · exact FED.pre _

theorem FED.repT {B : Nat → TS} (hB : ∀ i, FED (B i)) (nn : Bool) (un : Nat → Sid) (lo : Nat) (hi : Option Nat) :
    FED (RepT nn B un lo hi) := by
  unfold RepT
  split
  · split
    · exact (FED.exactly hB _ _).seq (FED.optNest un _ _)
    · exact FED.empty
  · split
    · exact FED.starT nn un
    · exact (FED.exactly hB _ _).seq (FED.pl (hB _) _)

/-! ### `Cov` -/

section cov
variable {L : Str → Prop}

theorem cov_lu {B : TS} (hB : Cov L B) (U : Sid) : ∀ (m : Nat) (u : Str), IterN L m u →
    ∃ t, LU B U t ∧ word t = u
  | 0, _, h => by cases h; exact ⟨_, .leave, rfl⟩
  | m + 1, _, ⟨a, b, e, ha, hb⟩ => by
    obtain ⟨ta, hta, rfl⟩ := hB a ha
    obtain ⟨tb, htb, rfl⟩ := cov_lu hB U m b hb
    exact ⟨_, .more hta htb, by simp only [word, word_append, e]⟩

theorem cov_pl {B : TS} (hB : Cov L B) (P : Sid) (m : Nat) (u : Str) (h : IterN L (m + 1) u) :
    ∃ t, PL B P t ∧ word t = u := by
  obtain ⟨a, b, e, ha, hb⟩ := h
  obtain ⟨ta, hta, rfl⟩ := hB a ha
  obtain ⟨tb, htb, rfl⟩ := cov_lu hB P m b hb
  exact ⟨_, ⟨ta, tb, rfl, hta, htb⟩, by simp only [word_append, e]⟩

theorem cov_sq {B : TS} (hB : Cov L B) (Q P : Sid) (m : Nat) (u : Str) (h : IterN L m u) :
    ∃ t, SQ B Q P t ∧ word t = u := by
  cases m with
  | zero => cases h; exact ⟨[.s Q], ⟨[], rfl, Or.inr rfl⟩, rfl⟩
  | succ m =>
    obtain ⟨t, ht, rfl⟩ := cov_pl hB P m u h
    exact ⟨.s Q :: t, ⟨t, rfl, Or.inl ht⟩, rfl⟩

theorem cov_exactly {B : Nat → TS} (hB : ∀ i, Cov L (B i)) : ∀ (n i : Nat) (u : Str), IterN L n u →
    ∃ t, Exactly B n i t ∧ word t = u
  | 0, _, _, h => by cases h; exact ⟨[], rfl, rfl⟩
  | n + 1, i, _, ⟨a, b, e, ha, hb⟩ => by
    obtain ⟨ta, hta, rfl⟩ := hB i a ha
    obtain ⟨tb, htb, rfl⟩ := cov_exactly hB n (i + 1) b hb
    exact ⟨_, ⟨ta, tb, rfl, hta, htb⟩, by simp only [word_append, e]⟩

theorem cov_optNest {B : Nat → TS} (hB : ∀ i, Cov L (B i)) (un : Nat → Sid) :
    ∀ (n i m : Nat) (u : Str), IterN L m u → m ≤ n → ∃ t, OptNest B un n i t ∧ word t = u
  | 0, _, m, _, h, hm => by
    have : m = 0 := by omega
    subst this
    cases h; exact ⟨[], rfl, rfl⟩
  | n + 1, i, 0, _, h, _ => by
    cases h; exact ⟨[.s (un i)], ⟨[], rfl, Or.inr rfl⟩, rfl⟩
  | n + 1, i, m + 1, _, ⟨a, b, e, ha, hb⟩, hm => by
    obtain ⟨ta, hta, rfl⟩ := hB i a ha
    obtain ⟨tb, htb, rfl⟩ := cov_optNest hB un n (i + 1) m b hb (by omega)
    exact ⟨.s (un i) :: (ta ++ tb), ⟨_, rfl, Or.inl ⟨ta, tb, rfl, hta, htb⟩⟩, by simp only [word, word_append, e]⟩

theorem cov_starT {B : Nat → TS} (hB : ∀ i, Cov L (B i)) (nn : Bool) (un : Nat → Sid) (m : Nat) (u : Str)
    (h : IterN L m u) : ∃ t, StarT nn B un t ∧ word t = u := by
  unfold StarT
  split
  · exact cov_lu (hB 0) _ m u h
  · exact cov_sq (hB 0) _ _ m u h

theorem cov_repT {B : Nat → TS} (hB : ∀ i, Cov L (B i)) (nn : Bool) (un : Nat → Sid) (lo : Nat)
    (hi : Option Nat) (m : Nat) (u : Str) (hlo : lo ≤ m) (hhi : ∀ h, hi = some h → m ≤ h)
    (h : IterN L m u) : ∃ t, RepT nn B un lo hi t ∧ word t = u := by
  unfold RepT
  split
  · rename_i hh
    have hle := hhi hh rfl
    rw [if_pos (Nat.le_trans hlo hle)]
    have e : m = lo + (m - lo) := by omega
    rw [e] at h
    obtain ⟨u1, u2, rfl, h1, h2⟩ := h.split
    obtain ⟨t1, ht1, rfl⟩ := cov_exactly hB lo 0 u1 h1
    obtain ⟨t2, ht2, rfl⟩ := cov_optNest hB un (hh - lo) lo (m - lo) u2 h2 (by omega)
    exact ⟨_, ⟨t1, t2, rfl, ht1, ht2⟩, word_append _ _⟩
  · split
    · exact cov_starT hB nn un m u h
    · rename_i lo'
      have e : m = lo' + (m - lo' - 1 + 1) := by omega
      rw [e] at h
      obtain ⟨u1, u2, rfl, h1, h2⟩ := h.split
      obtain ⟨t1, ht1, rfl⟩ := cov_exactly hB lo' 0 u1 h1
      obtain ⟨t2, ht2, rfl⟩ := cov_pl (hB lo') (un lo') _ u2 h2
      exact ⟨_, ⟨t1, t2, rfl, ht1, ht2⟩, word_append _ _⟩

end cov

end Wax
