import Wax.Proofs.ExhBeneath
import Wax.Proofs.DepthFlat
import Wax.RuleS
/-!
C09 on a wider fragment (F09s, "single-branch runs"): the last token of a concatenation may be an
alternation or a repetition (at least once), nested to any depth, as long as the tokens the
exhaustiveness scan takes *together with* it are separators and zero-or-more wildcards (and, inside a
repetition, none at all).  On that fragment an `Always` verdict **implies** that every flat expansion
ends in a tree wildcard (`endsList`), hence that the language is closed under descending.
-/
set_option linter.unusedSimpArgs false
set_option linter.unusedVariables false
namespace Wax

/-! ### the term algebra, as far as `Always` is concerned -/

def DTerm.elems : DTerm → List SepTerm
  | .c s => [s]
  | .d l => l

/-- every separated term of the (conjunctive or disjunctive) term is exhaustive -/
def AllAlways (d : DTerm) : Prop := ∀ s ∈ d.elems, s.exh = .always

theorem certainty_always_iff {x y : When} : x.certainty y = .always ↔ x = .always ∧ y = .always := by
  cases x <;> cases y <;> simp [When.certainty]

theorem foldl_certainty_always : ∀ (xs : List When) (x : When),
    xs.foldl When.certainty x = .always ↔ x = .always ∧ ∀ y ∈ xs, y = .always
  | [], x => by simp
  | y :: ys, x => by
    rw [List.foldl_cons, foldl_certainty_always ys, certainty_always_iff]
    simp [and_assoc]

theorem isExhaustive_always_iff (d : DTerm) :
    d.isExhaustive = .always ↔ d.elems ≠ [] ∧ AllAlways d := by
  cases d with
  | c s => simp [DTerm.isExhaustive, DTerm.elems, AllAlways]
  | d ls =>
    cases ls with
    | nil => simp [DTerm.isExhaustive, DTerm.elems]
    | cons s ls =>
      simp only [DTerm.isExhaustive, List.map_cons, DTerm.elems, AllAlways, ne_eq, reduceCtorEq,
        not_false_eq_true, true_and, List.mem_cons, forall_eq_or_imp]
      rw [foldl_certainty_always]
      simp

theorem bvr_beq_hasUpper (a b : BVR) (h : (a == b) = true) :
    (NVar.bnd a).hasUpper = (NVar.bnd b).hasUpper := by
  cases a <;> cases b <;> first | rfl | (exact Bool.noConfusion h)

theorem nvar_beq_hasUpper (a b : NVar) (h : (a == b) = true) : a.hasUpper = b.hasUpper := by
  cases a <;> cases b
  all_goals first | rfl | (exact Bool.noConfusion h) | skip
  exact bvr_beq_hasUpper _ _ h

theorem sepTerm_beq_exh {a b : SepTerm} (h : (a == b) = true) : a.exh = b.exh := by
  have h' : (a.t == b.t && a.v == b.v) = true := h
  simp only [Bool.and_eq_true] at h'
  simp only [SepTerm.exh, nvar_beq_hasUpper _ _ h'.2]

/-! `setOf`: a sub-list that represents every element up to `==` -/

def setGo (acc l : List SepTerm) : List SepTerm :=
  l.foldl (fun acc x => if acc.contains x then acc else acc ++ [x]) acc

theorem setOf_eq (l : List SepTerm) : setOf l = setGo [] l := rfl

theorem setGo_acc : ∀ (l acc : List SepTerm), ∀ y ∈ acc, y ∈ setGo acc l
  | [], acc, y, hy => hy
  | x :: l, acc, y, hy => by
    simp only [setGo, List.foldl_cons]
    apply setGo_acc l
    split
    · exact hy
    · exact List.mem_append_left _ hy

theorem setGo_sub : ∀ (l acc : List SepTerm), ∀ y ∈ setGo acc l, y ∈ acc ∨ y ∈ l
  | [], acc, y, hy => Or.inl hy
  | x :: l, acc, y, hy => by
    simp only [setGo, List.foldl_cons] at hy
    rcases setGo_sub l _ y hy with h | h
    · split at h
      · exact Or.inl h
      · rcases List.mem_append.mp h with h | h
        · exact Or.inl h
        · simp only [List.mem_singleton] at h; subst h; exact Or.inr (List.mem_cons_self ..)
    · exact Or.inr (List.mem_cons_of_mem _ h)

theorem setGo_rep : ∀ (l acc : List SepTerm), ∀ x ∈ l, ∃ y ∈ setGo acc l, (x == y) = true ∨ x = y
  | [], _, x, hx => by cases hx
  | a :: l, acc, x, hx => by
    simp only [setGo, List.foldl_cons]
    cases hx with
    | head =>
      by_cases hc : acc.contains a = true
      · simp only [hc, ↓reduceIte]
        obtain ⟨y, hy, hxy⟩ := List.contains_iff_exists_mem_beq.mp hc
        exact ⟨y, setGo_acc l acc y hy, Or.inl hxy⟩
      · simp only [hc, Bool.false_eq_true, ↓reduceIte]
        exact ⟨a, setGo_acc l _ a (List.mem_append_right _ (List.mem_singleton.mpr rfl)), Or.inr rfl⟩
    | tail _ hm => exact setGo_rep l _ x hm

theorem setOf_mem_sub {l : List SepTerm} {y : SepTerm} (h : y ∈ setOf l) : y ∈ l := by
  rcases setGo_sub l [] y h with h | h
  · cases h
  · exact h

theorem setOf_rep {l : List SepTerm} {x : SepTerm} (h : x ∈ l) :
    ∃ y ∈ setOf l, (x == y) = true ∨ x = y := setGo_rep l [] x h

theorem setOf_ne_nil {l : List SepTerm} (h : l ≠ []) : setOf l ≠ [] := by
  cases l with
  | nil => exact absurd rfl h
  | cons x l =>
    obtain ⟨y, hy, _⟩ := setOf_rep (List.mem_cons_self (a := x) (l := l))
    intro he; rw [he] at hy; cases hy

theorem setOf_always {l : List SepTerm} (h : ∀ y ∈ setOf l, y.exh = .always) :
    ∀ x ∈ l, x.exh = .always := by
  intro x hx
  obtain ⟨y, hy, hxy⟩ := setOf_rep hx
  rcases hxy with hxy | rfl
  · rw [sepTerm_beq_exh hxy]; exact h y hy
  · exact h x hy

/-! disjunction -/

theorem disj_elems (a b : DTerm) : ∃ l, (a.disj b).elems = setOf l ∧
    ∀ x, x ∈ l ↔ x ∈ a.elems ∨ x ∈ b.elems := by
  cases a <;> cases b
  · exact ⟨_, rfl, by intro x; simp [DTerm.elems]⟩
  · exact ⟨_, rfl, by intro x; simp [DTerm.elems, or_comm]⟩
  · exact ⟨_, rfl, by intro x; simp [DTerm.elems]⟩
  · exact ⟨_, rfl, by intro x; simp [DTerm.elems]⟩

theorem disj_sub {a b : DTerm} {y : SepTerm} (h : y ∈ (a.disj b).elems) :
    y ∈ a.elems ∨ y ∈ b.elems := by
  obtain ⟨l, he, hl⟩ := disj_elems a b
  rw [he] at h
  exact (hl y).mp (setOf_mem_sub h)

theorem disj_always {a b : DTerm} (h : AllAlways (a.disj b)) : AllAlways a ∧ AllAlways b := by
  obtain ⟨l, he, hl⟩ := disj_elems a b
  unfold AllAlways at h
  rw [he] at h
  have := setOf_always h
  exact ⟨fun s hs => this s ((hl s).mpr (Or.inl hs)), fun s hs => this s ((hl s).mpr (Or.inr hs))⟩

theorem disj_ne_nil {a b : DTerm} (h : a.elems ≠ []) : (a.disj b).elems ≠ [] := by
  obtain ⟨l, he, hl⟩ := disj_elems a b
  rw [he]
  apply setOf_ne_nil
  cases ha : a.elems with
  | nil => exact absurd ha h
  | cons x xs =>
    intro hn
    have : x ∈ l := (hl x).mpr (Or.inl (by rw [ha]; exact List.mem_cons_self ..))
    rw [hn] at this; cases this

theorem foldlP_pure {α} (f : α → α → α) : ∀ (xs : List α) (x : α),
    foldlP (fun a b => (pure (f a b) : P α)) x xs = .ok (xs.foldl f x)
  | [], x => rfl
  | y :: ys, x => by
    simp only [foldlP, List.foldl_cons, bind, Except.bind, pure, Except.pure]
    exact foldlP_pure f ys (f x y)

theorem foldl_disj_sub : ∀ (xs : List DTerm) (x : DTerm) (y : SepTerm),
    y ∈ (xs.foldl DTerm.disj x).elems → y ∈ x.elems ∨ ∃ d ∈ xs, y ∈ d.elems
  | [], x, y, h => Or.inl h
  | a :: xs, x, y, h => by
    rcases foldl_disj_sub xs _ y h with h | ⟨d, hd, h⟩
    · rcases disj_sub h with h | h
      · exact Or.inl h
      · exact Or.inr ⟨a, List.mem_cons_self .., h⟩
    · exact Or.inr ⟨d, List.mem_cons_of_mem _ hd, h⟩

theorem foldl_disj_always : ∀ (xs : List DTerm) (x : DTerm),
    AllAlways (xs.foldl DTerm.disj x) → AllAlways x ∧ ∀ d ∈ xs, AllAlways d
  | [], x, h => ⟨h, by intro d hd; cases hd⟩
  | a :: xs, x, h => by
    obtain ⟨h1, h2⟩ := foldl_disj_always xs _ h
    obtain ⟨h3, h4⟩ := disj_always h1
    refine ⟨h3, ?_⟩
    intro d hd
    cases hd with
    | head => exact h4
    | tail _ hm => exact h2 d hm

theorem foldl_disj_ne_nil : ∀ (xs : List DTerm) (x : DTerm), x.elems ≠ [] →
    (xs.foldl DTerm.disj x).elems ≠ []
  | [], x, h => h
  | a :: xs, x, h => foldl_disj_ne_nil xs _ (disj_ne_nil h)

theorem mapP_ok_mem {α β} {f : α → P β} : ∀ {l : List α} {l' : List β}, mapP f l = .ok l' →
    (∀ x ∈ l, ∃ y ∈ l', f x = .ok y) ∧ (∀ y ∈ l', ∃ x ∈ l, f x = .ok y) ∧ l'.length = l.length
  | [], l', h => by
    simp only [mapP, pure, Except.pure, Except.ok.injEq] at h
    subst h; simp
  | x :: xs, l', h => by
    simp only [mapP, bind, Except.bind, pure, Except.pure] at h
    cases hf : f x with
    | error e => rw [hf] at h; cases h
    | ok y =>
      rw [hf] at h
      simp only at h
      cases hm : mapP f xs with
      | error e => rw [hm] at h; cases h
      | ok ys =>
        rw [hm] at h
        simp only [Except.ok.injEq] at h
        subst h
        obtain ⟨h1, h2, h3⟩ := mapP_ok_mem hm
        refine ⟨?_, ?_, by simp [h3]⟩
        · intro a ha
          cases ha with
          | head => exact ⟨y, List.mem_cons_self .., hf⟩
          | tail _ hm' =>
            obtain ⟨b, hb, hfb⟩ := h1 a hm'
            exact ⟨b, List.mem_cons_of_mem _ hb, hfb⟩
        · intro b hb
          cases hb with
          | head => exact ⟨x, List.mem_cons_self .., hf⟩
          | tail _ hm' =>
            obtain ⟨a, ha, hfa⟩ := h2 b hm'
            exact ⟨a, List.mem_cons_of_mem _ ha, hfa⟩

/-! ### the two invariants -/

/-- strict (inside a repetition): the depth is exactly `0` or unbounded -/
def StrictV (v : NVar) : Prop := v = .inv 0 ∨ v = .unb
/-- loose: the depth is invariant, or has no upper bound -/
def LooseV (v : NVar) : Prop := (∃ k, v = .inv k) ∨ v = .unb ∨ ∃ i, v = .bnd (.lower i)
def OkV : Bool → NVar → Prop
  | true, v => StrictV v
  | false, v => LooseV v
/-- the invariant of the terms the fold computes on the fragment -/
def InvD (strict : Bool) (d : DTerm) : Prop := d.elems ≠ [] ∧ ∀ s ∈ d.elems, OkV strict s.v

theorem strictV_loose {v : NVar} (h : StrictV v) : LooseV v := by
  rcases h with rfl | rfl
  · exact Or.inl ⟨0, rfl⟩
  · exact Or.inr (Or.inl rfl)

theorem okV_loose {strict : Bool} {v : NVar} (h : OkV strict v) : LooseV v := by
  cases strict
  · exact h
  · exact strictV_loose h

theorem okV_of_strict {strict : Bool} {v : NVar} (h : StrictV v) : OkV strict v := by
  cases strict
  · exact strictV_loose h
  · exact h

theorem invD_of_strict {strict : Bool} {d : DTerm} (h : InvD true d) : InvD strict d :=
  ⟨h.1, fun s hs => okV_of_strict (h.2 s hs)⟩

theorem invD_loose {strict : Bool} {d : DTerm} (h : InvD strict d) : InvD false d :=
  ⟨h.1, fun s hs => okV_loose (h.2 s hs)⟩

theorem exh_inv (t : Termn) (k : Nat) : SepTerm.exh ⟨t, .inv k⟩ ≠ .always := by
  simp [SepTerm.exh, NVar.hasUpper]

theorem invD_zero (strict : Bool) : InvD strict DTerm.zero :=
  ⟨by simp [DTerm.zero, DTerm.elems], by
    intro s hs
    simp only [DTerm.zero, DTerm.elems, List.mem_singleton] at hs
    subst hs
    exact okV_of_strict (Or.inl rfl)⟩

theorem not_allAlways_c_inv (t : Termn) (k : Nat) : ¬ AllAlways (.c ⟨t, .inv k⟩) := by
  intro h
  exact exh_inv t k (h _ (by simp [DTerm.elems]))

theorem not_allAlways_zero : ¬ AllAlways DTerm.zero := not_allAlways_c_inv _ _

/-! ### repetition: the product keeps the strict invariant and reflects `Always` -/

theorem nvar_prod_strict {v v' : NVar} (hv : StrictV v) (r : NRange) (h : v.prod r = .ok v') :
    StrictV v' ∧ (v'.hasUpper = false → v.hasUpper = false) := by
  rcases hv with rfl | rfl
  · cases r with
    | inv n =>
      simp only [NVar.prod, cmul, Nat.zero_mul, usizeLim, Nat.zero_lt_succ, ↓reduceIte, bind,
        Except.bind, pure, Except.pure, Except.ok.injEq] at h
      subst h
      exact ⟨Or.inl rfl, by simp [NVar.hasUpper]⟩
    | var x =>
      simp only [NVar.prod, BEq.rfl, ↓reduceIte, pure, Except.pure, Except.ok.injEq] at h
      subst h
      exact ⟨Or.inl rfl, by simp [NVar.hasUpper]⟩
  · cases r with
    | inv n =>
      simp only [NVar.prod, pure, Except.pure, Except.ok.injEq] at h
      subst h
      refine ⟨?_, fun _ => rfl⟩
      split
      · exact Or.inl rfl
      · exact Or.inr rfl
    | var x =>
      simp only [NVar.prod, pure, Except.pure, Except.ok.injEq] at h
      subst h
      exact ⟨Or.inr rfl, fun _ => rfl⟩

theorem sepTerm_prod_strict {s : SepTerm} {v' : NVar} (hv : StrictV s.v) (r : NRange)
    (h : s.v.prod r = .ok v') :
    StrictV v' ∧ (SepTerm.exh ⟨s.t, v'⟩ = .always → s.exh = .always) := by
  obtain ⟨h1, h2⟩ := nvar_prod_strict hv r h
  refine ⟨h1, ?_⟩
  intro ha
  simp only [SepTerm.exh] at ha ⊢
  cases hu : v'.hasUpper with
  | true => simp [hu] at ha
  | false => simp [h2 hu]

theorem dterm_prod_strict {d d' : DTerm} (r : NRange) (hd : InvD true d) (h : d.prod r = .ok d') :
    InvD true d' ∧ (AllAlways d' → AllAlways d) := by
  cases d with
  | c s =>
    simp only [DTerm.prod, bind, Except.bind, pure, Except.pure] at h
    cases hv : s.v.prod r with
    | error e => rw [hv] at h; cases h
    | ok v' =>
      rw [hv] at h
      simp only [Except.ok.injEq] at h
      subst h
      have hs : StrictV s.v := hd.2 s (by simp [DTerm.elems])
      obtain ⟨h1, h2⟩ := sepTerm_prod_strict hs r hv
      refine ⟨⟨by simp [DTerm.elems], ?_⟩, ?_⟩
      · intro x hx
        simp only [DTerm.elems, List.mem_singleton] at hx
        subst hx; exact h1
      · intro ha x hx
        simp only [DTerm.elems, List.mem_singleton] at hx
        subst hx
        exact h2 (ha _ (by simp [DTerm.elems]))
  | d ls =>
    simp only [DTerm.prod, bind, Except.bind, pure, Except.pure] at h
    cases hm : mapP (fun s => (s.v.prod r).bind (fun v => Except.ok (⟨s.t, v⟩ : SepTerm))) ls with
    | error e =>
      simp only [bind, Except.bind, pure, Except.pure] at hm
      rw [hm] at h; cases h
    | ok ls' =>
      simp only [bind, Except.bind, pure, Except.pure] at hm
      rw [hm] at h
      simp only [Except.ok.injEq] at h
      subst h
      obtain ⟨h1, h2, h3⟩ := mapP_ok_mem hm
      have hne : ls' ≠ [] := by
        intro he
        rw [he] at h3
        have : ls = [] := List.eq_nil_of_length_eq_zero h3.symm
        exact hd.1 (by simpa [DTerm.elems] using this)
      have key : ∀ x ∈ ls, ∀ y, ((x.v.prod r).bind (fun v => Except.ok (⟨x.t, v⟩ : SepTerm))) = .ok y →
          StrictV y.v ∧ (y.exh = .always → x.exh = .always) := by
        intro x hx y hy
        cases hv : x.v.prod r with
        | error e => rw [hv] at hy; cases hy
        | ok v' =>
          rw [hv] at hy
          simp only [Except.bind, Except.ok.injEq] at hy
          subst hy
          exact sepTerm_prod_strict (hd.2 x (by simpa [DTerm.elems] using hx)) r hv
      refine ⟨⟨by simpa [DTerm.elems] using setOf_ne_nil hne, ?_⟩, ?_⟩
      · intro y hy
        simp only [DTerm.elems] at hy
        obtain ⟨x, hx, hxy⟩ := h2 y (setOf_mem_sub hy)
        exact (key x hx y hxy).1
      · intro ha x hx
        simp only [DTerm.elems] at hx
        obtain ⟨y, hy, hxy⟩ := h1 x hx
        have := setOf_always (l := ls') (fun z hz => ha z (by simpa [DTerm.elems] using hz)) y hy
        exact (key x hx y hxy).2 this

/-! ### concatenation with a run of separators / zero-or-more wildcards in front -/

/-- the term of a run of flat leaves: not coalescent, invariant depth -/
def FlatS (A : SepTerm) : Prop := ∃ s e k, A = ⟨Termn.ofBools s e, .inv k⟩

theorem flatS_leaf {t : Tok} (h : flatLeaf t = true) : FlatS (leafTerm t) :=
  ⟨_, _, _, leafTerm_flat h⟩

theorem termn_conj_flat (s e : Bool) (t : Termn) :
    (∃ t', (Termn.ofBools s e).conj t = .neither t') ∨
    (∃ t', (Termn.ofBools s e).conj t = .left t') := by
  cases s <;> cases e <;> cases t <;> simp [Termn.ofBools, Termn.conj]

theorem flat_finalize {A : SepTerm} (hA : FlatS A) {v : NVar} (h : A.finalize = .ok v) :
    ∃ k, v = .inv k := by
  obtain ⟨s, e, k, rfl⟩ := hA
  cases s <;> cases e <;> simp only [SepTerm.finalize, Termn.ofBools, pure, Except.pure,
    Except.ok.injEq] at h
  · exact ⟨_, inv_conj_inv h⟩
  · exact ⟨_, h.symm⟩
  · exact ⟨_, h.symm⟩
  · exact ⟨_, h.symm⟩

theorem inv_conj_loose {k : Nat} {v v' : NVar} (hv : LooseV v) (h : (NVar.inv k).conj v = .ok v') :
    LooseV v' ∧ (v'.hasUpper = false → v.hasUpper = false) := by
  rcases hv with ⟨j, rfl⟩ | rfl | ⟨i, rfl⟩
  · rw [inv_conj_inv h]
    exact ⟨Or.inl ⟨_, rfl⟩, by simp [NVar.hasUpper]⟩
  · simp only [NVar.conj, pure, Except.pure, Except.ok.injEq] at h
    subst h
    refine ⟨?_, fun _ => rfl⟩
    split
    · exact Or.inr (Or.inl rfl)
    · exact Or.inr (Or.inr ⟨_, rfl⟩)
  · simp only [NVar.conj] at h
    obtain ⟨b, hb, h⟩ := bind_ok h
    simp only [BVR.translation] at hb
    obtain ⟨n, _, hb⟩ := bind_ok hb
    have h1 := pure_ok hb
    have h2 := pure_ok h
    subst h1; subst h2
    exact ⟨Or.inr (Or.inr ⟨_, rfl⟩), fun _ => rfl⟩

theorem exh_of_hasUpper {t t' : Termn} {v v' : NVar} (h : v'.hasUpper = false → v.hasUpper = false)
    (ha : SepTerm.exh ⟨t', v'⟩ = .always) : SepTerm.exh ⟨t, v⟩ = .always := by
  simp only [SepTerm.exh] at ha ⊢
  cases hu : v'.hasUpper with
  | true => simp [hu] at ha
  | false => simp [h hu]

theorem flat_conj_loose {A r s' : SepTerm} (hA : FlatS A) (hr : LooseV r.v)
    (h : A.conj r = .ok s') : LooseV s'.v ∧ (s'.exh = .always → r.exh = .always) := by
  have hA' := hA
  obtain ⟨s, e, k, rfl⟩ := hA
  rcases termn_conj_flat s e r.t with ⟨t', hc⟩ | ⟨t', hc⟩
  · simp only [SepTerm.conj, hc, bind, Except.bind, pure, Except.pure] at h
    cases hv : (NVar.inv k).conj r.v with
    | error e => rw [hv] at h; cases h
    | ok v' =>
      rw [hv] at h
      simp only [Except.ok.injEq] at h
      subst h
      obtain ⟨h1, h2⟩ := inv_conj_loose hr hv
      exact ⟨h1, exh_of_hasUpper h2⟩
  · simp only [SepTerm.conj, hc, bind, Except.bind, pure, Except.pure] at h
    cases hf : SepTerm.finalize ⟨Termn.ofBools s e, .inv k⟩ with
    | error e => rw [hf] at h; cases h
    | ok vf =>
      rw [hf] at h
      obtain ⟨k', rfl⟩ := flat_finalize hA' hf
      simp only at h
      cases hv : (NVar.inv k').conj r.v with
      | error e => rw [hv] at h; cases h
      | ok v' =>
        rw [hv] at h
        simp only [Except.ok.injEq] at h
        subst h
        obtain ⟨h1, h2⟩ := inv_conj_loose hr hv
        exact ⟨h1, exh_of_hasUpper h2⟩

theorem flat_conj_flat {A B x : SepTerm} (hA : FlatS A) (hB : FlatS B) (h : A.conj B = .ok x) :
    FlatS x := by
  obtain ⟨s, e, k, rfl⟩ := hA
  obtain ⟨s2, e2, k2, rfl⟩ := hB
  simp only [SepTerm.conj, termn_conj_ofBools, bind, Except.bind, pure, Except.pure] at h
  cases hv : (NVar.inv k).conj (.inv k2) with
  | error e => rw [hv] at h; cases h
  | ok v' =>
    rw [hv] at h
    simp only [Except.ok.injEq] at h
    subst h
    exact ⟨s, e2, _, by rw [inv_conj_inv hv]⟩

/-- map a partial function over the separated terms of a term (what `prod` and `conj` with a
conjunctive left operand do) -/
def DTerm.mapE (f : SepTerm → P SepTerm) : DTerm → P DTerm
  | .c s => (f s).bind (fun y => .ok (.c y))
  | .d ls => (mapP f ls).bind (fun l => .ok (.d (setOf l)))

theorem conj_c_eq_mapE (A : SepTerm) (d : DTerm) : DTerm.conj (.c A) d = d.mapE (fun r => A.conj r) := by
  cases d <;> rfl

theorem mapE_spec {f : SepTerm → P SepTerm} {d d' : DTerm} {Q : SepTerm → Prop}
    (hne : d.elems ≠ [])
    (key : ∀ x ∈ d.elems, ∀ y, f x = .ok y → Q y ∧ (y.exh = .always → x.exh = .always))
    (h : d.mapE f = .ok d') :
    d'.elems ≠ [] ∧ (∀ y ∈ d'.elems, Q y) ∧ (AllAlways d' → AllAlways d) := by
  cases d with
  | c s =>
    simp only [DTerm.mapE] at h
    cases hv : f s with
    | error e => rw [hv] at h; cases h
    | ok y =>
      rw [hv] at h
      simp only [Except.bind, Except.ok.injEq] at h
      subst h
      obtain ⟨h1, h2⟩ := key s (by simp [DTerm.elems]) y hv
      refine ⟨by simp [DTerm.elems], ?_, ?_⟩
      · intro x hx
        simp only [DTerm.elems, List.mem_singleton] at hx
        subst hx; exact h1
      · intro ha x hx
        simp only [DTerm.elems, List.mem_singleton] at hx
        subst hx
        exact h2 (ha _ (by simp [DTerm.elems]))
  | d ls =>
    simp only [DTerm.mapE] at h
    cases hm : mapP f ls with
    | error e => rw [hm] at h; cases h
    | ok ls' =>
      rw [hm] at h
      simp only [Except.bind, Except.ok.injEq] at h
      subst h
      obtain ⟨h1, h2, h3⟩ := mapP_ok_mem hm
      have hne' : ls' ≠ [] := by
        intro he
        rw [he] at h3
        have : ls = [] := List.eq_nil_of_length_eq_zero h3.symm
        exact hne (by simpa [DTerm.elems] using this)
      refine ⟨by simpa [DTerm.elems] using setOf_ne_nil hne', ?_, ?_⟩
      · intro y hy
        simp only [DTerm.elems] at hy
        obtain ⟨x, hx, hxy⟩ := h2 y (setOf_mem_sub hy)
        exact (key x (by simpa [DTerm.elems] using hx) y hxy).1
      · intro ha x hx
        simp only [DTerm.elems] at hx
        obtain ⟨y, hy, hxy⟩ := h1 x hx
        have := setOf_always (l := ls') (fun z hz => ha z (by simpa [DTerm.elems] using hz)) y hy
        exact (key x (by simpa [DTerm.elems] using hx) y hxy).2 this

theorem dconj_flat_loose {A : SepTerm} {d d' : DTerm} (hA : FlatS A) (hd : InvD false d)
    (h : DTerm.conj (.c A) d = .ok d') : InvD false d' ∧ (AllAlways d' → AllAlways d) := by
  rw [conj_c_eq_mapE] at h
  obtain ⟨h1, h2, h3⟩ := mapE_spec (Q := fun y => LooseV y.v) hd.1
    (fun x hx y hy => flat_conj_loose hA (hd.2 x hx) hy) h
  exact ⟨⟨h1, h2⟩, h3⟩

theorem foldlP_flat : ∀ (mids : List Tok) (A : SepTerm) (L : List DTerm) (d : DTerm), FlatS A →
    (∀ m ∈ mids, flatLeaf m = true) →
    foldlP DTerm.conj (.c A) (mids.map (fun m => DTerm.c (leafTerm m)) ++ L) = .ok d →
    ∃ A', FlatS A' ∧ foldlP DTerm.conj (.c A') L = .ok d
  | [], A, L, d, hA, _, h => ⟨A, hA, h⟩
  | m :: ms, A, L, d, hA, hm, h => by
    simp only [List.map_cons, List.cons_append, foldlP, DTerm.conj, bind, Except.bind, pure,
      Except.pure] at h
    cases hc : A.conj (leafTerm m) with
    | error e => rw [hc] at h; cases h
    | ok A2 =>
      rw [hc] at h
      simp only at h
      exact foldlP_flat ms A2 L d (flat_conj_flat hA (flatS_leaf (hm m (List.mem_cons_self ..))) hc)
        (fun x hx => hm x (List.mem_cons_of_mem _ hx)) h

/-- the sum of a run `mids ++ [last]` (or `mids` alone when the last token contributed nothing) -/
theorem reduceP_run (mids : List Tok) (hm : ∀ m ∈ mids, flatLeaf m = true) (L : List DTerm)
    (sum : Option DTerm)
    (h : reduceP DTerm.conj (mids.map (fun m => DTerm.c (leafTerm m)) ++ L) = .ok sum) :
    (mids = [] ∧ reduceP DTerm.conj L = .ok sum) ∨
    (mids ≠ [] ∧ ∃ A d, FlatS A ∧ sum = some d ∧ foldlP DTerm.conj (.c A) L = .ok d) := by
  cases mids with
  | nil => exact Or.inl ⟨rfl, by simpa using h⟩
  | cons m ms =>
    right
    simp only [List.map_cons, List.cons_append, reduceP, bind, Except.bind, pure, Except.pure] at h
    cases hf : foldlP DTerm.conj (.c (leafTerm m)) (ms.map (fun m => DTerm.c (leafTerm m)) ++ L) with
    | error e => rw [hf] at h; cases h
    | ok d =>
      rw [hf] at h
      simp only [Except.ok.injEq] at h
      obtain ⟨A', hA', hd⟩ := foldlP_flat ms _ L d (flatS_leaf (hm m (List.mem_cons_self ..)))
        (fun x hx => hm x (List.mem_cons_of_mem _ hx)) hf
      exact ⟨by simp, A', d, hA', h.symm, hd⟩

/-! ### the fragment -/

def isCatTok : Tok → Bool | .cat .. => true | _ => false

mutual
  /-- F09s on a token; `strict` inside a repetition -/
  def shTok (strict : Bool) : Tok → Bool
    | .sep _ => !strict
    | .alt _ bs => shBranches strict bs
    | .cat _ ts => shList strict ts
    | .rep _ body lo _ => decide (1 ≤ lo) && shTok true body
    | _ => true
  /-- the children of a concatenation: not empty; the last one is in the fragment; every other
  child that the suffix scan takes (it is taken itself and so is everything after it) is a separator
  or a zero-or-more wildcard — and there is none inside a repetition -/
  def shList (strict : Bool) : List Tok → Bool
    | [] => false
    | [t] => shTok strict t
    | s :: t :: ts => shList strict (t :: ts) &&
        (!exhTake s || !(t :: ts).all exhTake || (!strict && flatLeaf s))
  /-- the branches of an alternation: concatenations in the fragment -/
  def shBranches (strict : Bool) : List Tok → Bool
    | [] => true
    | b :: bs => isCatTok b && shTok strict b && shBranches strict bs
end

/-! ### unfolding the fold -/

/-- the `let fin` of `exhTok (.rep ..)`, named -/
def repFin : DTerm → Bool
  | .c ⟨_, .inv 0⟩ => true
  | .c ⟨_, .inv 1⟩ => true
  | .c ⟨_, .inv _⟩ => false
  | _ => true

theorem exhTok_rep (sp : Span) (b : Tok) (lo : Nat) (hi : Option Nat) :
    exhTok (.rep sp b lo hi) = (exhTok b).bind (fun term =>
      match exhFinish 1 term (if term.isSome then 1 else 0) with
      | none => .ok none
      | some term =>
        if repFin term then (term.prod (NRange.fromClosedOpen lo hi)).bind (fun x => .ok (some x))
        else .ok (some term)) := by
  rw [exhTok]; rfl

theorem exhTok_cat (sp : Span) (ts : List Tok) :
    exhTok (.cat sp ts) = (exhSuffix ts).bind (fun terms =>
      (reduceP DTerm.conj terms.1).bind (fun sum =>
        .ok (exhFinish ts.length sum terms.1.length))) := by
  rw [exhTok]; rfl

theorem exhTok_alt (sp : Span) (bs : List Tok) :
    exhTok (.alt sp bs) = (exhSuffix bs).bind (fun terms =>
      (reduceP (fun a b => pure (DTerm.disj a b)) terms.1).bind (fun sum =>
        .ok (exhFinish bs.length sum terms.1.length))) := by
  rw [exhTok]; rfl

theorem exhSuffix_cons (t : Tok) (ts : List Tok) :
    exhSuffix (t :: ts) = (exhSuffix ts).bind (fun r =>
      if r.2 && exhTake t then
        (exhTok t).bind (fun x => .ok ((match x with | some d => d :: r.1 | none => r.1), true))
      else .ok (r.1, false)) := by
  rw [exhSuffix]; rfl

theorem exhSuffix_nil : exhSuffix [] = .ok ([], true) := by
  rw [exhSuffix]; rfl

theorem exhTok_flatLeaf {t : Tok} (h : flatLeaf t = true) : exhTok t = .ok (some (.c (leafTerm t))) := by
  cases t <;> first | (simp [flatLeaf, isSepTok, isRunTok] at h; done) | (rw [exhTok]; rfl)

theorem exhFinish_cases {n k : Nat} {sum : Option DTerm} {d : DTerm}
    (h : exhFinish n sum k = some d) : sum = some d ∨ d = DTerm.zero := by
  unfold exhFinish at h
  split at h
  · exact Or.inl h
  · split at h
    · split at h
      · exact Or.inl h
      · exact Or.inr (Option.some.inj h).symm
    · exact Or.inr (Option.some.inj h).symm

theorem exhFinish_none {n k : Nat} {sum : Option DTerm} (h : exhFinish n sum k = none) :
    n = k ∧ sum = none := by
  unfold exhFinish at h
  split at h
  · rename_i hnk
    exact ⟨by simpa using hnk, h⟩
  · split at h
    · split at h <;> cases h
    · cases h

/-- what the suffix scan returns on a concatenation of the fragment: the terms of a run of flat
leaves (none when strict), then at most one term, that of the last token -/
theorem exhSuffix_shape (strict : Bool) : ∀ (ts : List Tok), shList strict ts = true →
    ∀ r, exhSuffix ts = .ok r →
    r.2 = ts.all exhTake ∧ ∃ t mids L, lastTok ts = some t ∧ shTok strict t = true ∧
      (∀ m ∈ mids, flatLeaf m = true) ∧ (strict = true → mids = []) ∧
      r.1 = mids.map (fun m => DTerm.c (leafTerm m)) ++ L ∧
      (L = [] ∨ ∃ d, L = [d] ∧ exhTok t = .ok (some d))
  | [], h, _, _ => by simp [shList] at h
  | [t], h, r, hr => by
    simp only [shList] at h
    rw [exhSuffix_cons, exhSuffix_nil] at hr
    simp only [Except.bind, Bool.true_and] at hr
    cases hT : exhTake t with
    | false =>
      simp only [hT, Bool.false_eq_true, ↓reduceIte, Except.ok.injEq] at hr
      subst hr
      exact ⟨by simp [hT], t, [], [], rfl, h, by simp, fun _ => rfl, rfl, Or.inl rfl⟩
    | true =>
      simp only [hT, ↓reduceIte] at hr
      cases hx : exhTok t with
      | error e => rw [hx] at hr; cases hr
      | ok x =>
        rw [hx] at hr
        simp only [Except.bind, Except.ok.injEq] at hr
        subst hr
        refine ⟨by simp [hT], t, [], (match x with | some d => [d] | none => []), rfl, h, by simp,
          fun _ => rfl, by cases x <;> rfl, ?_⟩
        cases x with
        | none => exact Or.inl rfl
        | some d => exact Or.inr ⟨d, rfl, hx⟩
  | s :: t :: ts, h, r, hr => by
    simp only [shList, Bool.and_eq_true] at h
    rw [exhSuffix_cons] at hr
    cases hr' : exhSuffix (t :: ts) with
    | error e => rw [hr'] at hr; cases hr
    | ok r' =>
      rw [hr'] at hr
      simp only [Except.bind] at hr
      obtain ⟨hall, t0, mids, L, hlast, hsh, hmids, hstrict, hr1, hL⟩ :=
        exhSuffix_shape strict (t :: ts) h.1 r' hr'
      have hlast' : lastTok (s :: t :: ts) = some t0 := by simpa [lastTok] using hlast
      cases hc : (r'.2 && exhTake s) with
      | false =>
        simp only [hc, Bool.false_eq_true, ↓reduceIte, Except.ok.injEq] at hr
        subst hr
        refine ⟨?_, t0, mids, L, hlast', hsh, hmids, hstrict, hr1, hL⟩
        rw [hall] at hc
        rw [List.all_cons, Bool.and_comm]
        exact hc.symm
      | true =>
        simp only [Bool.and_eq_true] at hc
        have hflat : strict = false ∧ flatLeaf s = true := by
          have := h.2
          rw [← hall, hc.1, hc.2] at this
          simpa using this
        simp only [hc.1, hc.2, Bool.and_self, ↓reduceIte, exhTok_flatLeaf hflat.2, Except.bind,
          Except.ok.injEq] at hr
        subst hr
        refine ⟨?_, t0, s :: mids, L, hlast', hsh, ?_, ?_, ?_, hL⟩
        · rw [List.all_cons, ← hall, hc.1, hc.2]; rfl
        · intro m hm
          cases hm with
          | head => exact hflat.2
          | tail _ hm' => exact hmids m hm'
        · intro hs; rw [hflat.1] at hs; cases hs
        · simp only [List.map_cons, List.cons_append, hr1]

/-- a non-empty concatenation always has a term -/
theorem exhTok_cat_some {sp : Span} {ts : List Tok} (hne : ts ≠ []) {x : Option DTerm}
    (h : exhTok (.cat sp ts) = .ok x) : ∃ d, x = some d := by
  rw [exhTok_cat] at h
  cases hs : exhSuffix ts with
  | error e => rw [hs] at h; cases h
  | ok r =>
    rw [hs] at h
    simp only [Except.bind] at h
    cases hsum : reduceP DTerm.conj r.1 with
    | error e => rw [hsum] at h; cases h
    | ok sum =>
      rw [hsum] at h
      simp only [Except.ok.injEq] at h
      cases x with
      | some d => exact ⟨d, rfl⟩
      | none =>
        exfalso
        obtain ⟨hn, hsn⟩ := exhFinish_none h
        subst hsn
        cases hr1 : r.1 with
        | nil =>
          rw [hr1] at hn
          exact hne (List.eq_nil_of_length_eq_zero hn)
        | cons a as =>
          rw [hr1] at hsum
          simp only [reduceP, bind, Except.bind, pure, Except.pure] at hsum
          cases hf : foldlP DTerm.conj a as with
          | error e => rw [hf] at hsum; cases hsum
          | ok d => rw [hf] at hsum; cases hsum

theorem shList_ne_nil {strict : Bool} {ts : List Tok} (h : shList strict ts = true) : ts ≠ [] := by
  intro he; subst he; simp [shList] at h

/-- the term of a concatenation of the fragment is `zero`, the (invariant) term of a run of flat
leaves, the term of its last token, or that term with a run of flat leaves in front -/
theorem exhTok_cat_shape (strict : Bool) (sp : Span) (ts : List Tok) (hsh : shList strict ts = true)
    (d : DTerm) (h : exhTok (.cat sp ts) = .ok (some d)) :
    ∃ t, lastTok ts = some t ∧ shTok strict t = true ∧
      (d = DTerm.zero ∨ (strict = false ∧ ∃ A, FlatS A ∧ d = .c A) ∨ exhTok t = .ok (some d) ∨
        (strict = false ∧ ∃ A dt, FlatS A ∧ exhTok t = .ok (some dt) ∧
          DTerm.conj (.c A) dt = .ok d)) := by
  rw [exhTok_cat] at h
  cases hs : exhSuffix ts with
  | error e => rw [hs] at h; cases h
  | ok r =>
    rw [hs] at h
    simp only [Except.bind] at h
    cases hsum : reduceP DTerm.conj r.1 with
    | error e => rw [hsum] at h; cases h
    | ok sum =>
      rw [hsum] at h
      simp only [Except.ok.injEq] at h
      obtain ⟨_, t, mids, L, hlast, hsht, hmids, hstrict, hr1, hL⟩ :=
        exhSuffix_shape strict ts hsh r hs
      refine ⟨t, hlast, hsht, ?_⟩
      rcases exhFinish_cases h with hsd | hz
      · subst hsd
        rw [hr1] at hsum
        have hst : mids ≠ [] → strict = false := by
          intro hm
          cases strict with
          | false => rfl
          | true => exact absurd (hstrict rfl) hm
        rcases reduceP_run mids hmids L _ hsum with ⟨hm0, hred⟩ | ⟨hm, A, d', hA, hd', hfold⟩
        · -- no flat leaves in front
          rcases hL with rfl | ⟨dt, rfl, hdt⟩
          · simp [reduceP, pure, Except.pure] at hred
          · simp only [reduceP, foldlP, bind, Except.bind, pure, Except.pure, Except.ok.injEq,
              Option.some.injEq] at hred
            subst hred
            exact Or.inr (Or.inr (Or.inl hdt))
        · have hd'' : d' = d := (Option.some.inj hd').symm
          subst hd''
          rcases hL with rfl | ⟨dt, rfl, hdt⟩
          · simp only [foldlP, pure, Except.pure, Except.ok.injEq] at hfold
            exact Or.inr (Or.inl ⟨hst hm, A, hA, hfold.symm⟩)
          · simp only [foldlP, bind, Except.bind, pure, Except.pure] at hfold
            cases hc : DTerm.conj (.c A) dt with
            | error e => rw [hc] at hfold; cases hfold
            | ok x =>
              rw [hc] at hfold
              simp only [Except.ok.injEq] at hfold
              subst hfold
              exact Or.inr (Or.inr (Or.inr ⟨hst hm, A, dt, hA, hdt, hc⟩))
      · exact Or.inl hz

theorem exhFinish_same (n : Nat) (sum : Option DTerm) : exhFinish n sum n = sum := by
  simp [exhFinish]

theorem invD_leaf_zero (strict : Bool) (t : Termn) : InvD strict (.c ⟨t, .inv 0⟩) :=
  ⟨by simp [DTerm.elems], by
    intro s hs
    simp only [DTerm.elems, List.mem_singleton] at hs
    subst hs
    exact okV_of_strict (Or.inl rfl)⟩

/-- a leaf other than a tree wildcard or a separator: term `zero`, never exhaustive -/
theorem shape_leaf_zero {t : Tok} {strict : Bool} {d : DTerm} (ht : leafTerm t = ⟨.open_, .inv 0⟩)
    (h : (pure (some (DTerm.c (leafTerm t))) : P (Option DTerm)) = .ok (some d)) :
    InvD strict d ∧ (AllAlways d → endsTok t = true) := by
  simp only [pure, Except.pure, Except.ok.injEq, Option.some.injEq] at h
  subst h
  rw [ht]
  exact ⟨invD_leaf_zero _ _, fun ha => absurd ha (not_allAlways_c_inv _ _)⟩

mutual
  /-- **the fold is sound on F09s**: the term it computes satisfies the invariant, and if all its
  separated terms are exhaustive then every flat expansion of the token ends in a tree wildcard -/
  theorem shape_tok : ∀ (t : Tok) (strict : Bool), shTok strict t = true →
      ∀ d, exhTok t = .ok (some d) → InvD strict d ∧ (AllAlways d → endsTok t = true)
    | .lit sp s ci, strict, _, d, h => by rw [exhTok] at h; exact shape_leaf_zero rfl h
    | .cls sp n i, strict, _, d, h => by rw [exhTok] at h; exact shape_leaf_zero rfl h
    | .one sp, strict, _, d, h => by rw [exhTok] at h; exact shape_leaf_zero rfl h
    | .zom sp l, strict, _, d, h => by rw [exhTok] at h; exact shape_leaf_zero rfl h
    | .sep sp, strict, hs, d, h => by
      rw [exhTok] at h
      simp only [pure, Except.pure, Except.ok.injEq, Option.some.injEq] at h
      subst h
      simp only [shTok, Bool.not_eq_true'] at hs
      subst hs
      refine ⟨⟨by simp [DTerm.elems], ?_⟩, fun ha => absurd ha (not_allAlways_c_inv _ _)⟩
      intro s hs
      simp only [DTerm.elems, List.mem_singleton] at hs
      subst hs
      exact Or.inl ⟨1, rfl⟩
    | .tree sp r, strict, _, d, h => by
      rw [exhTok] at h
      simp only [pure, Except.pure, Except.ok.injEq, Option.some.injEq] at h
      subst h
      refine ⟨⟨by simp [DTerm.elems], ?_⟩, fun _ => rfl⟩
      intro s hs
      simp only [DTerm.elems, List.mem_singleton] at hs
      subst hs
      exact okV_of_strict (Or.inr rfl)
    | .alt sp bs, strict, hs, d, h => by
      simp only [shTok] at hs
      rw [exhTok_alt] at h
      cases hsf : exhSuffix bs with
      | error e => rw [hsf] at h; cases h
      | ok r =>
        rw [hsf] at h
        simp only [Except.bind] at h
        obtain ⟨_, h2, h3, h4⟩ := shape_branches bs strict hs r hsf
        cases hsum : reduceP (fun a b => (pure (DTerm.disj a b) : P DTerm)) r.1 with
        | error e => rw [hsum] at h; cases h
        | ok sum =>
          rw [hsum] at h
          simp only [Except.ok.injEq] at h
          rw [h2, exhFinish_same] at h
          subst h
          cases hr1 : r.1 with
          | nil => rw [hr1] at hsum; simp [reduceP, pure, Except.pure] at hsum
          | cons d0 rest =>
            rw [hr1] at hsum h3 h4
            have hf := foldlP_pure DTerm.disj rest d0
            simp only [reduceP, bind, Except.bind, pure, Except.pure] at hsum hf
            rw [hf] at hsum
            simp only [Except.ok.injEq, Option.some.injEq] at hsum
            subst hsum
            have hd0 := h3 d0 (List.mem_cons_self ..)
            refine ⟨⟨foldl_disj_ne_nil rest d0 hd0.1, ?_⟩, ?_⟩
            · intro s hs'
              rcases foldl_disj_sub rest d0 s hs' with h | ⟨d', hd', h⟩
              · exact hd0.2 s h
              · exact (h3 d' (List.mem_cons_of_mem _ hd')).2 s h
            · intro ha
              obtain ⟨a1, a2⟩ := foldl_disj_always rest d0 ha
              simp only [endsTok]
              apply h4
              intro d' hd'
              cases hd' with
              | head => exact a1
              | tail _ hm => exact a2 d' hm
    | .cat sp ts, strict, hs, d, h => by
      simp only [shTok] at hs
      obtain ⟨t, hlast, hsht, hcases⟩ := exhTok_cat_shape strict sp ts hs d h
      rcases hcases with rfl | ⟨hst, A, hA, rfl⟩ | hdt | ⟨hst, A, dt, hA, hdt, hc⟩
      · exact ⟨invD_zero _, fun ha => absurd ha not_allAlways_zero⟩
      · subst hst
        obtain ⟨s, e, k, rfl⟩ := hA
        refine ⟨⟨by simp [DTerm.elems], ?_⟩, fun ha => absurd ha (not_allAlways_c_inv _ _)⟩
        intro x hx
        simp only [DTerm.elems, List.mem_singleton] at hx
        subst hx
        exact Or.inl ⟨k, rfl⟩
      · obtain ⟨h1, h2⟩ := shape_last ts t hlast strict hsht d hdt
        exact ⟨h1, fun ha => by simp only [endsTok]; exact endsList_of_last ts t hlast (h2 ha)⟩
      · subst hst
        obtain ⟨h1, h2⟩ := shape_last ts t hlast false hsht dt hdt
        obtain ⟨h3, h4⟩ := dconj_flat_loose hA h1 hc
        exact ⟨h3, fun ha => by simp only [endsTok]; exact endsList_of_last ts t hlast (h2 (h4 ha))⟩
    | .rep sp b lo hi, strict, hs, d, h => by
      simp only [shTok, Bool.and_eq_true, decide_eq_true_eq] at hs
      rw [exhTok_rep] at h
      cases hb : exhTok b with
      | error e => rw [hb] at h; cases h
      | ok term =>
        rw [hb] at h
        simp only [Except.bind] at h
        have hterm : ∃ term', exhFinish 1 term (if term.isSome then 1 else 0) = some term' ∧
            InvD true term' ∧ (AllAlways term' → endsTok b = true) := by
          cases term with
          | none => exact ⟨DTerm.zero, rfl, invD_zero _, fun ha => absurd ha not_allAlways_zero⟩
          | some db =>
            obtain ⟨h1, h2⟩ := shape_tok b true hs.2 db hb
            exact ⟨db, rfl, h1, h2⟩
        obtain ⟨term', he, hinv, hends⟩ := hterm
        rw [he] at h
        simp only at h
        have hrep : endsTok b = true → endsTok (.rep sp b lo hi) = true := by
          intro hb'
          simp only [endsTok, Bool.and_eq_true, decide_eq_true_eq]
          exact ⟨hs.1, hb'⟩
        cases hfin : repFin term' with
        | false =>
          simp only [hfin, Bool.false_eq_true, ↓reduceIte, Except.ok.injEq, Option.some.injEq] at h
          subst h
          exact ⟨invD_of_strict hinv, fun ha => hrep (hends ha)⟩
        | true =>
          simp only [hfin, ↓reduceIte] at h
          cases hp : term'.prod (NRange.fromClosedOpen lo hi) with
          | error e => rw [hp] at h; cases h
          | ok x =>
            rw [hp] at h
            simp only [Except.bind, Except.ok.injEq, Option.some.injEq] at h
            subst h
            obtain ⟨h1, h2⟩ := dterm_prod_strict _ hinv hp
            exact ⟨invD_of_strict h1, fun ha => hrep (hends (h2 ha))⟩
  theorem shape_last : ∀ (ts : List Tok) (t : Tok), lastTok ts = some t → ∀ (strict : Bool),
      shTok strict t = true → ∀ d, exhTok t = .ok (some d) →
      InvD strict d ∧ (AllAlways d → endsTok t = true)
    | [], _, h => by simp [lastTok] at h
    | [x], t, h => by
      simp only [lastTok, Option.some.injEq] at h
      subst h
      exact shape_tok x
    | x :: y :: ts, t, h => shape_last (y :: ts) t (by simpa [lastTok] using h)
  theorem shape_branches : ∀ (bs : List Tok) (strict : Bool), shBranches strict bs = true →
      ∀ r, exhSuffix bs = .ok r →
      r.2 = true ∧ r.1.length = bs.length ∧ (∀ d ∈ r.1, InvD strict d) ∧
        ((∀ d ∈ r.1, AllAlways d) → endsBranches bs = true)
    | [], strict, _, r, hr => by
      rw [exhSuffix_nil] at hr
      cases hr
      simp [endsBranches]
    | b :: bs, strict, hs, r, hr => by
      simp only [shBranches, Bool.and_eq_true] at hs
      rw [exhSuffix_cons] at hr
      cases hr' : exhSuffix bs with
      | error e => rw [hr'] at hr; cases hr
      | ok r' =>
        rw [hr'] at hr
        obtain ⟨h1, h2, h3, h4⟩ := shape_branches bs strict hs.2 r' hr'
        have hT : exhTake b = true := by
          cases b <;> first | rfl | (simp [isCatTok] at hs)
        simp only [Except.bind, h1, hT, Bool.and_self, ↓reduceIte] at hr
        cases hx : exhTok b with
        | error e => rw [hx] at hr; cases hr
        | ok x =>
          rw [hx] at hr
          simp only [Except.ok.injEq] at hr
          have hxd : ∃ d, x = some d := by
            cases b with
            | cat sp ts =>
              have : shList strict ts = true := by simpa [shTok] using hs.1.2
              exact exhTok_cat_some (shList_ne_nil this) hx
            | _ => simp [isCatTok] at hs
          obtain ⟨d, rfl⟩ := hxd
          subst hr
          obtain ⟨h5, h6⟩ := shape_tok b strict hs.1.2 d hx
          refine ⟨rfl, by simp [h2], ?_, ?_⟩
          · intro d' hd'
            cases hd' with
            | head => exact h5
            | tail _ hm => exact h3 d' hm
          · intro ha
            simp only [endsBranches, Bool.and_eq_true]
            exact ⟨h6 (ha d (List.mem_cons_self ..)),
              h4 (fun d' hd' => ha d' (List.mem_cons_of_mem _ hd'))⟩
end

/-! ### the headline theorems -/

/-- **on F09s the verdict `Always` is a proof that the pattern ends in a tree wildcard** -/
theorem always_endsList_of_shape (sp : Span) (ts : List Tok) (hsh : shList false ts = true)
    (hAlways : isExhaustive (.cat sp ts) = .ok .always) : endsList ts = true := by
  unfold isExhaustive at hAlways
  cases hx : exhTok (.cat sp ts) with
  | error e => rw [hx] at hAlways; cases hAlways
  | ok x =>
    rw [hx] at hAlways
    cases x with
    | none =>
      simp only [bind, Except.bind, pure, Except.pure, Except.ok.injEq] at hAlways
      cases hAlways
    | some d =>
      simp only [bind, Except.bind, pure, Except.pure, Except.ok.injEq] at hAlways
      have ha := ((isExhaustive_always_iff d).mp hAlways).2
      have := (shape_tok (.cat sp ts) false (by simpa [shTok] using hsh) d hx).2 ha
      simpa [endsTok] using this

/-- the pattern ends in a tree wildcard followed by one zero-or-more wildcard (`**/*`, `src/**/*`):
the shape of `treeZom_descClosed` -/
def endsTreeZomB : List Tok → Bool
  | [.tree _ _, .zom _ _] => true
  | _ :: t :: ts => endsTreeZomB (t :: ts)
  | _ => false

theorem endsTreeZomB_spec : ∀ (ts : List Tok), endsTreeZomB ts = true →
    ∃ pre sp r sp' lz, ts = pre ++ [.tree sp r, .zom sp' lz]
  | [], h => by simp [endsTreeZomB] at h
  | [_], h => by simp [endsTreeZomB] at h
  | [a, b], h => by
    cases a <;> cases b <;> first | (simp [endsTreeZomB] at h; done) | exact ⟨[], _, _, _, _, rfl⟩
  | a :: b :: c :: ts, h => by
    have h' : endsTreeZomB (b :: c :: ts) = true := by
      cases a <;> cases b <;> simpa [endsTreeZomB] using h
    obtain ⟨pre, sp, r, sp', lz, he⟩ := endsTreeZomB_spec (b :: c :: ts) h'
    exact ⟨a :: pre, sp, r, sp', lz, by rw [he]; rfl⟩

/-- F09b: every flat expansion ends in a tree wildcard (`endsList`: the last top-level token is a
tree wildcard, or an alternation / a repetition `lo ≥ 1` all of whose expansions end in one), or the
pattern is in F09s (`shList false`), where the verdict itself is trustworthy, or it ends in `** *`
(`treeZom_descClosed`).  F09a ⊆ F09b. -/
def F09b (ts : List Tok) : Bool := endsList ts || shList false ts || endsTreeZomB ts

/-- **C09 on F09b** (`exhaustive_sound_branch_partial`): an `Always` verdict implies that with
every path the pattern matches it matches everything beneath it. -/
theorem exhaustive_sound_branch_partial (σ : Sem) (sp : Span) (ts : List Tok)
    (hfrag : F09b ts = true) (hAlways : isExhaustive (.cat sp ts) = .ok .always) (w : Str)
    (hm : Spec.Matches σ (.cat sp ts) w) (x : Str) :
    Spec.Matches σ (.cat sp ts) (w ++ '/' :: x) := by
  simp only [F09b, Bool.or_eq_true] at hfrag
  rcases hfrag with (h | h) | h
  · exact endsInTree_descClosed σ (.cat sp ts) h w hm x
  · exact endsInTree_descClosed σ (.cat sp ts) (always_endsList_of_shape sp ts h hAlways) w hm x
  · obtain ⟨pre, sp1, r, sp2, lz, rfl⟩ := endsTreeZomB_spec ts h
    exact treeZom_descClosed σ sp sp1 sp2 pre r lz w x hm

/-- the same at the level of the property, away from `""` and `"/"` -/
theorem exhaustive_beneath_branch_partial (σ : Sem) (sp : Span) (ts : List Tok)
    (hfrag : F09b ts = true) (hAlways : isExhaustive (.cat sp ts) = .ok .always) (p q : Str)
    (hc : Canonical p) (hne : p ≠ []) (hnr : p ≠ ['/'])
    (hm : Spec.Matches σ (.cat sp ts) p) (hb : Beneath p q) :
    Spec.Matches σ (.cat sp ts) q := by
  simp only [Beneath, hne, hnr, ↓reduceIte] at hb
  obtain ⟨r, _, rfl⟩ := hb
  exact exhaustive_sound_branch_partial σ sp ts hfrag hAlways p hm r

/-- the pattern can match neither `""` nor `"/"`: it matches at least two characters, or starts
with a character that is not a separator (purely syntactic) -/
def nonRootS (ts : List Tok) : Bool := decide (2 ≤ minLenTop ts) || firstNotSep ts

theorem firstNotSep_ne_nil (σ : Sem) {c : Ctx} {ts : List Tok} {w : Str}
    (hf : firstNotSep ts = true) (h : SMs σ c ts w) : w ≠ [] := by
  have h1 : 1 ≤ minLenList ts := by
    unfold firstNotSep at hf
    split at hf <;> first | (simp [minLenList, minLen]; done) | (simp [minLenList, minLen]; omega) | cases hf
  have h2 := sms_minLen σ h
  intro he; subst he; simp at h2; omega

/-- **C09 on F09b for ALL canonical paths**, for patterns that match neither `""` nor `"/"`
(semantic side condition) -/
theorem exhaustive_beneath_branch_sem (σ : Sem) (sp : Span) (ts : List Tok)
    (hfrag : F09b ts = true) (hAlways : isExhaustive (.cat sp ts) = .ok .always)
    (hE : ¬ Spec.Matches σ (.cat sp ts) []) (hR : ¬ Spec.Matches σ (.cat sp ts) ['/'])
    (p q : Str) (hc : Canonical p) (hm : Spec.Matches σ (.cat sp ts) p) (hb : Beneath p q) :
    Spec.Matches σ (.cat sp ts) q := by
  by_cases h1 : p = []
  · subst h1; exact absurd hm hE
  · by_cases h2 : p = ['/']
    · subst h2; exact absurd hm hR
    · exact exhaustive_beneath_branch_partial σ sp ts hfrag hAlways p q hc h1 h2 hm hb

/-- the same with the side condition decided by the oracle -/
theorem exhaustive_beneath_branch_oracle (σ : Sem) (hdot : σ.dotall = true) (sp : Span)
    (ts : List Tok) (hfrag : F09b ts = true) (hAlways : isExhaustive (.cat sp ts) = .ok .always)
    (hE : (specRe (.cat sp ts)).matchB σ [] = false)
    (hR : (specRe (.cat sp ts)).matchB σ ['/'] = false)
    (p q : Str) (hc : Canonical p) (hm : Spec.Matches σ (.cat sp ts) p) (hb : Beneath p q) :
    Spec.Matches σ (.cat sp ts) q := by
  refine exhaustive_beneath_branch_sem σ sp ts hfrag hAlways ?_ ?_ p q hc hm hb
  · intro h
    have := (matchB_iff ..).mpr ((specRe_correct σ hdot _ _).mpr h)
    rw [hE] at this; cases this
  · intro h
    have := (matchB_iff ..).mpr ((specRe_correct σ hdot _ _).mpr h)
    rw [hR] at this; cases this

/-- **C09 on F09b for ALL canonical paths, syntactic side condition** (`nonRootS`) -/
theorem exhaustive_beneath_branch_root (σ : Sem) (sp : Span) (ts : List Tok)
    (hfrag : F09b ts = true) (hAlways : isExhaustive (.cat sp ts) = .ok .always)
    (hN : nonRootS ts = true)
    (p q : Str) (hc : Canonical p) (hm : Spec.Matches σ (.cat sp ts) p) (hb : Beneath p q) :
    Spec.Matches σ (.cat sp ts) q := by
  simp only [nonRootS, Bool.or_eq_true, decide_eq_true_eq] at hN
  refine exhaustive_beneath_branch_sem σ sp ts hfrag hAlways ?_ ?_ p q hc hm hb
  · intro h
    have h' : SMs σ ⟨true, true⟩ ts [] := h
    rcases hN with hN | hN
    · have := sms_minLenTop σ h'
      simp only [List.length_nil] at this; omega
    · exact firstNotSep_ne_nil σ hN h' rfl
  · intro h
    have h' : SMs σ ⟨true, true⟩ ts ['/'] := h
    rcases hN with hN | hN
    · have := sms_minLenTop σ h'
      simp only [List.length_cons, List.length_nil] at this; omega
    · exact firstNotSep_sound σ hN h' rfl

/-- F09a is inside F09b -/
theorem F09a_sub_F09b (ts : List Tok) (t : Tok) (hlast : lastTok ts = some t)
    (hfrag : isTreeTok t = true ∨ exhTake t = false) : F09b ts = true := by
  simp only [F09b, Bool.or_eq_true]
  rcases hfrag with h | h
  · left; left
    exact endsList_of_last ts t hlast (by cases t <;> simp_all [isTreeTok, endsTok])
  · left; right
    have hsh : shTok false t = true := by cases t <;> simp_all [exhTake, shTok]
    have : ∀ (ts : List Tok), lastTok ts = some t → shList false ts = true ∧ ts.all exhTake = false := by
      intro ts
      induction ts with
      | nil => intro h'; simp [lastTok] at h'
      | cons x xs ih =>
        intro h'
        cases xs with
        | nil =>
          simp only [lastTok, Option.some.injEq] at h'
          subst h'
          exact ⟨by simpa [shList] using hsh, by simp [h]⟩
        | cons y ys =>
          obtain ⟨h1, h2⟩ := ih (by simpa [lastTok] using h')
          refine ⟨?_, ?_⟩
          · simp only [shList, Bool.and_eq_true, Bool.or_eq_true, Bool.not_eq_true']
            exact ⟨h1, Or.inl (Or.inr h2)⟩
          · rw [List.all_cons, h2, Bool.and_false]
    exact (this ts hlast).1

/-! ### the fragment against the recorded findings -/

/-- for a pattern text: (in F09b, in F09s, ends in a tree wildcard, the verdict) -/
def shapeInfo (e : String) : Option (Bool × Bool × Bool × Option When) :=
  match parse e.toList with
  | .ok (.cat sp ts) => some (F09b ts, shList false ts, endsList ts, (isExhaustive (.cat sp ts)).toOption)
  | _ => none

set_option maxRecDepth 100000 in
/-- every known false `Always` is outside F09b -/
theorem false_always_outside_F09b :
    shapeInfo "**/{a}" = some (false, false, false, some .always) ∧
    shapeInfo "**/{a*,b}" = some (false, false, false, some .always) ∧
    shapeInfo "**/<a*:1>" = some (false, false, false, some .always) ∧
    shapeInfo "<*/:1,><a>" = some (false, false, false, some .always) ∧
    shapeInfo "<*/>" = some (false, false, false, some .always) ∧
    shapeInfo "**/*/" = some (false, false, false, some .always) ∧
    shapeInfo "$<a/**>" = some (false, false, false, some .always) ∧
    shapeInfo "**/{a}*" = some (false, false, false, some .always) ∧
    shapeInfo "</{b}:1,>" = some (false, false, false, some .always) := by
  refine ⟨?_, ?_, ?_, ?_, ?_, ?_, ?_, ?_, ?_⟩ <;> rfl

set_option maxRecDepth 100000 in
/-- inside F09s the verdict discriminates: `Always` exactly on the patterns below that end in a tree
wildcard (so `exhaustive_sound_branch_partial` is not vacuous, and its `Always` hypothesis is used) -/
theorem F09s_examples :
    shapeInfo "a/{b/**,c/**}" = some (true, true, true, some .always) ∧
    shapeInfo "a/{b/**,c}" = some (true, true, false, some .sometimes) ∧
    shapeInfo "a/<b/**:1,>" = some (true, true, true, some .always) ∧
    shapeInfo "a/{b/{c/**,d/**},e/**}" = some (true, true, true, some .always) ∧
    shapeInfo "a/{b/{c/**,d},e/**}" = some (true, true, false, some .sometimes) ∧
    shapeInfo "{a/**,b/*/**}" = some (true, true, true, some .always) ∧
    shapeInfo "a/{b,c}" = some (true, true, false, some .never) ∧
    shapeInfo "{a/**,{b,c}/**}" = some (true, false, true, some .always) ∧
    shapeInfo "a/**/*" = some (true, false, false, some .always) := by
  refine ⟨?_, ?_, ?_, ?_, ?_, ?_, ?_, ?_, ?_⟩ <;> rfl

-- the theorem at work on `a/{b/**,c/**}`: from `a/b` to `a/b/x/y`
example (σ : Sem) (sp : Span) :
    let ts : List Tok := [.lit sp ['a'] false, .sep sp,
      .alt sp [.cat sp [.lit sp ['b'] false, .tree sp true], .cat sp [.lit sp ['c'] false, .tree sp true]]]
    shList false ts = true ∧ isExhaustive (.cat sp ts) = .ok .always ∧
    (Spec.Matches σ (.cat sp ts) "a/b".toList → Spec.Matches σ (.cat sp ts) "a/b/x/y".toList) := by
  intro ts
  refine ⟨rfl, rfl, fun h => ?_⟩
  exact exhaustive_beneath_branch_partial σ sp ts rfl rfl "a/b".toList "a/b/x/y".toList (by decide)
    (by decide) (by decide) h (by decide)

-- `a/{b/**,c/**}` meets the syntactic side condition for all canonical paths
example (sp : Span) : nonRootS [.lit sp ['a'] false, .sep sp,
    .alt sp [.cat sp [.lit sp ['b'] false, .tree sp true], .cat sp [.lit sp ['c'] false, .tree sp true]]]
    = true := rfl

/-- `</{b}:1,>` -/
def exhRepSepTok : Tok :=
  .cat ⟨0, 9⟩ [.rep ⟨0, 9⟩ (.cat ⟨1, 4⟩ [.sep ⟨1, 1⟩, .alt ⟨2, 3⟩ [.cat ⟨3, 1⟩ [.lit ⟨3, 1⟩ ['b'] false]]])
    1 none]

set_option maxRecDepth 100000 in
theorem exhRepSepTok_parse : parse "</{b}:1,>".toList = .ok exhRepSepTok := by rfl

/-- one more false `Always`, of the family "depth unbounded through a repetition" (outside F09b):
`</{b}:1,>` passes the rule check, reports `Always`, matches the canonical path `/b` and does not
match `/b/q` beneath it -/
theorem exh_repSep_witness :
    checkS exhRepSepTok = true ∧ isExhaustive exhRepSepTok = .ok .always ∧
    Canonical "/b".toList ∧ Spec.Matches σcs exhRepSepTok "/b".toList ∧
    Beneath "/b".toList "/b/q".toList ∧ ¬ Spec.Matches σcs exhRepSepTok "/b/q".toList := by
  refine ⟨by decide, rfl, by decide, ?_, by decide, ?_⟩
  · exact (specRe_correct σcs rfl _ _).mp ((matchB_iff ..).mp (by decide))
  · intro h
    exact absurd ((matchB_iff ..).mpr ((specRe_correct σcs rfl _ _).mpr h)) (by decide)

end Wax
