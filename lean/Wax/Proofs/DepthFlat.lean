import Wax.Depth
import Wax.Proofs.Total
import Wax.Proofs.GlobWalk
/-!
C10 on the fragment "flat, tree-free, every component has a solid token": the depth the fold
reports is the number of components of every matched path.
-/
set_option linter.unusedSimpArgs false
namespace Wax
open Wax.WalkTree (joinSep)

/-! ### the model side: closed form of the fold -/

def Termn.ofBools : Bool → Bool → Termn
  | false, false => .open_
  | true, false => .first
  | false, true => .last
  | true, true => .closed

/-- the 16 non-coalescent rows: the result starts like the left and ends like the right -/
theorem termn_conj_ofBools (s1 e1 s2 e2 : Bool) :
    (Termn.ofBools s1 e1).conj (Termn.ofBools s2 e2) = .neither (Termn.ofBools s1 e2) := by
  cases s1 <;> cases e1 <;> cases s2 <;> cases e2 <;> rfl

def isSepTok : Tok → Bool | .sep _ => true | _ => false
def isRunTok : Tok → Bool | .lit .. | .cls .. | .one _ | .zom .. => true | _ => false
def flatLeaf (t : Tok) : Bool := isSepTok t || isRunTok t
def b2n (b : Bool) : Nat := if b then 1 else 0
def sepCount : List Tok → Nat
  | [] => 0
  | t :: ts => b2n (isSepTok t) + sepCount ts
def lastSepD : Bool → List Tok → Bool
  | e, [] => e
  | _, t :: ts => lastSepD (isSepTok t) ts

theorem leafTerm_flat {t : Tok} (h : flatLeaf t = true) :
    leafTerm t = ⟨Termn.ofBools (isSepTok t) (isSepTok t), .inv (b2n (isSepTok t))⟩ := by
  cases t <;> simp_all [flatLeaf, isSepTok, isRunTok, leafTerm, Termn.ofBools, b2n]

theorem conj_step (s e : Bool) (k : Nat) (t : Tok) (h : flatLeaf t = true)
    (hk : k + b2n (isSepTok t) < usizeLim) :
    SepTerm.conj ⟨Termn.ofBools s e, .inv k⟩ (leafTerm t) =
      .ok ⟨Termn.ofBools s (isSepTok t), .inv (k + b2n (isSepTok t))⟩ := by
  rw [leafTerm_flat h]
  simp only [SepTerm.conj, termn_conj_ofBools, NVar.conj, cadd_of_lt hk]
  rfl

theorem fold_closed : ∀ (xs : List Tok) (s e : Bool) (k : Nat), (∀ t ∈ xs, flatLeaf t = true) →
    k + xs.length < usizeLim →
    (xs.map leafTerm).foldlM SepTerm.conj ⟨Termn.ofBools s e, .inv k⟩ =
      .ok ⟨Termn.ofBools s (lastSepD e xs), .inv (k + sepCount xs)⟩
  | [], s, e, k, _, _ => by simp [lastSepD, sepCount, pure, Except.pure]
  | t :: xs, s, e, k, hf, hk => by
    have hb : b2n (isSepTok t) ≤ 1 := by unfold b2n; split <;> omega
    simp only [List.length_cons] at hk
    simp only [List.map_cons, List.foldlM_cons]
    rw [conj_step s e k t (hf t (by simp)) (by omega)]
    simp only [bind, Except.bind]
    rw [fold_closed xs s (isSepTok t) _ (fun u hu => hf u (by simp [hu])) (by omega)]
    simp [lastSepD, sepCount, Nat.add_assoc]

theorem finalize_closed (s e : Bool) (k : Nat) (hk : k + 1 < usizeLim) :
    (⟨Termn.ofBools s e, .inv k⟩ : SepTerm).finalize = .ok (.inv (k + 1 - b2n s - b2n e)) := by
  cases s <;> cases e <;>
    simp [SepTerm.finalize, Termn.ofBools, NVar.conj, cadd_of_lt hk, b2n, pure, Except.pure, bind,
      Except.bind]

/-- the closed form of the reported depth of a flat, tree-free concatenation -/
theorem depthFlat_closed (x : Tok) (xs : List Tok) (hf : ∀ t ∈ x :: xs, flatLeaf t = true)
    (hlen : (x :: xs).length + 1 < usizeLim) :
    depthFlat (x :: xs) =
      .ok (.inv (sepCount (x :: xs) + 1 - b2n (isSepTok x) - b2n (lastSepD (isSepTok x) xs))) := by
  have hb : b2n (isSepTok x) ≤ 1 := by unfold b2n; split <;> omega
  have hsc : ∀ ys : List Tok, sepCount ys ≤ ys.length := by
    intro ys; induction ys with
    | nil => simp [sepCount]
    | cons y ys ih =>
      have : b2n (isSepTok y) ≤ 1 := by unfold b2n; split <;> omega
      simp [sepCount]; omega
  simp only [List.length_cons] at hlen
  simp only [depthFlat]
  rw [leafTerm_flat (hf x (by simp))]
  rw [fold_closed xs (isSepTok x) (isSepTok x) _ (fun u hu => hf u (by simp [hu])) (by omega)]
  simp only [bind, Except.bind]
  rw [finalize_closed _ _ _ (by have := hsc xs; omega)]
  simp [sepCount]

/-! ### the specification side: components of a matched path -/

/-- number of components (maximal non-empty separator-free pieces) -/
def depthGo : Bool → Str → Nat
  | _, [] => 0
  | inRun, c :: w => if c = '/' then depthGo false w else (if inRun then 0 else 1) + depthGo true w
def depthOf (w : Str) : Nat := depthGo false w

theorem depthGo_true_sepFree : ∀ (u v : Str), SepFree u →
    depthGo true (u ++ '/' :: v) = depthGo false v
  | [], v, _ => by simp [depthGo]
  | c :: u, v, h => by
    obtain ⟨hc, hu⟩ := sepFree_cons.mp h
    simp [depthGo, hc, depthGo_true_sepFree u v hu]

theorem depthGo_true_sepFree_end : ∀ (u : Str), SepFree u → depthGo true u = 0
  | [], _ => rfl
  | c :: u, h => by
    obtain ⟨hc, hu⟩ := sepFree_cons.mp h
    simp [depthGo, hc, depthGo_true_sepFree_end u hu]

theorem depthOf_piece (u v : Str) (hu : SepFree u) :
    depthOf (u ++ '/' :: v) = b2n (!u.isEmpty) + depthOf v := by
  cases u with
  | nil => simp [depthOf, depthGo, b2n]
  | cons c u =>
    obtain ⟨hc, hu'⟩ := sepFree_cons.mp hu
    simp [depthOf, depthGo, hc, depthGo_true_sepFree u v hu', b2n]

theorem depthOf_last (u : Str) (hu : SepFree u) : depthOf u = b2n (!u.isEmpty) := by
  cases u with
  | nil => simp [depthOf, depthGo, b2n]
  | cons c u =>
    obtain ⟨hc, hu'⟩ := sepFree_cons.mp hu
    simp [depthOf, depthGo, hc, depthGo_true_sepFree_end u hu', b2n]

/-- a token that cannot match the empty string -/
def solid : Tok → Bool
  | .lit _ s _ => !s.isEmpty
  | .cls .. => true
  | .one _ => true
  | _ => false

theorem litEq_length {σ : Sem} {ci : Bool} : ∀ {s w : Str}, litEq σ ci s w = true → w.length = s.length
  | [], [], _ => rfl
  | [], _ :: _, h => by simp [litEq] at h
  | _ :: _, [], h => by simp [litEq] at h
  | a :: s, b :: w, h => by
    simp only [litEq, Bool.and_eq_true] at h
    simp [litEq_length h.2]

theorem solid_nonempty {σ : Sem} {c : Ctx} {t : Tok} {w : Str} (hs : solid t = true)
    (h : SM σ c t w) : w ≠ [] := by
  cases h with
  | lit hl =>
    simp only [solid] at hs
    have := litEq_length hl
    intro e; subst e
    rename_i s _
    cases s <;> simp_all
  | cls => simp
  | one => simp
  | sep => simp [solid] at hs
  | zom => simp [solid] at hs
  | tree => simp [solid] at hs
  | alt => simp [solid] at hs
  | rep => simp [solid] at hs
  | cat => simp [solid] at hs

theorem run_nonempty {σ : Sem} : ∀ {run : List Tok} {c : Ctx} {w : Str}, run.any solid = true →
    SMs σ c run w → w ≠ []
  | [], _, _, hs, _ => by simp at hs
  | t :: ts, c, w, hs, h => by
    simp only [List.any_cons, Bool.or_eq_true] at hs
    cases h with
    | cons hu hv =>
      rcases hs with hs | hs
      · have := solid_nonempty hs hu
        intro e; exact this (List.append_eq_nil_iff.mp e).1
      · have := run_nonempty hs hv
        intro e; exact this (List.append_eq_nil_iff.mp e).2

/-- a run of tokens between separators: boundary-free, and empty or unable to match `""` -/
def RunOk (run : List Tok) : Prop := noBoundaryL run = true ∧ (run = [] ∨ run.any solid = true)

theorem run_piece {σ : Sem} {run : List Tok} {c : Ctx} {u : Str} (hr : RunOk run)
    (h : SMs σ c run u) : (!u.isEmpty) = !run.isEmpty := by
  rcases hr.2 with rfl | hs
  · rw [sms_nil] at h; subst h; rfl
  · have := run_nonempty hs h
    cases run with
    | nil => simp at hs
    | cons t ts => cases u <;> simp_all

/-- number of non-empty runs -/
def runCount : List (List Tok × Span) → List Tok → Nat
  | [], last => b2n (!last.isEmpty)
  | (r, _) :: cs, last => b2n (!r.isEmpty) + runCount cs last

/-- **C10, specification side**: every path matched by runs joined with separators has exactly as
many components as there are non-empty runs -/
theorem depth_of_match (σ : Sem) (hσ : SepIsolated σ) :
    ∀ (comps : List (List Tok × Span)) (last : List Tok) (c : Ctx) (w : Str),
      (∀ x ∈ comps, RunOk x.1) → RunOk last → SMs σ c (joinSep comps last) w →
      depthOf w = runCount comps last
  | [], last, c, w, _, hl, h => by
    simp only [joinSep] at h
    have hsf := sms_sepFree σ hσ h hl.1
    rw [depthOf_last w hsf, run_piece hl h]; rfl
  | (r, sp) :: cs, last, c, w, hc, hl, h => by
    simp only [joinSep] at h
    have hr := hc (r, sp) (by simp)
    obtain ⟨u, v, rfl, hu, hmu, hmv⟩ := first_component σ hσ c r (joinSep cs last) sp hr.1 _ h
    rw [depthOf_piece u v hu, run_piece hr hmu,
      depth_of_match σ hσ cs last _ v (fun x hx => hc x (by simp [hx])) hl hmv]
    rfl

/-! ### linking the two sides -/

def RunToks (run : List Tok) : Prop := ∀ t ∈ run, isRunTok t = true

theorem runTok_not_sep {t : Tok} (h : isRunTok t = true) : isSepTok t = false := by
  cases t <;> simp_all [isRunTok, isSepTok]

theorem sepCount_append : ∀ (a b : List Tok), sepCount (a ++ b) = sepCount a + sepCount b
  | [], b => by simp [sepCount]
  | t :: a, b => by simp [sepCount, sepCount_append a b, Nat.add_assoc]

theorem sepCount_run : ∀ {run : List Tok}, RunToks run → sepCount run = 0
  | [], _ => rfl
  | t :: ts, h => by
    have ht := runTok_not_sep (h t (by simp))
    have hts : RunToks ts := fun u hu => h u (by simp [hu])
    simp [sepCount, ht, b2n, sepCount_run hts]

theorem lastSepD_append : ∀ (a b : List Tok) (e : Bool),
    lastSepD e (a ++ b) = lastSepD (lastSepD e a) b
  | [], b, e => rfl
  | t :: a, b, e => by simp [lastSepD, lastSepD_append a b]

theorem lastSepD_run : ∀ {run : List Tok} (e : Bool), RunToks run →
    lastSepD e run = (run.isEmpty && e)
  | [], e, _ => by simp [lastSepD]
  | t :: ts, e, h => by
    have ht := runTok_not_sep (h t (by simp))
    have hts : RunToks ts := fun u hu => h u (by simp [hu])
    have := lastSepD_run (run := ts) (isSepTok t) hts
    rw [ht] at this
    simp [lastSepD, this, ht]

theorem sepCount_joinSep : ∀ (comps : List (List Tok × Span)) (last : List Tok),
    (∀ x ∈ comps, RunToks x.1) → RunToks last → sepCount (joinSep comps last) = comps.length
  | [], last, _, hl => by simp [joinSep, sepCount_run hl]
  | (r, sp) :: cs, last, hc, hl => by
    simp only [joinSep, sepCount_append, sepCount, isSepTok, b2n, List.length_cons]
    rw [sepCount_run (hc (r, sp) (by simp)),
      sepCount_joinSep cs last (fun x hx => hc x (by simp [hx])) hl]
    simp; omega

theorem lastSepD_joinSep : ∀ (comps : List (List Tok × Span)) (last : List Tok) (e : Bool),
    (∀ x ∈ comps, RunToks x.1) → RunToks last →
    lastSepD e (joinSep comps last) = (last.isEmpty && (!comps.isEmpty || e))
  | [], last, e, _, hl => by simp [joinSep, lastSepD_run e hl]
  | (r, sp) :: cs, last, e, hc, hl => by
    simp only [joinSep, lastSepD_append, lastSepD, isSepTok]
    rw [lastSepD_joinSep cs last true (fun x hx => hc x (by simp [hx])) hl]
    simp

theorem runCount_mid : ∀ (mid : List (List Tok × Span)) (last : List Tok),
    (∀ x ∈ mid, x.1 ≠ []) → runCount mid last = mid.length + b2n (!last.isEmpty)
  | [], last, _ => by simp [runCount]
  | (r, sp) :: cs, last, h => by
    have hr : r ≠ [] := h (r, sp) (by simp)
    have : (!r.isEmpty) = true := by cases r <;> simp_all
    simp only [runCount, this, b2n, List.length_cons]
    rw [runCount_mid cs last (fun x hx => h x (by simp [hx]))]
    simp [b2n]; omega

/-- the model's reported depth, for runs joined by separators with no two separators adjacent -/
theorem depthFlat_runs (comps : List (List Tok × Span)) (last : List Tok)
    (hc : ∀ x ∈ comps, RunToks x.1) (hl : RunToks last)
    (hmid : ∀ x ∈ comps.tail, x.1 ≠ []) (hne : joinSep comps last ≠ [])
    (hlen : (joinSep comps last).length + 1 < usizeLim) :
    depthFlat (joinSep comps last) = .ok (.inv (runCount comps last)) := by
  have hflat : ∀ t ∈ joinSep comps last, flatLeaf t = true := by
    clear hmid hne hlen
    induction comps with
    | nil => intro t ht; simp only [joinSep] at ht; simp [flatLeaf, hl t ht]
    | cons c cs ih =>
      obtain ⟨r, sp⟩ := c
      intro t ht
      simp only [joinSep, List.mem_append, List.mem_cons] at ht
      rcases ht with ht | rfl | ht
      · simp [flatLeaf, hc (r, sp) (by simp) t ht]
      · simp [flatLeaf, isSepTok]
      · exact ih (fun x hx => hc x (by simp [hx])) t ht
  cases hts : joinSep comps last with
  | nil => exact absurd hts hne
  | cons x xs =>
    rw [hts] at hflat hlen
    rw [depthFlat_closed x xs hflat hlen]
    have hlast : lastSepD (isSepTok x) xs = lastSepD false (joinSep comps last) := by
      rw [hts]; rfl
    have hsc : sepCount (x :: xs) = comps.length := by
      rw [← hts]; exact sepCount_joinSep comps last hc hl
    rw [hlast, hsc, lastSepD_joinSep comps last false hc hl]
    congr 2
    cases comps with
    | nil =>
      simp only [joinSep] at hts
      have hx : isSepTok x = false := runTok_not_sep (hl x (by rw [hts]; simp))
      have hle : last.isEmpty = false := by rw [hts]; rfl
      simp [runCount, hx, hle, b2n]
    | cons c mid =>
      obtain ⟨r, sp⟩ := c
      simp only [List.tail_cons] at hmid
      have hx : isSepTok x = r.isEmpty := by
        simp only [joinSep] at hts
        cases r with
        | nil => simp at hts; rw [← hts.1]; rfl
        | cons t r' =>
          simp at hts
          rw [← hts.1]
          simpa using runTok_not_sep (hc (t :: r', sp) (by simp) t (by simp))
      rw [hx]
      simp only [runCount, runCount_mid mid last hmid, List.length_cons, List.isEmpty_cons,
        Bool.not_false, Bool.true_or, Bool.and_true]
      cases r.isEmpty <;> cases last.isEmpty <;> simp [b2n] <;> omega

/-- **C10 on the flat, tree-free fragment** (`depth_sound_partial`): when every run between
separators is made of literals, classes and wildcards, contains a token that cannot match the empty
string (or is empty at either end of the pattern), and no two separators are adjacent, the depth the
fold reports is invariant and equals the number of components of **every** path the pattern
matches. -/
theorem depth_sound_partial (σ : Sem) (hσ : SepIsolated σ)
    (comps : List (List Tok × Span)) (last : List Tok)
    (hc : ∀ x ∈ comps, RunToks x.1 ∧ RunOk x.1) (hl : RunToks last ∧ RunOk last)
    (hmid : ∀ x ∈ comps.tail, x.1 ≠ []) (hne : joinSep comps last ≠ [])
    (hlen : (joinSep comps last).length + 1 < usizeLim) :
    ∃ n, depthFlat (joinSep comps last) = .ok (.inv n) ∧
      ∀ (c : Ctx) (w : Str), SMs σ c (joinSep comps last) w → depthOf w = n :=
  ⟨runCount comps last,
    depthFlat_runs comps last (fun x hx => (hc x hx).1) hl.1 hmid hne hlen,
    fun c w h => depth_of_match σ hσ comps last c w (fun x hx => (hc x hx).2) hl.2 h⟩

/-- outside the fragment the statement is false of the committed algorithm: `*` reports the
invariant depth 1 and matches the empty path, which has no component (finding, C10) -/
theorem depth_nullable_witness (σ : Sem) (sp : Span) (c : Ctx) :
    depthFlat [.zom sp false] = .ok (.inv 1) ∧ SMs σ c [.zom sp false] [] ∧ depthOf [] = 0 :=
  ⟨rfl, sms_singleton.mpr (.zom sepFree_nil), rfl⟩

-- non-vacuity: `a/*b` (runs `a` and `*b`) meets every hypothesis; the reported depth is 2
example (σ : Sem) (hσ : SepIsolated σ) (sp : Span) :
    ∃ n, depthFlat (joinSep [([.lit sp ['a'] false], sp)] [.zom sp false, .lit sp ['b'] false]) =
        .ok (.inv n) ∧ n = 2 := by
  obtain ⟨n, h1, _⟩ := depth_sound_partial σ hσ [([.lit sp ['a'] false], sp)]
    [.zom sp false, .lit sp ['b'] false]
    (by
      intro x hx; simp only [List.mem_singleton] at hx; subst hx
      exact ⟨by intro t ht; simp at ht; subst ht; rfl,
        by simp [noBoundaryL, noBoundary], Or.inr (by simp [solid])⟩)
    ⟨by intro t ht; simp at ht; rcases ht with rfl | rfl <;> rfl,
      by simp [noBoundaryL, noBoundary], Or.inr (by simp [solid])⟩
    (by simp) (by simp [joinSep]) (by simp [joinSep, usizeLim])
  refine ⟨n, h1, ?_⟩
  have h2 : depthFlat (joinSep [([.lit sp ['a'] false], sp)] [.zom sp false, .lit sp ['b'] false]) =
      .ok (.inv 2) := rfl
  rw [h1] at h2
  injection h2 with h2; injection h2

end Wax
