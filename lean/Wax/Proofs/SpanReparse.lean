import Wax.Proofs.SpanTile
/-!
C17, last clause, the other direction: the span of a capture delimits a text that, parsed alone,
is exactly that capture (`capture_span_reparse`).

The proof runs the parser on the expression (`i`, the text `r ++ post` from offset `loc + d`) and
on the slice (`i'`, the text `r` from offset `loc`) in lockstep (`Sim`).  The parser looks ahead
(inline flags, terminators, `**`), so locality needs care: inside a delimited token the slice ends
with a closing delimiter that no lookahead can cross (`Guard`).
-/
set_option linter.unusedSimpArgs false
set_option linter.unusedVariables false
namespace Wax

def Span.shift (d : Nat) (s : Span) : Span := ⟨s.start + d, s.len⟩

/-- `i` is `i'` with `post` appended to the text and the offsets moved by `d` (`ds` for `sub`) -/
structure Sim (post : Str) (d ds : Nat) (i i' : Input) : Prop where
  rest : i.rest = i'.rest ++ post
  loc : i.loc = i'.loc + d
  ci : i.ci = i'.ci
  sub : i.sub = i'.sub + ds

section
variable {post : Str} {d ds : Nat}

theorem Sim.adv {i i' : Input} (h : Sim post d ds i i') (a b : Str) (hr : i'.rest = a ++ b) :
    Sim post d ds (i.adv a.length) (i'.adv a.length) := by
  have h1 := adv_rest i' a b hr
  have h2 := adv_rest i a (b ++ post) (by rw [h.rest, hr, List.append_assoc])
  exact ⟨by rw [h2.1, h1.1], by rw [h2.2.1, h1.2.1, h.loc]; omega, by rw [h2.2.2.1, h1.2.2.1, h.ci],
    by rw [h2.2.2.2, h1.2.2.2, h.sub]⟩

theorem Sim.setci {i i' : Input} (h : Sim post d ds i i') (c : Bool) :
    Sim post d ds { i with ci := c } { i' with ci := c } := ⟨h.rest, h.loc, rfl, h.sub⟩

theorem Sim.len {i i' : Input} (h : Sim post d ds i i') :
    i.rest.length = i'.rest.length + post.length := by rw [h.rest, List.length_append]

/-! ### tags -/

theorem tag_some {i j : Input} {t : String} (h : i.tag t = some j) :
    ∃ b, i.rest = t.toList ++ b ∧ j = i.adv t.toList.length ∧ j.rest = b := by
  unfold Input.tag at h
  dsimp only at h
  split at h
  · rename_i hp
    injection h with h
    rw [List.isPrefixOf_iff_prefix] at hp
    obtain ⟨b, hb⟩ := hp
    exact ⟨b, hb.symm, h.symm, by rw [← h]; exact (adv_rest i _ b hb.symm).1⟩
  · cases h

theorem tag_of_rest {i : Input} {t : String} {b : Str} (h : i.rest = t.toList ++ b) :
    i.tag t = some (i.adv t.toList.length) := by
  unfold Input.tag
  dsimp only
  rw [if_pos]
  rw [List.isPrefixOf_iff_prefix]; exact ⟨b, h.symm⟩

theorem tag_mono {i i' : Input} {t : String} (h : Sim post d ds i i') (hn : i.tag t = none) :
    i'.tag t = none := by
  cases h' : i'.tag t with
  | none => rfl
  | some j' =>
    obtain ⟨b, hb, _⟩ := tag_some h'
    rw [tag_of_rest (b := b ++ post) (by rw [h.rest, hb, List.append_assoc])] at hn
    cases hn

theorem tag_sim {i i' j : Input} {t : String} (h : Sim post d ds i i') (hj : i.tag t = some j)
    (hlen : t.toList.length ≤ i'.rest.length) :
    ∃ j', i'.tag t = some j' ∧ Sim post d ds j j' ∧ i'.rest = t.toList ++ j'.rest ∧
      i.rest = t.toList ++ j.rest := by
  obtain ⟨b, hb, hje, hjr⟩ := tag_some hj
  have hp : t.toList <+: i'.rest :=
    List.prefix_of_prefix_length_le (l₃ := i.rest) ⟨b, hb.symm⟩ ⟨post, h.rest.symm⟩ hlen
  obtain ⟨b', hb'⟩ := hp
  refine ⟨i'.adv t.toList.length, tag_of_rest hb'.symm, ?_, ?_, ?_⟩
  · rw [hje]; exact h.adv _ b' hb'.symm
  · rw [(adv_rest i' _ b' hb'.symm).1]; exact hb'.symm
  · rw [hjr]; exact hb

/-! ### guards -/

/-- the closing delimiters that end a delimited capture -/
def GOK (g : Char) : Bool := g == '}' || g == '>' || g == ']'

/-- the text ends with a closing delimiter -/
def Guard (r : Str) : Prop := ∃ r0 g, r = r0 ++ [g] ∧ GOK g = true

theorem Guard.ne_nil {r : Str} (h : Guard r) : r ≠ [] := by
  obtain ⟨r0, g, rfl, _⟩ := h; simp

theorem Guard.pos {r : Str} (h : Guard r) : 0 < r.length := List.length_pos_iff.mpr h.ne_nil

theorem Guard.suffix {m s : Str} (h : Guard (m ++ s)) (hs : s ≠ []) : Guard s := by
  obtain ⟨r0, g, he, hg⟩ := h
  refine ⟨s.dropLast, s.getLast hs, (List.dropLast_concat_getLast hs).symm, ?_⟩
  have : m ++ s.dropLast ++ [s.getLast hs] = r0 ++ [g] := by
    rw [List.append_assoc, List.dropLast_concat_getLast hs]; exact he
  have := List.append_inj_right' this rfl
  injection this with h1 _
  rw [h1]; exact hg

theorem Guard.tail {c : Char} {r : Str} (h : Guard (c :: r)) (hc : GOK c = false) : Guard r := by
  by_cases hr : r = []
  · subst hr
    obtain ⟨r0, g, he, hg⟩ := h
    cases r0 with
    | nil => injection he with h1 _; rw [h1, hg] at hc; cases hc
    | cons x r0 =>
      injection he with _ h2
      cases r0 <;> cases h2
  · exact Guard.suffix (m := [c]) h hr

theorem Guard.mem {r : Str} (h : Guard r) : ∃ g ∈ r, GOK g = true := by
  obtain ⟨r0, g, rfl, hg⟩ := h
  exact ⟨g, by simp, hg⟩

/-- a tag none of whose characters is a closing delimiter behaves the same on both sides -/
theorem tagG {i i' : Input} (t : String) (ht : ∀ c ∈ t.toList, GOK c = false)
    (h : Sim post d ds i i') (hg : Guard i'.rest) :
    (i.tag t = none ∧ i'.tag t = none) ∨
    ∃ j j', i.tag t = some j ∧ i'.tag t = some j' ∧ Sim post d ds j j' ∧ Guard j'.rest ∧
      i.rest = t.toList ++ j.rest ∧ i'.rest = t.toList ++ j'.rest := by
  cases hi : i.tag t with
  | none => left; exact ⟨rfl, tag_mono h hi⟩
  | some j =>
    right
    obtain ⟨b, hb, _, _⟩ := tag_some hi
    have hlen : t.toList.length ≤ i'.rest.length := by
      apply Classical.byContradiction
      intro hlt
      have hp : i'.rest <+: t.toList :=
        List.prefix_of_prefix_length_le (l₃ := i.rest) ⟨post, h.rest.symm⟩ ⟨b, hb.symm⟩ (by omega)
      obtain ⟨g, hgm, hgk⟩ := hg.mem
      rw [ht g (hp.subset hgm)] at hgk; cases hgk
    obtain ⟨j', h1, h2, h3, h4⟩ := tag_sim h hi hlen
    refine ⟨j, j', rfl, h1, h2, ?_, h4, h3⟩
    by_cases hr : j'.rest = []
    · rw [hr, List.append_nil] at h3
      obtain ⟨g, hgm, hgk⟩ := hg.mem
      rw [h3] at hgm
      rw [ht g hgm] at hgk; cases hgk
    · rw [h3] at hg; exact hg.suffix hr

/-! ### inline flags -/

/-- agreement of two optional parser states -/
def ORel (post : Str) (d ds : Nat) : Option Input → Option Input → Prop
  | none, none => True
  | some k, some k' => Sim post d ds k k' ∧ Guard k'.rest
  | _, _ => False

theorem guard_len0 {i i' : Input} (h : Sim post d ds i i') (hg : Guard i'.rest)
    (h0 : i.rest.length ≤ 0) : False := by
  have := h.len; have := hg.pos; omega

theorem flagToggles_sim (st : Bool) : ∀ (n n' : Nat) (i i' : Input) (any : Bool),
    Sim post d ds i i' → Guard i'.rest → i.rest.length ≤ n → i'.rest.length ≤ n' →
    ORel post d ds (flagToggles st n i any) (flagToggles st n' i' any)
  | 0, _, i, i', _, h, hg, hn, _ => (guard_len0 h hg hn).elim
  | n + 1, 0, i, i', _, h, hg, _, hn' => by have := hg.pos; omega
  | n + 1, n' + 1, i, i', any, h, hg, hn, hn' => by
    rw [flagToggles, flagToggles]
    rcases tagG "i" (by decide) h hg with ⟨h1, h2⟩ | ⟨j, j', h1, h2, hs, hgj, e1, e2⟩
    · rw [h1, h2]
      dsimp only
      rcases tagG "-i" (by decide) h hg with ⟨h3, h4⟩ | ⟨j, j', h3, h4, hs, hgj, e1, e2⟩
      · rw [h3, h4]
        dsimp only
        cases any
        · exact trivial
        · exact ⟨h, hg⟩
      · rw [h3, h4]
        dsimp only
        have l1 : j.rest.length ≤ n := by rw [e1] at hn; simp at hn; omega
        have l2 : j'.rest.length ≤ n' := by rw [e2] at hn'; simp at hn'; omega
        cases st
        · exact flagToggles_sim false n n' j j' true hs hgj l1 l2
        · exact flagToggles_sim true n n' _ _ true (hs.setci false) hgj l1 l2
    · rw [h1, h2]
      dsimp only
      have l1 : j.rest.length ≤ n := by rw [e1] at hn; simp at hn; omega
      have l2 : j'.rest.length ≤ n' := by rw [e2] at hn'; simp at hn'; omega
      cases st
      · exact flagToggles_sim false n n' j j' true hs hgj l1 l2
      · exact flagToggles_sim true n n' _ _ true (hs.setci true) hgj l1 l2

theorem flags_sim (st : Bool) : ∀ (n n' : Nat) (i i' : Input),
    Sim post d ds i i' → Guard i'.rest → i.rest.length ≤ n → i'.rest.length ≤ n' →
    Sim post d ds (flags st n i) (flags st n' i') ∧ Guard (flags st n' i').rest
  | 0, _, i, i', h, hg, hn, _ => (guard_len0 h hg hn).elim
  | n + 1, 0, i, i', h, hg, _, hn' => by have := hg.pos; omega
  | n + 1, n' + 1, i, i', h, hg, hn, hn' => by
    rw [flags, flags]
    rcases tagG "(?" (by decide) h hg with ⟨h1, h2⟩ | ⟨j, j', h1, h2, hs, hgj, e1, e2⟩
    · rw [h1, h2]; exact ⟨h, hg⟩
    · rw [h1, h2]
      dsimp only
      have hT := flagToggles_sim st j.rest.length j'.rest.length j j' false hs hgj
        (Nat.le_refl _) (Nat.le_refl _)
      cases hk : flagToggles st j.rest.length j false with
      | none =>
        cases hk' : flagToggles st j'.rest.length j' false with
        | none => exact ⟨h, hg⟩
        | some k' => rw [hk, hk'] at hT; exact hT.elim
      | some k =>
        cases hk' : flagToggles st j'.rest.length j' false with
        | none => rw [hk, hk'] at hT; exact hT.elim
        | some k' =>
          rw [hk, hk'] at hT
          obtain ⟨hsk, hgk⟩ := hT
          dsimp only
          rcases tagG ")" (by decide) hsk hgk with ⟨h3, h4⟩ | ⟨l, l', h3, h4, hsl, hgl, e3, e4⟩
          · rw [h3, h4]; exact ⟨h, hg⟩
          · rw [h3, h4]
            dsimp only
            have a1 := (flagToggles_Adv st _ _ _ _ hk).len_le
            have a2 := (flagToggles_Adv st _ _ _ _ hk').len_le
            simp only [Input.len] at a1 a2
            have l1 : l.rest.length ≤ n := by
              rw [e1] at hn; rw [e3] at a1; simp at hn a1; omega
            have l2 : l'.rest.length ≤ n' := by
              rw [e2] at hn'; rw [e4] at a2; simp at hn' a2; omega
            exact flags_sim st n n' l l' hsl hgl l1 l2

theorem flagsS_sim {i i' : Input} (h : Sim post d ds i i') (hg : Guard i'.rest) :
    Sim post d ds (flagsS i) (flagsS i') ∧ Guard (flagsS i').rest :=
  flags_sim true _ _ i i' h hg (Nat.le_refl _) (Nat.le_refl _)

theorem flagsN_sim {i i' : Input} (h : Sim post d ds i i') (hg : Guard i'.rest) :
    Sim post d ds (flagsN i) (flagsN i') ∧ Guard (flagsN i').rest :=
  flags_sim false _ _ i i' h hg (Nat.le_refl _) (Nat.le_refl _)

/-! ### literals (on the success path: the literal ends strictly inside the slice) -/

theorem lit_esc {n : Nat} {i : Input} {acc : Str} {d : Char} {cs : Str}
    (hr : i.rest = '\\' :: d :: cs) (he : literalEsc.contains d = true) :
    literalLoop (n + 1) i acc = literalLoop n (i.adv 2) (acc ++ [d]) := by
  rw [literalLoop, hr]; dsimp only; rw [if_pos (by decide), if_pos he]

theorem lit_esc_bad {n : Nat} {i : Input} {acc : Str} {d : Char} {cs : Str}
    (hr : i.rest = '\\' :: d :: cs) (he : ¬ literalEsc.contains d = true) :
    literalLoop (n + 1) i acc = none := by
  rw [literalLoop, hr]; dsimp only; rw [if_pos (by decide), if_neg he]

theorem lit_esc_end {n : Nat} {i : Input} {acc : Str} (hr : i.rest = ['\\']) :
    literalLoop (n + 1) i acc = none := by
  rw [literalLoop, hr]; simp

theorem lit_stop {n : Nat} {i : Input} {acc : Str} {c : Char} {cs : Str}
    (hr : i.rest = c :: cs) (hc : c ≠ '\\') (hs : literalStop.contains c = true) :
    literalLoop (n + 1) i acc = if acc.isEmpty then none else some (acc, i) := by
  rw [literalLoop, hr]; dsimp only; rw [if_neg (by simpa using hc), if_pos hs]

theorem lit_norm {n : Nat} {i : Input} {acc : Str} {c : Char} {cs : Str}
    (hr : i.rest = c :: cs) (hc : c ≠ '\\') (hs : ¬ literalStop.contains c = true) :
    literalLoop (n + 1) i acc = literalLoop n (i.adv 1) (acc ++ [c]) := by
  rw [literalLoop, hr]; dsimp only; rw [if_neg (by simpa using hc), if_neg hs]

theorem lit_len {n : Nat} {i j : Input} {acc t : Str} (h : literalLoop n i acc = some (t, j)) :
    j.rest.length ≤ i.rest.length := (literalLoop_Adv _ _ _ _ _ h).len_le

theorem literalLoop_sim : ∀ (n n' : Nat) (i i' : Input) (acc t : Str) (j : Input),
    literalLoop n i acc = some (t, j) → Sim post d ds i i' → i.rest.length ≤ n →
    i'.rest.length ≤ n' → post.length < j.rest.length →
    ∃ j', literalLoop n' i' acc = some (t, j') ∧ Sim post d ds j j'
  | 0, _, i, i', acc, t, j, hl, h, hn, _, hlen => by
    have := lit_len hl; omega
  | n + 1, n', i, i', acc, t, j, hl, h, hn, hn', hlen => by
    have hA := lit_len hl
    cases hr' : i'.rest with
    | nil => have := h.len; rw [hr'] at this; simp at this; omega
    | cons c r' =>
      have hr : i.rest = c :: (r' ++ post) := by rw [h.rest, hr']; rfl
      cases n' with
      | zero => rw [hr'] at hn'; simp at hn'
      | succ n' =>
        by_cases hc : c = '\\'
        · subst hc
          cases r' with
          | nil =>
            exfalso
            cases hp : post with
            | nil =>
              rw [hp] at hr
              rw [lit_esc_end hr] at hl; cases hl
            | cons e p2 =>
              rw [hp] at hr
              by_cases he : literalEsc.contains e = true
              · rw [lit_esc hr he] at hl
                have h1 := lit_len hl
                have h2 := (adv_rest i ['\\', e] p2 hr).1
                simp only [List.length_cons, List.length_nil] at h2
                rw [h2] at h1
                rw [hp] at hlen; simp at hlen; omega
              · rw [lit_esc_bad hr he] at hl; cases hl
          | cons e r2 =>
            have hr2 : i.rest = '\\' :: e :: (r2 ++ post) := hr
            by_cases he : literalEsc.contains e = true
            · rw [lit_esc hr2 he] at hl
              rw [lit_esc hr' he]
              have hs := h.adv ['\\', e] r2 hr'
              have h1 := (adv_rest i ['\\', e] _ hr2).1
              have h2 := (adv_rest i' ['\\', e] _ hr').1
              simp only [List.length_cons, List.length_nil] at hs h1 h2
              refine literalLoop_sim n n' _ _ _ t j hl hs ?_ ?_ hlen
              · rw [h1]; rw [hr2] at hn; simp at hn ⊢; omega
              · rw [h2]; rw [hr'] at hn'; simp at hn' ⊢; omega
            · rw [lit_esc_bad hr2 he] at hl; cases hl
        · by_cases hs : literalStop.contains c = true
          · rw [lit_stop hr hc hs] at hl
            rw [lit_stop hr' hc hs]
            split at hl
            · cases hl
            · rename_i hne
              injection hl with hl; injection hl with h1 h2; subst h1 h2
              exact ⟨i', by rw [if_neg hne], h⟩
          · rw [lit_norm hr hc hs] at hl
            rw [lit_norm hr' hc hs]
            have hsim := h.adv [c] r' hr'
            have h1 := (adv_rest i [c] _ hr).1
            have h2 := (adv_rest i' [c] _ hr').1
            simp only [List.length_cons, List.length_nil] at hsim h1 h2
            refine literalLoop_sim n n' _ _ _ t j hl hsim ?_ ?_ hlen
            · rw [h1]; rw [hr] at hn; simp at hn ⊢; omega
            · rw [h2]; rw [hr'] at hn'; simp at hn' ⊢; omega

theorem parseLiteral_sim {i i' j : Input} {t : Str} {ci : Bool}
    (hl : parseLiteral i = some (t, ci, j)) (h : Sim post d ds i i')
    (hlen : post.length < j.rest.length) :
    ∃ j', parseLiteral i' = some (t, ci, j') ∧ Sim post d ds j j' := by
  unfold parseLiteral at hl
  split at hl
  · rename_i t' j0 hl0
    injection hl with hl; injection hl with e1 hl; injection hl with e2 e3; subst e1 e2 e3
    obtain ⟨j', h1, h2⟩ := literalLoop_sim _ i'.rest.length i i' [] _ _ hl0 h (Nat.le_refl _)
      (Nat.le_refl _) hlen
    exact ⟨j', by unfold parseLiteral; rw [h1, h.ci], h2⟩
  · cases hl

/-- a literal cannot start with a stop character other than the backslash -/
theorem parseLiteral_stop {i : Input} {c : Char} {cs : Str} (hr : i.rest = c :: cs)
    (hc : c ≠ '\\') (hs : literalStop.contains c = true) : parseLiteral i = none := by
  unfold parseLiteral
  rw [hr, List.length_cons, lit_stop hr hc hs]; rfl

/-! ### classes (on the success path) -/

def isClsSpecial (c : Char) : Bool := c == '[' || c == ']' || c == '-'

theorem cc_nil {i : Input} (hr : i.rest = []) : classChar i = none := by
  unfold classChar; rw [hr]

theorem cc_esc {i : Input} {e : Char} {cs : Str} (hr : i.rest = '\\' :: e :: cs) :
    classChar i = if isClsSpecial e then some (e, i.adv 2) else none := by
  unfold classChar; rw [hr]; dsimp only; rw [if_pos (by decide)]; rfl

theorem cc_esc_end {i : Input} (hr : i.rest = ['\\']) : classChar i = none := by
  unfold classChar; rw [hr]; dsimp only; rw [if_pos (by decide)]

theorem cc_plain {i : Input} {c : Char} {cs : Str} (hr : i.rest = c :: cs) (hc : c ≠ '\\') :
    classChar i = if isClsSpecial c then none else some (c, i.adv 1) := by
  unfold classChar; rw [hr]; dsimp only; rw [if_neg (by simpa using hc)]; rfl

theorem classChar_len {i j : Input} {c : Char} (h : classChar i = some (c, j)) :
    j.rest.length ≤ i.rest.length := (classChar_Adv h).len_le

theorem classChar_sim {i i' j : Input} {a : Char} (hc : classChar i = some (a, j))
    (h : Sim post d ds i i') (hlen : post.length < j.rest.length) :
    ∃ j', classChar i' = some (a, j') ∧ Sim post d ds j j' := by
  have hA := classChar_len hc
  cases hr' : i'.rest with
  | nil => have := h.len; rw [hr'] at this; simp at this; omega
  | cons c r' =>
    have hr : i.rest = c :: (r' ++ post) := by rw [h.rest, hr']; rfl
    by_cases hcb : c = '\\'
    · subst hcb
      cases r' with
      | nil =>
        exfalso
        cases hp : post with
        | nil => rw [hp] at hr; rw [cc_esc_end hr] at hc; cases hc
        | cons e p2 =>
          rw [hp] at hr
          rw [cc_esc hr] at hc
          split at hc
          · injection hc with hc; injection hc with _ h2; subst h2
            have h2 := (adv_rest i ['\\', e] p2 hr).1
            simp only [List.length_cons, List.length_nil] at h2
            rw [h2, hp] at hlen; simp at hlen; omega
          · cases hc
      | cons e r2 =>
        have hr2 : i.rest = '\\' :: e :: (r2 ++ post) := hr
        rw [cc_esc hr2] at hc
        rw [cc_esc hr']
        split at hc
        · rename_i hsp
          injection hc with hc; injection hc with h1 h2; subst h1 h2
          rw [if_pos hsp]
          have hs := h.adv ['\\', e] r2 hr'
          exact ⟨_, rfl, hs⟩
        · cases hc
    · rw [cc_plain hr hcb] at hc
      rw [cc_plain hr' hcb]
      split at hc
      · cases hc
      · rename_i hsp
        injection hc with hc; injection hc with h1 h2; subst h1 h2
        rw [if_neg hsp]
        exact ⟨_, rfl, h.adv [c] r' hr'⟩

/-- failure of a class character survives truncation of the text -/
theorem classChar_mono {i i' : Input} (hc : classChar i = none) (h : Sim post d ds i i') :
    classChar i' = none := by
  cases hr' : i'.rest with
  | nil => exact cc_nil hr'
  | cons c r' =>
    have hr : i.rest = c :: (r' ++ post) := by rw [h.rest, hr']; rfl
    by_cases hcb : c = '\\'
    · subst hcb
      cases r' with
      | nil => exact cc_esc_end hr'
      | cons e r2 =>
        have hr2 : i.rest = '\\' :: e :: (r2 ++ post) := hr
        rw [cc_esc hr2] at hc
        rw [cc_esc hr']
        split at hc
        · cases hc
        · rename_i hsp; rw [if_neg hsp]
    · rw [cc_plain hr hcb] at hc
      rw [cc_plain hr' hcb]
      split at hc
      · rename_i hsp; rw [if_pos hsp]
      · cases hc

theorem classChar_lt {i j : Input} {c : Char} (h : classChar i = some (c, j)) :
    j.rest.length < i.rest.length := by
  cases hr : i.rest with
  | nil => rw [cc_nil hr] at h; cases h
  | cons x cs =>
    by_cases hx : x = '\\'
    · subst hx
      cases cs with
      | nil => rw [cc_esc_end hr] at h; cases h
      | cons e cs2 =>
        rw [cc_esc hr] at h
        split at h
        · injection h with h; injection h with _ h2; subst h2
          have := (adv_rest i ['\\', e] cs2 hr).1
          simp only [List.length_cons, List.length_nil] at this
          rw [this]; simp; omega
        · cases h
    · rw [cc_plain hr hx] at h
      split at h
      · cases h
      · injection h with h; injection h with _ h2; subst h2
        have := (adv_rest i [x] cs hr).1
        simp only [List.length_cons, List.length_nil] at this
        rw [this]; simp

theorem archetype_lt {i j : Input} {a : Arch} (h : archetype i = some (a, j)) :
    j.rest.length < i.rest.length := by
  unfold archetype at h
  split at h
  · cases h
  · rename_i a1 j1 h1
    have l1 := classChar_lt h1
    split at h
    · rename_i k hk
      split at h
      · rename_i b l hl
        injection h with h; injection h with _ e2; subst e2
        have := (tag_Adv hk).len_le
        have := classChar_lt hl
        simp only [Input.len] at *
        omega
      · injection h with h; injection h with _ e2; subst e2; exact l1
    · injection h with h; injection h with _ e2; subst e2; exact l1

theorem archetype_len {i j : Input} {a : Arch} (h : archetype i = some (a, j)) :
    j.rest.length ≤ i.rest.length := (archetype_Adv h).len_le

theorem archetype_sim {i i' j : Input} {a : Arch} (ha : archetype i = some (a, j))
    (h : Sim post d ds i i') (hlen : post.length < j.rest.length) :
    ∃ j', archetype i' = some (a, j') ∧ Sim post d ds j j' := by
  unfold archetype at ha
  split at ha
  · cases ha
  · rename_i a1 j1 h1
    have hj1 : j.rest.length ≤ j1.rest.length := by
      split at ha
      · rename_i k hk
        split at ha
        · rename_i b l hl
          injection ha with ha; injection ha with _ e2; subst e2
          have := (tag_Adv hk).len_le
          have := classChar_len hl
          simp only [Input.len] at *
          omega
        · injection ha with ha; injection ha with _ e2; subst e2; exact Nat.le_refl _
      · injection ha with ha; injection ha with _ e2; subst e2; exact Nat.le_refl _
    obtain ⟨j1', g1, s1⟩ := classChar_sim h1 h (by omega)
    have hj1' : 0 < j1'.rest.length := by have := s1.len; omega
    unfold archetype
    rw [g1]
    dsimp only
    split at ha
    · rename_i k hk
      obtain ⟨k', gk, sk, _, _⟩ := tag_sim s1 hk (by
        have : "-".toList.length = 1 := by decide
        omega)
      rw [gk]
      dsimp only
      split at ha
      · rename_i b l hl
        injection ha with ha; injection ha with e1 e2; subst e1 e2
        obtain ⟨l', gl, sl⟩ := classChar_sim hl sk hlen
        rw [gl]
        exact ⟨l', rfl, sl⟩
      · rename_i hl
        injection ha with ha; injection ha with e1 e2; subst e1 e2
        rw [classChar_mono hl sk]
        exact ⟨j1', rfl, s1⟩
    · rename_i hk
      injection ha with ha; injection ha with e1 e2; subst e1 e2
      rw [tag_mono s1 hk]
      exact ⟨j1', rfl, s1⟩

theorem archetype_mono {i i' : Input} (ha : archetype i = none) (h : Sim post d ds i i') :
    archetype i' = none := by
  unfold archetype at ha
  split at ha
  · rename_i h1
    unfold archetype
    rw [classChar_mono h1 h]
  · split at ha
    · split at ha <;> cases ha
    · cases ha

theorem archetypes_len (n : Nat) (i : Input) (acc : List Arch) :
    (archetypes n i acc).2.rest.length ≤ i.rest.length := (archetypes_Adv n i acc).len_le

theorem archetypes_sim : ∀ (n n' : Nat) (i i' : Input) (acc items : List Arch) (l : Input),
    archetypes n i acc = (items, l) → Sim post d ds i i' → i.rest.length ≤ n →
    i'.rest.length ≤ n' → post.length < l.rest.length →
    ∃ l', archetypes n' i' acc = (items, l') ∧ Sim post d ds l l'
  | 0, _, i, i', acc, items, l, ha, h, hn, _, hlen => by
    simp only [archetypes, Prod.mk.injEq] at ha
    obtain ⟨_, rfl⟩ := ha; omega
  | n + 1, n', i, i', acc, items, l, ha, h, hn, hn', hlen => by
    have hL := archetypes_len (n + 1) i acc
    rw [ha] at hL
    dsimp only at hL
    cases n' with
    | zero => have := h.len; omega
    | succ n' =>
      rw [archetypes] at ha
      rw [archetypes]
      split at ha
      · rename_i a j hj
        have hL2 := archetypes_len n j (acc ++ [a])
        rw [ha] at hL2
        dsimp only at hL2
        obtain ⟨j', gj, sj⟩ := archetype_sim hj h (by omega)
        rw [gj]
        dsimp only
        have a1 := archetype_len hj
        have a2 := archetype_len gj
        have a3 := archetype_lt hj
        have a3' := archetype_lt gj
        have a4 := sj.len
        have a5 := h.len
        exact archetypes_sim n n' j j' _ items l ha sj (by omega) (by omega) hlen
      · rename_i hj
        injection ha with e1 e2; subst e1 e2
        rw [archetype_mono hj h]
        exact ⟨i', rfl, h⟩

def classBody (neg : Bool) (k : Input) : Option (Bool × List Arch × Input) :=
  if (archetypes k.rest.length k []).1.isEmpty then none else
  match (archetypes k.rest.length k []).2.tag "]" with
  | some m => some (neg, (archetypes k.rest.length k []).1, m)
  | none => none

theorem parseClass_eq (i : Input) :
    parseClass i =
      match i.tag "[" with
      | none => none
      | some j =>
        match j.tag "!" with
        | some k => classBody true k
        | none => classBody false j := by
  unfold parseClass classBody
  cases i.tag "[" with
  | none => rfl
  | some j =>
    dsimp only
    cases j.tag "!" <;> rfl

theorem classBody_lt {neg neg' : Bool} {k m : Input} {items : List Arch}
    (hb : classBody neg k = some (neg', items, m)) : m.rest.length < k.rest.length := by
  unfold classBody at hb
  split at hb
  · cases hb
  · split at hb
    · rename_i m0 hm
      injection hb with hb; injection hb with e1 hb; injection hb with e2 e3; subst e3
      have h1 := (tag1 (a := ']') (by decide) hm).1
      have h2 := archetypes_len k.rest.length k []
      rw [h1] at h2; simp at h2; omega
    · cases hb

theorem classBody_sim {neg neg' : Bool} {k k' m : Input} {items : List Arch}
    (hb : classBody neg k = some (neg', items, m)) (h : Sim post d ds k k')
    (hlen : post.length ≤ m.rest.length) :
    ∃ m', classBody neg k' = some (neg', items, m') ∧ Sim post d ds m m' := by
  unfold classBody at hb
  split at hb
  · cases hb
  · rename_i hne
    split at hb
    · rename_i m0 hm
      injection hb with hb; injection hb with e1 hb; injection hb with e2 e3; subst e1 e2 e3
      have hml := (tag_Adv hm).len_lt (by
        have := tag1_loc (a := ']') (by decide) (by decide) hm
        simp [this])
      simp only [Input.len] at hml
      obtain ⟨l', gl, sl⟩ := archetypes_sim k.rest.length k'.rest.length k k' [] _ _ rfl h
        (Nat.le_refl _) (Nat.le_refl _) (by omega)
      obtain ⟨m', gm, sm, _, _⟩ := tag_sim sl hm (by
        have : "]".toList.length = 1 := by decide
        have := sl.len
        omega)
      refine ⟨m', ?_, sm⟩
      unfold classBody
      rw [gl]
      dsimp only
      rw [if_neg hne, gm]
    · cases hb

theorem parseClass_sim {i i' m : Input} {neg : Bool} {items : List Arch}
    (hc : parseClass i = some (neg, items, m)) (h : Sim post d ds i i')
    (hlen : post.length ≤ m.rest.length) :
    ∃ m', parseClass i' = some (neg, items, m') ∧ Sim post d ds m m' := by
  rw [parseClass_eq] at hc
  rw [parseClass_eq]
  split at hc
  · cases hc
  · rename_i j hj
    have hj1 := (tag1 (a := '[') (by decide) hj).1
    have hjl : j.rest.length + 1 = i.rest.length := by rw [hj1]; simp
    have hil := h.len
    have e1 : "[".toList.length = 1 := by decide
    have e2 : "!".toList.length = 1 := by decide
    split at hc
    · rename_i k hk
      have hkm := classBody_lt hc
      have hk1 := (tag1 (a := '!') (by decide) hk).1
      have hkl : k.rest.length + 1 = j.rest.length := by rw [hk1]; simp
      obtain ⟨j', gj, sj, _, _⟩ := tag_sim h hj (by omega)
      have hjl' := sj.len
      obtain ⟨k', gk, sk, _, _⟩ := tag_sim sj hk (by omega)
      rw [gj]
      dsimp only
      rw [gk]
      exact classBody_sim hc sk hlen
    · rename_i hk
      have hkm := classBody_lt hc
      obtain ⟨j', gj, sj, _, _⟩ := tag_sim h hj (by omega)
      rw [gj]
      dsimp only
      rw [tag_mono sj hk]
      exact classBody_sim hc sj hlen

/-! ### wildcards (full agreement in front of a closing delimiter) -/

theorem head_sim {i i' : Input} (h : Sim post d ds i i') (hg : Guard i'.rest) :
    ∃ c r', i'.rest = c :: r' ∧ i.rest = c :: (r' ++ post) := by
  cases hr' : i'.rest with
  | nil => exact absurd hr' hg.ne_nil
  | cons c r' => exact ⟨c, r', rfl, by rw [h.rest, hr']; rfl⟩

theorem term_sim {i i' : Input} (h : Sim post d ds i i') (hg : Guard i'.rest) (t : Term) :
    i.term t = i'.term t := by
  obtain ⟨c, r', e1, e2⟩ := head_sim h hg
  cases t <;> simp [Input.term, e1, e2]

theorem isNotStarDollar_sim {i i' : Input} (h : Sim post d ds i i') (hg : Guard i'.rest) :
    isNotStarDollar i = isNotStarDollar i' := by
  obtain ⟨c, r', e1, e2⟩ := head_sim h hg
  simp [isNotStarDollar, e1, e2]

def PRel (post : Str) (d ds : Nat) : Option (Bool × Input) → Option (Bool × Input) → Prop
  | none, none => True
  | some (r, j), some (r', j') => r = r' ∧ Sim post d ds j j' ∧ Guard j'.rest
  | _, _ => False

def WRel (post : Str) (d ds : Nat) : Option (WildK × Input) → Option (WildK × Input) → Prop
  | none, none => True
  | some (k, j), some (k', j') => k = k' ∧ Sim post d ds j j' ∧ Guard j'.rest
  | _, _ => False

theorem wildPre_sim {i i' : Input} (h : Sim post d d i i') (hg : Guard i'.rest) :
    PRel post d d (wildPre i) (wildPre i') := by
  unfold wildPre
  rcases tagG "/" (by decide) h hg with ⟨h1, h2⟩ | ⟨j, j', h1, h2, hs, hgj, _, _⟩
  · rw [h1, h2]
    dsimp only
    have : (i.sub == i.loc) = (i'.sub == i'.loc) := by
      rw [h.sub, h.loc]
      cases hq : (i'.sub == i'.loc)
      · simp at hq ⊢; omega
      · simp at hq ⊢; omega
    rw [this]
    cases (i'.sub == i'.loc)
    · exact trivial
    · have := flagsS_sim h hg
      exact ⟨rfl, this.1, this.2⟩
  · rw [h1, h2]
    have := flagsS_sim hs hgj
    exact ⟨rfl, this.1, this.2⟩

theorem wildTree_sim {i i' : Input} (t : Term) (h : Sim post d d i i') (hg : Guard i'.rest) :
    WRel post d d (wildTree t i) (wildTree t i') := by
  unfold wildTree
  have hP := wildPre_sim h hg
  cases hp : wildPre i with
  | none =>
    cases hp' : wildPre i' with
    | none => exact trivial
    | some q => rw [hp, hp'] at hP; exact hP.elim
  | some q =>
    cases hp' : wildPre i' with
    | none => rw [hp, hp'] at hP; exact hP.elim
    | some q' =>
      rw [hp, hp'] at hP
      obtain ⟨root, j⟩ := q
      obtain ⟨root', j'⟩ := q'
      obtain ⟨rfl, hs, hgj⟩ := hP
      dsimp only
      rcases tagG "**" (by decide) hs hgj with ⟨h1, h2⟩ | ⟨k, k', h1, h2, hsk, hgk, _, _⟩
      · rw [h1, h2]; exact trivial
      · rw [h1, h2]
        dsimp only
        obtain ⟨hsf, hgf⟩ := flagsS_sim hsk hgk
        rcases tagG "/" (by decide) hsf hgf with ⟨h3, h4⟩ | ⟨l, l', h3, h4, hsl, hgl, _, _⟩
        · rw [h3, h4]
          dsimp only
          rw [term_sim hsk hgk t]
          cases k'.term t
          · exact trivial
          · exact ⟨rfl, hsk, hgk⟩
        · rw [h3, h4]
          exact ⟨rfl, hsl, hgl⟩

theorem wildZom_sim {i i' : Input} (t : Term) (sym : String) (lazy : Bool)
    (hsym : ∀ c ∈ sym.toList, GOK c = false)
    (h : Sim post d ds i i') (hg : Guard i'.rest) :
    WRel post d ds (wildZom t i sym lazy) (wildZom t i' sym lazy) := by
  unfold wildZom
  rcases tagG sym hsym h hg with ⟨h1, h2⟩ | ⟨j, j', h1, h2, hs, hgj, _, _⟩
  · rw [h1, h2]; exact trivial
  · rw [h1, h2]
    dsimp only
    obtain ⟨hsf, hgf⟩ := flagsN_sim hs hgj
    rw [isNotStarDollar_sim hsf hgf, term_sim hs hgj t]
    cases isNotStarDollar (flagsN j')
    · cases j'.term t
      · exact trivial
      · exact ⟨rfl, hs, hgj⟩
    · exact ⟨rfl, hs, hgj⟩

theorem parseWildcard_sim {i i' : Input} (t : Term) (h : Sim post d d i i') (hg : Guard i'.rest) :
    WRel post d d (parseWildcard t i) (parseWildcard t i') := by
  rw [parseWildcard_eq, parseWildcard_eq]
  rcases tagG "?" (by decide) h hg with ⟨h1, h2⟩ | ⟨j, j', h1, h2, hs, hgj, _, _⟩
  · rw [h1, h2]
    dsimp only
    have hT := wildTree_sim t h hg
    cases ht : wildTree t i with
    | some q =>
      cases ht' : wildTree t i' with
      | none => rw [ht, ht'] at hT; exact hT.elim
      | some q' => rw [ht, ht'] at hT; exact hT
    | none =>
      cases ht' : wildTree t i' with
      | some q' => rw [ht, ht'] at hT; exact hT.elim
      | none =>
        dsimp only
        have hZ := wildZom_sim t "*" false (by decide) h hg
        cases hz : wildZom t i "*" false with
        | some q =>
          cases hz' : wildZom t i' "*" false with
          | none => rw [hz, hz'] at hZ; exact hZ.elim
          | some q' => rw [hz, hz'] at hZ; exact hZ
        | none =>
          cases hz' : wildZom t i' "*" false with
          | some q' => rw [hz, hz'] at hZ; exact hZ.elim
          | none => exact wildZom_sim t "$" true (by decide) h hg
  · rw [h1, h2]
    exact ⟨rfl, hs, hgj⟩

/-! ### repetition bounds (full agreement in front of a closing delimiter) -/

theorem takeWhile_guard (p : Char → Bool) (post : Str) : ∀ (r : Str), (∃ g ∈ r, p g = false) →
    List.takeWhile p (r ++ post) = List.takeWhile p r
  | [], h => by obtain ⟨g, hg, _⟩ := h; cases hg
  | c :: r, h => by
    cases hc : p c with
    | false => simp [List.takeWhile, hc]
    | true =>
      simp only [List.cons_append, List.takeWhile, hc]
      congr 1
      apply takeWhile_guard p post r
      obtain ⟨g, hg, hpg⟩ := h
      rcases List.mem_cons.mp hg with rfl | hg
      · rw [hc] at hpg; cases hpg
      · exact ⟨g, hg, hpg⟩

theorem GOK_not_digit {g : Char} (h : GOK g = true) : g.isDigit = false := by
  simp only [GOK, Bool.or_eq_true, beq_iff_eq] at h
  rcases h with (rfl | rfl) | rfl <;> decide

theorem digits_sim {i i' : Input} (h : Sim post d ds i i') (hg : Guard i'.rest) :
    (digits i).1 = (digits i').1 ∧ Sim post d ds (digits i).2 (digits i').2 ∧
      Guard (digits i').2.rest := by
  obtain ⟨g, hgm, hgk⟩ := hg.mem
  have hnd := GOK_not_digit hgk
  have e : List.takeWhile Char.isDigit i.rest = List.takeWhile Char.isDigit i'.rest := by
    rw [h.rest]; exact takeWhile_guard _ post _ ⟨g, hgm, hnd⟩
  have hsplit : i'.rest = List.takeWhile Char.isDigit i'.rest ++ List.dropWhile Char.isDigit i'.rest :=
    (List.takeWhile_append_dropWhile).symm
  have hne : List.dropWhile Char.isDigit i'.rest ≠ [] := by
    intro hd
    rw [hd, List.append_nil] at hsplit
    rw [hsplit] at hgm
    have := List.all_eq_true.mp (List.all_takeWhile (l := i'.rest) (p := Char.isDigit)) g hgm
    rw [hnd] at this; cases this
  simp only [digits, e]
  refine ⟨trivial, h.adv _ _ hsplit, ?_⟩
  rw [(adv_rest i' _ _ hsplit).1]
  rw [hsplit] at hg
  exact hg.suffix hne

def BRel (post : Str) (d ds : Nat) :
    Option (Nat × Option Nat × Input) → Option (Nat × Option Nat × Input) → Prop
  | none, none => True
  | some (lo, hi, k), some (lo', hi', k') => lo = lo' ∧ hi = hi' ∧ Sim post d ds k k' ∧ Guard k'.rest
  | _, _ => False

theorem boundsRange_sim {j j' : Input} (h : Sim post d ds j j') (hg : Guard j'.rest) :
    BRel post d ds (boundsRange j) (boundsRange j') := by
  unfold boundsRange
  obtain ⟨e1, s1, g1⟩ := digits_sim h hg
  rw [e1]
  cases toUsize (digits j').1 with
  | none => exact trivial
  | some lo =>
    dsimp only
    rcases tagG "," (by decide) s1 g1 with ⟨h1, h2⟩ | ⟨l, l', h1, h2, hs, hgl, _, _⟩
    · rw [h1, h2]; exact trivial
    · rw [h1, h2]
      dsimp only
      obtain ⟨e2, s2, g2⟩ := digits_sim hs hgl
      rw [e2]
      cases (digits l').1.isEmpty
      · simp only [Bool.false_eq_true, if_false]
        cases toUsize (digits l').1 with
        | none => exact trivial
        | some hi => exact ⟨rfl, rfl, s2, g2⟩
      · simp only [if_true]
        exact ⟨rfl, rfl, hs, hgl⟩

theorem parseBounds_sim {i i' : Input} (h : Sim post d ds i i') (hg : Guard i'.rest) :
    (parseBounds i).1 = (parseBounds i').1 ∧ (parseBounds i).2.1 = (parseBounds i').2.1 ∧
      Sim post d ds (parseBounds i).2.2 (parseBounds i').2.2 ∧ Guard (parseBounds i').2.2.rest := by
  rw [parseBounds_eq, parseBounds_eq]
  rcases tagG ":" (by decide) h hg with ⟨h1, h2⟩ | ⟨j, j', h1, h2, hs, hgj, _, _⟩
  · rw [h1, h2]; exact ⟨rfl, rfl, h, hg⟩
  · rw [h1, h2]
    dsimp only
    have hB := boundsRange_sim hs hgj
    cases hb : boundsRange j with
    | some q =>
      cases hb' : boundsRange j' with
      | none => rw [hb, hb'] at hB; exact hB.elim
      | some q' =>
        rw [hb, hb'] at hB
        obtain ⟨lo, hi, k⟩ := q
        obtain ⟨lo', hi', k'⟩ := q'
        obtain ⟨rfl, rfl, sk, gk⟩ := hB
        exact ⟨rfl, rfl, sk, gk⟩
    | none =>
      cases hb' : boundsRange j' with
      | some q' => rw [hb, hb'] at hB; exact hB.elim
      | none =>
        dsimp only
        obtain ⟨e1, s1, g1⟩ := digits_sim hs hgj
        rw [e1]
        cases toUsize (digits j').1 with
        | none => exact ⟨rfl, rfl, hs, hgj⟩
        | some n => exact ⟨rfl, rfl, s1, g1⟩

/-! ### what the first character decides -/

theorem flagsS_head {i : Input} {c : Char} {cs : Str} (hr : i.rest = c :: cs) (hc : c ≠ '(') :
    flagsS i = i := by
  rcases flags_start true i.rest.length i with h | ⟨r, h⟩
  · exact h
  · rw [hr] at h; injection h with h1 _; exact absurd h1 hc

theorem rep_none_head {i : Input} {c : Char} {cs : Str} (fuel : Nat) (hr : i.rest = c :: cs)
    (hc : c ≠ '<') : parseRepetition fuel i = none :=
  parseRepetition_none fuel i (tag_ne i _ '<' c [] cs (by decide) hr (Ne.symm hc))

theorem alt_none_head {i : Input} {c : Char} {cs : Str} (fuel : Nat) (hr : i.rest = c :: cs)
    (hc : c ≠ '{') : parseAlternation fuel i = none :=
  parseAlternation_none fuel i (tag_ne i _ '{' c [] cs (by decide) hr (Ne.symm hc))

theorem class_none_tag {i : Input} (h : i.tag "[" = none) : parseClass i = none := by
  rw [parseClass_eq, h]

theorem class_none_head {i : Input} {c : Char} {cs : Str} (hr : i.rest = c :: cs)
    (hc : c ≠ '[') : parseClass i = none :=
  class_none_tag (tag_ne i _ '[' c [] cs (by decide) hr (Ne.symm hc))

theorem sep_none_head {i : Input} {c : Char} {cs : Str} (hr : i.rest = c :: cs)
    (hc : c ≠ '/') : i.tag "/" = none :=
  tag_ne i _ '/' c [] cs (by decide) hr (Ne.symm hc)

theorem wildcard_none_head {i : Input} {c : Char} {cs : Str} (t : Term) (hr : i.rest = c :: cs)
    (h1 : c ≠ '?') (h2 : c ≠ '/') (h3 : c ≠ '*') (h4 : c ≠ '$') (h5 : c ≠ '(') :
    parseWildcard t i = none := by
  have hq : i.tag "?" = none := tag_ne i _ '?' c [] cs (by decide) hr (Ne.symm h1)
  have hsl : i.tag "/" = none := tag_ne i _ '/' c [] cs (by decide) hr (Ne.symm h2)
  have hst : i.tag "*" = none := tag_ne i _ '*' c [] cs (by decide) hr (Ne.symm h3)
  have hss : i.tag "**" = none := tag_ne i _ '*' c ['*'] cs (by decide) hr (Ne.symm h3)
  have hd : i.tag "$" = none := tag_ne i _ '$' c [] cs (by decide) hr (Ne.symm h4)
  have hf : flagsS i = i := flagsS_head hr h5
  rw [parseWildcard_eq, hq]
  dsimp only
  have hT : wildTree t i = none := by
    unfold wildTree wildPre
    rw [hsl]
    dsimp only
    cases (i.sub == i.loc)
    · rfl
    · simp only [if_true, hf, hss]
  rw [hT]
  dsimp only
  simp only [wildZom, hst, hd]

/-- the characters that end a branch or a repetition body -/
def isTermC (c : Char) : Bool := c == ',' || c == '}' || c == ':' || c == '>'

/-- `parseToken` with the two recursive calls named -/
def tokTail (t : Term) (i f : Input) (R : Option (Tok × Nat × Option Nat × Input))
    (A : Option (List Tok × Input)) : Option (Tok × Input) :=
  match R with
  | some (body, lo, hi, j) => some (.rep ⟨i.loc, j.loc - i.loc⟩ body lo hi, j)
  | none =>
  match A with
  | some (bs, j) => some (.alt ⟨i.loc, j.loc - i.loc⟩ bs, j)
  | none =>
  match parseWildcard t f with
  | some (.one, j) => some (.one ⟨i.loc, j.loc - i.loc⟩, j)
  | some (.tree r, j) => some (.tree ⟨i.loc, j.loc - i.loc⟩ r, j)
  | some (.zom l, j) => some (.zom ⟨i.loc, j.loc - i.loc⟩ l, j)
  | none =>
  match parseClass f with
  | some (neg, items, j) => some (.cls ⟨i.loc, j.loc - i.loc⟩ neg items, j)
  | none =>
  match f.tag "/" with
  | some j => some (.sep ⟨i.loc, j.loc - i.loc⟩, j)
  | none => none

theorem parseToken_eq (fuel : Nat) (t : Term) (i : Input) :
    parseToken (fuel + 1) t i =
      match parseLiteral (flagsS i) with
      | some (text, ci, j) => some (.lit ⟨i.loc, j.loc - i.loc⟩ text ci, j)
      | none => tokTail t i (flagsS i) (parseRepetition fuel (flagsS i))
          (parseAlternation fuel (flagsS i)) := by
  rw [parseToken]; rfl

theorem isTermC_cases {c : Char} (h : isTermC c = true) : c = ',' ∨ c = '}' ∨ c = ':' ∨ c = '>' := by
  simp only [isTermC, Bool.or_eq_true, beq_iff_eq] at h
  rcases h with ((h | h) | h) | h <;> simp [h]

/-- no token starts with a terminator -/
theorem parseToken_term_none (fuel : Nat) (t : Term) (i : Input) (c : Char) (cs : Str)
    (hr : i.rest = c :: cs) (hc : isTermC c = true) : parseToken fuel t i = none := by
  cases fuel with
  | zero => simp [parseToken]
  | succ n =>
    have hf : flagsS i = i := flagsS_head hr (by
      rcases isTermC_cases hc with rfl | rfl | rfl | rfl <;> decide)
    rw [parseToken_eq, hf]
    have hl : parseLiteral i = none := parseLiteral_stop hr
      (by rcases isTermC_cases hc with rfl | rfl | rfl | rfl <;> decide)
      (by rcases isTermC_cases hc with rfl | rfl | rfl | rfl <;> decide)
    rw [hl]
    dsimp only
    unfold tokTail
    rw [rep_none_head n hr (by rcases isTermC_cases hc with rfl | rfl | rfl | rfl <;> decide),
      alt_none_head n hr (by rcases isTermC_cases hc with rfl | rfl | rfl | rfl <;> decide),
      wildcard_none_head t hr
        (by rcases isTermC_cases hc with rfl | rfl | rfl | rfl <;> decide)
        (by rcases isTermC_cases hc with rfl | rfl | rfl | rfl <;> decide)
        (by rcases isTermC_cases hc with rfl | rfl | rfl | rfl <;> decide)
        (by rcases isTermC_cases hc with rfl | rfl | rfl | rfl <;> decide)
        (by rcases isTermC_cases hc with rfl | rfl | rfl | rfl <;> decide),
      class_none_head hr (by rcases isTermC_cases hc with rfl | rfl | rfl | rfl <;> decide),
      sep_none_head hr (by rcases isTermC_cases hc with rfl | rfl | rfl | rfl <;> decide)]

/-! ### the mutually recursive grammar, in lockstep -/

theorem span_shift {i i' j j' : Input} (hi : i.loc = i'.loc + d) (hj : j.loc = j'.loc + d) :
    (⟨i.loc, j.loc - i.loc⟩ : Span) = Span.shift d ⟨i'.loc, j'.loc - i'.loc⟩ := by
  simp only [Span.shift, hi, hj, Nat.add_sub_add_right]

theorem nonstop_ne {c x : Char} (h : c = '\\' ∨ literalStop.contains c = false)
    (hx : literalStop.contains x = true) (hx2 : x ≠ '\\') : c ≠ x := by
  intro e; subst e
  rcases h with h | h
  · exact hx2 h
  · rw [hx] at h; cases h

theorem tokTail_none_nonstop {i f : Input} {c : Char} {cs : Str} (fuel : Nat) (t : Term)
    (hr : f.rest = c :: cs) (h : c = '\\' ∨ literalStop.contains c = false) :
    tokTail t i f (parseRepetition fuel f) (parseAlternation fuel f) = none := by
  unfold tokTail
  rw [rep_none_head fuel hr (nonstop_ne h (by decide) (by decide)),
    alt_none_head fuel hr (nonstop_ne h (by decide) (by decide)),
    wildcard_none_head t hr (nonstop_ne h (by decide) (by decide))
      (nonstop_ne h (by decide) (by decide)) (nonstop_ne h (by decide) (by decide))
      (nonstop_ne h (by decide) (by decide)) (nonstop_ne h (by decide) (by decide)),
    class_none_head hr (nonstop_ne h (by decide) (by decide)),
    sep_none_head hr (nonstop_ne h (by decide) (by decide))]

def TokP (post : Str) (d fuel : Nat) : Prop :=
  ∀ t i i' tok j, parseToken fuel t i = some (tok, j) → Sim post d d i i' → Guard i'.rest →
    post.length < j.rest.length →
    ∃ tok' j', parseToken fuel t i' = some (tok', j') ∧ tok = tok'.mapSpans (Span.shift d) ∧
      Sim post d d j j'

def RepP (post : Str) (d fuel : Nat) : Prop :=
  ∀ i i' body lo hi m ds, parseRepetition fuel i = some (body, lo, hi, m) → Sim post d ds i i' →
    Guard i'.rest → post.length ≤ m.rest.length →
    ∃ body' m', parseRepetition fuel i' = some (body', lo, hi, m') ∧
      body = body'.mapSpans (Span.shift d) ∧ Sim post d d m m'

def AltP (post : Str) (d fuel : Nat) : Prop :=
  ∀ i i' bs m ds, parseAlternation fuel i = some (bs, m) → Sim post d ds i i' →
    Guard i'.rest → post.length ≤ m.rest.length →
    ∃ bs' m', parseAlternation fuel i' = some (bs', m') ∧
      bs = mapSpansL (Span.shift d) bs' ∧ Sim post d d m m'

theorem tag_head {i j : Input} {t : String} {a c : Char} {cs : Str} (ht : t.toList = [a])
    (h : i.tag t = some j) (hr : i.rest = c :: cs) : c = a := by
  have := (tag1 ht h).1
  rw [hr] at this; injection this

theorem token_step (fuel : Nat) (hrep : RepP post d fuel) (halt : AltP post d fuel) :
    TokP post d (fuel + 1) := by
  intro t i i' tok j hk h hg hlen
  rw [parseToken_eq] at hk
  rw [parseToken_eq]
  obtain ⟨sf, gf⟩ := flagsS_sim h hg
  obtain ⟨c, r', e1, e2⟩ := head_sim sf gf
  cases hL : parseLiteral (flagsS i) with
  | some q =>
    obtain ⟨text, ci, k⟩ := q
    rw [hL] at hk
    dsimp only at hk
    injection hk with hk; injection hk with h1 h2; subst h1 h2
    obtain ⟨k', gk, sk⟩ := parseLiteral_sim hL sf hlen
    rw [gk]
    exact ⟨_, k', rfl, by rw [Tok.mapSpans, span_shift h.loc sk.loc], sk⟩
  | none =>
    rw [hL] at hk
    dsimp only at hk
    have hL' : parseLiteral (flagsS i') = none := by
      by_cases hs : c ≠ '\\' ∧ literalStop.contains c = true
      · exact parseLiteral_stop e1 hs.1 hs.2
      · exfalso
        have hns : c = '\\' ∨ literalStop.contains c = false := by
          by_cases hc : c = '\\'
          · exact .inl hc
          · right
            cases hq : literalStop.contains c
            · rfl
            · exact absurd ⟨hc, hq⟩ hs
        rw [tokTail_none_nonstop fuel t e2 hns] at hk; cases hk
    rw [hL']
    dsimp only
    unfold tokTail at hk ⊢
    cases hR : parseRepetition fuel (flagsS i) with
    | some q =>
      obtain ⟨body, lo, hi, k⟩ := q
      rw [hR] at hk
      dsimp only at hk
      injection hk with hk; injection hk with h1 h2; subst h1 h2
      obtain ⟨body', k', gR, eb, sk⟩ := hrep _ _ _ _ _ _ _ hR sf gf (by omega)
      rw [gR]
      exact ⟨_, k', rfl, by rw [Tok.mapSpans, span_shift h.loc sk.loc, eb], sk⟩
    | none =>
      rw [hR] at hk
      dsimp only at hk
      have hR' : parseRepetition fuel (flagsS i') = none := by
        cases hq : (flagsS i).tag "<" with
        | none => exact parseRepetition_none fuel _ (tag_mono sf hq)
        | some q =>
          exfalso
          have hc := tag_head (a := '<') (by decide) hq e2
          subst hc
          rw [alt_none_head fuel e2 (by decide),
            wildcard_none_head t e2 (by decide) (by decide) (by decide) (by decide) (by decide),
            class_none_head e2 (by decide), sep_none_head e2 (by decide)] at hk
          cases hk
      rw [hR']
      dsimp only
      cases hA : parseAlternation fuel (flagsS i) with
      | some q =>
        obtain ⟨bs, k⟩ := q
        rw [hA] at hk
        dsimp only at hk
        injection hk with hk; injection hk with h1 h2; subst h1 h2
        obtain ⟨bs', k', gA, eb, sk⟩ := halt _ _ _ _ _ hA sf gf (by omega)
        rw [gA]
        exact ⟨_, k', rfl, by rw [Tok.mapSpans, span_shift h.loc sk.loc, eb], sk⟩
      | none =>
        rw [hA] at hk
        dsimp only at hk
        have hA' : parseAlternation fuel (flagsS i') = none := by
          cases hq : (flagsS i).tag "{" with
          | none => exact parseAlternation_none fuel _ (tag_mono sf hq)
          | some q =>
            exfalso
            have hc := tag_head (a := '{') (by decide) hq e2
            subst hc
            rw [wildcard_none_head t e2 (by decide) (by decide) (by decide) (by decide) (by decide),
              class_none_head e2 (by decide), sep_none_head e2 (by decide)] at hk
            cases hk
        rw [hA']
        dsimp only
        have hW := parseWildcard_sim t sf gf
        cases hw : parseWildcard t (flagsS i) with
        | some q =>
          cases hw' : parseWildcard t (flagsS i') with
          | none => rw [hw, hw'] at hW; exact hW.elim
          | some q' =>
            rw [hw, hw'] at hW
            obtain ⟨kind, k⟩ := q
            obtain ⟨kind', k'⟩ := q'
            obtain ⟨rfl, sk, _⟩ := hW
            rw [hw] at hk
            cases kind with
            | one =>
              dsimp only at hk ⊢
              injection hk with hk; injection hk with h1 h2; subst h1 h2
              exact ⟨_, k', rfl, by rw [Tok.mapSpans, span_shift h.loc sk.loc], sk⟩
            | tree r =>
              dsimp only at hk ⊢
              injection hk with hk; injection hk with h1 h2; subst h1 h2
              exact ⟨_, k', rfl, by rw [Tok.mapSpans, span_shift h.loc sk.loc], sk⟩
            | zom l =>
              dsimp only at hk ⊢
              injection hk with hk; injection hk with h1 h2; subst h1 h2
              exact ⟨_, k', rfl, by rw [Tok.mapSpans, span_shift h.loc sk.loc], sk⟩
        | none =>
          cases hw' : parseWildcard t (flagsS i') with
          | some q' => rw [hw, hw'] at hW; exact hW.elim
          | none =>
            rw [hw] at hk
            dsimp only at hk ⊢
            cases hC : parseClass (flagsS i) with
            | some q =>
              obtain ⟨neg, items, k⟩ := q
              rw [hC] at hk
              dsimp only at hk
              injection hk with hk; injection hk with h1 h2; subst h1 h2
              obtain ⟨k', gC, sk⟩ := parseClass_sim hC sf (by omega)
              rw [gC]
              exact ⟨_, k', rfl, by rw [Tok.mapSpans, span_shift h.loc sk.loc], sk⟩
            | none =>
              rw [hC] at hk
              dsimp only at hk
              have hC' : parseClass (flagsS i') = none := by
                cases hq : (flagsS i).tag "[" with
                | none => exact class_none_tag (tag_mono sf hq)
                | some q =>
                  exfalso
                  have hc := tag_head (a := '[') (by decide) hq e2
                  subst hc
                  rw [sep_none_head e2 (by decide)] at hk
                  cases hk
              rw [hC']
              dsimp only
              cases hS : (flagsS i).tag "/" with
              | none => rw [hS] at hk; cases hk
              | some k =>
                rw [hS] at hk
                dsimp only at hk
                injection hk with hk; injection hk with h1 h2; subst h1 h2
                obtain ⟨k', gS, sk, _, _⟩ := tag_sim sf hS (by
                  have : "/".toList.length = 1 := by decide
                  have := gf.pos
                  omega)
                rw [gS]
                exact ⟨_, k', rfl, by rw [Tok.mapSpans, span_shift h.loc sk.loc], sk⟩

theorem tokens_Adv : ∀ (fuel : Nat) (t : Term) (i : Input) (acc toks : List Tok) (k : Input),
    parseTokens fuel t i acc = some (toks, k) → Adv i k
  | 0, t, i, acc, toks, k, h => by
    simp only [parseTokens, Option.some.injEq, Prod.mk.injEq] at h
    obtain ⟨_, rfl⟩ := h; exact Adv.refl _
  | fuel + 1, t, i, acc, toks, k, h => by
    rw [parseTokens] at h
    split at h
    · rename_i tok j hj
      split at h
      · injection h with h; injection h with _ h2; subst h2; exact Adv.refl _
      · exact Adv.trans (token_Adv hj) (tokens_Adv fuel t j _ toks k h)
    · injection h with h; injection h with _ h2; subst h2; exact Adv.refl _

theorem branches_Adv : ∀ (fuel : Nat) (i : Input) (acc bs : List Tok) (l : Input),
    parseBranches fuel i acc = (bs, l) → Adv i l
  | 0, i, acc, bs, l, h => by
    simp only [parseBranches, Prod.mk.injEq] at h
    obtain ⟨_, rfl⟩ := h; exact Adv.refl _
  | fuel + 1, i, acc, bs, l, h => by
    rw [parseBranches] at h
    split at h
    · injection h with _ h2; subst h2; exact Adv.refl _
    · rename_i j hj
      split at h
      · injection h with _ h2; subst h2; exact Adv.refl _
      · rename_i b k hk
        exact Adv.trans (tag_Adv hj) (Adv.trans (glob_Adv hk) (branches_Adv fuel k _ bs l h))

theorem Adv.rest_le {i j : Input} (h : Adv i j) : j.rest.length ≤ i.rest.length := h.len_le

/-- the guard survives on the success path -/
theorem guard_step {i i' j j' : Input} {ds ds' : Nat} (h : Sim post d ds i i')
    (hj : Sim post d ds' j j') (ha : Adv i j) (hg : Guard i'.rest) (hne : j'.rest ≠ []) :
    Guard j'.rest := by
  obtain ⟨mid, hm, _⟩ := ha
  have : i'.rest = mid ++ j'.rest := by
    have e : i'.rest ++ post = (mid ++ j'.rest) ++ post := by
      rw [← h.rest, hm, hj.rest, List.append_assoc]
    exact List.append_cancel_right e
  rw [this] at hg
  exact hg.suffix hne

theorem ne_nil_of_len {j j' : Input} {ds' : Nat} (hj : Sim post d ds' j j')
    (hlen : post.length < j.rest.length) : j'.rest ≠ [] := by
  intro e
  have := hj.len
  rw [e] at this; simp at this; omega

theorem mapSpansL_append (f : Span → Span) : ∀ (a b : List Tok),
    mapSpansL f (a ++ b) = mapSpansL f a ++ mapSpansL f b
  | [], b => by simp [mapSpansL]
  | t :: a, b => by simp [mapSpansL, mapSpansL_append f a b]

theorem mapSpansL_isEmpty (f : Span → Span) (a : List Tok) :
    (mapSpansL f a).isEmpty = a.isEmpty := by
  cases a <;> simp [mapSpansL]

def GlobP (post : Str) (d fuel : Nat) : Prop :=
  ∀ t i i' tok k ds, parseGlob fuel t i = some (tok, k) → Sim post d ds i i' → Guard i'.rest →
    post.length < k.rest.length →
    ∃ tok' k', parseGlob fuel t i' = some (tok', k') ∧ tok = tok'.mapSpans (Span.shift d) ∧
      Sim post d d k k'

def ToksP (post : Str) (d fuel : Nat) : Prop :=
  ∀ t i i' acc acc' toks k, parseTokens fuel t i acc = some (toks, k) → Sim post d d i i' →
    Guard i'.rest → post.length < k.rest.length →
    (∃ c cs, k.rest = c :: cs ∧ isTermC c = true) → acc = mapSpansL (Span.shift d) acc' →
    ∃ toks' k', parseTokens fuel t i' acc' = some (toks', k') ∧
      toks = mapSpansL (Span.shift d) toks' ∧ Sim post d d k k'

def BrP (post : Str) (d fuel : Nat) : Prop :=
  ∀ i i' acc acc' bs l, parseBranches fuel i acc = (bs, l) → Sim post d d i i' →
    Guard i'.rest → post.length < l.rest.length → (∃ cs, l.rest = '}' :: cs) →
    acc = mapSpansL (Span.shift d) acc' →
    ∃ bs' l', parseBranches fuel i' acc' = (bs', l') ∧
      bs = mapSpansL (Span.shift d) bs' ∧ Sim post d d l l'

theorem glob_step (fuel : Nat) (hT : ToksP post d fuel) : GlobP post d (fuel + 1) := by
  intro t i i' tok k ds hk h hg hlen
  have hA := glob_Adv hk
  rw [parseGlob] at hk
  rw [parseGlob]
  dsimp only at hk ⊢
  have hs : Sim post d d { i with sub := i.loc } { i' with sub := i'.loc } :=
    ⟨h.rest, h.loc, h.ci, h.loc⟩
  split at hk
  · cases hk
  · rename_i toks j hj
    split at hk
    · cases hk
    · rename_i hne
      split at hk
      · rename_i hterm
        injection hk with hk; injection hk with h1 h2; subst h1 h2
        have htc : ∃ c cs, j.rest = c :: cs ∧ isTermC c = true := by
          cases t with
          | eof =>
            simp only [Input.term, List.isEmpty_iff] at hterm
            rw [hterm] at hlen; simp at hlen
          | altT =>
            obtain ⟨c, r, e1, e2⟩ := term_altT hterm
            exact ⟨c, r, e1, by rcases e2 with rfl | rfl <;> decide⟩
          | repT =>
            obtain ⟨c, r, e1, e2⟩ := term_repT hterm
            exact ⟨c, r, e1, by rcases e2 with rfl | rfl <;> decide⟩
        obtain ⟨toks', k', gT, et, sk⟩ := hT _ _ _ _ [] _ _ hj hs hg hlen htc rfl
        rw [gT]
        dsimp only
        have hgk : Guard k'.rest := guard_step h sk hA hg (ne_nil_of_len sk hlen)
        have e1 : toks'.isEmpty = toks.isEmpty := by rw [et, mapSpansL_isEmpty]
        rw [e1, if_neg hne, ← term_sim sk hgk t, if_pos hterm]
        refine ⟨_, k', rfl, ?_, sk⟩
        rw [Tok.mapSpans, ← et]
        congr 1
        exact span_shift h.loc sk.loc
      · cases hk

theorem ulen_eq_zero {s : Str} (h : ulen s = 0) : s = [] := by
  cases s with
  | nil => rfl
  | cons c s => have := ulen_pos (s := c :: s) (by simp); omega

theorem tokens_step (fuel : Nat) (hK : TokP post d fuel) (hT : ToksP post d fuel) :
    ToksP post d (fuel + 1) := by
  intro t i i' acc acc' toks k hk h hg hlen htc hacc
  rw [parseTokens] at hk
  rw [parseTokens]
  cases hq : parseToken fuel t i with
  | none =>
    rw [hq] at hk
    dsimp only at hk
    injection hk with hk; injection hk with h1 h2; subst h1 h2
    obtain ⟨c, cs, e1, e2⟩ := htc
    obtain ⟨c', r', e3, e4⟩ := head_sim h hg
    have : c' = c := by rw [e1] at e4; injection e4 with e4 _; exact e4.symm
    subst this
    rw [parseToken_term_none fuel t i' c' r' e3 e2]
    exact ⟨acc', i', rfl, hacc, h⟩
  | some q =>
    obtain ⟨tok, j⟩ := q
    rw [hq] at hk
    dsimp only at hk
    have hAj := token_Adv hq
    split at hk
    · rename_i hloc
      injection hk with hk; injection hk with h1 h2; subst h1 h2
      have hjr : j.rest = i.rest := by
        obtain ⟨mid, hm, hl⟩ := hAj
        have : ulen mid = 0 := by
          have : j.loc = i.loc := by simpa using hloc
          omega
        rw [ulen_eq_zero this] at hm
        exact hm.symm
      obtain ⟨tok', j', gK, _, sj⟩ := hK _ _ _ _ _ hq h hg (by rw [hjr]; exact hlen)
      rw [gK]
      dsimp only
      have : (j'.loc == i'.loc) = true := by
        have : j.loc = i.loc := by simpa using hloc
        have := sj.loc; have := h.loc
        simp; omega
      rw [if_pos this]
      exact ⟨acc', i', rfl, hacc, h⟩
    · rename_i hloc
      have hAk := tokens_Adv _ _ _ _ _ _ hk
      have hjl : post.length < j.rest.length := by have := hAk.rest_le; omega
      obtain ⟨tok', j', gK, et, sj⟩ := hK _ _ _ _ _ hq h hg hjl
      rw [gK]
      dsimp only
      have : ¬ (j'.loc == i'.loc) = true := by
        have hne : j.loc ≠ i.loc := by simpa using hloc
        have := sj.loc; have := h.loc
        simp; omega
      rw [if_neg this]
      have hgj : Guard j'.rest := guard_step h sj hAj hg (ne_nil_of_len sj hjl)
      exact hT _ _ _ _ (acc' ++ [tok']) _ _ hk sj hgj hlen htc (by
        rw [mapSpansL_append, hacc, et]; simp [mapSpansL])

theorem rep_step (fuel : Nat) (hG : GlobP post d fuel) : RepP post d (fuel + 1) := by
  intro i i' body lo hi m ds hk h hg hlen
  rw [parseRepetition] at hk
  rw [parseRepetition]
  split at hk
  · cases hk
  · rename_i j hj
    have e1 : "<".toList.length = 1 := by decide
    obtain ⟨j', gj, sj, ej', ej⟩ := tag_sim h hj (by have := hg.pos; omega)
    have hgj : Guard j'.rest := by
      rw [ej'] at hg; exact hg.tail (by decide)
    rw [gj]
    dsimp only
    split at hk
    · cases hk
    · rename_i b k hb
      have hAk := glob_Adv hb
      have hPB := parseBounds_Adv k
      cases hpb : parseBounds k with
      | mk lo0 rest0 =>
        obtain ⟨hi0, l⟩ := rest0
        rw [hpb] at hk hPB
        dsimp only at hk hPB
        split at hk
        · rename_i m0 hm
          injection hk with hk; injection hk with q1 hk; injection hk with q2 hk
          injection hk with q3 q4
          subst q1 q2 q3 q4
          have hml := (tag1 (a := '>') (by decide) hm).1
          have hkl : post.length < k.rest.length := by
            have := hPB.rest_le
            rw [hml] at this; simp at this; omega
          obtain ⟨b', k', gb, eb, sk⟩ := hG _ _ _ _ _ _ hb sj hgj hkl
          rw [gb]
          dsimp only
          have hgk : Guard k'.rest := guard_step sj sk hAk hgj (ne_nil_of_len sk hkl)
          obtain ⟨p1, p2, p3, p4⟩ := parseBounds_sim sk hgk
          rw [hpb] at p1 p2 p3
          dsimp only at p1 p2 p3
          cases hpb' : parseBounds k' with
          | mk lo1 rest1 =>
            obtain ⟨hi1, l'⟩ := rest1
            rw [hpb'] at p1 p2 p3 p4
            dsimp only at p1 p2 p3 p4 ⊢
            obtain ⟨m', gm, sm, _, _⟩ := tag_sim p3 hm (by
              have : ">".toList.length = 1 := by decide
              have := p4.pos; omega)
            rw [gm]
            subst p1 p2
            exact ⟨b', m', rfl, eb, sm⟩
        · cases hk

theorem br_step (fuel : Nat) (hG : GlobP post d fuel) (hB : BrP post d fuel) :
    BrP post d (fuel + 1) := by
  intro i i' acc acc' bs l hk h hg hlen hcl hacc
  rw [parseBranches] at hk
  rw [parseBranches]
  cases hq : i.tag "," with
  | none =>
    rw [hq] at hk
    dsimp only at hk
    injection hk with h1 h2; subst h1 h2
    rw [tag_mono h hq]
    exact ⟨acc', i', rfl, hacc, h⟩
  | some j =>
    rw [hq] at hk
    dsimp only at hk
    have hj1 := (tag1 (a := ',') (by decide) hq).1
    cases hb : parseGlob fuel .altT j with
    | none =>
      rw [hb] at hk
      dsimp only at hk
      injection hk with h1 h2; subst h1 h2
      obtain ⟨cs, hcs⟩ := hcl
      rw [hcs] at hj1; injection hj1 with hj1 _
      exact absurd hj1 (by decide)
    | some q =>
      obtain ⟨b, k⟩ := q
      rw [hb] at hk
      dsimp only at hk
      have hAl := branches_Adv _ _ _ _ _ hk
      have hkl : post.length < k.rest.length := by have := hAl.rest_le; omega
      have e1 : ",".toList.length = 1 := by decide
      obtain ⟨j', gj, sj, ej', _⟩ := tag_sim h hq (by have := hg.pos; omega)
      have hgj : Guard j'.rest := by rw [ej'] at hg; exact hg.tail (by decide)
      obtain ⟨b', k', gb, eb, sk⟩ := hG _ _ _ _ _ _ hb sj hgj hkl
      have hgk : Guard k'.rest := guard_step sj sk (glob_Adv hb) hgj (ne_nil_of_len sk hkl)
      rw [gj]
      dsimp only
      rw [gb]
      dsimp only
      exact hB _ _ _ (acc' ++ [b']) _ _ hk sk hgk hlen hcl (by
        rw [mapSpansL_append, hacc, eb]; simp [mapSpansL])

theorem alt_step (fuel : Nat) (hG : GlobP post d fuel) (hB : BrP post d fuel) :
    AltP post d (fuel + 1) := by
  intro i i' bs m ds hk h hg hlen
  rw [parseAlternation] at hk
  rw [parseAlternation]
  split at hk
  · cases hk
  · rename_i j hj
    have e1 : "{".toList.length = 1 := by decide
    obtain ⟨j', gj, sj, ej', ej⟩ := tag_sim h hj (by have := hg.pos; omega)
    have hgj : Guard j'.rest := by rw [ej'] at hg; exact hg.tail (by decide)
    rw [gj]
    dsimp only
    split at hk
    · cases hk
    · rename_i b k hb
      cases hbr : parseBranches fuel k [b] with
      | mk bs0 l =>
        rw [hbr] at hk
        dsimp only at hk
        split at hk
        · rename_i m0 hm
          injection hk with hk; injection hk with q1 q2; subst q1 q2
          have hml := (tag1 (a := '}') (by decide) hm).1
          have hll : post.length < l.rest.length := by rw [hml]; simp; omega
          have hAl := branches_Adv _ _ _ _ _ hbr
          have hkl : post.length < k.rest.length := by have := hAl.rest_le; omega
          obtain ⟨b', k', gb, eb, sk⟩ := hG _ _ _ _ _ _ hb sj hgj hkl
          have hgk : Guard k'.rest := guard_step sj sk (glob_Adv hb) hgj (ne_nil_of_len sk hkl)
          obtain ⟨bs', l', gbr, ebs, sl⟩ := hB _ _ _ [b'] _ _ hbr sk hgk hll ⟨_, hml⟩ (by
            rw [eb]; simp [mapSpansL])
          rw [gb]
          dsimp only
          rw [gbr]
          dsimp only
          obtain ⟨m', gm, sm, _, _⟩ := tag_sim sl hm (by
            have : "}".toList.length = 1 := by decide
            have := sl.len; omega)
          rw [gm]
          exact ⟨bs', m', rfl, ebs, sm⟩
        · cases hk

structure LInv (post : Str) (d fuel : Nat) : Prop where
  glob : GlobP post d fuel
  tokens : ToksP post d fuel
  token : TokP post d fuel
  rep : RepP post d fuel
  alt : AltP post d fuel
  branches : BrP post d fuel

theorem linv_zero : LInv post d 0 where
  glob := by intro t i i' tok k ds h; simp [parseGlob] at h
  tokens := by
    intro t i i' acc acc' toks k hk h hg hlen htc hacc
    simp only [parseTokens, Option.some.injEq, Prod.mk.injEq] at hk
    obtain ⟨rfl, rfl⟩ := hk
    exact ⟨acc', i', rfl, hacc, h⟩
  token := by intro t i i' tok j h; simp [parseToken] at h
  rep := by intro i i' body lo hi m ds h; simp [parseRepetition] at h
  alt := by intro i i' bs m ds h; simp [parseAlternation] at h
  branches := by
    intro i i' acc acc' bs l hk h hg hlen hcl hacc
    simp only [parseBranches, Prod.mk.injEq] at hk
    obtain ⟨rfl, rfl⟩ := hk
    exact ⟨acc', i', rfl, hacc, h⟩

theorem linv_all (post : Str) (d : Nat) : ∀ fuel, LInv post d fuel
  | 0 => linv_zero
  | n + 1 =>
    have ih : LInv post d n := linv_all post d n
    { glob := glob_step n ih.tokens
      tokens := tokens_step n ih.token ih.tokens
      token := token_step n ih.rep ih.alt
      rep := rep_step n ih.glob
      alt := alt_step n ih.glob ih.branches
      branches := br_step n ih.glob ih.branches }

/-! ### the top-level token: inline flags that end inside the slice -/

theorem flagToggles_simB (st : Bool) : ∀ (n n' : Nat) (i i' : Input) (any : Bool) (k : Input),
    flagToggles st n i any = some k → Sim post d ds i i' → i.rest.length ≤ n →
    i'.rest.length ≤ n' → post.length < k.rest.length →
    ∃ k', flagToggles st n' i' any = some k' ∧ Sim post d ds k k'
  | 0, _, i, i', any, k, hk, h, hn, _, hlen => by
    have := (flagToggles_Adv st _ _ _ _ hk).rest_le; omega
  | n + 1, n', i, i', any, k, hk, h, hn, hn', hlen => by
    have hA := (flagToggles_Adv st _ _ _ _ hk).rest_le
    have hil := h.len
    rw [flagToggles] at hk
    cases h1 : i.tag "i" with
    | some j =>
      rw [h1] at hk
      dsimp only at hk
      have hjk : k.rest.length ≤ j.rest.length := by
        have := (flagToggles_Adv st _ _ _ _ hk).rest_le
        cases st <;> simpa using this
      have e1 : "i".toList.length = 1 := by decide
      have hj1 := (tag1 (a := 'i') (by decide) h1).1
      have hjl : j.rest.length + 1 = i.rest.length := by rw [hj1]; simp
      obtain ⟨j', gj, sj, ej', _⟩ := tag_sim h h1 (by omega)
      have hjl' : j'.rest.length + 1 = i'.rest.length := by rw [ej']; simp [e1] <;> omega
      cases n' with
      | zero => omega
      | succ n' =>
        rw [flagToggles, gj]
        dsimp only
        have l1 : j.rest.length ≤ n := by omega
        have l2 : j'.rest.length ≤ n' := by omega
        cases st
        · exact flagToggles_simB false n n' j j' true k hk sj l1 l2 hlen
        · exact flagToggles_simB true n n' _ _ true k hk (sj.setci true) l1 l2 hlen
    | none =>
      rw [h1] at hk
      dsimp only at hk
      cases h2 : i.tag "-i" with
      | some j =>
        rw [h2] at hk
        dsimp only at hk
        have hjk : k.rest.length ≤ j.rest.length := by
          have := (flagToggles_Adv st _ _ _ _ hk).rest_le
          cases st <;> simpa using this
        have e1 : "-i".toList.length = 2 := by decide
        obtain ⟨b, hb, _, hjr⟩ := tag_some h2
        have hjl : j.rest.length + 2 = i.rest.length := by rw [hb, hjr]; simp [e1] <;> omega
        obtain ⟨j', gj, sj, ej', _⟩ := tag_sim h h2 (by omega)
        have hjl' : j'.rest.length + 2 = i'.rest.length := by rw [ej']; simp [e1] <;> omega
        cases n' with
        | zero => omega
        | succ n' =>
          rw [flagToggles, tag_mono h h1]
          dsimp only
          rw [gj]
          dsimp only
          have l1 : j.rest.length ≤ n := by omega
          have l2 : j'.rest.length ≤ n' := by omega
          cases st
          · exact flagToggles_simB false n n' j j' true k hk sj l1 l2 hlen
          · exact flagToggles_simB true n n' _ _ true k hk (sj.setci false) l1 l2 hlen
      | none =>
        rw [h2] at hk
        dsimp only at hk
        cases any with
        | false => simp at hk
        | true =>
          simp only [if_true, Option.some.injEq] at hk
          subst hk
          cases n' with
          | zero => exact ⟨i', by simp [flagToggles], h⟩
          | succ n' =>
            refine ⟨i', ?_, h⟩
            rw [flagToggles, tag_mono h h1]
            dsimp only
            rw [tag_mono h h2]
            rfl

/-- inline flags in lockstep when, in the expression, they end inside the slice in front of a
character other than `(` -/
theorem flags_simB (st : Bool) : ∀ (n n' : Nat) (i i' : Input),
    Sim post d ds i i' → i.rest.length ≤ n → i'.rest.length ≤ n' →
    post.length < (flags st n i).rest.length → (∀ cs, (flags st n i).rest ≠ '(' :: cs) →
    Sim post d ds (flags st n i) (flags st n' i')
  | 0, _, i, i', h, hn, _, hlen, _ => by
    simp only [flags] at hlen; omega
  | n + 1, n', i, i', h, hn, hn', hlen, hhd => by
    have hil := h.len
    rw [flags] at hlen hhd ⊢
    cases h1 : i.tag "(?" with
    | none =>
      (try rw [h1] at hlen); (try rw [h1] at hhd); (try rw [h1])
      dsimp only at hlen hhd ⊢
      cases n' with
      | zero => exact h
      | succ n' => rw [flags, tag_mono h h1]; exact h
    | some j =>
      (try rw [h1] at hlen); (try rw [h1] at hhd); (try rw [h1])
      dsimp only at hlen hhd ⊢
      obtain ⟨b, hb, _, hjr⟩ := tag_some h1
      have e2 : "(?".toList = ['(', '?'] := by decide
      have hbad : i.rest = '(' :: ('?' :: b) := by rw [hb, e2]; rfl
      cases h2 : flagToggles st j.rest.length j false with
      | none =>
        (try rw [h2] at hhd)
        exact (hhd _ hbad).elim
      | some k =>
        (try rw [h2] at hlen); (try rw [h2] at hhd); (try rw [h2])
        dsimp only at hlen hhd ⊢
        cases h3 : k.tag ")" with
        | none =>
          (try rw [h3] at hhd)
          exact (hhd _ hbad).elim
        | some l =>
          (try rw [h3] at hlen); (try rw [h3] at hhd); (try rw [h3])
          dsimp only at hlen hhd ⊢
          have a0 := (flags_Adv st n l).rest_le
          have a1 := (flagToggles_Adv st _ _ _ _ h2).rest_le
          have hl1 := (tag1 (a := ')') (by decide) h3).1
          have hll : l.rest.length + 1 = k.rest.length := by rw [hl1]; simp
          have hjl : j.rest.length + 2 = i.rest.length := by rw [hb, hjr, e2]; simp
          obtain ⟨j', gj, sj, ej', _⟩ := tag_sim h h1 (by rw [e2]; simp; omega)
          have hjl' : j'.rest.length + 2 = i'.rest.length := by rw [ej', e2]; simp
          obtain ⟨k', gk, sk⟩ := flagToggles_simB st _ j'.rest.length j j' false k h2 sj
            (Nat.le_refl _) (Nat.le_refl _) (by omega)
          have a1' := (flagToggles_Adv st _ _ _ _ gk).rest_le
          have hkl' := sk.len
          obtain ⟨l', gl, sl, el', _⟩ := tag_sim sk h3 (by
            have : ")".toList.length = 1 := by decide
            omega)
          have hll' : l'.rest.length + 1 = k'.rest.length := by
            rw [el']
            have : ")".toList.length = 1 := by decide
            simp [this]
          cases n' with
          | zero => omega
          | succ n' =>
            rw [flags, gj]
            dsimp only
            rw [gk]
            dsimp only
            rw [gl]
            dsimp only
            exact flags_simB st n n' l l' sl (by omega) (by omega) hlen hhd

theorem flagsS_simB {i i' : Input} (h : Sim post d ds i i')
    (hlen : post.length < (flagsS i).rest.length) (hhd : ∀ cs, (flagsS i).rest ≠ '(' :: cs) :
    Sim post d ds (flagsS i) (flagsS i') :=
  flags_simB true _ _ i i' h (Nat.le_refl _) (Nat.le_refl _) hlen hhd

theorem tag_sub {i j : Input} {t : String} (h : i.tag t = some j) : j.sub = i.sub := by
  obtain ⟨_, _, hj, _⟩ := tag_some h
  rw [hj]; rfl

theorem flagToggles_sub (st : Bool) : ∀ (n : Nat) (i : Input) (any : Bool) (k : Input),
    flagToggles st n i any = some k → k.sub = i.sub
  | 0, i, any, k, h => by
    simp only [flagToggles] at h
    split at h
    · injection h with h; subst h; rfl
    · cases h
  | n + 1, i, any, k, h => by
    rw [flagToggles] at h
    split at h
    · rename_i j hj
      have := flagToggles_sub st n _ true k h
      rw [this]
      cases st
      · exact tag_sub hj
      · show j.sub = i.sub
        exact tag_sub hj
    · split at h
      · rename_i j hj
        have := flagToggles_sub st n _ true k h
        rw [this]
        cases st
        · exact tag_sub hj
        · show j.sub = i.sub
          exact tag_sub hj
      · split at h
        · injection h with h; subst h; rfl
        · cases h

theorem flags_sub (st : Bool) : ∀ (n : Nat) (i : Input), (flags st n i).sub = i.sub
  | 0, i => rfl
  | n + 1, i => by
    rw [flags]
    split
    · rfl
    · rename_i j hj
      split
      · rfl
      · rename_i k hk
        split
        · rfl
        · rename_i l hl
          rw [flags_sub st n l, tag_sub hl, flagToggles_sub st _ _ _ _ hk, tag_sub hj]

/-- once the inline flags are consumed there are none left -/
theorem flags_idem (st : Bool) (m : Nat) : ∀ (n : Nat) (i : Input), i.rest.length ≤ n →
    flags st m (flags st n i) = flags st n i
  | 0, i, hn => by
    have hr : i.rest = [] := List.length_eq_zero_iff.mp (by omega)
    simp only [flags]
    cases m with
    | zero => rfl
    | succ m => rw [flags, tag_nil i _ '(' ['?'] (by decide) hr]
  | n + 1, i, hn => by
    rw [flags]
    cases h1 : i.tag "(?" with
    | none =>
      dsimp only
      cases m with
      | zero => rfl
      | succ m => rw [flags, h1]
    | some j =>
      dsimp only
      cases h2 : flagToggles st j.rest.length j false with
      | none =>
        dsimp only
        cases m with
        | zero => rfl
        | succ m => rw [flags, h1]; dsimp only; rw [h2]
      | some k =>
        dsimp only
        cases h3 : k.tag ")" with
        | none =>
          dsimp only
          cases m with
          | zero => rfl
          | succ m => rw [flags, h1]; dsimp only; rw [h2]; dsimp only; rw [h3]
        | some l =>
          dsimp only
          have a1 : j.rest.length < i.rest.length := by
            obtain ⟨b, hb, _, hjr⟩ := tag_some h1
            have e2 : "(?".toList = ['(', '?'] := by decide
            rw [hb, hjr, e2]; simp; omega
          have a2 := (flagToggles_Adv st _ _ _ _ h2).len_le
          have a3 := (tag_Adv h3).len_le
          simp only [Input.len] at a1 a2 a3
          exact flags_idem st m n l (by omega)

theorem flagsS_idem (i : Input) : flagsS (flagsS i) = flagsS i := flags_idem true _ _ i (Nat.le_refl _)

theorem rest_nil_of_sim {j j' : Input} {ds' : Nat} (hj : Sim post d ds' j j') (h : j.rest = post) :
    j'.rest = [] := by
  have := hj.rest
  rw [h] at this
  exact List.append_left_eq_self.mp this.symm

theorem flags_nil (st : Bool) (n : Nat) (i : Input) (h : i.rest = []) : flags st n i = i := by
  cases n with
  | zero => rfl
  | succ n => rw [flags, tag_nil i _ '(' ['?'] (by decide) h]

theorem top_zom {f f' k : Input} {kind : WildK} (sym : String) (lazy : Bool) (a : Char)
    (hsym : sym.toList = [a]) (hz : wildZom .eof f sym lazy = some (kind, k))
    (h : Sim post d ds f f') (hk : k.rest = post) :
    ∃ k', wildZom .eof f' sym lazy = some (kind, k') ∧ Sim post d ds k k' ∧ f'.rest = [a] := by
  unfold wildZom at hz
  cases hq : f.tag sym with
  | none => rw [hq] at hz; cases hz
  | some q =>
    rw [hq] at hz
    dsimp only at hz
    have hkq : kind = .zom lazy ∧ k = q := by
      split at hz
      · injection hz with hz; injection hz with h1 h2; exact ⟨h1.symm, h2.symm⟩
      · split at hz
        · injection hz with hz; injection hz with h1 h2; exact ⟨h1.symm, h2.symm⟩
        · cases hz
    obtain ⟨rfl, rfl⟩ := hkq
    have hq1 := (tag1 hsym hq).1
    have hil := h.len
    have hfl : f.rest.length = 1 + post.length := by rw [hq1, hk]; simp; omega
    obtain ⟨q', gq, sq, eq', _⟩ := tag_sim h hq (by rw [hsym]; simp; omega)
    have hq'r := rest_nil_of_sim sq hk
    refine ⟨q', ?_, sq, by rw [eq', hsym, hq'r]; rfl⟩
    unfold wildZom
    rw [gq]
    dsimp only
    have : flagsN q' = q' := flags_nil false _ q' hq'r
    rw [this]
    have h1 : isNotStarDollar q' = false := by simp [isNotStarDollar, hq'r]
    have h2 : q'.term .eof = true := by simp [Input.term, hq'r]
    rw [h1, h2]
    simp

theorem wildTree_single {f' : Input} {c : Char} (t : Term) (hr : f'.rest = [c]) (h1 : c ≠ '/')
    (h2 : c ≠ '(') : wildTree t f' = none := by
  have hsl : f'.tag "/" = none := tag_ne f' _ '/' c [] [] (by decide) hr (Ne.symm h1)
  have hf : flagsS f' = f' := flagsS_head hr h2
  have hss : f'.tag "**" = none := by
    cases hq : f'.tag "**" with
    | none => rfl
    | some q =>
      obtain ⟨b, hb, _, _⟩ := tag_some hq
      rw [hr] at hb
      have := congrArg List.length hb
      have e2 : "**".toList.length = 2 := by decide
      simp [e2] at this
  unfold wildTree wildPre
  rw [hsl]
  dsimp only
  cases (f'.sub == f'.loc)
  · rfl
  · simp only [if_true, hf, hss]

theorem top_tree {f f' k : Input} {kind : WildK} (hw : wildTree .eof f = some (kind, k))
    (h : Sim post d ds f f') (hk : k.rest = post) (hidem : flagsS f = f) (hidem' : flagsS f' = f')
    (hsubc : (f.sub == f.loc) = true → (f'.sub == f'.loc) = true) :
    ∃ k', wildTree .eof f' = some (kind, k') ∧ Sim post d ds k k' := by
  unfold wildTree at hw
  cases hp : wildPre f with
  | none => rw [hp] at hw; cases hw
  | some q =>
    obtain ⟨root, p⟩ := q
    rw [hp] at hw
    dsimp only at hw
    cases h2 : p.tag "**" with
    | none => rw [h2] at hw; cases hw
    | some k0 =>
      rw [h2] at hw
      dsimp only at hw
      have e2 : "**".toList = ['*', '*'] := by decide
      obtain ⟨b, hb, _, hk0r⟩ := tag_some h2
      have hpr : p.rest = '*' :: '*' :: k0.rest := by rw [hb, hk0r, e2]; rfl
      have hkk : kind = .tree root ∧ k.rest.length ≤ k0.rest.length := by
        split at hw
        · rename_i l hl
          injection hw with hw; injection hw with h1 h2; subst h1 h2
          exact ⟨rfl, (Adv.trans (flags_Adv _ _ _) (tag_Adv hl)).rest_le⟩
        · split at hw
          · injection hw with hw; injection hw with h1 h2; subst h1 h2
            exact ⟨rfl, Nat.le_refl _⟩
          · cases hw
      obtain ⟨rfl, hkl⟩ := hkk
      have hpl : p.rest.length = 2 + k0.rest.length := by rw [hpr]; simp; omega
      have hil := h.len
      have hkp : k.rest.length = post.length := by rw [hk]
      -- the prefix
      have hP : ∃ p', wildPre f' = some (root, p') ∧ Sim post d ds p p' := by
        unfold wildPre at hp
        cases h0 : f.tag "/" with
        | some q =>
          rw [h0] at hp
          injection hp with hp; injection hp with h1 h2; subst h1 h2
          have hq1 := (tag1 (a := '/') (by decide) h0).1
          have hfl : f.rest.length = 1 + q.rest.length := by rw [hq1]; simp; omega
          have hqp := (flags_Adv true q.rest.length q).rest_le
          have e1 : "/".toList.length = 1 := by decide
          obtain ⟨q', gq, sq, _, _⟩ := tag_sim h h0 (by
            have : (flagsS q).rest.length = 2 + k0.rest.length := hpl
            simp only [flagsS] at this
            omega)
          have sp := flagsS_simB sq (by rw [hpl, ← hk]; omega) (by
            intro cs hcs; rw [hpr] at hcs; injection hcs with hc _; exact absurd hc (by decide))
          refine ⟨flagsS q', ?_, sp⟩
          unfold wildPre
          rw [gq]
        | none =>
          rw [h0] at hp
          dsimp only at hp
          split at hp
          · rename_i hsub
            injection hp with hp; injection hp with h1 h2; subst h1 h2
            refine ⟨f', ?_, by rw [hidem]; exact h⟩
            unfold wildPre
            rw [tag_mono h h0]
            dsimp only
            rw [if_pos (hsubc hsub), hidem']
          · cases hp
      obtain ⟨p', gp, sp⟩ := hP
      have hpl' := sp.len
      obtain ⟨k0', gk0, sk0, _, _⟩ := tag_sim sp h2 (by rw [e2]; simp; rw [← hk] at hpl'; omega)
      unfold wildTree
      rw [gp]
      dsimp only
      rw [gk0]
      dsimp only
      cases h3 : (flagsS k0).tag "/" with
      | some l =>
        rw [h3] at hw
        dsimp only at hw
        injection hw with hw; injection hw with _ hl; subst hl
        have hl1 := (tag1 (a := '/') (by decide) h3).1
        have sf := flagsS_simB sk0 (by rw [hl1, hk]; simp) (by
          intro cs hcs; rw [hl1] at hcs; injection hcs with hc _; exact absurd hc (by decide))
        obtain ⟨l', gl, sl, _, _⟩ := tag_sim sf h3 (by
          have e1 : "/".toList.length = 1 := by decide
          have := sf.len
          rw [hl1, hk] at this; simp at this; omega)
        rw [gl]
        exact ⟨l', rfl, sl⟩
      | none =>
        rw [h3] at hw
        dsimp only at hw
        split at hw
        · rename_i hterm
          injection hw with hw; injection hw with _ hl; subst hl
          have hk0' := rest_nil_of_sim sk0 hk
          have : flagsS k0' = k0' := flags_nil true _ k0' hk0'
          rw [this, tag_nil k0' _ '/' [] (by decide) hk0']
          dsimp only
          have : k0'.term .eof = true := by simp [Input.term, hk0']
          rw [if_pos this]
          exact ⟨k0', rfl, sk0⟩
        · cases hw

theorem wildZom_kind {t : Term} {f k : Input} {sym : String} {lazy : Bool} {kind : WildK}
    (hz : wildZom t f sym lazy = some (kind, k)) : f.tag sym = some k := by
  unfold wildZom at hz
  cases hq : f.tag sym with
  | none => rw [hq] at hz; cases hz
  | some q =>
    rw [hq] at hz
    dsimp only at hz
    split at hz
    · injection hz with hz; injection hz with _ h2; rw [h2]
    · split at hz
      · injection hz with hz; injection hz with _ h2; rw [h2]
      · cases hz

/-- a top-level wildcard re-parses from its own text -/
theorem top_wild {f f' k : Input} {kind : WildK} (hw : parseWildcard .eof f = some (kind, k))
    (h : Sim post d ds f f') (hk : k.rest = post) (hidem : flagsS f = f) (hidem' : flagsS f' = f')
    (hsubc : (f.sub == f.loc) = true → (f'.sub == f'.loc) = true) :
    ∃ k', parseWildcard .eof f' = some (kind, k') ∧ Sim post d ds k k' := by
  rw [parseWildcard_eq] at hw
  rw [parseWildcard_eq]
  have hil := h.len
  cases h1 : f.tag "?" with
  | some q =>
    rw [h1] at hw
    injection hw with hw; injection hw with e1 e2; subst e1 e2
    have hq1 := (tag1 (a := '?') (by decide) h1).1
    obtain ⟨q', gq, sq, _, _⟩ := tag_sim h h1 (by
      have : "?".toList.length = 1 := by decide
      rw [hq1, hk] at hil; simp at hil; omega)
    rw [gq]
    exact ⟨q', rfl, sq⟩
  | none =>
    rw [h1] at hw
    dsimp only at hw
    rw [tag_mono h h1]
    dsimp only
    cases h2 : wildTree .eof f with
    | some r =>
      rw [h2] at hw
      injection hw with hw; subst hw
      obtain ⟨k', gk, sk⟩ := top_tree h2 h hk hidem hidem' hsubc
      rw [gk]
      exact ⟨k', rfl, sk⟩
    | none =>
      rw [h2] at hw
      dsimp only at hw
      cases h3 : wildZom .eof f "*" false with
      | some r =>
        rw [h3] at hw
        injection hw with hw; subst hw
        obtain ⟨k', gk, sk, hr'⟩ := top_zom "*" false '*' (by decide) h3 h hk
        rw [wildTree_single .eof hr' (by decide) (by decide)]
        dsimp only
        rw [gk]
        exact ⟨k', rfl, sk⟩
      | none =>
        rw [h3] at hw
        dsimp only at hw
        obtain ⟨k', gk, sk, hr'⟩ := top_zom "$" true '$' (by decide) hw h hk
        rw [wildTree_single .eof hr' (by decide) (by decide)]
        dsimp only
        have : wildZom .eof f' "*" false = none := by
          unfold wildZom
          rw [tag_ne f' _ '*' '$' [] [] (by decide) hr' (by decide)]
        rw [this]
        exact ⟨k', gk, sk⟩

theorem rep_head {fuel : Nat} {f : Input} {r : Tok × Nat × Option Nat × Input}
    (h : parseRepetition fuel f = some r) : ∃ cs, f.rest = '<' :: cs := by
  cases hq : f.tag "<" with
  | none => rw [parseRepetition_none fuel f hq] at h; cases h
  | some j => exact ⟨_, (tag1 (a := '<') (by decide) hq).1⟩

theorem alt_head {fuel : Nat} {f : Input} {r : List Tok × Input}
    (h : parseAlternation fuel f = some r) : ∃ cs, f.rest = '{' :: cs := by
  cases hq : f.tag "{" with
  | none => rw [parseAlternation_none fuel f hq] at h; cases h
  | some j => exact ⟨_, (tag1 (a := '{') (by decide) hq).1⟩

theorem class_head {f : Input} {r : Bool × List Arch × Input}
    (h : parseClass f = some r) : ∃ cs, f.rest = '[' :: cs := by
  cases hq : f.tag "[" with
  | none => rw [class_none_tag hq] at h; cases h
  | some j => exact ⟨_, (tag1 (a := '[') (by decide) hq).1⟩

theorem rep_last {fuel : Nat} {f m : Input} {b : Tok} {lo : Nat} {hi : Option Nat}
    (h : parseRepetition fuel f = some (b, lo, hi, m)) : ∃ x, f.rest = x ++ '>' :: m.rest := by
  cases fuel with
  | zero => simp [parseRepetition] at h
  | succ fuel =>
    rw [parseRepetition] at h
    split at h
    · cases h
    · rename_i j hj
      split at h
      · cases h
      · rename_i b0 k hb
        have hPB := parseBounds_Adv k
        cases hpb : parseBounds k with
        | mk lo0 rest0 =>
          obtain ⟨hi0, l⟩ := rest0
          rw [hpb] at h hPB
          dsimp only at h hPB
          split at h
          · rename_i m0 hm
            injection h with h; injection h with _ h; injection h with _ h; injection h with _ q4
            subst q4
            obtain ⟨mid, hmid, _⟩ := Adv.trans (tag_Adv hj) (Adv.trans (glob_Adv hb) hPB)
            exact ⟨mid, by rw [hmid, (tag1 (a := '>') (by decide) hm).1]⟩
          · cases h

theorem alt_last {fuel : Nat} {f m : Input} {bs : List Tok}
    (h : parseAlternation fuel f = some (bs, m)) : ∃ x, f.rest = x ++ '}' :: m.rest := by
  cases fuel with
  | zero => simp [parseAlternation] at h
  | succ fuel =>
    rw [parseAlternation] at h
    split at h
    · cases h
    · rename_i j hj
      split at h
      · cases h
      · rename_i b k hb
        cases hbr : parseBranches fuel k [b] with
        | mk bs0 l =>
          rw [hbr] at h
          dsimp only at h
          split at h
          · rename_i m0 hm
            injection h with h; injection h with _ q2; subst q2
            obtain ⟨mid, hmid, _⟩ :=
              Adv.trans (tag_Adv hj) (Adv.trans (glob_Adv hb) (branches_Adv _ _ _ _ _ hbr))
            exact ⟨mid, by rw [hmid, (tag1 (a := '}') (by decide) hm).1]⟩
          · cases h

theorem classBody_last {neg neg' : Bool} {k m : Input} {items : List Arch}
    (hb : classBody neg k = some (neg', items, m)) : ∃ x, k.rest = x ++ ']' :: m.rest := by
  unfold classBody at hb
  split at hb
  · cases hb
  · split at hb
    · rename_i m0 hm
      injection hb with hb; injection hb with _ hb; injection hb with _ e3; subst e3
      obtain ⟨mid, hmid, _⟩ := archetypes_Adv k.rest.length k []
      exact ⟨mid, by rw [hmid, (tag1 (a := ']') (by decide) hm).1]⟩
    · cases hb

theorem class_last {f m : Input} {neg : Bool} {items : List Arch}
    (h : parseClass f = some (neg, items, m)) : ∃ x, f.rest = x ++ ']' :: m.rest := by
  rw [parseClass_eq] at h
  split at h
  · cases h
  · rename_i j hj
    have hj1 := (tag1 (a := '[') (by decide) hj).1
    split at h
    · rename_i k hk
      have hk1 := (tag1 (a := '!') (by decide) hk).1
      obtain ⟨x, hx⟩ := classBody_last h
      exact ⟨'[' :: '!' :: x, by rw [hj1, hk1, hx]; rfl⟩
    · obtain ⟨x, hx⟩ := classBody_last h
      exact ⟨'[' :: x, by rw [hj1, hx]; rfl⟩

theorem guard_top {i i' f m : Input} {g : Char} (h : Sim post d ds i i') (hA : Adv i f)
    (hl : ∃ x, f.rest = x ++ g :: m.rest) (hm : m.rest = post) (hg : GOK g = true) :
    Guard i'.rest := by
  obtain ⟨mid, hmid, _⟩ := hA
  obtain ⟨x, hx⟩ := hl
  refine ⟨mid ++ x, g, ?_, hg⟩
  have e : i'.rest ++ post = (mid ++ x ++ [g]) ++ post := by
    rw [← h.rest, hmid, hx, hm]; simp
  exact List.append_cancel_right e

theorem wild_lt {t : Term} {f k : Input} {kind : WildK} (h : parseWildcard t f = some (kind, k)) :
    k.rest.length < f.rest.length := by
  rw [parseWildcard_eq] at h
  split at h
  · rename_i q hq
    injection h with h; injection h with _ h2; subst h2
    rw [(tag1 (a := '?') (by decide) hq).1]; simp
  · split at h
    · rename_i r hr
      injection h with h; subst h
      unfold wildTree at hr
      split at hr
      · cases hr
      · rename_i root p hp
        have hfp := (wildPre_Adv hp).rest_le
        split at hr
        · cases hr
        · rename_i k0 hk0
          obtain ⟨b, hb, _, hk0r⟩ := tag_some hk0
          have e2 : "**".toList = ['*', '*'] := by decide
          have hpl : p.rest.length = 2 + k0.rest.length := by rw [hb, hk0r, e2]; simp; omega
          split at hr
          · rename_i l hl
            injection hr with hr; injection hr with _ h2; subst h2
            have := (Adv.trans (flags_Adv _ _ _) (tag_Adv hl)).rest_le
            omega
          · split at hr
            · injection hr with hr; injection hr with _ h2; subst h2; omega
            · cases hr
    · split at h
      · rename_i r hr
        injection h with h; subst h
        have := wildZom_kind hr
        rw [(tag1 (a := '*') (by decide) this).1]; simp
      · have := wildZom_kind h
        rw [(tag1 (a := '$') (by decide) this).1]; simp

/-- a wildcard starts with `?`, `/`, `*` or `$` (given that no inline flags are left) -/
theorem wild_head {t : Term} {f k : Input} {kind : WildK}
    (h : parseWildcard t f = some (kind, k)) (hidem : flagsS f = f) :
    ∃ c cs, f.rest = c :: cs ∧ (c = '?' ∨ c = '/' ∨ c = '*' ∨ c = '$') := by
  rw [parseWildcard_eq] at h
  split at h
  · rename_i q hq
    exact ⟨_, _, (tag1 (a := '?') (by decide) hq).1, .inl rfl⟩
  · split at h
    · rename_i r hr
      unfold wildTree at hr
      split at hr
      · cases hr
      · rename_i root p hp
        split at hr
        · cases hr
        · rename_i k0 hk0
          unfold wildPre at hp
          split at hp
          · rename_i q hq
            exact ⟨_, _, (tag1 (a := '/') (by decide) hq).1, .inr (.inl rfl)⟩
          · split at hp
            · injection hp with hp; injection hp with _ h2
              rw [hidem] at h2; subst h2
              obtain ⟨b, hb, _, _⟩ := tag_some hk0
              have e2 : "**".toList = ['*', '*'] := by decide
              exact ⟨'*', '*' :: b, by rw [hb, e2]; rfl, .inr (.inr (.inl rfl))⟩
            · cases hp
    · split at h
      · rename_i r hr
        obtain ⟨kind', k'⟩ := r
        exact ⟨_, _, (tag1 (a := '*') (by decide) (wildZom_kind hr)).1, .inr (.inr (.inl rfl))⟩
      · exact ⟨_, _, (tag1 (a := '$') (by decide) (wildZom_kind h)).1, .inr (.inr (.inr rfl))⟩

theorem head_of_sim {f f' : Input} {c : Char} {cs : Str} (h : Sim post d ds f f')
    (hr : f.rest = c :: cs) (hlen : post.length < f.rest.length) : ∃ cs', f'.rest = c :: cs' := by
  cases hr' : f'.rest with
  | nil => have := h.len; rw [hr'] at this; simp at this; omega
  | cons c' cs' =>
    have := h.rest
    rw [hr, hr'] at this
    injection this with h1 _
    exact ⟨cs', by rw [h1]⟩

/-- **the top-level step**: a capturing token of the expression that ends exactly where the slice
ends is what the slice parses to -/
theorem top_token (fuel : Nat) {i i' j : Input} {tok : Tok}
    (hk : parseToken (fuel + 1) .eof i = some (tok, j)) (hcap : tok.isCapturing = true)
    (h : Sim post d ds i i') (hsub : i.sub ≤ i.loc) (hsub' : i'.sub = i'.loc)
    (hj : j.rest = post) :
    ∃ tok' j', parseToken (fuel + 1) .eof i' = some (tok', j') ∧
      tok = tok'.mapSpans (Span.shift d) ∧ j'.rest = [] ∧ j.loc = j'.loc + d := by
  have hAf : Adv i (flagsS i) := flags_Adv true i.rest.length i
  rw [parseToken_eq] at hk
  rw [parseToken_eq]
  cases hL : parseLiteral (flagsS i) with
  | some q =>
    obtain ⟨text, ci, k⟩ := q
    rw [hL] at hk
    dsimp only at hk
    injection hk with hk; injection hk with h1 h2; subst h1 h2
    simp [Tok.isCapturing] at hcap
  | none =>
    rw [hL] at hk
    dsimp only at hk
    unfold tokTail at hk
    cases hR : parseRepetition fuel (flagsS i) with
    | some q =>
      obtain ⟨body, lo, hi, m⟩ := q
      rw [hR] at hk
      dsimp only at hk
      injection hk with hk; injection hk with h1 h2; subst h1 h2
      have hg := guard_top h hAf (rep_last hR) hj (by decide)
      obtain ⟨sf, gf⟩ := flagsS_sim h hg
      obtain ⟨body', m', gR, eb, sm⟩ := (linv_all post d fuel).rep _ _ _ _ _ _ _ hR sf gf
        (by rw [hj]; exact Nat.le_refl _)
      obtain ⟨cs, hcs⟩ := rep_head gR
      rw [parseLiteral_stop hcs (by decide) (by decide)]
      dsimp only
      unfold tokTail
      rw [gR]
      exact ⟨_, m', rfl, by rw [Tok.mapSpans, span_shift h.loc sm.loc, eb],
        rest_nil_of_sim sm hj, sm.loc⟩
    | none =>
      rw [hR] at hk
      dsimp only at hk
      cases hA : parseAlternation fuel (flagsS i) with
      | some q =>
        obtain ⟨bs, m⟩ := q
        rw [hA] at hk
        dsimp only at hk
        injection hk with hk; injection hk with h1 h2; subst h1 h2
        have hg := guard_top h hAf (alt_last hA) hj (by decide)
        obtain ⟨sf, gf⟩ := flagsS_sim h hg
        obtain ⟨bs', m', gA, eb, sm⟩ := (linv_all post d fuel).alt _ _ _ _ _ hA sf gf
          (by rw [hj]; exact Nat.le_refl _)
        obtain ⟨cs, hcs⟩ := alt_head gA
        rw [parseLiteral_stop hcs (by decide) (by decide)]
        dsimp only
        unfold tokTail
        rw [rep_none_head fuel hcs (by decide), gA]
        exact ⟨_, m', rfl, by rw [Tok.mapSpans, span_shift h.loc sm.loc, eb],
          rest_nil_of_sim sm hj, sm.loc⟩
      | none =>
        rw [hA] at hk
        dsimp only at hk
        cases hw : parseWildcard .eof (flagsS i) with
        | some q =>
          obtain ⟨kind, k⟩ := q
          rw [hw] at hk
          have hkj : k = j := by
            cases kind <;>
            · dsimp only at hk
              injection hk with hk; injection hk with _ h2
          subst hkj
          have hidem := flagsS_idem i
          obtain ⟨c, cs, hcs, hc⟩ := wild_head hw hidem
          have wl := wild_lt hw
          have hfl : post.length < (flagsS i).rest.length := by rw [← hj]; exact wl
          have sf := flagsS_simB h hfl (by
            intro cs' hcs'
            rw [hcs] at hcs'; injection hcs' with h1 _
            rcases hc with rfl | rfl | rfl | rfl <;> exact absurd h1 (by decide))
          have hsubc : ((flagsS i).sub == (flagsS i).loc) = true →
              ((flagsS i').sub == (flagsS i').loc) = true := by
            intro hs
            have e1 : (flagsS i).sub = i.sub := flags_sub _ _ _
            have e2 : (flagsS i').sub = i'.sub := flags_sub _ _ _
            have e3 : (flagsS i).sub = (flagsS i).loc := by simpa using hs
            have e4 := hAf.le
            have e5 := sf.loc
            have e6 := h.loc
            have e7 := (flags_Adv true i'.rest.length i').le
            simp only [flagsS] at *
            simp; omega
          obtain ⟨k', gk, sk⟩ := top_wild hw sf hj hidem (flagsS_idem i') hsubc
          obtain ⟨cs', hcs'⟩ := head_of_sim sf hcs hfl
          rw [parseLiteral_stop hcs' (by rcases hc with rfl | rfl | rfl | rfl <;> decide)
            (by rcases hc with rfl | rfl | rfl | rfl <;> decide)]
          dsimp only
          unfold tokTail
          rw [rep_none_head fuel hcs' (by rcases hc with rfl | rfl | rfl | rfl <;> decide),
            alt_none_head fuel hcs' (by rcases hc with rfl | rfl | rfl | rfl <;> decide), gk]
          cases kind with
          | one =>
            dsimp only at hk ⊢
            injection hk with hk; injection hk with h1 _; subst h1
            exact ⟨_, k', rfl, by rw [Tok.mapSpans, span_shift h.loc sk.loc],
              rest_nil_of_sim sk hj, sk.loc⟩
          | tree r =>
            dsimp only at hk ⊢
            injection hk with hk; injection hk with h1 _; subst h1
            exact ⟨_, k', rfl, by rw [Tok.mapSpans, span_shift h.loc sk.loc],
              rest_nil_of_sim sk hj, sk.loc⟩
          | zom l =>
            dsimp only at hk ⊢
            injection hk with hk; injection hk with h1 _; subst h1
            exact ⟨_, k', rfl, by rw [Tok.mapSpans, span_shift h.loc sk.loc],
              rest_nil_of_sim sk hj, sk.loc⟩
        | none =>
          rw [hw] at hk
          dsimp only at hk
          cases hC : parseClass (flagsS i) with
          | some q =>
            obtain ⟨neg, items, m⟩ := q
            rw [hC] at hk
            dsimp only at hk
            injection hk with hk; injection hk with h1 h2; subst h1 h2
            have hg := guard_top h hAf (class_last hC) hj (by decide)
            obtain ⟨sf, gf⟩ := flagsS_sim h hg
            obtain ⟨m', gC, sm⟩ := parseClass_sim hC sf (by rw [hj]; exact Nat.le_refl _)
            obtain ⟨cs, hcs⟩ := class_head gC
            rw [parseLiteral_stop hcs (by decide) (by decide)]
            dsimp only
            unfold tokTail
            rw [rep_none_head fuel hcs (by decide), alt_none_head fuel hcs (by decide),
              wildcard_none_head .eof hcs (by decide) (by decide) (by decide) (by decide)
                (by decide), gC]
            exact ⟨_, m', rfl, by rw [Tok.mapSpans, span_shift h.loc sm.loc],
              rest_nil_of_sim sm hj, sm.loc⟩
          | none =>
            rw [hC] at hk
            dsimp only at hk
            cases hS : (flagsS i).tag "/" with
            | none => rw [hS] at hk; cases hk
            | some k =>
              rw [hS] at hk
              dsimp only at hk
              injection hk with hk; injection hk with h1 h2; subst h1 h2
              simp [Tok.isCapturing] at hcap

/-! ### what the parser keeps: the flag state changes only over a `(`, and `sub ≤ loc` -/

/-- `Adv` that also tracks the flag state (it can only change when a `(` is consumed) and the
invariant `sub ≤ loc` -/
def AdvX (i j : Input) : Prop :=
  ∃ mid, i.rest = mid ++ j.rest ∧ j.loc = i.loc + ulen mid ∧ (j.ci = i.ci ∨ '(' ∈ mid) ∧
    (i.sub ≤ i.loc → j.sub ≤ j.loc)

theorem AdvX.refl (i : Input) : AdvX i i := ⟨[], by simp, by simp [ulen], .inl rfl, id⟩

theorem AdvX.trans {i j k : Input} (h1 : AdvX i j) (h2 : AdvX j k) : AdvX i k := by
  obtain ⟨m1, r1, l1, c1, s1⟩ := h1
  obtain ⟨m2, r2, l2, c2, s2⟩ := h2
  refine ⟨m1 ++ m2, by rw [r1, r2, List.append_assoc], by rw [l2, l1, ulen_append]; omega, ?_,
    fun h => s2 (s1 h)⟩
  rcases c2 with c2 | c2
  · rcases c1 with c1 | c1
    · exact .inl (c2.trans c1)
    · exact .inr (List.mem_append_left _ c1)
  · exact .inr (List.mem_append_right _ c2)

theorem AdvX.adv {i j : Input} (h : AdvX i j) : Adv i j := by
  obtain ⟨m, r, l, _, _⟩ := h; exact ⟨m, r, l⟩

theorem AdvX.of_keep {i j : Input} (h : Adv i j) (hc : j.ci = i.ci) (hs : j.sub = i.sub) :
    AdvX i j := by
  obtain ⟨m, r, l⟩ := h
  exact ⟨m, r, l, .inl hc, fun hh => by rw [hs, l]; omega⟩

theorem adv_AdvX (i : Input) (n : Nat) : AdvX i (i.adv n) :=
  AdvX.of_keep (adv_Adv i n) rfl rfl

theorem tag_AdvX {i j : Input} {t : String} (h : i.tag t = some j) : AdvX i j := by
  obtain ⟨_, _, hj, _⟩ := tag_some h
  rw [hj]; exact adv_AdvX _ _

theorem flags_AdvX (st : Bool) : ∀ (n : Nat) (i : Input), AdvX i (flags st n i)
  | 0, i => AdvX.refl _
  | n + 1, i => by
    rw [flags]
    split
    · exact AdvX.refl _
    · rename_i j hj
      split
      · exact AdvX.refl _
      · rename_i k hk
        split
        · exact AdvX.refl _
        · rename_i l hl
          refine AdvX.trans ?_ (flags_AdvX st n l)
          have hA := Adv.trans (tag_Adv hj) (Adv.trans (flagToggles_Adv st _ _ _ _ hk) (tag_Adv hl))
          obtain ⟨mid, hm, hloc⟩ := hA
          have hsub : l.sub = i.sub := by
            rw [tag_sub hl, flagToggles_sub st _ _ _ _ hk, tag_sub hj]
          refine ⟨mid, hm, hloc, .inr ?_, fun hh => by rw [hsub, hloc]; omega⟩
          obtain ⟨b, hb, _, _⟩ := tag_some hj
          have e2 : "(?".toList = ['(', '?'] := by decide
          have hl2 : l.rest.length < j.rest.length := by
            have a1 := (flagToggles_Adv st _ _ _ _ hk).rest_le
            have a2 := (tag1 (a := ')') (by decide) hl).1
            rw [a2] at a1; simp at a1; omega
          cases mid with
          | nil =>
            exfalso
            have := congrArg List.length hm
            have hj2 := (tag_Adv hj).rest_le
            simp at this; omega
          | cons c mid =>
            rw [hb, e2] at hm
            injection hm with h1 _
            rw [← h1]; exact List.mem_cons_self

theorem literalLoop_AdvX : ∀ (n : Nat) (i : Input) (acc : Str) (t : Str) (j : Input),
    literalLoop n i acc = some (t, j) → AdvX i j
  | 0, i, acc, t, j, h => by
    simp only [literalLoop] at h
    split at h
    · cases h
    · injection h with h; injection h with _ h; subst h; exact AdvX.refl _
  | n + 1, i, acc, t, j, h => by
    rw [literalLoop] at h
    split at h
    · split at h
      · cases h
      · injection h with h; injection h with _ h; subst h; exact AdvX.refl _
    · split at h
      · split at h
        · cases h
        · split at h
          · exact AdvX.trans (adv_AdvX _ _) (literalLoop_AdvX n _ _ _ _ h)
          · cases h
      · split at h
        · split at h
          · cases h
          · injection h with h; injection h with _ h; subst h; exact AdvX.refl _
        · exact AdvX.trans (adv_AdvX _ _) (literalLoop_AdvX n _ _ _ _ h)

theorem parseLiteral_AdvX {i j : Input} {t : Str} {ci : Bool}
    (h : parseLiteral i = some (t, ci, j)) : AdvX i j := by
  unfold parseLiteral at h
  split at h
  · rename_i t' j' hl
    injection h with h; injection h with _ h; injection h with _ h; subst h
    exact literalLoop_AdvX _ _ _ _ _ hl
  · cases h

theorem classChar_AdvX {i j : Input} {c : Char} (h : classChar i = some (c, j)) : AdvX i j := by
  unfold classChar at h
  split at h
  · cases h
  · split at h
    · split at h
      · split at h
        · injection h with h; injection h with _ h; subst h; exact adv_AdvX _ _
        · cases h
      · cases h
    · split at h
      · cases h
      · injection h with h; injection h with _ h; subst h; exact adv_AdvX _ _

theorem archetype_AdvX {i j : Input} {a : Arch} (h : archetype i = some (a, j)) : AdvX i j := by
  unfold archetype at h
  split at h
  · cases h
  · rename_i a' j' h1
    have A1 := classChar_AdvX h1
    split at h
    · rename_i k hk
      split at h
      · rename_i b l hl
        injection h with h; injection h with _ h; subst h
        exact AdvX.trans A1 (AdvX.trans (tag_AdvX hk) (classChar_AdvX hl))
      · injection h with h; injection h with _ h; subst h; exact A1
    · injection h with h; injection h with _ h; subst h; exact A1

theorem archetypes_AdvX : ∀ (n : Nat) (i : Input) (acc : List Arch), AdvX i (archetypes n i acc).2
  | 0, i, acc => AdvX.refl _
  | n + 1, i, acc => by
    rw [archetypes]
    split
    · rename_i a j h
      exact AdvX.trans (archetype_AdvX h) (archetypes_AdvX n j _)
    · exact AdvX.refl _

theorem parseClass_AdvX {i j : Input} {neg : Bool} {items : List Arch}
    (h : parseClass i = some (neg, items, j)) : AdvX i j := by
  unfold parseClass at h
  cases h1 : i.tag "[" with
  | none => rw [h1] at h; cases h
  | some a =>
    rw [h1] at h
    dsimp only at h
    have A1 := tag_AdvX h1
    cases h2 : a.tag "!" with
    | none =>
      rw [h2] at h
      dsimp only at h
      have A3 := archetypes_AdvX a.rest.length a []
      generalize archetypes a.rest.length a [] = R at h A3
      obtain ⟨its, l⟩ := R
      dsimp only at h A3
      split at h
      · cases h
      · split at h
        · rename_i m hm
          injection h with h; injection h with _ h; injection h with _ h; subst h
          exact AdvX.trans A1 (AdvX.trans A3 (tag_AdvX hm))
        · cases h
    | some b =>
      rw [h2] at h
      dsimp only at h
      have A2 := tag_AdvX h2
      have A3 := archetypes_AdvX b.rest.length b []
      generalize archetypes b.rest.length b [] = R at h A3
      obtain ⟨its, l⟩ := R
      dsimp only at h A3
      split at h
      · cases h
      · split at h
        · rename_i m hm
          injection h with h; injection h with _ h; injection h with _ h; subst h
          exact AdvX.trans A1 (AdvX.trans A2 (AdvX.trans A3 (tag_AdvX hm)))
        · cases h

theorem wildPre_AdvX {i j : Input} {root : Bool} (h : wildPre i = some (root, j)) : AdvX i j := by
  unfold wildPre at h
  split at h
  · rename_i k hk
    injection h with h; injection h with _ h; subst h
    exact AdvX.trans (tag_AdvX hk) (flags_AdvX _ _ _)
  · split at h
    · injection h with h; injection h with _ h; subst h; exact flags_AdvX _ _ _
    · cases h

theorem wildTree_AdvX {t : Term} {i j : Input} {k : WildK} (h : wildTree t i = some (k, j)) :
    AdvX i j := by
  unfold wildTree at h
  split at h
  · cases h
  · rename_i root a ha
    have A1 := wildPre_AdvX ha
    split at h
    · cases h
    · rename_i b hb
      have A2 := tag_AdvX hb
      split at h
      · rename_i l hl
        injection h with h; injection h with _ h; subst h
        exact AdvX.trans A1 (AdvX.trans A2 (AdvX.trans (flags_AdvX _ _ _) (tag_AdvX hl)))
      · split at h
        · injection h with h; injection h with _ h; subst h
          exact AdvX.trans A1 A2
        · cases h

theorem wildZom_AdvX {t : Term} {i j : Input} {sym : String} {lazy : Bool} {k : WildK}
    (h : wildZom t i sym lazy = some (k, j)) : AdvX i j := by
  unfold wildZom at h
  split at h
  · cases h
  · rename_i a ha
    split at h
    · injection h with h; injection h with _ h; subst h; exact tag_AdvX ha
    · split at h
      · injection h with h; injection h with _ h; subst h; exact tag_AdvX ha
      · cases h

theorem parseWildcard_AdvX {t : Term} {i j : Input} {k : WildK}
    (h : parseWildcard t i = some (k, j)) : AdvX i j := by
  rw [parseWildcard_eq] at h
  split at h
  · rename_i a ha
    injection h with h; injection h with _ h; subst h; exact tag_AdvX ha
  · split at h
    · rename_i r hr
      injection h with h; subst h; exact wildTree_AdvX hr
    · split at h
      · rename_i r hr
        injection h with h; subst h; exact wildZom_AdvX hr
      · exact wildZom_AdvX h

theorem digits_AdvX (i : Input) : AdvX i (digits i).2 := adv_AdvX _ _

theorem boundsRange_AdvX {j k : Input} {lo : Nat} {hi : Option Nat}
    (h : boundsRange j = some (lo, hi, k)) : AdvX j k := by
  unfold boundsRange at h
  split at h
  · cases h
  · split at h
    · cases h
    · rename_i l hl
      have A := AdvX.trans (digits_AdvX j) (tag_AdvX hl)
      split at h
      · injection h with h; injection h with _ h; injection h with _ h; subst h; exact A
      · split at h
        · injection h with h; injection h with _ h; injection h with _ h; subst h
          exact AdvX.trans A (digits_AdvX l)
        · cases h

theorem parseBounds_AdvX (i : Input) : AdvX i (parseBounds i).2.2 := by
  rw [parseBounds_eq]
  split
  · exact AdvX.refl _
  · rename_i j hj
    have A1 := tag_AdvX hj
    split
    · rename_i r hr
      obtain ⟨lo, hi, k⟩ := r
      exact AdvX.trans A1 (boundsRange_AdvX hr)
    · split
      · exact AdvX.trans A1 (digits_AdvX j)
      · exact A1

structure XInv (fuel : Nat) : Prop where
  glob : ∀ t i tok j, parseGlob fuel t i = some (tok, j) → AdvX i j
  tokens : ∀ t i acc toks j, parseTokens fuel t i acc = some (toks, j) → AdvX i j
  token : ∀ t i tok j, parseToken fuel t i = some (tok, j) → AdvX i j
  rep : ∀ i body lo hi j, parseRepetition fuel i = some (body, lo, hi, j) → AdvX i j
  alt : ∀ i bs j, parseAlternation fuel i = some (bs, j) → AdvX i j
  branches : ∀ i acc bs j, parseBranches fuel i acc = (bs, j) → AdvX i j

theorem xinv_zero : XInv 0 where
  glob := by intro t i tok j h; simp [parseGlob] at h
  tokens := by
    intro t i acc toks j h
    simp only [parseTokens, Option.some.injEq, Prod.mk.injEq] at h
    obtain ⟨_, rfl⟩ := h; exact AdvX.refl _
  token := by intro t i tok j h; simp [parseToken] at h
  rep := by intro i body lo hi j h; simp [parseRepetition] at h
  alt := by intro i bs j h; simp [parseAlternation] at h
  branches := by
    intro i acc bs j h
    simp only [parseBranches, Prod.mk.injEq] at h
    obtain ⟨_, rfl⟩ := h; exact AdvX.refl _

theorem xinv_succ (fuel : Nat) (ih : XInv fuel) : XInv (fuel + 1) where
  glob := by
    intro t i0 tok j h
    rw [parseGlob] at h
    dsimp only at h
    split at h
    · cases h
    · rename_i toks k hk
      have A := ih.tokens _ _ _ _ _ hk
      split at h
      · cases h
      · split at h
        · injection h with h; injection h with _ h2; subst h2
          have A0 : AdvX i0 { i0 with sub := i0.loc } :=
            ⟨[], by simp, by simp [ulen], .inl rfl, fun _ => Nat.le_refl _⟩
          exact AdvX.trans A0 A
        · cases h
  tokens := by
    intro t i acc toks j h
    rw [parseTokens] at h
    split at h
    · rename_i tok k hk
      have A := ih.token _ _ _ _ hk
      split at h
      · injection h with h; injection h with _ h2; subst h2; exact AdvX.refl _
      · exact AdvX.trans A (ih.tokens _ _ _ _ _ h)
    · injection h with h; injection h with _ h2; subst h2; exact AdvX.refl _
  token := by
    intro t i tok j h
    rw [parseToken_eq] at h
    have Af : AdvX i (flagsS i) := flags_AdvX _ _ _
    split at h
    · rename_i text ci k hk
      injection h with h; injection h with _ h2; subst h2
      exact AdvX.trans Af (parseLiteral_AdvX hk)
    · unfold tokTail at h
      split at h
      · rename_i body lo hi k hk
        injection h with h; injection h with _ h2; subst h2
        exact AdvX.trans Af (ih.rep _ _ _ _ _ hk)
      · split at h
        · rename_i bs k hk
          injection h with h; injection h with _ h2; subst h2
          exact AdvX.trans Af (ih.alt _ _ _ hk)
        · split at h
          · rename_i k hk
            injection h with h; injection h with _ h2; subst h2
            exact AdvX.trans Af (parseWildcard_AdvX hk)
          · rename_i r k hk
            injection h with h; injection h with _ h2; subst h2
            exact AdvX.trans Af (parseWildcard_AdvX hk)
          · rename_i l k hk
            injection h with h; injection h with _ h2; subst h2
            exact AdvX.trans Af (parseWildcard_AdvX hk)
          · split at h
            · rename_i neg items k hk
              injection h with h; injection h with _ h2; subst h2
              exact AdvX.trans Af (parseClass_AdvX hk)
            · split at h
              · rename_i k hk
                injection h with h; injection h with _ h2; subst h2
                exact AdvX.trans Af (tag_AdvX hk)
              · cases h
  rep := by
    intro i body lo hi j h
    rw [parseRepetition] at h
    split at h
    · cases h
    · rename_i a ha
      have A1 := tag_AdvX ha
      split at h
      · cases h
      · rename_i b k hk
        have A2 := ih.glob _ _ _ _ hk
        have A3 := parseBounds_AdvX k
        generalize parseBounds k = R at h A3
        obtain ⟨lo', hi', l⟩ := R
        dsimp only at h A3
        split at h
        · rename_i m hm
          injection h with h; injection h with _ h; injection h with _ h; injection h with _ h4
          subst h4
          exact AdvX.trans A1 (AdvX.trans A2 (AdvX.trans A3 (tag_AdvX hm)))
        · cases h
  alt := by
    intro i bs j h
    rw [parseAlternation] at h
    split at h
    · cases h
    · rename_i a ha
      have A1 := tag_AdvX ha
      split at h
      · cases h
      · rename_i b k hk
        have A2 := ih.glob _ _ _ _ hk
        have hB := ih.branches k [b]
        generalize parseBranches fuel k [b] = R at h hB
        obtain ⟨bs', l⟩ := R
        have A3 := hB bs' l rfl
        dsimp only at h
        split at h
        · rename_i m hm
          injection h with h; injection h with _ h2; subst h2
          exact AdvX.trans A1 (AdvX.trans A2 (AdvX.trans A3 (tag_AdvX hm)))
        · cases h
  branches := by
    intro i acc bs j h
    rw [parseBranches] at h
    split at h
    · injection h with _ h2; subst h2; exact AdvX.refl _
    · rename_i a haa
      have A1 := tag_AdvX haa
      split at h
      · injection h with _ h2; subst h2; exact AdvX.refl _
      · rename_i b k hk
        exact AdvX.trans A1 (AdvX.trans (ih.glob _ _ _ _ hk) (ih.branches _ _ _ _ h))

theorem xinv_all : ∀ fuel, XInv fuel
  | 0 => xinv_zero
  | n + 1 => xinv_succ n (xinv_all n)

/-! ### the statement -/

/-- drop `n` bytes (whole characters) -/
def dropB (s : Str) (n : Nat) : Str :=
  match s with
  | [] => []
  | c :: cs => if n = 0 then c :: cs else dropB cs (n - c.utf8Size)

/-- take `n` bytes (whole characters) -/
def takeB (s : Str) (n : Nat) : Str :=
  match s with
  | [] => []
  | c :: cs => if n = 0 then [] else c :: takeB cs (n - c.utf8Size)

/-- `&expression[span.start..][..span.len]` -/
def sliceB (e : Str) (sp : Span) : Str := takeB (dropB e sp.start) sp.len

theorem dropB_ulen : ∀ (pre r : Str), dropB (pre ++ r) (ulen pre) = r
  | [], r => by cases r <;> simp [dropB, ulen]
  | a :: pre, r => by
    have hp := Char.utf8Size_pos a
    rw [List.cons_append, dropB, ulen_cons, if_neg (by omega), Nat.add_sub_cancel_left]
    exact dropB_ulen pre r

theorem takeB_ulen : ∀ (mid r : Str), takeB (mid ++ r) (ulen mid) = mid
  | [], r => by cases r <;> simp [takeB, ulen]
  | a :: mid, r => by
    have hp := Char.utf8Size_pos a
    rw [List.cons_append, takeB, ulen_cons, if_neg (by omega), Nat.add_sub_cancel_left,
      takeB_ulen mid r]

/-- `parse` started in the flag state `c` (`parse` is `parseCi false`) -/
def parseCi (c : Bool) (e : Str) : ParseResult :=
  if e.isEmpty then .ok (.lit ⟨0, 0⟩ [] false) else
  let i : Input := { rest := e, loc := 0, ci := c, sub := 0 }
  let fuel := 4 * e.length + 8
  match parseTokens fuel .eof i [] with
  | none => .err []
  | some (toks, j) =>
    if toks.isEmpty then .err [(flagsS i).loc, 0, 0, 0]
    else if j.rest.isEmpty then .ok (.cat ⟨0, j.loc⟩ toks)
    else .err [j.loc]

theorem parse_eq_parseCi (e : Str) : parse e = parseCi false e := rfl

theorem parseToken_fuel_add (t : Term) (i : Input) (fuel : Nat) (h : 4 * i.len + 2 ≤ fuel) :
    ∀ k, parseToken (fuel + k) t i = parseToken fuel t i
  | 0 => rfl
  | k + 1 => by
    rw [← Nat.add_assoc, (fe_all (fuel + k)).token t i (by omega)]
    exact parseToken_fuel_add t i fuel h k

theorem parseToken_fuel_eq (t : Term) (i : Input) (f g : Nat) (hf : 4 * i.len + 2 ≤ f)
    (hg : 4 * i.len + 2 ≤ g) : parseToken f t i = parseToken g t i := by
  have h1 := parseToken_fuel_add t i (4 * i.len + 2) (Nat.le_refl _) (f - (4 * i.len + 2))
  have h2 := parseToken_fuel_add t i (4 * i.len + 2) (Nat.le_refl _) (g - (4 * i.len + 2))
  rw [Nat.add_sub_cancel' hf] at h1
  rw [Nat.add_sub_cancel' hg] at h2
  rw [h1, h2]

/-- every token the top-level loop appends was parsed by `parseToken` from a state the loop
reached, with enough fuel -/
theorem tokens_find : ∀ (fuel : Nat) (t : Term) (i : Input) (acc toks : List Tok) (k : Input),
    parseTokens fuel t i acc = some (toks, k) → 4 * i.len + 3 ≤ fuel →
    ∃ new, toks = acc ++ new ∧ ∀ a tk b, new = a ++ tk :: b →
      ∃ i1 j1 f1, parseToken f1 t i1 = some (tk, j1) ∧ 4 * i1.len + 2 ≤ f1 ∧ AdvX i i1 ∧ Adv j1 k
  | 0, t, i, acc, toks, k, h, hf => by omega
  | fuel + 1, t, i, acc, toks, k, h, hf => by
    have hA := tokens_Adv _ _ _ _ _ _ h
    rw [parseTokens] at h
    have hstop : ∀ (toks : List Tok) (k : Input), some (acc, i) = some (toks, k) →
        ∃ new, toks = acc ++ new ∧ ∀ a tk b, new = a ++ tk :: b →
          ∃ i1 j1 f1, parseToken f1 t i1 = some (tk, j1) ∧ 4 * i1.len + 2 ≤ f1 ∧ AdvX i i1 ∧
            Adv j1 k := by
      intro toks k h
      injection h with h; injection h with h1 h2; subst h1 h2
      exact ⟨[], by simp, by intro a tk b hab; cases a <;> cases hab⟩
    cases hq : parseToken fuel t i with
    | none => rw [hq] at h; exact hstop _ _ h
    | some q =>
      obtain ⟨tok, j⟩ := q
      rw [hq] at h
      dsimp only at h
      split at h
      · exact hstop _ _ h
      · rename_i hloc
        have hlt := (token_Adv hq).len_lt (by simpa using hloc)
        obtain ⟨new', e1, hall⟩ := tokens_find fuel t j _ toks k h (by omega)
        refine ⟨tok :: new', by rw [e1]; simp, ?_⟩
        intro a tk b hab
        cases a with
        | nil =>
          injection hab with h1 h2
          subst h1
          exact ⟨i, j, fuel, hq, by omega, AdvX.refl _, tokens_Adv _ _ _ _ _ _ h⟩
        | cons x a' =>
          injection hab with h1 h2
          obtain ⟨i1, j1, f1, g1, g2, g3, g4⟩ := hall a' tk b h2
          exact ⟨i1, j1, f1, g1, g2, AdvX.trans ((xinv_all fuel).token _ _ _ _ hq) g3, g4⟩

/-- the slice of a one-token text parses to that token -/
theorem parseCi_single {c : Bool} {mid : Str} {tok' : Tok} {j' : Input} {f : Nat}
    (hk : parseToken f .eof { rest := mid, loc := 0, ci := c, sub := 0 } = some (tok', j'))
    (hf : 4 * mid.length + 2 ≤ f) (hj : j'.rest = []) (hne : mid ≠ []) :
    parseCi c mid = .ok (.cat ⟨0, j'.loc⟩ [tok']) := by
  have hemp : mid.isEmpty = false := by cases mid <;> simp_all
  have hA := token_Adv hk
  have hloc : (j'.loc == 0) = false := by
    obtain ⟨m, hm, hl⟩ := hA
    dsimp only at hm hl
    rw [hj, List.append_nil] at hm
    subst hm
    have := ulen_pos hne
    simp; omega
  have hk' : parseToken (4 * mid.length + 7) .eof { rest := mid, loc := 0, ci := c, sub := 0 } =
      some (tok', j') := by
    rw [← hk]
    exact parseToken_fuel_eq _ _ _ _ (by simp [Input.len]) (by simpa [Input.len] using hf)
  unfold parseCi
  rw [hemp]
  simp only [Bool.false_eq_true, if_false]
  have e1 : 4 * mid.length + 8 = (4 * mid.length + 7) + 1 := rfl
  have e2 : 4 * mid.length + 7 = (4 * mid.length + 6) + 1 := rfl
  rw [e1, parseTokens, hk']
  dsimp only
  rw [hloc]
  simp only [Bool.false_eq_true, if_false]
  rw [e2, parseTokens, parseToken_nil _ _ _ hj]
  simp [hj]

/-- **C17, a capture's span delimits exactly the text of its sub-expression**: for every
expression that parses and every capturing token `t` of its top-level concatenation (the captures
of `Glob::captures`), the slice of the expression by `t.span`, parsed alone in the flag state `c`
that was in force where `t` starts, is the one-token concatenation `[t]` with all spans moved back
by `t.span.start`; and `c` is the default state unless a `(` occurs before the capture. -/
theorem capture_span_reparse (e : Str) (sp : Span) (ts a b : List Tok) (t : Tok)
    (hp : parse e = .ok (.cat sp ts)) (hts : ts = a ++ t :: b) (hcap : t.isCapturing = true) :
    ∃ c t', parseCi c (sliceB e t.span) = .ok (.cat ⟨0, t.span.len⟩ [t']) ∧
      t'.mapSpans (Span.shift t.span.start) = t ∧ (c = false ∨ '(' ∈ takeB e t.span.start) := by
  rcases parse_ok_inv hp with ⟨_, hlit⟩ | ⟨toks, j, hne, heq, _, hjr, hjl, hj⟩
  · cases hlit
  · injection heq with _ hts'
    subst hts'
    obtain ⟨new, enew, hall⟩ := tokens_find _ _ _ _ _ _ hj (by simp [Input.len])
    rw [List.nil_append] at enew
    subst enew
    obtain ⟨i1, j1, f1, hk1, hf1, hX, hA⟩ := hall a t b hts
    obtain ⟨pre, hpre, hloc, hci, hsub⟩ := hX
    dsimp only at hpre hloc hci hsub
    have hsub1 : i1.sub ≤ i1.loc := hsub (Nat.le_refl _)
    obtain ⟨mid, hmid, hl⟩ := token_Adv hk1
    have hspan := ((tinv_all f1).token _ _ _ _ hk1).1
    have hstart : t.span.start = ulen pre := by rw [hspan]; simp [hloc]
    have hlen : t.span.len = ulen mid := by rw [hspan]; simp [hl]
    have hslice : sliceB e t.span = mid := by
      unfold sliceB
      rw [hstart, hlen, hpre, dropB_ulen, hmid, takeB_ulen]
    have hprefix : takeB e t.span.start = pre := by rw [hstart, hpre, takeB_ulen]
    cases f1 with
    | zero => simp [parseToken] at hk1
    | succ n =>
      have hsim : Sim j1.rest i1.loc i1.sub i1 { rest := mid, loc := 0, ci := i1.ci, sub := 0 } :=
        ⟨hmid, by simp, rfl, by simp⟩
      obtain ⟨tok', j', gk, et, hj'r, hj'l⟩ := top_token n hk1 hcap hsim hsub1 rfl rfl
      have hmne : mid ≠ [] := by
        intro hm
        rw [parseToken_nil _ _ _ (by simpa using hm)] at gk
        cases gk
      have hfl : 4 * mid.length + 2 ≤ n + 1 := by
        have : i1.len = mid.length + j1.rest.length := by
          simp only [Input.len]; rw [hmid]; simp
        omega
      refine ⟨i1.ci, tok', ?_, ?_, ?_⟩
      · rw [hslice, parseCi_single gk hfl hj'r hmne]
        have : j'.loc = t.span.len := by rw [hlen]; omega
        rw [this]
      · rw [hstart, et]
        have : i1.loc = ulen pre := by omega
        rw [this]
      · rw [hprefix]
        rcases hci with h | h
        · exact .inl h
        · exact .inr h

/-- the task's form: in the default flag state (no `(` anywhere before the capture) the slice
parses, with `parse` itself, to exactly the capture.  No hypothesis on inline flags *inside* the
span is needed (leading flags of a token lie inside its span and are re-parsed with it). -/
theorem capture_span_reparse_partial (e : Str) (sp : Span) (ts a b : List Tok) (t : Tok)
    (hp : parse e = .ok (.cat sp ts)) (hts : ts = a ++ t :: b) (hcap : t.isCapturing = true)
    (hdef : '(' ∉ takeB e t.span.start) :
    ∃ t', parse (sliceB e t.span) = .ok (.cat ⟨0, t.span.len⟩ [t']) ∧
      t'.mapSpans (Span.shift t.span.start) = t := by
  obtain ⟨c, t', h1, h2, h3⟩ := capture_span_reparse e sp ts a b t hp hts hcap
  rcases h3 with rfl | h3
  · exact ⟨t', h1, h2⟩
  · exact absurd h3 hdef

/-! ### examples and counterexamples -/

mutual
  def tokEq : Tok → Tok → Bool
    | .lit s x c, .lit s' x' c' => s == s' && x == x' && c == c'
    | .sep s, .sep s' => s == s'
    | .cls s n i, .cls s' n' i' => s == s' && n == n' && i == i'
    | .one s, .one s' => s == s'
    | .zom s l, .zom s' l' => s == s' && l == l'
    | .tree s r, .tree s' r' => s == s' && r == r'
    | .alt s bs, .alt s' bs' => s == s' && tokEqL bs bs'
    | .cat s ts, .cat s' ts' => s == s' && tokEqL ts ts'
    | .rep s b lo hi, .rep s' b' lo' hi' => s == s' && tokEq b b' && lo == lo' && hi == hi'
    | _, _ => false
  def tokEqL : List Tok → List Tok → Bool
    | [], [] => true
    | t :: ts, t' :: ts' => tokEq t t' && tokEqL ts ts'
    | _, _ => false
end

/-- the conclusion of `capture_span_reparse` for the flag state `c`, as a check -/
def reparses (c : Bool) (e : Str) (t : Tok) : Bool :=
  match parseCi c (sliceB e t.span) with
  | .ok (.cat s [t']) =>
    s.start == 0 && s.len == t.span.len && tokEq (t'.mapSpans (Span.shift t.span.start)) t
  | _ => false

/-- every capture of the expression re-parses in the flag state `c` -/
def allReparse (c : Bool) (e : String) : Bool :=
  onParsed e fun t => t.concatenation.all fun tk => !tk.isCapturing || reparses c e.toList tk

-- non-vacuity of the hypotheses of the theorem, literally
theorem reparse_example_parse : parse "a{b}*".toList = .ok (.cat ⟨0, 5⟩ [.lit ⟨0, 1⟩ ['a'] false,
    .alt ⟨1, 3⟩ [.cat ⟨2, 1⟩ [.lit ⟨2, 1⟩ ['b'] false]], .zom ⟨4, 1⟩ false]) := by rfl

example : ∃ t', parse (sliceB "a{b}*".toList ⟨1, 3⟩) = .ok (.cat ⟨0, 3⟩ [t']) ∧
    t'.mapSpans (Span.shift 1) = .alt ⟨1, 3⟩ [.cat ⟨2, 1⟩ [.lit ⟨2, 1⟩ ['b'] false]] :=
  capture_span_reparse_partial _ _ _ [.lit ⟨0, 1⟩ ['a'] false] [.zom ⟨4, 1⟩ false] _
    reparse_example_parse rfl rfl (by decide)

-- non-vacuity: five captures (tree, alternation with a nested alternation, repetition, class,
-- wildcard), two-byte characters in front
example : allReparse false "é/**/{b,{c,d}}<e:1,2>[x]*" = true := by decide +kernel
example : onParsed "é/**/{b,{c,d}}<e:1,2>[x]*" (fun t => (captures t).length == 5) = true := by
  decide +kernel
-- inline flags in front of a capture lie inside its span: no hypothesis is needed for them
example : allReparse false "a(?i){b}" = true := by decide +kernel
-- the hypothesis on the flag state cannot be dropped: in `(?i)a{b}` the slice `{b}` parses, alone,
-- to a case-sensitive literal; started in the state in force it parses to the capture
example : allReparse false "(?i)a{b}" = false := by decide +kernel
example : allReparse true "(?i)a{b}" = true := by decide +kernel
-- `'(' ∉ prefix` is sufficient, not necessary (`(?i)` … `(?-i)` restores the default state)
example : allReparse false "(?i)a(?-i)b{c}" = true := by decide +kernel

end
end Wax
