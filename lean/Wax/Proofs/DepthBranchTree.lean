import Wax.Proofs.DepthBranch
/-!
C10 on patterns with branches AND tree wildcards (anywhere: at the top level, inside alternatives,
inside repetition bodies), and — for canonical paths — with runs that can match `""` at the end of
the pattern or between two real separators (`a/*`, `a/**/*`, `{a,b}/*/c`).

Same method as `DepthBranch.lean` (abstract interpretation over classes of matched text, hull
invariant on the fold's sets of terms), with these changes:
* the measure is the number of separator BLOCKS `sp` (a tree wildcard may match text containing
  `//`); `depthOf w + s + e = sp w + 1` for EVERY non-empty `w` (`depthOf_sp`), and blocks add up
  whenever no `//` arises at the junction (`sp_append`);
* a class may be *coalescent* (`coal`: a lone tree wildcard, term `⟨coal, unb⟩`): joining it to a
  neighbour FINALIZES the neighbour (`termn_conj_coal_left/right`); this is sound for the lower
  bound whenever no `//` arises at the junction (the neighbour is separator-free or has an `S` end
  there), upper bounds are open;
* `slack`: the lower bound is at least one below the number of blocks (a tree wildcard joined to a
  neighbour that has a boundary at its far end: `/a` + `/**`); a class that both starts and ends
  with a separator needs slack or invariant terms (`finalize` does not subtract from a range);
* the text of a tree wildcard at either end of the path is read with a VIRTUAL separator there
  (`Padded`: only where the context says the path starts/ends and the class end is `E`), so that
  a tree wildcard always contributes a block: `**/a` on `a`, `a/**` on `a`;
* `solid` / `ne`: the text surely contains a non-separator / is surely not empty;
* a repetition may iterate ZERO times (`<a>`, `x<ab:0,3>y`, `<a/b>c`) when no class of its closure
  has a boundary at either end and the fold gives the body a term without boundary (`repClsLo`,
  `openTerm`): the empty text is one more class, `⟨pure, W, W⟩`, so such a repetition behaves like
  `*` (it must be joined to a text with an `S` end); `<a/>b` is NOT covered;
* `can : Bool`: when only paths without `//` are considered (`clsT true`), two texts that are not
  tree wildcards may also be adjacent whenever the separators they may have at the junction are
  real (`Cls.validX`: `l ≠ E ∨ ne` on the left text, `r ≠ E ∨ ne` on the right one); the
  induction then carries `noDbl u` for the matched text.

**Theorems.**  `BT.depth_sound_branch_tree` (fragment `BT.branchTreeOk = clsT false`, no `W` end:
EVERY matched path, any context); `BT.depth_sound_branch_tree_canonical` (fragment
`BT.branchTreeOkC = clsT true`, the right end may be `W` when the left end is `S` or the text is
`solid`: every CANONICAL matched path); `BT.branchTreeOkC_of_branchTreeOk`;
`depth_sound_branch_tree_partial` on `F10c = F10b ∨ BT.branchTreeOkC` (one predicate for the
classifier; `F10c_of_flatTreeOk`, `F10c_of_F10b`).

**Where it stops**: `{*/**,a}` (a run that can match `""` next to a tree wildcard, FALSE:
`depth_branch_tree_nullable_witness`); `**/*/a` (FALSE on the canonical path `/a`:
`depth_tree_inner_nullable_witness` — the tree wildcard's separator is virtual); `/a{a/**}` (closed,
no slack, range: FALSE, `depth_branch_tree_witness`); `{a,b}/*/c` on non-canonical paths (FALSE:
`depth_inner_nullable_witness`); flat patterns `**/a/` (the `badEnd` shape of `DepthTree.lean`:
closed, no slack) stay with `depth_sound_tree_partial`; repetitions that may iterate zero times and
whose body starts or ends with a boundary (`<a/>b`, the README's `<[!.]*/>[!.]*`: the zero-iteration
text is empty but its term "ends with a boundary"; FALSE in general — `/<a/>` reports "at least 1"
and matches `/`: `depth_rep_zero_boundary_witness` —, apparently right when a text with an `S` end
follows), bodies with mixed
terminations, a lone tree wildcard as a repetition body: not proved.
Note on the crate: for a tree wildcard at the edge of a repetition body (`a<a/**/:2>`) the crate's
compiled language is larger than `Spec.Matches` (the recorded C01 finding K-ENC-SUPERPOSITION-REP),
so there — and only there, among ~3000 random patterns of the fragment checked against the crate's
exact canonical component counts — the crate's matcher contradicts `depth()`; `cmdF10` already joins
`encTags` to the depth tag.
-/
set_option linter.unusedSimpArgs false
set_option linter.unusedVariables false
namespace Wax
namespace BT

/-! ### strings: separator blocks, virtual separators -/

/-- number of maximal blocks of separators (the flag: the previous character is a separator) -/
def spGo : Bool → Str → Nat
  | _, [] => 0
  | p, c :: w => if c = '/' then (if p then 0 else 1) + spGo true w else spGo false w

def sp (w : Str) : Nat := spGo false w

theorem spGo_true : ∀ (w : Str), spGo true w + b2n (hdS w == some true) = spGo false w
  | [] => by simp [spGo, hdS, b2n]
  | c :: w => by
    by_cases hc : c = '/'
    · subst hc; simp [spGo, hdS, b2n]; omega
    · simp [spGo, hdS, hc, b2n]

theorem spGo_append : ∀ (u v : Str) (p : Bool),
    spGo p (u ++ v) = spGo p u + spGo ((ltS u).getD p) v
  | [], v, p => by simp [spGo, ltS]
  | c :: u, v, p => by
    by_cases hc : c = '/'
    · subst hc
      simp only [List.cons_append, spGo, ↓reduceIte, spGo_append u v true, ltS]
      cases hl : ltS u <;> simp [Nat.add_assoc]
    · have hc' : (c == '/') = false := by simpa using hc
      simp only [List.cons_append, spGo, hc, ↓reduceIte, spGo_append u v false, ltS, hc']
      cases hl : ltS u <;> simp

/-- blocks add up when no `//` arises at the junction -/
theorem sp_append {u v : Str} (h : ¬(ltS u = some true ∧ hdS v = some true)) :
    sp (u ++ v) = sp u + sp v := by
  unfold sp
  rw [spGo_append]
  cases hl : ltS u with
  | none => rfl
  | some b =>
    cases b with
    | false => rfl
    | true =>
      have hv : hdS v ≠ some true := fun hv => h ⟨hl, hv⟩
      have := spGo_true v
      have e : (hdS v == some true) = false := by
        cases hh : hdS v with
        | none => rfl
        | some b => cases b <;> simp_all
      simp only [e, b2n, Bool.false_eq_true, ↓reduceIte, Nat.add_zero] at this
      simp [this]

theorem sp_pos {w : Str} (h : hdS w = some true) : 1 ≤ sp w := by
  cases w with
  | nil => simp [hdS] at h
  | cons c w =>
    simp only [hdS, Option.some.injEq, beq_iff_eq] at h
    subst h
    simp [sp, spGo]

theorem spGo_sepFree : ∀ {u : Str} (p : Bool), SepFree u → spGo p u = 0
  | [], _, _ => rfl
  | c :: u, p, h => by
    obtain ⟨hc, hu⟩ := sepFree_cons.mp h
    simp [spGo, hc, spGo_sepFree false hu]

/-- **components from separator blocks**, for every non-empty path -/
theorem depthGo_sp : ∀ (w : Str) (p q s e : Bool), hdS w = some s → ltS w = some e →
    depthGo p w + b2n (p && !s) + b2n s + b2n e = spGo q w + b2n (q && s) + 1
  | [], _, _, _, _, h, _ => by simp [hdS] at h
  | [c], p, q, s, e, hs, he => by
    simp only [hdS, Option.some.injEq] at hs
    simp only [ltS, Option.some.injEq] at he
    subst hs; subst he
    by_cases hc : c = '/'
    · subst hc; cases q <;> simp [depthGo, spGo, b2n]
    · cases p <;> simp [depthGo, spGo, b2n, hc]
  | c :: d :: w, p, q, s, e, hs, he => by
    simp only [hdS, Option.some.injEq] at hs
    subst hs
    have he' : ltS (d :: w) = some e := by
      simp only [ltS] at he ⊢
      cases hl : ltS w <;> simp [hl] at he ⊢ <;> exact he
    by_cases hc : c = '/'
    · subst hc
      have ih := depthGo_sp (d :: w) false true (d == '/') e rfl he'
      simp only [depthGo, spGo, ↓reduceIte, b2n, beq_self_eq_true] at ih ⊢
      cases q <;> cases hd : (d == '/') <;> simp [hd] at ih ⊢ <;> omega
    · have ih := depthGo_sp (d :: w) true false (d == '/') e rfl he'
      have hc' : (c == '/') = false := by simpa using hc
      simp only [depthGo, spGo, hc, ↓reduceIte, b2n, hc'] at ih ⊢
      cases p <;> cases hd : (d == '/') <;> simp [hd] at ih ⊢ <;> omega

theorem depthOf_sp {w : Str} {s e : Bool} (hs : hdS w = some s) (he : ltS w = some e) :
    depthOf w + b2n s + b2n e = sp w + 1 := by
  have := depthGo_sp w false false s e hs he
  simpa [depthOf, sp, b2n] using this

/-- the text with a virtual separator at either end -/
def pad (pl pr : Bool) (u : Str) : Str :=
  (if pl then ['/'] else []) ++ u ++ (if pr then ['/'] else [])

theorem depthGo_snoc_sep : ∀ (w : Str) (p : Bool), depthGo p (w ++ ['/']) = depthGo p w
  | [], p => by simp [depthGo]
  | c :: w, p => by
    by_cases hc : c = '/'
    · simp [depthGo, hc, depthGo_snoc_sep w false]
    · simp [depthGo, hc, depthGo_snoc_sep w true]

theorem depthOf_pad (pl pr : Bool) (u : Str) : depthOf (pad pl pr u) = depthOf u := by
  cases pl <;> cases pr <;> simp [pad, depthOf, depthGo, depthGo_snoc_sep]

theorem pad_append (pl pr : Bool) (a u : Str) :
    pad pl false a ++ pad false pr u = pad pl pr (a ++ u) := by
  cases pl <;> cases pr <;> simp [pad]

theorem ltS_snoc (w : Str) (c : Char) : ltS (w ++ [c]) = some (c == '/') := by
  rw [ltS_append]; simp [ltS]

/-! ### classes -/

/-- class of a (derivation, text) pair.  `coal`: a lone tree wildcard (the fold's term is
`⟨coal, unb⟩`); otherwise as in `DepthBranch.lean`. -/
structure Cls where
  coal : Bool
  pure : Bool
  l : EndK
  r : EndK
  /-- the fold has lost one unit: its lower bound is at least one below the number of blocks of
  separators (a tree wildcard joined to a neighbour that has a boundary at its far end) -/
  slack : Bool
  /-- the text surely contains a character that is not a separator -/
  solid : Bool
  /-- the text is surely not empty -/
  ne : Bool
deriving DecidableEq, Repr

def Cls.tree : Cls := ⟨true, false, .E, .E, false, false, false⟩

/-- may a text of class `b` follow a text of class `a`: no `//` can arise at the junction -/
def Cls.valid (a b : Cls) : Bool :=
  if a.coal then !b.coal && (b.pure || decide (b.l = .S))
  else if b.coal then a.pure || decide (a.r = .S)
  else a.pure || b.pure || decide (a.r = .S) || decide (b.l = .S)

/-- the same when only paths without `//` are considered (`can = true`): two texts that are not
tree wildcards may be adjacent whenever the separators they have at the junction are real (an end
`E` can be virtual only when the text is empty) -/
def Cls.validX (can : Bool) (a b : Cls) : Bool :=
  a.valid b || (can && !a.coal && !b.coal && (decide (a.l ≠ .E) || a.ne) &&
    (decide (b.r ≠ .E) || b.ne))

def Cls.mul (a b : Cls) : Cls :=
  if a.coal then ⟨false, false, .E, b.r, b.slack || decide (b.r = .E), b.solid, b.ne⟩
  else if b.coal then ⟨false, false, a.l, .E, a.slack || decide (a.l = .E), a.solid, a.ne⟩
  else
    { coal := false
      slack := a.slack || b.slack
      solid := a.solid || b.solid
      ne := a.ne || b.ne
      pure := a.pure && b.pure
      l := match a.l with
        | .W => if a.pure && decide (b.l = .S) then .S else .W
        | x => x
      r := match b.r with
        | .W => if b.pure && decide (a.r = .S) then .S else .W
        | x => x }

/-- the termination the fold gives to the terms of this class -/
def Cls.termn (c : Cls) : Termn :=
  if c.coal then .coal else Termn.ofBools (decide (c.l = .E)) (decide (c.r = .E))

/-- a set of classes without repetitions -/
def insC (acc : List Cls) (c : Cls) : List Cls := if c ∈ acc then acc else c :: acc

def normC (l : List Cls) : List Cls := l.foldl insC []

theorem mem_foldl_insC : ∀ (l acc : List Cls) (c : Cls),
    c ∈ l.foldl insC acc ↔ c ∈ acc ∨ c ∈ l
  | [], acc, c => by simp
  | x :: l, acc, c => by
    simp only [List.foldl_cons, mem_foldl_insC l, insC, List.mem_cons]
    by_cases hx : x ∈ acc
    · simp only [hx, ↓reduceIte]
      constructor
      · rintro (h | h)
        · exact .inl h
        · exact .inr (.inr h)
      · rintro (h | rfl | h)
        · exact .inl h
        · exact .inl hx
        · exact .inr h
    · simp only [hx, ↓reduceIte, List.mem_cons]
      constructor
      · rintro ((rfl | h) | h)
        · exact .inr (.inl rfl)
        · exact .inl h
        · exact .inr (.inr h)
      · rintro (h | rfl | h)
        · exact .inl (.inr h)
        · exact .inl (.inl rfl)
        · exact .inr h

theorem mem_normC {l : List Cls} {c : Cls} : c ∈ normC l ↔ c ∈ l := by
  simp [normC, mem_foldl_insC]

def mulAll (can : Bool) (A B : List Cls) : Option (List Cls) :=
  if A.all (fun a => B.all (fun b => a.validX can b)) then
    some (normC (A.flatMap fun a => B.map (Cls.mul a)))
  else none

theorem mulAll_mem {can : Bool} {A B C : List Cls} (h : mulAll can A B = some C) {a b : Cls}
    (ha : a ∈ A) (hb : b ∈ B) : a.validX can b = true ∧ a.mul b ∈ C := by
  unfold mulAll at h
  split at h
  · rename_i hall
    cases h
    simp only [List.all_eq_true] at hall
    refine ⟨hall a ha b hb, mem_normC.mpr ?_⟩
    exact List.mem_flatMap.mpr ⟨a, ha, List.mem_map.mpr ⟨b, hb, rfl⟩⟩
  · cases h

/-! ### the fragment -/

def leafCls : Tok → Option Cls
  | .lit _ s _ =>
    if s.contains '/' then none
    else some ⟨false, true, if s.isEmpty then .W else .S, if s.isEmpty then .W else .S, false,
      !s.isEmpty, !s.isEmpty⟩
  | .cls .. => some ⟨false, true, .S, .S, false, true, true⟩
  | .one _ => some ⟨false, true, .S, .S, false, true, true⟩
  | .zom .. => some ⟨false, true, .W, .W, false, false, false⟩
  | .sep _ => some ⟨false, false, .E, .E, false, false, true⟩
  | .tree .. => some Cls.tree
  | _ => none

def foldMulGo (can : Bool) : List Cls → List (List Cls) → Option (List Cls)
  | acc, [] => some acc
  | acc, c :: cs => match mulAll can acc c with
    | none => none
    | some acc' => foldMulGo can acc' cs

def foldMul (can : Bool) : List (List Cls) → Option (List Cls)
  | [] => none
  | c :: cs => foldMulGo can c cs

def unionAll : List (List Cls) → Option (List Cls)
  | [] => none
  | c :: cs => some (normC (c :: cs).flatten)

def closeGo (can : Bool) : Nat → List Cls → List Cls → Option (List Cls)
  | 0, C, X => match mulAll can C X with
    | none => none
    | some Y => if Y.all (fun y => decide (y ∈ X)) then some X else none
  | k + 1, C, X => match mulAll can C X with
    | none => none
    | some Y => closeGo can k C (normC (X ++ Y))

def uniformC (Z : List Cls) : Bool := Z.all fun a => Z.all fun b => decide (a.termn = b.termn)

/-- classes of one or more iterations of a body of classes `C` (no lone tree wildcard) -/
def repCls (can : Bool) (C : List Cls) : Option (List Cls) :=
  if C.any Cls.coal then none else
  match closeGo can 6 C C with
  | none => none
  | some Z => if uniformC Z && !Z.any Cls.coal then some Z else none

/-- the class of the text of zero iterations of a body whose terms have no boundary at either end -/
def epsC : Cls := ⟨false, true, .W, .W, false, false, false⟩

/-- the fold gives the body some term without boundary at either end -/
def openTerm (b : Tok) : Bool :=
  match depthTok b with
  | .ok (some D) => D.terms.any fun t => decide (t.t = .open_)
  | _ => false

/-- classes of a repetition `<b:lo,_>` whose body has the classes `C`: one or more iterations as
`repCls`; zero iterations only when no class of the closure has a boundary at either end (`<a>`,
`<a/b>`; not `<a/>`), then the empty text is one more class -/
def repClsLo (can : Bool) (b : Tok) (lo : Nat) (C : List Cls) : Option (List Cls) :=
  match repCls can C with
  | none => none
  | some Z =>
    if lo = 0 then
      if Z.all (fun c => decide (c.termn = .open_)) && openTerm b then some (normC (epsC :: Z))
      else none
    else some Z

mutual
  def clsT (can : Bool) : Tok → Option (List Cls)
    | .cat _ ts => match clsTs can ts with
      | none => none
      | some cs => foldMul can cs
    | .alt _ bs => match clsTs can bs with
      | none => none
      | some cs => unionAll cs
    | .rep _ b lo _ =>
      match clsT can b with
      | none => none
      | some C => repClsLo can b lo C
    | .lit sp s ci => (leafCls (.lit sp s ci)).map fun c => [c]
    | .sep sp => (leafCls (.sep sp)).map fun c => [c]
    | .cls sp n i => (leafCls (.cls sp n i)).map fun c => [c]
    | .one sp => (leafCls (.one sp)).map fun c => [c]
    | .zom sp l => (leafCls (.zom sp l)).map fun c => [c]
    | .tree sp r => (leafCls (.tree sp r)).map fun c => [c]
  def clsTs (can : Bool) : List Tok → Option (List (List Cls))
    | [] => some []
    | t :: ts => match clsT can t, clsTs can ts with
      | some c, some cs => some (c :: cs)
      | _, _ => none
end

def Cls.finalOK (c : Cls) : Bool := c.coal || (decide (c.l ≠ .W) && decide (c.r ≠ .W))

def Cls.closed (c : Cls) : Bool := !c.coal && decide (c.l = .E) && decide (c.r = .E)

/-- **the fragment with branches and tree wildcards**: the abstract interpretation succeeds; no class
of the whole pattern has an end that can match `""`; every class that both starts and ends with a
separator has slack, or else the fold's terms of that termination are invariant -/
def branchTreeOk (t : Tok) : Bool :=
  match clsT false t with
  | some C => C.all Cls.finalOK &&
      (C.all (fun c => !c.closed || c.slack) ||
        (match depthTok t with | .ok (some D) => closedInv D | _ => true))
  | none => false

/-! ### realization of a class by a (padded) text -/

/-- the padded text `u` realizes the class `cl` -/
def RealP (cl : Cls) (u : Str) : Prop :=
  (cl.pure = true → SepFree u) ∧ endOK cl.l (hdS u) ∧ endOK cl.r (ltS u) ∧
    (cl.coal = true → hdS u = some true ∧ ltS u = some true) ∧
    (cl.solid = true → ∃ ch ∈ u, ch ≠ '/')

/-- `u'` is `u` with a virtual separator at an end only where the class has a boundary and the
context says the path starts (ends) there -/
def Padded (c : Ctx) (cl : Cls) (u u' : Str) : Prop :=
  ∃ pl pr : Bool, (pl = true → c.first = true ∧ cl.l = .E) ∧
    (pr = true → c.last = true ∧ cl.r = .E) ∧ u' = pad pl pr u ∧ (cl.ne = true → u ≠ [])

theorem Padded.mono {c c' : Ctx} {cl : Cls} {u u' : Str} (h : Padded c cl u u')
    (hf : c.first = true → c'.first = true) (hl : c.last = true → c'.last = true) :
    Padded c' cl u u' := by
  obtain ⟨pl, pr, h1, h2, h3⟩ := h
  exact ⟨pl, pr, fun h => ⟨hf (h1 h).1, (h1 h).2⟩, fun h => ⟨hl (h2 h).1, (h2 h).2⟩, h3⟩

theorem Cls.mul_l_E {a b : Cls} (h : a.l = .E) : (a.mul b).l = .E := by
  unfold Cls.mul
  split
  · rfl
  · split
    · exact h
    · simp [h]

theorem Cls.mul_r_E {a b : Cls} (h : b.r = .E) : (a.mul b).r = .E := by
  unfold Cls.mul
  split
  · exact h
  · split
    · rfl
    · simp [h]

theorem Padded.mul {ca cb : Ctx} (hl : ca.last = false) (hf : cb.first = false) {a b : Cls}
    {x x' y y' : Str} (pa : Padded ca a x x') (pb : Padded cb b y y') :
    Padded ⟨ca.first, cb.last⟩ (a.mul b) (x ++ y) (x' ++ y') := by
  obtain ⟨pl, pr, h1, h2, rfl, h4⟩ := pa
  obtain ⟨ql, qr, g1, g2, rfl, g4⟩ := pb
  have epr : pr = false := by
    cases pr with
    | false => rfl
    | true => have := (h2 rfl).1; rw [hl] at this; cases this
  have eql : ql = false := by
    cases ql with
    | false => rfl
    | true => have := (g1 rfl).1; rw [hf] at this; cases this
  subst epr; subst eql
  refine ⟨pl, qr, fun h => ⟨(h1 h).1, Cls.mul_l_E (h1 h).2⟩,
    fun h => ⟨(g2 h).1, Cls.mul_r_E (g2 h).2⟩, pad_append pl qr x y, ?_⟩
  intro hne
  have : a.ne = true ∨ b.ne = true := by
    unfold Cls.mul at hne
    split at hne
    · exact .inr hne
    · split at hne
      · exact .inl hne
      · simpa using hne
  intro e
  obtain ⟨e1, e2⟩ := List.append_eq_nil_iff.mp e
  rcases this with h | h
  · exact h4 h e1
  · exact g4 h e2

theorem endOK_ne_true {k : EndK} {x : Option Bool} (h : endOK k x) (hk : k = .S) :
    x ≠ some true := by
  subst hk; simp only [endOK] at h; rw [h]; simp

/-- classes compose along concatenation, and the blocks of separators add up -/
theorem RealP.mul {a b : Cls} {u v : Str} (ha : RealP a u) (hb : RealP b v)
    (hv : a.valid b = true ∨
      (a.coal = false ∧ b.coal = false ∧ ¬(ltS u = some true ∧ hdS v = some true))) :
    RealP (a.mul b) (u ++ v) ∧ sp (u ++ v) = sp u + sp v := by
  obtain ⟨a2, a3, a4, a5, a6⟩ := ha
  obtain ⟨b2, b3, b4, b5, b6⟩ := hb
  have sl : ∀ {x : Str}, (∃ ch ∈ x, ch ≠ '/') → ∀ y : Str, ∃ ch ∈ x ++ y, ch ≠ '/' :=
    fun ⟨ch, h1, h2⟩ y => ⟨ch, List.mem_append_left _ h1, h2⟩
  have sr : ∀ {y : Str}, (∃ ch ∈ y, ch ≠ '/') → ∀ x : Str, ∃ ch ∈ x ++ y, ch ≠ '/' :=
    fun ⟨ch, h1, h2⟩ x => ⟨ch, List.mem_append_right _ h1, h2⟩
  unfold Cls.mul
  by_cases hac : a.coal = true
  · have hv : a.valid b = true := by
      rcases hv with h | h
      · exact h
      · rw [hac] at h; cases h.1
    unfold Cls.valid at hv
    simp only [hac, ↓reduceIte, Bool.and_eq_true, Bool.not_eq_true', Bool.or_eq_true,
      decide_eq_true_eq] at hv ⊢
    obtain ⟨hu1, hu2⟩ := a5 hac
    have hne : hdS v ≠ some true := by
      rcases hv.2 with h | h
      · exact hdS_sepFree (b2 h)
      · exact endOK_ne_true b3 h
    refine ⟨⟨(by intro h; cases h), ?_, ?_, (by intro h; cases h), fun h => sr (b6 h) u⟩,
      sp_append (fun h => hne h.2)⟩
    · simp only [endOK, hdS_append, hu1, Option.some_or]
    · rw [ltS_append]
      cases hr : b.r with
      | E => rw [hr] at b4; simp only [endOK] at b4 ⊢; simp [b4]
      | S => rw [hr] at b4; simp only [endOK] at b4 ⊢; simp [b4]
      | W => trivial
  · have hac' : a.coal = false := by simpa using hac
    by_cases hbc : b.coal = true
    · have hv : a.valid b = true := by
        rcases hv with h | h
        · exact h
        · rw [hbc] at h; cases h.2.1
      unfold Cls.valid at hv
      simp only [hac', hbc, Bool.false_eq_true, ↓reduceIte, Bool.or_eq_true,
        decide_eq_true_eq] at hv ⊢
      obtain ⟨hv1, hv2⟩ := b5 hbc
      have hne : ltS u ≠ some true := by
        rcases hv with h | h
        · exact ltS_sepFree (a2 h)
        · exact endOK_ne_true a4 h
      refine ⟨⟨(by intro h; cases h), ?_, ?_, (by intro h; cases h), fun h => sl (a6 h) v⟩,
        sp_append (fun h => hne h.1)⟩
      · rw [hdS_append]
        cases hl : a.l with
        | E => rw [hl] at a3; simp only [endOK] at a3 ⊢; simp [a3]
        | S => rw [hl] at a3; simp only [endOK] at a3 ⊢; simp [a3]
        | W => trivial
      · simp only [endOK, ltS_append, hv2, Option.some_or]
    · have hbc' : b.coal = false := by simpa using hbc
      have hj : ¬(ltS u = some true ∧ hdS v = some true) := by
        rcases hv with hv | hv
        · unfold Cls.valid at hv
          simp only [hac', hbc', Bool.false_eq_true, ↓reduceIte, Bool.or_eq_true,
            decide_eq_true_eq] at hv
          rintro ⟨h1, h2⟩
          rcases hv with ((h | h) | h) | h
          · exact ltS_sepFree (a2 h) h1
          · exact hdS_sepFree (b2 h) h2
          · exact endOK_ne_true a4 h h1
          · exact endOK_ne_true b3 h h2
        · exact hv.2.2
      simp only [hac', hbc', Bool.false_eq_true, ↓reduceIte]
      refine ⟨⟨?_, ?_, ?_, (by intro h; cases h), ?_⟩, sp_append hj⟩
      rotate_right
      · intro h
        simp only [Bool.or_eq_true] at h
        rcases h with h | h
        · exact sl (a6 h) v
        · exact sr (b6 h) u
      · intro hp
        simp only [Bool.and_eq_true] at hp
        exact sepFree_append.mpr ⟨a2 hp.1, b2 hp.2⟩
      · rw [hdS_append]
        cases hl : a.l with
        | E => rw [hl] at a3; simp only [endOK] at a3 ⊢; simp [a3]
        | S => rw [hl] at a3; simp only [endOK] at a3 ⊢; simp [a3]
        | W =>
          simp only
          split
          · rename_i hc
            simp only [Bool.and_eq_true, decide_eq_true_eq] at hc
            rw [hc.2] at b3
            simp only [endOK] at b3 ⊢
            have hsf := a2 hc.1
            cases u with
            | nil => simpa [hdS] using b3
            | cons c u => simp [hdS, (sepFree_cons.mp hsf).1]
          · trivial
      · rw [ltS_append]
        cases hr : b.r with
        | E => rw [hr] at b4; simp only [endOK] at b4 ⊢; simp [b4]
        | S => rw [hr] at b4; simp only [endOK] at b4 ⊢; simp [b4]
        | W =>
          simp only
          split
          · rename_i hc
            simp only [Bool.and_eq_true, decide_eq_true_eq] at hc
            rw [hc.2] at a4
            simp only [endOK] at a4 ⊢
            have hsf := b2 hc.1
            by_cases hv' : v = []
            · subst hv'; simpa [ltS] using a4
            · simp [ltS_sepFree_cons hsf hv']
          · trivial

/-- when only paths without `//` are considered: real separators cannot meet at a junction -/
theorem junction_of_noDbl {ca cb : Ctx} (hl : ca.last = false) (hf : cb.first = false)
    {a b : Cls} {x x' y y' : Str} (pa : Padded ca a x x') (pb : Padded cb b y y')
    (ha : a.l ≠ .E ∨ a.ne = true) (hb : b.r ≠ .E ∨ b.ne = true)
    (hnd : noDbl (x ++ y) = true) : ¬(ltS x' = some true ∧ hdS y' = some true) := by
  obtain ⟨pl, pr, h1, h2, rfl, h4⟩ := pa
  obtain ⟨ql, qr, g1, g2, rfl, g4⟩ := pb
  have epr : pr = false := by
    cases pr with
    | false => rfl
    | true => have := (h2 rfl).1; rw [hl] at this; cases this
  have eql : ql = false := by
    cases ql with
    | false => rfl
    | true => have := (g1 rfl).1; rw [hf] at this; cases this
  subst epr; subst eql
  rw [noDbl_append] at hnd
  simp only [Bool.and_eq_true, Bool.not_eq_true', Bool.and_eq_false_iff, beq_eq_false_iff_ne,
    ne_eq] at hnd
  rintro ⟨e1, e2⟩
  -- the left text ends with a real separator
  have k1 : ltS x = some true := by
    by_cases hx : x = []
    · exfalso
      subst hx
      cases pl with
      | false => simp [pad, ltS] at e1
      | true =>
        rcases ha with h | h
        · exact h (h1 rfl).2
        · exact h4 h rfl
    · have e : pad pl false x = (if pl then ['/'] else []) ++ x := by simp [pad]
      rw [e, ltS_append] at e1
      cases hlx : ltS x with
      | none => cases x with
        | nil => exact absurd rfl hx
        | cons c x => simp only [ltS] at hlx; cases h2' : ltS x <;> simp [h2'] at hlx
      | some bb => rw [hlx] at e1; simpa using e1
  have k2 : hdS y = some true := by
    by_cases hy : y = []
    · exfalso
      subst hy
      cases qr with
      | false => simp [pad, hdS] at e2
      | true =>
        rcases hb with h | h
        · exact h (g2 rfl).2
        · exact g4 h rfl
    · have e : pad false qr y = y ++ (if qr then ['/'] else []) := by simp [pad]
      rw [e, hdS_append] at e2
      cases y with
      | nil => exact absurd rfl hy
      | cons c y => simpa [hdS] using e2
  rcases hnd.2 with h | h
  · exact h k1
  · exact h k2

/-! ### the fragment: facts -/

theorem closeGo_spec (can : Bool) : ∀ (k : Nat) (C X Z : List Cls), closeGo can k C X = some Z →
    (∀ x ∈ X, x ∈ Z) ∧ ∀ c ∈ C, ∀ z ∈ Z, c.validX can z = true ∧ c.mul z ∈ Z
  | 0, C, X, Z, h => by
    simp only [closeGo] at h
    cases hm : mulAll can C X with
    | none => simp [hm] at h
    | some Y =>
      simp only [hm] at h
      split at h
      · rename_i hall
        cases h
        refine ⟨fun x hx => hx, ?_⟩
        intro c hc z hz
        obtain ⟨h1, h2⟩ := mulAll_mem hm hc hz
        simp only [List.all_eq_true, decide_eq_true_eq] at hall
        exact ⟨h1, hall _ h2⟩
      · cases h
  | k + 1, C, X, Z, h => by
    simp only [closeGo] at h
    cases hm : mulAll can C X with
    | none => simp [hm] at h
    | some Y =>
      simp only [hm] at h
      obtain ⟨h1, h2⟩ := closeGo_spec can k C _ Z h
      exact ⟨fun x hx => h1 x (mem_normC.mpr (List.mem_append_left _ hx)), h2⟩

structure ClosedC (can : Bool) (Cb Z : List Cls) : Prop where
  sub : ∀ x ∈ Cb, x ∈ Z
  mul : ∀ c ∈ Cb, ∀ z ∈ Z, c.validX can z = true ∧ c.mul z ∈ Z
  uni : ∀ a ∈ Z, ∀ b ∈ Z, a.termn = b.termn
  nocoal : ∀ a ∈ Z, a.coal = false

theorem repCls_spec {can : Bool} {C Z : List Cls} (h : repCls can C = some Z) :
    ClosedC can C Z := by
  unfold repCls at h
  split at h
  · cases h
  · cases hc : closeGo can 6 C C with
    | none => simp [hc] at h
    | some Z' =>
      simp only [hc] at h
      split at h
      · rename_i hu
        cases h
        obtain ⟨h1, h2⟩ := closeGo_spec can 6 C C Z hc
        simp only [Bool.and_eq_true, uniformC, List.all_eq_true, decide_eq_true_eq,
          Bool.not_eq_true', List.any_eq_false] at hu
        exact ⟨h1, h2, hu.1, fun a ha => by simpa using hu.2 a ha⟩
      · cases h

theorem repClsLo_spec {can : Bool} {b : Tok} {lo : Nat} {C C' : List Cls}
    (h : repClsLo can b lo C = some C') :
    ∃ Z, repCls can C = some Z ∧ (∀ z ∈ Z, z ∈ C') ∧
      (lo = 0 → epsC ∈ C' ∧ openTerm b = true) ∧ (lo ≠ 0 → C' = Z) := by
  unfold repClsLo at h
  cases hr : repCls can C with
  | none => simp [hr] at h
  | some Z =>
    simp only [hr] at h
    refine ⟨Z, rfl, ?_⟩
    split at h
    · rename_i hlo
      split at h
      · rename_i hc
        cases h
        simp only [Bool.and_eq_true] at hc
        exact ⟨fun z hz => mem_normC.mpr (List.mem_cons_of_mem _ hz),
          fun _ => ⟨mem_normC.mpr (List.mem_cons_self ..), hc.2⟩, fun hne => absurd hlo hne⟩
      · cases h
    · rename_i hlo
      cases h
      exact ⟨fun z hz => hz, fun h0 => absurd h0 hlo, fun _ => rfl⟩

theorem NVar.wf_nonempty {v : NVar} (h : v.wf) : ∃ k, v.mem k := by
  cases v with
  | inv n => exact ⟨n, rfl⟩
  | unb => exact ⟨0, trivial⟩
  | bnd r =>
    refine ⟨r.lo, ?_⟩
    show r.mem r.lo
    rw [BVR.mem_iff]
    exact ⟨Nat.le_refl _, fun x hx => BVR.lo_le_hi h hx⟩

theorem clsTs_mem {can : Bool} : ∀ {ts : List Tok} {Cs : List (List Cls)},
    clsTs can ts = some Cs → ∀ t ∈ ts, ∃ C, clsT can t = some C ∧ C ∈ Cs
  | [], _, _, t, ht => by cases ht
  | x :: xs, Cs, h, t, ht => by
    simp only [clsTs] at h
    cases hx : clsT can x with
    | none => simp [hx] at h
    | some c =>
      cases hxs : clsTs can xs with
      | none => simp [hx, hxs] at h
      | some cs =>
        simp only [hx, hxs, Option.some.injEq] at h
        subst h
        rcases List.mem_cons.mp ht with rfl | ht
        · exact ⟨c, hx, List.mem_cons_self ..⟩
        · obtain ⟨C, h1, h2⟩ := clsTs_mem hxs t ht
          exact ⟨C, h1, List.mem_cons_of_mem _ h2⟩

theorem unionAll_mem {Cs : List (List Cls)} {C : List Cls} (h : unionAll Cs = some C)
    {X : List Cls} (hX : X ∈ Cs) {c : Cls} (hc : c ∈ X) : c ∈ C := by
  cases Cs with
  | nil => cases hX
  | cons a as =>
    simp only [unionAll, Option.some.injEq] at h
    subst h
    exact mem_normC.mpr (List.mem_flatten.mpr ⟨X, hX, hc⟩)

def catCls (can : Bool) (ts : List Tok) : Option (List Cls) :=
  match clsTs can ts with
  | none => none
  | some cs => foldMul can cs

theorem catCls_concatenation {can : Bool} {b : Tok} {C : List Cls} (h : clsT can b = some C) :
    catCls can b.concatenation = some C := by
  cases b
  case cat sp ts => simpa only [clsT, Tok.concatenation, catCls] using h
  all_goals simp only [Tok.concatenation, catCls, clsTs, h, foldMul, foldMulGo]

/-! ### the invariant -/

/-- what the set of terms `D` says about a text of class `cl` with `m` blocks of separators: a
lone tree wildcard is the term `⟨coal, unb⟩`; otherwise `m` lies between members of two terms that
have the termination of the class -/
def LoS (D : DTerm) (τ : Termn) (m : Nat) (s : Bool) : Prop :=
  ∃ t ∈ D.terms, t.t = τ ∧ ∃ k1, k1 + b2n s ≤ m ∧ NVar.mem k1 t.v

def TermOK (D : DTerm) (cl : Cls) (m : Nat) : Prop :=
  (cl.coal = true → (⟨.coal, .unb⟩ : SepTerm) ∈ D.terms) ∧
  (cl.coal = false → LoS D cl.termn m cl.slack ∧ Hi D cl.termn m)

def Good (c : Ctx) (C : List Cls) (D : DTerm) (u : Str) : Prop :=
  ∃ cl ∈ C, ∃ u', Padded c cl u u' ∧ RealP cl u' ∧ TermOK D cl (sp u')

theorem Good.mono {c c' : Ctx} {C : List Cls} {D : DTerm} {u : Str} (h : Good c C D u)
    (hf : c.first = true → c'.first = true) (hl : c.last = true → c'.last = true) :
    Good c' C D u := by
  obtain ⟨cl, hcl, u', hp, hr, ht⟩ := h
  exact ⟨cl, hcl, u', hp.mono hf hl, hr, ht⟩

theorem termn_conj_coal_right (s e : Bool) :
    (Termn.ofBools s e).conj .coal = .left (Termn.ofBools s true) := by
  cases s <;> cases e <;> rfl

theorem termn_conj_coal_left (s e : Bool) :
    Termn.coal.conj (Termn.ofBools s e) = .right (Termn.ofBools true e) := by
  cases s <;> cases e <;> rfl

theorem SepTerm.conj_coal_right {l t : SepTerm} {s e : Bool} (hl : l.t = Termn.ofBools s e)
    (h : l.conj ⟨.coal, .unb⟩ = .ok t) :
    ∃ f, l.finalize = .ok f ∧ f.conj .unb = .ok t.v ∧ t.t = Termn.ofBools s true := by
  unfold SepTerm.conj at h
  rw [hl, termn_conj_coal_right] at h
  simp only at h
  obtain ⟨f, hf, h⟩ := bind_ok h
  obtain ⟨v, hv, h⟩ := bind_ok h
  cases h
  exact ⟨f, hf, hv, rfl⟩

theorem SepTerm.conj_coal_left {r t : SepTerm} {s e : Bool} (hr : r.t = Termn.ofBools s e)
    (h : SepTerm.conj ⟨.coal, .unb⟩ r = .ok t) :
    ∃ f, r.finalize = .ok f ∧ NVar.unb.conj f = .ok t.v ∧ t.t = Termn.ofBools true e := by
  unfold SepTerm.conj at h
  rw [hr]  at h
  simp only [termn_conj_coal_left] at h
  obtain ⟨f, hf, h⟩ := bind_ok h
  obtain ⟨v, hv, h⟩ := bind_ok h
  cases h
  exact ⟨f, hf, hv, rfl⟩

theorem termn_of_not_coal {cl : Cls} (h : cl.coal = false) :
    cl.termn = Termn.ofBools (decide (cl.l = .E)) (decide (cl.r = .E)) := by
  simp [Cls.termn, h]

theorem mul_termn_reg {a b : Cls} (ha : a.coal = false) (hb : b.coal = false) :
    (a.mul b).coal = false ∧ (a.mul b).slack = (a.slack || b.slack) ∧
    (a.mul b).termn = Termn.ofBools (decide (a.l = .E)) (decide (b.r = .E)) := by
  obtain ⟨ca, pa, la, ra, sa, ha', na⟩ := a
  obtain ⟨cb, pb, lb, rb, sb, hb', nb⟩ := b
  simp only at ha hb
  subst ha; subst hb
  cases la <;> cases rb <;> simp [Cls.mul, Cls.termn] <;> repeat' split <;> simp

theorem not_E_left {y : Cls} {u : Str} (rb : RealP y u) (h : y.pure = true ∨ y.l = .S) :
    decide (y.l = .E) = false := by
  rcases h with h | h
  · have := hdS_sepFree (rb.1 h)
    cases hl : y.l with
    | E => have h3 := rb.2.1; rw [hl] at h3; exact absurd h3 this
    | S => rfl
    | W => rfl
  · rw [h]; rfl

theorem not_E_right {x : Cls} {u : Str} (ra : RealP x u) (h : x.pure = true ∨ x.r = .S) :
    decide (x.r = .E) = false := by
  rcases h with h | h
  · have := ltS_sepFree (ra.1 h)
    cases hr : x.r with
    | E => have h3 := ra.2.2.1; rw [hr] at h3; exact absurd h3 this
    | S => rfl
    | W => rfl
  · rw [h]; rfl

/-- what `validX` gives: the strict condition, or (paths without `//`) two texts that are not tree
wildcards and whose separators at the junction are real -/
theorem validX_cases {can : Bool} {x y : Cls} (h : x.validX can y = true) :
    x.valid y = true ∨ (can = true ∧ x.coal = false ∧ y.coal = false ∧
      (x.l ≠ .E ∨ x.ne = true) ∧ (y.r ≠ .E ∨ y.ne = true)) := by
  unfold Cls.validX at h
  simp only [Bool.or_eq_true, Bool.and_eq_true, Bool.not_eq_true', decide_eq_true_eq] at h
  rcases h with h | ⟨⟨⟨⟨h1, h2⟩, h3⟩, h4⟩, h5⟩
  · exact .inl h
  · exact .inr ⟨h1, h2, h3, h4, h5⟩

theorem conj_good {can : Bool} {ca cb : Ctx} (hl : ca.last = false) (hf : cb.first = false)
    {Ca Cb C : List Cls} {A B R : DTerm} {a u : Str} (hA : AllWf A) (hB : AllWf B)
    (ga : Good ca Ca A a) (gb : Good cb Cb B u) (hm : mulAll can Ca Cb = some C)
    (hc : A.conj B = .ok R) (hnd : can = true → noDbl (a ++ u) = true) :
    Good ⟨ca.first, cb.last⟩ C R (a ++ u) := by
  obtain ⟨x, hx, a', pa, ra, ta⟩ := ga
  obtain ⟨y, hy, u', pb, rb, tb⟩ := gb
  obtain ⟨hvalX, hmem⟩ := mulAll_mem hm hx hy
  have hval' : x.valid y = true ∨
      (x.coal = false ∧ y.coal = false ∧ ¬(ltS a' = some true ∧ hdS u' = some true)) := by
    rcases validX_cases hvalX with h | ⟨h1, h2, h3, h4, h5⟩
    · exact .inl h
    · exact .inr ⟨h2, h3, junction_of_noDbl hl hf pa pb h4 h5 (hnd h1)⟩
  obtain ⟨rm, hsp⟩ := RealP.mul ra rb hval'
  refine ⟨x.mul y, hmem, a' ++ u', Padded.mul hl hf pa pb, rm, ?_⟩
  rw [hsp]
  by_cases hxc : x.coal = true
  · -- a tree wildcard on the left: the right operand is finalized
    have hval : x.valid y = true := by
      rcases hval' with h | h
      · exact h
      · rw [hxc] at h; cases h.1
    have hv := hval
    simp only [Cls.valid, hxc, ↓reduceIte, Bool.and_eq_true, Bool.not_eq_true', Bool.or_eq_true,
      decide_eq_true_eq] at hv
    have hyc := hv.1
    have tA := ta.1 hxc
    obtain ⟨⟨t1, ht1, e1, k1, hk1, m1⟩, ⟨t2, ht2, e2, k2, hk2, m2⟩⟩ := tb.2 hyc
    rw [termn_of_not_coal hyc] at e1 e2
    have hs := not_E_left rb hv.2
    have hmul : x.mul y = ⟨false, false, .E, y.r, y.slack || decide (y.r = .E), y.solid, y.ne⟩ := by
      simp [Cls.mul, hxc]
    have hsp1 : 1 ≤ sp a' := sp_pos (ra.2.2.2.1 hxc).1
    have htm : (x.mul y).termn = Termn.ofBools true (decide (y.r = .E)) := by
      rw [hmul]; simp [Cls.termn]
    have hsl : (x.mul y).slack = (y.slack || decide (y.r = .E)) := by rw [hmul]
    refine ⟨(by intro h; rw [hmul] at h; cases h), fun _ => ?_⟩
    rw [htm, hsl]
    constructor
    · obtain ⟨t, ht, hct⟩ := (DTerm.conj_terms hc).1 _ tA t1 ht1
      obtain ⟨f, hfin, hcv, et⟩ := SepTerm.conj_coal_left e1 hct
      have hfw := SepTerm.finalize_wf (hB t1 ht1) hfin
      have g := fin_mem (s := decide (y.l = .E)) (e := decide (y.r = .E)) (by rw [hs]; rfl)
        (hB t1 ht1) (by rw [sepTerm_eta e1]; exact hfin) m1
      have hmm := NVar.conj_mem (a := .unb) trivial hfw hcv (show NVar.mem 0 .unb from trivial) g
      refine ⟨t, ht, et, _, ?_, hmm⟩
      simp only [hs, b2n, Bool.false_eq_true, ↓reduceIte] at hk1 ⊢
      cases hys : y.slack <;> cases hye : decide (y.r = .E) <;> simp [hys, hye] at hk1 ⊢ <;> omega
    · obtain ⟨t, ht, hct⟩ := (DTerm.conj_terms hc).1 _ tA t2 ht2
      obtain ⟨f, hfin, hcv, et⟩ := SepTerm.conj_coal_left e2 hct
      have hfw := SepTerm.finalize_wf (hB t2 ht2) hfin
      have g := fin_mem (s := decide (y.l = .E)) (e := decide (y.r = .E)) (by rw [hs]; rfl)
        (hB t2 ht2) (by rw [sepTerm_eta e2]; exact hfin) m2
      have hmm := NVar.conj_mem (a := .unb) trivial hfw hcv
        (show NVar.mem (sp a' + sp u') .unb from trivial) g
      exact ⟨t, ht, et, _, Nat.le_add_right _ _, hmm⟩
  · have hxc' : x.coal = false := by simpa using hxc
    by_cases hyc : y.coal = true
    · -- a tree wildcard on the right: the left operand is finalized
      have hval : x.valid y = true := by
        rcases hval' with h | h
        · exact h
        · rw [hyc] at h; cases h.2.1
      have hv := hval
      simp only [Cls.valid, hxc', hyc, Bool.false_eq_true, ↓reduceIte, Bool.or_eq_true,
        decide_eq_true_eq] at hv
      have tB := tb.1 hyc
      obtain ⟨⟨t1, ht1, e1, k1, hk1, m1⟩, ⟨t2, ht2, e2, k2, hk2, m2⟩⟩ := ta.2 hxc'
      rw [termn_of_not_coal hxc'] at e1 e2
      have he := not_E_right ra hv
      have hmul : x.mul y = ⟨false, false, x.l, .E, x.slack || decide (x.l = .E), x.solid, x.ne⟩ := by
        simp [Cls.mul, hxc', hyc]
      have hsp1 : 1 ≤ sp u' := sp_pos (rb.2.2.2.1 hyc).1
      have htm : (x.mul y).termn = Termn.ofBools (decide (x.l = .E)) true := by
        rw [hmul]; simp [Cls.termn]
      have hsl : (x.mul y).slack = (x.slack || decide (x.l = .E)) := by rw [hmul]
      refine ⟨(by intro h; rw [hmul] at h; cases h), fun _ => ?_⟩
      rw [htm, hsl]
      constructor
      · obtain ⟨t, ht, hct⟩ := (DTerm.conj_terms hc).1 t1 ht1 _ tB
        obtain ⟨f, hfin, hcv, et⟩ := SepTerm.conj_coal_right e1 hct
        have hfw := SepTerm.finalize_wf (hA t1 ht1) hfin
        have g := fin_mem (s := decide (x.l = .E)) (e := decide (x.r = .E)) (by rw [he]; simp)
          (hA t1 ht1) (by rw [sepTerm_eta e1]; exact hfin) m1
        have hmm := NVar.conj_mem (b := .unb) hfw trivial hcv g (show NVar.mem 0 .unb from trivial)
        refine ⟨t, ht, et, _, ?_, hmm⟩
        simp only [he, b2n, Bool.false_eq_true, ↓reduceIte] at hk1 ⊢
        cases hxs : x.slack <;> cases hxe : decide (x.l = .E) <;> simp [hxs, hxe] at hk1 ⊢ <;> omega
      · obtain ⟨t, ht, hct⟩ := (DTerm.conj_terms hc).1 t2 ht2 _ tB
        obtain ⟨f, hfin, hcv, et⟩ := SepTerm.conj_coal_right e2 hct
        have hfw := SepTerm.finalize_wf (hA t2 ht2) hfin
        have g := fin_mem (s := decide (x.l = .E)) (e := decide (x.r = .E)) (by rw [he]; simp)
          (hA t2 ht2) (by rw [sepTerm_eta e2]; exact hfin) m2
        have hmm := NVar.conj_mem (b := .unb) hfw trivial hcv g
          (show NVar.mem (sp a' + sp u') .unb from trivial)
        exact ⟨t, ht, et, _, Nat.le_add_left _ _, hmm⟩
    · have hyc' : y.coal = false := by simpa using hyc
      obtain ⟨⟨t1, ht1, e1, k1, hk1, m1⟩, ⟨t2, ht2, e2, k2, hk2, m2⟩⟩ := ta.2 hxc'
      obtain ⟨⟨s1, hs1, f1, j1, hj1, n1⟩, ⟨s2, hs2, f2, j2, hj2, n2⟩⟩ := tb.2 hyc'
      rw [termn_of_not_coal hxc'] at e1 e2
      rw [termn_of_not_coal hyc'] at f1 f2
      obtain ⟨hmc, hsl, htm⟩ := mul_termn_reg hxc' hyc'
      refine ⟨(by intro h; rw [hmc] at h; cases h), fun _ => ?_⟩
      rw [htm, hsl]
      constructor
      · obtain ⟨t, ht, hct⟩ := (DTerm.conj_terms hc).1 t1 ht1 s1 hs1
        obtain ⟨et, ev⟩ := SepTerm.conj_ofBools e1 f1 hct
        refine ⟨t, ht, et, k1 + j1, ?_, NVar.conj_mem (hA t1 ht1) (hB s1 hs1) ev m1 n1⟩
        simp only [b2n] at hk1 hj1 ⊢
        cases hxs : x.slack <;> cases hys : y.slack <;> simp [hxs, hys] at hk1 hj1 ⊢ <;> omega
      · obtain ⟨t, ht, hct⟩ := (DTerm.conj_terms hc).1 t2 ht2 s2 hs2
        obtain ⟨et, ev⟩ := SepTerm.conj_ofBools e2 f2 hct
        exact ⟨t, ht, et, k2 + j2, by omega, NVar.conj_mem (hA t2 ht2) (hB s2 hs2) ev m2 n2⟩

/-! ### leaves -/

theorem pad_ff (u : Str) : pad false false u = u := by simp [pad]

theorem good_reg_leaf {c : Ctx} {cl : Cls} {t : Tok} {u : Str} (hc : cl.coal = false)
    (hs : cl.slack = false) (hne : cl.ne = true → u ≠ [])
    (hr : RealP cl u) (ht : leafTerm t = ⟨cl.termn, .inv (sp u)⟩) :
    Good c [cl] (.c (leafTerm t)) u := by
  refine ⟨cl, List.mem_singleton.mpr rfl, u,
    ⟨false, false, by simp, by simp, (pad_ff u).symm, hne⟩, hr,
    (by intro h; rw [hc] at h; cases h), fun _ => ⟨?_, ?_⟩⟩
  · exact ⟨leafTerm t, by simp [DTerm.terms], by rw [ht], sp u, by simp [hs, b2n],
      by rw [ht]; rfl⟩
  · exact ⟨leafTerm t, by simp [DTerm.terms], by rw [ht], sp u, Nat.le_refl _, by rw [ht]; rfl⟩

theorem star_compSep_lt {r : Str} (h : Star CompSep r) (hne : r ≠ []) : ltS r = some true := by
  rcases (star_compSep_iff r).mp h with rfl | ⟨m, rfl⟩
  · exact absurd rfl hne
  · rw [ltS_snoc]; rfl

theorem leaf_good (σ : Sem) (hσ : SepIsolated σ) {c : Ctx} {t : Tok} {u : Str} (h : SM σ c t u)
    {cl : Cls} (hc : leafCls t = some cl) : Good c [cl] (.c (leafTerm t)) u := by
  cases h with
  | lit hl =>
    rename_i sp' s ci
    simp only [leafCls] at hc
    split at hc
    · cases hc
    · rename_i hns
      cases hc
      have hsf : SepFree u :=
        litEq_sepFree hσ hl (sepFree_of_not_contains (by simpa using hns))
      have hlen := litEq_length hl
      refine good_reg_leaf rfl rfl ?h0 ⟨fun _ => hsf, ?h1, ?h2, (by intro h; cases h), ?h3⟩ ?h4
      case h0 =>
        intro hsol
        cases s with
        | nil => simp at hsol
        | cons a s => intro e; subst e; simp at hlen
      case h1 =>
        cases s with
        | nil => trivial
        | cons a s =>
          have hne : u ≠ [] := by intro e; subst e; simp at hlen
          simpa [endOK] using hdS_sepFree_cons hsf hne
      case h2 =>
        cases s with
        | nil => trivial
        | cons a s =>
          have hne : u ≠ [] := by intro e; subst e; simp at hlen
          simpa [endOK] using ltS_sepFree_cons hsf hne
      case h3 =>
        intro hsol
        cases s with
        | nil => simp at hsol
        | cons a s =>
          cases u with
          | nil => simp at hlen
          | cons b u => exact ⟨b, List.mem_cons_self .., (sepFree_cons.mp hsf).1⟩
      case h4 =>
        rw [show sp u = 0 from spGo_sepFree false hsf]
        cases s <;> rfl
  | cls hp =>
    rename_i sp' neg items ch
    cases hc
    simp only [classHolds, Bool.and_eq_true, bne_iff_ne, ne_eq] at hp
    have hch : (ch == '/') = false := by simpa using hp.1
    refine good_reg_leaf rfl rfl (by intro _; simp) ⟨fun _ => sepFree_cons.mpr ⟨hp.1, sepFree_nil⟩, ?_, ?_,
      (by intro h; cases h), fun _ => ⟨ch, List.mem_singleton.mpr rfl, hp.1⟩⟩ ?_
    · simp [endOK, hdS, hch]
    · simp [endOK, ltS, hch]
    · simp [sp, spGo, hp.1, leafTerm, Cls.termn, Termn.ofBools]
  | one hp =>
    rename_i sp' ch
    cases hc
    have hch : (ch == '/') = false := by simpa using hp
    refine good_reg_leaf rfl rfl (by intro _; simp) ⟨fun _ => sepFree_cons.mpr ⟨hp, sepFree_nil⟩, ?_, ?_,
      (by intro h; cases h), fun _ => ⟨ch, List.mem_singleton.mpr rfl, hp⟩⟩ ?_
    · simp [endOK, hdS, hch]
    · simp [endOK, ltS, hch]
    · simp [sp, spGo, hp, leafTerm, Cls.termn, Termn.ofBools]
  | zom hw =>
    cases hc
    refine good_reg_leaf rfl rfl (by intro h; cases h) ⟨fun _ => hw, trivial, trivial, (by intro h; cases h),
      (by intro h; cases h)⟩ ?_
    rw [show sp u = 0 from spGo_sepFree false hw]; rfl
  | sep =>
    cases hc
    refine good_reg_leaf rfl rfl (by intro _; simp) ⟨(fun h => by cases h), ?_, ?_, (by intro h; cases h),
      (by intro h; cases h)⟩ rfl
    · simp [endOK, hdS]
    · simp [endOK, ltS]
  | tree htl =>
    rename_i sp' hasRoot
    cases hc
    -- the padded text starts and ends with a separator
    have key : ∃ pl pr : Bool, (pl = true → c.first = true) ∧ (pr = true → c.last = true) ∧
        hdS (pad pl pr u) = some true ∧ ltS (pad pl pr u) = some true := by
      simp only [TreeLang] at htl
      by_cases hlast : c.last = true
      · simp only [hlast, ↓reduceIte] at htl
        by_cases hfirst : c.first = true
        · simp only [hfirst, ↓reduceIte] at htl
          refine ⟨true, true, fun _ => hfirst, fun _ => hlast, ?_, ?_⟩
          · simp [pad, hdS]
          · simp only [pad, ↓reduceIte]; rw [ltS_snoc]; rfl
        · simp only [hfirst, Bool.false_eq_true, ↓reduceIte] at htl
          refine ⟨false, true, by simp, fun _ => hlast, ?_, ?_⟩
          · rcases htl with rfl | ⟨r, rfl⟩ <;> simp [pad, hdS]
          · simp only [pad, Bool.false_eq_true, ↓reduceIte, List.nil_append]; rw [ltS_snoc]; rfl
      · simp only [hlast, Bool.false_eq_true, ↓reduceIte] at htl
        split at htl
        · obtain ⟨r, hst, rfl⟩ := htl
          refine ⟨false, false, by simp, by simp, by simp [pad, hdS], ?_⟩
          simp only [pad, Bool.false_eq_true, ↓reduceIte, List.nil_append, List.append_nil]
          by_cases hr : r = []
          · subst hr; rfl
          · have := star_compSep_lt hst hr
            have e : '/' :: r = ['/'] ++ r := rfl
            rw [e, ltS_append, this]; rfl
        · rename_i hcond
          have hfirst : c.first = true := by
            cases hcf : c.first <;> simp_all
          refine ⟨true, false, fun _ => hfirst, by simp, by simp [pad, hdS], ?_⟩
          simp only [pad, ↓reduceIte, Bool.false_eq_true, List.append_nil]
          by_cases hr : u = []
          · subst hr; rfl
          · have := star_compSep_lt htl hr
            have e : ['/'] ++ u = ['/'] ++ u := rfl
            rw [ltS_append, this]; rfl
    obtain ⟨pl, pr, h1, h2, h3, h4⟩ := key
    refine ⟨Cls.tree, List.mem_singleton.mpr rfl, pad pl pr u,
      ⟨pl, pr, fun h => ⟨h1 h, rfl⟩, fun h => ⟨h2 h, rfl⟩, rfl, (by intro h; cases h)⟩,
      ⟨(by intro h; cases h), h3, h4, fun _ => ⟨h3, h4⟩, (by intro h; cases h)⟩, fun _ => ?_,
      (by intro h; cases h)⟩
    simp [DTerm.terms, leafTerm]
  | alt _ _ => cases hc
  | rep _ _ _ => cases hc
  | cat _ => cases hc

/-! ### the induction over matches -/

def RepGood (c : Ctx) (Z : List Cls) (D : DTerm) (n : Nat) (u : Str) : Prop :=
  ∃ cl ∈ Z, ∃ u', Padded c cl u u' ∧ RealP cl u' ∧
    (∃ t ∈ D.terms, t.t = cl.termn ∧ ∃ k1, n * k1 + b2n cl.slack ≤ sp u' ∧ NVar.mem k1 t.v) ∧
    (∃ t ∈ D.terms, t.t = cl.termn ∧ ∃ k2, sp u' ≤ n * k2 ∧ NVar.mem k2 t.v)

theorem ctx_eta (c : Ctx) : (⟨c.first, c.last⟩ : Ctx) = c := by cases c; rfl

theorem noDbl_left {u v : Str} (h : noDbl (u ++ v) = true) : noDbl u = true := by
  rw [noDbl_append] at h
  simp only [Bool.and_eq_true] at h
  exact h.1.1

theorem noDbl_right {u v : Str} (h : noDbl (u ++ v) = true) : noDbl v = true := by
  rw [noDbl_append] at h
  simp only [Bool.and_eq_true] at h
  exact h.1.2

mutual
  theorem sm_good (σ : Sem) (hσ : SepIsolated σ) (can : Bool) : ∀ {c : Ctx} {t : Tok} {u : Str},
      SM σ c t u → (can = true → noDbl u = true) →
      ∀ (C : List Cls) (x : Option DTerm), clsT can t = some C → depthTok t = .ok x →
      ∃ D, x = some D ∧ Good c C D u
    | c, _, _, .lit hl, _, C, x, hc, hd => by
      simp only [clsT, Option.map_eq_some_iff] at hc
      obtain ⟨cl, hcl, rfl⟩ := hc
      simp only [depthTok] at hd; cases hd
      exact ⟨_, rfl, leaf_good σ hσ (c := c) (.lit hl) hcl⟩
    | c, _, _, .sep, _, C, x, hc, hd => by
      simp only [clsT, Option.map_eq_some_iff] at hc
      obtain ⟨cl, hcl, rfl⟩ := hc
      simp only [depthTok] at hd; cases hd
      exact ⟨_, rfl, leaf_good σ hσ (c := c) .sep hcl⟩
    | c, _, _, .cls hp, _, C, x, hc, hd => by
      simp only [clsT, Option.map_eq_some_iff] at hc
      obtain ⟨cl, hcl, rfl⟩ := hc
      simp only [depthTok] at hd; cases hd
      exact ⟨_, rfl, leaf_good σ hσ (c := c) (.cls hp) hcl⟩
    | c, _, _, .one hp, _, C, x, hc, hd => by
      simp only [clsT, Option.map_eq_some_iff] at hc
      obtain ⟨cl, hcl, rfl⟩ := hc
      simp only [depthTok] at hd; cases hd
      exact ⟨_, rfl, leaf_good σ hσ (c := c) (.one hp) hcl⟩
    | c, _, _, .zom hw, _, C, x, hc, hd => by
      simp only [clsT, Option.map_eq_some_iff] at hc
      obtain ⟨cl, hcl, rfl⟩ := hc
      simp only [depthTok] at hd; cases hd
      exact ⟨_, rfl, leaf_good σ hσ (c := c) (.zom hw) hcl⟩
    | c, _, _, .tree htl, _, C, x, hc, hd => by
      simp only [clsT, Option.map_eq_some_iff] at hc
      obtain ⟨cl, hcl, rfl⟩ := hc
      simp only [depthTok] at hd; cases hd
      exact ⟨_, rfl, leaf_good σ hσ (c := c) (.tree htl) hcl⟩
    | c, _, _, .alt (bs := bs) (b := b) hb hm, hnd, C, x, hc, hd => by
      simp only [clsT] at hc
      cases hcs : clsTs can bs with
      | none => simp [hcs] at hc
      | some Cs =>
        simp only [hcs] at hc
        simp only [depthTok] at hd
        obtain ⟨Ds, hDs, hd⟩ := bind_ok hd
        obtain ⟨Cb, hCb, hCbm⟩ := clsTs_mem hcs b hb
        obtain ⟨xb, hxb, hxm⟩ := depthAll_mem hDs b hb
        obtain ⟨Db, hDbe, gb⟩ := sms_cat σ hσ can hm hnd Cb xb (catCls_concatenation hCb)
          (catDepth_concatenation hxb)
        have hDb := hxm Db hDbe
        cases Ds with
        | nil => cases hDb
        | cons X Xs =>
          simp only [reduceP] at hd
          obtain ⟨R, hR, hd⟩ := bind_ok hd
          cases hd
          refine ⟨R, rfl, ?_⟩
          have hsub : ∀ t ∈ Db.terms, t ∈ R.terms := by
            intro t ht
            rw [foldlP_disj_terms Xs X R hR t]
            rcases List.mem_cons.mp hDb with rfl | h
            · exact .inl ht
            · exact .inr ⟨Db, h, ht⟩
          obtain ⟨cl, hcl, u', hp, hr, hto⟩ := gb
          refine ⟨cl, unionAll_mem hc hCbm hcl, u', hp, hr, fun h => hsub _ (hto.1 h), fun h => ?_⟩
          obtain ⟨⟨t1, ht1, r1⟩, ⟨t2, ht2, r2⟩⟩ := hto.2 h
          exact ⟨⟨t1, hsub t1 ht1, r1⟩, ⟨t2, hsub t2 ht2, r2⟩⟩
    | c, _, _, .rep (body := body) (lo := lo) (hi := hi) (n := n) h1 h2 h3, hnd, C, x, hc, hd => by
      simp only [clsT] at hc
      cases hcb : clsT can body with
      | none => simp [hcb] at hc
      | some Cb =>
        simp only [hcb] at hc
        obtain ⟨Z, hZ, hsubZ, hzero, _⟩ := repClsLo_spec hc
        have hz := repCls_spec hZ
        simp only [depthTok] at hd
        obtain ⟨xb, hxb, hd⟩ := bind_ok hd
        obtain ⟨hrw, hrm⟩ := fco_mem h1 h2
        by_cases hn0 : n = 0
        · -- zero iterations: the empty text
          subst hn0
          have hlo0 : lo = 0 := by omega
          obtain ⟨heps, hopen⟩ := hzero hlo0
          cases h3
          unfold openTerm at hopen
          rw [hxb] at hopen
          cases xb with
          | none => simp at hopen
          | some Db =>
            simp only [List.any_eq_true, decide_eq_true_eq] at hopen
            obtain ⟨t, ht, hto⟩ := hopen
            simp only at hd
            obtain ⟨R, hR, hd⟩ := bind_ok hd
            cases hd
            refine ⟨R, rfl, epsC, heps, [], ⟨false, false, by simp, by simp, rfl,
              (by intro h; cases h)⟩, ⟨fun _ => sepFree_nil, trivial, trivial,
              (by intro h; cases h), (by intro h; cases h)⟩, (by intro h; cases h), fun _ => ?_⟩
            have hwf := depthTok_wf body Db hxb
            obtain ⟨k, hk⟩ := NVar.wf_nonempty (hwf t ht)
            obtain ⟨v, hv, hmem⟩ := (DTerm.prod_terms hR).1 t ht
            have hm0 := (NVar.prod_back (hwf t ht) hrw hv).2 k 0 hk hrm
            rw [Nat.mul_zero] at hm0
            have htm : epsC.termn = Termn.open_ := rfl
            exact ⟨⟨_, hmem, by rw [htm]; exact hto, 0, by simp [epsC, b2n, sp, spGo], hm0⟩,
              ⟨_, hmem, by rw [htm]; exact hto, 0, by simp [sp, spGo], hm0⟩⟩
        · have hn : 1 ≤ n := by omega
          obtain ⟨Db, hDbe, rg⟩ := srep_good σ hσ can h3 hnd hn Cb xb Z
            (catCls_concatenation hcb) (catDepth_concatenation hxb) hz
          subst hDbe
          simp only at hd
          obtain ⟨R, hR, hd⟩ := bind_ok hd
          cases hd
          refine ⟨R, rfl, ?_⟩
          have hwf := depthTok_wf body Db hxb
          obtain ⟨cl, hcl, u', hp, hr, ⟨t1, ht1, e1, k1, hk1, m1⟩, ⟨t2, ht2, e2, k2, hk2, m2⟩⟩ := rg
          have hnc := hz.nocoal cl hcl
          refine ⟨cl, hsubZ cl hcl, u', hp, hr, (by intro h; rw [hnc] at h; cases h),
            fun _ => ⟨?_, ?_⟩⟩
          · obtain ⟨v, hv, hmem⟩ := (DTerm.prod_terms hR).1 t1 ht1
            exact ⟨_, hmem, e1, k1 * n, by rw [Nat.mul_comm]; exact hk1,
              (NVar.prod_back (hwf t1 ht1) hrw hv).2 k1 n m1 hrm⟩
          · obtain ⟨v, hv, hmem⟩ := (DTerm.prod_terms hR).1 t2 ht2
            exact ⟨_, hmem, e2, k2 * n, by rw [Nat.mul_comm]; exact hk2,
              (NVar.prod_back (hwf t2 ht2) hrw hv).2 k2 n m2 hrm⟩
    | c, _, _, .cat h, hnd, C, x, hc, hd => by
      exact sms_cat σ hσ can h hnd C x (by simpa only [clsT, catCls] using hc)
        (by simpa only [depthTok, catDepth] using hd)
  theorem sms_cat (σ : Sem) (hσ : SepIsolated σ) (can : Bool) : ∀ {c : Ctx} {ts : List Tok}
      {u : Str}, SMs σ c ts u → (can = true → noDbl u = true) →
      ∀ (C : List Cls) (x : Option DTerm), catCls can ts = some C →
      catDepth ts = .ok x → ∃ D, x = some D ∧ Good c C D u
    | _, _, _, .nil, _, C, x, hc, _ => by simp [catCls, clsTs, foldMul] at hc
    | c, _, _, .cons (t := t) (ts := ts) (u := u1) (v := u2) hu hv, hnd, C, x, hc, hd => by
      simp only [catCls, clsTs] at hc
      cases hct : clsT can t with
      | none => simp [hct] at hc
      | some Ct =>
        cases hcs : clsTs can ts with
        | none => simp [hct, hcs] at hc
        | some Cs =>
          simp only [hct, hcs, foldMul] at hc
          simp only [catDepth, depthAll] at hd
          obtain ⟨Ds0, hDs0, hd⟩ := bind_ok hd
          obtain ⟨xt, hxt, hDs0⟩ := bind_ok hDs0
          obtain ⟨Ds, hDs, hDs0⟩ := bind_ok hDs0
          cases hDs0
          obtain ⟨Dt, hDte, gt⟩ := sm_good σ hσ can hu (fun h => noDbl_left (hnd h)) Ct xt hct hxt
          subst hDte
          simp only [reduceP] at hd
          obtain ⟨R, hR, hd⟩ := bind_ok hd
          cases hd
          have := sms_acc σ hσ can hv rfl Cs Ds hcs hDs c.first (c.last && ts.isEmpty) Ct Dt u1 C R
            (by
              intro h
              simp only [Bool.and_eq_true, List.isEmpty_iff] at h
              exact ⟨h.2, h.1⟩)
            hnd (depthTok_wf t Dt hxt) gt hc hR
          rw [ctx_eta] at this
          exact ⟨R, rfl, this⟩
  theorem sms_acc (σ : Sem) (hσ : SepIsolated σ) (can : Bool) : ∀ {c : Ctx} {ts : List Tok}
      {u : Str}, SMs σ c ts u → c.first = false → ∀ (Cs : List (List Cls)) (Ds : List DTerm),
      clsTs can ts = some Cs → depthAll ts = .ok Ds →
      ∀ (f la : Bool) (Cacc : List Cls) (A : DTerm) (a : Str) (C : List Cls) (R : DTerm),
      (la = true → ts = [] ∧ c.last = true) → (can = true → noDbl (a ++ u) = true) →
      AllWf A → Good ⟨f, la⟩ Cacc A a → foldMulGo can Cacc Cs = some C →
      foldlP DTerm.conj A Ds = .ok R → Good ⟨f, c.last⟩ C R (a ++ u)
    | c, _, _, .nil, _, Cs, Ds, hcs, hDs, f, la, Cacc, A, a, C, R, hla, _, hA, ga, hf, hR => by
      simp only [clsTs] at hcs; cases hcs
      simp only [depthAll] at hDs; cases hDs
      simp only [foldMulGo] at hf; cases hf
      simp only [foldlP] at hR; cases hR
      rw [List.append_nil]
      exact ga.mono (fun h => h) (fun h => (hla h).2)
    | c, _, _, .cons (t := t) (ts := ts) (u := u1) (v := u2) hu hv, hcf, Cs, Ds, hcs, hDs, f, la,
        Cacc, A, a, C, R, hla, hnd, hA, ga, hf, hR => by
      have hla' : la = false := by
        cases la with
        | false => rfl
        | true => have := (hla rfl).1; cases this
      subst hla'
      simp only [clsTs] at hcs
      cases hct : clsT can t with
      | none => simp [hct] at hcs
      | some Ct =>
        cases hcs' : clsTs can ts with
        | none => simp [hct, hcs'] at hcs
        | some Cs' =>
          simp only [hct, hcs', Option.some.injEq] at hcs
          subst hcs
          simp only [depthAll] at hDs
          obtain ⟨xt, hxt, hDs⟩ := bind_ok hDs
          obtain ⟨Ds', hDs', hDs⟩ := bind_ok hDs
          cases hDs
          have hnd' : can = true → noDbl ((a ++ u1) ++ u2) = true := by
            intro h; rw [List.append_assoc]; exact hnd h
          obtain ⟨Dt, hDte, gt⟩ := sm_good σ hσ can hu
            (fun h => noDbl_right (noDbl_left (hnd' h))) Ct xt hct hxt
          subst hDte
          simp only [foldMulGo] at hf
          cases hm : mulAll can Cacc Ct with
          | none => simp [hm] at hf
          | some C' =>
            simp only [hm] at hf
            simp only [foldlP] at hR
            obtain ⟨A', hA', hR⟩ := bind_ok hR
            have hDt := depthTok_wf t Dt hxt
            have g' := conj_good (ca := ⟨f, false⟩) (cb := ⟨c.first, c.last && ts.isEmpty⟩) rfl hcf
              hA hDt ga gt hm hA' (fun h => noDbl_left (hnd' h))
            have := sms_acc σ hσ can hv rfl Cs' Ds' hcs' hDs' f (c.last && ts.isEmpty) C' A'
              (a ++ u1) C R
              (by
                intro h
                simp only [Bool.and_eq_true, List.isEmpty_iff] at h
                exact ⟨h.2, h.1⟩)
              hnd' (DTerm.conj_wf hA hDt hA') g' hf hR
            simpa [List.append_assoc] using this
  theorem srep_good (σ : Sem) (hσ : SepIsolated σ) (can : Bool) : ∀ {c : Ctx} {ts : List Tok}
      {n : Nat} {u : Str}, SRep σ c ts n u → (can = true → noDbl u = true) → 1 ≤ n →
      ∀ (Cb : List Cls) (x : Option DTerm) (Z : List Cls),
      catCls can ts = some Cb → catDepth ts = .ok x → ClosedC can Cb Z →
      ∃ D, x = some D ∧ RepGood c Z D n u
    | _, _, _, _, .zero, _, hn, _, _, _, _, _, _ => by omega
    | c, _, _, _, .one h, hnd, _, Cb, x, Z, hc, hd, hz => by
      obtain ⟨D, hDe, cl, hcl, u', hp, hr, hto⟩ := sms_cat σ hσ can h hnd Cb x hc hd
      have hzc := hz.sub cl hcl
      obtain ⟨⟨t1, ht1, e1, k1, hk1, m1⟩, ⟨t2, ht2, e2, k2, hk2, m2⟩⟩ := hto.2 (hz.nocoal cl hzc)
      exact ⟨D, hDe, cl, hzc, u', hp, hr, ⟨t1, ht1, e1, k1, by omega, m1⟩,
        ⟨t2, ht2, e2, k2, by omega, m2⟩⟩
    | c, _, _, _, .more (n := n) (u := u) (v := v) hu hv, hnd, _, Cb, x, Z, hc, hd, hz => by
      obtain ⟨D, hDe, ca, hca, a', pa, ra, hto⟩ :=
        sms_cat σ hσ can hu (fun h => noDbl_left (hnd h)) Cb x hc hd
      subst hDe
      have hza := hz.sub ca hca
      obtain ⟨⟨t1, ht1, e1, k1, hk1, m1⟩, ⟨t2, ht2, e2, k2, hk2, m2⟩⟩ := hto.2 (hz.nocoal ca hza)
      obtain ⟨D', hD', cb, hcb, v', pb, rb, ⟨s1, hs1, f1, j1, hj1, n1⟩, ⟨s2, hs2, f2, j2, hj2, n2⟩⟩ :=
        srep_good σ hσ can hv (fun h => noDbl_right (hnd h)) (by omega) Cb (some D) Z hc hd hz
      cases hD'
      obtain ⟨hvalX, hmem⟩ := hz.mul ca hca cb hcb
      have hval' : ca.valid cb = true ∨
          (ca.coal = false ∧ cb.coal = false ∧ ¬(ltS a' = some true ∧ hdS v' = some true)) := by
        rcases validX_cases hvalX with h | ⟨h1, h2, h3, h4, h5⟩
        · exact .inl h
        · exact .inr ⟨h2, h3, junction_of_noDbl (ca := ⟨c.first, false⟩) (cb := ⟨false, c.last⟩)
            rfl rfl pa pb h4 h5 (hnd h1)⟩
      obtain ⟨rm, hsp⟩ := RealP.mul ra rb hval'
      have hpm : Padded c (ca.mul cb) (u ++ v) (a' ++ v') := by
        have := Padded.mul (ca := ⟨c.first, false⟩) (cb := ⟨false, c.last⟩) rfl rfl pa pb
        exact this.mono (fun h => h) (fun h => h)
      refine ⟨D, rfl, ca.mul cb, hmem, a' ++ v', hpm, rm, ?_, ?_⟩
      · have hsl : (ca.mul cb).slack = (ca.slack || cb.slack) :=
          (mul_termn_reg (hz.nocoal ca hza) (hz.nocoal cb hcb)).2.1
        have hb : b2n (ca.slack || cb.slack) ≤ b2n ca.slack + b2n cb.slack := by
          cases ca.slack <;> cases cb.slack <;> simp [b2n]
        by_cases hle : k1 ≤ j1
        · refine ⟨t1, ht1, by rw [e1]; exact hz.uni _ hza _ hmem, k1, ?_, m1⟩
          rw [hsp, succ_succ_mul, hsl]
          have : (n + 1) * k1 ≤ (n + 1) * j1 := Nat.mul_le_mul_left _ hle
          omega
        · refine ⟨s1, hs1, by rw [f1]; exact hz.uni _ hcb _ hmem, j1, ?_, n1⟩
          rw [hsp, succ_succ_mul, hsl]
          omega
      · by_cases hle : j2 ≤ k2
        · refine ⟨t2, ht2, by rw [e2]; exact hz.uni _ hza _ hmem, k2, ?_, m2⟩
          rw [hsp, succ_succ_mul]
          have : (n + 1) * j2 ≤ (n + 1) * k2 := Nat.mul_le_mul_left _ hle
          omega
        · refine ⟨s2, hs2, by rw [f2]; exact hz.uni _ hcb _ hmem, j2, ?_, n2⟩
          rw [hsp, succ_succ_mul]
          omega
end

/-! ### the theorems -/

theorem finalOK_ends {cl : Cls} {w : Str} (hc : cl.coal = false) (hf : cl.finalOK = true)
    (hr : RealP cl w) :
    hdS w = some (decide (cl.l = .E)) ∧ ltS w = some (decide (cl.r = .E)) := by
  obtain ⟨c, p, l, r⟩ := cl
  obtain ⟨_, h3, h4, _⟩ := hr
  simp only at hc
  subst hc
  cases l <;> cases r <;> simp [Cls.finalOK] at hf <;> simp only [endOK] at h3 h4 <;>
    simp [h3, h4]

theorem fin_closed_cases {v f : NVar}
    (h : (⟨Termn.ofBools true true, v⟩ : SepTerm).finalize = .ok f) :
    (∃ n, v = .inv n ∧ f = .inv (n - 1)) ∨ (NVar.isInv v = false ∧ f = v) := by
  simp only [SepTerm.finalize, Termn.ofBools] at h
  cases v with
  | inv n => cases h; exact .inl ⟨n, rfl, rfl⟩
  | unb => cases h; exact .inr ⟨rfl, rfl⟩
  | bnd r => cases h; exact .inr ⟨rfl, rfl⟩

/-- the detailed form, about any concatenation, in any context -/
theorem depth_sound_bt_core (σ : Sem) (hσ : SepIsolated σ) (can : Bool) (ts : List Tok)
    (C : List Cls) (hC : catCls can ts = some C) (D : DTerm)
    (hD : catDepth ts = .ok (some D))
    (hclosed : ∀ cl ∈ C, Cls.closed cl = true → cl.slack = true ∨ closedInv D = true)
    (v : NVar) (hv : D.finalize = .ok v) (c : Ctx) (w : Str)
    (hfin : ∀ cl ∈ C, cl.coal = false → ∀ w', Padded c cl w w' → RealP cl w' →
      hdS w' = some (decide (cl.l = .E)) ∧ ltS w' = some (decide (cl.r = .E)))
    (hw : SMs σ c ts w) (hnd : can = true → noDbl w = true) : v.mem (depthOf w) := by
  obtain ⟨D', hD', cl, hcl, w', hp, hr, hto⟩ := sms_cat σ hσ can hw hnd C (some D) hC hD
  cases hD'
  have hdw : depthOf w' = depthOf w := by
    obtain ⟨pl, pr, _, _, rfl, _⟩ := hp
    exact depthOf_pad pl pr w
  rw [← hdw]
  have hwf : AllWf D := by
    intro t ht
    unfold catDepth at hD
    obtain ⟨Ds, hDs, hD⟩ := bind_ok hD
    have hall := depthAll_wf ts Ds hDs
    cases Ds with
    | nil => cases hD
    | cons X Xs =>
      simp only [reduceP] at hD
      obtain ⟨R, hR, hD⟩ := bind_ok hD
      cases hD
      exact foldlP_conj_wf Xs X D (hall X (List.mem_cons_self ..))
        (fun z hz => hall z (List.mem_cons_of_mem _ hz)) hR t ht
  by_cases hcc : cl.coal = true
  · -- a lone tree wildcard: the fold reports "unbounded"
    obtain ⟨f, hf, s⟩ := DTerm.finalize_sup hwf hv _ (hto.1 hcc)
    simp only [SepTerm.finalize] at hf
    cases hf
    exact s _ trivial
  · have hcc' : cl.coal = false := by simpa using hcc
    obtain ⟨⟨t1, ht1, e1, k1, hk1, m1⟩, ⟨t2, ht2, e2, k2, hk2, m2⟩⟩ := hto.2 hcc'
    rw [termn_of_not_coal hcc'] at e1 e2
    obtain ⟨hh, hl⟩ := hfin cl hcl hcc' w' hp hr
    have hdep := depthOf_sp hh hl
    obtain ⟨f1, hf1, s1⟩ := DTerm.finalize_sup hwf hv t1 ht1
    obtain ⟨f2, hf2, s2⟩ := DTerm.finalize_sup hwf hv t2 ht2
    have hb : b2n cl.slack ≤ 1 := by cases cl.slack <;> simp [b2n]
    by_cases hne : (decide (cl.l = .E) && decide (cl.r = .E)) = false
    · have g1 := fin_mem hne (hwf t1 ht1) (by rw [sepTerm_eta e1]; exact hf1) m1
      have g2 := fin_mem hne (hwf t2 ht2) (by rw [sepTerm_eta e2]; exact hf2) m2
      exact NVar.convex (s1 _ g1) (s2 _ g2) (by omega) (by omega)
    · have hcl' : cl.closed = true := by
        simp only [Bool.not_eq_false] at hne
        simp only [Cls.closed, hcc', Bool.not_false, Bool.true_and]
        exact hne
      have hci := hclosed cl hcl hcl'
      simp only [Cls.closed, hcc', Bool.not_false, Bool.true_and, Bool.and_eq_true] at hcl'
      rw [hcl'.1, hcl'.2] at e1 e2 hdep
      simp only [b2n, ↓reduceIte] at hdep
      -- the lower side
      have lo : ∃ x, x ≤ depthOf w' ∧ f1.mem x := by
        rcases fin_closed_cases (by rw [sepTerm_eta e1]; exact hf1) with ⟨n1, hn1, hf⟩ | ⟨hni, hf⟩
        · rw [hn1] at m1
          simp only [NVar.mem] at m1
          subst m1
          exact ⟨k1 - 1, by omega, by rw [hf]; rfl⟩
        · rcases hci with hs | hci
          · rw [hs] at hk1
            simp only [b2n, ↓reduceIte] at hk1
            exact ⟨k1, by omega, by rw [hf]; exact m1⟩
          · exfalso
            simp only [closedInv, List.all_eq_true, Bool.or_eq_true, decide_eq_true_eq] at hci
            rcases hci t1 ht1 with h | h
            · exact h e1
            · rw [hni] at h; cases h
      have hi : ∃ x, depthOf w' ≤ x ∧ f2.mem x := by
        rcases fin_closed_cases (by rw [sepTerm_eta e2]; exact hf2) with ⟨n2, hn2, hf⟩ | ⟨hni, hf⟩
        · rw [hn2] at m2
          simp only [NVar.mem] at m2
          subst m2
          exact ⟨k2 - 1, by omega, by rw [hf]; rfl⟩
        · exact ⟨k2, by omega, by rw [hf]; exact m2⟩
      obtain ⟨x1, hx1, g1⟩ := lo
      obtain ⟨x2, hx2, g2⟩ := hi
      exact NVar.convex (s1 _ g1) (s2 _ g2) hx1 hx2

/-- **C10 on patterns with branches and tree wildcards, any path, any context**
(`depth_sound_branch_tree`): on the fragment `branchTreeOk`, whenever the general fold
`depthVariance` returns a value, every path the pattern matches — canonical or not — has a number of
components in the set that value denotes. -/
theorem depth_sound_branch_tree (σ : Sem) (hσ : SepIsolated σ) (t : Tok)
    (hok : branchTreeOk t = true) (v : NVar) (hv : depthVariance t = .ok v) (c : Ctx) (w : Str)
    (hw : SMs σ c t.concatenation w) : v.mem (depthOf w) := by
  unfold branchTreeOk at hok
  cases hC : clsT false t with
  | none => simp [hC] at hok
  | some C =>
    simp only [hC, Bool.and_eq_true, List.all_eq_true] at hok
    unfold depthVariance at hv
    obtain ⟨x, hx, hv⟩ := bind_ok hv
    obtain ⟨D, hDe, _⟩ := sms_cat σ hσ false hw (by intro h; cases h) C x
      (catCls_concatenation hC) (catDepth_concatenation hx)
    subst hDe
    refine depth_sound_bt_core σ hσ false t.concatenation C (catCls_concatenation hC) D
      (catDepth_concatenation hx) ?_ v hv c w
      (fun cl hcl hcc w' _ hr => finalOK_ends hcc (hok.1 cl hcl) hr) hw (by intro h; cases h)
    intro cl hcl hcc
    have h2 := hok.2
    rw [hx] at h2
    simp only [Bool.or_eq_true, List.all_eq_true, Bool.not_eq_true'] at h2
    rcases h2 with h2 | h2
    · rcases h2 cl hcl with h | h
      · rw [hcc] at h; cases h
      · exact .inl h
    · exact .inr h2

/-! ### canonical paths: a run that can match `""` may end the pattern -/

/-- a class that a whole pattern may have when only paths without trailing separator are
considered: the right end may be a run that can match `""` (`a/*`, `a/**/*`), provided the text
surely contains a non-separator (so that it is not `/`) -/
def Cls.finalOKc (c : Cls) : Bool :=
  c.coal || (decide (c.l ≠ .W) && (decide (c.r ≠ .W) || decide (c.l = .S) || c.solid))

/-- **the fragment with branches and tree wildcards, for canonical paths** (`clsT true`: texts
without `//`, so a run that can match `""` may stand between two real separators: `a/*/b`) -/
def branchTreeOkC (t : Tok) : Bool :=
  match clsT true t with
  | some C => C.all Cls.finalOKc &&
      (C.all (fun c => !c.closed || c.slack) ||
        (match depthTok t with | .ok (some D) => closedInv D | _ => true))
  | none => false

theorem finalOKc_of_finalOK {c : Cls} (h : c.finalOK = true) : c.finalOKc = true := by
  unfold Cls.finalOK at h
  unfold Cls.finalOKc
  cases hc : c.coal
  · simp only [hc, Bool.false_or, Bool.and_eq_true, decide_eq_true_eq] at h
    simp [h.1, h.2]
  · rfl

theorem ltS_of_not_endsSep : ∀ (w : Str), w ≠ [] → endsSep w = false → ltS w = some false
  | [], h, _ => absurd rfl h
  | [c], _, h => by simpa [endsSep, ltS] using h
  | c :: d :: w, _, h => by
    have h' : endsSep (d :: w) = false := by simpa [endsSep] using h
    have := ltS_of_not_endsSep (d :: w) (by simp) h'
    simp only [ltS] at this ⊢
    cases hl : ltS w <;> simp [hl] at this ⊢ <;> exact this

theorem finalOKc_ends {c : Ctx} {cl : Cls} {w w' : Str} (hc : cl.coal = false)
    (hf : cl.finalOKc = true) (hp : Padded c cl w w') (hr : RealP cl w')
    (hcan : trailingOk w = true) :
    hdS w' = some (decide (cl.l = .E)) ∧ ltS w' = some (decide (cl.r = .E)) := by
  by_cases hrW : cl.r = .W
  · -- the right end is a run that can match `""`
    simp only [Cls.finalOKc, hc, Bool.false_or, hrW, Bool.and_eq_true, Bool.or_eq_true,
      decide_eq_true_eq] at hf
    obtain ⟨hl, hs⟩ := hf
    obtain ⟨pl, pr, h1, h2, rfl, _⟩ := hp
    have epr : pr = false := by
      cases pr with
      | false => rfl
      | true => have := (h2 rfl).2; rw [hrW] at this; cases this
    subst epr
    obtain ⟨_, h3, _, _, h6⟩ := hr
    have hhd : hdS (pad pl false w) = some (decide (cl.l = .E)) := by
      cases hcl : cl.l with
      | E => rw [hcl] at h3; simpa [endOK] using h3
      | S => rw [hcl] at h3; simpa [endOK] using h3
      | W => exact absurd hcl (by simpa using hl)
    -- the text contains a non-separator
    have hns : ∃ ch ∈ w, ch ≠ '/' := by
      have : ∃ ch ∈ pad pl false w, ch ≠ '/' := by
        rcases hs with (h | h) | h
        · simp at h
        · rw [h] at hhd
          cases hw' : pad pl false w with
          | nil => rw [hw'] at hhd; simp [hdS] at hhd
          | cons a x =>
            rw [hw'] at hhd
            simp only [hdS, Option.some.injEq] at hhd
            exact ⟨a, List.mem_cons_self .., by simpa using hhd⟩
        · exact h6 h
      obtain ⟨ch, hm, hne⟩ := this
      cases pl <;> simp [pad] at hm
      · exact ⟨ch, hm, hne⟩
      · rcases hm with rfl | hm
        · exact absurd rfl hne
        · exact ⟨ch, hm, hne⟩
    obtain ⟨ch, hm, hne⟩ := hns
    have hw0 : w ≠ [] := by intro e; subst e; cases hm
    have hw1 : w ≠ ['/'] := by
      intro e; subst e
      simp only [List.mem_singleton] at hm
      exact hne hm
    have hes : endsSep w = false := by
      simp only [trailingOk, Bool.or_eq_true, Bool.not_eq_true', decide_eq_true_eq] at hcan
      rcases hcan with h | h
      · exact h
      · exact absurd h hw1
    have hlt := ltS_of_not_endsSep w hw0 hes
    refine ⟨hhd, ?_⟩
    have e : pad pl false w = (if pl then ['/'] else []) ++ w := by simp [pad]
    rw [e, ltS_append, hlt, hrW]
    simp
  · have hf' : cl.finalOK = true := by
      simp only [Cls.finalOKc, hc, Bool.false_or, Bool.and_eq_true, Bool.or_eq_true,
        decide_eq_true_eq] at hf
      simp only [Cls.finalOK, hc, Bool.false_or, Bool.and_eq_true, decide_eq_true_eq]
      exact ⟨hf.1, hrW⟩
    exact finalOK_ends hc hf' hr

/-- **C10 on patterns with branches and tree wildcards, paths without trailing separator**
(`depth_sound_branch_tree_canonical`): on the larger fragment `branchTreeOkC` — the pattern may end
with a run that can match `""`: `a/*`, `{a,b}/**/*` — every matched path that has no trailing
separator (or is `/`), in particular every canonical path, has a number of components in the set the
fold reports. -/
theorem noDbl_eq_noDoubleSep : ∀ (w : Str), noDbl w = noDoubleSep w
  | [] => rfl
  | c :: w => by
    simp only [noDbl, noDoubleSep, noDbl_eq_noDoubleSep w]
    cases w with
    | nil => simp [hdS]
    | cons d w => simp [hdS]

theorem depth_sound_branch_tree_canonical (σ : Sem) (hσ : SepIsolated σ) (t : Tok)
    (hok : branchTreeOkC t = true) (v : NVar) (hv : depthVariance t = .ok v) (c : Ctx) (w : Str)
    (hw : SMs σ c t.concatenation w) (hcan : canonicalPath w = true) : v.mem (depthOf w) := by
  simp only [canonicalPath, Bool.and_eq_true] at hcan
  have hnd : noDbl w = true := by rw [noDbl_eq_noDoubleSep]; exact hcan.1
  have hcan := hcan.2
  unfold branchTreeOkC at hok
  cases hC : clsT true t with
  | none => simp [hC] at hok
  | some C =>
    simp only [hC, Bool.and_eq_true, List.all_eq_true] at hok
    unfold depthVariance at hv
    obtain ⟨x, hx, hv⟩ := bind_ok hv
    obtain ⟨D, hDe, _⟩ := sms_cat σ hσ true hw (fun _ => hnd) C x (catCls_concatenation hC)
      (catDepth_concatenation hx)
    subst hDe
    refine depth_sound_bt_core σ hσ true t.concatenation C (catCls_concatenation hC) D
      (catDepth_concatenation hx) ?_ v hv c w
      (fun cl hcl hcc w' hp hr => finalOKc_ends hcc (hok.1 cl hcl) hp hr hcan) hw (fun _ => hnd)
    intro cl hcl hcc
    have h2 := hok.2
    rw [hx] at h2
    simp only [Bool.or_eq_true, List.all_eq_true, Bool.not_eq_true'] at h2
    rcases h2 with h2 | h2
    · rcases h2 cl hcl with h | h
      · rw [hcc] at h; cases h
      · exact .inl h
    · exact .inr h2

/-! the canonical fragment contains the other one -/

theorem validX_mono {a b : Cls} (h : a.validX false b = true) : a.validX true b = true := by
  unfold Cls.validX at h ⊢
  simp only [Bool.false_and, Bool.or_false] at h
  simp [h]

theorem mulAll_mono {A B C : List Cls} (h : mulAll false A B = some C) :
    mulAll true A B = some C := by
  unfold mulAll at h ⊢
  split at h
  · rename_i hall
    cases h
    simp only [List.all_eq_true] at hall
    have : (A.all fun a => B.all fun b => a.validX true b) = true := by
      simp only [List.all_eq_true]
      exact fun a ha b hb => validX_mono (hall a ha b hb)
    simp [this]
  · cases h

theorem foldMulGo_mono : ∀ (Cs : List (List Cls)) (acc C : List Cls),
    foldMulGo false acc Cs = some C → foldMulGo true acc Cs = some C
  | [], acc, C, h => h
  | c :: cs, acc, C, h => by
    simp only [foldMulGo] at h ⊢
    cases hm : mulAll false acc c with
    | none => simp [hm] at h
    | some acc' =>
      simp only [hm] at h
      simp only [mulAll_mono hm]
      exact foldMulGo_mono cs acc' C h

theorem closeGo_mono : ∀ (k : Nat) (C X Z : List Cls), closeGo false k C X = some Z →
    closeGo true k C X = some Z
  | 0, C, X, Z, h => by
    simp only [closeGo] at h ⊢
    cases hm : mulAll false C X with
    | none => simp [hm] at h
    | some Y => simp only [hm] at h; simp only [mulAll_mono hm]; exact h
  | k + 1, C, X, Z, h => by
    simp only [closeGo] at h ⊢
    cases hm : mulAll false C X with
    | none => simp [hm] at h
    | some Y =>
      simp only [hm] at h
      simp only [mulAll_mono hm]
      exact closeGo_mono k C _ Z h

theorem repCls_mono {C Z : List Cls} (h : repCls false C = some Z) : repCls true C = some Z := by
  unfold repCls at h ⊢
  split at h
  · cases h
  · rename_i hc
    simp only [hc, Bool.false_eq_true, ↓reduceIte]
    cases hg : closeGo false 6 C C with
    | none => simp [hg] at h
    | some Z' => simp only [hg] at h; simp only [closeGo_mono 6 C C Z' hg]; exact h

mutual
  theorem clsT_mono : ∀ (t : Tok) (C : List Cls), clsT false t = some C → clsT true t = some C
    | .cat _ ts, C, h => by
      simp only [clsT] at h ⊢
      cases hcs : clsTs false ts with
      | none => simp [hcs] at h
      | some cs =>
        simp only [hcs] at h
        simp only [clsTs_mono ts cs hcs]
        cases cs with
        | nil => exact h
        | cons c cs => exact foldMulGo_mono cs c C h
    | .alt _ bs, C, h => by
      simp only [clsT] at h ⊢
      cases hcs : clsTs false bs with
      | none => simp [hcs] at h
      | some cs =>
        simp only [hcs] at h
        simp only [clsTs_mono bs cs hcs]
        exact h
    | .rep _ b lo _, C, h => by
      simp only [clsT] at h ⊢
      cases hcb : clsT false b with
      | none => simp [hcb] at h
      | some Cb =>
        simp only [hcb] at h
        simp only [clsT_mono b Cb hcb]
        unfold repClsLo at h ⊢
        cases hr : repCls false Cb with
        | none => simp [hr] at h
        | some Z => simp only [hr] at h; simp only [repCls_mono hr]; exact h
    | .lit sp s ci, C, h => by simpa only [clsT] using h
    | .sep sp, C, h => by simpa only [clsT] using h
    | .cls sp n i, C, h => by simpa only [clsT] using h
    | .one sp, C, h => by simpa only [clsT] using h
    | .zom sp l, C, h => by simpa only [clsT] using h
    | .tree sp r, C, h => by simpa only [clsT] using h
  theorem clsTs_mono : ∀ (ts : List Tok) (Cs : List (List Cls)), clsTs false ts = some Cs →
      clsTs true ts = some Cs
    | [], Cs, h => by simpa only [clsTs] using h
    | t :: ts, Cs, h => by
      simp only [clsTs] at h ⊢
      cases hct : clsT false t with
      | none => simp [hct] at h
      | some c =>
        cases hcs : clsTs false ts with
        | none => simp [hct, hcs] at h
        | some cs =>
          simp only [hct, hcs] at h
          simp only [clsT_mono t c hct, clsTs_mono ts cs hcs]
          exact h
end

theorem branchTreeOkC_of_branchTreeOk (t : Tok) (h : branchTreeOk t = true) :
    branchTreeOkC t = true := by
  unfold branchTreeOk at h
  unfold branchTreeOkC
  cases hC : clsT false t with
  | none => simp [hC] at h
  | some C =>
    simp only [hC, Bool.and_eq_true, List.all_eq_true] at h
    simp only [clsT_mono t C hC, Bool.and_eq_true, List.all_eq_true]
    exact ⟨fun c hc => finalOKc_of_finalOK (h.1 c hc), h.2⟩

end BT

/-- **the fragment of C10, with tree wildcards in branch patterns** -/
def F10c (t : Tok) : Bool := F10b t || BT.branchTreeOkC t

/-- **`depth_sound_branch_tree_partial`**: C10 for canonical paths on `F10c` -/
theorem depth_sound_branch_tree_partial (σ : Sem) (hσ : SepIsolated σ) (t : Tok)
    (hok : F10c t = true) (v : NVar) (hv : depthVariance t = .ok v) (w : Str)
    (hw : Spec.Matches σ t w) (hcan : canonicalPath w = true) : v.mem (depthOf w) := by
  unfold F10c at hok
  rcases Bool.or_eq_true_iff.mp hok with h | h
  · exact depth_sound_branch_partial σ hσ t h v hv w hw hcan
  · exact BT.depth_sound_branch_tree_canonical σ hσ t h v hv ⟨true, true⟩ w hw hcan

theorem F10c_of_F10b (t : Tok) (h : F10b t = true) : F10c t = true := by simp [F10c, h]

theorem F10c_of_flatTreeOk (sp : Span) (ts : List Tok) (h : flatTreeOk ts = true) :
    F10c (.cat sp ts) = true := F10c_of_F10b _ (F10b_of_flatTreeOk sp ts h)

/-! ### non-vacuity -/

section Examples

/-- `{a,b}/**/*.c` -/
def exTreeAlt : Tok :=
  .cat ⟨0, 12⟩ [.alt ⟨0, 5⟩ [.cat ⟨1, 1⟩ [.lit ⟨1, 1⟩ ['a'] false],
      .cat ⟨3, 1⟩ [.lit ⟨3, 1⟩ ['b'] false]],
    .tree ⟨5, 4⟩ true, .zom ⟨9, 1⟩ false, .lit ⟨10, 2⟩ ['.', 'c'] false]

/-- `**/*.{c,h}` -/
def exTreeFirst : Tok :=
  .cat ⟨0, 10⟩ [.tree ⟨0, 3⟩ false, .zom ⟨3, 1⟩ false, .lit ⟨4, 1⟩ ['.'] false,
    .alt ⟨5, 5⟩ [.cat ⟨6, 1⟩ [.lit ⟨6, 1⟩ ['c'] false], .cat ⟨8, 1⟩ [.lit ⟨8, 1⟩ ['h'] false]]]

/-- `/{a,b}/**` : starts with a separator and ends with a tree wildcard (a class with slack) -/
def exRootTree : Tok :=
  .cat ⟨0, 9⟩ [.sep ⟨0, 1⟩, .alt ⟨1, 5⟩ [.cat ⟨2, 1⟩ [.lit ⟨2, 1⟩ ['a'] false],
    .cat ⟨4, 1⟩ [.lit ⟨4, 1⟩ ['b'] false]], .tree ⟨6, 3⟩ true]

/-- `{a/**,b}c` : a tree wildcard inside an alternative -/
def exTreeIn : Tok :=
  .cat ⟨0, 9⟩ [.alt ⟨0, 8⟩ [.cat ⟨1, 4⟩ [.lit ⟨1, 1⟩ ['a'] false, .tree ⟨2, 3⟩ true],
    .cat ⟨6, 1⟩ [.lit ⟨6, 1⟩ ['b'] false]], .lit ⟨8, 1⟩ ['c'] false]

example : BT.branchTreeOk exTreeAlt = true ∧ F10b exTreeAlt = false ∧
    depthVariance exTreeAlt = .ok (.bnd (.lower 2)) := ⟨by decide, by decide, rfl⟩
example : BT.branchTreeOk exTreeFirst = true ∧ depthVariance exTreeFirst = .ok (.bnd (.lower 1)) :=
  ⟨by decide, rfl⟩
example : BT.branchTreeOk exRootTree = true ∧ depthVariance exRootTree = .ok (.bnd (.lower 1)) :=
  ⟨by decide, rfl⟩
example : BT.branchTreeOk exTreeIn = true ∧ depthVariance exTreeIn = .ok (.bnd (.lower 1)) :=
  ⟨by decide, rfl⟩
-- the tree-free examples of `DepthBranch.lean` are in the new fragment too
example : BT.branchTreeOk exAlt = true ∧ BT.branchTreeOk exRep = true ∧
    BT.branchTreeOk exNest = true ∧ BT.branchTreeOk exGlob = true ∧
    BT.branchTreeOk exClosed = true := ⟨by decide, by decide, by decide, by decide, by decide⟩

/-- `{a,b}/**/*.c` matches `a/x/y.c` -/
theorem exTreeAlt_matches (σ : Sem) : Spec.Matches σ exTreeAlt ['a', '/', 'x', '/', 'y', '.', 'c'] := by
  have h1 : SM σ ⟨true, false⟩ (.alt ⟨0, 5⟩ [.cat ⟨1, 1⟩ [.lit ⟨1, 1⟩ ['a'] false],
      .cat ⟨3, 1⟩ [.lit ⟨3, 1⟩ ['b'] false]]) ['a'] :=
    .alt (b := .cat ⟨1, 1⟩ [.lit ⟨1, 1⟩ ['a'] false]) (by simp)
      (sms_singleton.mpr (.lit (by simp [litEq])))
  have h2 : SM σ ⟨false, false⟩ (.tree ⟨5, 4⟩ true) ['/', 'x', '/'] := by
    refine .tree ?_
    simp only [TreeLang]
    refine ⟨['x', '/'], ?_, rfl⟩
    exact Star.cons (u := ['x', '/']) (v := [])
      ⟨['x'], sepFree_cons.mpr ⟨by decide, sepFree_nil⟩, rfl⟩ Star.nil
  have h3 : SM σ ⟨false, false⟩ (.zom ⟨9, 1⟩ false) ['y'] :=
    .zom (sepFree_cons.mpr ⟨by decide, sepFree_nil⟩)
  have h4 : SM σ ⟨false, true⟩ (.lit ⟨10, 2⟩ ['.', 'c'] false) ['.', 'c'] := .lit (by simp [litEq])
  exact .cons (u := ['a']) h1 (.cons (u := ['/', 'x', '/']) h2
    (.cons (u := ['y']) h3 (.cons (u := ['.', 'c']) h4 .nil)))

/-- `/{a,b}/**` matches `/a` (the tree wildcard at the end matches `""`) -/
theorem exRootTree_matches (σ : Sem) : Spec.Matches σ exRootTree ['/', 'a'] := by
  have h1 : SM σ ⟨true, false⟩ (.sep ⟨0, 1⟩) ['/'] := .sep
  have h2 : SM σ ⟨false, false⟩ (.alt ⟨1, 5⟩ [.cat ⟨2, 1⟩ [.lit ⟨2, 1⟩ ['a'] false],
      .cat ⟨4, 1⟩ [.lit ⟨4, 1⟩ ['b'] false]]) ['a'] :=
    .alt (b := .cat ⟨2, 1⟩ [.lit ⟨2, 1⟩ ['a'] false]) (by simp)
      (sms_singleton.mpr (.lit (by simp [litEq])))
  have h3 : SM σ ⟨false, true⟩ (.tree ⟨6, 3⟩ true) [] := .tree (by simp [TreeLang])
  exact .cons (u := ['/']) h1 (.cons (u := ['a']) h2 (.cons (u := []) h3 .nil))

/-- the theorem applied: every path `{a,b}/**/*.c` matches has at least two components, every path
`/{a,b}/**` matches has at least one (and real matches exist, the second one attaining the bound) -/
example (σ : Sem) (hσ : SepIsolated σ) :
    (∀ w, Spec.Matches σ exTreeAlt w → 2 ≤ depthOf w) ∧
    Spec.Matches σ exTreeAlt ['a', '/', 'x', '/', 'y', '.', 'c'] ∧
    depthOf ['a', '/', 'x', '/', 'y', '.', 'c'] = 3 ∧
    (∀ w, Spec.Matches σ exRootTree w → 1 ≤ depthOf w) ∧
    Spec.Matches σ exRootTree ['/', 'a'] ∧ depthOf ['/', 'a'] = 1 := by
  refine ⟨?_, exTreeAlt_matches σ, by decide, ?_, exRootTree_matches σ, by decide⟩
  · intro w hw
    have := BT.depth_sound_branch_tree σ hσ exTreeAlt (by decide) (.bnd (.lower 2)) rfl
      ⟨true, true⟩ w hw
    simpa [NVar.mem, BVR.mem] using this
  · intro w hw
    have := BT.depth_sound_branch_tree σ hσ exRootTree (by decide) (.bnd (.lower 1)) rfl
      ⟨true, true⟩ w hw
    simpa [NVar.mem, BVR.mem] using this

/-- `{a,b}/*/c` : a run that can match `""` between two separators (canonical paths only) -/
def exInner : Tok :=
  .cat ⟨0, 9⟩ [.alt ⟨0, 5⟩ [.cat ⟨1, 1⟩ [.lit ⟨1, 1⟩ ['a'] false],
      .cat ⟨3, 1⟩ [.lit ⟨3, 1⟩ ['b'] false]],
    .sep ⟨5, 1⟩, .zom ⟨6, 1⟩ false, .sep ⟨7, 1⟩, .lit ⟨8, 1⟩ ['c'] false]

/-- `x<a>y` : a repetition that may iterate zero times, body without boundary -/
def exZero : Tok :=
  .cat ⟨0, 5⟩ [.lit ⟨0, 1⟩ ['x'] false,
    .rep ⟨1, 3⟩ (.cat ⟨2, 1⟩ [.lit ⟨2, 1⟩ ['a'] false]) 0 none, .lit ⟨4, 1⟩ ['y'] false]

example : BT.branchTreeOk exZero = true ∧ depthVariance exZero = .ok (.inv 1) := ⟨by decide, rfl⟩

/-- `a/**/*` : the pattern ends with a run that can match `""` (canonical paths only) -/
def exTrailZom : Tok := .cat ⟨0, 6⟩ [.lit ⟨0, 1⟩ ['a'] false, .tree ⟨1, 4⟩ true, .zom ⟨5, 1⟩ false]

example : BT.branchTreeOkC exInner = true ∧ BT.branchTreeOk exInner = false ∧
    depthVariance exInner = .ok (.inv 3) := ⟨by decide, by decide, rfl⟩
example : BT.branchTreeOkC exTrailZom = true ∧ BT.branchTreeOk exTrailZom = false ∧
    depthVariance exTrailZom = .ok (.bnd (.lower 2)) := ⟨by decide, by decide, rfl⟩

/-- `{a,b}/*/c` matches `b/x/c` -/
theorem exInner_matches (σ : Sem) : Spec.Matches σ exInner ['b', '/', 'x', '/', 'c'] := by
  have h1 : SM σ ⟨true, false⟩ (.alt ⟨0, 5⟩ [.cat ⟨1, 1⟩ [.lit ⟨1, 1⟩ ['a'] false],
      .cat ⟨3, 1⟩ [.lit ⟨3, 1⟩ ['b'] false]]) ['b'] :=
    .alt (b := .cat ⟨3, 1⟩ [.lit ⟨3, 1⟩ ['b'] false]) (by simp)
      (sms_singleton.mpr (.lit (by simp [litEq])))
  have h2 : SM σ ⟨false, false⟩ (.sep ⟨5, 1⟩) ['/'] := .sep
  have h3 : SM σ ⟨false, false⟩ (.zom ⟨6, 1⟩ false) ['x'] :=
    .zom (sepFree_cons.mpr ⟨by decide, sepFree_nil⟩)
  have h4 : SM σ ⟨false, false⟩ (.sep ⟨7, 1⟩) ['/'] := .sep
  have h5 : SM σ ⟨false, true⟩ (.lit ⟨8, 1⟩ ['c'] false) ['c'] := .lit (by simp [litEq])
  exact .cons (u := ['b']) h1 (.cons (u := ['/']) h2 (.cons (u := ['x']) h3
    (.cons (u := ['/']) h4 (.cons (u := ['c']) h5 .nil))))

/-- the canonical theorem applied: every CANONICAL path `{a,b}/*/c` matches has exactly three
components (a real one exists); the non-canonical match `b//c` has two -/
example (σ : Sem) (hσ : SepIsolated σ) :
    (∀ w, Spec.Matches σ exInner w → canonicalPath w = true → depthOf w = 3) ∧
    Spec.Matches σ exInner ['b', '/', 'x', '/', 'c'] ∧
    canonicalPath ['b', '/', 'x', '/', 'c'] = true := by
  refine ⟨?_, exInner_matches σ, by decide⟩
  intro w hw hcan
  exact BT.depth_sound_branch_tree_canonical σ hσ exInner (by decide) (.inv 3) rfl ⟨true, true⟩ w hw
    hcan

end Examples

/-! ### outside the fragment the statement is false of the committed algorithm -/

/-- `{a,b}/*/c` matches the non-canonical path `b//c`, which has two components, not three: the
restriction of `depth_sound_branch_tree_canonical` to canonical paths cannot be dropped on
`branchTreeOkC` (on the smaller `branchTreeOk` it can: `depth_sound_branch_tree`). -/
theorem depth_inner_nullable_witness (σ : Sem) :
    Spec.Matches σ exInner ['b', '/', '/', 'c'] ∧ depthOf ['b', '/', '/', 'c'] = 2 ∧
      canonicalPath ['b', '/', '/', 'c'] = false ∧ depthVariance exInner = .ok (.inv 3) := by
  refine ⟨?_, by decide, by decide, rfl⟩
  have h1 : SM σ ⟨true, false⟩ (.alt ⟨0, 5⟩ [.cat ⟨1, 1⟩ [.lit ⟨1, 1⟩ ['a'] false],
      .cat ⟨3, 1⟩ [.lit ⟨3, 1⟩ ['b'] false]]) ['b'] :=
    .alt (b := .cat ⟨3, 1⟩ [.lit ⟨3, 1⟩ ['b'] false]) (by simp)
      (sms_singleton.mpr (.lit (by simp [litEq])))
  have h2 : SM σ ⟨false, false⟩ (.sep ⟨5, 1⟩) ['/'] := .sep
  have h3 : SM σ ⟨false, false⟩ (.zom ⟨6, 1⟩ false) [] := .zom sepFree_nil
  have h4 : SM σ ⟨false, false⟩ (.sep ⟨7, 1⟩) ['/'] := .sep
  have h5 : SM σ ⟨false, true⟩ (.lit ⟨8, 1⟩ ['c'] false) ['c'] := .lit (by simp [litEq])
  exact .cons (u := ['b']) h1 (.cons (u := ['/']) h2 (.cons (u := []) h3
    (.cons (u := ['/']) h4 (.cons (u := ['c']) h5 .nil))))

/-- `**/*/a` : the same run that can match `""`, but after a tree wildcard at the start of the path,
whose separator may be virtual.  The fold reports "at least 2"; the pattern matches the CANONICAL
path `/a` (the tree wildcard and `*` match `""`), which has one component.  This is why
`Cls.validX` asks that the separators at a junction be real (`a.l ≠ E ∨ a.ne`). -/
theorem depth_tree_inner_nullable_witness (σ : Sem) :
    let t : Tok := .cat ⟨0, 6⟩ [.tree ⟨0, 3⟩ false, .zom ⟨3, 1⟩ false, .sep ⟨4, 1⟩,
      .lit ⟨5, 1⟩ ['a'] false]
    F10c t = false ∧ depthVariance t = .ok (.bnd (.lower 2)) ∧ Spec.Matches σ t ['/', 'a'] ∧
      canonicalPath ['/', 'a'] = true ∧ ¬ (NVar.bnd (.lower 2)).mem (depthOf ['/', 'a']) := by
  refine ⟨by decide, rfl, ?_, by decide, by simp [NVar.mem, BVR.mem, depthOf, depthGo]⟩
  have h1 : SM σ ⟨true, false⟩ (.tree ⟨0, 3⟩ false) [] := .tree (by simp [TreeLang]; exact Star.nil)
  have h2 : SM σ ⟨false, false⟩ (.zom ⟨3, 1⟩ false) [] := .zom sepFree_nil
  have h3 : SM σ ⟨false, false⟩ (.sep ⟨4, 1⟩) ['/'] := .sep
  have h4 : SM σ ⟨false, true⟩ (.lit ⟨5, 1⟩ ['a'] false) ['a'] := .lit (by simp [litEq])
  exact .cons (u := []) h1 (.cons (u := []) h2 (.cons (u := ['/']) h3 (.cons (u := ['a']) h4 .nil)))


/-- `/a{a/**}` is outside `F10c` too: its class starts and ends with a separator, has no slack (the
tree wildcard was joined inside the branch, to `a`, which has no boundary at its far end) and its
term is a range.  (Statement and proof: `depth_branch_tree_witness`.) -/
example : F10c (.cat ⟨0, 8⟩ [.sep ⟨0, 1⟩, .lit ⟨1, 1⟩ ['a'] false,
    .alt ⟨2, 6⟩ [.cat ⟨3, 4⟩ [.lit ⟨3, 1⟩ ['a'] false, .tree ⟨4, 3⟩ true]]]) = false := by decide

/-- `{*/**,a}` : a run that can match `""` next to a tree wildcard, inside an alternative.  The fold
reports "at least 1"; the pattern matches the empty path. -/
theorem depth_branch_tree_nullable_witness (σ : Sem) :
    let t : Tok := .cat ⟨0, 8⟩ [.alt ⟨0, 8⟩ [.cat ⟨1, 4⟩ [.zom ⟨1, 1⟩ false, .tree ⟨2, 3⟩ true],
      .cat ⟨6, 1⟩ [.lit ⟨6, 1⟩ ['a'] false]]]
    F10c t = false ∧ depthVariance t = .ok (.bnd (.lower 1)) ∧ Spec.Matches σ t [] ∧
      canonicalPath [] = true ∧ ¬ (NVar.bnd (.lower 1)).mem (depthOf []) := by
  refine ⟨by decide, rfl, ?_, by decide, by simp [NVar.mem, BVR.mem, depthOf, depthGo]⟩
  refine sms_singleton.mpr (.alt (b := .cat ⟨1, 4⟩ [.zom ⟨1, 1⟩ false, .tree ⟨2, 3⟩ true])
    (by simp) ?_)
  have g1 : SM σ ⟨true, false⟩ (.zom ⟨1, 1⟩ false) [] := .zom sepFree_nil
  have g2 : SM σ ⟨false, true⟩ (.tree ⟨2, 3⟩ true) [] := .tree (by simp [TreeLang])
  exact .cons (u := []) g1 (.cons (u := []) g2 .nil)

/-- `/<a/>` : a repetition that may iterate zero times and whose body ends with a boundary.  With
zero iterations the text is empty, but the product keeps the termination "ends with a boundary":
joined to `/` the term is closed with a range, which `finalize` leaves alone.  Reported: "at least
1"; matched: the canonical path `/`, no component.  (The crate agrees: `depth=rng_1_-`.) -/
theorem depth_rep_zero_boundary_witness (σ : Sem) :
    let t : Tok := .cat ⟨0, 5⟩ [.sep ⟨0, 1⟩,
      .rep ⟨1, 4⟩ (.cat ⟨2, 2⟩ [.lit ⟨2, 1⟩ ['a'] false, .sep ⟨3, 1⟩]) 0 none]
    F10c t = false ∧ depthVariance t = .ok (.bnd (.lower 1)) ∧ Spec.Matches σ t ['/'] ∧
      canonicalPath ['/'] = true ∧ ¬ (NVar.bnd (.lower 1)).mem (depthOf ['/']) := by
  refine ⟨by decide, rfl, ?_, by decide, by simp [NVar.mem, BVR.mem, depthOf, depthGo]⟩
  have h1 : SM σ ⟨true, false⟩ (.sep ⟨0, 1⟩) ['/'] := .sep
  have h2 : SM σ ⟨false, true⟩
      (.rep ⟨1, 4⟩ (.cat ⟨2, 2⟩ [.lit ⟨2, 1⟩ ['a'] false, .sep ⟨3, 1⟩]) 0 none) [] :=
    .rep (n := 0) (Nat.le_refl 0) (by intro h hh; cases hh) .zero
  exact .cons (u := ['/']) h1 (.cons (u := []) h2 .nil)

end Wax
