import Wax.Proofs.Root
import Wax.Proofs.EscapeMatch
/-!
C08, language half: cutting a glob after an invariant prefix at a component boundary preserves the
documented language up to `prefix ++ "/" ++ _`.  Two boundary shapes exist (token/mod.rs:194-228):
a separator token that is popped with the prefix, and a rooted tree wildcard that stays and is
"unrooted".  The context flag `first` of what is kept changes from `false` to `true`; it matters only
where a tree wildcard can be the first thing matched.
-/
namespace Wax

mutual
  /-- can a tree wildcard be the first leaf? -/
  def leadTree : Tok → Bool
    | .tree .. => true
    | .alt _ bs => leadTreeB bs
    | .cat _ ts => leadTreeF ts
    | .rep _ body _ _ => leadTree body
    | _ => false
  def leadTreeF : List Tok → Bool
    | [] => false
    | t :: _ => leadTree t
  def leadTreeB : List Tok → Bool
    | [] => false
    | b :: bs => leadTree b || leadTreeB bs
end

mutual
  /-- whether anything precedes is irrelevant to a token that cannot begin with a tree wildcard -/
  theorem first_irrel_tok (σ : Sem) : ∀ (t : Tok), leadTree t = false → ∀ (f f' l : Bool) (w : Str),
      SM σ ⟨f, l⟩ t w → SM σ ⟨f', l⟩ t w
    | .lit .., _, _, _, _, _, h => by cases h with | lit hl => exact .lit hl
    | .sep _, _, _, _, _, _, h => by cases h; exact .sep
    | .cls .., _, _, _, _, _, h => by cases h with | cls hc => exact .cls hc
    | .one _, _, _, _, _, _, h => by cases h with | one hc => exact .one hc
    | .zom .., _, _, _, _, _, h => by cases h with | zom hz => exact .zom hz
    | .tree .., hl, _, _, _, _, _ => by simp [leadTree] at hl
    | .alt _ bs, hl, f, f', l, w, h => by
      simp only [leadTree] at hl
      cases h with
      | alt hb hm =>
        exact .alt hb ((sms_conc_iff _).mpr
          (first_irrel_branches σ bs hl _ hb f f' l w ((sms_conc_iff _).mp hm)))
    | .cat _ ts, hl, f, f', l, w, h => by
      simp only [leadTree] at hl
      cases h with
      | cat hm => exact .cat (first_irrel_list σ ts hl f f' l w hm)
    | .rep _ body lo hi, hl, f, f', l, w, h => by
      simp only [leadTree] at hl
      cases h with
      | rep h1 h2 h3 =>
        refine .rep h1 h2 ?_
        cases h3 with
        | zero => exact .zero
        | one hm =>
          exact .one ((sms_conc_iff _).mpr (first_irrel_tok σ body hl f f' l _ ((sms_conc_iff _).mp hm)))
        | more hu hv =>
          exact .more ((sms_conc_iff _).mpr
            (first_irrel_tok σ body hl f f' false _ ((sms_conc_iff _).mp hu))) hv
  theorem first_irrel_list (σ : Sem) : ∀ (ts : List Tok), leadTreeF ts = false →
      ∀ (f f' l : Bool) (w : Str), SMs σ ⟨f, l⟩ ts w → SMs σ ⟨f', l⟩ ts w
    | [], _, _, _, _, _, h => by cases h; exact .nil
    | t :: ts, hl, f, f', l, w, h => by
      simp only [leadTreeF] at hl
      cases h with
      | cons hu hv => exact .cons (first_irrel_tok σ t hl f f' _ _ hu) hv
  theorem first_irrel_branches (σ : Sem) : ∀ (bs : List Tok), leadTreeB bs = false →
      ∀ b ∈ bs, ∀ (f f' l : Bool) (w : Str), SM σ ⟨f, l⟩ b w → SM σ ⟨f', l⟩ b w
    | [], _, _, hb, _, _, _, _, _ => by cases hb
    | b0 :: bs, hl, b, hb, f, f', l, w, h => by
      simp only [leadTreeB, Bool.or_eq_false_iff] at hl
      cases hb with
      | head => exact first_irrel_tok σ b0 hl.1 f f' l w h
      | tail _ hm => exact first_irrel_branches σ bs hl.2 b hm f f' l w h
end

/-- **C08, separator boundary**: `pre "/" post`, where `pre` matches exactly the text `P` and
`post` cannot begin with a tree wildcard, matches `w` iff `w = P ++ "/" ++ r` for some `r` that
`post`, *as a glob of its own*, matches. -/
theorem partition_sep (σ : Sem) (pre post : List Tok) (sp : Span) (P : Str)
    (hpre : ∀ c w, SMs σ c pre w ↔ w = P) (hpost : leadTreeF post = false) (w : Str) :
    SMs σ ⟨true, true⟩ (pre ++ .sep sp :: post) w ↔
      ∃ r, w = P ++ '/' :: r ∧ SMs σ ⟨true, true⟩ post r := by
  rw [sms_append]
  constructor
  · rintro ⟨u, v, rfl, hu, hv⟩
    rw [hpre] at hu; subst hu
    obtain ⟨s, r, rfl, hs, hr⟩ := sms_cons.mp hv
    cases hs
    exact ⟨r, by simp, first_irrel_list σ post hpost _ _ _ _ hr⟩
  · rintro ⟨r, rfl, hr⟩
    refine ⟨P, '/' :: r, rfl, (hpre _ _).mpr rfl, ?_⟩
    exact sms_cons.mpr ⟨['/'], r, rfl, .sep, first_irrel_list σ post hpost _ _ _ _ hr⟩

/-- **C08, tree boundary**: `pre /**/ rest` with something after the tree wildcard: the kept part
is the *unrooted* tree wildcard and the rest, and the prefix is joined by a separator. -/
theorem partition_tree (σ : Sem) (pre rest : List Tok) (sp sp' : Span) (P : Str)
    (hpre : ∀ c w, SMs σ c pre w ↔ w = P) (hne : pre ≠ []) (hrest : rest ≠ []) (w : Str) :
    SMs σ ⟨true, true⟩ (pre ++ .tree sp true :: rest) w ↔
      ∃ r, w = P ++ '/' :: r ∧ SMs σ ⟨true, true⟩ (.tree sp' false :: rest) r := by
  have hpe : pre.isEmpty = false := by cases pre <;> simp_all
  have hre : rest.isEmpty = false := by cases rest <;> simp_all
  rw [sms_append]
  constructor
  · rintro ⟨u, v, rfl, hu, hv⟩
    rw [hpre] at hu; subst hu
    obtain ⟨s, r, rfl, hs, hr⟩ := sms_cons.mp hv
    cases hs with
    | tree ht =>
      simp only [hpe, hre, Bool.and_false, TreeLang, Bool.false_eq_true, ↓reduceIte, Bool.not_false,
        Bool.or_true] at ht
      obtain ⟨r', hstar, rfl⟩ := ht
      refine ⟨r' ++ r, by simp, sms_cons.mpr ⟨r', r, rfl, .tree ?_, hr⟩⟩
      simpa [TreeLang, hre] using hstar
  · rintro ⟨r, rfl, hr⟩
    obtain ⟨s, r2, rfl, hs, hr2⟩ := sms_cons.mp hr
    cases hs with
    | tree ht =>
      simp only [hre, Bool.and_false, TreeLang, Bool.false_eq_true, ↓reduceIte, Bool.not_true,
        Bool.or_false] at ht
      refine ⟨P, '/' :: (s ++ r2), rfl, (hpre _ _).mpr rfl, ?_⟩
      refine sms_cons.mpr ⟨'/' :: s, r2, by simp, .tree ?_, hr2⟩
      simpa [TreeLang, hpe, hre] using ht

/-- **C08, tree boundary at the end**: `pre /**` matches the prefix itself and everything beneath
it — the bare prefix is the one path that is not of the form `P ++ "/" ++ r`, which is why the
property is stated over `Path::join` (`P.join("")` is `P`) and not over string concatenation. -/
theorem partition_tree_last (σ : Sem) (pre : List Tok) (sp : Span) (P : Str)
    (hpre : ∀ c w, SMs σ c pre w ↔ w = P) (hne : pre ≠ []) (w : Str) :
    SMs σ ⟨true, true⟩ (pre ++ [.tree sp true]) w ↔ w = P ∨ ∃ r, w = P ++ '/' :: r := by
  have hpe : pre.isEmpty = false := by cases pre <;> simp_all
  rw [sms_append]
  constructor
  · rintro ⟨u, v, rfl, hu, hv⟩
    rw [hpre] at hu; subst hu
    rw [sms_singleton] at hv
    cases hv with
    | tree ht =>
      simp only [hpe, Bool.and_false, TreeLang, Bool.false_eq_true, ↓reduceIte] at ht
      rcases ht with rfl | ⟨r, rfl⟩
      · left; simp
      · right; exact ⟨r, rfl⟩
  · intro h
    refine ⟨P, w.drop P.length, ?_, (hpre _ _).mpr rfl, sms_singleton.mpr (.tree ?_)⟩
    · rcases h with rfl | ⟨r, rfl⟩ <;> simp
    · simp only [hpe, Bool.and_false, TreeLang, Bool.false_eq_true, ↓reduceIte]
      rcases h with rfl | ⟨r, rfl⟩
      · left; simp
      · right; exact ⟨r, by simp⟩

/-- the hypothesis on the prefix is met by every literal / separator sequence (what the parser
produces for pattern-free text, `parse_escape`) -/
theorem partition_sep_spells (σ : Sem) {loc : Nat} {pre : List Tok} {P : Str} (hs : Spells loc pre P)
    (post : List Tok) (sp : Span) (hpost : leadTreeF post = false) (w : Str) :
    SMs σ ⟨true, true⟩ (pre ++ .sep sp :: post) w ↔
      ∃ r, w = P ++ '/' :: r ∧ SMs σ ⟨true, true⟩ post r :=
  partition_sep σ pre post sp P (spells_sms σ hs) hpost w

end Wax
