import Wax.Encode
/-!
C04 (iii): the capture groups of the compiled program are, in order, exactly the capturing tokens
of the pattern's top-level concatenation — one group each, none for literals and separators, none
for anything nested.
-/
namespace Wax

mutual
  /-- number of capturing groups of a regex -/
  def Re.groups : Re → Nat
    | .cat l => Re.groupsL l
    | .alt l => Re.groupsL l
    | .star r => r.groups
    | .lazyStar r => r.groups
    | .opt r => r.groups
    | .rep r _ _ => r.groups
    | .cap r => 1 + r.groups
    | .grp r => r.groups
    | _ => 0
  def Re.groupsL : List Re → Nat
    | [] => 0
    | r :: rs => r.groups + Re.groupsL rs
end

/-- `Token::is_capturing` -/
def Tok.capturing : Tok → Bool
  | .lit .. => false
  | .sep _ => false
  | .cat .. => false
  | _ => true

def Tok.isCat : Tok → Bool | .cat .. => true | _ => false

@[simp] theorem groups_G_false (r : Re) : (G false r).groups = r.groups := by simp [G, Re.groups]
@[simp] theorem groups_G_true (r : Re) : (G true r).groups = 1 + r.groups := by simp [G, Re.groups]

@[simp] theorem groups_classRe (neg : Bool) (items : List Arch) :
    (if classValid items = true then Re.chr (CharPred.cls neg items) else Re.never).groups = 0 := by
  by_cases h : classValid items = true <;> simp [h, Re.groups]

theorem groups_encodeTree_false (sup : Option Pos) (p : Pos) (r : Bool) : (encodeTree false sup p r).groups = 0 := by
  cases p <;> simp only [encodeTree]
  · by_cases h1 : (sup == some Pos.middle || sup == some Pos.last) = true
    · simp [h1, siteIntermediate, anyStar, Re.groups, Re.groupsL]
    · cases r <;> simp [h1, siteFirstRooted, siteFirstUnrooted, anyStar, Re.groups, Re.groupsL]
  · simp [siteIntermediate, anyStar, Re.groups, Re.groupsL]
  · by_cases h1 : (sup == some Pos.first || sup == some Pos.middle) = true
    · simp [h1, siteIntermediate, anyStar, Re.groups, Re.groupsL]
    · simp [h1, siteLast, anyStar, Re.groups, Re.groupsL]
  · by_cases h1 : (r && (sup.isNone || sup == some Pos.first || sup == some Pos.only)) = true <;> simp only [h1] <;> simp [siteOnly, siteOnlyRooted, anyStar, Re.groups, Re.groupsL]

theorem groups_encodeTree_true (sup : Option Pos) (p : Pos) (r : Bool) : (encodeTree true sup p r).groups = 1 := by
  cases p <;> simp only [encodeTree]
  · by_cases h1 : (sup == some Pos.middle || sup == some Pos.last) = true
    · simp [h1, siteIntermediate, anyStar, Re.groups, Re.groupsL]
    · cases r <;> simp [h1, siteFirstRooted, siteFirstUnrooted, anyStar, Re.groups, Re.groupsL]
  · simp [siteIntermediate, anyStar, Re.groups, Re.groupsL]
  · by_cases h1 : (sup == some Pos.first || sup == some Pos.middle) = true
    · simp [h1, siteIntermediate, anyStar, Re.groups, Re.groupsL]
    · simp [h1, siteLast, anyStar, Re.groups, Re.groupsL]
  · by_cases h1 : (r && (sup.isNone || sup == some Pos.first || sup == some Pos.only)) = true <;> simp only [h1] <;> simp [siteOnly, siteOnlyRooted, anyStar, Re.groups, Re.groupsL]

mutual
  /-- nothing nested captures -/
  theorem groups_encodeTok_false : ∀ (t : Tok) (sup : Option Pos) (p : Pos), (encodeTok false sup p t).groups = 0
    | .lit .., _, _ => by simp [encodeTok, Re.groups]
    | .sep _, _, _ => by simp [encodeTok, Re.groups]
    | .cls .., _, _ => by simp [encodeTok]
    | .one _, _, _ => by simp [encodeTok, Re.groups]
    | .zom _ false, _, _ => by simp [encodeTok, Re.groups]
    | .zom _ true, _, _ => by simp [encodeTok, Re.groups]
    | .tree _ r, sup, p => by simp [encodeTok, groups_encodeTree_false]
    | .alt _ bs, sup, p => by
      simp only [encodeTok, groups_G_false, Re.groups]
      exact groups_encodeBranches bs (supOr sup p)
    | .rep _ (.cat bsp ts) _ _, sup, p => by
      simp only [encodeTok, groups_G_false, Re.groups]
      exact groups_encodeList_false ts (supOr sup p) 0 ts.length
    | .rep _ (.lit bsp s ci) _ _, sup, p => by simp [encodeTok, Re.groups, Re.groupsL]
    | .rep _ (.sep bsp) _ _, sup, p => by simp [encodeTok, Re.groups, Re.groupsL]
    | .rep _ (.cls bsp n i) _ _, sup, p => by simp [encodeTok, Re.groups, Re.groupsL]
    | .rep _ (.one bsp) _ _, sup, p => by simp [encodeTok, Re.groups, Re.groupsL]
    | .rep _ (.zom bsp false) _ _, sup, p => by simp [encodeTok, Re.groups, Re.groupsL]
    | .rep _ (.zom bsp true) _ _, sup, p => by simp [encodeTok, Re.groups, Re.groupsL]
    | .rep _ (.tree bsp r) _ _, sup, p => by simp [encodeTok, Re.groups, Re.groupsL, groups_encodeTree_false]
    | .rep _ (.alt bsp bs2) _ _, sup, p => by
      have := groups_encodeTok_false (.alt bsp bs2) (supOr sup p) .only
      simp only [encodeTok, groups_G_false, Re.groups, Re.groupsL] at this ⊢
      omega
    | .rep _ (.rep bsp b2 lo2 hi2) _ _, sup, p => by
      have := groups_encodeTok_false (.rep bsp b2 lo2 hi2) (supOr sup p) .only
      simp only [encodeTok, groups_G_false, Re.groups, Re.groupsL] at this ⊢
      omega
    | .cat _ ts, sup, p => by
      simp only [encodeTok, Re.groups]
      exact groups_encodeList_false ts sup 0 ts.length
  theorem groups_encodeList_false : ∀ (ts : List Tok) (sup : Option Pos) (i n : Nat),
      Re.groupsL (encodeList false sup ts i n) = 0
    | [], _, _, _ => by simp [encodeList, Re.groupsL]
    | t :: ts, sup, i, n => by
      simp [encodeList, Re.groupsL, groups_encodeTok_false t sup (posOf i n),
        groups_encodeList_false ts sup (i + 1) n]
  theorem groups_encodeBranches : ∀ (bs : List Tok) (sup : Option Pos), Re.groupsL (encodeBranches sup bs) = 0
    | [], _ => by simp [encodeBranches, Re.groupsL]
    | .cat bsp ts :: bs, sup => by
      simp only [encodeBranches, Re.groupsL, Re.groups]
      rw [groups_encodeList_false ts sup 0 ts.length, groups_encodeBranches bs sup]
    | .lit bsp s ci :: bs, sup => by
      simp [encodeBranches, Re.groupsL, Re.groups, groups_encodeBranches bs sup, encodeTok]
    | .sep bsp :: bs, sup => by
      simp [encodeBranches, Re.groupsL, Re.groups, groups_encodeBranches bs sup, encodeTok]
    | .cls bsp n i :: bs, sup => by
      simp [encodeBranches, Re.groupsL, Re.groups, groups_encodeBranches bs sup, encodeTok]
    | .one bsp :: bs, sup => by
      simp [encodeBranches, Re.groupsL, Re.groups, groups_encodeBranches bs sup, encodeTok]
    | .zom bsp false :: bs, sup => by
      simp [encodeBranches, Re.groupsL, Re.groups, groups_encodeBranches bs sup, encodeTok]
    | .zom bsp true :: bs, sup => by
      simp [encodeBranches, Re.groupsL, Re.groups, groups_encodeBranches bs sup, encodeTok]
    | .tree bsp r :: bs, sup => by
      simp [encodeBranches, Re.groupsL, Re.groups, groups_encodeBranches bs sup, encodeTok, groups_encodeTree_false]
    | .alt bsp bs2 :: bs, sup => by
      have := groups_encodeTok_false (.alt bsp bs2) sup .only
      simp only [encodeBranches, Re.groupsL, Re.groups, groups_encodeBranches bs sup, this]
    | .rep bsp b2 lo2 hi2 :: bs, sup => by
      have := groups_encodeTok_false (.rep bsp b2 lo2 hi2) sup .only
      simp only [encodeBranches, Re.groupsL, Re.groups, groups_encodeBranches bs sup, this]
end

/-- a top-level token contributes exactly one group iff it is capturing -/
theorem groups_encodeTok_true (t : Tok) (hc : t.isCat = false) (sup : Option Pos) (p : Pos) :
    (encodeTok true sup p t).groups = if t.capturing then 1 else 0 := by
  cases t with
  | lit => simp [encodeTok, Re.groups, Tok.capturing]
  | sep => simp [encodeTok, Re.groups, Tok.capturing]
  | cls sp n i => simp [encodeTok, Tok.capturing]
  | one => simp [encodeTok, Re.groups, Tok.capturing]
  | zom sp l => cases l <;> simp [encodeTok, Re.groups, Tok.capturing]
  | tree sp r => simp [encodeTok, groups_encodeTree_true, Tok.capturing]
  | alt sp bs =>
    simp only [encodeTok, groups_G_true, Re.groups, Tok.capturing]
    simp [groups_encodeBranches bs (supOr sup p)]
  | rep sp body lo hi =>
    have := groups_encodeTok_false (.rep sp body lo hi) sup p
    cases body <;> simp only [encodeTok, groups_G_true, groups_G_false, Re.groups, Re.groupsL, Tok.capturing] at this ⊢ <;> simp_all
  | cat => simp [Tok.isCat] at hc

theorem groups_encodeList_true : ∀ (ts : List Tok) (sup : Option Pos) (i n : Nat),
    (∀ t ∈ ts, t.isCat = false) →
    Re.groupsL (encodeList true sup ts i n) = (ts.filter Tok.capturing).length := by
  intro ts
  induction ts with
  | nil => intro _ _ _ _; simp [encodeList, Re.groupsL]
  | cons t ts ih =>
    intro sup i n h
    simp only [encodeList, Re.groupsL]
    rw [groups_encodeTok_true t (h t (List.mem_cons_self ..)) sup (posOf i n),
      ih sup (i + 1) n (fun x hx => h x (List.mem_cons_of_mem _ hx))]
    by_cases hc : t.capturing = true
    · simp [hc, List.filter_cons]; omega
    · simp [hc, List.filter_cons]

/-- **C04 (iii)**: the compiled program of a glob has exactly as many capture groups as
    `Glob::captures` lists tokens (and in the same order, group `k` being the `k`-th of them, since
    the encoder emits them left to right) -/
theorem groups_eq_captures (sp : Span) (ts : List Tok) (h : ∀ t ∈ ts, t.isCat = false) :
    (encodeTop (.cat sp ts)).groups = (ts.filter Tok.capturing).length := by
  simp only [encodeTop, Re.groups]
  exact groups_encodeList_true ts none 0 ts.length h

end Wax
