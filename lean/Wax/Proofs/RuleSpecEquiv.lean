import Wax.Proofs.RuleLocal
import Wax.Proofs.ParseZom
/-!
C06 assembled: on an explicit fragment the structural rule checker `checkS` (validated against
`Glob::new`) and the documented rules evaluated declaratively over all flat expansions (`wfSpec`)
give the same verdict.  Both directions, the two fragment conditions (one per direction), and the
two counterexamples that show that neither condition can be dropped.
-/
set_option linter.unusedSimpArgs false
namespace Wax
open AdjN

theorem wfSpec_some {t : Tok} {b : Bool} (h : wfSpec t = some b) :
    ∃ e2 e1 loc, expTok true t = some e2 ∧ expTok false t = some e1 ∧ localOk true t = some loc ∧
      b = (e2.all (noAdj LK.isB) && e1.all (noAdj LK.isZ) && loc) := by
  unfold wfSpec at h
  split at h
  · rename_i e2 e1 loc h2 h1 hl
    injection h with h
    exact ⟨e2, e1, loc, h2, h1, hl, h.symm⟩
  · cases h

/-- **C06, soundness on the fragment** (`repsSafe Tok.isBoundaryT`: every repetition that can iterate
twice has a body whose first and last tokens are leaves, or whose paths cannot both start and end
with a boundary -- implied by `leafTerminalReps`; `catsNoAdj Tok.isZomT`: no concatenation lists
two zero-or-more wildcards side by side, which the parser guarantees): whatever the checker
accepts satisfies ALL documented rules R1-R6 in every flat expansion.

Full statement (FALSE, `rep_nested_counterexample`):
`pshape t → checkS t = true → wfSpec t = some b → b = true`. -/
theorem checkS_sound_partial (t : Tok) (b : Bool) (hs : pshape t = true)
    (hz : catsNoAdj Tok.isZomT t = true) (hf : repsSafe Tok.isBoundaryT t = true)
    (h : checkS t = true) (hw : wfSpec t = some b) : b = true := by
  obtain ⟨e2, e1, loc, h2, h1, hl, rfl⟩ := wfSpec_some hw
  have r1 := checkS_noAdj_nested_partial t e2 hs hf h2 h
  have r2 := checkS_noAdjZom_nested t e1 hs hz h1 h
  have r3 := localOk_eq t true loc hs hl
  have hd := okBody_eq t ⟨none, none⟩ hs
  unfold checkS at h
  rw [h] at hd
  have hd' := hd.symm
  simp only [Bool.and_eq_true] at hd'
  have : loc = true := by rw [r3]; exact hd'.2
  rw [r1, r2, this]; rfl

/-- **C06, completeness on the fragment** (`onceOpen Tok.isBoundaryT`: a repetition that cannot
iterate twice -- upper bound 0 or 1 -- does not both start and end with a boundary leaf): whatever
satisfies the documented rules in every flat expansion is accepted by the checker.

Full statement (FALSE, `once_rep_counterexample`):
`pshape t → wfSpec t = some true → checkS t = true`. -/
theorem checkS_complete_partial (t : Tok) (hs : pshape t = true)
    (ho : onceOpen Tok.isBoundaryT t = true) (hw : wfSpec t = some true) : checkS t = true := by
  obtain ⟨e2, e1, loc, h2, h1, hl, hb⟩ := wfSpec_some hw
  have hb' := hb.symm
  simp only [Bool.and_eq_true] at hb'
  obtain ⟨⟨a2, a1⟩, a3⟩ := hb'
  rw [expTok_eq true t e2 h2, List.all_eq_true] at a2
  rw [expTok_eq false t e1 h1, List.all_eq_true] at a1
  have c1 := adjBody_complete (p := LK.isB) true true true (fun _ => rfl) t hs
    (fun _ => by rw [liftK_isB]; exact ho) a2
  have c2 := adjBody_complete (p := LK.isZ) false false false (fun e => by cases e) t hs
    (fun e => by cases e) a1
  have c3 := localOk_eq t true loc hs hl
  rw [liftK_isB] at c1
  rw [liftK_isZ] at c2
  unfold checkS
  rw [okBody_eq t ⟨none, none⟩ hs, c1, c2]
  show (true && true && locBody true t) = true
  rw [← c3, a3]; rfl

/-- **C06 on the fragment: the checker decides exactly the documented rules** -/
theorem checkS_eq_wfSpec_partial (t : Tok) (b : Bool) (hs : pshape t = true)
    (hz : catsNoAdj Tok.isZomT t = true) (hf : repsSafe Tok.isBoundaryT t = true)
    (ho : onceOpen Tok.isBoundaryT t = true) (hw : wfSpec t = some b) : checkS t = b := by
  cases b with
  | true => exact checkS_complete_partial t hs ho hw
  | false =>
    cases h : checkS t with
    | false => rfl
    | true => exact (checkS_sound_partial t false hs hz hf h hw).symm

/-! ### for expressions: the shape hypotheses are discharged by the parser -/

/-- **C06, rule R2, full strength for every expression**: if it parses and the checker accepts it,
no flat expansion has two adjacent zero-or-more wildcards -/
theorem build_noAdjZom (e : Str) (t : Tok) (es : List (List LK)) (hp : parse e = .ok t)
    (he : expTok false t = some es) (h : checkS t = true) : es.all (noAdj LK.isZ) = true :=
  checkS_noAdjZom_nested t es (parse_pshape e t hp) (parse_noAdjZom e t hp) he h

/-- **C06, rule R1 with repetition bodies written out once, full strength for every expression** -/
theorem build_noAdj_once (e : Str) (t : Tok) (es : List (List LK)) (hp : parse e = .ok t)
    (he : expTok false t = some es) (h : checkS t = true) : es.all (noAdj LK.isB) = true :=
  checkS_noAdj_once t es (parse_pshape e t hp) he h

theorem build_sound_partial (e : Str) (t : Tok) (b : Bool) (hp : parse e = .ok t)
    (hf : repsSafe Tok.isBoundaryT t = true) (h : checkS t = true) (hw : wfSpec t = some b) :
    b = true :=
  checkS_sound_partial t b (parse_pshape e t hp) (parse_noAdjZom e t hp) hf h hw

theorem build_complete_partial (e : Str) (t : Tok) (hp : parse e = .ok t)
    (ho : onceOpen Tok.isBoundaryT t = true) (hw : wfSpec t = some true) : checkS t = true :=
  checkS_complete_partial t (parse_pshape e t hp) ho hw

/-- **C06 for expressions, on the fragment**: parse, then the checker's verdict is the verdict of
the documented rules over all flat expansions -/
theorem build_eq_wfSpec_partial (e : Str) (t : Tok) (b : Bool) (hp : parse e = .ok t)
    (hf : repsSafe Tok.isBoundaryT t = true) (ho : onceOpen Tok.isBoundaryT t = true)
    (hw : wfSpec t = some b) : checkS t = b :=
  checkS_eq_wfSpec_partial t b (parse_pshape e t hp) (parse_noAdjZom e t hp) hf ho hw

-- the hypotheses are satisfiable on real expressions, with both verdicts
theorem build_example_accept : (match parse "a/{b{c/,d}e,f}</x{y,*}w:1,2>".toList with
    | .ok t => repsSafe Tok.isBoundaryT t && onceOpen Tok.isBoundaryT t &&
        (wfSpec t == some true) && checkS t
    | .err _ => false) = true := by decide +kernel
example : (match parse "a{b{c/,d},e}/f".toList with
    | .ok t => repsSafe Tok.isBoundaryT t && onceOpen Tok.isBoundaryT t &&
        (wfSpec t == some false) && !checkS t
    | .err _ => false) = true := by decide +kernel

/-! ### non-vacuity and the two counterexamples -/
namespace AdjN

/-- `x</a/:1>y`: a repetition that iterates at most once and both starts and ends with `/` -/
def ex6 : Tok := C [L 'x', R (C [S, L 'a', S]) 1 (some 1), L 'y']

-- the hypotheses of the equivalence hold on the nested example of `RuleAdjNested`, with both
-- verdicts occurring
example : pshape ex1 = true ∧ catsNoAdj Tok.isZomT ex1 = true ∧ repsSafe Tok.isBoundaryT ex1 = true ∧
    onceOpen Tok.isBoundaryT ex1 = true ∧ wfSpec ex1 = some true ∧ checkS ex1 = true := by decide
example : pshape ex2 = true ∧ catsNoAdj Tok.isZomT ex2 = true ∧ repsSafe Tok.isBoundaryT ex2 = true ∧
    onceOpen Tok.isBoundaryT ex2 = true ∧ wfSpec ex2 = some false ∧ checkS ex2 = false := by decide

/-- **completeness is FALSE outside `onceOpen`**: `x</a/:1>y` satisfies every documented rule in
its only expansion `x/a/y`, but the checker applies the self-adjacency rule of repetition bodies
whatever the bounds are and rejects it -/
theorem once_rep_counterexample :
    ¬ (∀ t : Tok, pshape t = true → wfSpec t = some true → checkS t = true) := by
  intro h
  have := h ex6 (by decide) (by decide)
  revert this; decide

example : onceOpen Tok.isBoundaryT ex6 = false ∧ leafTerminalReps ex6 = true := by decide

/-- **soundness is FALSE outside `repsSafe`** (finding K-RULE-REP-NESTED) -/
theorem rep_nested_counterexample' :
    ¬ (∀ (t : Tok) (b : Bool), pshape t = true → checkS t = true → wfSpec t = some b → b = true) := by
  intro h
  have := h ex3 false (by decide) (by decide) (by decide)
  cases this

end AdjN
end Wax
