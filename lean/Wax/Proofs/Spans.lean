import Wax.Proofs.Escape
/-! C17, parser half: every span the parser attaches to a token starts and ends on a character
boundary of the expression, for every expression that parses. -/
namespace Wax

/-- `j` is `i` advanced over some characters, with the byte offset kept in step -/
def Adv (i j : Input) : Prop := ∃ mid, i.rest = mid ++ j.rest ∧ j.loc = i.loc + ulen mid

theorem ulen_append (a b : Str) : ulen (a ++ b) = ulen a + ulen b := by
  simp [ulen, List.map_append, List.sum_append]

theorem Adv.refl (i : Input) : Adv i i := ⟨[], by simp, by simp [ulen]⟩

theorem Adv.trans {i j k : Input} (h1 : Adv i j) (h2 : Adv j k) : Adv i k := by
  obtain ⟨m1, r1, l1⟩ := h1
  obtain ⟨m2, r2, l2⟩ := h2
  exact ⟨m1 ++ m2, by rw [r1, r2, List.append_assoc], by rw [l2, l1, ulen_append]; omega⟩

theorem Adv.le {i j : Input} (h : Adv i j) : i.loc ≤ j.loc := by
  obtain ⟨_, _, l⟩ := h; omega

theorem adv_Adv (i : Input) (n : Nat) : Adv i (i.adv n) :=
  ⟨i.rest.take n, by simp [Input.adv], by simp [Input.adv, ulen]⟩

theorem tag_Adv {i j : Input} {t : String} (h : i.tag t = some j) : Adv i j := by
  unfold Input.tag at h
  dsimp only at h
  split at h
  · injection h with h; subst h; exact adv_Adv _ _
  · cases h

theorem flagToggles_Adv (st : Bool) : ∀ (n : Nat) (i : Input) (any : Bool) (j : Input),
    flagToggles st n i any = some j → Adv i j
  | 0, i, any, j, h => by
    simp only [flagToggles] at h
    split at h
    · injection h with h; subst h; exact Adv.refl _
    · cases h
  | n + 1, i, any, j, h => by
    rw [flagToggles] at h
    split at h
    · rename_i k hk
      have := flagToggles_Adv st n _ true j h
      refine Adv.trans (tag_Adv hk) ?_
      cases st <;> exact this
    · split at h
      · rename_i k hk
        have := flagToggles_Adv st n _ true j h
        refine Adv.trans (tag_Adv hk) ?_
        cases st <;> exact this
      · split at h
        · injection h with h; subst h; exact Adv.refl _
        · cases h

theorem flags_Adv (st : Bool) : ∀ (n : Nat) (i : Input), Adv i (flags st n i)
  | 0, i => Adv.refl _
  | n + 1, i => by
    rw [flags]
    split
    · exact Adv.refl _
    · rename_i j hj
      split
      · exact Adv.refl _
      · rename_i k hk
        split
        · exact Adv.refl _
        · rename_i l hl
          exact Adv.trans (tag_Adv hj) (Adv.trans (flagToggles_Adv st _ _ _ _ hk)
            (Adv.trans (tag_Adv hl) (flags_Adv st n l)))

theorem literalLoop_Adv : ∀ (n : Nat) (i : Input) (acc : Str) (t : Str) (j : Input),
    literalLoop n i acc = some (t, j) → Adv i j
  | 0, i, acc, t, j, h => by
    simp only [literalLoop] at h
    split at h
    · cases h
    · injection h with h; injection h with _ h; subst h; exact Adv.refl _
  | n + 1, i, acc, t, j, h => by
    rw [literalLoop] at h
    split at h
    · split at h
      · cases h
      · injection h with h; injection h with _ h; subst h; exact Adv.refl _
    · split at h
      · split at h
        · cases h
        · split at h
          · exact Adv.trans (adv_Adv _ _) (literalLoop_Adv n _ _ _ _ h)
          · cases h
      · split at h
        · split at h
          · cases h
          · injection h with h; injection h with _ h; subst h; exact Adv.refl _
        · exact Adv.trans (adv_Adv _ _) (literalLoop_Adv n _ _ _ _ h)

theorem parseLiteral_Adv {i j : Input} {t : Str} {ci : Bool}
    (h : parseLiteral i = some (t, ci, j)) : Adv i j := by
  unfold parseLiteral at h
  split at h
  · rename_i t' j' hl
    injection h with h; injection h with _ h; injection h with _ h; subst h
    exact literalLoop_Adv _ _ _ _ _ hl
  · cases h

theorem classChar_Adv {i j : Input} {c : Char} (h : classChar i = some (c, j)) : Adv i j := by
  unfold classChar at h
  split at h
  · cases h
  · split at h
    · split at h
      · split at h
        · injection h with h; injection h with _ h; subst h; exact adv_Adv _ _
        · cases h
      · cases h
    · split at h
      · cases h
      · injection h with h; injection h with _ h; subst h; exact adv_Adv _ _

theorem archetype_Adv {i j : Input} {a : Arch} (h : archetype i = some (a, j)) : Adv i j := by
  unfold archetype at h
  split at h
  · cases h
  · rename_i a' j' h1
    have A1 := classChar_Adv h1
    split at h
    · rename_i k hk
      split at h
      · rename_i b l hl
        injection h with h; injection h with _ h; subst h
        exact Adv.trans A1 (Adv.trans (tag_Adv hk) (classChar_Adv hl))
      · injection h with h; injection h with _ h; subst h; exact A1
    · injection h with h; injection h with _ h; subst h; exact A1

theorem archetypes_Adv : ∀ (n : Nat) (i : Input) (acc : List Arch), Adv i (archetypes n i acc).2
  | 0, i, acc => Adv.refl _
  | n + 1, i, acc => by
    rw [archetypes]
    split
    · rename_i a j h
      exact Adv.trans (archetype_Adv h) (archetypes_Adv n j _)
    · exact Adv.refl _

theorem parseClass_Adv {i j : Input} {neg : Bool} {items : List Arch}
    (h : parseClass i = some (neg, items, j)) : Adv i j := by
  unfold parseClass at h
  cases h1 : i.tag "[" with
  | none => rw [h1] at h; cases h
  | some a =>
    rw [h1] at h
    dsimp only at h
    have A1 := tag_Adv h1
    cases h2 : a.tag "!" with
    | none =>
      rw [h2] at h
      dsimp only at h
      have A3 := archetypes_Adv a.rest.length a []
      generalize archetypes a.rest.length a [] = R at h A3
      obtain ⟨its, l⟩ := R
      dsimp only at h A3
      split at h
      · cases h
      · split at h
        · rename_i m hm
          injection h with h; injection h with _ h; injection h with _ h; subst h
          exact Adv.trans A1 (Adv.trans A3 (tag_Adv hm))
        · cases h
    | some b =>
      rw [h2] at h
      dsimp only at h
      have A2 := tag_Adv h2
      have A3 := archetypes_Adv b.rest.length b []
      generalize archetypes b.rest.length b [] = R at h A3
      obtain ⟨its, l⟩ := R
      dsimp only at h A3
      split at h
      · cases h
      · split at h
        · rename_i m hm
          injection h with h; injection h with _ h; injection h with _ h; subst h
          exact Adv.trans A1 (Adv.trans A2 (Adv.trans A3 (tag_Adv hm)))
        · cases h

/-! `parseWildcard` with its local definitions named -/

def wildPre (i : Input) : Option (Bool × Input) :=
  match i.tag "/" with
  | some j => some (true, flagsS j)
  | none => if i.sub == i.loc then some (false, flagsS i) else none

def wildTree (t : Term) (i : Input) : Option (WildK × Input) :=
  match wildPre i with
  | none => none
  | some (root, j) =>
    match j.tag "**" with
    | none => none
    | some k =>
      match (flagsS k).tag "/" with
      | some l => some (.tree root, l)
      | none => if k.term t then some (.tree root, k) else none

def wildZom (t : Term) (i : Input) (sym : String) (lazy : Bool) : Option (WildK × Input) :=
  match i.tag sym with
  | none => none
  | some j =>
    if isNotStarDollar (flagsN j) then some (.zom lazy, j)
    else if j.term t then some (.zom lazy, j) else none

theorem parseWildcard_eq (t : Term) (i : Input) :
    parseWildcard t i =
      match i.tag "?" with
      | some j => some (.one, j)
      | none =>
        match wildTree t i with
        | some r => some r
        | none =>
          match wildZom t i "*" false with
          | some r => some r
          | none => wildZom t i "$" true := rfl

theorem wildPre_Adv {i j : Input} {root : Bool} (h : wildPre i = some (root, j)) : Adv i j := by
  unfold wildPre at h
  split at h
  · rename_i k hk
    injection h with h; injection h with _ h; subst h
    exact Adv.trans (tag_Adv hk) (flags_Adv _ _ _)
  · split at h
    · injection h with h; injection h with _ h; subst h; exact flags_Adv _ _ _
    · cases h

theorem wildTree_Adv {t : Term} {i j : Input} {k : WildK} (h : wildTree t i = some (k, j)) :
    Adv i j := by
  unfold wildTree at h
  split at h
  · cases h
  · rename_i root a ha
    have A1 := wildPre_Adv ha
    split at h
    · cases h
    · rename_i b hb
      have A2 := tag_Adv hb
      split at h
      · rename_i l hl
        injection h with h; injection h with _ h; subst h
        exact Adv.trans A1 (Adv.trans A2 (Adv.trans (flags_Adv _ _ _) (tag_Adv hl)))
      · split at h
        · injection h with h; injection h with _ h; subst h
          exact Adv.trans A1 A2
        · cases h

theorem wildZom_Adv {t : Term} {i j : Input} {sym : String} {lazy : Bool} {k : WildK}
    (h : wildZom t i sym lazy = some (k, j)) : Adv i j := by
  unfold wildZom at h
  split at h
  · cases h
  · rename_i a ha
    split at h
    · injection h with h; injection h with _ h; subst h; exact tag_Adv ha
    · split at h
      · injection h with h; injection h with _ h; subst h; exact tag_Adv ha
      · cases h

theorem parseWildcard_Adv {t : Term} {i j : Input} {k : WildK}
    (h : parseWildcard t i = some (k, j)) : Adv i j := by
  rw [parseWildcard_eq] at h
  split at h
  · rename_i a ha
    injection h with h; injection h with _ h; subst h; exact tag_Adv ha
  · split at h
    · rename_i r hr
      injection h with h; subst h; exact wildTree_Adv hr
    · split at h
      · rename_i r hr
        injection h with h; subst h; exact wildZom_Adv hr
      · exact wildZom_Adv h

def boundsRange (j : Input) : Option (Nat × Option Nat × Input) :=
  match toUsize (digits j).1 with
  | none => none
  | some lo =>
    match (digits j).2.tag "," with
    | none => none
    | some l =>
      if (digits l).1.isEmpty then some (lo, none, l)
      else match toUsize (digits l).1 with
        | some hi => some (lo, some hi, (digits l).2)
        | none => none

theorem digits_Adv (i : Input) : Adv i (digits i).2 := adv_Adv _ _

theorem boundsRange_Adv {j k : Input} {lo : Nat} {hi : Option Nat}
    (h : boundsRange j = some (lo, hi, k)) : Adv j k := by
  unfold boundsRange at h
  split at h
  · cases h
  · split at h
    · cases h
    · rename_i l hl
      have A := Adv.trans (digits_Adv j) (tag_Adv hl)
      split at h
      · injection h with h; injection h with _ h; injection h with _ h; subst h; exact A
      · split at h
        · injection h with h; injection h with _ h; injection h with _ h; subst h
          exact Adv.trans A (digits_Adv l)
        · cases h

theorem parseBounds_eq (i : Input) :
    parseBounds i =
      match i.tag ":" with
      | none => (0, none, i)
      | some j =>
        match boundsRange j with
        | some r => r
        | none =>
          match toUsize (digits j).1 with
          | some n => (n, some n, (digits j).2)
          | none => (1, none, j) := by
  unfold parseBounds boundsRange
  cases i.tag ":" with
  | none => rfl
  | some j =>
    simp only [digits]
    cases toUsize (List.takeWhile Char.isDigit j.rest) with
    | none => simp
    | some lo => rfl

theorem parseBounds_Adv (i : Input) : Adv i (parseBounds i).2.2 := by
  rw [parseBounds_eq]
  split
  · exact Adv.refl _
  · rename_i j hj
    have A1 := tag_Adv hj
    split
    · rename_i r hr
      obtain ⟨lo, hi, k⟩ := r
      exact Adv.trans A1 (boundsRange_Adv hr)
    · split
      · exact Adv.trans A1 (digits_Adv j)
      · exact A1

/-! ### the invariant -/

/-- byte offset `n` is a character boundary of `e` -/
def Boundary (e : Str) (n : Nat) : Prop := ∃ pre post, e = pre ++ post ∧ n = ulen pre

/-- slicing `e` by the span is safe: both ends are character boundaries (hence within `e`) -/
def SpanOk (e : Str) (sp : Span) : Prop := Boundary e sp.start ∧ Boundary e (sp.start + sp.len)

/-- the parser state is a suffix of `e` and its byte offset is the length of what precedes -/
def WF (e : Str) (i : Input) : Prop := ∃ pre, e = pre ++ i.rest ∧ i.loc = ulen pre

theorem WF.adv {e : Str} {i j : Input} (h : WF e i) (a : Adv i j) : WF e j := by
  obtain ⟨pre, he, hl⟩ := h
  obtain ⟨mid, hr, hl'⟩ := a
  exact ⟨pre ++ mid, by rw [he, hr, List.append_assoc], by rw [hl', hl, ulen_append]⟩

theorem WF.boundary {e : Str} {i : Input} (h : WF e i) : Boundary e i.loc := by
  obtain ⟨pre, he, hl⟩ := h
  exact ⟨pre, i.rest, he, hl⟩

theorem span_ok {e : Str} {a b : Input} (ha : WF e a) (hab : Adv a b) :
    SpanOk e ⟨a.loc, b.loc - a.loc⟩ := by
  refine ⟨ha.boundary, ?_⟩
  have := (ha.adv hab).boundary
  have hle := hab.le
  show Boundary e (a.loc + (b.loc - a.loc))
  rw [Nat.add_sub_cancel' hle]; exact this

mutual
  def TokOk (e : Str) : Tok → Prop
    | .lit sp _ _ => SpanOk e sp
    | .sep sp => SpanOk e sp
    | .cls sp _ _ => SpanOk e sp
    | .one sp => SpanOk e sp
    | .zom sp _ => SpanOk e sp
    | .tree sp _ => SpanOk e sp
    | .alt sp bs => SpanOk e sp ∧ ToksOk e bs
    | .cat sp ts => SpanOk e sp ∧ ToksOk e ts
    | .rep sp body _ _ => SpanOk e sp ∧ TokOk e body
  def ToksOk (e : Str) : List Tok → Prop
    | [] => True
    | t :: ts => TokOk e t ∧ ToksOk e ts
end

theorem toksOk_append (e : Str) : ∀ (a b : List Tok), ToksOk e (a ++ b) ↔ ToksOk e a ∧ ToksOk e b
  | [], b => by simp [ToksOk]
  | t :: a, b => by
    simp only [List.cons_append, ToksOk, toksOk_append e a b, and_assoc]

theorem toksOk_snoc {e : Str} {a : List Tok} {t : Tok} (ha : ToksOk e a) (ht : TokOk e t) :
    ToksOk e (a ++ [t]) := (toksOk_append e a [t]).mpr ⟨ha, ht, trivial⟩

structure Inv (e : Str) (fuel : Nat) : Prop where
  glob : ∀ t i tok j, parseGlob fuel t i = some (tok, j) → WF e i → Adv i j ∧ TokOk e tok
  tokens : ∀ t i acc toks j, parseTokens fuel t i acc = some (toks, j) → WF e i → ToksOk e acc →
    Adv i j ∧ ToksOk e toks
  token : ∀ t i tok j, parseToken fuel t i = some (tok, j) → WF e i → Adv i j ∧ TokOk e tok
  rep : ∀ i body lo hi j, parseRepetition fuel i = some (body, lo, hi, j) → WF e i →
    Adv i j ∧ TokOk e body
  alt : ∀ i bs j, parseAlternation fuel i = some (bs, j) → WF e i → Adv i j ∧ ToksOk e bs
  branches : ∀ i acc bs j, parseBranches fuel i acc = (bs, j) → WF e i → ToksOk e acc →
    Adv i j ∧ ToksOk e bs

theorem inv_zero (e : Str) : Inv e 0 where
  glob := by intro t i tok j h; simp [parseGlob] at h
  tokens := by
    intro t i acc toks j h _ ha
    simp only [parseTokens, Option.some.injEq, Prod.mk.injEq] at h
    obtain ⟨rfl, rfl⟩ := h
    exact ⟨Adv.refl _, ha⟩
  token := by intro t i tok j h; simp [parseToken] at h
  rep := by intro i body lo hi j h; simp [parseRepetition] at h
  alt := by intro i bs j h; simp [parseAlternation] at h
  branches := by
    intro i acc bs j h _ ha
    simp only [parseBranches, Prod.mk.injEq] at h
    obtain ⟨rfl, rfl⟩ := h
    exact ⟨Adv.refl _, ha⟩

theorem inv_succ (e : Str) (fuel : Nat) (ih : Inv e fuel) : Inv e (fuel + 1) where
  glob := by
    intro t i0 tok j h hw
    rw [parseGlob] at h
    dsimp only at h
    split at h
    · cases h
    · rename_i toks k hk
      have hw' : WF e { i0 with sub := i0.loc } := hw
      obtain ⟨A, hts⟩ := ih.tokens _ _ _ _ _ hk hw' trivial
      split at h
      · cases h
      · split at h
        · injection h with h; injection h with h1 h2; subst h1 h2
          exact ⟨A, span_ok hw' A, hts⟩
        · cases h
  tokens := by
    intro t i acc toks j h hw ha
    rw [parseTokens] at h
    split at h
    · rename_i tok k hk
      obtain ⟨A, ht⟩ := ih.token _ _ _ _ hk hw
      split at h
      · injection h with h; injection h with h1 h2; subst h1 h2
        exact ⟨Adv.refl _, ha⟩
      · obtain ⟨A', hts⟩ := ih.tokens _ _ _ _ _ h (hw.adv A) (toksOk_snoc ha ht)
        exact ⟨Adv.trans A A', hts⟩
    · injection h with h; injection h with h1 h2; subst h1 h2
      exact ⟨Adv.refl _, ha⟩
  token := by
    intro t i tok j h hw
    rw [parseToken] at h
    dsimp only at h
    have Af : Adv i (flagsS i) := flags_Adv _ _ _
    have hwf : WF e (flagsS i) := hw.adv Af
    split at h
    · rename_i text ci k hk
      injection h with h; injection h with h1 h2; subst h1 h2
      have A := Adv.trans Af (parseLiteral_Adv hk)
      exact ⟨A, span_ok hw A⟩
    · split at h
      · rename_i body lo hi k hk
        injection h with h; injection h with h1 h2; subst h1 h2
        obtain ⟨A', hb⟩ := ih.rep _ _ _ _ _ hk hwf
        have A := Adv.trans Af A'
        exact ⟨A, span_ok hw A, hb⟩
      · split at h
        · rename_i bs k hk
          injection h with h; injection h with h1 h2; subst h1 h2
          obtain ⟨A', hb⟩ := ih.alt _ _ _ hk hwf
          have A := Adv.trans Af A'
          exact ⟨A, span_ok hw A, hb⟩
        · split at h
          · rename_i k hk
            injection h with h; injection h with h1 h2; subst h1 h2
            have A := Adv.trans Af (parseWildcard_Adv hk)
            exact ⟨A, span_ok hw A⟩
          · rename_i r k hk
            injection h with h; injection h with h1 h2; subst h1 h2
            have A := Adv.trans Af (parseWildcard_Adv hk)
            exact ⟨A, span_ok hw A⟩
          · rename_i l k hk
            injection h with h; injection h with h1 h2; subst h1 h2
            have A := Adv.trans Af (parseWildcard_Adv hk)
            exact ⟨A, span_ok hw A⟩
          · split at h
            · rename_i neg items k hk
              injection h with h; injection h with h1 h2; subst h1 h2
              have A := Adv.trans Af (parseClass_Adv hk)
              exact ⟨A, span_ok hw A⟩
            · split at h
              · rename_i k hk
                injection h with h; injection h with h1 h2; subst h1 h2
                have A := Adv.trans Af (tag_Adv hk)
                exact ⟨A, span_ok hw A⟩
              · cases h
  rep := by
    intro i body lo hi j h hw
    rw [parseRepetition] at h
    split at h
    · cases h
    · rename_i a ha
      have A1 := tag_Adv ha
      split at h
      · cases h
      · rename_i b k hk
        obtain ⟨A2, hb⟩ := ih.glob _ _ _ _ hk (hw.adv A1)
        have A3 := parseBounds_Adv k
        generalize parseBounds k = R at h A3
        obtain ⟨lo', hi', l⟩ := R
        dsimp only at h A3
        split at h
        · rename_i m hm
          injection h with h; injection h with h1 h; injection h with h2 h; injection h with h3 h4
          subst h1 h4
          exact ⟨Adv.trans A1 (Adv.trans A2 (Adv.trans A3 (tag_Adv hm))), hb⟩
        · cases h
  alt := by
    intro i bs j h hw
    rw [parseAlternation] at h
    split at h
    · cases h
    · rename_i a ha
      have A1 := tag_Adv ha
      split at h
      · cases h
      · rename_i b k hk
        obtain ⟨A2, hb⟩ := ih.glob _ _ _ _ hk (hw.adv A1)
        have hwk := (hw.adv A1).adv A2
        have hB := ih.branches k [b]
        generalize parseBranches fuel k [b] = R at h hB
        obtain ⟨bs', l⟩ := R
        obtain ⟨A3, hbs⟩ := hB bs' l rfl hwk ⟨hb, trivial⟩
        dsimp only at h
        split at h
        · rename_i m hm
          injection h with h; injection h with h1 h2; subst h1 h2
          exact ⟨Adv.trans A1 (Adv.trans A2 (Adv.trans A3 (tag_Adv hm))), hbs⟩
        · cases h
  branches := by
    intro i acc bs j h hw ha
    rw [parseBranches] at h
    split at h
    · injection h with h1 h2; subst h1 h2; exact ⟨Adv.refl _, ha⟩
    · rename_i a haa
      have A1 := tag_Adv haa
      split at h
      · injection h with h1 h2; subst h1 h2; exact ⟨Adv.refl _, ha⟩
      · rename_i b k hk
        obtain ⟨A2, hb⟩ := ih.glob _ _ _ _ hk (hw.adv A1)
        obtain ⟨A3, hbs⟩ := ih.branches _ _ _ _ h ((hw.adv A1).adv A2) (toksOk_snoc ha hb)
        exact ⟨Adv.trans A1 (Adv.trans A2 A3), hbs⟩

theorem inv_all (e : Str) : ∀ fuel, Inv e fuel
  | 0 => inv_zero e
  | n + 1 => inv_succ e n (inv_all e n)

/-- **C17, parser half**: whenever an expression parses, every span in the token tree starts and
ends on a character boundary of the expression (so `&expression[start..][..len]` cannot panic),
for every expression. -/
theorem parse_spans_ok (e : Str) (t : Tok) (h : parse e = .ok t) : TokOk e t := by
  unfold parse at h
  split at h
  · injection h with h; subst h
    show SpanOk e _
    exact ⟨⟨[], e, rfl, rfl⟩, ⟨[], e, rfl, rfl⟩⟩
  · dsimp only at h
    split at h
    · cases h
    · rename_i toks j hj
      have hw : WF e { rest := e, loc := 0, ci := false, sub := 0 } := ⟨[], rfl, rfl⟩
      obtain ⟨A, hts⟩ := (inv_all e _).tokens _ _ _ _ _ hj hw trivial
      split at h
      · cases h
      · split at h
        · injection h with h; subst h
          have := span_ok hw A
          exact ⟨by simpa using this, hts⟩
        · cases h

/-- every location a parse error reports is a character boundary of the expression (the width
the crate attaches to it is the subject of repair 7 and is checked separately) -/
theorem parse_err_boundary (e : Str) (locs : List Nat) (h : parse e = .err locs) :
    ∀ l ∈ locs, Boundary e l := by
  have h0 : Boundary e 0 := ⟨[], e, rfl, rfl⟩
  unfold parse at h
  split at h
  · cases h
  · dsimp only at h
    have hw : WF e { rest := e, loc := 0, ci := false, sub := 0 } := ⟨[], rfl, rfl⟩
    split at h
    · injection h with h; subst h; intro l hl; cases hl
    · rename_i toks j hj
      obtain ⟨A, _⟩ := (inv_all e _).tokens _ _ _ _ _ hj hw trivial
      split at h
      · injection h with h; subst h
        intro l hl
        simp only [List.mem_cons, List.not_mem_nil, or_false] at hl
        rcases hl with rfl | rfl | rfl | rfl
        · exact (hw.adv (flags_Adv _ _ _)).boundary
        · exact h0
        · exact h0
        · exact h0
      · split at h
        · cases h
        · injection h with h; subst h
          intro l hl
          simp only [List.mem_cons, List.not_mem_nil, or_false] at hl
          subst hl
          exact (hw.adv A).boundary

def ParseResult.isOk : ParseResult → Bool
  | .ok _ => true
  | .err _ => false

-- non-vacuity: a two-byte character next to a wildcard inside an alternation parses
example : (parse "é{*,b}".toList).isOk = true := by decide

example : ∃ t, parse "é{*,b}".toList = .ok t ∧ TokOk "é{*,b}".toList t := by
  have hok : (parse "é{*,b}".toList).isOk = true := by decide
  cases h : parse "é{*,b}".toList with
  | ok t => exact ⟨t, rfl, parse_spans_ok _ t h⟩
  | err l => rw [h] at hok; cases hok

end Wax
