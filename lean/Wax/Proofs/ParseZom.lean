import Wax.Proofs.RuleAdjNested
import Wax.Proofs.Spans
/-!
A shape fact about the parser that rule R2 needs: no concatenation the parser returns lists two
zero-or-more wildcards side by side (`catsNoAdj Tok.isZomT`).  A `*` / `$` is only accepted when
what follows (after flags) is not `*` / `$`, or is the terminator of the enclosing group; in both
cases the next token cannot be a zero-or-more wildcard.
-/
set_option linter.unusedSimpArgs false
namespace Wax
namespace AdjN

/-! ### flags with and without state consume the same text -/

def RR (a b : Option Input) : Prop :=
  match a, b with
  | none, none => True
  | some x, some y => x.rest = y.rest
  | _, _ => False

theorem tag_RR {i i' : Input} (s : String) (h : i.rest = i'.rest) : RR (i.tag s) (i'.tag s) := by
  unfold Input.tag
  dsimp only
  rw [h]
  split
  · simp [RR, Input.adv, h]
  · simp [RR]

theorem flagToggles_RR : ∀ (n : Nat) (i i' : Input) (any : Bool), i.rest = i'.rest →
    RR (flagToggles true n i any) (flagToggles false n i' any)
  | 0, i, i', any, h => by
    simp only [flagToggles]
    cases any <;> simp [RR, h]
  | n + 1, i, i', any, h => by
    rw [flagToggles, flagToggles]
    have h1 := tag_RR "i" h
    cases e1 : i.tag "i" with
    | some j =>
      cases e1' : i'.tag "i" with
      | some j' =>
        rw [e1, e1'] at h1
        exact flagToggles_RR n _ _ true (by simpa [RR] using h1)
      | none => rw [e1, e1'] at h1; exact h1.elim
    | none =>
      cases e1' : i'.tag "i" with
      | some j' => rw [e1, e1'] at h1; exact h1.elim
      | none =>
        dsimp only
        have h2 := tag_RR "-i" h
        cases e2 : i.tag "-i" with
        | some j =>
          cases e2' : i'.tag "-i" with
          | some j' =>
            rw [e2, e2'] at h2
            exact flagToggles_RR n _ _ true (by simpa [RR] using h2)
          | none => rw [e2, e2'] at h2; exact h2.elim
        | none =>
          cases e2' : i'.tag "-i" with
          | some j' => rw [e2, e2'] at h2; exact h2.elim
          | none => cases any <;> simp [RR, h]

theorem flags_rest : ∀ (n : Nat) (i i' : Input), i.rest = i'.rest →
    (flags true n i).rest = (flags false n i').rest
  | 0, _, _, h => h
  | n + 1, i, i', h => by
    rw [flags, flags]
    have h1 := tag_RR "(?" h
    cases e1 : i.tag "(?" with
    | none =>
      cases e1' : i'.tag "(?" with
      | none => exact h
      | some j' => rw [e1, e1'] at h1; exact h1.elim
    | some j =>
      cases e1' : i'.tag "(?" with
      | none => rw [e1, e1'] at h1; exact h1.elim
      | some j' =>
        rw [e1, e1'] at h1
        have hj : j.rest = j'.rest := h1
        dsimp only
        have h2 := flagToggles_RR j.rest.length j j' false hj
        rw [← hj]
        cases e2 : flagToggles true j.rest.length j false with
        | none =>
          cases e2' : flagToggles false j.rest.length j' false with
          | none => exact h
          | some k' => rw [e2, e2'] at h2; exact h2.elim
        | some k =>
          cases e2' : flagToggles false j.rest.length j' false with
          | none => rw [e2, e2'] at h2; exact h2.elim
          | some k' =>
            rw [e2, e2'] at h2
            have hk : k.rest = k'.rest := h2
            dsimp only
            have h3 := tag_RR ")" hk
            cases e3 : k.tag ")" with
            | none =>
              cases e3' : k'.tag ")" with
              | none => exact h
              | some l' => rw [e3, e3'] at h3; exact h3.elim
            | some l =>
              cases e3' : k'.tag ")" with
              | none => rw [e3, e3'] at h3; exact h3.elim
              | some l' =>
                rw [e3, e3'] at h3
                exact flags_rest n l l' h3

theorem flagsS_rest (i : Input) : (flagsS i).rest = (flagsN i).rest :=
  flags_rest _ i i rfl


/-! ### where a zero-or-more wildcard cannot be parsed -/

/-- what `parseWildcard` checks after a `*` / `$` -/
def NZ (t : Term) (i : Input) : Prop := isNotStarDollar (flagsN i) = true ∨ i.term t = true

theorem tag_head {i j : Input} {s : String} {c : Char} {r : List Char} (h : i.tag s = some j)
    (hs : s.toList = c :: r) : ∃ cs, i.rest = c :: cs := by
  unfold Input.tag at h
  dsimp only at h
  split at h
  · rename_i hp
    rw [hs] at hp
    cases hr : i.rest with
    | nil => rw [hr] at hp; simp at hp
    | cons d ds =>
      rw [hr] at hp
      simp only [List.isPrefixOf, Bool.and_eq_true, beq_iff_eq] at hp
      exact ⟨ds, by rw [hp.1]⟩
  · cases h

theorem flags_noParen (st : Bool) : ∀ (n : Nat) (i : Input), (∀ cs, i.rest ≠ '(' :: cs) →
    flags st n i = i
  | 0, _, _ => rfl
  | n + 1, i, h => by
    rw [flags]
    cases e : i.tag "(?" with
    | none => rfl
    | some j =>
      obtain ⟨cs, hcs⟩ := tag_head e (c := '(') (r := ['?']) (by decide)
      exact absurd hcs (h cs)

theorem term_noParen {t : Term} {i : Input} (h : i.term t = true) : ∀ cs, i.rest ≠ '(' :: cs := by
  intro cs e
  cases t with
  | eof => simp [Input.term, e] at h
  | altT => simp [Input.term, e] at h
  | repT => simp [Input.term, e] at h

theorem term_noStar {t : Term} {i : Input} (h : i.term t = true) :
    ∀ cs, i.rest ≠ '*' :: cs ∧ i.rest ≠ '$' :: cs := by
  intro cs
  constructor <;> intro e
  all_goals
    cases t with
    | eof => simp [Input.term, e] at h
    | altT => simp [Input.term, e] at h
    | repT => simp [Input.term, e] at h

/-- where `NZ` holds, the text after the flags does not start with `*` or `$` -/
theorem NZ_noStar {t : Term} {i : Input} (h : NZ t i) :
    ∀ cs, (flagsS i).rest ≠ '*' :: cs ∧ (flagsS i).rest ≠ '$' :: cs := by
  intro cs
  rcases h with h | h
  · rw [flagsS_rest]
    unfold isNotStarDollar at h
    constructor <;> intro e <;> simp [e] at h
  · have : flagsS i = i := flags_noParen true _ i (term_noParen h)
    rw [this]; exact term_noStar h cs

theorem wildTree_kind {t : Term} {i j : Input} {k : WildK} (h : wildTree t i = some (k, j)) :
    ∃ r, k = .tree r := by
  unfold wildTree at h
  split at h
  · cases h
  · split at h
    · cases h
    · split at h
      · injection h with h; injection h with h _; exact ⟨_, h.symm⟩
      · split at h
        · injection h with h; injection h with h _; exact ⟨_, h.symm⟩
        · cases h

theorem wildZom_facts {t : Term} {i j : Input} {sym : String} {lazy : Bool} {k : WildK}
    (h : wildZom t i sym lazy = some (k, j)) : (∃ a, i.tag sym = some a) ∧ NZ t j := by
  unfold wildZom at h
  split at h
  · cases h
  · rename_i a ha
    split at h
    · rename_i hn
      injection h with h; injection h with _ h; subst h
      exact ⟨⟨_, ha⟩, Or.inl hn⟩
    · split at h
      · rename_i ht
        injection h with h; injection h with _ h; subst h
        exact ⟨⟨_, ha⟩, Or.inr ht⟩
      · cases h

/-- a zero-or-more wildcard is only parsed at a `*` / `$`, and leaves `NZ` behind -/
theorem parseWildcard_zom {t : Term} {f j : Input} {l : Bool}
    (h : parseWildcard t f = some (.zom l, j)) :
    (∃ cs, f.rest = '*' :: cs ∨ f.rest = '$' :: cs) ∧ NZ t j := by
  rw [parseWildcard_eq] at h
  split at h
  · injection h with h; injection h with h _; cases h
  · split at h
    · rename_i r hr
      injection h with h; subst h
      obtain ⟨_, hk⟩ := wildTree_kind hr
      cases hk
    · split at h
      · rename_i r hr
        injection h with h; subst h
        obtain ⟨⟨a, ha⟩, hn⟩ := wildZom_facts hr
        obtain ⟨cs, hcs⟩ := tag_head ha (c := '*') (r := []) (by decide)
        exact ⟨⟨cs, Or.inl hcs⟩, hn⟩
      · obtain ⟨⟨a, ha⟩, hn⟩ := wildZom_facts h
        obtain ⟨cs, hcs⟩ := tag_head ha (c := '$') (r := []) (by decide)
        exact ⟨⟨cs, Or.inr hcs⟩, hn⟩


/-! ### the invariant through the parser -/

def lastZ : List Tok → Bool
  | [] => false
  | [a] => a.isZomT
  | _ :: b :: r => lastZ (b :: r)

theorem lastZ_snoc : ∀ (acc : List Tok) (t : Tok), lastZ (acc ++ [t]) = t.isZomT
  | [], _ => rfl
  | [a], _ => rfl
  | a :: b :: r, t => by
    have := lastZ_snoc (b :: r) t
    simpa [lastZ] using this

theorem noAdjT_snoc : ∀ (acc : List Tok) (t : Tok), noAdjT Tok.isZomT (acc ++ [t]) =
    (noAdjT Tok.isZomT acc && !(lastZ acc && t.isZomT))
  | [], _ => by simp [noAdjT, lastZ]
  | [a], t => by simp [noAdjT, lastZ]
  | a :: b :: r, t => by
    have := noAdjT_snoc (b :: r) t
    simp only [List.cons_append, noAdjT, lastZ] at this ⊢
    rw [this, Bool.and_assoc]

theorem catsNoAdjL_append (q : Tok → Bool) : ∀ (a b : List Tok),
    catsNoAdjL q (a ++ b) = (catsNoAdjL q a && catsNoAdjL q b)
  | [], b => by simp [catsNoAdjL]
  | t :: a, b => by simp [catsNoAdjL, catsNoAdjL_append q a b, Bool.and_assoc]

structure ZInv (fuel : Nat) : Prop where
  glob : ∀ t i tok j, parseGlob fuel t i = some (tok, j) → catsNoAdj Tok.isZomT tok = true
  tokens : ∀ t i acc toks j, parseTokens fuel t i acc = some (toks, j) →
    catsNoAdjL Tok.isZomT acc = true → noAdjT Tok.isZomT acc = true →
    (lastZ acc = true → NZ t i) →
    catsNoAdjL Tok.isZomT toks = true ∧ noAdjT Tok.isZomT toks = true
  token : ∀ t i tok j, parseToken fuel t i = some (tok, j) →
    catsNoAdj Tok.isZomT tok = true ∧ (NZ t i → tok.isZomT = false) ∧ (tok.isZomT = true → NZ t j)
  rep : ∀ i body lo hi j, parseRepetition fuel i = some (body, lo, hi, j) →
    catsNoAdj Tok.isZomT body = true
  alt : ∀ i bs j, parseAlternation fuel i = some (bs, j) → catsNoAdjL Tok.isZomT bs = true
  branches : ∀ i acc bs j, parseBranches fuel i acc = (bs, j) → catsNoAdjL Tok.isZomT acc = true →
    catsNoAdjL Tok.isZomT bs = true

theorem zinv_zero : ZInv 0 where
  glob := by intro t i tok j h; simp [parseGlob] at h
  tokens := by
    intro t i acc toks j h ha hn _
    simp only [parseTokens, Option.some.injEq, Prod.mk.injEq] at h
    obtain ⟨rfl, rfl⟩ := h; exact ⟨ha, hn⟩
  token := by intro t i tok j h; simp [parseToken] at h
  rep := by intro i body lo hi j h; simp [parseRepetition] at h
  alt := by intro i bs j h; simp [parseAlternation] at h
  branches := by
    intro i acc bs j h ha
    simp only [parseBranches, Prod.mk.injEq] at h
    obtain ⟨rfl, rfl⟩ := h; exact ha

theorem zinv_succ (fuel : Nat) (ih : ZInv fuel) : ZInv (fuel + 1) where
  glob := by
    intro t i0 tok j h
    rw [parseGlob] at h
    dsimp only at h
    split at h
    · cases h
    · rename_i toks k hk
      have hts := ih.tokens _ _ _ _ _ hk rfl rfl (fun e => by cases e)
      split at h
      · cases h
      · split at h
        · injection h with h; injection h with h1 h2; subst h1 h2
          simp only [catsNoAdj, Bool.and_eq_true]; exact ⟨hts.2, hts.1⟩
        · cases h
  tokens := by
    intro t i acc toks j h ha hn hl
    rw [parseTokens] at h
    split at h
    · rename_i tok k hk
      obtain ⟨ht, hz1, hz2⟩ := ih.token _ _ _ _ hk
      split at h
      · injection h with h; injection h with h1 h2; subst h1 h2; exact ⟨ha, hn⟩
      · refine ih.tokens _ _ _ _ _ h ?_ ?_ ?_
        · rw [catsNoAdjL_append]; simp [catsNoAdjL, ha, ht]
        · rw [noAdjT_snoc, hn, Bool.true_and]
          cases hlz : lastZ acc with
          | false => rfl
          | true => rw [hz1 (hl hlz)]; rfl
        · rw [lastZ_snoc]; exact hz2
    · injection h with h; injection h with h1 h2; subst h1 h2; exact ⟨ha, hn⟩
  token := by
    intro t i tok j h
    rw [parseToken] at h
    dsimp only at h
    split at h
    · injection h with h; injection h with h1 h2; subst h1 h2
      exact ⟨rfl, fun _ => rfl, fun e => by cases e⟩
    · split at h
      · rename_i body lo hi k hk
        injection h with h; injection h with h1 h2; subst h1 h2
        exact ⟨by simpa [catsNoAdj] using ih.rep _ _ _ _ _ hk, fun _ => rfl, fun e => by cases e⟩
      · split at h
        · rename_i bs k hk
          injection h with h; injection h with h1 h2; subst h1 h2
          exact ⟨by simpa [catsNoAdj] using ih.alt _ _ _ hk, fun _ => rfl, fun e => by cases e⟩
        · split at h
          · injection h with h; injection h with h1 h2; subst h1 h2
            exact ⟨rfl, fun _ => rfl, fun e => by cases e⟩
          · injection h with h; injection h with h1 h2; subst h1 h2
            exact ⟨rfl, fun _ => rfl, fun e => by cases e⟩
          · rename_i l k hk
            injection h with h; injection h with h1 h2; subst h1 h2
            obtain ⟨⟨cs, hcs⟩, hn⟩ := parseWildcard_zom hk
            refine ⟨rfl, fun hnz => ?_, fun _ => hn⟩
            exfalso
            have := NZ_noStar hnz cs
            rcases hcs with hcs | hcs
            · exact this.1 hcs
            · exact this.2 hcs
          · split at h
            · injection h with h; injection h with h1 h2; subst h1 h2
              exact ⟨rfl, fun _ => rfl, fun e => by cases e⟩
            · split at h
              · injection h with h; injection h with h1 h2; subst h1 h2
                exact ⟨rfl, fun _ => rfl, fun e => by cases e⟩
              · cases h
  rep := by
    intro i body lo hi j h
    rw [parseRepetition] at h
    split at h
    · cases h
    · split at h
      · cases h
      · rename_i b k hk
        have hb := ih.glob _ _ _ _ hk
        generalize parseBounds k = R at h
        obtain ⟨lo', hi', l⟩ := R
        dsimp only at h
        split at h
        · injection h with h; injection h with h1 h; subst h1; exact hb
        · cases h
  alt := by
    intro i bs j h
    rw [parseAlternation] at h
    split at h
    · cases h
    · split at h
      · cases h
      · rename_i b k hk
        have hb := ih.glob _ _ _ _ hk
        have hB := ih.branches k [b]
        generalize parseBranches fuel k [b] = R at h hB
        obtain ⟨bs', l⟩ := R
        have h1 := hB bs' l rfl (by simp [catsNoAdjL, hb])
        dsimp only at h
        split at h
        · injection h with h; injection h with e1 e2; subst e1; exact h1
        · cases h
  branches := by
    intro i acc bs j h ha
    rw [parseBranches] at h
    split at h
    · injection h with h1 h2; subst h1 h2; exact ha
    · split at h
      · injection h with h1 h2; subst h1 h2; exact ha
      · rename_i b k hk
        have hb := ih.glob _ _ _ _ hk
        exact ih.branches _ _ _ _ h (by rw [catsNoAdjL_append]; simp [catsNoAdjL, ha, hb])

theorem zinv_all : ∀ fuel, ZInv fuel
  | 0 => zinv_zero
  | n + 1 => zinv_succ n (zinv_all n)

end AdjN

open AdjN

/-- every token tree the parser returns is free of side-by-side zero-or-more wildcards -/
theorem parse_noAdjZom (e : Str) (t : Tok) (h : parse e = .ok t) :
    catsNoAdj Tok.isZomT t = true := by
  unfold parse at h
  split at h
  · injection h with h; subst h; rfl
  · dsimp only at h
    split at h
    · cases h
    · rename_i toks j hj
      have hts := (zinv_all _).tokens _ _ _ _ _ hj rfl rfl (fun e => by cases e)
      split at h
      · cases h
      · split at h
        · injection h with h; subst h
          simp only [catsNoAdj, Bool.and_eq_true]; exact ⟨hts.2, hts.1⟩
        · cases h

end Wax
