import Wax.Partition
import Wax.Proofs.PartitionFn
import Wax.Proofs.TextMatches
/-!
C08 on more shapes: wholly invariant globs, globs with no invariant prefix, prefixes made of
arbitrary text-invariant tokens, the rooted tree wildcard as the boundary, and idempotence of
`partition` on the postfixes it produces.

All statements are about token trees, byte offsets and the documented language.  The postfix
EXPRESSION TEXT of the crate (the bytes of the expression from `off` on) is not modelled by
`partition` and nothing is claimed about it here: that is where the recorded findings
`(?i)1/b*` (a case flag inside the removed bytes) and `(?i)/**/1` (a flag inside the span of the
rooted tree wildcard) live.  The token-level findings are excluded by explicit hypotheses:
`wellT`/`wellL` excludes a class listing a separator (`[/]ab`), and `hasRoot _ ≠ .always` /
`firstRootedVariant _ = false` excludes a rooting repetition (`</a:1,>`).
-/
set_option linter.unusedSimpArgs false
set_option linter.unusedVariables false
namespace Wax

/-- the span map `partition` applies to the postfix -/
def shiftSpan (off : Nat) (s : Span) : Span := ⟨s.start - off, s.len⟩

/-- bytes covered by a token list (sum of the span lengths) -/
def spanSum (ts : List Tok) : Nat := (ts.map (fun x => x.span.len)).sum

theorem shiftSpan_zero : shiftSpan 0 = fun s => s := by
  funext s; cases s; rfl

/-! ### span maps leave every query alone -/

mutual
  theorem mapSpans_id : ∀ (t : Tok), t.mapSpans (fun s => s) = t
    | .lit .. => rfl
    | .sep _ => rfl
    | .cls .. => rfl
    | .one _ => rfl
    | .zom .. => rfl
    | .tree .. => rfl
    | .alt _ bs => by simp only [Tok.mapSpans, mapSpansL_id bs]
    | .cat _ ts => by simp only [Tok.mapSpans, mapSpansL_id ts]
    | .rep _ b _ _ => by simp only [Tok.mapSpans, mapSpans_id b]
  theorem mapSpansL_id : ∀ (ts : List Tok), mapSpansL (fun s => s) ts = ts
    | [] => rfl
    | t :: ts => by simp only [mapSpansL, mapSpans_id t, mapSpansL_id ts]
end

mutual
  theorem textTok_mapSpans (κ : Casing) (f : Span → Span) : ∀ (t : Tok),
      textTok κ (t.mapSpans f) = textTok κ t
    | .lit .. => rfl
    | .sep _ => rfl
    | .cls .. => rfl
    | .one _ => rfl
    | .zom .. => rfl
    | .tree .. => rfl
    | .alt _ bs => by simp only [Tok.mapSpans, textTok, textAlt_mapSpans κ f bs]
    | .cat _ ts => by simp only [Tok.mapSpans, textTok, textCat_mapSpans κ f ts]
    | .rep _ b _ _ => by simp only [Tok.mapSpans, textTok, textTok_mapSpans κ f b]
  theorem textCat_mapSpans (κ : Casing) (f : Span → Span) : ∀ (ts : List Tok),
      textCat κ (mapSpansL f ts) = textCat κ ts
    | [] => rfl
    | [t] => by simp only [mapSpansL, textCat, textTok_mapSpans κ f t]
    | t :: t2 :: ts => by
      have := textCat_mapSpans κ f (t2 :: ts)
      simp only [mapSpansL] at this
      simp only [mapSpansL, textCat, textTok_mapSpans κ f t, this]
  theorem textAlt_mapSpans (κ : Casing) (f : Span → Span) : ∀ (ts : List Tok),
      textAlt κ (mapSpansL f ts) = textAlt κ ts
    | [] => rfl
    | [t] => by simp only [mapSpansL, textAlt, textTok_mapSpans κ f t]
    | t :: t2 :: ts => by
      have := textAlt_mapSpans κ f (t2 :: ts)
      simp only [mapSpansL] at this
      simp only [mapSpansL, textAlt, textTok_mapSpans κ f t, this]
end

mutual
  theorem rootTok_mapSpans (f : Span → Span) : ∀ (t : Tok), rootTok (t.mapSpans f) = rootTok t
    | .lit .. => rfl
    | .sep _ => rfl
    | .cls .. => rfl
    | .one _ => rfl
    | .zom .. => rfl
    | .tree .. => rfl
    | .alt _ bs => by simp only [Tok.mapSpans, rootTok, rootBranches_mapSpans f bs]
    | .cat _ ts => by
      cases ts with
      | nil => rfl
      | cons t ts => simp only [Tok.mapSpans, mapSpansL, rootTok, rootFirst, rootTok_mapSpans f t]
    | .rep _ b _ _ => by simp only [Tok.mapSpans, rootTok, rootTok_mapSpans f b]
  theorem rootBranches_mapSpans (f : Span → Span) : ∀ (bs : List Tok),
      rootBranches (mapSpansL f bs) = rootBranches bs
    | [] => rfl
    | b :: bs => by
      simp only [mapSpansL, rootBranches, rootTok_mapSpans f b, rootBranches_mapSpans f bs]
end

theorem hasRoot_mapSpans (f : Span → Span) (t : Tok) : hasRoot (t.mapSpans f) = hasRoot t := by
  simp only [hasRoot, rootTok_mapSpans]

theorem isBoundaryTok_mapSpans (f : Span → Span) (t : Tok) :
    isBoundaryTok (t.mapSpans f) = isBoundaryTok t := by
  cases t <;> rfl

/-! ### the scan over text-invariant tokens -/

theorem textCat_concatenation (κ : Casing) (t : Tok) : textCat κ t.concatenation = textTok κ t := by
  cases t <;> simp only [Tok.concatenation, textCat, textTok]

theorem textCat_cons_inv {κ : Casing} {t : Tok} {ts : List Tok} {fs : List Frag}
    (h : textCat κ (t :: ts) = .inv fs) :
    ∃ a b, textTok κ t = .inv a ∧ textCat κ ts = .inv b ∧
      fragsToStr fs = fragsToStr a ++ fragsToStr b := by
  cases ts with
  | nil =>
    simp only [textCat] at h
    exact ⟨fs, [], h, rfl, by simp [fragsToStr]⟩
  | cons t2 ts =>
    simp only [textCat] at h
    obtain ⟨a, b, ha, hb, rfl⟩ := conj_inv h
    exact ⟨a, b, ha, hb, fragsToStr_fragConj a b⟩

theorem prefixGo_inv_step (κ : Casing) {tok : Tok} {a : List Frag} (h : textTok κ tok = .inv a)
    (n : Nat) (rest : List Tok) (head check : Option (Nat × Str)) :
    prefixGo κ n (tok :: rest) head check =
      prefixGo κ (n + 1) rest (some (n, headText head ++ fragsToStr a))
        (if isBoundaryTok tok then some (n, headText head ++ fragsToStr a) else check) := by
  simp only [prefixGo, h]
  cases head <;> rfl

theorem prefixGo_var_step (κ : Casing) {tok : Tok} (h : ∀ fs, textTok κ tok ≠ .inv fs)
    (n : Nat) (rest : List Tok) (head check : Option (Nat × Str)) :
    prefixGo κ n (tok :: rest) head check = pick (if isBoundaryTok tok then head else check) := by
  cases hv : textTok κ tok with
  | inv fs => exact absurd hv (h fs)
  | unb => simp only [prefixGo, hv]
  | bnd => simp only [prefixGo, hv]

/-- scanning a non-empty run of text-invariant tokens: the head becomes the last of them with the
accumulated text; the check is whatever it is -/
theorem prefixGo_invs (κ : Casing) : ∀ (pre : List Tok) (fs : List Frag),
    textCat κ pre = .inv fs → pre ≠ [] →
    ∀ (rest : List Tok) (n : Nat) (head check : Option (Nat × Str)), ∃ check',
      prefixGo κ n (pre ++ rest) head check =
        prefixGo κ (n + pre.length) rest
          (some (n + pre.length - 1, headText head ++ fragsToStr fs)) check'
  | [], _, _, hne => absurd rfl hne
  | t :: ts, fs, h, _ => by
    intro rest n head check
    obtain ⟨a, b, ha, hb, hfs⟩ := textCat_cons_inv h
    rw [List.cons_append, prefixGo_inv_step κ ha]
    cases ts with
    | nil =>
      simp only [textCat, TVar.inv.injEq] at hb
      subst hb
      refine ⟨if isBoundaryTok t then some (n, headText head ++ fragsToStr a) else check, ?_⟩
      simp only [List.nil_append, List.length_cons, List.length_nil, Nat.zero_add, Nat.add_sub_cancel,
        hfs, fragsToStr, List.append_nil]
    | cons t2 ts =>
      obtain ⟨c', hc'⟩ := prefixGo_invs κ (t2 :: ts) b hb (by simp) rest (n + 1)
        (some (n, headText head ++ fragsToStr a))
        (if isBoundaryTok t then some (n, headText head ++ fragsToStr a) else check)
      refine ⟨c', ?_⟩
      rw [hc']
      have e1 : n + 1 + (t2 :: ts).length = n + (t :: t2 :: ts).length := by
        simp only [List.length_cons]; omega
      rw [e1, hfs]
      simp only [headText, List.append_assoc]

theorem firstRootedVariant_inv {κ : Casing} {t : Tok} {ts : List Tok} {a : List Frag}
    (h : textTok κ t = .inv a) : firstRootedVariant κ (t :: ts) = false := by
  simp only [firstRootedVariant, h, Bool.and_false]

/-! ### 1. wholly invariant globs -/

theorem invariantTextPrefix_invariant (κ : Casing) (t : Tok) (fs : List Frag)
    (h : textTok κ t = .inv fs) :
    invariantTextPrefix κ t = (t.concatenation.length, fragsToStr fs) := by
  rw [← textCat_concatenation] at h
  unfold invariantTextPrefix
  cases hc : t.concatenation with
  | nil =>
    rw [hc] at h
    simp only [textCat, TVar.inv.injEq] at h
    subst h
    rfl
  | cons f more =>
    rw [hc] at h
    obtain ⟨a, b, ha, _, _⟩ := textCat_cons_inv h
    simp only [firstRootedVariant_inv ha, Bool.false_eq_true, ↓reduceIte]
    obtain ⟨c', hc'⟩ := prefixGo_invs κ (f :: more) fs h (by simp) [] 0 none none
    rw [List.append_nil] at hc'
    rw [hc']
    simp only [prefixGo, pick_some, headText, List.nil_append, Nat.zero_add, List.length_cons,
      Nat.add_sub_cancel]

/-- **C08, wholly invariant glob** (`a/b`, `{a}/b`, `<a/:2>b`, `[a]`): the whole glob is the prefix,
all its bytes are removed and nothing is left -/
theorem partition_invariant_fn (κ : Casing) (t : Tok) (fs : List Frag) (h : textTok κ t = .inv fs) :
    partition κ t = (fragsToStr fs, t.span.len, none) := by
  unfold partition
  rw [invariantTextPrefix_invariant κ t fs h]
  cases t with
  | cat sp ts => simp only [Tok.concatenation, ge_iff_le, Nat.le_refl, ↓reduceIte, Option.map_none, Tok.span]
  | lit => rfl
  | sep => rfl
  | cls => rfl
  | one => rfl
  | zom => rfl
  | tree => rfl
  | alt => rfl
  | rep => rfl

/-- **C08, wholly invariant glob, with the language**: the prefix is the one path the glob matches -/
theorem partition_invariant (σ : Sem) (κ : Casing) (hσ : CeqRefl σ) (hκ : CasingOk σ κ) (t : Tok)
    (fs : List Frag) (hw : wellT t = true) (h : textTok κ t = .inv fs) :
    partition κ t = (fragsToStr fs, t.span.len, none) ∧
      ∀ w, Spec.Matches σ t w ↔ w = fragsToStr fs :=
  ⟨partition_invariant_fn κ t fs h, text_exact σ κ hσ hκ t fs hw h⟩

/-! ### 2. no invariant prefix -/

theorem unroot_not_always {f : Tok} (h : hasRoot f ≠ .always) : unroot f = (f, 0) := by
  cases f with
  | tree s r =>
    cases r with
    | false => rfl
    | true => exact absurd rfl h
  | _ => rfl

theorem invariantTextPrefix_none (κ : Casing) (t f : Tok) (more : List Tok)
    (hc : t.concatenation = f :: more) (hv : ∀ fs, textTok κ f ≠ .inv fs)
    (hr : hasRoot f ≠ .always) : invariantTextPrefix κ t = (0, []) := by
  unfold invariantTextPrefix
  rw [hc]
  have h1 : firstRootedVariant κ (f :: more) = false := by
    have : (hasRoot f == When.always) = false := by simpa using hr
    simp only [firstRootedVariant, this, Bool.false_and]
  simp only [h1, Bool.false_eq_true, ↓reduceIte]
  rw [prefixGo_var_step κ hv]
  cases isBoundaryTok f <;> rfl

/-- **C08, no prefix** (`*.rs`, `{a,b}/c`, `**/a`): when the first token is variant and not
(certainly) rooted, `partition` returns the empty prefix, removes nothing and leaves the glob as it
is (the span map with offset 0 is the identity) -/
theorem partition_none_fn (κ : Casing) (t f : Tok) (more : List Tok)
    (hc : t.concatenation = f :: more) (hv : ∀ fs, textTok κ f ≠ .inv fs)
    (hr : hasRoot f ≠ .always) : partition κ t = ([], 0, some t) := by
  have hid : ∀ (x : Tok), x.mapSpans (fun s => (⟨s.start - 0, s.len⟩ : Span)) = x := by
    intro x
    have : (fun s : Span => (⟨s.start - 0, s.len⟩ : Span)) = fun s => s := by
      funext s; cases s; rfl
    rw [this, mapSpans_id]
  unfold partition
  rw [invariantTextPrefix_none κ t f more hc hv hr]
  cases t with
  | cat sp ts =>
    simp only [Tok.concatenation] at hc
    subst hc
    simp only [List.length_cons, ge_iff_le, Nat.le_zero_eq, Nat.add_one_ne_zero, ↓reduceIte,
      List.drop_zero, unroot_not_always hr, List.take_zero, List.map_nil, List.sum_nil, Nat.add_zero,
      Option.map_some, hid]
  | lit => simp only [BEq.rfl, ↓reduceIte, Option.map_some, hid]
  | sep => simp only [BEq.rfl, ↓reduceIte, Option.map_some, hid]
  | cls => simp only [BEq.rfl, ↓reduceIte, Option.map_some, hid]
  | one => simp only [BEq.rfl, ↓reduceIte, Option.map_some, hid]
  | zom => simp only [BEq.rfl, ↓reduceIte, Option.map_some, hid]
  | tree => simp only [BEq.rfl, ↓reduceIte, Option.map_some, hid]
  | alt => simp only [BEq.rfl, ↓reduceIte, Option.map_some, hid]
  | rep => simp only [BEq.rfl, ↓reduceIte, Option.map_some, hid]

/-- **C08, no prefix, with the (trivial) language statement** -/
theorem partition_none (σ : Sem) (κ : Casing) (t f : Tok) (more : List Tok)
    (hc : t.concatenation = f :: more) (hv : ∀ fs, textTok κ f ≠ .inv fs)
    (hr : hasRoot f ≠ .always) :
    ∃ t', partition κ t = ([], 0, some t') ∧ t' = t.mapSpans (shiftSpan 0) ∧ t' = t ∧
      ∀ w, Spec.Matches σ t w ↔ Spec.Matches σ t' w :=
  ⟨t, partition_none_fn κ t f more hc hv hr, by rw [shiftSpan_zero, mapSpans_id], rfl,
    fun _ => Iff.rfl⟩

/-! ### 3. a prefix of arbitrary text-invariant tokens, separator boundary -/

/-- a list of well-formed tokens with invariant text matches exactly that text, in every context -/
theorem invs_exact (σ : Sem) (κ : Casing) (hσ : CeqRefl σ) (hκ : CasingOk σ κ) (pre : List Tok)
    (fs : List Frag) (hw : wellL pre = true) (h : textCat κ pre = .inv fs) :
    ∀ c w, SMs σ c pre w ↔ w = fragsToStr fs :=
  fun c w => ⟨text_cat σ κ hκ pre fs h c w, fun e => e ▸ textm_cat σ κ hσ pre fs hw h c⟩

/-- scanning text-invariant tokens followed by a separator (cf. `prefixGo_spells`) -/
theorem prefixGo_invs_sep (κ : Casing) (pre : List Tok) (fs : List Frag)
    (h : textCat κ pre = .inv fs) (s : Span) (rest : List Tok) (n : Nat)
    (head check : Option (Nat × Str)) :
    prefixGo κ n (pre ++ .sep s :: rest) head check =
      prefixGo κ (n + pre.length + 1) rest
        (some (n + pre.length, headText head ++ fragsToStr fs ++ ['/']))
        (some (n + pre.length, headText head ++ fragsToStr fs ++ ['/'])) := by
  have hsep : textTok κ (.sep s) = .inv [.str ['/']] := rfl
  cases pre with
  | nil =>
    simp only [textCat, TVar.inv.injEq] at h
    subst h
    rw [List.nil_append, prefixGo_inv_step κ hsep]
    simp only [isBoundaryTok, ↓reduceIte, fragsToStr, Frag.text, List.append_nil, List.length_nil,
      Nat.add_zero]
  | cons f pre' =>
    obtain ⟨c', hc'⟩ := prefixGo_invs κ (f :: pre') fs h (by simp) (.sep s :: rest) n head check
    rw [hc', prefixGo_inv_step κ hsep]
    have e : n + (f :: pre').length - 1 + 1 = n + (f :: pre').length := by
      simp only [List.length_cons]; omega
    simp only [isBoundaryTok, ↓reduceIte, fragsToStr, Frag.text, List.append_nil, headText]

theorem firstRootedVariant_invs_sep (κ : Casing) (pre : List Tok) (fs : List Frag)
    (h : textCat κ pre = .inv fs) (s : Span) (rest : List Tok) :
    firstRootedVariant κ (pre ++ .sep s :: rest) = false := by
  cases pre with
  | nil => exact firstRootedVariant_inv (a := [.str ['/']]) rfl
  | cons f pre' =>
    obtain ⟨a, _, ha, _, _⟩ := textCat_cons_inv h
    exact firstRootedVariant_inv ha

theorem invariantTextPrefix_invs_sep (κ : Casing) (sp s : Span) (pre : List Tok) (fs : List Frag)
    (h : textCat κ pre = .inv fs) (v : Tok) (more : List Tok)
    (hv1 : ∀ fs, textTok κ v ≠ .inv fs) (hv2 : isBoundaryTok v = false) :
    invariantTextPrefix κ (.cat sp (pre ++ .sep s :: v :: more)) =
      (pre.length + 1, fragsToStr fs ++ ['/']) := by
  unfold invariantTextPrefix
  simp only [Tok.concatenation, firstRootedVariant_invs_sep κ pre fs h, Bool.false_eq_true, ↓reduceIte]
  rw [prefixGo_invs_sep κ pre fs h, prefixGo_var_step κ hv1]
  simp only [hv2, Bool.false_eq_true, ↓reduceIte, pick_some, Nat.zero_add, headText, List.nil_append]

theorem spanSum_take_sep (pre : List Tok) (s : Span) (rest : List Tok) :
    (((pre ++ .sep s :: rest).take (pre.length + 1)).map (fun x => x.span.len)).sum =
      spanSum pre + s.len := by
  have : pre ++ .sep s :: rest = (pre ++ [.sep s]) ++ rest := by simp
  rw [this, List.take_left' (by simp)]
  simp only [spanSum, List.map_append, List.sum_append, List.map_cons, List.map_nil, List.sum_cons,
    List.sum_nil, Nat.add_zero, Tok.span]

/-- **C08, invariant-token prefix** (`{a}/<b:2>/*.rs`, `[a]b/c/{x,y}`): a glob that consists of
well-formed tokens with invariant text `P` (literals, separators, invariant alternations,
repetitions and classes), a separator, and then a variant non-boundary token that cannot begin
with a tree wildcard, is partitioned into `P ++ "/"`, the bytes of those tokens, and the rest with
its spans shifted; the glob matches `w` iff `w` is the prefix followed by a path the postfix matches
on its own.

Partial: the full statement would drop `hlead` (a postfix such as `{**/x,y}` that may begin with a
tree wildcard changes meaning with its position: the `first` flag) and would allow the boundary to
lie before further invariant tokens (`a/b*`, where the prefix is `a/` and the postfix `b*`). -/
theorem partition_invariant_branches_partial (σ : Sem) (κ : Casing) (hσ : CeqRefl σ)
    (hκ : CasingOk σ κ) (sp s : Span) (pre : List Tok) (fs : List Frag)
    (hw : wellL pre = true) (hpre : textCat κ pre = .inv fs) (v : Tok) (more : List Tok)
    (hv1 : ∀ fs, textTok κ v ≠ .inv fs) (hv2 : isBoundaryTok v = false) (hlead : leadTree v = false) :
    partition κ (.cat sp (pre ++ .sep s :: v :: more)) =
        (fragsToStr fs ++ ['/'], spanSum pre + s.len,
          some ((Tok.cat sp (v :: more)).mapSpans (shiftSpan (spanSum pre + s.len)))) ∧
      ∀ w, Spec.Matches σ (.cat sp (pre ++ .sep s :: v :: more)) w ↔
        ∃ r, w = fragsToStr fs ++ '/' :: r ∧
          Spec.Matches σ ((Tok.cat sp (v :: more)).mapSpans (shiftSpan (spanSum pre + s.len))) r := by
  have hdrop : (pre ++ .sep s :: v :: more).drop (pre.length + 1) = v :: more := by
    have : pre ++ .sep s :: v :: more = (pre ++ [.sep s]) ++ (v :: more) := by simp
    rw [this, List.drop_left' (by simp)]
  have hlen : ¬ (pre.length + 1 ≥ (pre ++ .sep s :: v :: more).length) := by simp
  constructor
  · unfold partition
    simp only [invariantTextPrefix_invs_sep κ sp s pre fs hpre v more hv1 hv2, hlen, ↓reduceIte, hdrop,
      unroot_nonboundary hv2, Option.map_some, spanSum_take_sep, Nat.add_zero]
    rfl
  · intro w
    have h1 := partition_sep σ pre (v :: more) s (fragsToStr fs) (invs_exact σ κ hσ hκ pre fs hw hpre)
      (by simpa [leadTreeF] using hlead) w
    constructor
    · intro h
      obtain ⟨r, hr, hm⟩ := h1.mp h
      exact ⟨r, hr, (matches_mapSpans σ _ _ r).mpr hm⟩
    · rintro ⟨r, hr, hm⟩
      exact h1.mpr ⟨r, hr, (matches_mapSpans σ _ _ r).mp hm⟩

/-! ### 4. the rooted tree wildcard as the boundary -/

/-- what is kept when the boundary is a rooted tree wildcard with span `st`: the tree wildcard
unrooted (its span loses its first byte, the separator), and what follows; spans shifted by `off` -/
def treePostfix (sp st : Span) (rest : List Tok) (off : Nat) : Tok :=
  (Tok.cat sp (.tree ⟨st.start + 1, st.len - 1⟩ false :: rest)).mapSpans (shiftSpan off)

/-- the postfix begins with the unrooted tree wildcard, its span shifted by one byte -/
theorem treePostfix_eq (sp st : Span) (rest : List Tok) (off : Nat) :
    treePostfix sp st rest off =
      .cat ⟨sp.start - off, sp.len⟩
        (.tree ⟨st.start + 1 - off, st.len - 1⟩ false :: mapSpansL (shiftSpan off) rest) := rfl

theorem tree_variant (κ : Casing) (st : Span) (r : Bool) : ∀ fs, textTok κ (.tree st r) ≠ .inv fs := by
  intro fs h; simp [textTok] at h

theorem invariantTextPrefix_invs_tree (κ : Casing) (sp st : Span) (r : Bool) (pre : List Tok)
    (fs : List Frag) (h : textCat κ pre = .inv fs) (hne : pre ≠ []) (rest : List Tok) :
    invariantTextPrefix κ (.cat sp (pre ++ .tree st r :: rest)) = (pre.length, fragsToStr fs) := by
  unfold invariantTextPrefix
  cases pre with
  | nil => exact absurd rfl hne
  | cons f pre' =>
    obtain ⟨a, _, ha, _, _⟩ := textCat_cons_inv h
    obtain ⟨c', hc'⟩ := prefixGo_invs κ (f :: pre') fs h hne (.tree st r :: rest) 0 none none
    simp only [Tok.concatenation]
    rw [hc', prefixGo_var_step κ (tree_variant κ st r)]
    simp only [List.cons_append, firstRootedVariant_inv ha, Bool.false_eq_true, ↓reduceIte,
      isBoundaryTok, pick_some, headText, List.nil_append, Nat.zero_add, List.length_cons,
      Nat.add_sub_cancel]

theorem matches_tree_false_only (σ : Sem) (sp st : Span) (r : Str) :
    Spec.Matches σ (.cat sp [.tree st false]) r :=
  sms_singleton.mpr (.tree (by simp [TreeLang]))

/-- **C08, rooted tree wildcard as the boundary** (`a/**/b*`, `{a}/<b:2>/**`): well-formed tokens
with invariant text `P`, then a rooted tree wildcard: the prefix is `P` (without a separator), the
removed bytes are those of the prefix tokens and one more (the separator that the tree wildcard's
span begins with), the postfix begins with the UNROOTED tree wildcard.  With something after the
tree wildcard the glob matches `w` iff `w = P ++ "/" ++ r` for an `r` the postfix matches; with
nothing after it, the bare prefix `P` is matched too (`Path::join(P, "")`).

Partial: the expression text of the postfix is not covered (a flag written between the prefix and
the tree wildcard, `a(?i)/**/1`, lies inside the tree wildcard's span: finding); the empty prefix
is `partition_tree_root` below. -/
theorem partition_tree_boundary_partial (σ : Sem) (κ : Casing) (hσ : CeqRefl σ) (hκ : CasingOk σ κ)
    (sp st : Span) (pre : List Tok) (fs : List Frag) (hne : pre ≠ []) (hw : wellL pre = true)
    (hpre : textCat κ pre = .inv fs) (rest : List Tok) :
    partition κ (.cat sp (pre ++ .tree st true :: rest)) =
        (fragsToStr fs, spanSum pre + 1, some (treePostfix sp st rest (spanSum pre + 1))) ∧
      (rest ≠ [] → ∀ w, Spec.Matches σ (.cat sp (pre ++ .tree st true :: rest)) w ↔
        ∃ r, w = fragsToStr fs ++ '/' :: r ∧
          Spec.Matches σ (treePostfix sp st rest (spanSum pre + 1)) r) ∧
      (rest = [] → ∀ w, Spec.Matches σ (.cat sp (pre ++ .tree st true :: rest)) w ↔
        w = fragsToStr fs ∨ ∃ r, w = fragsToStr fs ++ '/' :: r ∧
          Spec.Matches σ (treePostfix sp st rest (spanSum pre + 1)) r) := by
  have hexact := invs_exact σ κ hσ hκ pre fs hw hpre
  refine ⟨?_, ?_, ?_⟩
  · have hdrop : (pre ++ .tree st true :: rest).drop pre.length = .tree st true :: rest :=
      List.drop_left
    have htake : (pre ++ .tree st true :: rest).take pre.length = pre := List.take_left
    have hlen : ¬ (pre.length ≥ (pre ++ .tree st true :: rest).length) := by simp
    unfold partition
    simp only [invariantTextPrefix_invs_tree κ sp st true pre fs hpre hne rest, hlen, ↓reduceIte,
      hdrop, htake, unroot, Option.map_some]
    rfl
  · intro hrest w
    have h1 := partition_tree σ pre rest st ⟨st.start + 1, st.len - 1⟩ (fragsToStr fs) hexact hne
      hrest w
    constructor
    · intro h
      obtain ⟨r, hr, hm⟩ := h1.mp h
      exact ⟨r, hr, (matches_mapSpans σ _ _ r).mpr hm⟩
    · rintro ⟨r, hr, hm⟩
      exact h1.mpr ⟨r, hr, (matches_mapSpans σ _ _ r).mp hm⟩
  · intro hrest w
    subst hrest
    have h1 := partition_tree_last σ pre st (fragsToStr fs) hexact hne w
    constructor
    · intro h
      rcases h1.mp h with h | ⟨r, hr⟩
      · exact .inl h
      · exact .inr ⟨r, hr, (matches_mapSpans σ _ _ r).mpr (matches_tree_false_only σ sp _ r)⟩
    · rintro (h | ⟨r, hr, _⟩)
      · exact h1.mpr (.inl h)
      · exact h1.mpr (.inr ⟨r, hr⟩)

/-- the language half for a rooted tree wildcard at the very beginning (`/**/a`, `/**`) -/
theorem partition_tree_first (σ : Sem) (rest : List Tok) (st st' : Span) (w : Str) :
    SMs σ ⟨true, true⟩ (.tree st true :: rest) w ↔
      ∃ r, w = '/' :: r ∧ SMs σ ⟨true, true⟩ (.tree st' false :: rest) r := by
  cases rest with
  | nil =>
    rw [sms_singleton]
    constructor
    · intro h
      cases h with
      | tree ht =>
        simp only [TreeLang, ↓reduceIte] at ht
        obtain ⟨r, rfl⟩ := ht
        exact ⟨r, rfl, sms_singleton.mpr (.tree (by simp [TreeLang]))⟩
    · rintro ⟨r, rfl, _⟩
      exact .tree (by simp [TreeLang])
  | cons x xs =>
    constructor
    · intro h
      obtain ⟨u, v, rfl, hu, hv⟩ := sms_cons.mp h
      cases hu with
      | tree ht =>
        simp only [List.isEmpty_cons, Bool.and_false, TreeLang, Bool.false_eq_true, ↓reduceIte,
          Bool.not_true, Bool.or_false] at ht
        obtain ⟨r, hstar, rfl⟩ := ht
        refine ⟨r ++ v, by simp, sms_cons.mpr ⟨r, v, rfl, .tree ?_, hv⟩⟩
        simpa [TreeLang] using hstar
    · rintro ⟨r, rfl, hr⟩
      obtain ⟨u, v, rfl, hu, hv⟩ := sms_cons.mp hr
      cases hu with
      | tree ht =>
        simp only [List.isEmpty_cons, Bool.and_false, TreeLang, Bool.false_eq_true, ↓reduceIte,
          Bool.not_true, Bool.or_false] at ht
        refine sms_cons.mpr ⟨'/' :: u, v, by simp, .tree ?_, hv⟩
        simpa [TreeLang] using ht

/-- **C08, rooted tree wildcard first** (`/**/a`, `/**`): the prefix is the root `/`, one byte is
removed, the postfix begins with the unrooted tree wildcard, and the glob matches `w` iff
`w = "/" ++ r` for an `r` the postfix matches -/
theorem partition_tree_root (σ : Sem) (κ : Casing) (sp st : Span) (rest : List Tok) :
    partition κ (.cat sp (.tree st true :: rest)) = (['/'], 1, some (treePostfix sp st rest 1)) ∧
      ∀ w, Spec.Matches σ (.cat sp (.tree st true :: rest)) w ↔
        ∃ r, w = '/' :: r ∧ Spec.Matches σ (treePostfix sp st rest 1) r := by
  constructor
  · have h1 : invariantTextPrefix κ (.cat sp (.tree st true :: rest)) = (0, ['/']) := by
      unfold invariantTextPrefix
      have : firstRootedVariant κ (.tree st true :: rest) = true := rfl
      simp only [Tok.concatenation, this, ↓reduceIte]
    unfold partition
    simp only [h1, List.length_cons, ge_iff_le, Nat.le_zero_eq, Nat.add_one_ne_zero, ↓reduceIte,
      List.drop_zero, unroot, List.take_zero, List.map_nil, List.sum_nil, Nat.zero_add,
      Option.map_some]
    rfl
  · intro w
    have h1 := partition_tree_first σ rest st ⟨st.start + 1, st.len - 1⟩ w
    constructor
    · intro h
      obtain ⟨r, hr, hm⟩ := h1.mp h
      exact ⟨r, hr, (matches_mapSpans σ _ _ r).mpr hm⟩
    · rintro ⟨r, hr, hm⟩
      exact h1.mpr ⟨r, hr, (matches_mapSpans σ _ _ r).mp hm⟩

/-! ### 5. partitioning the postfix again -/

theorem hasRoot_of_concatenation {q f : Tok} {more : List Tok} (hc : q.concatenation = f :: more) :
    hasRoot q = hasRoot f := by
  cases q with
  | cat sp ts => simp only [Tok.concatenation] at hc; subst hc; rfl
  | _ =>
    simp only [Tok.concatenation, List.cons.injEq] at hc
    rw [hc.1]

/-- a glob whose first token is variant and never rooted is a fixed point of `partition` -/
theorem partition_fixed (κ : Casing) (q f : Tok) (more : List Tok)
    (hc : q.concatenation = f :: more) (hv : ∀ fs, textTok κ f ≠ .inv fs)
    (hr : hasRoot f = .never) : partition κ q = ([], 0, some q) ∧ hasRoot q = .never :=
  ⟨partition_none_fn κ q f more hc hv (by rw [hr]; decide), by rw [hasRoot_of_concatenation hc, hr]⟩

/-- **idempotence, separator boundary**: the postfix of `partition_invariant_branches_partial` is
left alone by a second `partition` and is never rooted.  Partial: `hroot` is needed — a postfix that
starts with a rooting repetition (`a/</b:1,>` as a token tree; the rule checker rejects the
expression) is partitioned again into `/` and itself (finding `</a:1,>`), and `{/a,b}` as the first
token makes the postfix `sometimes` rooted. -/
theorem partition_idempotent_sep_partial (κ : Casing) (sp s : Span) (pre : List Tok) (fs : List Frag)
    (hpre : textCat κ pre = .inv fs) (v : Tok) (more : List Tok)
    (hv1 : ∀ fs, textTok κ v ≠ .inv fs) (hv2 : isBoundaryTok v = false)
    (hroot : hasRoot v = .never) :
    ∃ p off q, partition κ (.cat sp (pre ++ .sep s :: v :: more)) = (p, off, some q) ∧
      partition κ q = ([], 0, some q) ∧ hasRoot q = .never := by
  have hdrop : (pre ++ .sep s :: v :: more).drop (pre.length + 1) = v :: more := by
    have : pre ++ .sep s :: v :: more = (pre ++ [.sep s]) ++ (v :: more) := by simp
    rw [this, List.drop_left' (by simp)]
  have hlen : ¬ (pre.length + 1 ≥ (pre ++ .sep s :: v :: more).length) := by simp
  refine ⟨fragsToStr fs ++ ['/'], spanSum pre + s.len,
    (Tok.cat sp (v :: more)).mapSpans (shiftSpan (spanSum pre + s.len)), ?_, ?_⟩
  · unfold partition
    simp only [invariantTextPrefix_invs_sep κ sp s pre fs hpre v more hv1 hv2, hlen, ↓reduceIte, hdrop,
      unroot_nonboundary hv2, Option.map_some, spanSum_take_sep, Nat.add_zero]
    rfl
  · exact partition_fixed κ _ (v.mapSpans (shiftSpan (spanSum pre + s.len)))
      (mapSpansL (shiftSpan (spanSum pre + s.len)) more) rfl
      (by intro fs'; rw [textTok_mapSpans]; exact hv1 fs') (by rw [hasRoot_mapSpans]; exact hroot)

/-- **idempotence, tree boundary**: the postfix of `partition_tree_boundary_partial` /
`partition_tree_root` (any offset) is left alone by a second `partition` and is never rooted -/
theorem partition_idempotent_tree (κ : Casing) (sp st : Span) (rest : List Tok) (off : Nat) :
    partition κ (treePostfix sp st rest off) = ([], 0, some (treePostfix sp st rest off)) ∧
      hasRoot (treePostfix sp st rest off) = .never :=
  partition_fixed κ _ (.tree ⟨st.start + 1 - off, st.len - 1⟩ false)
    (mapSpansL (shiftSpan off) rest) rfl (tree_variant κ _ false) rfl

/-! ### 6. the scan in general: every shape of a concatenation -/

/-- text-invariant token (decidable form) -/
def isInv (κ : Casing) (t : Tok) : Bool := match textTok κ t with | .inv _ => true | _ => false

/-- text-invariant and not a boundary: what may stand between the last boundary and the first
variant token -/
def isMid (κ : Casing) (t : Tok) : Bool := isInv κ t && !isBoundaryTok t

theorem isInv_true {κ : Casing} {t : Tok} : isInv κ t = true ↔ ∃ a, textTok κ t = .inv a := by
  unfold isInv
  cases textTok κ t <;> simp

theorem isInv_false {κ : Casing} {t : Tok} : isInv κ t = false ↔ ∀ a, textTok κ t ≠ .inv a := by
  unfold isInv
  cases textTok κ t <;> simp

theorem textCat_of_all (κ : Casing) : ∀ (ts : List Tok), ts.all (isInv κ) = true →
    ∃ fs, textCat κ ts = .inv fs
  | [], _ => ⟨[], rfl⟩
  | [t], h => by
    simp only [List.all_cons, List.all_nil, Bool.and_true] at h
    exact isInv_true.mp h
  | t :: t2 :: ts, h => by
    rw [List.all_cons, Bool.and_eq_true] at h
    obtain ⟨a, ha⟩ := isInv_true.mp h.1
    obtain ⟨b, hb⟩ := textCat_of_all κ (t2 :: ts) h.2
    exact ⟨fragConj a b, by simp only [textCat] at hb ⊢; rw [ha, hb]; rfl⟩

theorem all_of_textCat (κ : Casing) : ∀ (ts : List Tok) (fs : List Frag), textCat κ ts = .inv fs →
    ts.all (isInv κ) = true
  | [], _, _ => rfl
  | t :: ts, fs, h => by
    obtain ⟨a, b, ha, hb, _⟩ := textCat_cons_inv h
    rw [List.all_cons, isInv_true.mpr ⟨a, ha⟩, all_of_textCat κ ts b hb]
    rfl

/-- scanning text-invariant non-boundary tokens leaves the check alone -/
theorem prefixGo_mid (κ : Casing) : ∀ (mid : List Tok), mid.all (isMid κ) = true →
    ∀ (rest : List Tok) (n : Nat) (head check : Option (Nat × Str)), ∃ head',
      prefixGo κ n (mid ++ rest) head check = prefixGo κ (n + mid.length) rest head' check
  | [], _ => fun rest n head check => ⟨head, rfl⟩
  | t :: mid, h => by
    intro rest n head check
    rw [List.all_cons, Bool.and_eq_true] at h
    have ht := h.1
    simp only [isMid, Bool.and_eq_true, Bool.not_eq_true'] at ht
    obtain ⟨a, ha⟩ := isInv_true.mp ht.1
    rw [List.cons_append, prefixGo_inv_step κ ha]
    simp only [ht.2, Bool.false_eq_true, ↓reduceIte]
    obtain ⟨h', e⟩ := prefixGo_mid κ mid h.2 rest (n + 1) (some (n, headText head ++ fragsToStr a)) check
    refine ⟨h', ?_⟩
    rw [e]
    have : n + 1 + mid.length = n + (t :: mid).length := by simp only [List.length_cons]; omega
    rw [this]

/-- the first variant token, if any -/
theorem split_first_variant (κ : Casing) : ∀ (ts : List Tok), ts.all (isInv κ) = true ∨
    ∃ inv v rest, ts = inv ++ v :: rest ∧ inv.all (isInv κ) = true ∧ isInv κ v = false
  | [] => .inl rfl
  | t :: ts => by
    cases ht : isInv κ t with
    | false => exact .inr ⟨[], t, ts, rfl, rfl, ht⟩
    | true =>
      rcases split_first_variant κ ts with h | ⟨inv, v, rest, rfl, hi, hv⟩
      · exact .inl (by rw [List.all_cons, ht, h]; rfl)
      · exact .inr ⟨t :: inv, v, rest, rfl, by rw [List.all_cons, ht, hi]; rfl, hv⟩

theorem inv_boundary_is_sep {κ : Casing} {t : Tok} (hi : isInv κ t = true)
    (hb : isBoundaryTok t = true) : ∃ s, t = .sep s := by
  cases t with
  | sep s => exact ⟨s, rfl⟩
  | tree s r => simp [isInv, textTok] at hi
  | _ => simp [isBoundaryTok] at hb

/-- the last boundary of a run of text-invariant tokens, if any -/
theorem split_last_boundary (κ : Casing) : ∀ (inv : List Tok), inv.all (isInv κ) = true →
    inv.all (isMid κ) = true ∨
    ∃ pre s mid, inv = pre ++ .sep s :: mid ∧ pre.all (isInv κ) = true ∧ mid.all (isMid κ) = true
  | [], _ => .inl rfl
  | t :: ts, h => by
    rw [List.all_cons, Bool.and_eq_true] at h
    rcases split_last_boundary κ ts h.2 with hm | ⟨pre, s, mid, rfl, hp, hm⟩
    · cases hb : isBoundaryTok t with
      | false => exact .inl (by rw [List.all_cons, hm]; simp [isMid, h.1, hb])
      | true =>
        obtain ⟨s, rfl⟩ := inv_boundary_is_sep h.1 hb
        exact .inr ⟨[], s, ts, rfl, rfl, hm⟩
    · exact .inr ⟨t :: pre, s, mid, rfl, by rw [List.all_cons, h.1, hp]; rfl, hm⟩

/-- **the scan, completely**: for a concatenation that does not start with a rooted variant token,
where the scan stops short of the end, what is kept is a run of text-invariant non-boundary
tokens and then a variant token, which is a boundary only if that run is empty -/
theorem prefixGo_shape (κ : Casing) (ts : List Tok)
    (hn : (prefixGo κ 0 ts none none).1 < ts.length) :
    ∃ mid v rest, ts.drop (prefixGo κ 0 ts none none).1 = mid ++ v :: rest ∧
      mid.all (isMid κ) = true ∧ isInv κ v = false ∧ (isBoundaryTok v = false ∨ mid = []) := by
  rcases split_first_variant κ ts with hall | ⟨inv, v, rest, rfl, hi, hv⟩
  · -- everything invariant: the scan reaches the end
    exfalso
    obtain ⟨fs, hfs⟩ := textCat_of_all κ ts hall
    cases ts with
    | nil => simp at hn
    | cons f more =>
      obtain ⟨c', hc'⟩ := prefixGo_invs κ (f :: more) fs hfs (by simp) [] 0 none none
      rw [List.append_nil] at hc'
      rw [hc'] at hn
      simp only [prefixGo, pick_some, Nat.zero_add, List.length_cons, Nat.add_sub_cancel,
        Nat.lt_irrefl] at hn
  · have hv' := isInv_false.mp hv
    cases hb : isBoundaryTok v with
    | true =>
      -- a variant boundary (tree wildcard): cut right before it
      have hres : (prefixGo κ 0 (inv ++ v :: rest) none none).1 = inv.length := by
        cases inv with
        | nil => rw [List.nil_append, prefixGo_var_step κ hv']; simp only [hb, ↓reduceIte]; rfl
        | cons f more =>
          obtain ⟨fs, hfs⟩ := textCat_of_all κ (f :: more) hi
          obtain ⟨c', hc'⟩ := prefixGo_invs κ (f :: more) fs hfs (by simp) (v :: rest) 0 none none
          rw [hc', prefixGo_var_step κ hv']
          simp only [hb, ↓reduceIte, pick_some, Nat.zero_add, List.length_cons, Nat.add_sub_cancel]
      rw [hres]
      exact ⟨[], v, rest, by rw [List.drop_left]; rfl, rfl, hv, .inr rfl⟩
    | false =>
      rcases split_last_boundary κ inv hi with hm | ⟨pre, s, mid, rfl, hp, hm⟩
      · -- no boundary before the variant token: nothing is cut
        have hres : (prefixGo κ 0 (inv ++ v :: rest) none none).1 = 0 := by
          obtain ⟨h', e⟩ := prefixGo_mid κ inv hm (v :: rest) 0 none none
          rw [e, prefixGo_var_step κ hv']
          simp only [hb, Bool.false_eq_true, ↓reduceIte]
          rfl
        rw [hres]
        exact ⟨inv, v, rest, rfl, hm, hv, .inl hb⟩
      · -- cut after the last separator
        have hres : (prefixGo κ 0 ((pre ++ .sep s :: mid) ++ v :: rest) none none).1 =
            pre.length + 1 := by
          obtain ⟨fs, hfs⟩ := textCat_of_all κ pre hp
          have e0 : (pre ++ .sep s :: mid) ++ v :: rest = pre ++ .sep s :: (mid ++ v :: rest) := by
            simp
          rw [e0, prefixGo_invs_sep κ pre fs hfs]
          obtain ⟨h', e⟩ := prefixGo_mid κ mid hm (v :: rest) (0 + pre.length + 1)
            (some (0 + pre.length, headText none ++ fragsToStr fs ++ ['/']))
            (some (0 + pre.length, headText none ++ fragsToStr fs ++ ['/']))
          rw [e, prefixGo_var_step κ hv']
          simp only [hb, Bool.false_eq_true, ↓reduceIte, pick_some, Nat.zero_add]
        rw [hres]
        refine ⟨mid, v, rest, ?_, hm, hv, .inl hb⟩
        have e0 : (pre ++ .sep s :: mid) ++ v :: rest = (pre ++ [.sep s]) ++ (mid ++ v :: rest) := by
          simp
        rw [e0, List.drop_left' (by simp)]

/-! ### 7. idempotence in general -/

theorem mapSpans_shift_zero (x : Tok) :
    x.mapSpans (fun s => (⟨s.start - 0, s.len⟩ : Span)) = x := by
  have : (fun s : Span => (⟨s.start - 0, s.len⟩ : Span)) = fun s => s := by
    funext s; cases s; rfl
  rw [this, mapSpans_id]

theorem prefixGo_mapSpans (κ : Casing) (g : Span → Span) : ∀ (ts : List Tok) (n : Nat)
    (head check : Option (Nat × Str)),
    prefixGo κ n (mapSpansL g ts) head check = prefixGo κ n ts head check
  | [], n, head, check => by simp only [mapSpansL, prefixGo]
  | t :: ts, n, head, check => by
    rw [mapSpansL]
    cases h : isInv κ t with
    | true =>
      obtain ⟨a, ha⟩ := isInv_true.mp h
      have ha' : textTok κ (t.mapSpans g) = .inv a := by rw [textTok_mapSpans, ha]
      rw [prefixGo_inv_step κ ha', prefixGo_inv_step κ ha, isBoundaryTok_mapSpans,
        prefixGo_mapSpans κ g ts]
    | false =>
      have hv := isInv_false.mp h
      have hv' : ∀ fs, textTok κ (t.mapSpans g) ≠ .inv fs := by
        intro fs; rw [textTok_mapSpans]; exact hv fs
      rw [prefixGo_var_step κ hv', prefixGo_var_step κ hv, isBoundaryTok_mapSpans]

theorem firstRootedVariant_mapSpans (κ : Casing) (g : Span → Span) (ts : List Tok) :
    firstRootedVariant κ (mapSpansL g ts) = firstRootedVariant κ ts := by
  cases ts with
  | nil => rfl
  | cons t ts => simp only [mapSpansL, firstRootedVariant, hasRoot_mapSpans, textTok_mapSpans]

/-- a glob that does not start with a rooted variant token and whose scan yields nothing is a
fixed point of `partition` -/
theorem partition_of_scan_zero (κ : Casing) (q f : Tok) (more : List Tok)
    (hc : q.concatenation = f :: more) (hfr : firstRootedVariant κ (f :: more) = false)
    (h0 : prefixGo κ 0 (f :: more) none none = (0, [])) : partition κ q = ([], 0, some q) := by
  have hun : unroot f = (f, 0) := by
    cases f with
    | tree s r =>
      cases r with
      | false => rfl
      | true => exact absurd hfr (by simp [firstRootedVariant, hasRoot, rootTok, textTok])
    | _ => rfl
  have hpre : invariantTextPrefix κ q = (0, []) := by
    unfold invariantTextPrefix
    rw [hc]
    simp only [hfr, Bool.false_eq_true, ↓reduceIte, h0]
  unfold partition
  rw [hpre]
  cases q with
  | cat sp ts =>
    simp only [Tok.concatenation] at hc
    subst hc
    simp only [List.length_cons, ge_iff_le, Nat.le_zero_eq, Nat.add_one_ne_zero, ↓reduceIte,
      List.drop_zero, hun, List.take_zero, List.map_nil, List.sum_nil, Nat.add_zero,
      Option.map_some, mapSpans_shift_zero]
  | lit => simp only [BEq.rfl, ↓reduceIte, Option.map_some, mapSpans_shift_zero]
  | sep => simp only [BEq.rfl, ↓reduceIte, Option.map_some, mapSpans_shift_zero]
  | cls => simp only [BEq.rfl, ↓reduceIte, Option.map_some, mapSpans_shift_zero]
  | one => simp only [BEq.rfl, ↓reduceIte, Option.map_some, mapSpans_shift_zero]
  | zom => simp only [BEq.rfl, ↓reduceIte, Option.map_some, mapSpans_shift_zero]
  | tree => simp only [BEq.rfl, ↓reduceIte, Option.map_some, mapSpans_shift_zero]
  | alt => simp only [BEq.rfl, ↓reduceIte, Option.map_some, mapSpans_shift_zero]
  | rep => simp only [BEq.rfl, ↓reduceIte, Option.map_some, mapSpans_shift_zero]

theorem unroot_variant {κ : Casing} {v : Tok} (h : isInv κ v = false) :
    isInv κ (unroot v).1 = false := by
  cases v with
  | tree s r => cases r <;> rfl
  | _ => exact h

/-- what `partition` keeps is scanned to nothing -/
theorem prefixGo_kept_zero (κ : Casing) (mid : List Tok) (v : Tok) (rest : List Tok) (first : Tok)
    (more : List Tok) (he : first :: more = mid ++ v :: rest) (hm : mid.all (isMid κ) = true)
    (hv : isInv κ v = false) (hb : isBoundaryTok v = false ∨ mid = []) :
    prefixGo κ 0 ((unroot first).1 :: more) none none = (0, []) := by
  cases mid with
  | nil =>
    simp only [List.nil_append, List.cons.injEq] at he
    obtain ⟨rfl, rfl⟩ := he
    rw [prefixGo_var_step κ (isInv_false.mp (unroot_variant hv))]
    cases isBoundaryTok (unroot first).1 <;> rfl
  | cons m mid' =>
    simp only [List.cons_append, List.cons.injEq] at he
    obtain ⟨rfl, rfl⟩ := he
    have hb' : isBoundaryTok v = false := by
      rcases hb with h | h
      · exact h
      · cases h
    have hm0 := hm
    rw [List.all_cons, Bool.and_eq_true] at hm0
    have hfb : isBoundaryTok first = false := by
      have := hm0.1; simp only [isMid, Bool.and_eq_true, Bool.not_eq_true'] at this; exact this.2
    rw [unroot_nonboundary hfb]
    obtain ⟨h', e⟩ := prefixGo_mid κ (first :: mid') hm (v :: rest) 0 none none
    have e' : first :: (mid' ++ v :: rest) = (first :: mid') ++ v :: rest := rfl
    rw [e', e, prefixGo_var_step κ (isInv_false.mp hv)]
    simp only [hb', Bool.false_eq_true, ↓reduceIte]
    rfl

/-- the kept part of any concatenation: text-invariant non-boundary tokens, then a variant token -/
theorem kept_shape (κ : Casing) (sp : Span) (ts : List Tok)
    (hn : (invariantTextPrefix κ (.cat sp ts)).1 < ts.length) :
    ∃ mid v rest, ts.drop (invariantTextPrefix κ (.cat sp ts)).1 = mid ++ v :: rest ∧
      mid.all (isMid κ) = true ∧ isInv κ v = false ∧ (isBoundaryTok v = false ∨ mid = []) := by
  unfold invariantTextPrefix at hn ⊢
  simp only [Tok.concatenation] at hn ⊢
  by_cases hfr : firstRootedVariant κ ts = true
  · simp only [hfr, ↓reduceIte, List.drop_zero]
    cases ts with
    | nil => simp [firstRootedVariant] at hfr
    | cons f more =>
      refine ⟨[], f, more, rfl, rfl, ?_, .inr rfl⟩
      simp only [firstRootedVariant, Bool.and_eq_true] at hfr
      unfold isInv
      cases hf : textTok κ f with
      | inv a => rw [hf] at hfr; simp at hfr
      | unb => rfl
      | bnd => rfl
  · simp only [hfr, Bool.false_eq_true, ↓reduceIte] at hn ⊢
    exact prefixGo_shape κ ts hn

theorem partition_cat_some (κ : Casing) (sp : Span) (ts : List Tok) (p : Str) (off : Nat) (q : Tok)
    (h : partition κ (.cat sp ts) = (p, off, some q)) :
    (invariantTextPrefix κ (.cat sp ts)).1 < ts.length ∧
    ∃ first more, ts.drop (invariantTextPrefix κ (.cat sp ts)).1 = first :: more ∧
      q = (Tok.cat sp ((unroot first).1 :: more)).mapSpans (shiftSpan off) := by
  unfold partition at h
  cases hnt : invariantTextPrefix κ (.cat sp ts) with
  | mk n text =>
    rw [hnt] at h
    simp only at h
    by_cases hge : n ≥ ts.length
    · simp only [hge, ↓reduceIte, Option.map_none] at h
      cases h
    · simp only [hge, ↓reduceIte] at h
      refine ⟨by simpa using hge, ?_⟩
      cases hd : ts.drop n with
      | nil => rw [hd] at h; simp at h
      | cons first more =>
        rw [hd] at h
        simp only [Option.map_some, Prod.mk.injEq, Option.some.injEq] at h
        obtain ⟨_, hoff, hq⟩ := h
        refine ⟨first, more, rfl, ?_⟩
        rw [← hq, ← hoff]
        rfl

theorem partition_noncat (κ : Casing) (t : Tok) (hnc : ∀ sp ts, t ≠ .cat sp ts) :
    partition κ t = ((invariantTextPrefix κ t).2,
      if (invariantTextPrefix κ t).1 == 0 then (0, some t) else (t.span.len, none)) := by
  cases t with
  | cat sp ts => exact absurd rfl (hnc sp ts)
  | _ =>
    unfold partition
    cases invariantTextPrefix κ _ with
    | mk n text =>
      by_cases h0 : (n == 0) = true
      · simp only [h0, ↓reduceIte, Option.map_some, mapSpans_shift_zero]
      · simp only [h0, Bool.false_eq_true, ↓reduceIte, Option.map_none]

theorem concatenation_noncat (t : Tok) (hnc : ∀ sp ts, t ≠ .cat sp ts) : t.concatenation = [t] := by
  cases t with
  | cat sp ts => exact absurd rfl (hnc sp ts)
  | _ => rfl

/-- **idempotence of `partition`** (`partition_idempotent`, every shape): whatever glob `t` is,
if `partition` leaves a postfix `q`, then partitioning `q` again yields the empty prefix, removes
nothing and leaves `q` as it is — provided `q` does not begin with a (certainly) rooted variant
token.  That hypothesis is decidable and excludes exactly the recorded finding: a rooting
repetition (`</a:1,>`) is split into `/` and itself, over and over. -/
theorem partition_idempotent (κ : Casing) (t : Tok) (p : Str) (off : Nat) (q : Tok)
    (h : partition κ t = (p, off, some q))
    (hq : firstRootedVariant κ q.concatenation = false) : partition κ q = ([], 0, some q) := by
  by_cases hcat : ∃ sp ts, t = .cat sp ts
  · obtain ⟨sp, ts, rfl⟩ := hcat
    obtain ⟨hn, first, more, hd, rfl⟩ := partition_cat_some κ sp ts p off q h
    obtain ⟨mid, v, rest, hd', hm, hv, hb⟩ := kept_shape κ sp ts hn
    rw [hd] at hd'
    have hz := prefixGo_kept_zero κ mid v rest first more hd' hm hv hb
    have hc : ((Tok.cat sp ((unroot first).1 :: more)).mapSpans (shiftSpan off)).concatenation =
        ((unroot first).1.mapSpans (shiftSpan off)) :: mapSpansL (shiftSpan off) more := rfl
    refine partition_of_scan_zero κ _ _ _ hc ?_ ?_
    · rw [hc] at hq; exact hq
    · have := prefixGo_mapSpans κ (shiftSpan off) ((unroot first).1 :: more) 0 none none
      rw [mapSpansL] at this
      rw [this]; exact hz
  · have hnc : ∀ sp ts, t ≠ .cat sp ts := fun sp ts e => hcat ⟨sp, ts, e⟩
    rw [partition_noncat κ t hnc] at h
    by_cases h0 : ((invariantTextPrefix κ t).1 == 0) = true
    · simp only [h0, ↓reduceIte, Prod.mk.injEq, Option.some.injEq] at h
      obtain ⟨_, _, rfl⟩ := h
      have hc := concatenation_noncat t hnc
      rw [hc] at hq
      refine partition_of_scan_zero κ t t [] hc hq ?_
      unfold invariantTextPrefix at h0
      rw [hc] at h0
      simp only [hq, Bool.false_eq_true, ↓reduceIte, beq_iff_eq] at h0
      cases hi : isInv κ t with
      | true =>
        obtain ⟨a, ha⟩ := isInv_true.mp hi
        rw [prefixGo_inv_step κ ha] at h0
        simp [prefixGo, pick] at h0
      | false =>
        rw [prefixGo_var_step κ (isInv_false.mp hi)]
        cases isBoundaryTok t <;> rfl
    · simp [h0] at h

/-! ### 8. the boundary before further invariant tokens (`a/b*`, `b{c,d}`) -/

/-- `partition` on a concatenation, given the scan result and a non-boundary first kept token -/
theorem partition_cat_cut (κ : Casing) (sp : Span) (ts : List Tok) (n : Nat) (text : Str)
    (first : Tok) (more : List Tok) (hpre : invariantTextPrefix κ (.cat sp ts) = (n, text))
    (hd : ts.drop n = first :: more) (hb : isBoundaryTok first = false) :
    partition κ (.cat sp ts) = (text, spanSum (ts.take n),
      some ((Tok.cat sp (first :: more)).mapSpans (shiftSpan (spanSum (ts.take n))))) := by
  have hlen : ¬ (n ≥ ts.length) := by
    intro hge
    rw [List.drop_eq_nil_of_le hge] at hd
    cases hd
  unfold partition
  simp only [hpre, hlen, ↓reduceIte, hd, unroot_nonboundary hb, Option.map_some, Nat.add_zero]
  rfl

theorem isMid_nonboundary {κ : Casing} {t : Tok} (h : isMid κ t = true) : isBoundaryTok t = false := by
  simp only [isMid, Bool.and_eq_true, Bool.not_eq_true'] at h; exact h.2

theorem spanSum_append (a b : List Tok) : spanSum (a ++ b) = spanSum a + spanSum b := by
  simp only [spanSum, List.map_append, List.sum_append]

/-- **C08, no prefix, generalised** (`a*`, `b{c,d}/e`, `*.rs`): no boundary before the first variant
token (which is not a boundary itself): nothing is cut -/
theorem partition_none_mid (κ : Casing) (sp : Span) (mid : List Tok) (v : Tok) (more : List Tok)
    (hmid : mid.all (isMid κ) = true) (hv1 : isInv κ v = false) (hv2 : isBoundaryTok v = false)
    (hr : mid = [] → hasRoot v ≠ .always) :
    partition κ (.cat sp (mid ++ v :: more)) = ([], 0, some (.cat sp (mid ++ v :: more))) := by
  have h0 : prefixGo κ 0 (mid ++ v :: more) none none = (0, []) := by
    obtain ⟨h', e⟩ := prefixGo_mid κ mid hmid (v :: more) 0 none none
    rw [e, prefixGo_var_step κ (isInv_false.mp hv1)]
    simp only [hv2, Bool.false_eq_true, ↓reduceIte]
    rfl
  cases mid with
  | nil =>
    have hfr : firstRootedVariant κ (v :: more) = false := by
      have : (hasRoot v == When.always) = false := by simpa using hr rfl
      simp only [firstRootedVariant, this, Bool.false_and]
    exact partition_of_scan_zero κ _ v more rfl hfr h0
  | cons m mid' =>
    rw [List.all_cons, Bool.and_eq_true] at hmid
    have hm := hmid.1
    simp only [isMid, Bool.and_eq_true] at hm
    obtain ⟨a, ha⟩ := isInv_true.mp hm.1
    exact partition_of_scan_zero κ _ m (mid' ++ v :: more) rfl (firstRootedVariant_inv ha) h0

/-- **C08, invariant-token prefix, boundary anywhere** (`a/b*`, `{a}/<b:2>/c{x,y}/**`): well-formed
tokens with invariant text `P`, a separator, then text-invariant non-boundary tokens `mid`, then a
variant non-boundary token: the cut is after the separator (the last boundary before the first
variant token), `mid` stays with the postfix.  `partition_invariant_branches_partial` is `mid = []`.

Partial: `hlead` (the postfix cannot begin with a tree wildcard) is needed because the meaning of a
tree wildcard depends on whether anything precedes it. -/
theorem partition_invariant_mid_partial (σ : Sem) (κ : Casing) (hσ : CeqRefl σ) (hκ : CasingOk σ κ)
    (sp s : Span) (pre : List Tok) (fs : List Frag) (hw : wellL pre = true)
    (hpre : textCat κ pre = .inv fs) (mid : List Tok) (hmid : mid.all (isMid κ) = true)
    (v : Tok) (more : List Tok) (hv1 : isInv κ v = false) (hv2 : isBoundaryTok v = false)
    (hlead : leadTreeF (mid ++ v :: more) = false) :
    partition κ (.cat sp (pre ++ .sep s :: (mid ++ v :: more))) =
        (fragsToStr fs ++ ['/'], spanSum pre + s.len,
          some ((Tok.cat sp (mid ++ v :: more)).mapSpans (shiftSpan (spanSum pre + s.len)))) ∧
      ∀ w, Spec.Matches σ (.cat sp (pre ++ .sep s :: (mid ++ v :: more))) w ↔
        ∃ r, w = fragsToStr fs ++ '/' :: r ∧
          Spec.Matches σ ((Tok.cat sp (mid ++ v :: more)).mapSpans (shiftSpan (spanSum pre + s.len))) r := by
  constructor
  · have hscan : invariantTextPrefix κ (.cat sp (pre ++ .sep s :: (mid ++ v :: more))) =
        (pre.length + 1, fragsToStr fs ++ ['/']) := by
      unfold invariantTextPrefix
      simp only [Tok.concatenation, firstRootedVariant_invs_sep κ pre fs hpre, Bool.false_eq_true,
        ↓reduceIte]
      rw [prefixGo_invs_sep κ pre fs hpre]
      obtain ⟨h', e⟩ := prefixGo_mid κ mid hmid (v :: more) (0 + pre.length + 1)
        (some (0 + pre.length, headText none ++ fragsToStr fs ++ ['/']))
        (some (0 + pre.length, headText none ++ fragsToStr fs ++ ['/']))
      rw [e, prefixGo_var_step κ (isInv_false.mp hv1)]
      simp only [hv2, Bool.false_eq_true, ↓reduceIte, pick_some, Nat.zero_add, headText,
        List.nil_append]
    have hdrop : (pre ++ .sep s :: (mid ++ v :: more)).drop (pre.length + 1) = mid ++ v :: more := by
      have : pre ++ .sep s :: (mid ++ v :: more) = (pre ++ [.sep s]) ++ (mid ++ v :: more) := by simp
      rw [this, List.drop_left' (by simp)]
    have hsum : spanSum ((pre ++ .sep s :: (mid ++ v :: more)).take (pre.length + 1)) =
        spanSum pre + s.len := spanSum_take_sep pre s (mid ++ v :: more)
    cases mid with
    | nil =>
      have := partition_cat_cut κ sp _ _ _ v more hscan hdrop hv2
      rw [this, hsum]
      rfl
    | cons m mid' =>
      rw [List.all_cons, Bool.and_eq_true] at hmid
      have := partition_cat_cut κ sp _ _ _ m (mid' ++ v :: more) hscan hdrop
        (isMid_nonboundary hmid.1)
      rw [this, hsum]
      rfl
  · intro w
    have h1 := partition_sep σ pre (mid ++ v :: more) s (fragsToStr fs)
      (invs_exact σ κ hσ hκ pre fs hw hpre) hlead w
    constructor
    · intro h
      obtain ⟨r, hr, hm⟩ := h1.mp h
      exact ⟨r, hr, (matches_mapSpans σ _ _ r).mpr hm⟩
    · rintro ⟨r, hr, hm⟩
      exact h1.mpr ⟨r, hr, (matches_mapSpans σ _ _ r).mp hm⟩

/-! ### 9. the hypotheses are satisfiable; the hypothesis of idempotence is needed -/

namespace PartitionMoreEx

/-- a platform without casing, exact comparison: enough to instantiate the hypotheses -/
def κ0 : Casing := ⟨fun _ => false⟩
def σ0 : Sem := ⟨fun a b => a == b, true⟩

theorem hσ0 : CeqRefl σ0 := fun a => by simp [σ0]
theorem hκ0 : CasingOk σ0 κ0 := fun a b h hne => absurd (by simpa [σ0] using h) hne

/-- `{a}/b` -/
def g1 : Tok :=
  .cat ⟨0, 5⟩ [.alt ⟨0, 3⟩ [.cat ⟨1, 1⟩ [.lit ⟨1, 1⟩ ['a'] false]], .sep ⟨3, 1⟩, .lit ⟨4, 1⟩ ['b'] false]

example : partition κ0 g1 = (['a', '/', 'b'], 5, none) ∧
    ∀ w, Spec.Matches σ0 g1 w ↔ w = ['a', '/', 'b'] :=
  partition_invariant σ0 κ0 hσ0 hκ0 g1 [.nom ['a'], .str ['/'], .nom ['b']] (by decide) (by decide)

/-- `<a/:2>b` -/
def g1' : Tok :=
  .cat ⟨0, 7⟩ [.rep ⟨0, 6⟩ (.cat ⟨1, 2⟩ [.lit ⟨1, 1⟩ ['a'] false, .sep ⟨2, 1⟩]) 2 (some 2),
    .lit ⟨6, 1⟩ ['b'] false]

example : partition κ0 g1' = (['a', '/', 'a', '/', 'b'], 7, none) ∧
    ∀ w, Spec.Matches σ0 g1' w ↔ w = ['a', '/', 'a', '/', 'b'] :=
  partition_invariant σ0 κ0 hσ0 hκ0 g1'
    [.nom ['a'], .str ['/'], .nom ['a'], .str ['/'], .nom ['b']] (by decide) (by decide)

/-- `{a,b}/c` -/
def g2 : Tok :=
  .cat ⟨0, 7⟩ [.alt ⟨0, 5⟩ [.cat ⟨1, 1⟩ [.lit ⟨1, 1⟩ ['a'] false], .cat ⟨3, 1⟩ [.lit ⟨3, 1⟩ ['b'] false]],
    .sep ⟨5, 1⟩, .lit ⟨6, 1⟩ ['c'] false]

example : partition κ0 g2 = ([], 0, some g2) :=
  partition_none_fn κ0 g2 _ _ rfl (isInv_false.mp (by decide)) (by decide)

/-- `b{c,d}/e`: invariant first token, no boundary before the alternation -/
example : partition κ0
    (.cat ⟨0, 8⟩ ([.lit ⟨0, 1⟩ ['b'] false] ++
      .alt ⟨1, 5⟩ [.cat ⟨2, 1⟩ [.lit ⟨2, 1⟩ ['c'] false], .cat ⟨4, 1⟩ [.lit ⟨4, 1⟩ ['d'] false]] ::
      [.sep ⟨6, 1⟩, .lit ⟨7, 1⟩ ['e'] false])) = ([], 0, some (.cat ⟨0, 8⟩ [.lit ⟨0, 1⟩ ['b'] false,
      .alt ⟨1, 5⟩ [.cat ⟨2, 1⟩ [.lit ⟨2, 1⟩ ['c'] false], .cat ⟨4, 1⟩ [.lit ⟨4, 1⟩ ['d'] false]],
      .sep ⟨6, 1⟩, .lit ⟨7, 1⟩ ['e'] false])) :=
  partition_none_mid κ0 _ _ _ _ (by decide) (by decide) (by decide) (by intro h; cases h)

/-- `{a}/<b:2>/*.rs`: prefix tokens `{a}`, `/`, `<b:2>` -/
def pre3 : List Tok :=
  [.alt ⟨0, 3⟩ [.cat ⟨1, 1⟩ [.lit ⟨1, 1⟩ ['a'] false]], .sep ⟨3, 1⟩,
    .rep ⟨4, 5⟩ (.cat ⟨5, 1⟩ [.lit ⟨5, 1⟩ ['b'] false]) 2 (some 2)]

example : partition κ0 (.cat ⟨0, 14⟩ (pre3 ++ .sep ⟨9, 1⟩ :: .zom ⟨10, 1⟩ false ::
      [.lit ⟨11, 3⟩ ['.', 'r', 's'] false])) =
      (['a', '/', 'b', 'b', '/'], 10,
        some (.cat ⟨0, 14⟩ [.zom ⟨0, 1⟩ false, .lit ⟨1, 3⟩ ['.', 'r', 's'] false])) :=
  (partition_invariant_branches_partial σ0 κ0 hσ0 hκ0 ⟨0, 14⟩ ⟨9, 1⟩ pre3
    [.nom ['a'], .str ['/'], .nom ['b'], .nom ['b']] (by decide) (by decide) (.zom ⟨10, 1⟩ false)
    [.lit ⟨11, 3⟩ ['.', 'r', 's'] false] (isInv_false.mp (by decide)) (by decide) (by decide)).1

/-- `{a}/<b:2>/c*.rs`: the cut is after the second separator, `c` stays with the postfix -/
example : partition κ0 (.cat ⟨0, 15⟩ (pre3 ++ .sep ⟨9, 1⟩ :: ([.lit ⟨10, 1⟩ ['c'] false] ++
      .zom ⟨11, 1⟩ false :: [.lit ⟨12, 3⟩ ['.', 'r', 's'] false]))) =
      (['a', '/', 'b', 'b', '/'], 10,
        some (.cat ⟨0, 15⟩ [.lit ⟨0, 1⟩ ['c'] false, .zom ⟨1, 1⟩ false,
          .lit ⟨2, 3⟩ ['.', 'r', 's'] false])) :=
  (partition_invariant_mid_partial σ0 κ0 hσ0 hκ0 ⟨0, 15⟩ ⟨9, 1⟩ pre3
    [.nom ['a'], .str ['/'], .nom ['b'], .nom ['b']] (by decide) (by decide) [.lit ⟨10, 1⟩ ['c'] false]
    (by decide) (.zom ⟨11, 1⟩ false) [.lit ⟨12, 3⟩ ['.', 'r', 's'] false] (by decide) (by decide)
    (by decide)).1

/-- `[a]/**/b*`: class prefix, rooted tree wildcard, something after it -/
example : partition κ0 (.cat ⟨0, 9⟩ ([.cls ⟨0, 3⟩ false [.chr 'a']] ++ .tree ⟨3, 4⟩ true ::
      [.lit ⟨7, 1⟩ ['b'] false, .zom ⟨8, 1⟩ false])) =
      (['a'], 4, some (.cat ⟨0, 9⟩ [.tree ⟨0, 3⟩ false, .lit ⟨3, 1⟩ ['b'] false, .zom ⟨4, 1⟩ false])) :=
  (partition_tree_boundary_partial σ0 κ0 hσ0 hκ0 ⟨0, 9⟩ ⟨3, 4⟩ [.cls ⟨0, 3⟩ false [.chr 'a']]
    [.nom ['a']] (by simp) (by decide) (by decide) [.lit ⟨7, 1⟩ ['b'] false, .zom ⟨8, 1⟩ false]).1

/-- `a/**`: nothing after the tree wildcard: the bare prefix `a` is matched too -/
example : ∀ w, Spec.Matches σ0 (.cat ⟨0, 4⟩ ([.lit ⟨0, 1⟩ ['a'] false] ++ .tree ⟨1, 3⟩ true :: [])) w ↔
    w = ['a'] ∨ ∃ r, w = ['a'] ++ '/' :: r ∧ Spec.Matches σ0 (treePostfix ⟨0, 4⟩ ⟨1, 3⟩ [] 2) r :=
  (partition_tree_boundary_partial σ0 κ0 hσ0 hκ0 ⟨0, 4⟩ ⟨1, 3⟩ [.lit ⟨0, 1⟩ ['a'] false]
    [.nom ['a']] (by simp) (by decide) (by decide) []).2.2 rfl

/-- `/**/a` -/
example : partition κ0 (.cat ⟨0, 5⟩ [.tree ⟨0, 4⟩ true, .lit ⟨4, 1⟩ ['a'] false]) =
    (['/'], 1, some (.cat ⟨0, 5⟩ [.tree ⟨0, 3⟩ false, .lit ⟨3, 1⟩ ['a'] false])) :=
  (partition_tree_root σ0 κ0 ⟨0, 5⟩ ⟨0, 4⟩ [.lit ⟨4, 1⟩ ['a'] false]).1

/-- idempotence on the postfix of `{a}/<b:2>/*.rs` -/
example : ∃ p off q, partition κ0 (.cat ⟨0, 14⟩ (pre3 ++ .sep ⟨9, 1⟩ :: .zom ⟨10, 1⟩ false ::
      [.lit ⟨11, 3⟩ ['.', 'r', 's'] false])) = (p, off, some q) ∧
      partition κ0 q = ([], 0, some q) ∧ hasRoot q = .never :=
  partition_idempotent_sep_partial κ0 ⟨0, 14⟩ ⟨9, 1⟩ pre3 [.nom ['a'], .str ['/'], .nom ['b'], .nom ['b']]
    (by decide) (.zom ⟨10, 1⟩ false) [.lit ⟨11, 3⟩ ['.', 'r', 's'] false] (isInv_false.mp (by decide))
    (by decide) (by decide)

/-- `</a:1,>`: the rooting repetition (recorded finding) -/
def gRoot : Tok :=
  .cat ⟨0, 7⟩ [.rep ⟨0, 7⟩ (.cat ⟨1, 2⟩ [.sep ⟨1, 1⟩, .lit ⟨2, 1⟩ ['a'] false]) 1 none]

/-- **the hypothesis of `partition_idempotent` cannot be dropped**: `</a:1,>` is partitioned into
the prefix `/` and ITSELF (no byte removed), so a second `partition` yields `/` again, not the
empty prefix; and the postfix is still always rooted -/
theorem partition_idempotent_needs_hypothesis :
    (partition κ0 gRoot).1 = ['/'] ∧ (partition κ0 gRoot).2.1 = 0 ∧
    (∃ q, (partition κ0 gRoot).2.2 = some q ∧ q.concatenation.length = 1 ∧
      firstRootedVariant κ0 q.concatenation = true ∧ hasRoot q = .always ∧
      (partition κ0 q).1 = ['/']) ∧
    ¬ (∀ (t : Tok) (p : Str) (off : Nat) (q : Tok), partition κ0 t = (p, off, some q) →
        (partition κ0 q).1 = []) := by
  have hfix : partition κ0 gRoot = (['/'], 0, some gRoot) := by
    have h1 : invariantTextPrefix κ0 gRoot = (0, ['/']) := by decide
    unfold partition
    rw [h1]
    simp only [gRoot, List.length_cons, List.length_nil, ge_iff_le, Nat.le_zero_eq,
      Nat.add_one_ne_zero, ↓reduceIte, List.drop_zero, unroot, List.take_zero, List.map_nil,
      List.sum_nil, Nat.add_zero, Option.map_some, mapSpans_shift_zero]
  refine ⟨by rw [hfix], by rw [hfix], ⟨gRoot, by rw [hfix], rfl, by decide, by decide, by rw [hfix]⟩, ?_⟩
  intro h
  have := h gRoot _ _ _ hfix
  rw [hfix] at this
  cases this

/-- and the language is not preserved there: `</a:1,>` matches `/a`, but `/` joined with anything
the postfix (the same glob) matches begins with two separators -/
example : Spec.Matches σ0 gRoot ['/', 'a'] :=
  sms_singleton.mpr (.rep (n := 1) (Nat.le_refl _) (by intro h e; cases e)
    (.one (SMs.cons (u := ['/']) .sep (sms_singleton.mpr (.lit (by decide))))))

/-- so C08 is FALSE for `</a:1,>` (recorded finding, here with a kernel-checked proof): the glob
matches `/a`, `partition` returns the prefix `/` and the glob itself, and there is no `r` with
`/a = "/" ++ r` that the postfix matches (it only matches rooted paths) -/
theorem rooting_repetition_breaks_C08 :
    partition κ0 gRoot = (['/'], 0, some gRoot) ∧ Spec.Matches σ0 gRoot ['/', 'a'] ∧
      ¬ ∃ r, ['/', 'a'] = '/' :: r ∧ Spec.Matches σ0 gRoot r := by
  refine ⟨?_, ?_, ?_⟩
  · have h1 : invariantTextPrefix κ0 gRoot = (0, ['/']) := by decide
    unfold partition
    rw [h1]
    simp only [gRoot, List.length_cons, List.length_nil, ge_iff_le, Nat.le_zero_eq,
      Nat.add_one_ne_zero, ↓reduceIte, List.drop_zero, unroot, List.take_zero, List.map_nil,
      List.sum_nil, Nat.add_zero, Option.map_some, mapSpans_shift_zero]
  · exact sms_singleton.mpr (.rep (n := 1) (Nat.le_refl _) (by intro h e; cases e)
      (.one (SMs.cons (u := ['/']) .sep (sms_singleton.mpr (.lit (by decide))))))
  · rintro ⟨r, hr, hm⟩
    obtain ⟨r', hr'⟩ := root_sound σ0 gRoot (by decide) (by decide) r hm
    subst hr'
    simp at hr

end PartitionMoreEx

end Wax
