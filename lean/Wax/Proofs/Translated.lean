import Wax.Generated
import Wax.Behavior
import Wax.Path
import Wax.Natural
/-! The tie by TRANSLATION: `tools/rs2lean.py` has just translated the straight-line integer functions of
`src/walk/behavior.rs` (`min_at_pivot`, `max_at_pivot`, `min_max_at_pivot`, `DepthMinMax::max`),
`src/walk/mod.rs` (`join_and_get_depth`) and `src/token/variance/ops.rs` (the checked word operations) into
`Wax/Generated.lean`.  Each theorem here says that the hand-written model is that translated function, for all
arguments; an edit of the Rust source that changes what one of these functions computes makes the proof fail
here, naming the function (an edit outside the translatable fragment makes the translator give up, which is
reported as the tie no longer applying). -/
namespace Wax
open Wax.Walk

namespace DepthBehavior

theorem atPivot_min_is_source (n p : Nat) :
    atPivot (.min n) p = (Generated.minAtPivot n p, none) := by
  simp [atPivot, Generated.minAtPivot, Generated.satSub]

theorem atPivot_max_is_source (n p : Nat) :
    atPivot (.max n) p = (0, some (Generated.maxAtPivot n p)) := by
  simp [atPivot, Generated.maxAtPivot, Generated.satSub]

/-- `DepthMinMax::max` does not saturate for values built from two `usize` depths -/
theorem upper_minMax_is_source (a e : Nat) (h : a + e ≤ Generated.usizeMax) :
    upper (.minMax a e) = some (Generated.depthMinMaxMax a e) := by
  simp [upper, Generated.depthMinMaxMax, Generated.satAdd, h]

theorem atPivot_minMax_is_source (a e p : Nat) (h : a + e ≤ Generated.usizeMax) :
    atPivot (.minMax a e) p =
      ((Generated.minMaxAtPivot a e p).1,
        clampMax (Generated.minMaxAtPivot a e p).1 (some (Generated.minMaxAtPivot a e p).2)) := by
  simp [atPivot, Generated.minMaxAtPivot, Generated.depthMinMaxMax, Generated.satAdd, Generated.satSub, h]

/-- the model's word limit is the translator's -/
theorem usizeMax_is_source : usizeMax = Generated.usizeMax := rfl

end DepthBehavior

/-- the depth component of `join_and_get_depth` -/
theorem joinAndGetDepth_is_source (base p : Str) :
    (Path.joinAndGetDepth base p).2 =
      Generated.joinDepth (Path.isAbsolute p) (Path.components (Path.join base p)).length (Path.components base).length := by
  unfold Path.joinAndGetDepth Generated.joinDepth Generated.checkedAddExpect Generated.satSub
  cases Path.isAbsolute p <;> simp

/-- the checked addition of the size / depth folds is `usize::conjunction`, with its panic -/
theorem cadd_is_source (what : String) (a b : Nat) :
    cadd what a b = if a + b ≤ Generated.usizeMax then pure (Generated.conjunctionUsize a b) else throw s!"overflow {what}" := by
  unfold cadd Generated.conjunctionUsize Generated.checkedAddExpect Generated.usizeMax usizeLim
  by_cases h : a + b < 18446744073709551616
  · have : a + b ≤ 2 ^ 64 - 1 := by omega
    simp [h, this]
  · have : ¬ a + b ≤ 2 ^ 64 - 1 := by omega
    simp [h, this]

theorem cmul_is_source (what : String) (a b : Nat) :
    cmul what a b = if a * b ≤ Generated.usizeMax then pure (Generated.productUsize a b) else throw s!"overflow {what}" := by
  unfold cmul Generated.productUsize Generated.checkedMulExpect Generated.usizeMax usizeLim
  by_cases h : a * b < 18446744073709551616
  · have : a * b ≤ 2 ^ 64 - 1 := by omega
    simp [h, this]
  · have : ¬ a * b ≤ 2 ^ 64 - 1 := by omega
    simp [h, this]

/-- the two word types share their operations -/
theorem nonzero_ops_are_usize_ops (a b : Nat) :
    Generated.conjunctionNonZero a b = Generated.conjunctionUsize a b ∧
    Generated.productNonZero a b = Generated.productUsize a b := ⟨rfl, rfl⟩

end Wax
