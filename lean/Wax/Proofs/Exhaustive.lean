import Wax.Spec
/-!
C09 (semantic half): a pattern every expansion of which ends in a tree wildcard is closed under
descending — whatever it matches, it matches with `/` and anything appended.
-/
namespace Wax

mutual
  /-- every flat expansion of the token ends in a tree wildcard -/
  def endsTok : Tok → Bool
    | .tree .. => true
    | .alt _ bs => endsBranches bs
    | .rep _ body lo _ => decide (1 ≤ lo) && endsTok body
    | .cat _ ts => endsList ts
    | _ => false
  def endsList : List Tok → Bool
    | [] => false
    | [t] => endsTok t
    | _ :: t :: ts => endsList (t :: ts)
  def endsBranches : List Tok → Bool
    | [] => true
    | b :: bs => endsTok b && endsBranches bs
end

theorem endsBranches_mem {bs : List Tok} {b : Tok} (hb : b ∈ bs) (h : endsBranches bs = true) : endsTok b = true := by
  induction bs with
  | nil => cases hb
  | cons x xs ih =>
    simp only [endsBranches, Bool.and_eq_true] at h
    cases hb with
    | head => exact h.1
    | tail _ hm => exact ih hm h.2

/-- the list of tokens a branch / body stands for ends in a tree wildcard when the token does -/
theorem endsList_concatenation {b : Tok} (h : endsTok b = true) : endsList b.concatenation = true := by
  cases b <;> simp_all [Tok.concatenation, endsList, endsTok]

theorem treeLang_desc {c : Ctx} {r : Bool} {w : Str} (hl : c.last = true) (h : TreeLang c r w) (x : Str) :
    TreeLang c r (w ++ '/' :: x) := by
  obtain ⟨cf, cl⟩ := c
  simp only at hl; subst hl
  cases cf <;> cases r <;> simp only [TreeLang, ↓reduceIte, Bool.false_eq_true] at h ⊢
  · rcases h with rfl | ⟨m, rfl⟩
    · exact Or.inr ⟨x, rfl⟩
    · exact Or.inr ⟨m ++ '/' :: x, by simp⟩
  · rcases h with rfl | ⟨m, rfl⟩
    · exact Or.inr ⟨x, rfl⟩
    · exact Or.inr ⟨m ++ '/' :: x, by simp⟩
  · obtain ⟨m, rfl⟩ := h
    exact ⟨m ++ '/' :: x, by simp⟩

mutual
  theorem sm_desc (σ : Sem) : ∀ {c : Ctx} {t : Tok} {w : Str}, SM σ c t w → c.last = true → endsTok t = true →
      ∀ x, SM σ c t (w ++ '/' :: x)
    | _, _, _, .lit _, _, he, _ => by simp [endsTok] at he
    | _, _, _, .sep, _, he, _ => by simp [endsTok] at he
    | _, _, _, .cls _, _, he, _ => by simp [endsTok] at he
    | _, _, _, .one _, _, he, _ => by simp [endsTok] at he
    | _, _, _, .zom _, _, he, _ => by simp [endsTok] at he
    | _, _, _, .tree h, hl, _, x => .tree (treeLang_desc hl h x)
    | _, _, _, .alt hb hm, hl, he, x => by
      simp only [endsTok] at he
      exact .alt hb (sms_desc σ hm hl (endsList_concatenation (endsBranches_mem hb he)) x)
    | _, _, _, .rep h1 h2 h3, hl, he, x => by
      simp only [endsTok, Bool.and_eq_true, decide_eq_true_eq] at he
      exact .rep h1 h2 (srep_desc σ h3 hl (endsList_concatenation he.2) (by omega) x)
    | _, _, _, .cat h, hl, he, x => by
      simp only [endsTok] at he
      exact .cat (sms_desc σ h hl he x)
  theorem sms_desc (σ : Sem) : ∀ {c : Ctx} {ts : List Tok} {w : Str}, SMs σ c ts w → c.last = true →
      endsList ts = true → ∀ x, SMs σ c ts (w ++ '/' :: x)
    | _, _, _, .nil, _, he, _ => by simp [endsList] at he
    | c, [t], _, @SMs.cons _ _ _ _ u _ hu .nil, hl, he, x => by
      simp only [endsList] at he
      have hu' := sm_desc σ hu (by simp [hl]) he x
      have : SMs σ c [t] ((u ++ '/' :: x) ++ []) := .cons hu' .nil
      simpa using this
    | c, t :: t2 :: ts2, _, @SMs.cons _ _ _ _ u v hu hv, hl, he, x => by
      simp only [endsList] at he
      have hv' := sms_desc σ hv hl he x
      have : SMs σ c (t :: t2 :: ts2) (u ++ (v ++ '/' :: x)) := .cons hu hv'
      simpa using this
  theorem srep_desc (σ : Sem) : ∀ {c : Ctx} {body : List Tok} {n : Nat} {w : Str}, SRep σ c body n w →
      c.last = true → endsList body = true → 1 ≤ n → ∀ x, SRep σ c body n (w ++ '/' :: x)
    | _, _, _, _, .zero, _, _, hn, _ => by omega
    | _, _, _, _, .one h, hl, he, _, x => .one (sms_desc σ h hl he x)
    | c, body, _, _, @SRep.more _ _ _ n u v hu hv, hl, he, _, x => by
      have hv' := srep_desc σ hv hl he (by omega) x
      have : SRep σ c body (n + 2) (u ++ (v ++ '/' :: x)) := .more hu hv'
      simpa using this
end

/-- **C09, semantic half**: if every expansion of the pattern ends in a tree wildcard, then with any
    path it matches it matches every path obtained by appending a separator and anything -/
theorem endsInTree_descClosed (σ : Sem) (t : Tok) (he : endsList t.concatenation = true) (w : Str)
    (h : Spec.Matches σ t w) (x : Str) : Spec.Matches σ t (w ++ '/' :: x) :=
  sms_desc σ h rfl he x

end Wax
