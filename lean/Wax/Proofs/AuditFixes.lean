import Wax.Proofs.DepthAlg
import Wax.Proofs.ParseShape
import Wax.Proofs.PathSplit
import Wax.Proofs.Compose
import Wax.Proofs.RuleSpecEquiv
import Wax.Proofs.HirEncode
import Wax.Proofs.SpecRe
import Wax.Proofs.TextMatches
import Wax.Proofs.SepFree
import Wax.Proofs.Behavior
/-!
Corrected / strengthened statements found wanting by the audit of `/verif/tools/obligations.json`
(see `/root/scratch/proof-audit/REPORT.md`).  New theorems only; no existing file is changed.

1. `conjFixed_sound`            — soundness of the conjunction the model's folds really use
                                   (`BVR.conj_sound` speaks of the pinned `BVR.conj`, which no fold calls)
2. `build_root_certain_some`    — `hasRoot` is `getD .never`: the certainty statement on `rootTok` itself
3. `splitAtDepth_unwrap_total`  — the `strip_prefix(..).unwrap()` of `split_at_depth` never panics
                                   (the model totalises it with `getD []`)
4. `build_noAdjZom_uncapped`, … — rules R1 / R2 over ALL flat expansions (`expU`), without the 3000 cap
                                   that makes `expTok … = some es` fail on large expressions
5. `sm_rep_all_bounds`, `rep_zero_law` — repetition as iteration for every bound, `lo = 0` included
6. `groupList_encodeTop`        — capture groups IN ORDER (the listed theorem only counts them)
7. `specRe_needs_dotall`        — the hypothesis `σ.dotall = true` of `specRe_correct` cannot be dropped
8. `σA_casingOk`, …             — `SepIsolated` / `CeqRefl` / `CasingOk` hold for a semantics that really folds case
9. `atPivot_short_all`          — K-DEPTH-SATURATE for EVERY behaviour with a maximum (the listed one: `.max n` only)
-/
set_option linter.unusedSimpArgs false
set_option linter.unusedVariables false
namespace Wax

/-! ### 1. the repaired conjunction is sound -/

/-- **soundness of `conjFixed`** (what `NVar.conj`, hence the depth and size folds, calls since
    repair 5): whenever it returns, the result contains every sum -/
theorem conjFixed_sound (a b r : BVR) (ha : a.wf) (hb : b.wf) (h : a.conjFixed b = .ok r)
    (x y : Nat) (hx : a.mem x) (hy : b.mem y) : r.mem (x + y) := by
  obtain ⟨_, h2, h3⟩ := conjFixed_back ha hb h
  rw [BVR.mem_iff] at hx hy ⊢
  refine ⟨by omega, ?_⟩
  intro z hz
  rw [h3] at hz
  cases hp : a.hi with
  | none => rw [hp] at hz; cases hz
  | some p =>
    cases hq : b.hi with
    | none => rw [hp, hq] at hz; cases hz
    | some q =>
      rw [hp, hq] at hz; cases hz
      have := hx.2 p hp
      have := hy.2 q hq
      omega

/-- non-vacuity: `[2,5] + [≥ 1] = [≥ 3]`, the pair of operands on which the pinned `conj` reached
    `unreachable!()` in mirrored form -/
example : (BVR.lower 3).mem (4 + 7) :=
  conjFixed_sound (.both 2 3) (.lower 1) (.lower 3) (by simp [BVR.wf]) (by simp [BVR.wf]) (by rfl) 4 7
    (by simp [BVR.mem]) (by simp [BVR.mem])

/-- the pinned `conj` and the repaired one differ: the listed theorem `BVR.conj_sound` has a
    hypothesis (`a.conj b = .ok r`) that fails where the repaired code returns -/
example : (∀ r, (BVR.upper 2).conj (.lower 1) ≠ .ok r) ∧
    (BVR.upper 2).conjFixed (.lower 1) = .ok (.lower 1) := by
  refine ⟨?_, rfl⟩
  intro r h
  cases h

/-! ### 2. certainty of the root, without `getD` -/

/-- **C06 / C12 on `rootTok` itself**: `hasRoot t = (rootTok t).getD .never`, so
    `hasRoot t ≠ .sometimes` would also hold if the fold returned nothing.  It does return, and
    what it returns is `Always` or `Never`. -/
theorem build_root_certain_some (e : Str) (t : Tok) (hp : parse e = .ok t) (hc : checkS t = true) :
    rootTok t = some .always ∨ rootTok t = some .never := by
  have hps := parse_pshape e t hp
  have hs := okBody_shaped t ⟨none, none⟩ hps hc
  have hn := pshape_noCatIn t hps
  exact glob_root_certain t hs (by simpa using okBody_rootRule t ⟨none, none⟩ hs hn hc)

/-! ### 3. `split_at_depth` cannot panic -/

/-- **the `unwrap` of `split_at_depth` is safe** (walk/mod.rs:123
    `self.strip_prefix(ancestor).unwrap()`; the model writes `.getD []`): for every path and every
    depth the ancestor that is picked is a prefix of the path -/
theorem splitAtDepth_unwrap_total (p : Str) (d : Nat) :
    (Path.stripPrefix p ((Path.ancestors p)[d]?.getD [])).isSome = true := by
  by_cases h0 : d = 0
  · subst h0
    simp [Path.ancestors_zero, Path.stripPrefix, Path.isPrefixOf_self]
  · by_cases hd : d ≤ (Path.components p).length - (if Path.isAbsolute p then 1 else 0)
    · rw [Path.ancestors_getElem (by omega) hd]
      simp [Path.stripPrefix_takeComps]
    · have : (Path.ancestors p)[d]? = none := by
        rw [List.getElem?_eq_none_iff, Path.ancestors_length]; omega
      simp [this, Path.stripPrefix, Path.components_nil, Path.isPrefixOf]

end Wax

namespace Wax
open AdjN

/-! ### 4. rules R1 / R2 over ALL flat expansions

`expTok` gives up (`none`) as soon as a node has more than `expCap = 3000` expansions, so the listed
theorems `build_noAdjZom`, `build_noAdj_once`, `checkS_noAdj_nested_partial`, `adjacent_rejected`
("full strength for every expression") say nothing about such expressions.  The proofs never use
the cap: here are the statements over `expU`, the same enumeration without it.
(`checkS_noAdj_nested_uncapped` of `RuleAdjNested.lean` is the R1-twice one.) -/

/-- **R2 for every expression that parses, every flat expansion, no cap** -/
theorem build_noAdjZom_uncapped (e : Str) (t : Tok) (hp : parse e = .ok t) (h : checkS t = true) :
    ∀ l ∈ expU false t, noAdj LK.isZ l = true := by
  have hs := parse_pshape e t hp
  have hz := parse_noAdjZom e t hp
  rw [← liftK_isZ] at hz
  exact M_body false ruleFor_isZ (fun e => by cases e) t _ hs hz (fun e => by cases e) h

/-- **R1 with bodies written once, every expression that parses, every flat expansion, no cap** -/
theorem build_noAdj_once_uncapped (e : Str) (t : Tok) (hp : parse e = .ok t) (h : checkS t = true) :
    ∀ l ∈ expU false t, noAdj LK.isB l = true := by
  have hs := parse_pshape e t hp
  have hc := okBody_cats t _ hs h
  rw [← liftK_isB] at hc
  exact M_body false ruleFor_isB (fun e => by cases e) t _ hs hc (fun e => by cases e) h

/-- **R1 with bodies written twice, on `repsSafe`, every expression that parses, no cap** -/
theorem build_noAdj_nested_uncapped (e : Str) (t : Tok) (hp : parse e = .ok t)
    (hf : repsSafe Tok.isBoundaryT t = true) (h : checkS t = true) :
    ∀ l ∈ expU true t, noAdj LK.isB l = true :=
  checkS_noAdj_nested_uncapped t (parse_pshape e t hp) hf h

/-- the contrapositive, no cap -/
theorem adjacent_rejected_uncapped (e : Str) (t : Tok) (hp : parse e = .ok t)
    (hf : repsSafe Tok.isBoundaryT t = true) (l : List LK) (hl : l ∈ expU true t)
    (hadj : noAdj LK.isB l = false) : checkS t = false := by
  cases h : checkS t with
  | false => rfl
  | true =>
    have := build_noAdj_nested_uncapped e t hp hf h l hl
    rw [hadj] at this; cases this

/-- the capped enumeration is the uncapped one whenever it answers -/
example (tw : Bool) (t : Tok) (es : List (List LK)) (h : expTok tw t = some es) : es = expU tw t :=
  expTok_eq tw t es h

end Wax

namespace Wax
open AdjN

/-- **the cap is reached by a short buildable expression**: twelve two-way alternations in a row
    (60 bytes, accepted by the checker) have `2^12 = 4096 > 3000` flat expansions, so `expTok` and
    `wfSpec` answer `none` and every theorem with a hypothesis `expTok … = some es` /
    `wfSpec t = some b` is silent about it -/
theorem expTok_cap_reached :
    (match parse "{a,b}{a,b}{a,b}{a,b}{a,b}{a,b}{a,b}{a,b}{a,b}{a,b}{a,b}{a,b}".toList with
      | .ok t => checkS t && (expTok false t).isNone && (expTok true t).isNone && (wfSpec t).isNone
      | .err _ => false) = true := by decide +kernel

/-! ### 5. repetition is iteration, for every bound

`srep_iff` is listed as "repetition semantics as iteration, all bounds" but covers `n + 1`
iterations only, and `rep_unroll` needs `1 ≤ lo`.  With `repeatList body 0 = []` the token-level law
holds uniformly, and in a concatenation a repetition that may iterate zero times is "the empty
literal in its place, or the same repetition iterating at least once". -/

theorem srep_zero_iff {σ : Sem} {c : Ctx} {body : List Tok} {w : Str} : SRep σ c body 0 w ↔ w = [] :=
  ⟨fun h => by cases h; rfl, fun h => h ▸ .zero⟩

/-- iterating a (non-empty) body `n` times is matching it written out `n` times — `n = 0` included -/
theorem srep_iff_all {σ : Sem} {body : List Tok} (hb : body ≠ []) (n : Nat) (c : Ctx) (w : Str) :
    SRep σ c body n w ↔ SMs σ c (repeatList body n) w := by
  cases n with
  | zero => rw [srep_zero_iff]; simp only [repeatList]; rw [sms_nil]
  | succ k => exact srep_iff hb k c w

/-- **a repetition matches its body written out `n` times for a permitted `n`**: every lower
    bound (0 included), every upper bound, every context -/
theorem sm_rep_all_bounds {σ : Sem} (c : Ctx) (sp : Span) (body : Tok) (lo : Nat) (hi : Option Nat)
    (hne : body.concatenation ≠ []) (w : Str) :
    SM σ c (.rep sp body lo hi) w ↔
      ∃ n, lo ≤ n ∧ (∀ h, hi = some h → n ≤ h) ∧ SMs σ c (repeatList body.concatenation n) w := by
  rw [sm_rep]
  constructor
  · rintro ⟨n, h1, h2, h3⟩; exact ⟨n, h1, h2, (srep_iff_all hne n c w).mp h3⟩
  · rintro ⟨n, h1, h2, h3⟩; exact ⟨n, h1, h2, (srep_iff_all hne n c w).mpr h3⟩

/-- a token inside a concatenation: its own context is `first` iff nothing precedes, `last` iff
    nothing follows -/
theorem sms_mid {σ : Sem} (c : Ctx) (pre post : List Tok) (t : Tok) (w : Str) :
    SMs σ c (pre ++ [t] ++ post) w ↔
      ∃ u a b, w = u ++ (a ++ b) ∧ SMs σ ⟨c.first, false⟩ pre u ∧
        SM σ ⟨c.first && pre.isEmpty, c.last && post.isEmpty⟩ t a ∧ SMs σ ⟨false, c.last⟩ post b := by
  simp only [List.append_assoc]
  rw [sms_append]
  constructor
  · rintro ⟨u, v, rfl, hu, hv⟩
    rw [sms_append] at hv
    obtain ⟨a, b, rfl, ha, hb⟩ := hv
    rw [sms_singleton] at ha
    exact ⟨u, a, b, rfl, by simpa using hu, by simpa using ha, by simpa using hb⟩
  · rintro ⟨u, a, b, rfl, hu, ha, hb⟩
    refine ⟨u, a ++ b, rfl, by simpa using hu, ?_⟩
    rw [sms_append]
    exact ⟨a, b, rfl, by rw [sms_singleton]; simpa using ha, by simpa using hb⟩

theorem sm_empty_lit {σ : Sem} {c : Ctx} {sp : Span} {w : Str} : SM σ c (.lit sp [] false) w ↔ w = [] := by
  rw [sm_lit]
  cases w <;> simp [litEq]

/-- **the `lo = 0` half that `rep_unroll` leaves out**: in any concatenation, in any context, a
    repetition that may iterate zero times matches what the pattern with the EMPTY LITERAL in its
    place matches (zero iterations) or what the same repetition with lower bound 1 matches (if its
    upper bound allows one iteration) -/
theorem rep_zero_law {σ : Sem} (c : Ctx) (pre post : List Tok) (sp : Span) (body : Tok)
    (hi : Option Nat) (w : Str) :
    SMs σ c (pre ++ [.rep sp body 0 hi] ++ post) w ↔
      SMs σ c (pre ++ [.lit sp [] false] ++ post) w ∨
      ((∀ h, hi = some h → 1 ≤ h) ∧ SMs σ c (pre ++ [.rep sp body 1 hi] ++ post) w) := by
  rw [sms_mid, sms_mid, sms_mid]
  constructor
  · rintro ⟨u, a, b, rfl, hu, ha, hb⟩
    rw [sm_rep] at ha
    obtain ⟨n, _, h2, h3⟩ := ha
    cases n with
    | zero =>
      rw [srep_zero_iff] at h3; subst h3
      exact Or.inl ⟨u, [], b, rfl, hu, sm_empty_lit.mpr rfl, hb⟩
    | succ k =>
      refine Or.inr ⟨fun h hh => by have := h2 h hh; omega, u, a, b, rfl, hu, ?_, hb⟩
      rw [sm_rep]; exact ⟨k + 1, by omega, h2, h3⟩
  · rintro (⟨u, a, b, rfl, hu, ha, hb⟩ | ⟨_, u, a, b, rfl, hu, ha, hb⟩)
    · rw [sm_empty_lit] at ha; subst ha
      refine ⟨u, [], b, rfl, hu, ?_, hb⟩
      rw [sm_rep]; exact ⟨0, Nat.le_refl _, fun _ _ => Nat.zero_le _, .zero⟩
    · rw [sm_rep] at ha
      obtain ⟨n, _, h2, h3⟩ := ha
      refine ⟨u, a, b, rfl, hu, ?_, hb⟩
      rw [sm_rep]; exact ⟨n, Nat.zero_le _, h2, h3⟩

end Wax

namespace Wax

/-! ### 6. the capture groups, in order

`groups_eq_captures` (listed as "in bijection, in order") states an equality of two NUMBERS.  Here
is the order: the list of capture groups of the compiled program is the concatenation, token by
token and left to right, of the groups each top-level token contributes, and a token contributes
exactly one group if it is capturing and none otherwise.  So group `k` belongs to the `k`-th
capturing token. -/

mutual
  theorem ncaps_eq_groups : ∀ (r : Re), r.ncaps = r.groups
    | .lit .. => by simp [Re.ncaps, Re.groups]
    | .chr _ => by simp [Re.ncaps, Re.groups]
    | .never => by simp [Re.ncaps, Re.groups]
    | .cat l => by simp only [Re.ncaps, Re.groups]; exact ncapsList_eq_groupsL l
    | .alt l => by simp only [Re.ncaps, Re.groups]; exact ncapsList_eq_groupsL l
    | .star r => by simp only [Re.ncaps, Re.groups]; exact ncaps_eq_groups r
    | .lazyStar r => by simp only [Re.ncaps, Re.groups]; exact ncaps_eq_groups r
    | .opt r => by simp only [Re.ncaps, Re.groups]; exact ncaps_eq_groups r
    | .rep r _ _ => by simp only [Re.ncaps, Re.groups]; exact ncaps_eq_groups r
    | .grp r => by simp only [Re.ncaps, Re.groups]; exact ncaps_eq_groups r
    | .cap r => by simp only [Re.ncaps, Re.groups, ncaps_eq_groups r]; omega
  theorem ncapsList_eq_groupsL : ∀ (l : List Re), Re.ncapsList l = Re.groupsL l
    | [] => by simp [Re.ncapsList, Re.groupsL]
    | r :: rs => by simp only [Re.ncapsList, Re.groupsL, ncaps_eq_groups r, ncapsList_eq_groupsL rs]
end

/-- the groups each token of a concatenation contributes, token by token -/
def tokGroups (sup : Option Pos) : List Tok → Nat → Nat → List (List Re)
  | [], _, _ => []
  | t :: ts, i, n => (encodeTok true sup (posOf i n) t).groupList :: tokGroups sup ts (i + 1) n

theorem groupListL_encodeList (sup : Option Pos) : ∀ (ts : List Tok) (i n : Nat),
    Re.groupListL (encodeList true sup ts i n) = (tokGroups sup ts i n).flatten
  | [], _, _ => by simp [encodeList, Re.groupListL, tokGroups]
  | t :: ts, i, n => by
    simp only [encodeList, Re.groupListL, tokGroups, List.flatten_cons,
      groupListL_encodeList sup ts (i + 1) n]

theorem tokGroups_lengths (sup : Option Pos) : ∀ (ts : List Tok) (i n : Nat),
    (∀ t ∈ ts, t.isCat = false) →
    (tokGroups sup ts i n).map List.length = ts.map (fun t => if t.capturing then 1 else 0)
  | [], _, _, _ => by simp [tokGroups]
  | t :: ts, i, n, h => by
    simp only [tokGroups, List.map_cons]
    rw [tokGroups_lengths sup ts (i + 1) n (fun x hx => h x (List.mem_cons_of_mem _ hx)),
      groupList_length, ncaps_eq_groups,
      groups_encodeTok_true t (h t (List.mem_cons_self ..)) sup (posOf i n)]

theorem tokGroups_get (sup : Option Pos) : ∀ (ts : List Tok) (i n k : Nat) (t : Tok),
    ts[k]? = some t → (tokGroups sup ts i n)[k]? = some (encodeTok true sup (posOf (i + k) n) t).groupList
  | [], _, _, _, _, h => by simp at h
  | a :: ts, i, n, 0, t, h => by
    simp only [List.getElem?_cons_zero, Option.some.injEq] at h; subst h
    simp [tokGroups]
  | a :: ts, i, n, k + 1, t, h => by
    simp only [List.getElem?_cons_succ] at h
    simp only [tokGroups, List.getElem?_cons_succ]
    rw [tokGroups_get sup ts (i + 1) n k t h]
    have e : i + 1 + k = i + (k + 1) := by omega
    rw [e]

/-- **C04 (iii), with the order**: the capture groups of the compiled program of a glob are, left
    to right, the groups of its top-level tokens; the `k`-th token contributes the groups of its
    own encoding, exactly one if it is capturing (`Token::is_capturing`) and none otherwise -/
theorem groupList_encodeTop (sp : Span) (ts : List Tok) (h : ∀ t ∈ ts, t.isCat = false) :
    ∃ gs : List (List Re),
      (encodeTop (.cat sp ts)).groupList = gs.flatten ∧
      gs.map List.length = ts.map (fun t => if t.capturing then 1 else 0) ∧
      ∀ k t, ts[k]? = some t →
        gs[k]? = some (encodeTok true none (posOf k ts.length) t).groupList := by
  refine ⟨tokGroups none ts 0 ts.length, ?_, tokGroups_lengths none ts 0 ts.length h, ?_⟩
  · simp only [encodeTop, Re.groupList]
    exact groupListL_encodeList none ts 0 ts.length
  · intro k t hk
    simpa using tokGroups_get none ts 0 ts.length k t hk

/-- the theorem at work on `a*/{b,c}?`: three capturing tokens (`*`, the alternation, `?`), three
    groups, in that order -/
example :
    let ts : List Tok := [.lit ⟨0, 1⟩ ['a'] false, .zom ⟨1, 1⟩ false, .sep ⟨2, 1⟩,
      .alt ⟨3, 5⟩ [.cat ⟨4, 1⟩ [.lit ⟨4, 1⟩ ['b'] false], .cat ⟨6, 1⟩ [.lit ⟨6, 1⟩ ['c'] false]],
      .one ⟨8, 1⟩]
    parse "a*/{b,c}?".toList = .ok (.cat ⟨0, 9⟩ ts) ∧
    (tokGroups none ts 0 ts.length).map List.length = [0, 1, 0, 1, 1] ∧
    (encodeTop (.cat ⟨0, 9⟩ ts)).groupList.length = 3 := by
  intro ts
  refine ⟨by rfl, ?_, by decide⟩
  exact tokGroups_lengths none ts 0 ts.length (by decide)

end Wax

namespace Wax

/-! ### 7. `specRe_correct` needs `dotall`

Listed as "for every token tree and string; no fragment" — true, but it has a hypothesis on the
regex semantics, `σ.dotall = true` (the `(?s)` the crate puts in front of every pattern since
repair 2).  Without it the statement is false: `**` and a new line. -/

/-- exact comparison, `.` does NOT match a new line -/
def σnodot : Sem := ⟨fun a b => a == b, false⟩

theorem specRe_needs_dotall :
    ¬ (∀ (σ : Sem) (t : Tok) (w : Str), Matches σ (specRe t) w ↔ Spec.Matches σ t w) := by
  intro h
  have h1 : Spec.Matches σnodot (.cat ⟨0, 2⟩ [.tree ⟨0, 2⟩ false]) ['\n'] := by
    show SMs σnodot ⟨true, true⟩ [.tree ⟨0, 2⟩ false] ['\n']
    rw [sms_singleton]
    exact .tree (by simp [TreeLang])
  have h2 := (matchB_iff σnodot _ _).mpr ((h σnodot _ _).mpr h1)
  revert h2
  decide

/-! ### 8. the hypotheses on the semantics are met by a semantics that really folds case

Every concrete `Sem` the proof files instantiate their theorems with (`σcs`, `exSem`, `σ0`,
`trivSem`) compares characters EXACTLY, so under them a case-insensitive literal behaves like a
case-sensitive one; and for the driver's tables `CasingOk drvSem drvCasing` is false (they are exact
on the driver alphabet only).  Here is a semantics with ASCII case folding, with the three
hypotheses `SepIsolated`, `CeqRefl`, `CasingOk` proved for ALL characters, and `text_exact` at work
on a pattern with a case-insensitive literal. -/

def foldA (n : Nat) : Nat := if 65 ≤ n ∧ n ≤ 90 then n + 32 else n
/-- ASCII simple case folding; `.` matches new lines -/
def σA : Sem := ⟨fun a b => foldA a.toNat == foldA b.toNat, true⟩
/-- ASCII letters have casing -/
def κA : Casing := ⟨fun c => (65 ≤ c.toNat && c.toNat ≤ 90) || (97 ≤ c.toNat && c.toNat ≤ 122)⟩

theorem σA_folds : σA.ceq 'a' 'A' = true ∧ σA.ceq 'a' 'b' = false := by decide

theorem σA_ceqRefl : CeqRefl σA := fun a => by simp [σA]

theorem σA_sepIsolated : SepIsolated σA := by
  intro a b h
  simp only [σA, beq_iff_eq] at h
  have key : a.toNat = 47 ↔ b.toNat = 47 := by
    unfold foldA at h
    split at h <;> split at h <;> omega
  constructor
  · intro ha; subst ha
    exact Char.toNat_inj.mp (key.mp (by decide))
  · intro hb; subst hb
    exact Char.toNat_inj.mp (key.mpr (by decide))

theorem σA_casingOk : CasingOk σA κA := by
  intro a b h hne
  simp only [σA, beq_iff_eq] at h
  have hn : a.toNat ≠ b.toNat := fun e => hne (Char.toNat_inj.mp e)
  simp only [κA, Bool.or_eq_true, Bool.and_eq_true, decide_eq_true_eq]
  unfold foldA at h
  split at h <;> split at h <;> omega

/-- `x(?i)12{3}` as parsed: a case-sensitive literal, a case-INSENSITIVE literal without cased
    characters, an invariant alternation -/
def tCi : Tok := .cat ⟨0, 10⟩ [.lit ⟨0, 1⟩ ['x'] false, .lit ⟨1, 6⟩ ['1', '2'] true,
  .alt ⟨7, 3⟩ [.cat ⟨8, 1⟩ [.lit ⟨8, 1⟩ ['3'] true]]]

example : parse "x(?i)12{3}".toList = .ok tCi := by rfl

/-- `text_exact` under a folding semantics: the pattern matches exactly its invariant text … -/
example (w : Str) : Spec.Matches σA tCi w ↔ w = "x123".toList :=
  text_exact σA κA σA_ceqRefl σA_casingOk tCi [.nom ['x', '1', '2', '3']]
    (by decide) (by decide) w

/-- … while with a cased character after `(?i)` the text is NOT invariant (the hypothesis
    `textTok κ t = .inv fs` fails), and rightly so: `x(?i)a` matches both `xa` and `xA` -/
example : textTok κA (.cat ⟨0, 6⟩ [.lit ⟨0, 1⟩ ['x'] false, .lit ⟨1, 5⟩ ['a'] true]) = .bnd ∧
    (specRe (.cat ⟨0, 6⟩ [.lit ⟨0, 1⟩ ['x'] false, .lit ⟨1, 5⟩ ['a'] true])).matchB σA "xA".toList = true ∧
    (specRe (.cat ⟨0, 6⟩ [.lit ⟨0, 1⟩ ['x'] false, .lit ⟨1, 5⟩ ['a'] true])).matchB σA "xa".toList = true := by
  decide

/-- the driver's own tables do NOT satisfy `CasingOk` for all characters (`À`/`à` are outside the
    driver alphabet): theorems with that hypothesis cannot be instantiated with `drvSem`,
    `drvCasing` -/
theorem drv_not_casingOk : ¬ CasingOk drvSem drvCasing := by
  intro h
  have := h (Char.ofNat 0xc0) (Char.ofNat 0xe0) (by decide) (by decide)
  revert this
  decide

end Wax

namespace Wax.DepthBehavior
open Wax Wax.Walk

/-! ### 9. the saturating maximum, for every behaviour

`atPivot_short` (K-DEPTH-SATURATE) is stated for `DepthBehavior.max n` only and `atPivot_admits`
excludes every behaviour whose maximum lies above the walk root (`hreach`).  A `MinMax` behaviour
saturates in the same way; together the two theorems below decide `pivotAdmits (b.atPivot pivot)`
for every behaviour and every pivot. -/

/-- **K-DEPTH-SATURATE, every behaviour**: whenever the configured maximum `u` lies above the walk
    root (`u < pivot`), walkdir is handed `[0, 0]`: exactly the walk root is within the bounds,
    although the configuration admits no depth `d + pivot` at all -/
theorem atPivot_short_all (b : DepthBehavior) (pivot d u : Nat) (hu : b.upper = some u)
    (h : u < pivot) :
    (pivotAdmits (b.atPivot pivot) d ↔ d = 0) ∧ ¬ b.admits (d + pivot) := by
  cases b with
  | unbounded => simp [upper] at hu
  | min n => simp [upper] at hu
  | max n =>
    simp only [upper, Option.some.injEq] at hu; subst hu
    refine ⟨atPivot_short n pivot d h, ?_⟩
    simp only [admits, lower, upper]; omega
  | minMax a e =>
    simp only [upper, Option.some.injEq] at hu; subst hu
    refine ⟨?_, by simp only [admits, lower, upper]; omega⟩
    simp only [atPivot, pivotAdmits, clampMax]
    split <;> constructor <;> intro h' <;> omega

/-- `min_depth 1, max_depth 2` below a prefix of three components -/
example : (pivotAdmits ((DepthBehavior.minMax 1 1).atPivot 3) 0) ∧ ¬ (DepthBehavior.minMax 1 1).admits (0 + 3) :=
  ⟨((atPivot_short_all (.minMax 1 1) 3 0 2 rfl (by decide)).1).mpr rfl,
   (atPivot_short_all (.minMax 1 1) 3 0 2 rfl (by decide)).2⟩

end Wax.DepthBehavior
