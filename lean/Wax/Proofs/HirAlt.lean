import Wax.Proofs.HirOps
/-!
`mkClass`, `H.beq` and `mkAltF` / `mkAlt` (`Hir::class`, `Hir` equality, `Hir::alternation` with
`lift_common_prefix`): the alternation smart constructor denotes the union of its branches.
-/
namespace Wax

theorem toNat_ofNat_valid (n : Nat) (h : n.isValidChar) : (Char.ofNat n).toNat = n := by
  unfold Char.ofNat
  rw [dif_pos h]
  rfl

/-! ### the semantic invariant of classes -/

/-- `impl` matches exactly the one-character strings over `key`, and `key` has two members at least -/
def SetSem (σ : Sem) (key : Ranges) (impl : Re) : Prop :=
  (∀ w, Matches σ impl w ↔ ∃ c : Char, w = [c] ∧ Ranges.Mem c.toNat key) ∧ Ranges.TwoMem key

theorem mkClass_cases (key : Ranges) (impl : Re) :
    (key = [] ∧ mkClass key impl = .fail) ∨
    (∃ a, key = [(a, a)] ∧ mkClass key impl = .lit [Char.ofNat a]) ∨
    (key ≠ [] ∧ (∀ a, key ≠ [(a, a)]) ∧ mkClass key impl = .set key impl) := by
  unfold mkClass
  match key with
  | [] => exact Or.inl ⟨rfl, rfl⟩
  | [(a, b)] =>
    by_cases hab : a = b
    · subst hab
      exact Or.inr (Or.inl ⟨a, rfl, by simp⟩)
    · refine Or.inr (Or.inr ⟨by simp, ?_, by simp [hab]⟩)
      intro c hc
      simp only [List.cons.injEq, Prod.mk.injEq, and_true] at hc
      exact hab (hc.1.trans hc.2.symm)
  | x :: y :: rest =>
    refine Or.inr (Or.inr ⟨by simp, ?_, rfl⟩)
    intro c hc
    simp at hc

theorem mkClass_sem {σ : Sem} {key : Ranges} {impl : Re}
    (hsem : ∀ w, Matches σ impl w ↔ ∃ c : Char, w = [c] ∧ Ranges.Mem c.toNat key)
    (hcanon : CanonFrom 0 key) (hvalid : ∀ a, key = [(a, a)] → a.isValidChar) :
    H.WF (SetSem σ) (mkClass key impl) ∧
      ∀ w, H.L σ (mkClass key impl) w ↔ ∃ c : Char, w = [c] ∧ Ranges.Mem c.toNat key := by
  rcases mkClass_cases key impl with ⟨hk, he⟩ | ⟨a, hk, he⟩ | ⟨h1, h2, he⟩
  · rw [he]
    refine ⟨.fail, fun w => ⟨fun h => absurd h H.L_fail, ?_⟩⟩
    rintro ⟨c, _, hc⟩
    rw [hk] at hc
    exact absurd hc Ranges.mem_nil
  · rw [he]
    refine ⟨.lit _, fun w => ?_⟩
    have hv := hvalid a hk
    rw [H.L_lit, hk]
    constructor
    · intro h
      exact ⟨Char.ofNat a, h, by rw [Ranges.mem_single, toNat_ofNat_valid a hv]; omega⟩
    · rintro ⟨c, rfl, hc⟩
      rw [Ranges.mem_single] at hc
      have : c.toNat = a := by omega
      rw [← this, Char.ofNat_toNat]
  · rw [he]
    exact ⟨.set ⟨hsem, hcanon.twoMem h1 h2⟩, fun w => by rw [H.L_set]; exact hsem w⟩

/-- the union of the languages of a list of normal forms -/
def H.Lany (σ : Sem) (l : List H) (w : Str) : Prop := ∃ x ∈ l, H.L σ x w

theorem Lany_nil {σ : Sem} {w : Str} : ¬ H.Lany σ [] w := by
  rintro ⟨x, hx, _⟩; cases hx

theorem Lany_cons {σ : Sem} {w : Str} {x : H} {xs : List H} :
    H.Lany σ (x :: xs) w ↔ H.L σ x w ∨ H.Lany σ xs w := by
  unfold H.Lany
  constructor
  · rintro ⟨y, hy, h⟩
    rcases List.mem_cons.mp hy with rfl | hy
    · exact Or.inl h
    · exact Or.inr ⟨y, hy, h⟩
  · rintro (h | ⟨y, hy, h⟩)
    · exact ⟨x, List.mem_cons_self .., h⟩
    · exact ⟨y, List.mem_cons_of_mem _ hy, h⟩

theorem H.L_alt' {σ : Sem} {l : List H} {w : Str} : H.L σ (.alt l) w ↔ H.Lany σ l w := H.L_alt

/-! ### `Hir` equality implies equal languages -/

mutual
  theorem beq_lang {σ : Sem} : ∀ (x y : H), H.beq x y = true → H.WF (SetSem σ) x → H.WF (SetSem σ) y →
      ∀ w, H.L σ x w ↔ H.L σ y w
    | .empty, y, h, _, _ => by cases y <;> simp [H.beq] at h; exact fun _ => Iff.rfl
    | .lit a, y, h, _, _ => by
      cases y <;> simp [H.beq] at h
      subst h; exact fun _ => Iff.rfl
    | .set a i, y, h, hx, hy => by
      cases y <;> simp [H.beq] at h
      subst h
      intro w
      rw [H.L_set, H.L_set, hx.of_set.1, hy.of_set.1]
    | .fail, y, h, _, _ => by cases y <;> simp [H.beq] at h; exact fun _ => Iff.rfl
    | .rep lo hi lz s, y, h, hx, hy => by
      cases y <;> simp [H.beq] at h
      obtain ⟨⟨⟨rfl, rfl⟩, rfl⟩, hs⟩ := h
      intro w
      rw [H.L_rep, H.L_rep]
      exact RepL.congr (beq_lang s _ hs hx.of_rep hy.of_rep)
    | .cap s, y, h, _, _ => by cases y <;> simp [H.beq] at h
    | .cat l, y, h, hx, hy => by
      cases y <;> simp [H.beq] at h
      intro w
      rw [H.L_cat, H.L_cat]
      exact (beqList_lang l _ h hx.of_cat hy.of_cat).1 w
    | .alt l, y, h, hx, hy => by
      cases y <;> simp [H.beq] at h
      intro w
      rw [H.L_alt', H.L_alt']
      exact (beqList_lang l _ h hx.of_alt hy.of_alt).2 w
  theorem beqList_lang {σ : Sem} : ∀ (xs ys : List H), H.beqList xs ys = true →
      (∀ x ∈ xs, H.WF (SetSem σ) x) → (∀ y ∈ ys, H.WF (SetSem σ) y) →
      (∀ w, H.Ls σ xs w ↔ H.Ls σ ys w) ∧ (∀ w, H.Lany σ xs w ↔ H.Lany σ ys w)
    | [], ys, h, _, _ => by
      cases ys <;> simp [H.beqList] at h
      exact ⟨fun _ => Iff.rfl, fun _ => Iff.rfl⟩
    | x :: xs, ys, h, hx, hy => by
      cases ys with
      | nil => simp [H.beqList] at h
      | cons y ys =>
        simp only [H.beqList, Bool.and_eq_true] at h
        have h1 := beq_lang x y h.1 (hx x (List.mem_cons_self ..)) (hy y (List.mem_cons_self ..))
        have h2 := beqList_lang xs ys h.2 (fun a ha => hx a (List.mem_cons_of_mem _ ha))
          (fun a ha => hy a (List.mem_cons_of_mem _ ha))
        constructor
        · intro w
          simp only [H.Ls_cons, h1, h2.1]
        · intro w
          simp only [Lany_cons, h1, h2.2]
end

/-! ### the pieces of `mkAltF` -/

def altFlat : H → List H
  | .alt xs => xs
  | x => [x]

def liftPrefix (fuel : Nat) (flat : List H) (p : List H) (rest : List (List H)) : H :=
  let len := rest.foldl (fun n ys => min n (commonLen p ys)) p.length
  if len == 0 then .alt flat
  else mkCat (p.take len ++ [mkAltF fuel ((p :: rest).map fun xs => mkCat (xs.drop len))])

def altLift (fuel : Nat) (flat : List H) (first : H) (others : List H) : H :=
  match fuel with
  | 0 => .alt flat
  | fuel + 1 =>
    match catElems first, allCats others with
    | some p, some rest => liftPrefix fuel flat p rest
    | _, _ => .alt flat

def altMain (fuel : Nat) (flat : List H) (first : H) (others : List H) : H :=
  let impl := Re.grp (.alt (H.toReList flat))
  match singletons flat with
  | some cs => mkClass (Ranges.canon (cs.map fun c => (c, c))) impl
  | none =>
  match classKeys flat with
  | some k => mkClass (Ranges.canon k) impl
  | none => altLift fuel flat first others

theorem mkAltF_eq (fuel : Nat) (l : List H) :
    mkAltF fuel l =
      match l.flatMap altFlat with
      | [] => .fail
      | [x] => x
      | first :: others => altMain fuel (l.flatMap altFlat) first others := by
  rw [mkAltF.eq_1]
  rfl

theorem mkAlt_eq (l : List H) :
    mkAlt l = mkAltF ((l.flatMap altFlat).foldl (fun n x => max n (branchLen x)) 0 + 1) l := rfl

theorem Lany_altFlat {σ : Sem} {w : Str} (x : H) : H.Lany σ (altFlat x) w ↔ H.L σ x w := by
  unfold H.Lany
  cases x <;> simp only [altFlat, List.mem_singleton, exists_eq_left, H.L_alt]

theorem Lany_append {σ : Sem} {w : Str} {a b : List H} :
    H.Lany σ (a ++ b) w ↔ H.Lany σ a w ∨ H.Lany σ b w := by
  unfold H.Lany
  simp only [List.mem_append, or_and_right, exists_or]

theorem Lany_flat {σ : Sem} {w : Str} : ∀ (l : List H), H.Lany σ (l.flatMap altFlat) w ↔ H.Lany σ l w
  | [] => by simp only [List.flatMap_nil]
  | x :: xs => by
    rw [List.flatMap_cons, Lany_append, Lany_altFlat, Lany_flat xs, Lany_cons]

theorem wf_altFlat {P : Ranges → Re → Prop} {x : H} (h : H.WF P x) : ∀ y ∈ altFlat x, H.WF P y := by
  cases x <;> simp only [altFlat, List.mem_singleton, forall_eq] <;> first | exact h | exact h.of_alt

theorem wf_flat {P : Ranges → Re → Prop} {l : List H} (h : ∀ x ∈ l, H.WF P x) :
    ∀ y ∈ l.flatMap altFlat, H.WF P y := by
  intro y hy
  obtain ⟨x, hx, hxy⟩ := List.mem_flatMap.mp hy
  exact wf_altFlat (h x hx) y hxy

theorem matches_impl {σ : Sem} {flat : List H} {w : Str} :
    Matches σ (Re.grp (.alt (H.toReList flat))) w ↔ H.Lany σ flat w := by
  have : H.L σ (.alt flat) w ↔ H.Lany σ flat w := H.L_alt
  simpa only [H.L, H.toRe] using this

/-! #### `singletons` -/

theorem mem_pointRanges {n : Nat} : ∀ (cs : List Nat), Ranges.Mem n (cs.map fun c => (c, c)) ↔ n ∈ cs
  | [] => by simp [Ranges.mem_nil]
  | c :: cs => by
    simp only [List.map_cons, Ranges.mem_cons, mem_pointRanges cs, List.mem_cons]
    constructor
    · rintro (h | h)
      · exact Or.inl (by omega)
      · exact Or.inr h
    · rintro (h | h)
      · exact Or.inl (by omega)
      · exact Or.inr h

theorem singletons_sem {σ : Sem} : ∀ (l : List H) (cs : List Nat), singletons l = some cs →
    (∀ w, H.Lany σ l w ↔ ∃ c : Char, w = [c] ∧ c.toNat ∈ cs) ∧ (∀ n ∈ cs, ∃ c : Char, c.toNat = n) := by
  intro l
  fun_induction singletons l with
  | case1 =>
    intro cs h
    cases h
    refine ⟨fun w => ?_, fun n hn => by cases hn⟩
    simp [H.Lany]
  | case2 c rest ih =>
    intro cs h
    cases hr : singletons rest with
    | none => rw [hr] at h; cases h
    | some cs' =>
      rw [hr] at h
      cases h
      obtain ⟨ih1, ih2⟩ := ih cs' hr
      constructor
      · intro w
        rw [Lany_cons, ih1, H.L_lit]
        constructor
        · rintro (h | ⟨d, hd, hm⟩)
          · exact ⟨c, h, List.mem_cons_self ..⟩
          · exact ⟨d, hd, List.mem_cons_of_mem _ hm⟩
        · rintro ⟨d, hd, hm⟩
          rcases List.mem_cons.mp hm with hm | hm
          · left; rw [hd, Char.toNat_inj.mp hm]
          · exact Or.inr ⟨d, hd, hm⟩
      · intro n hn
        rcases List.mem_cons.mp hn with hn | hn
        · exact ⟨c, hn.symm⟩
        · exact ih2 n hn
  | case3 l hne hne' =>
    intro cs h
    cases h

/-! #### `classKeys` -/

theorem classKeys_sem {σ : Sem} : ∀ (l : List H) (k : Ranges), classKeys l = some k →
    (∀ x ∈ l, H.WF (SetSem σ) x) →
    (∀ w, H.Lany σ l w ↔ ∃ c : Char, w = [c] ∧ Ranges.Mem c.toNat k) ∧ (k = [] ∨ Ranges.TwoMem k) := by
  intro l
  fun_induction classKeys l with
  | case1 =>
    intro k h _
    cases h
    refine ⟨fun w => ?_, Or.inl rfl⟩
    simp [H.Lany, Ranges.mem_nil]
  | case2 key impl rest ih =>
    intro k h hwf
    cases hr : classKeys rest with
    | none => rw [hr] at h; cases h
    | some k' =>
      rw [hr] at h
      cases h
      obtain ⟨ih1, _⟩ := ih k' hr (fun x hx => hwf x (List.mem_cons_of_mem _ hx))
      obtain ⟨hs1, n, m, hnm, hn, hm⟩ := (hwf _ (List.mem_cons_self ..)).of_set
      constructor
      · intro w
        rw [Lany_cons, ih1, H.L_set, hs1]
        simp only [Ranges.mem_append]
        constructor
        · rintro (⟨c, hc, hm⟩ | ⟨c, hc, hm⟩)
          · exact ⟨c, hc, Or.inl hm⟩
          · exact ⟨c, hc, Or.inr hm⟩
        · rintro ⟨c, hc, hm | hm⟩
          · exact Or.inl ⟨c, hc, hm⟩
          · exact Or.inr ⟨c, hc, hm⟩
      · exact Or.inr ⟨n, m, hnm, Ranges.mem_append.mpr (Or.inl hn), Ranges.mem_append.mpr (Or.inl hm)⟩
  | case3 rest ih =>
    intro k h hwf
    obtain ⟨ih1, ih2⟩ := ih k h (fun x hx => hwf x (List.mem_cons_of_mem _ hx))
    refine ⟨fun w => ?_, ih2⟩
    rw [Lany_cons, ih1]
    constructor
    · rintro (h | h)
      · exact absurd h H.L_fail
      · exact h
    · exact Or.inr
  | case4 l h1 h2 h3 =>
    intro k h
    cases h

/-! #### common prefixes -/

theorem catElems_some {x : H} {p : List H} (h : catElems x = some p) : x = .cat p := by
  cases x <;> simp [catElems] at h
  rw [h]

theorem allCats_some : ∀ {l : List H} {rest : List (List H)}, allCats l = some rest → l = rest.map H.cat
  | [], rest, h => by simp [allCats] at h; subst h; rfl
  | x :: xs, rest, h => by
    simp only [allCats] at h
    cases hx : catElems x with
    | none => rw [hx] at h; simp at h
    | some a =>
      cases hxs : allCats xs with
      | none => rw [hx, hxs] at h; simp at h
      | some b =>
        rw [hx, hxs] at h
        simp only [Option.some.injEq] at h
        rw [← h, catElems_some hx, allCats_some hxs]
        rfl

theorem foldl_min_le (p : List H) : ∀ (rest : List (List H)) (n : Nat),
    rest.foldl (fun n ys => min n (commonLen p ys)) n ≤ n ∧
      ∀ ys ∈ rest, rest.foldl (fun n ys => min n (commonLen p ys)) n ≤ commonLen p ys
  | [], n => ⟨Nat.le_refl _, fun _ h => by cases h⟩
  | y :: ys, n => by
    obtain ⟨h1, h2⟩ := foldl_min_le p ys (min n (commonLen p y))
    simp only [List.foldl_cons]
    refine ⟨by omega, fun z hz => ?_⟩
    rcases List.mem_cons.mp hz with rfl | hz
    · omega
    · exact h2 z hz

theorem beqList_take : ∀ (p ys : List H) (len : Nat), len ≤ commonLen p ys →
    H.beqList (p.take len) (ys.take len) = true
  | _, _, 0, _ => by simp [H.beqList]
  | [], _, n + 1, h => by simp [commonLen] at h
  | _ :: _, [], n + 1, h => by simp [commonLen] at h
  | x :: xs, y :: ys, n + 1, h => by
    simp only [commonLen] at h
    split at h
    · rename_i hb
      simp only [List.take_succ_cons, H.beqList, hb, Bool.true_and]
      exact beqList_take xs ys n (by omega)
    · omega

/-! ### `mkAltF` denotes union -/

theorem Lany_map {σ : Sem} {w : Str} {α : Type} (f : α → H) (l : List α) :
    H.Lany σ (l.map f) w ↔ ∃ a ∈ l, H.L σ (f a) w := by
  unfold H.Lany
  simp only [List.mem_map]
  constructor
  · rintro ⟨x, ⟨a, ha, rfl⟩, h⟩; exact ⟨a, ha, h⟩
  · rintro ⟨a, ha, h⟩; exact ⟨_, ⟨a, ha, rfl⟩, h⟩

theorem Ls_split {σ : Sem} {w : Str} (len : Nat) (xs : List H) :
    H.Ls σ xs w ↔ ∃ u v, w = u ++ v ∧ H.Ls σ (xs.take len) u ∧ H.Ls σ (xs.drop len) v := by
  rw [← H.Ls_append, List.take_append_drop]

theorem Ls_take_eq {σ : Sem} {p ys : List H} {len : Nat} (hlen : len ≤ commonLen p ys)
    (hp : ∀ x ∈ p, H.WF (SetSem σ) x) (hy : ∀ y ∈ ys, H.WF (SetSem σ) y) (u : Str) :
    H.Ls σ (ys.take len) u ↔ H.Ls σ (p.take len) u :=
  ((beqList_lang _ _ (beqList_take p ys len hlen) (fun x hx => hp x (List.mem_of_mem_take hx))
    (fun y hy' => hy y (List.mem_of_mem_take hy'))).1 u).symm

/-- what is to be shown of an alternation of the branches `l` -/
def AltSem (σ : Sem) (l : List H) (h : H) : Prop :=
  H.WF (SetSem σ) h ∧ ∀ w, H.L σ h w ↔ H.Lany σ l w

theorem altSem_alt {σ : Sem} {flat : List H} (hwf : ∀ x ∈ flat, H.WF (SetSem σ) x) :
    AltSem σ flat (.alt flat) :=
  ⟨.alt hwf, fun _ => H.L_alt'⟩

theorem liftPrefix_sem {σ : Sem} (fuel : Nat) (p : List H) (rest : List (List H)) (flat : List H)
    (hflat : flat = (p :: rest).map H.cat)
    (hwf : ∀ xs ∈ p :: rest, ∀ x ∈ xs, H.WF (SetSem σ) x)
    (ih : ∀ l, (∀ x ∈ l, H.WF (SetSem σ) x) → AltSem σ l (mkAltF fuel l)) :
    AltSem σ flat (liftPrefix fuel flat p rest) := by
  have hflatwf : ∀ x ∈ flat, H.WF (SetSem σ) x := by
    intro x hx
    rw [hflat] at hx
    obtain ⟨xs, hxs, rfl⟩ := List.mem_map.mp hx
    exact .cat (hwf xs hxs)
  unfold liftPrefix
  obtain ⟨_, hlen2⟩ := foldl_min_le p rest p.length
  dsimp only
  generalize List.foldl (fun n ys => min n (commonLen p ys)) p.length rest = len at hlen2 ⊢
  split
  · exact altSem_alt hflatwf
  · have hsw : ∀ s ∈ (p :: rest).map (fun xs => mkCat (xs.drop len)), H.WF (SetSem σ) s := by
      intro s hs
      obtain ⟨xs, hxs, rfl⟩ := List.mem_map.mp hs
      exact wf_mkCat (fun x hx => hwf xs hxs x (List.mem_of_mem_drop hx))
    obtain ⟨ihw, ihl⟩ := ih _ hsw
    have take_eq : ∀ xs ∈ p :: rest, ∀ u, H.Ls σ (xs.take len) u ↔ H.Ls σ (p.take len) u := by
      intro xs hxs u
      rcases List.mem_cons.mp hxs with rfl | hxs'
      · exact Iff.rfl
      · exact Ls_take_eq (hlen2 xs hxs') (hwf p (List.mem_cons_self ..)) (hwf xs hxs) u
    constructor
    · apply wf_mkCat
      intro x hx
      rcases List.mem_append.mp hx with hx | hx
      · exact hwf p (List.mem_cons_self ..) x (List.mem_of_mem_take hx)
      · rw [List.mem_singleton.mp hx]; exact ihw
    · intro w
      rw [mkCat_lang, H.Ls_append, hflat]
      simp only [H.Ls_single, ihl]
      constructor
      · rintro ⟨u, v, rfl, hu, hv⟩
        obtain ⟨xs, hxs, hs⟩ := (Lany_map _ _).mp hv
        rw [mkCat_lang] at hs
        refine (Lany_map _ _).mpr ⟨xs, hxs, ?_⟩
        rw [H.L_cat, Ls_split len xs]
        exact ⟨u, v, rfl, (take_eq xs hxs u).mpr hu, hs⟩
      · intro h
        obtain ⟨xs, hxs, hs⟩ := (Lany_map _ _).mp h
        rw [H.L_cat, Ls_split len xs] at hs
        obtain ⟨u, v, rfl, hu, hv⟩ := hs
        exact ⟨u, v, rfl, (take_eq xs hxs u).mp hu, (Lany_map _ _).mpr ⟨xs, hxs, (mkCat_lang _ _).mpr hv⟩⟩

theorem altLift_sem {σ : Sem} (fuel : Nat) (flat : List H) (first : H) (others : List H)
    (hflat : flat = first :: others) (hwf : ∀ x ∈ flat, H.WF (SetSem σ) x)
    (ih : ∀ f, fuel = f + 1 → ∀ l, (∀ x ∈ l, H.WF (SetSem σ) x) → AltSem σ l (mkAltF f l)) :
    AltSem σ flat (altLift fuel flat first others) := by
  cases fuel with
  | zero => exact altSem_alt hwf
  | succ f =>
    simp only [altLift]
    split
    · rename_i p rest hp hrest
      have hflat' : flat = (p :: rest).map H.cat := by
        rw [hflat, catElems_some hp, allCats_some hrest]; rfl
      refine liftPrefix_sem f p rest flat hflat' ?_ (ih f rfl)
      intro xs hxs
      have : H.cat xs ∈ flat := by rw [hflat']; exact List.mem_map.mpr ⟨xs, hxs, rfl⟩
      exact (hwf _ this).of_cat
    · exact altSem_alt hwf

theorem altMain_sem {σ : Sem} (fuel : Nat) (flat : List H) (first : H) (others : List H)
    (hflat : flat = first :: others) (hwf : ∀ x ∈ flat, H.WF (SetSem σ) x)
    (ih : ∀ f, fuel = f + 1 → ∀ l, (∀ x ∈ l, H.WF (SetSem σ) x) → AltSem σ l (mkAltF f l)) :
    AltSem σ flat (altMain fuel flat first others) := by
  unfold altMain
  dsimp only
  split
  · rename_i cs hcs
    obtain ⟨hs1, hs2⟩ := singletons_sem (σ := σ) flat cs hcs
    have hmem : ∀ n, Ranges.Mem n (Ranges.canon (cs.map fun c => (c, c))) ↔ n ∈ cs := by
      intro n; rw [Ranges.mem_canon, mem_pointRanges]
    obtain ⟨h1, h2⟩ := mkClass_sem (σ := σ) (key := Ranges.canon (cs.map fun c => (c, c)))
      (impl := Re.grp (.alt (H.toReList flat)))
      (fun w => by rw [matches_impl, hs1]; simp only [hmem])
      (Ranges.canon_canon _)
      (by
        intro a ha
        have : Ranges.Mem a (Ranges.canon (cs.map fun c => (c, c))) := by
          rw [ha, Ranges.mem_single]; omega
        obtain ⟨c, hc⟩ := hs2 a ((hmem a).mp this)
        rw [← hc]; exact c.valid)
    refine ⟨h1, fun w => ?_⟩
    rw [h2, hs1]; simp only [hmem]
  · split
    · rename_i k hk
      obtain ⟨hs1, hs2⟩ := classKeys_sem (σ := σ) flat k hk hwf
      obtain ⟨h1, h2⟩ := mkClass_sem (σ := σ) (key := Ranges.canon k)
        (impl := Re.grp (.alt (H.toReList flat)))
        (fun w => by rw [matches_impl, hs1]; simp only [Ranges.mem_canon])
        (Ranges.canon_canon _)
        (by
          intro a ha
          exfalso
          rcases hs2 with rfl | ⟨n, m, hnm, hn, hm⟩
          · have : Ranges.Mem a (Ranges.canon []) := by rw [ha, Ranges.mem_single]; omega
            exact Ranges.mem_nil ((Ranges.mem_canon _).mp this)
          · rw [← Ranges.mem_canon, ha, Ranges.mem_single] at hn hm
            omega)
      refine ⟨h1, fun w => ?_⟩
      rw [h2, hs1]; simp only [Ranges.mem_canon]
    · exact altLift_sem fuel flat first others hflat hwf ih

theorem mkAltF_core {σ : Sem} (fuel : Nat) (l : List H) (hwf : ∀ x ∈ l, H.WF (SetSem σ) x)
    (ih : ∀ f, fuel = f + 1 → ∀ l, (∀ x ∈ l, H.WF (SetSem σ) x) → AltSem σ l (mkAltF f l)) :
    AltSem σ l (mkAltF fuel l) := by
  rw [mkAltF_eq]
  have hfw := wf_flat hwf
  have hfl : ∀ w, H.Lany σ (l.flatMap altFlat) w ↔ H.Lany σ l w := fun w => Lany_flat l
  generalize l.flatMap altFlat = flat at hfw hfl
  match flat, hfw, hfl with
  | [], _, hfl =>
    exact ⟨.fail, fun w => ⟨fun h => absurd h H.L_fail, fun h => absurd ((hfl w).mpr h) Lany_nil⟩⟩
  | [x], hfw, hfl =>
    refine ⟨hfw x (List.mem_cons_self ..), fun w => ?_⟩
    rw [← hfl, Lany_cons]
    exact ⟨Or.inl, fun h => h.elim id (fun h => absurd h Lany_nil)⟩
  | first :: y :: others, hfw, hfl =>
    obtain ⟨h1, h2⟩ := altMain_sem fuel (first :: y :: others) first (y :: others) rfl hfw ih
    exact ⟨h1, fun w => (h2 w).trans (hfl w)⟩

theorem mkAltF_sem {σ : Sem} : ∀ (fuel : Nat) (l : List H), (∀ x ∈ l, H.WF (SetSem σ) x) →
    AltSem σ l (mkAltF fuel l) := by
  intro fuel
  induction fuel with
  | zero => intro l hwf; exact mkAltF_core 0 l hwf (fun f hf => by cases hf)
  | succ n ih => intro l hwf; exact mkAltF_core (n + 1) l hwf (fun f hf => by cases hf; exact ih)

theorem mkAlt_sem {σ : Sem} (l : List H) (hwf : ∀ x ∈ l, H.WF (SetSem σ) x) : AltSem σ l (mkAlt l) := by
  rw [mkAlt_eq]; exact mkAltF_sem _ l hwf

end Wax
