import Wax.Spec
import Wax.Proofs.Regex
/-! Language identities between the encoder's tree-wildcard forms and the documented language. -/
namespace Wax

/-- every character satisfies `.` -/
def DotOk (σ : Sem) (w : Str) : Prop := ∀ c ∈ w, (CharPred.dot).holds σ c = true

theorem dotOk_of_dotall {σ : Sem} (h : σ.dotall = true) (w : Str) : DotOk σ w := by
  intro c _; simp [CharPred.holds, h]

theorem star_dot_dotOk (σ : Sem) : ∀ {w : Str}, Matches σ (.star (.chr .dot)) w → DotOk σ w
  | _, .starNil => by intro c hc; cases hc
  | _, .starCons (.chr hp) hv => by
    intro c hc
    cases hc with
    | head => exact hp
    | tail _ hm => exact star_dot_dotOk σ hv c hm

theorem anyStar_iff (σ : Sem) (w : Str) : Matches σ anyStar w ↔ DotOk σ w := by
  constructor
  · exact star_dot_dotOk σ
  · intro h
    induction w with
    | nil => exact .starNil
    | cons c cs ih =>
      have hc : (CharPred.dot).holds σ c = true := h c (List.mem_cons_self ..)
      have : Matches σ anyStar ([c] ++ cs) :=
        .starCons (.chr hc) (ih (fun d hd => h d (List.mem_cons_of_mem _ hd)))
      simpa using this

theorem matches_G {σ : Sem} {c : Bool} {r : Re} {w : Str} : Matches σ (G c r) w ↔ Matches σ r w := by
  unfold G
  split
  · exact ⟨fun h => by cases h; assumption, .cap⟩
  · exact ⟨fun h => by cases h; assumption, .grp⟩

theorem matches_sepc {σ : Sem} {w : Str} : Matches σ (.chr .sepc) w ↔ w = ['/'] := by
  constructor
  · intro h; cases h with | chr hp => simp [CharPred.holds] at hp; simp [hp]
  · rintro rfl; exact .chr (by simp [CharPred.holds])

theorem matchesAll_nil {σ : Sem} {w : Str} : MatchesAll σ [] w ↔ w = [] :=
  ⟨fun h => by cases h; rfl, fun h => h ▸ .nil⟩

theorem matchesAll_cons {σ : Sem} {r : Re} {rs : List Re} {w : Str} :
    MatchesAll σ (r :: rs) w ↔ ∃ u v, w = u ++ v ∧ Matches σ r u ∧ MatchesAll σ rs v :=
  ⟨fun h => by cases h with | cons hu hv => exact ⟨_, _, rfl, hu, hv⟩,
   fun ⟨_, _, he, hu, hv⟩ => he ▸ .cons hu hv⟩

theorem matches_cat {σ : Sem} {l : List Re} {w : Str} : Matches σ (.cat l) w ↔ MatchesAll σ l w :=
  ⟨fun h => by cases h; assumption, .cat⟩

theorem matches_opt {σ : Sem} {r : Re} {w : Str} : Matches σ (.opt r) w ↔ w = [] ∨ Matches σ r w :=
  ⟨fun h => by cases h with | optNone => exact Or.inl rfl | optSome h => exact Or.inr h,
   fun h => by rcases h with rfl | h; exact .optNone; exact .optSome h⟩

theorem matches_alt2 {σ : Sem} {a b : Re} {w : Str} :
    Matches σ (.alt [a, b]) w ↔ Matches σ a w ∨ Matches σ b w := by
  constructor
  · intro h
    cases h with
    | alt hm hr =>
      simp at hm
      rcases hm with rfl | rfl
      · exact Or.inl hr
      · exact Or.inr hr
  · rintro (h | h)
    · exact .alt (by simp) h
    · exact .alt (by simp) h

theorem matches_grp {σ : Sem} {r : Re} {w : Str} : Matches σ (.grp r) w ↔ Matches σ r w :=
  ⟨fun h => by cases h; assumption, .grp⟩

/-- `(?:[/]|[/](.*[/]))` is exactly `"/" | "/" m "/"` -/
theorem intermediate_shape (σ : Sem) (c : Bool) (w : Str) :
    Matches σ (siteIntermediate c) w ↔ w = ['/'] ∨ ∃ m, DotOk σ m ∧ w = '/' :: (m ++ ['/']) := by
  unfold siteIntermediate
  rw [matches_grp, matches_alt2, matches_sepc, matches_cat]
  constructor
  · rintro (h | h)
    · exact Or.inl h
    · right
      obtain ⟨u, v, rfl, hu, hv⟩ := matchesAll_cons.mp h
      obtain ⟨u2, v2, rfl, hu2, hv2⟩ := matchesAll_cons.mp hv
      rw [matchesAll_nil] at hv2; subst hv2
      rw [matches_sepc] at hu; subst hu
      rw [matches_G, matches_cat] at hu2
      obtain ⟨m, s, rfl, hm, hs⟩ := matchesAll_cons.mp hu2
      obtain ⟨s1, s2, rfl, hs1, hs2⟩ := matchesAll_cons.mp hs
      rw [matchesAll_nil] at hs2; subst hs2
      rw [matches_sepc] at hs1; subst hs1
      exact ⟨m, (anyStar_iff σ m).mp hm, by simp⟩
  · rintro (h | ⟨m, hm, rfl⟩)
    · exact Or.inl h
    · right
      refine matchesAll_cons.mpr ⟨['/'], m ++ ['/'], by simp, matches_sepc.mpr rfl, ?_⟩
      refine matchesAll_cons.mpr ⟨m ++ ['/'], [], by simp, ?_, .nil⟩
      rw [matches_G, matches_cat]
      refine matchesAll_cons.mpr ⟨m, ['/'], rfl, (anyStar_iff σ m).mpr hm, ?_⟩
      exact matchesAll_cons.mpr ⟨['/'], [], by simp, matches_sepc.mpr rfl, .nil⟩

/-- the intermediate form is the documented language of a tree wildcard that has something on both
    sides — on every string when `.` matches new lines, and on new-line-free strings otherwise -/
theorem intermediate_eq_spec (σ : Sem) (c : Bool) (hasRoot : Bool) (w : Str) (hd : DotOk σ w) :
    Matches σ (siteIntermediate c) w ↔ TreeLang ⟨false, false⟩ hasRoot w := by
  rw [intermediate_shape]
  simp only [TreeLang, Bool.false_eq_true, ↓reduceIte, Bool.not_false, Bool.or_true]
  constructor
  · rintro (rfl | ⟨m, _, rfl⟩)
    · exact ⟨[], Star.nil, rfl⟩
    · exact ⟨m ++ ['/'], star_compSep_of_endsSep m, rfl⟩
  · rintro ⟨r, hr, rfl⟩
    rcases star_compSep_endsSep hr with rfl | ⟨m, rfl⟩
    · exact Or.inl rfl
    · right
      refine ⟨m, ?_, rfl⟩
      intro x hx
      exact hd x (by simp [hx])

end Wax

namespace Wax

theorem dotOk_append {σ : Sem} {u v : Str} : DotOk σ (u ++ v) ↔ DotOk σ u ∧ DotOk σ v := by
  constructor
  · intro h
    exact ⟨fun c hc => h c (List.mem_append.mpr (Or.inl hc)), fun c hc => h c (List.mem_append.mpr (Or.inr hc))⟩
  · rintro ⟨hu, hv⟩ c hc
    rcases List.mem_append.mp hc with h | h
    · exact hu c h
    · exact hv c h

theorem dotOk_cons {σ : Sem} {c : Char} {w : Str} : DotOk σ (c :: w) → DotOk σ w :=
  fun h d hd => h d (List.mem_cons_of_mem _ hd)

/-- `(?:[/]?|(.*[/]))` is `"" | "/" | m "/"` -/
theorem firstUnrooted_shape (σ : Sem) (c : Bool) (w : Str) :
    Matches σ (siteFirstUnrooted c) w ↔ w = [] ∨ w = ['/'] ∨ ∃ m, DotOk σ m ∧ w = m ++ ['/'] := by
  unfold siteFirstUnrooted
  rw [matches_grp, matches_alt2, matches_opt, matches_sepc, matches_G, matches_cat]
  constructor
  · rintro ((h | h) | h)
    · exact Or.inl h
    · exact Or.inr (Or.inl h)
    · obtain ⟨m, s, rfl, hm, hs⟩ := matchesAll_cons.mp h
      obtain ⟨s1, s2, rfl, hs1, hs2⟩ := matchesAll_cons.mp hs
      rw [matchesAll_nil] at hs2; subst hs2
      rw [matches_sepc] at hs1; subst hs1
      exact Or.inr (Or.inr ⟨m, (anyStar_iff σ m).mp hm, by simp⟩)
  · rintro (h | h | ⟨m, hm, rfl⟩)
    · exact Or.inl (Or.inl h)
    · exact Or.inl (Or.inr h)
    · right
      refine matchesAll_cons.mpr ⟨m, ['/'], rfl, (anyStar_iff σ m).mpr hm, ?_⟩
      exact matchesAll_cons.mpr ⟨['/'], [], by simp, matches_sepc.mpr rfl, .nil⟩

/-- an unrooted tree wildcard at the very start: `C*` -/
theorem firstUnrooted_eq_spec (σ : Sem) (c : Bool) (w : Str) (hd : DotOk σ w) :
    Matches σ (siteFirstUnrooted c) w ↔ TreeLang ⟨true, false⟩ false w := by
  rw [firstUnrooted_shape]
  simp only [TreeLang, Bool.false_eq_true, ↓reduceIte, Bool.not_true, Bool.or_self]
  rw [star_compSep_iff]
  constructor
  · rintro (h | h | ⟨m, _, h⟩)
    · exact Or.inl h
    · exact Or.inr ⟨[], by simp [h]⟩
    · exact Or.inr ⟨m, h⟩
  · rintro (h | ⟨m, rfl⟩)
    · exact Or.inl h
    · exact Or.inr (Or.inr ⟨m, (dotOk_append.mp hd).1, rfl⟩)

/-- `(?:[/]?|[/](.*))` is `"" | "/" | "/" m` -/
theorem last_shape (σ : Sem) (c : Bool) (w : Str) :
    Matches σ (siteLast c) w ↔ w = [] ∨ w = ['/'] ∨ ∃ m, DotOk σ m ∧ w = '/' :: m := by
  unfold siteLast
  rw [matches_grp, matches_alt2, matches_opt, matches_sepc, matches_cat]
  constructor
  · rintro ((h | h) | h)
    · exact Or.inl h
    · exact Or.inr (Or.inl h)
    · obtain ⟨u, v, rfl, hu, hv⟩ := matchesAll_cons.mp h
      obtain ⟨m, e, rfl, hm, he⟩ := matchesAll_cons.mp hv
      rw [matchesAll_nil] at he; subst he
      rw [matches_sepc] at hu; subst hu
      rw [matches_G] at hm
      exact Or.inr (Or.inr ⟨m, (anyStar_iff σ m).mp hm, by simp⟩)
  · rintro (h | h | ⟨m, hm, rfl⟩)
    · exact Or.inl (Or.inl h)
    · exact Or.inl (Or.inr h)
    · right
      refine matchesAll_cons.mpr ⟨['/'], m, by simp, matches_sepc.mpr rfl, ?_⟩
      exact matchesAll_cons.mpr ⟨m, [], by simp, matches_G.mpr ((anyStar_iff σ m).mpr hm), .nil⟩

/-- a tree wildcard that ends the path and has something before it: nothing, or `/` and anything -/
theorem last_eq_spec (σ : Sem) (c : Bool) (hasRoot : Bool) (w : Str) (hd : DotOk σ w) :
    Matches σ (siteLast c) w ↔ TreeLang ⟨false, true⟩ hasRoot w := by
  rw [last_shape]
  simp only [TreeLang, ↓reduceIte, Bool.false_eq_true]
  constructor
  · rintro (h | h | ⟨m, _, h⟩)
    · exact Or.inl h
    · exact Or.inr ⟨[], h⟩
    · exact Or.inr ⟨m, h⟩
  · rintro (h | ⟨m, rfl⟩)
    · exact Or.inl h
    · exact Or.inr (Or.inr ⟨m, dotOk_cons hd, rfl⟩)

/-- `(.*)` is everything: the pattern `**` -/
theorem only_eq_spec (σ : Sem) (c : Bool) (w : Str) (hd : DotOk σ w) :
    Matches σ (siteOnly c) w ↔ TreeLang ⟨true, true⟩ false w := by
  unfold siteOnly
  rw [matches_G, anyStar_iff]
  simp [TreeLang, hd]

/-- `([/].*)` is `/` and anything: the pattern `/**` -/
theorem onlyRooted_eq_spec (σ : Sem) (c : Bool) (w : Str) (hd : DotOk σ w) :
    Matches σ (siteOnlyRooted c) w ↔ TreeLang ⟨true, true⟩ true w := by
  unfold siteOnlyRooted
  rw [matches_G, matches_cat]
  simp only [TreeLang, ↓reduceIte]
  constructor
  · intro h
    obtain ⟨u, v, rfl, hu, hv⟩ := matchesAll_cons.mp h
    obtain ⟨m, e, rfl, _, he⟩ := matchesAll_cons.mp hv
    rw [matchesAll_nil] at he; subst he
    rw [matches_sepc] at hu; subst hu
    exact ⟨m, by simp⟩
  · rintro ⟨m, rfl⟩
    refine matchesAll_cons.mpr ⟨['/'], m, by simp, matches_sepc.mpr rfl, ?_⟩
    exact matchesAll_cons.mpr ⟨m, [], by simp, (anyStar_iff σ m).mpr (dotOk_cons hd), .nil⟩

/-! negative results: the forms that are *not* the documented language -/

def σcs : Sem := { ceq := fun a b => a == b, dotall := true }

/-- K-ENC-ROOTED-FIRST: `/**/` at the start accepts half a component (`/x` before `a` in `/xa`) -/
theorem firstRooted_not_spec :
    Matches σcs (siteFirstRooted true) "/x".toList ∧ ¬ TreeLang ⟨true, false⟩ true "/x".toList := by
  refine ⟨by decide, ?_⟩
  simp only [TreeLang, Bool.false_eq_true, ↓reduceIte, Bool.not_true, Bool.or_false]
  rintro ⟨r, hr, he⟩
  have : r = ['x'] := by simpa using he.symm
  subst this
  rcases star_compSep_endsSep hr with h | ⟨m, h⟩
  · cases h
  · have := congrArg List.getLast? h
    simp at this

/-- the code before repair 4 used `(.*)` for `/**` too, which accepts the relative path `a` -/
theorem onlyRooted_not_spec :
    Matches σcs (siteOnly true) "a".toList ∧ ¬ TreeLang ⟨true, true⟩ true "a".toList := by
  refine ⟨by decide, ?_⟩
  simp [TreeLang]

end Wax
