import Wax.Walk
/-!
The walk machine of `Wax/Walk.lean` against the abstract machine of `Wax/WalkTree.lean`.

* `run_fuel`: the fuel `stackSize s` is enough, whatever the depth bounds and the verdicts — the
  machine is total and more fuel changes nothing.
* `run_refinesB` / `walk_refinesB`: with any depth bounds the machine yields the structural traversal
  `visitListB` (entries below `min_depth` unreported, nothing read beyond `max_depth`, cancelled
  directories skipped, error items in place).
* `run_toWT`: with `min = 0` and `max = none` the machine is `WalkTree.run` on the corresponding
  `WalkTree.Node` tree (leaves forget whether they are links, error children forget whether walkdir
  attaches their path), item by item.
* `walk_machine_refines`: hence it yields the structural traversal `WalkTree.visitList` (C13/C20),
  and `items_refine`: so does a whole walk with its stack of combinators below the root entry.
* `decide_cancels_le_one`: the combinators cancel the walk at most once per entry, so that
  treating "cancelled" as a Boolean in `run` loses nothing.
-/
set_option linter.unusedSimpArgs false

namespace Wax.Walk
open Wax

/-! ### fuel -/

theorem stackSize_cancel (d : Bool) (s : List Frame) : stackSize (cancel d s) ≤ stackSize s := by
  cases d with
  | false => simp [cancel]
  | true =>
    cases s with
    | nil => simp [cancel]
    | cons f fs => simp [cancel, stackSize]

theorem run_nil (mn : Nat) (mx : Option Nat) (v : Entry → Bool) (k : Nat) : run mn mx v k [] = [] := by
  cases k <;> simp [run, step]

/-- every outcome of a step leaves a strictly smaller stack -/
theorem step_size (mn : Nat) (mx : Option Nat) (s : List Frame) :
    match step mn mx s with
    | .done => True
    | .pop s' => stackSize s' < stackSize s
    | .skip s' => stackSize s' < stackSize s
    | .yield _ _ s' => stackSize s' < stackSize s := by
  cases s with
  | nil => simp [step]
  | cons f fs =>
    by_cases ho : over (f.path.length + 1) mx = true
    · simp [step, ho, stackSize, Frame.size] <;> omega
    · cases hr : f.rest with
      | nil => simp [step, ho, hr, stackSize, Frame.size, sizeList] <;> omega
      | cons n ns =>
        cases n with
        | leaf nm k =>
          by_cases hm : f.path.length + 1 < mn <;>
            simp [step, ho, hr, hm, stackSize, Frame.size, sizeList, WNode.size]
        | dir nm cs =>
          by_cases hm : f.path.length + 1 < mn <;>
            simp [step, ho, hr, hm, stackSize, Frame.size, sizeList, WNode.size] <;> omega
        | errChild nm a => simp [step, ho, hr, stackSize, Frame.size, sizeList, WNode.size]
        | errHere => simp [step, ho, hr, stackSize, Frame.size, sizeList, WNode.size]

theorem run_fuel_aux (mn : Nat) (mx : Option Nat) (v : Entry → Bool) :
    ∀ (n : Nat) (s : List Frame) (k₁ k₂ : Nat), stackSize s ≤ n → n ≤ k₁ → n ≤ k₂ →
      run mn mx v k₁ s = run mn mx v k₂ s := by
  intro n
  induction n with
  | zero =>
    intro s k₁ k₂ hs _ _
    cases s with
    | nil => simp [run_nil]
    | cons f fs => simp [stackSize, Frame.size] at hs <;> omega
  | succ n ih =>
    intro s k₁ k₂ hs h₁ h₂
    obtain ⟨k₁, rfl⟩ : ∃ j, k₁ = j + 1 := ⟨k₁ - 1, by omega⟩
    obtain ⟨k₂, rfl⟩ : ∃ j, k₂ = j + 1 := ⟨k₂ - 1, by omega⟩
    have hstep := step_size mn mx s
    simp only [run]
    cases hst : step mn mx s with
    | done => rfl
    | pop s' =>
      rw [hst] at hstep
      exact ih s' k₁ k₂ (by omega) (by omega) (by omega)
    | skip s' =>
      rw [hst] at hstep
      exact ih s' k₁ k₂ (by omega) (by omega) (by omega)
    | yield it d s' =>
      rw [hst] at hstep
      cases it with
      | ok e =>
        simp only []
        congr 1
        split
        · have := stackSize_cancel d s'
          exact ih _ k₁ k₂ (by omega) (by omega) (by omega)
        · exact ih s' k₁ k₂ (by omega) (by omega) (by omega)
      | err p a =>
        simp only []
        congr 1
        exact ih s' k₁ k₂ (by omega) (by omega) (by omega)

/-- **totality**: `stackSize s` iterations are enough; more fuel yields the same items -/
theorem run_fuel (mn : Nat) (mx : Option Nat) (v : Entry → Bool) (s : List Frame) (k : Nat)
    (h : stackSize s ≤ k) : run mn mx v k s = run mn mx v (stackSize s) s :=
  run_fuel_aux mn mx v (stackSize s) s k (stackSize s) (Nat.le_refl _) h (Nat.le_refl _)

/-! ### the machine with depth bounds yields the structural traversal -/

theorem run_refinesB (mn : Nat) (mx : Option Nat) (v : Entry → Bool) :
    ∀ (k : Nat) (s : List Frame), stackSize s ≤ k → run mn mx v k s = specStack mn mx v s := by
  intro k
  induction k with
  | zero =>
    intro s hk
    cases s with
    | nil => rfl
    | cons f fs => simp [stackSize, Frame.size] at hk <;> omega
  | succ k ih =>
    intro s hk
    cases s with
    | nil => simp [run, step, specStack]
    | cons f fs =>
      by_cases ho : over (f.path.length + 1) mx = true
      · have hsz : stackSize fs ≤ k := by simp [stackSize, Frame.size] at hk; omega
        simp [run, step, ho, specStack, frameSpec, ih fs hsz]
      · cases hr : f.rest with
        | nil =>
          have hsz : stackSize fs ≤ k := by simp [stackSize, Frame.size] at hk; omega
          simp [run, step, ho, hr, specStack, frameSpec, visitListB, ih fs hsz]
        | cons n ns =>
          cases n with
          | leaf nm kd =>
            have hsz : stackSize ({ f with rest := ns } :: fs) ≤ k := by
              simp [stackSize, Frame.size, hr, sizeList, WNode.size] at hk ⊢; omega
            by_cases hm : f.path.length + 1 < mn
            · simp [run, step, ho, hr, hm, specStack, frameSpec, visitListB, visitB, ih _ hsz]
            · by_cases hv : v ⟨f.path ++ [nm], kd.kind⟩ = true <;>
                simp [run, step, ho, hr, hm, specStack, frameSpec, visitListB, visitB, cancel, hv, ih _ hsz]
          | errChild nm a =>
            have hsz : stackSize ({ f with rest := ns } :: fs) ≤ k := by
              simp [stackSize, Frame.size, hr, sizeList, WNode.size] at hk ⊢; omega
            simp [run, step, ho, hr, specStack, frameSpec, visitListB, visitB, ih _ hsz]
          | errHere =>
            have hsz : stackSize ({ f with rest := ns } :: fs) ≤ k := by
              simp [stackSize, Frame.size, hr, sizeList, WNode.size] at hk ⊢; omega
            simp [run, step, ho, hr, specStack, frameSpec, visitListB, visitB, ih _ hsz]
          | dir nm cs =>
            have hsz1 : stackSize ({ f with rest := ns } :: fs) ≤ k := by
              simp [stackSize, Frame.size, hr, sizeList, WNode.size] at hk ⊢; omega
            have hsz2 : stackSize (⟨f.path ++ [nm], cs⟩ :: { f with rest := ns } :: fs) ≤ k := by
              simp [stackSize, Frame.size, hr, sizeList, WNode.size] at hk ⊢; omega
            by_cases hm : f.path.length + 1 < mn
            · by_cases ho2 : over ((f.path ++ [nm]).length + 1) mx = true <;>
                simp [run, step, ho, hr, hm, specStack, frameSpec, visitListB, visitB, ho2, ih _ hsz2]
            · by_cases hv : v ⟨f.path ++ [nm], .d⟩ = true
              · simp [run, step, ho, hr, hm, specStack, frameSpec, visitListB, visitB, cancel, hv, ih _ hsz1]
              · by_cases ho2 : over ((f.path ++ [nm]).length + 1) mx = true <;>
                  simp [run, step, ho, hr, hm, specStack, frameSpec, visitListB, visitB, cancel, hv, ho2,
                    ih _ hsz2]

/-- **C13 / C20 with depth bounds**: the items below the root of a walk are the structural
    traversal `visitListB` — entries below `min_depth` unreported and unable to cancel, nothing read
    beyond `max_depth`, every directory the combinators discard as a tree skipped, error items in
    place whatever the bounds -/
theorem walk_refinesB (mn : Nat) (mx : Option Nat) (v : Entry → Bool) (cs : List WNode) :
    run mn mx v (stackSize [⟨[], cs⟩]) [⟨[], cs⟩]
      = (if over 1 mx then [] else visitListB mn mx v [] cs) := by
  rw [run_refinesB mn mx v _ _ (Nat.le_refl _)]
  simp [specStack, frameSpec]

/-! ### the machine without depth bounds is `WalkTree.run` -/

mutual
  def WNode.toWT : WNode → WalkTree.Node
    | .leaf n _ => .file n
    | .dir n cs => .dir n (toWTList cs)
    | .errChild n _ => .errChild n
    | .errHere => .errHere
  def toWTList : List WNode → List WalkTree.Node
    | [] => []
    | n :: ns => n.toWT :: toWTList ns
end

def Entry.toWT (e : Entry) : WalkTree.Entry := ⟨e.names, e.isDir⟩

def Item.toWT : Item → WalkTree.Item
  | .ok e => .ok e.toWT
  | .err p _ => .err p

def Frame.toWT (f : Frame) : WalkTree.Frame := ⟨f.path, toWTList f.rest⟩

def stackToWT : List Frame → List WalkTree.Frame
  | [] => []
  | f :: fs => f.toWT :: stackToWT fs

mutual
  theorem size_toWT : ∀ n : WNode, n.toWT.size = n.size
    | .leaf .. => rfl
    | .dir _ cs => by simp [WNode.toWT, WalkTree.Node.size, WNode.size, sizeList_toWT cs]
    | .errChild .. => rfl
    | .errHere => rfl
  theorem sizeList_toWT : ∀ ns : List WNode, WalkTree.sizeList (toWTList ns) = sizeList ns
    | [] => rfl
    | n :: ns => by simp [toWTList, WalkTree.sizeList, sizeList, size_toWT n, sizeList_toWT ns]
end

theorem stackSize_toWT : ∀ s : List Frame, WalkTree.stackSize (stackToWT s) = stackSize s
  | [] => rfl
  | f :: fs => by
    simp [stackToWT, WalkTree.stackSize, stackSize, Frame.toWT, WalkTree.Frame.size, Frame.size,
      sizeList_toWT, stackSize_toWT fs]

theorem cancel_toWT (d : Bool) (s : List Frame) :
    stackToWT (cancel d s) = WalkTree.cancel d (stackToWT s) := by
  cases d with
  | false => simp [cancel, WalkTree.cancel]
  | true => cases s <;> simp [cancel, WalkTree.cancel, stackToWT]

theorem leaf_not_dir (p : List Str) (k : LeafKind) : (Entry.mk p k.kind).isDir = false := by
  cases k <;> rfl

def Step.toWT : Step → WalkTree.Step
  | .done => .done
  | .pop s => .pop (stackToWT s)
  | .skip s => .pop (stackToWT s)
  | .yield it d s => .yield it.toWT d (stackToWT s)

def Step.isSkip : Step → Bool
  | .skip _ => true
  | _ => false

/-- one iteration, without depth bounds, is one iteration of the abstract machine -/
theorem step_toWT (s : List Frame) :
    (step 0 none s).toWT = WalkTree.step (stackToWT s) ∧ (step 0 none s).isSkip = false := by
  cases s with
  | nil => exact ⟨rfl, rfl⟩
  | cons f fs =>
    cases hr : f.rest with
    | nil => simp [step, over, hr, Step.toWT, Step.isSkip, WalkTree.step, stackToWT, Frame.toWT, toWTList]
    | cons n ns =>
      cases n with
      | leaf nm kd =>
        simp [step, over, hr, Step.toWT, Step.isSkip, WalkTree.step, stackToWT, Frame.toWT, toWTList,
          WNode.toWT, Item.toWT, Entry.toWT, leaf_not_dir]
      | dir nm cs =>
        have hd : (Entry.mk (f.path ++ [nm]) Kind.d).isDir = true := rfl
        simp [step, over, hr, Step.toWT, Step.isSkip, WalkTree.step, stackToWT, Frame.toWT, toWTList,
          WNode.toWT, Item.toWT, Entry.toWT, hd]
      | errChild nm a =>
        simp [step, over, hr, Step.toWT, Step.isSkip, WalkTree.step, stackToWT, Frame.toWT, toWTList,
          WNode.toWT, Item.toWT]
      | errHere =>
        simp [step, over, hr, Step.toWT, Step.isSkip, WalkTree.step, stackToWT, Frame.toWT, toWTList,
          WNode.toWT, Item.toWT]

/-- with `min_depth = 0` and no `max_depth`, the machine yields, item for item, what the abstract
    machine of `WalkTree.lean` yields on the corresponding tree, for any verdict that looks at an
    entry through its names and whether it is a directory -/
theorem run_toWT (w : WalkTree.Entry → Bool) :
    ∀ (k : Nat) (s : List Frame),
      (run 0 none (fun e => w e.toWT) k s).map Item.toWT = WalkTree.run w k (stackToWT s) := by
  intro k
  induction k with
  | zero => intro s; simp [run, WalkTree.run]
  | succ k ih =>
    intro s
    have hs := step_toWT s
    simp only [run, WalkTree.run, ← hs.1]
    cases hst : step 0 none s with
    | done => simp [Step.toWT]
    | pop s' => simp [Step.toWT, ih]
    | skip s' => simp [hst, Step.isSkip] at hs
    | yield it d s' =>
      cases it with
      | ok e =>
        by_cases hv : w e.toWT = true
        · simp [Step.toWT, Item.toWT, hv, ← cancel_toWT, ih]
        · simp [Step.toWT, Item.toWT, hv, ih]
      | err p a => simp [Step.toWT, Item.toWT, ih]

/-- **C13 / C20 for the concrete machine**: below the root, without depth bounds, the walk yields
    the structural traversal of the corresponding `WalkTree.Node` tree — every entry not beneath a
    cancelled directory once, in order, and every error item in place -/
theorem walk_machine_refines (w : WalkTree.Entry → Bool) (root : List Str) (cs : List WNode) :
    (run 0 none (fun e => w e.toWT) (stackSize [⟨root, cs⟩]) [⟨root, cs⟩]).map Item.toWT
      = WalkTree.visitList w root (toWTList cs) := by
  rw [run_toWT]
  have h := WalkTree.walk_refines w root (toWTList cs)
  have hs : stackSize [⟨root, cs⟩] = WalkTree.stackSize [⟨root, toWTList cs⟩] := by
    simp [stackSize, WalkTree.stackSize, Frame.size, WalkTree.Frame.size, sizeList_toWT]
  rw [hs]
  simpa [stackToWT, Frame.toWT] using h

/-! ### the combinators cancel at most once per entry -/

/-- the verdicts a dependent stack actually produces -/
def verdictsOf : List (Sepn → Verdict) → Sepn → List Verdict
  | [], _ => []
  | f :: fs, s => f s :: verdictsOf fs (applyVerdict s (f s)).1

theorem feedDep_eq_feed : ∀ (fs : List (Sepn → Verdict)) (s : Sepn),
    feedDep fs s = feed applyVerdict s (verdictsOf fs s)
  | [], s => rfl
  | f :: fs, s => by
    simp only [feedDep, verdictsOf, feed, feedDep_eq_feed fs]

/-- C13 for a walk: whatever the glob and the stack of `not` / `filter_entry` combinators, an
    entry cancels the walk at most once (the repaired `filter_tree_by_substituent`) -/
theorem decide_cancels_le_one (π : Pipeline) (e : Entry) : (π.decide e).2 ≤ 1 := by
  unfold Pipeline.decide
  rw [feedDep_eq_feed]
  exact (cancel_at_most_once _ _).1

/-- an entry cancels the walk exactly when the combinators turn it into tree residue -/
theorem decide_cancels_iff_tree (π : Pipeline) (e : Entry) :
    π.cancels e = true ↔ (π.decide e).1 = .tree := by
  have h1 := decide_cancels_le_one π e
  have h2 : (π.decide e).2 = 1 ↔ (π.decide e).1 = .tree := by
    unfold Pipeline.decide
    rw [feedDep_eq_feed]
    exact cancel_iff_becomes_tree _ _ (by decide)
  unfold Pipeline.cancels
  constructor
  · intro h
    apply h2.mp
    have : (π.decide e).2 ≠ 0 := by simpa using h
    omega
  · intro h
    have := h2.mpr h
    simp [this]

/-! ### a whole walk -/

/-- the cancellation verdict of a walk looks at the names of an entry only -/
theorem cancels_names (π : Pipeline) (e : Entry) (k : Kind) : π.cancels e = π.cancels ⟨e.names, k⟩ := rfl

/-- the verdict of a walk as a verdict on `WalkTree` entries -/
def Pipeline.verdictWT (π : Pipeline) : WalkTree.Entry → Bool := fun x => π.cancels ⟨x.path, .d⟩

/-- without depth bounds, the items of a walk below its root entry are the structural traversal
    of the recorded tree as walkdir sees it, pruned where the combinators say "tree" -/
theorem items_refine (π : Pipeline) (cs : List WNode) :
    (run 0 none π.cancels (stackSize [⟨[], cs⟩]) [⟨[], cs⟩]).map Item.toWT
      = WalkTree.visitList π.verdictWT [] (toWTList cs) := by
  have h := walk_machine_refines π.verdictWT [] cs
  have hv : (fun e : Entry => π.verdictWT e.toWT) = π.cancels := by
    funext e
    exact (cancels_names π e .d).symm
  rw [hv] at h
  exact h

end Wax.Walk
