import Wax.Partition
import Wax.Proofs.PartitionSpec
/-!
C08 on the fragment "literal / separator prefix, then a separator, then something variant that is
not a boundary": the model's `partition` returns the prefix text `P ++ "/"` and the remaining
tokens, and the glob matches `w` iff `w = P ++ "/" ++ r` with `r` matched by the postfix on its own.
-/
set_option linter.unusedSimpArgs false
namespace Wax

def headText (h : Option (Nat × Str)) : Str := match h with | some (_, s) => s | none => []

/-- scanning a literal / separator prefix followed by a separator -/
theorem prefixGo_spells (κ : Casing) {loc : Nat} {pre : List Tok} {P : Str} (hs : Spells loc pre P)
    (s : Span) (rest : List Tok) :
    ∀ (n : Nat) (head check : Option (Nat × Str)),
      prefixGo κ n (pre ++ .sep s :: rest) head check =
        prefixGo κ (n + pre.length + 1) rest (some (n + pre.length, headText head ++ P ++ ['/']))
          (some (n + pre.length, headText head ++ P ++ ['/'])) := by
  induction hs with
  | nil loc =>
    intro n head check
    simp only [List.nil_append, prefixGo, textTok, isBoundaryTok, ↓reduceIte, fragsToStr, Frag.text,
      List.append_nil, List.length_nil, Nat.add_zero]
    cases head <;> rfl
  | lit loc w ts s' hw _ _ _ ih =>
    intro n head check
    simp only [List.cons_append, prefixGo, textTok, Bool.false_and, Bool.false_eq_true, ↓reduceIte,
      isBoundaryTok, fragsToStr, Frag.text, List.append_nil]
    rw [ih (n + 1)]
    have e1 : n + 1 + ts.length + 1 = n + (ts.length + 1) + 1 := by omega
    have e2 : n + 1 + ts.length = n + (ts.length + 1) := by omega
    simp only [List.length_cons, e1, e2, headText, List.append_assoc]
    cases head <;> rfl
  | sep loc ts s' _ ih =>
    intro n head check
    simp only [List.cons_append, prefixGo, textTok, isBoundaryTok, ↓reduceIte, fragsToStr, Frag.text,
      List.append_nil]
    rw [ih (n + 1)]
    have e1 : n + 1 + ts.length + 1 = n + (ts.length + 1) + 1 := by omega
    have e2 : n + 1 + ts.length = n + (ts.length + 1) := by omega
    simp only [List.length_cons, e1, e2, headText, List.append_assoc]
    cases head <;> simp

/-! ### spans do not matter to the language -/

theorem srep_mono {σ : Sem} {A B : List Tok} (h : ∀ c u, SMs σ c A u → SMs σ c B u) :
    ∀ {c : Ctx} {n : Nat} {w : Str}, SRep σ c A n w → SRep σ c B n w
  | _, _, _, .zero => .zero
  | _, _, _, .one hm => .one (h _ _ hm)
  | _, _, _, .more hu hv => .more (h _ _ hu) (srep_mono h hv)

theorem mapSpansL_isEmpty (f : Span → Span) (ts : List Tok) : (mapSpansL f ts).isEmpty = ts.isEmpty := by
  cases ts <;> rfl

theorem mapSpans_concatenation (f : Span → Span) (b : Tok) :
    (b.mapSpans f).concatenation = mapSpansL f b.concatenation := by
  cases b <;> simp [Tok.mapSpans, Tok.concatenation, mapSpansL]

mutual
  theorem sm_mapSpans (σ : Sem) (f : Span → Span) : ∀ (t : Tok) (c : Ctx) (w : Str),
      SM σ c (t.mapSpans f) w ↔ SM σ c t w
    | .lit .., c, w => by simp only [Tok.mapSpans]; rw [sm_lit, sm_lit]
    | .sep _, c, w => by simp only [Tok.mapSpans]; rw [sm_sep, sm_sep]
    | .cls .., c, w => by simp only [Tok.mapSpans]; rw [sm_cls, sm_cls]
    | .one _, c, w => by simp only [Tok.mapSpans]; rw [sm_one, sm_one]
    | .zom .., c, w => by simp only [Tok.mapSpans]; rw [sm_zom, sm_zom]
    | .tree .., c, w => by simp only [Tok.mapSpans]; rw [sm_tree, sm_tree]
    | .alt _ bs, c, w => by
      simp only [Tok.mapSpans]
      rw [sm_alt, sm_alt]
      have := smB_mapSpans σ f bs c w
      constructor
      · rintro ⟨b, hb, hm⟩
        obtain ⟨b0, hb0, hm0⟩ := this.mp ⟨b, hb, (sms_conc_iff b).mp hm⟩
        exact ⟨b0, hb0, (sms_conc_iff b0).mpr hm0⟩
      · rintro ⟨b, hb, hm⟩
        obtain ⟨b0, hb0, hm0⟩ := this.mpr ⟨b, hb, (sms_conc_iff b).mp hm⟩
        exact ⟨b0, hb0, (sms_conc_iff b0).mpr hm0⟩
    | .cat _ ts, c, w => by
      simp only [Tok.mapSpans]
      rw [sm_cat, sm_cat]
      exact sms_mapSpans σ f ts c w
    | .rep _ body lo hi, c, w => by
      simp only [Tok.mapSpans]
      rw [sm_rep, sm_rep]
      have h1 : ∀ c u, SMs σ c (body.mapSpans f).concatenation u → SMs σ c body.concatenation u :=
        fun c u h => (sms_conc_iff body).mpr ((sm_mapSpans σ f body c u).mp ((sms_conc_iff _).mp h))
      have h2 : ∀ c u, SMs σ c body.concatenation u → SMs σ c (body.mapSpans f).concatenation u :=
        fun c u h => (sms_conc_iff _).mpr ((sm_mapSpans σ f body c u).mpr ((sms_conc_iff body).mp h))
      exact ⟨fun ⟨n, a, b, hr⟩ => ⟨n, a, b, srep_mono h1 hr⟩, fun ⟨n, a, b, hr⟩ => ⟨n, a, b, srep_mono h2 hr⟩⟩
  theorem sms_mapSpans (σ : Sem) (f : Span → Span) : ∀ (ts : List Tok) (c : Ctx) (w : Str),
      SMs σ c (mapSpansL f ts) w ↔ SMs σ c ts w
    | [], c, w => by simp only [mapSpansL]
    | t :: ts, c, w => by
      simp only [mapSpansL]
      rw [sms_cons, sms_cons, mapSpansL_isEmpty]
      constructor
      · rintro ⟨u, v, rfl, hu, hv⟩
        exact ⟨u, v, rfl, (sm_mapSpans σ f t _ u).mp hu, (sms_mapSpans σ f ts _ v).mp hv⟩
      · rintro ⟨u, v, rfl, hu, hv⟩
        exact ⟨u, v, rfl, (sm_mapSpans σ f t _ u).mpr hu, (sms_mapSpans σ f ts _ v).mpr hv⟩
  theorem smB_mapSpans (σ : Sem) (f : Span → Span) : ∀ (bs : List Tok) (c : Ctx) (w : Str),
      (∃ b ∈ mapSpansL f bs, SM σ c b w) ↔ ∃ b ∈ bs, SM σ c b w
    | [], c, w => by simp [mapSpansL]
    | b :: bs, c, w => by
      simp only [mapSpansL, List.mem_cons]
      constructor
      · rintro ⟨x, rfl | hx, hm⟩
        · exact ⟨b, Or.inl rfl, (sm_mapSpans σ f b c w).mp hm⟩
        · obtain ⟨y, hy, hm'⟩ := (smB_mapSpans σ f bs c w).mp ⟨x, hx, hm⟩
          exact ⟨y, Or.inr hy, hm'⟩
      · rintro ⟨x, rfl | hx, hm⟩
        · exact ⟨_, Or.inl rfl, (sm_mapSpans σ f x c w).mpr hm⟩
        · obtain ⟨y, hy, hm'⟩ := (smB_mapSpans σ f bs c w).mpr ⟨x, hx, hm⟩
          exact ⟨y, Or.inr hy, hm'⟩
end

theorem matches_mapSpans (σ : Sem) (f : Span → Span) (t : Tok) (w : Str) :
    Spec.Matches σ (t.mapSpans f) w ↔ Spec.Matches σ t w := by
  unfold Spec.Matches
  rw [sms_conc_iff, sms_conc_iff]
  exact sm_mapSpans σ f t _ w

/-! ### the partition function on the fragment -/

theorem pick_some (n : Nat) (s : Str) : pick (some (n, s)) = (n + 1, s) := rfl

theorem invariantTextPrefix_spells (κ : Casing) (sp s : Span) {loc : Nat} {pre : List Tok} {P : Str}
    (hs : Spells loc pre P) (v : Tok) (more : List Tok)
    (hv1 : ∀ fs, textTok κ v ≠ .inv fs) (hv2 : isBoundaryTok v = false) :
    invariantTextPrefix κ (.cat sp (pre ++ .sep s :: v :: more)) = (pre.length + 1, P ++ ['/']) := by
  have hfirst : firstRootedVariant κ (pre ++ .sep s :: v :: more) = false := by
    cases hs with
    | nil => simp [firstRootedVariant, textTok]
    | lit => simp [firstRootedVariant, hasRoot, rootTok]
    | sep => simp [firstRootedVariant, textTok]
  unfold invariantTextPrefix
  simp only [Tok.concatenation, hfirst, Bool.false_eq_true, ↓reduceIte]
  rw [prefixGo_spells κ hs s (v :: more) 0 none none]
  simp only [Nat.zero_add, headText, List.nil_append]
  rw [prefixGo]
  cases hv : textTok κ v with
  | inv fs => exact absurd hv (hv1 fs)
  | unb => simp only [hv2, Bool.false_eq_true, ↓reduceIte, pick_some]
  | bnd => simp only [hv2, Bool.false_eq_true, ↓reduceIte, pick_some]

theorem unroot_nonboundary {v : Tok} (h : isBoundaryTok v = false) : unroot v = (v, 0) := by
  cases v <;> simp_all [isBoundaryTok, unroot]

/-- **C08 on the fragment** (`partition_lang_partial`): a glob that consists of literals and
separators, a separator, and then a variant non-boundary token that cannot begin with a tree
wildcard (`a/b/*.rs`, `src/{x,y}/**`, ...) is partitioned into the text before that separator
plus `/`, and a postfix; the glob matches `w` iff `w` is the prefix followed by a path the postfix
matches on its own -/
theorem partition_lang_partial (σ : Sem) (κ : Casing) (sp s : Span) {loc : Nat} {pre : List Tok}
    {P : Str} (hs : Spells loc pre P) (v : Tok) (more : List Tok)
    (hv1 : ∀ fs, textTok κ v ≠ .inv fs) (hv2 : isBoundaryTok v = false) (hlead : leadTree v = false) :
    ∃ off q, partition κ (.cat sp (pre ++ .sep s :: v :: more)) = (P ++ ['/'], off, some q) ∧
      ∀ w, Spec.Matches σ (.cat sp (pre ++ .sep s :: v :: more)) w ↔
        ∃ r, w = P ++ '/' :: r ∧ Spec.Matches σ q r := by
  have hdrop : (pre ++ .sep s :: v :: more).drop (pre.length + 1) = v :: more := by
    have : pre ++ .sep s :: v :: more = (pre ++ [.sep s]) ++ (v :: more) := by simp
    rw [this, List.drop_left' (by simp)]
  have hlen : ¬ (pre.length + 1 ≥ (pre ++ .sep s :: v :: more).length) := by simp
  let off : Nat :=
    (((pre ++ .sep s :: v :: more).take (pre.length + 1)).map (fun x => x.span.len)).sum + 0
  refine ⟨off, (Tok.cat sp (v :: more)).mapSpans (fun x => ⟨x.start - off, x.len⟩), ?_, ?_⟩
  · unfold partition
    simp only [invariantTextPrefix_spells κ sp s hs v more hv1 hv2, hlen, ↓reduceIte, hdrop,
      unroot_nonboundary hv2, Option.map_some, off]
  · intro w
    have h1 := partition_sep_spells σ hs (v :: more) s (by simpa [leadTreeF] using hlead) w
    constructor
    · intro h
      obtain ⟨r, hr, hm⟩ := h1.mp h
      exact ⟨r, hr, (matches_mapSpans σ _ _ r).mpr hm⟩
    · rintro ⟨r, hr, hm⟩
      exact h1.mpr ⟨r, hr, (matches_mapSpans σ _ _ r).mp hm⟩

end Wax
