import Wax.Proofs.ParseShape
import Wax.Proofs.EncodeSpec
import Wax.Proofs.TextMatches
import Wax.Proofs.ExhSound
/-! Corollaries that chain parser, checker, queries and encoder (all on the model). -/
namespace Wax

/-- C12 for the compiled program: inside `F01`, a glob that reports `Always` matches only paths
that begin with a separator -/
theorem build_root_sound_compiled (σ : Sem) (hdot : σ.dotall = true) (e : Str) (t : Tok)
    (hp : parse e = .ok t) (hc : checkS t = true) (hF : F01 t = true) (hr : hasRoot t = .always)
    (w : Str) (hm : Matches σ (encodeTop t) w) : Rooted w :=
  build_root_sound σ e t hp hc hr w ((encode_eq_spec_partial σ hdot t hF w).mp hm)

/-- C11 for the compiled program: inside `F01`, invariant text is the one and only path the
compiled program accepts -/
theorem text_exact_compiled (σ : Sem) (hdot : σ.dotall = true) (κ : Casing) (hσ : CeqRefl σ)
    (hκ : CasingOk σ κ) (t : Tok) (fs : List Frag) (hw : wellT t = true) (hF : F01 t = true)
    (h : textTok κ t = .inv fs) (w : Str) :
    Matches σ (encodeTop t) w ↔ w = fragsToStr fs := by
  rw [encode_eq_spec_partial σ hdot t hF w]
  exact text_exact σ κ hσ hκ t fs hw h w

/-- C09 for the compiled program: inside `F01` and `F09a`, an `Always` verdict means the compiled
program accepts, with every path, every path beneath it -/
theorem exhaustive_sound_compiled (σ : Sem) (hdot : σ.dotall = true) (sp : Span) (ts : List Tok)
    (last : Tok) (hlast : lastTok ts = some last)
    (hfrag : isTreeTok last = true ∨ exhTake last = false) (hF : F01 (.cat sp ts) = true)
    (hAlways : isExhaustive (.cat sp ts) = .ok .always) (w x : Str)
    (hm : Matches σ (encodeTop (.cat sp ts)) w) :
    Matches σ (encodeTop (.cat sp ts)) (w ++ '/' :: x) := by
  rw [encode_eq_spec_partial σ hdot _ hF] at hm ⊢
  exact exhaustive_sound_partial σ sp ts last hlast hfrag hAlways w hm x

end Wax
