import Wax.Proofs.DepthFlat
import Wax.Proofs.Natural
import Wax.Proofs.DepthFold
/-!
C10 beyond the tree-free fragment: flat concatenations of leaves that may contain TREE WILDCARDS
(the nine coalescent rows of the `Termination` conjunction table).

The fragment is a decidable predicate on the token list (`flatTreeOk`): every token is a literal
without separator / class / `?` / `*` / `$` / separator / tree wildcard; no two boundaries
(separator or tree wildcard) are adjacent; every run of non-boundary tokens between two boundaries
(or between a boundary and an end of the pattern) contains a token that cannot match `""`; the
pattern is not empty.

Result (`depth_sound_tree_partial`): whenever the fold `depthFlat` returns a value `v`, the number
of components of every matched path *without a trailing separator* (or equal to `/`) lies in the
set denoted by `v`.  Without the restriction on the path the statement is FALSE
(`depth_trailing_sep_witness`: `**/b/` reports "at least 2" and matches `b/`), and
`depth_sound_tree_core` gives the pattern-side condition under which no restriction on the path is
needed: the pattern is not of the shape `badEnd` = "starts with a tree wildcard, contains no other
tree wildcard, ends with a separator".  (On 372 sampled patterns of the fragment the crate's
`depth()` is contradicted by some matched path exactly for the 28 patterns of that shape.)
Tree-free patterns are covered too (`depth_tree_main`: the value is `Invariant (depthOf w)`), so
this generalises `depth_sound_partial`.
-/
set_option linter.unusedSimpArgs false
namespace Wax

/-! ### the fragment -/

/-- what a leaf is for the depth fold -/
inductive LeafK where
  | run (solid : Bool) | sep | tree | bad
deriving DecidableEq, Repr

def leafKind : Tok → LeafK
  | .lit _ s _ => if s.contains '/' then .bad else .run (!s.isEmpty)
  | .cls .. => .run true
  | .one _ => .run true
  | .zom .. => .run false
  | .sep _ => .sep
  | .tree .. => .tree
  | _ => .bad

/-- state of the scan: the kind of the last token; for a run, whether it already contains a token
that cannot match `""` -/
inductive PS where
  | sep | tree | run (solid : Bool)
deriving DecidableEq, Repr

def PS.isRun : PS → Bool | .run _ => true | _ => false
def PS.isTree : PS → Bool | .tree => true | _ => false
def PS.isSep : PS → Bool | .sep => true | _ => false
def PS.carry : PS → Bool | .run s => s | _ => false
def PS.pending : PS → Bool | .run false => true | _ => false

def PS.init (t : Tok) : Option PS :=
  match leafKind t with
  | .run s => some (.run s)
  | .sep => some .sep
  | .tree => some .tree
  | .bad => none

/-- a boundary may only follow a run that cannot match `""` -/
def PS.step (st : PS) (t : Tok) : Option PS :=
  match leafKind t, st with
  | .run s, st => some (.run (st.carry || s))
  | .sep, .run true => some .sep
  | .tree, .run true => some .tree
  | _, _ => none

def okGo : PS → List Tok → Bool
  | st, [] => !st.pending
  | st, t :: ts => match st.step t with | none => false | some st' => okGo st' ts

def endState : PS → List Tok → PS
  | st, [] => st
  | st, t :: ts => match st.step t with | none => st | some st' => endState st' ts

/-- **the fragment** (decidable) -/
def flatTreeOk : List Tok → Bool
  | [] => false
  | t :: ts => match PS.init t with | none => false | some st => okGo st ts

def isTreeLeaf : Tok → Bool | .tree .. => true | _ => false

/-- the pattern starts with a tree wildcard, contains no other, and ends with a separator
(`**/b/`) -/
def badEnd : List Tok → Bool
  | [] => false
  | t :: ts => match PS.init t with
    | none => false
    | some st => isTreeLeaf t && !ts.any isTreeLeaf && (endState st ts).isSep

/-! ### facts about kinds -/

theorem leafKind_run {t : Tok} {s : Bool} (h : leafKind t = .run s) :
    noBoundary t = true ∧ solid t = s ∧ leafTerm t = ⟨.open_, .inv 0⟩ ∧ isTreeLeaf t = false := by
  cases t <;> simp [leafKind] at h
  case lit sp s' ci =>
    split at h
    · cases h
    · rename_i hc
      injection h with h
      simp [noBoundary, solid, leafTerm, isTreeLeaf, hc, h]
  case cls => simp [noBoundary, solid, leafTerm, isTreeLeaf, h]
  case one => simp [noBoundary, solid, leafTerm, isTreeLeaf, h]
  case zom => simp [noBoundary, solid, leafTerm, isTreeLeaf, h]

theorem leafKind_sep {t : Tok} (h : leafKind t = .sep) : ∃ sp, t = .sep sp := by
  cases t <;> simp [leafKind] at h
  case lit => split at h <;> cases h
  case sep sp => exact ⟨sp, rfl⟩

theorem leafKind_tree {t : Tok} (h : leafKind t = .tree) : ∃ sp r, t = .tree sp r := by
  cases t <;> simp [leafKind] at h
  case lit => split at h <;> cases h
  case tree sp r => exact ⟨sp, r, rfl⟩

/-! ### counting runs in the pattern -/

/-- number of non-empty runs (the flag: the previous token belongs to a run) -/
def nrGo : Bool → List Tok → Nat
  | _, [] => 0
  | p, t :: ts => match leafKind t with
    | .run _ => b2n (!p) + nrGo true ts
    | _ => nrGo false ts

/-- number of runs that cannot match `""` (the flag: the current run has been counted) -/
def solidRuns : Bool → List Tok → Nat
  | _, [] => 0
  | c, t :: ts => match leafKind t with
    | .run s => b2n (s && !c) + solidRuns (c || s) ts
    | _ => solidRuns false ts

theorem nr_eq_solid : ∀ (ts : List Tok) (st : PS), okGo st ts = true →
    nrGo st.isRun ts + b2n st.pending = solidRuns st.carry ts
  | [], st, h => by
    simp only [okGo, Bool.not_eq_true'] at h
    simp [nrGo, solidRuns, h, b2n]
  | t :: ts, st, h => by
    simp only [okGo] at h
    cases hs : st.step t with
    | none => simp [hs] at h
    | some st' =>
      simp only [hs] at h
      have ih := nr_eq_solid ts st' h
      cases hk : leafKind t with
      | run s =>
        simp only [PS.step, hk, Option.some.injEq] at hs
        subst hs
        simp only [nrGo, solidRuns, hk]
        simp only [PS.isRun, PS.carry] at ih
        cases st with
        | run s0 =>
          cases s0 <;> cases s <;> simp_all [PS.isRun, PS.carry, PS.pending, b2n] <;> omega
        | sep => cases s <;> simp_all [PS.isRun, PS.carry, PS.pending, b2n] <;> omega
        | tree => cases s <;> simp_all [PS.isRun, PS.carry, PS.pending, b2n] <;> omega
      | sep =>
        simp only [nrGo, solidRuns, hk]
        cases st with
        | run s0 =>
          cases s0 <;> simp [PS.step, hk] at hs
          subst hs
          simpa [PS.isRun, PS.carry, PS.pending, b2n] using ih
        | sep => simp [PS.step, hk] at hs
        | tree => simp [PS.step, hk] at hs
      | tree =>
        simp only [nrGo, solidRuns, hk]
        cases st with
        | run s0 =>
          cases s0 <;> simp [PS.step, hk] at hs
          subst hs
          simpa [PS.isRun, PS.carry, PS.pending, b2n] using ih
        | sep => simp [PS.step, hk] at hs
        | tree => simp [PS.step, hk] at hs
      | bad => simp [PS.step, hk] at hs

/-! ### the specification side: components of a matched path -/

/-- components of `w`, counting the one in progress when `b` -/
def compsG (b : Bool) (w : Str) : Nat := b2n b + depthGo b w

theorem compsG_false (w : Str) : compsG false w = depthOf w := by simp [compsG, depthOf, b2n]

theorem le_compsG (b : Bool) (w : Str) : b2n b ≤ compsG b w := by simp [compsG]

theorem compsG_sep (b : Bool) (v : Str) : compsG b ('/' :: v) = b2n b + compsG false v := by
  simp [compsG, depthGo, b2n]

theorem compsG_char {c : Char} (hc : c ≠ '/') (b : Bool) (v : Str) :
    compsG b (c :: v) = compsG true v := by
  cases b <;> simp [compsG, depthGo, hc, b2n]

theorem compsG_sepFree : ∀ (u v : Str) (b : Bool), SepFree u →
    compsG b (u ++ v) = compsG (b || !u.isEmpty) v
  | [], v, b, _ => by simp
  | c :: u, v, b, h => by
    obtain ⟨hc, hu⟩ := sepFree_cons.mp h
    have ih := compsG_sepFree u v true hu
    simp only [Bool.true_or] at ih
    simp only [List.cons_append, compsG_char hc, ih, List.isEmpty_cons, Bool.not_false,
      Bool.or_true]

theorem compsG_through : ∀ (m : Str) (b : Bool) (v : Str),
    compsG false v ≤ compsG b (m ++ '/' :: v)
  | [], b, v => by simp only [List.nil_append, compsG_sep]; omega
  | c :: m, b, v => by
    by_cases hc : c = '/'
    · subst hc
      have := compsG_through m false v
      simp only [List.cons_append, compsG_sep]; omega
    · simp only [List.cons_append, compsG_char hc]
      exact compsG_through m true v

theorem compsG_star {r : Str} (h : Star CompSep r) (v : Str) :
    compsG false v ≤ compsG false (r ++ v) := by
  rcases (star_compSep_iff r).mp h with rfl | ⟨m, rfl⟩
  · simp
  · have := compsG_through m false v
    simpa using this

def LeavesOk (ts : List Tok) : Prop := ∀ t ∈ ts, leafKind t ≠ .bad

/-- every matched path has at least as many components as the pattern has runs that cannot match
`""` -/
theorem spec_lower (σ : Sem) (hσ : SepIsolated σ) :
    ∀ (ts : List Tok) (c : Ctx) (b cnt : Bool) (w : Str), SMs σ c ts w → LeavesOk ts →
      (c.first = true → b = false) → (cnt = true → b = true) →
      b2n cnt + solidRuns cnt ts ≤ compsG b w
  | [], c, b, cnt, w, h, _, _, hcb => by
    have := le_compsG b w
    cases cnt <;> cases b <;> simp_all [solidRuns, b2n]
  | t :: ts, c, b, cnt, w, h, hl, hfb, hcb => by
    obtain ⟨u, v, rfl, hu, hv⟩ := sms_cons.mp h
    have hl' : LeavesOk ts := fun x hx => hl x (by simp [hx])
    cases hk : leafKind t with
    | bad => exact absurd hk (hl t (by simp))
    | run s =>
      obtain ⟨hnb, hsol, _, _⟩ := leafKind_run hk
      have hsf := sm_sepFree σ hσ hu hnb
      rw [compsG_sepFree u v b hsf]
      have hne : s = true → (!u.isEmpty) = true := by
        intro hs
        have := solid_nonempty (hsol.trans hs) hu
        cases u <;> simp_all
      have ih := spec_lower σ hσ ts _ (b || !u.isEmpty) (cnt || s) v hv hl' (by simp) (by
        intro h'
        cases cnt <;> cases s <;> simp_all)
      simp only [solidRuns, hk]
      cases cnt <;> cases s <;> simp_all [b2n] <;> omega
    | sep =>
      obtain ⟨sp, rfl⟩ := leafKind_sep hk
      cases hu
      have ih := spec_lower σ hσ ts _ false false v hv hl' (by simp) (by simp)
      simp only [solidRuns, hk, List.singleton_append, compsG_sep]
      have : b2n cnt ≤ b2n b := by cases cnt <;> cases b <;> simp_all [b2n]
      simp only [b2n, Bool.false_eq_true, ↓reduceIte, Nat.zero_add] at ih
      omega
    | tree =>
      obtain ⟨sp, r, rfl⟩ := leafKind_tree hk
      have ih := spec_lower σ hσ ts _ false false v hv hl' (by simp) (by simp)
      have hcb' : b2n cnt ≤ b2n b := by cases cnt <;> cases b <;> simp_all [b2n]
      simp only [solidRuns, hk]
      simp only [b2n, Bool.false_eq_true, ↓reduceIte, Nat.zero_add] at ih
      cases ts with
      | nil =>
        have := le_compsG b (u ++ v)
        simp only [solidRuns] at ih ⊢
        omega
      | cons t2 ts2 =>
        cases hu with
        | tree htl =>
          simp only [TreeLang, List.isEmpty_cons, Bool.and_false, Bool.false_eq_true,
            ↓reduceIte] at htl
          split at htl
          · obtain ⟨r', hst, rfl⟩ := htl
            have := compsG_star hst v
            simp only [List.cons_append, compsG_sep]
            omega
          · rename_i hcond
            have hf : c.first = true := by
              cases hcf : c.first <;> simp_all
            have hb := hfb hf
            subst hb
            have hc0 : cnt = false := by cases cnt <;> simp_all
            subst hc0
            have := compsG_star htl v
            simp only [b2n, Bool.false_eq_true, ↓reduceIte, Nat.zero_add]
            omega

/-- a tree-free match has at most as many components as the pattern has non-empty runs -/
theorem spec_upper (σ : Sem) (hσ : SepIsolated σ) :
    ∀ (ts : List Tok) (c : Ctx) (b p : Bool) (w : Str), SMs σ c ts w → LeavesOk ts →
      ts.any isTreeLeaf = false → (b = true → p = true) →
      compsG b w ≤ b2n p + nrGo p ts
  | [], c, b, p, w, h, _, _, hbp => by
    rw [sms_nil] at h; subst h
    cases b <;> cases p <;> simp_all [compsG, depthGo, nrGo, b2n]
  | t :: ts, c, b, p, w, h, hl, hnt, hbp => by
    obtain ⟨u, v, rfl, hu, hv⟩ := sms_cons.mp h
    have hl' : LeavesOk ts := fun x hx => hl x (by simp [hx])
    simp only [List.any_cons, Bool.or_eq_false_iff] at hnt
    cases hk : leafKind t with
    | bad => exact absurd hk (hl t (by simp))
    | run s =>
      obtain ⟨hnb, _, _, _⟩ := leafKind_run hk
      have hsf := sm_sepFree σ hσ hu hnb
      rw [compsG_sepFree u v b hsf]
      have ih := spec_upper σ hσ ts _ (b || !u.isEmpty) true v hv hl' hnt.2 (by simp)
      simp only [nrGo, hk]
      cases p <;> simp_all [b2n] <;> omega
    | sep =>
      obtain ⟨sp, rfl⟩ := leafKind_sep hk
      cases hu
      have ih := spec_upper σ hσ ts _ false false v hv hl' hnt.2 (by simp)
      simp only [nrGo, hk, List.singleton_append, compsG_sep]
      have : b2n b ≤ b2n p := by cases b <;> cases p <;> simp_all [b2n]
      simp only [b2n, Bool.false_eq_true, ↓reduceIte, Nat.zero_add] at ih
      omega
    | tree =>
      obtain ⟨sp, r, rfl⟩ := leafKind_tree hk
      simp [isTreeLeaf] at hnt

/-! ### the model side: what the fold computes -/

/-- unbounded, or bounded below only: the only variant values a flat fold produces -/
def isLow : NVar → Bool | .unb => true | .bnd (.lower _) => true | _ => false
def loOf : NVar → Nat | .bnd (.lower m) => m | _ => 0

theorem pure_ok {α} {a b : α} (h : (pure a : P α) = .ok b) : a = b := by
  simp only [pure, Except.pure] at h
  injection h

theorem inv_conj_inv {a b : Nat} {v' : NVar} (h : (NVar.inv a).conj (.inv b) = .ok v') :
    v' = .inv (a + b) := by
  simp only [NVar.conj] at h
  obtain ⟨x, hx, h⟩ := bind_ok h
  have := cadd_ok hx; subst this
  exact (pure_ok h).symm

theorem low_conj_inv {v v' : NVar} {i : Nat} (hl : isLow v = true)
    (h : v.conj (.inv i) = .ok v') : isLow v' = true ∧ loOf v' = loOf v + i := by
  cases v with
  | inv n => simp [isLow] at hl
  | unb =>
    simp only [NVar.conj] at h
    have := pure_ok h; subst this
    by_cases hi : i = 0 <;> simp [hi, isLow, loOf]
  | bnd r =>
    cases r with
    | lower m =>
      simp only [NVar.conj, BVR.translation] at h
      obtain ⟨x, hx, h⟩ := bind_ok h
      obtain ⟨y, hy, hx⟩ := bind_ok hx
      have := cadd_ok hy; subst this
      have := pure_ok hx; subst this
      have := pure_ok h; subst this
      simp [isLow, loOf]
    | upper m => simp [isLow] at hl
    | both a b => simp [isLow] at hl

theorem low_conj_unb {v v' : NVar} (hl : isLow v = true) (h : v.conj .unb = .ok v') :
    isLow v' = true ∧ loOf v' = loOf v := by
  cases v with
  | inv n => simp [isLow] at hl
  | unb =>
    simp only [NVar.conj] at h
    have := pure_ok h; subst this
    simp [isLow, loOf]
  | bnd r =>
    cases r with
    | lower m =>
      simp only [NVar.conj, BVR.openedUpper, NVar.ofV] at h
      have := pure_ok h; subst this
      simp [isLow, loOf]
    | upper m => simp [isLow] at hl
    | both a b => simp [isLow] at hl

theorem inv_conj_unb {d : Nat} {v' : NVar} (h : (NVar.inv d).conj .unb = .ok v') :
    isLow v' = true ∧ loOf v' = d := by
  simp only [NVar.conj] at h
  have := pure_ok h; subst this
  by_cases hd : d = 0 <;> simp [hd, isLow, loOf]

theorem fin_low {s e : Bool} {v v' : NVar} (hl : isLow v = true)
    (h : (⟨Termn.ofBools s e, v⟩ : SepTerm).finalize = .ok v') :
    isLow v' = true ∧ loOf v' = loOf v + b2n (!s && !e) := by
  cases s <;> cases e <;> simp only [SepTerm.finalize, Termn.ofBools] at h
  · have := low_conj_inv hl h
    simpa [b2n] using this
  · have := pure_ok h; subst this; simp [hl, b2n]
  · have := pure_ok h; subst this; simp [hl, b2n]
  · have := pure_ok h; subst this
    cases v with
    | inv n => simp [isLow] at hl
    | unb => simp [isLow, loOf, b2n]
    | bnd r => simpa [b2n] using hl

theorem fin_inv {s e : Bool} {k : Nat} {v' : NVar}
    (h : (⟨Termn.ofBools s e, .inv k⟩ : SepTerm).finalize = .ok v') :
    v' = .inv (k + 1 - b2n s - b2n e) := by
  cases s <;> cases e <;> simp only [SepTerm.finalize, Termn.ofBools] at h
  · have := inv_conj_inv h; subst this; simp [b2n]
  · have := pure_ok h; subst this; simp [b2n]
  · have := pure_ok h; subst this; simp [b2n]
  · have := pure_ok h; subst this; simp [b2n]

theorem conj_run_eq (s e : Bool) (v : NVar) :
    SepTerm.conj ⟨Termn.ofBools s e, v⟩ ⟨.open_, .inv 0⟩ =
      (v.conj (.inv 0) >>= fun x => pure ⟨Termn.ofBools s false, x⟩) := by
  cases s <;> cases e <;> rfl

theorem conj_sep_eq (s e : Bool) (v : NVar) :
    SepTerm.conj ⟨Termn.ofBools s e, v⟩ ⟨.closed, .inv 1⟩ =
      (v.conj (.inv 1) >>= fun x => pure ⟨Termn.ofBools s true, x⟩) := by
  cases s <;> cases e <;> rfl

theorem conj_tree_eq (s e : Bool) (v : NVar) :
    SepTerm.conj ⟨Termn.ofBools s e, v⟩ ⟨.coal, .unb⟩ =
      ((⟨Termn.ofBools s e, v⟩ : SepTerm).finalize >>= fun f =>
        f.conj .unb >>= fun x => pure ⟨Termn.ofBools s true, x⟩) := by
  cases s <;> cases e <;> rfl

theorem conj_coal_run :
    SepTerm.conj ⟨.coal, .unb⟩ ⟨.open_, .inv 0⟩ = .ok ⟨.first, .bnd (.lower 1)⟩ := rfl

/-- the invariant of the fold.  `s`: the pattern starts with a boundary; `st`: scan state (kind of
the last token); `D`: non-empty runs so far; `ht`: a tree wildcard has been seen; `lz`: the fold
has lost one unit (a tree wildcard that is not the first token, in a pattern that starts with a
boundary: the left operand is finalized although it starts with a boundary). -/
def FoldInv (s : Bool) (acc : SepTerm) (st : PS) (D : Nat) (ht lz : Bool) : Prop :=
  (s = true ∧ acc = ⟨.coal, .unb⟩ ∧ st = .tree ∧ D = 0 ∧ ht = true ∧ lz = false) ∨
  (∃ k, acc = ⟨Termn.ofBools s (!st.isRun), .inv k⟩ ∧ ht = false ∧ lz = false ∧
      k + 1 = D + b2n s + b2n (!st.isRun) ∧ (st.isRun = true → 1 ≤ D)) ∨
  (∃ v, acc = ⟨Termn.ofBools s (!st.isRun), v⟩ ∧ ht = true ∧ isLow v = true ∧
      loOf v + 1 + b2n lz ≤ D + b2n s + b2n (!st.isRun) ∧ 1 ≤ D ∧
      (st.isTree = true → s = true → lz = true))

theorem step_run {s : Bool} {acc acc' : SepTerm} {st : PS} {D : Nat} {ht lz : Bool} {t : Tok}
    {sl : Bool} (hI : FoldInv s acc st D ht lz) (hk : leafKind t = .run sl)
    (hc : SepTerm.conj acc (leafTerm t) = .ok acc') :
    FoldInv s acc' (.run (st.carry || sl)) (D + b2n (!st.isRun)) ht lz := by
  rw [(leafKind_run hk).2.2.1] at hc
  rcases hI with ⟨hs, rfl, rfl, rfl, rfl, rfl⟩ | ⟨k, rfl, rfl, rfl, hk1, hk2⟩ |
    ⟨v, rfl, rfl, hl, hle, hD, hT⟩
  · rw [conj_coal_run] at hc
    injection hc with hc; subst hc; subst hs
    exact .inr (.inr ⟨_, rfl, rfl, rfl, by simp [loOf, b2n, PS.isRun, PS.isTree],
      by simp [b2n, PS.isRun], by simp [PS.isTree]⟩)
  · rw [conj_run_eq] at hc
    obtain ⟨x, hx, hc⟩ := bind_ok hc
    have := inv_conj_inv hx; subst this
    have := pure_ok hc; subst this
    refine .inr (.inl ⟨k + 0, rfl, rfl, rfl, ?_, ?_⟩)
    · simp only [PS.isRun, Bool.not_true, b2n] at hk1 ⊢; simp at hk1 ⊢; omega
    · intro _
      cases hr : st.isRun
      · simp [b2n]
      · have := hk2 hr; omega
  · rw [conj_run_eq] at hc
    obtain ⟨x, hx, hc⟩ := bind_ok hc
    obtain ⟨hl', hlo⟩ := low_conj_inv hl hx
    have := pure_ok hc; subst this
    refine .inr (.inr ⟨x, rfl, rfl, hl', ?_, by omega, by simp [PS.isTree]⟩)
    simp only [PS.isRun, Bool.not_true] at hle ⊢
    have : b2n (!st.isRun) ≤ 1 := by cases st.isRun <;> simp [b2n]
    have : b2n false = 0 := rfl
    omega

theorem step_sep {s : Bool} {acc acc' : SepTerm} {D : Nat} {ht lz : Bool} {t : Tok}
    (hI : FoldInv s acc (.run true) D ht lz) (hk : leafKind t = .sep)
    (hc : SepTerm.conj acc (leafTerm t) = .ok acc') : FoldInv s acc' .sep D ht lz := by
  obtain ⟨sp, rfl⟩ := leafKind_sep hk
  simp only [leafTerm] at hc
  rcases hI with ⟨_, _, h, _, _⟩ | ⟨k, rfl, rfl, rfl, hk1, hk2⟩ | ⟨v, rfl, rfl, hl, hle, hD, hT⟩
  · cases h
  · rw [conj_sep_eq] at hc
    obtain ⟨x, hx, hc⟩ := bind_ok hc
    have := inv_conj_inv hx; subst this
    have := pure_ok hc; subst this
    refine .inr (.inl ⟨k + 1, rfl, rfl, rfl, ?_, by simp [PS.isRun]⟩)
    simp only [PS.isRun, b2n] at hk1 ⊢; simp at hk1 ⊢; omega
  · rw [conj_sep_eq] at hc
    obtain ⟨x, hx, hc⟩ := bind_ok hc
    obtain ⟨hl', hlo⟩ := low_conj_inv hl hx
    have := pure_ok hc; subst this
    refine .inr (.inr ⟨x, rfl, rfl, hl', ?_, hD, by simp [PS.isTree]⟩)
    simp only [PS.isRun, PS.isTree, b2n] at hle ⊢; simp at hle ⊢; omega

theorem step_tree {s : Bool} {acc acc' : SepTerm} {D : Nat} {ht lz : Bool} {t : Tok}
    (hI : FoldInv s acc (.run true) D ht lz) (hk : leafKind t = .tree)
    (hc : SepTerm.conj acc (leafTerm t) = .ok acc') : FoldInv s acc' .tree D true (lz || s) := by
  obtain ⟨sp, r, rfl⟩ := leafKind_tree hk
  simp only [leafTerm] at hc
  rcases hI with ⟨_, _, h, _, _⟩ | ⟨k, rfl, rfl, rfl, hk1, hk2⟩ | ⟨v, rfl, rfl, hl, hle, hD, hT⟩
  · cases h
  · rw [conj_tree_eq] at hc
    obtain ⟨f, hf, hc2⟩ := bind_ok hc
    obtain ⟨x, hx, hc⟩ := bind_ok hc2
    clear hc2
    have := fin_inv hf; subst this
    obtain ⟨hl', hlo⟩ := inv_conj_unb hx
    have := pure_ok hc; subst this
    have hD := hk2 rfl
    refine .inr (.inr ⟨x, rfl, rfl, hl', ?_, hD, by intro _ hs; simp [hs]⟩)
    simp only [PS.isRun, PS.isTree, b2n] at hk1 hlo ⊢
    cases s <;> simp at hk1 hlo ⊢ <;> omega
  · rw [conj_tree_eq] at hc
    obtain ⟨f, hf, hc2⟩ := bind_ok hc
    obtain ⟨x, hx, hc⟩ := bind_ok hc2
    clear hc2
    obtain ⟨hlf, hlof⟩ := fin_low hl hf
    obtain ⟨hl', hlo⟩ := low_conj_unb hlf hx
    have := pure_ok hc; subst this
    refine .inr (.inr ⟨x, rfl, rfl, hl', ?_, hD, by intro _ hs; simp [hs]⟩)
    simp only [PS.isRun, PS.isTree, b2n] at hle hlof ⊢
    cases s <;> cases lz <;> simp at hle hlof ⊢ <;> omega

theorem step_sep_state {st st' : PS} {t : Tok} (h : st.step t = some st') (hk : leafKind t = .sep) :
    st = .run true ∧ st' = .sep := by
  cases st with
  | run s0 => cases s0 <;> simp [PS.step, hk] at h; exact ⟨rfl, h.symm⟩
  | sep => simp [PS.step, hk] at h
  | tree => simp [PS.step, hk] at h

theorem step_tree_state {st st' : PS} {t : Tok} (h : st.step t = some st')
    (hk : leafKind t = .tree) : st = .run true ∧ st' = .tree := by
  cases st with
  | run s0 => cases s0 <;> simp [PS.step, hk] at h; exact ⟨rfl, h.symm⟩
  | sep => simp [PS.step, hk] at h
  | tree => simp [PS.step, hk] at h

/-- the invariant is preserved along the whole fold -/
theorem fold_inv (s : Bool) : ∀ (ts : List Tok) (st : PS) (acc : SepTerm) (D : Nat) (ht lz : Bool)
    (fin : SepTerm), FoldInv s acc st D ht lz → okGo st ts = true →
    (ts.map leafTerm).foldlM SepTerm.conj acc = .ok fin →
    FoldInv s fin (endState st ts) (D + nrGo st.isRun ts) (ht || ts.any isTreeLeaf)
      (lz || (s && ts.any isTreeLeaf))
  | [], st, acc, D, ht, lz, fin, hI, _, hf => by
    simp only [List.map_nil, List.foldlM_nil] at hf
    have := pure_ok hf; subst this
    simpa [endState, nrGo] using hI
  | t :: ts, st, acc, D, ht, lz, fin, hI, hok, hf => by
    simp only [List.map_cons, List.foldlM_cons] at hf
    obtain ⟨acc', hc, hf'⟩ := bind_ok hf
    simp only [okGo] at hok
    cases hs : st.step t with
    | none => simp [hs] at hok
    | some st' =>
      simp only [hs] at hok
      cases hk : leafKind t with
      | run sl =>
        have hs' := hs
        simp only [PS.step, hk, Option.some.injEq] at hs'
        subst hs'
        have hI' := step_run hI hk hc
        have := fold_inv s ts _ acc' _ ht lz fin hI' hok hf'
        simp only [endState, hs, nrGo, hk, List.any_cons, (leafKind_run hk).2.2.2]
        simpa [PS.isRun, Nat.add_assoc] using this
      | sep =>
        obtain ⟨rfl, rfl⟩ := step_sep_state hs hk
        have hI' := step_sep hI hk hc
        have := fold_inv s ts _ acc' _ ht lz fin hI' hok hf'
        obtain ⟨sp, rfl⟩ := leafKind_sep hk
        simp only [endState, hs, nrGo, hk, List.any_cons, isTreeLeaf]
        simpa [PS.isRun] using this
      | tree =>
        obtain ⟨rfl, rfl⟩ := step_tree_state hs hk
        have hI' := step_tree hI hk hc
        have := fold_inv s ts _ acc' _ true (lz || s) fin hI' hok hf'
        obtain ⟨sp, r, rfl⟩ := leafKind_tree hk
        simp only [endState, hs, nrGo, hk, List.any_cons, isTreeLeaf]
        have hb : ((lz || s) || (s && ts.any isTreeLeaf)) = (lz || (s && (true || ts.any isTreeLeaf))) := by
          cases lz <;> cases s <;> simp
        rw [hb] at this
        simpa [PS.isRun] using this
      | bad => simp [PS.step, hk] at hs

theorem init_inv {t : Tok} {st : PS} (h : PS.init t = some st) :
    FoldInv (!st.isRun) (leafTerm t) st (b2n st.isRun) (isTreeLeaf t) false := by
  cases hk : leafKind t with
  | run sl =>
    simp only [PS.init, hk, Option.some.injEq] at h
    subst h
    obtain ⟨_, _, hlt, hnt⟩ := leafKind_run hk
    rw [hlt, hnt]
    exact .inr (.inl ⟨0, rfl, rfl, rfl, by simp [PS.isRun, b2n], by simp [PS.isRun, b2n]⟩)
  | sep =>
    simp only [PS.init, hk, Option.some.injEq] at h
    subst h
    obtain ⟨sp, rfl⟩ := leafKind_sep hk
    exact .inr (.inl ⟨1, rfl, rfl, rfl, by simp [PS.isRun, b2n], by simp [PS.isRun]⟩)
  | tree =>
    simp only [PS.init, hk, Option.some.injEq] at h
    subst h
    obtain ⟨sp, r, rfl⟩ := leafKind_tree hk
    exact .inl ⟨rfl, rfl, rfl, rfl, rfl, rfl⟩
  | bad => simp [PS.init, hk] at h

/-- what `finalize` returns from a state satisfying the invariant -/
theorem final_inv {s : Bool} {fin : SepTerm} {st : PS} {D : Nat} {ht lz : Bool} {v : NVar}
    (hI : FoldInv s fin st D ht lz) (h : fin.finalize = .ok v) :
    (ht = false ∧ v = .inv D) ∨
    (ht = true ∧ isLow v = true ∧
      (loOf v ≤ D ∨ (s = true ∧ lz = false ∧ st.isSep = true ∧ 1 ≤ D))) := by
  rcases hI with ⟨hs, rfl, rfl, rfl, rfl, rfl⟩ | ⟨k, rfl, rfl, rfl, hk1, hk2⟩ |
    ⟨v0, rfl, rfl, hl, hle, hD, hT⟩
  · simp only [SepTerm.finalize] at h
    have := pure_ok h; subst this
    exact .inr ⟨rfl, rfl, .inl (by simp [loOf])⟩
  · have := fin_inv h; subst this
    refine .inl ⟨rfl, ?_⟩
    congr 1; omega
  · obtain ⟨hl', hlo⟩ := fin_low hl h
    refine .inr ⟨rfl, hl', ?_⟩
    cases s <;> cases st <;> cases lz <;>
      simp only [PS.isRun, PS.isTree, PS.isSep, b2n] at hle hlo hT ⊢ <;> simp at hle hlo hT ⊢
    all_goals omega

/-! ### paths -/

/-- the path ends with a separator -/
def endsSep : Str → Bool
  | [] => false
  | c :: w => if w.isEmpty then c == '/' else endsSep w

/-- no trailing separator, unless the path is `/` -/
def trailingOk (w : Str) : Bool := !endsSep w || decide (w = ['/'])

def noDoubleSep : Str → Bool
  | [] => true
  | c :: w => !(c == '/' && w.head? == some '/') && noDoubleSep w

/-- a canonical path: no `//`, no trailing `/` unless the path is `/` -/
def canonicalPath (w : Str) : Bool := noDoubleSep w && trailingOk w

theorem endsSep_append (u : Str) {v : Str} (h : endsSep v = true) : endsSep (u ++ v) = true := by
  induction u with
  | nil => simpa using h
  | cons c u ih =>
    have : (u ++ v).isEmpty = false := by cases v <;> simp_all [endsSep]
    simp [endsSep, this, ih]

theorem ends_sep (σ : Sem) : ∀ (ts : List Tok) (st : PS) (c : Ctx) (w : Str), SMs σ c ts w →
    okGo st ts = true → ts ≠ [] → (endState st ts).isSep = true → endsSep w = true
  | [], _, _, _, _, _, hne, _ => absurd rfl hne
  | t :: ts, st, c, w, h, hok, _, he => by
    obtain ⟨u, v, rfl, hu, hv⟩ := sms_cons.mp h
    simp only [okGo] at hok
    cases hs : st.step t with
    | none => simp [hs] at hok
    | some st' =>
      simp only [hs] at hok
      simp only [endState, hs] at he
      cases ts with
      | nil =>
        rw [sms_nil] at hv; subst hv
        simp only [endState] at he
        cases hk : leafKind t with
        | run sl => simp [PS.step, hk] at hs; subst hs; simp [PS.isSep] at he
        | sep =>
          obtain ⟨sp, rfl⟩ := leafKind_sep hk
          cases hu; rfl
        | tree => obtain ⟨_, rfl⟩ := step_tree_state hs hk; simp [PS.isSep] at he
        | bad => simp [PS.step, hk] at hs
      | cons t2 ts2 =>
        exact endsSep_append u (ends_sep σ (t2 :: ts2) st' _ v hv hok (by simp) he)

/-! ### the theorems -/

/-- the set of depths a value of the depth fold denotes -/
def NVar.mem (x : Nat) : NVar → Prop
  | .inv n => x = n
  | .unb => True
  | .bnd r => r.mem x

theorem low_mem {v : NVar} {d : Nat} (hl : isLow v = true) (h : loOf v ≤ d) : v.mem d := by
  cases v with
  | inv n => simp [isLow] at hl
  | unb => trivial
  | bnd r =>
    cases r with
    | lower m => simpa [NVar.mem, BVR.mem, loOf] using h
    | upper m => simp [isLow] at hl
    | both a b => simp [isLow] at hl

theorem leavesOk_of_okGo : ∀ (ts : List Tok) (st : PS), okGo st ts = true → LeavesOk ts
  | [], _, _ => by intro t ht; cases ht
  | t :: ts, st, h => by
    simp only [okGo] at h
    cases hs : st.step t with
    | none => simp [hs] at h
    | some st' =>
      simp only [hs] at h
      intro x hx
      rcases List.mem_cons.mp hx with rfl | hx
      · intro hb; simp [PS.step, hb] at hs
      · exact leavesOk_of_okGo ts st' h x hx

/-- the detailed form: tree-free patterns are invariant and exact; patterns with a tree wildcard
get "unbounded" or a lower bound, and the lower bound holds of every matched path unless the
pattern has the shape `badEnd` (then it may be one too large) -/
theorem depth_tree_main (σ : Sem) (hσ : SepIsolated σ) (ts : List Tok)
    (hok : flatTreeOk ts = true) (v : NVar) (hv : depthFlat ts = .ok v) (c : Ctx) (w : Str)
    (hw : SMs σ c ts w) :
    (ts.any isTreeLeaf = false ∧ v = .inv (depthOf w)) ∨
    (ts.any isTreeLeaf = true ∧ isLow v = true ∧
      (loOf v ≤ depthOf w ∨ (badEnd ts = true ∧ 1 ≤ depthOf w))) := by
  cases ts with
  | nil => simp [flatTreeOk] at hok
  | cons t ts =>
    simp only [flatTreeOk] at hok
    cases hi : PS.init t with
    | none => simp [hi] at hok
    | some st =>
      simp only [hi] at hok
      simp only [depthFlat] at hv
      obtain ⟨fin, hfold, hfin⟩ := bind_ok hv
      have hI := fold_inv _ ts st _ _ _ _ fin (init_inv hi) hok hfold
      have hleaves : LeavesOk (t :: ts) := by
        intro x hx
        rcases List.mem_cons.mp hx with rfl | hx
        · intro hb; simp [PS.init, hb] at hi
        · exact leavesOk_of_okGo ts st hok x hx
      -- the number of non-empty runs, three ways
      have hD : b2n st.isRun + nrGo st.isRun ts = nrGo false (t :: ts) := by
        cases hk : leafKind t <;> simp [PS.init, hk] at hi <;> subst hi <;>
          simp [nrGo, hk, PS.isRun, b2n]
      have hS : nrGo false (t :: ts) = solidRuns false (t :: ts) := by
        have := nr_eq_solid ts st hok
        cases hk : leafKind t <;> simp [PS.init, hk] at hi <;> subst hi
        · rename_i sl
          cases sl <;> simp_all [nrGo, solidRuns, PS.isRun, PS.carry, PS.pending, b2n] <;> omega
        · simpa [nrGo, solidRuns, hk, PS.isRun, PS.carry, PS.pending, b2n] using this
        · simpa [nrGo, solidRuns, hk, PS.isRun, PS.carry, PS.pending, b2n] using this
      have hlow := spec_lower σ hσ (t :: ts) c false false w hw hleaves (by simp) (by simp)
      simp only [b2n, Bool.false_eq_true, ↓reduceIte, Nat.zero_add, compsG_false] at hlow
      have hany : (isTreeLeaf t || ts.any isTreeLeaf) = (t :: ts).any isTreeLeaf := by simp
      rw [hD, hany] at hI
      rcases final_inv hI hfin with ⟨hnt, rfl⟩ | ⟨hnt, hl, hb⟩
      · refine .inl ⟨hnt, ?_⟩
        have hup := spec_upper σ hσ (t :: ts) c false false w hw hleaves hnt (by simp)
        simp only [b2n, Bool.false_eq_true, ↓reduceIte, Nat.zero_add, compsG_false] at hup
        congr 1; omega
      · refine .inr ⟨hnt, hl, ?_⟩
        rcases hb with hb | ⟨hs, hlz, he, hD1⟩
        · exact .inl (by omega)
        · refine .inr ⟨?_, by omega⟩
          simp only [hs, Bool.false_or, Bool.true_and] at hlz
          simp only [List.any_cons, hlz, Bool.or_false] at hnt
          simp only [badEnd, hi, hnt, hlz, he]
          rfl

/-- **C10 on flat patterns with tree wildcards, any path** (`depth_sound_tree_core`): on the
fragment `flatTreeOk`, unless the pattern at once starts with a tree wildcard, contains no other
tree wildcard and ends with a separator (`badEnd`), every matched path — canonical or not, in any
context — has a number of components in the set the fold reports. -/
theorem depth_sound_tree_core (σ : Sem) (hσ : SepIsolated σ) (ts : List Tok)
    (hok : flatTreeOk ts = true) (hend : badEnd ts = false) (v : NVar)
    (hv : depthFlat ts = .ok v) (c : Ctx) (w : Str) (hw : SMs σ c ts w) :
    v.mem (depthOf w) := by
  rcases depth_tree_main σ hσ ts hok v hv c w hw with ⟨_, rfl⟩ | ⟨_, hl, hb⟩
  · rfl
  · rcases hb with hb | ⟨hbad, _⟩
    · exact low_mem hl hb
    · rw [hend] at hbad; cases hbad

/-- **C10 on flat patterns with tree wildcards** (`depth_sound_tree_partial`): on the fragment
`flatTreeOk`, every matched path that has no trailing separator (or is `/`) — in particular every
canonical path — has a number of components in the set the fold reports: equal to `n` for
`Invariant n`, at least the lower bound (at most the upper bound) for a bounded range, anything for
"unbounded". -/
theorem depth_sound_tree_partial (σ : Sem) (hσ : SepIsolated σ) (ts : List Tok)
    (hok : flatTreeOk ts = true) (v : NVar) (hv : depthFlat ts = .ok v) (w : Str)
    (hw : SMs σ ⟨true, true⟩ ts w) (hcan : trailingOk w = true) :
    v.mem (depthOf w) := by
  rcases depth_tree_main σ hσ ts hok v hv _ w hw with ⟨_, rfl⟩ | ⟨_, hl, hb⟩
  · rfl
  · rcases hb with hb | ⟨hbad, h1⟩
    · exact low_mem hl hb
    · exfalso
      cases ts with
      | nil => simp [badEnd] at hbad
      | cons t ts =>
        simp only [flatTreeOk] at hok
        simp only [badEnd] at hbad
        cases hi : PS.init t with
        | none => simp [hi] at hok
        | some st =>
          simp only [hi] at hok hbad
          simp only [Bool.and_eq_true] at hbad
          have hes : endsSep w = true := by
            cases ts with
            | nil =>
              simp only [endState] at hbad
              have hk : leafKind t = .sep := by
                cases hk : leafKind t <;> simp [PS.init, hk] at hi <;> subst hi <;>
                  first | rfl | simp [PS.isSep] at hbad
              obtain ⟨sp, rfl⟩ := leafKind_sep hk
              have := sms_singleton.mp hw
              cases this; rfl
            | cons t2 ts2 =>
              obtain ⟨u, v', rfl, _, hv'⟩ := sms_cons.mp hw
              exact endsSep_append u (ends_sep σ (t2 :: ts2) st _ v' hv' hok (by simp) hbad.2)
          simp only [trailingOk, hes, Bool.not_true, Bool.false_or, decide_eq_true_eq] at hcan
          subst hcan
          simp [depthOf, depthGo] at h1

theorem depth_sound_tree_canonical (σ : Sem) (hσ : SepIsolated σ) (ts : List Tok)
    (hok : flatTreeOk ts = true) (v : NVar) (hv : depthFlat ts = .ok v) (w : Str)
    (hw : SMs σ ⟨true, true⟩ ts w) (hcan : canonicalPath w = true) :
    v.mem (depthOf w) := by
  simp only [canonicalPath, Bool.and_eq_true] at hcan
  exact depth_sound_tree_partial σ hσ ts hok v hv w hw hcan.2

theorem isLeafTok_of_kind {t : Tok} (h : leafKind t ≠ .bad) : isLeafTok t = true := by
  cases t <;> simp_all [leafKind, isLeafTok]

/-- the same about the general fold `depthVariance` (the model of `Glob::variance::<Depth>`) and
the language of the whole pattern -/
theorem depth_sound_tree_glob (σ : Sem) (hσ : SepIsolated σ) (sp : Span) (ts : List Tok)
    (hok : flatTreeOk ts = true) (v : NVar) (hv : depthVariance (.cat sp ts) = .ok v) (w : Str)
    (hw : Spec.Matches σ (.cat sp ts) w) (hcan : trailingOk w = true) :
    v.mem (depthOf w) := by
  have hleaf : ∀ t ∈ ts, isLeafTok t = true := by
    cases ts with
    | nil => simp [flatTreeOk] at hok
    | cons t ts =>
      simp only [flatTreeOk] at hok
      cases hi : PS.init t with
      | none => simp [hi] at hok
      | some st =>
        simp only [hi] at hok
        intro x hx
        rcases List.mem_cons.mp hx with rfl | hx
        · exact isLeafTok_of_kind (by intro hb; simp [PS.init, hb] at hi)
        · exact isLeafTok_of_kind (leavesOk_of_okGo ts st hok x hx)
  rw [depthVariance_flat sp ts hleaf] at hv
  exact depth_sound_tree_partial σ hσ ts hok v hv w hw hcan

/-! ### non-vacuity -/

section Examples

/-- `a/**/b` -/
def exPrePost : List Tok := [.lit ⟨0, 1⟩ ['a'] false, .tree ⟨1, 4⟩ true, .lit ⟨5, 1⟩ ['b'] false]
/-- `/a/**/b?/**/*c` : root, several tree wildcards, separators, a run with a nullable token -/
def exMany : List Tok :=
  [.sep ⟨0, 1⟩, .lit ⟨1, 1⟩ ['a'] false, .tree ⟨2, 4⟩ true, .lit ⟨6, 1⟩ ['b'] false, .one ⟨7, 1⟩,
   .tree ⟨8, 4⟩ true, .zom ⟨12, 1⟩ false, .lit ⟨13, 1⟩ ['c'] false]
/-- `**/b/c` -/
def exLead : List Tok :=
  [.tree ⟨0, 3⟩ false, .lit ⟨3, 1⟩ ['b'] false, .sep ⟨4, 1⟩, .lit ⟨5, 1⟩ ['c'] false]
/-- `/a/**` -/
def exTrail : List Tok := [.sep ⟨0, 1⟩, .lit ⟨1, 1⟩ ['a'] false, .tree ⟨2, 3⟩ true]

example : flatTreeOk exPrePost = true ∧ badEnd exPrePost = false ∧
    depthFlat exPrePost = .ok (.bnd (.lower 2)) := ⟨by decide, by decide, rfl⟩
example : flatTreeOk exMany = true ∧ badEnd exMany = false ∧
    depthFlat exMany = .ok (.bnd (.lower 1)) := ⟨by decide, by decide, rfl⟩
example : flatTreeOk exLead = true ∧ badEnd exLead = false ∧
    depthFlat exLead = .ok (.bnd (.lower 2)) := ⟨by decide, by decide, rfl⟩
example : flatTreeOk exTrail = true ∧ badEnd exTrail = false ∧
    depthFlat exTrail = .ok (.bnd (.lower 1)) := ⟨by decide, by decide, rfl⟩
-- `/a/**/b/` and `**/a/**/b/` end with a separator but are not `badEnd`: the fold is lossy enough
example : flatTreeOk [.sep ⟨0, 1⟩, .lit ⟨1, 1⟩ ['a'] false, .tree ⟨2, 4⟩ true,
      .lit ⟨6, 1⟩ ['b'] false, .sep ⟨7, 1⟩] = true ∧
    badEnd [.sep ⟨0, 1⟩, .lit ⟨1, 1⟩ ['a'] false, .tree ⟨2, 4⟩ true,
      .lit ⟨6, 1⟩ ['b'] false, .sep ⟨7, 1⟩] = false ∧
    depthFlat [.sep ⟨0, 1⟩, .lit ⟨1, 1⟩ ['a'] false, .tree ⟨2, 4⟩ true,
      .lit ⟨6, 1⟩ ['b'] false, .sep ⟨7, 1⟩] = .ok (.bnd (.lower 2)) := ⟨by decide, by decide, rfl⟩
example : flatTreeOk [.tree ⟨0, 3⟩ false, .lit ⟨3, 1⟩ ['a'] false, .tree ⟨4, 4⟩ true,
      .lit ⟨8, 1⟩ ['b'] false, .sep ⟨9, 1⟩] = true ∧
    badEnd [.tree ⟨0, 3⟩ false, .lit ⟨3, 1⟩ ['a'] false, .tree ⟨4, 4⟩ true,
      .lit ⟨8, 1⟩ ['b'] false, .sep ⟨9, 1⟩] = false ∧
    depthFlat [.tree ⟨0, 3⟩ false, .lit ⟨3, 1⟩ ['a'] false, .tree ⟨4, 4⟩ true,
      .lit ⟨8, 1⟩ ['b'] false, .sep ⟨9, 1⟩] = .ok (.bnd (.lower 2)) := ⟨by decide, by decide, rfl⟩

/-- `a/**/b` matches `a/x/b` -/
theorem exPrePost_matches (σ : Sem) :
    SMs σ ⟨true, true⟩ exPrePost ['a', '/', 'x', '/', 'b'] := by
  have h1 : SM σ ⟨true, false⟩ (.lit ⟨0, 1⟩ ['a'] false) ['a'] := .lit (by simp [litEq])
  have h2 : SM σ ⟨false, false⟩ (.tree ⟨1, 4⟩ true) ['/', 'x', '/'] := by
    refine .tree ?_
    simp only [TreeLang]
    refine ⟨['x', '/'], ?_, rfl⟩
    exact Star.cons (u := ['x', '/']) (v := [])
      ⟨['x'], sepFree_cons.mpr ⟨by decide, sepFree_nil⟩, rfl⟩ Star.nil
  have h3 : SM σ ⟨false, true⟩ (.lit ⟨5, 1⟩ ['b'] false) ['b'] := .lit (by simp [litEq])
  exact .cons (u := ['a']) h1 (.cons (u := ['/', 'x', '/']) h2 (.cons (u := ['b']) h3 .nil))

/-- the theorem applied: every path `a/**/b` matches, canonical or not, has at least two
components (and the hypotheses are met by a real match) -/
example (σ : Sem) (hσ : SepIsolated σ) :
    (∀ c w, SMs σ c exPrePost w → 2 ≤ depthOf w) ∧
    SMs σ ⟨true, true⟩ exPrePost ['a', '/', 'x', '/', 'b'] ∧
    trailingOk ['a', '/', 'x', '/', 'b'] = true ∧ depthOf ['a', '/', 'x', '/', 'b'] = 3 := by
  refine ⟨?_, exPrePost_matches σ, by decide, by decide⟩
  intro c w hw
  exact depth_sound_tree_core σ hσ exPrePost (by decide) (by decide) (.bnd (.lower 2)) rfl c w hw

end Examples

/-! ### outside the hypotheses the statement is false of the committed algorithm -/

/-- `**/b/` : inside `flatTreeOk`, but starts with a tree wildcard and ends with a separator.  The
fold reports "at least 2"; the pattern matches `b/`, which has one component.  So the restriction
to paths without trailing separator in `depth_sound_tree_partial` (equivalently `badEnd = false`
in `depth_sound_tree_core`) cannot be dropped.  (The crate agrees on both counts: `B` reports
`rng_2_-`, `M` reports a match.) -/
theorem depth_trailing_sep_witness (σ : Sem) :
    let ts : List Tok := [.tree ⟨0, 3⟩ false, .lit ⟨3, 1⟩ ['b'] false, .sep ⟨4, 1⟩]
    flatTreeOk ts = true ∧ badEnd ts = true ∧ depthFlat ts = .ok (.bnd (.lower 2)) ∧
      SMs σ ⟨true, true⟩ ts ['b', '/'] ∧ depthOf ['b', '/'] = 1 ∧
      ¬ (NVar.bnd (.lower 2)).mem (depthOf ['b', '/']) ∧ trailingOk ['b', '/'] = false := by
  refine ⟨by decide, by decide, rfl, ?_, by decide,
    by simp [NVar.mem, BVR.mem, depthOf, depthGo], by decide⟩
  have h1 : SM σ ⟨true, false⟩ (.tree ⟨0, 3⟩ false) [] := .tree (by simp [TreeLang]; exact Star.nil)
  have h2 : SM σ ⟨false, false⟩ (.lit ⟨3, 1⟩ ['b'] false) ['b'] := .lit (by simp [litEq])
  have h3 : SM σ ⟨false, true⟩ (.sep ⟨4, 1⟩) ['/'] := .sep
  exact .cons (u := []) h1 (.cons (u := ['b']) h2 (.cons (u := ['/']) h3 .nil))

/-- `**/*` : a run that can match `""` next to a tree wildcard (outside `flatTreeOk`).  The fold
reports "at least 1"; the pattern matches the empty path. -/
theorem depth_tree_nullable_witness (σ : Sem) :
    let ts : List Tok := [.tree ⟨0, 3⟩ false, .zom ⟨3, 1⟩ false]
    flatTreeOk ts = false ∧ depthFlat ts = .ok (.bnd (.lower 1)) ∧
      SMs σ ⟨true, true⟩ ts [] ∧ trailingOk [] = true ∧
      ¬ (NVar.bnd (.lower 1)).mem (depthOf []) := by
  refine ⟨by decide, rfl, ?_, by decide, by simp [NVar.mem, BVR.mem, depthOf, depthGo]⟩
  have h1 : SM σ ⟨true, false⟩ (.tree ⟨0, 3⟩ false) [] := .tree (by simp [TreeLang]; exact Star.nil)
  have h2 : SM σ ⟨false, true⟩ (.zom ⟨3, 1⟩ false) [] := .zom sepFree_nil
  exact .cons (u := []) h1 (.cons (u := []) h2 .nil)

/-- `*/**` : the same on the other side -/
theorem depth_nullable_tree_witness (σ : Sem) :
    let ts : List Tok := [.zom ⟨0, 1⟩ false, .tree ⟨1, 3⟩ true]
    flatTreeOk ts = false ∧ depthFlat ts = .ok (.bnd (.lower 1)) ∧
      SMs σ ⟨true, true⟩ ts [] ∧ trailingOk [] = true ∧
      ¬ (NVar.bnd (.lower 1)).mem (depthOf []) := by
  refine ⟨by decide, rfl, ?_, by decide, by simp [NVar.mem, BVR.mem, depthOf, depthGo]⟩
  have h1 : SM σ ⟨true, false⟩ (.zom ⟨0, 1⟩ false) [] := .zom sepFree_nil
  have h2 : SM σ ⟨false, true⟩ (.tree ⟨1, 3⟩ true) [] := .tree (by simp [TreeLang])
  exact .cons (u := []) h1 (.cons (u := []) h2 .nil)

end Wax
