import Wax.Proofs.GrammarComplete
/-!
C01 / C17 / C19 — **the parser model accepts exactly the grammar of `Wax/Proofs/Grammar.lean` and
builds exactly the trees it describes.**

* `parse_sound`    : `parse e = .ok t → ∃ ts f, Gram false e ts f ∧ t = topTok e ts`
* `parse_complete` : `Gram false e ts f → parse e = .ok (topTok e ts)`
* `parse_err_iff`  : `parse e` is an error iff no `Gram` derivation of `e` exists
* `Gram_functional`: the grammar, with its maximal-munch side conditions, is unambiguous
* `parseFC_ok_iff_gram` / `parse_ok_fuel_independent`: `Gram` does not mention fuel, so whether
  (and to which tree) an expression parses does not depend on the fuel once it exceeds `4·|e| + 3`
  (a re-derivation of the `.ok` half of `parse_fuel_enough` from soundness + completeness alone).
-/
set_option linter.unusedSimpArgs false
set_option linter.unusedVariables false
namespace Wax

/-- `parse` with the fuel and the initial flag state as parameters -/
def parseFC (fuel : Nat) (c : Bool) (e : Str) : ParseResult :=
  if e.isEmpty then .ok (.lit ⟨0, 0⟩ [] false) else
  let i : Input := { rest := e, loc := 0, ci := c, sub := 0 }
  match parseTokens fuel .eof i [] with
  | none => .err []
  | some (toks, j) =>
    if toks.isEmpty then .err [(flagsS i).loc, 0, 0, 0]
    else if j.rest.isEmpty then .ok (.cat ⟨0, j.loc⟩ toks)
    else .err [j.loc]

theorem parse_eq_parseFC (e : Str) : parse e = parseFC (4 * e.length + 8) false e := rfl
theorem parseF_eq_parseFC (fuel : Nat) (e : Str) : parseF fuel e = parseFC fuel false e := rfl
theorem parseCi_eq_parseFC (c : Bool) (e : Str) : parseCi c e = parseFC (4 * e.length + 8) c e := rfl

/-- the token sequence of a parsed expression (the empty expression parses to an empty literal) -/
def toksOf : Tok → List Tok
  | .cat _ ts => ts
  | _ => []

theorem GToks.nil_inv {t : Term} {first : Bool} {p : Nat} {c : Bool} {rest : Str} {ts : List Tok}
    {c' : Bool} (h : GToks t first p c [] rest ts c') : ts = [] ∧ c' = c := by
  generalize hs : ([] : Str) = s at h
  match h with
  | .nil .. => exact ⟨rfl, rfl⟩
  | .cons _ _ _ _ s1 s2 _ _ _ _ _ h1 _ =>
    exfalso
    have := h1.ne_nil
    cases s1 with
    | nil => exact this rfl
    | cons => cases hs

theorem GToks.ne_nil {t : Term} {first : Bool} {p : Nat} {c : Bool} {s rest : Str} {ts : List Tok}
    {c' : Bool} (h : GToks t first p c s rest ts c') (hs : s ≠ []) : ts ≠ [] := by
  match h with
  | .nil .. => exact absurd rfl hs
  | .cons .. => simp

theorem toksOf_topTok {c : Bool} {e : Str} {ts : List Tok} {f : Bool} (h : Gram c e ts f) :
    toksOf (topTok e ts) = ts := by
  unfold topTok
  cases e with
  | nil => simp [toksOf, (GToks.nil_inv h).1]
  | cons => simp [toksOf]

/-- soundness, for every fuel and every initial flag state -/
theorem parseFC_sound {fuel : Nat} {c : Bool} {e : Str} {t : Tok} (h : parseFC fuel c e = .ok t) :
    ∃ ts f, Gram c e ts f ∧ t = topTok e ts := by
  unfold parseFC at h
  split at h
  · rename_i he
    have : e = [] := by simpa using he
    subst this
    injection h with h; subst h
    exact ⟨[], c, .nil _ _ _ _ _, rfl⟩
  · rename_i he
    dsimp only at h
    split at h
    · cases h
    · rename_i toks j hT
      split at h
      · cases h
      · split at h
        · rename_i hr
          injection h with h; subst h
          obtain ⟨s, ts, e1, e2, e3, e4, _⟩ :=
            (sinv_all fuel).tokens .eof ⟨e, 0, c, 0⟩ [] toks j (Nat.le_refl _) hT
          have hr' : j.rest = [] := by simpa using hr
          dsimp only at e2 e3 e4
          rw [hr', List.append_nil] at e2
          subst e2
          simp only [List.nil_append] at e1
          subst e1
          rw [hr'] at e3
          refine ⟨toks, j.ci, e3, ?_⟩
          unfold topTok
          rw [if_neg he, e4, Nat.zero_add]
        · cases h

/-- completeness, for every fuel above `4·|e| + 3` and every initial flag state -/
theorem parseFC_complete {fuel : Nat} {c : Bool} {e : Str} {ts : List Tok} {f : Bool}
    (hf : 4 * e.length + 3 ≤ fuel) (h : Gram c e ts f) : parseFC fuel c e = .ok (topTok e ts) := by
  unfold parseFC topTok
  cases he : e.isEmpty with
  | true => simp
  | false =>
    have hne : e ≠ [] := by intro h0; subst h0; cases he
    obtain ⟨sb, k1, k2⟩ := cToks h (.inl rfl) 0 fuel [] (Nat.le_refl _) (by simp)
      (by simpa using hf)
    simp only [List.append_nil, List.nil_append, Nat.zero_add] at k1
    simp only [Bool.false_eq_true, if_false]
    rw [k1]
    have : ts.isEmpty = false := by
      have := h.ne_nil hne
      cases ts <;> simp at this ⊢
    simp [this]

/-- **soundness of the parser for the grammar**: a parsed expression is a concatenation of tokens
spelled as the grammar says, and the tree is the one the grammar describes -/
theorem parse_sound {e : Str} {t : Tok} (h : parse e = .ok t) :
    ∃ ts f, Gram false e ts f ∧ t = topTok e ts := by
  rw [parse_eq_parseFC] at h; exact parseFC_sound h

/-- **completeness**: every text the grammar derives parses, to the tree the derivation describes -/
theorem parse_complete {e : Str} {ts : List Tok} {f : Bool} (h : Gram false e ts f) :
    parse e = .ok (topTok e ts) := by
  rw [parse_eq_parseFC]; exact parseFC_complete (by omega) h

/-- the two directions in the form of the task statement (`toksOf t` = "the tokens of `t`") -/
theorem parse_sound' {e : Str} {t : Tok} (h : parse e = .ok t) : ∃ f, Gram false e (toksOf t) f := by
  obtain ⟨ts, f, hg, rfl⟩ := parse_sound h
  exact ⟨f, by rw [toksOf_topTok hg]; exact hg⟩

theorem parse_complete' {e : Str} {ts : List Tok} {f : Bool} (h : Gram false e ts f) :
    ∃ t, parse e = .ok t ∧ toksOf t = ts :=
  ⟨_, parse_complete h, toksOf_topTok h⟩

theorem parse_ok_iff (e : Str) (t : Tok) :
    parse e = .ok t ↔ ∃ ts f, Gram false e ts f ∧ t = topTok e ts :=
  ⟨parse_sound, fun ⟨_, _, hg, ht⟩ => by rw [ht]; exact parse_complete hg⟩

/-- **`parse e` is an error iff the grammar derives nothing from `e`** -/
theorem parse_err_iff (e : Str) : (∃ locs, parse e = .err locs) ↔ ¬ ∃ ts f, Gram false e ts f := by
  constructor
  · rintro ⟨locs, h⟩ ⟨ts, f, hg⟩
    rw [parse_complete hg] at h; cases h
  · intro h
    cases hp : parse e with
    | ok t => obtain ⟨ts, f, hg, _⟩ := parse_sound hp; exact absurd ⟨ts, f, hg⟩ h
    | err locs => exact ⟨locs, rfl⟩

/-- **the grammar is unambiguous**: with the maximal-munch side conditions, a text in a flag state
spells at most one token sequence (spans included) and leaves at most one flag state -/
theorem Gram_functional {f : FlagState} {e : Str} {ts ts' : List Tok} {f₁ f₂ : FlagState}
    (h1 : Gram f e ts f₁) (h2 : Gram f e ts' f₂) : ts = ts' ∧ f₁ = f₂ := by
  obtain ⟨sb1, k1, _⟩ := cToks h1 (.inl rfl) 0 (4 * (e ++ []).length + 3) [] (Nat.le_refl _)
    (by simp) (Nat.le_refl _)
  obtain ⟨sb2, k2, _⟩ := cToks h2 (.inl rfl) 0 (4 * (e ++ []).length + 3) [] (Nat.le_refl _)
    (by simp) (Nat.le_refl _)
  rw [k1] at k2
  simp only [List.nil_append, Option.some.injEq, Prod.mk.injEq, Input.mk.injEq, true_and] at k2
  exact ⟨k2.1, k2.2.1⟩

/-! ### fuel independence as a corollary -/

/-- with enough fuel, success of the fuelled parser is derivability in the (fuel-free) grammar -/
theorem parseFC_ok_iff_gram {fuel : Nat} {c : Bool} {e : Str} {t : Tok}
    (hf : 4 * e.length + 3 ≤ fuel) :
    parseFC fuel c e = .ok t ↔ ∃ ts f, Gram c e ts f ∧ t = topTok e ts :=
  ⟨parseFC_sound, fun ⟨_, _, hg, ht⟩ => by rw [ht]; exact parseFC_complete hf hg⟩

/-- **fuel independence of the result**, re-derived from soundness and completeness alone: above
`4·|e| + 3` the fuel does not matter for whether `e` parses nor for the tree -/
theorem parse_ok_fuel_independent {fuel : Nat} {e : Str} {t : Tok} (hf : 4 * e.length + 3 ≤ fuel) :
    parseF fuel e = .ok t ↔ parse e = .ok t := by
  rw [parseF_eq_parseFC, parseFC_ok_iff_gram hf, parse_ok_iff]

theorem parse_isOk_fuel_independent {fuel : Nat} {e : Str} (hf : 4 * e.length + 3 ≤ fuel) :
    (parseF fuel e).isOk = (parse e).isOk := by
  cases h1 : parseF fuel e with
  | ok t => rw [(parse_ok_fuel_independent hf).mp h1]
  | err l =>
    cases h2 : parse e with
    | ok t => rw [(parse_ok_fuel_independent hf).mpr h2] at h1; cases h1
    | err l' => rfl

/-! ### non-vacuity -/

/-- a derivation written out by hand: `a*` is a literal followed by a zero-or-more wildcard that
ends the expression -/
example : Gram false "a*".toList [.lit ⟨0, 1⟩ ['a'] false, .zom ⟨1, 1⟩ false] false := by
  have h1 : GTok .eof true 0 false ['a'] (['*'] ++ []) (.lit ⟨0, 1⟩ ['a'] false) false :=
    .mk _ _ _ _ [] false ['a'] _ _ _ (.nil _)
      (.lit _ _ _ _ _ _ _ _ (.plain 'a' [] [] (by decide) .nil) (by simp)
        (.inr ⟨'*', [], rfl, by decide, by decide⟩))
  have h2 : GTok .eof false 1 false ['*'] ([] ++ []) (.zom ⟨1, 1⟩ false) false :=
    .mk _ _ _ _ [] false ['*'] _ _ _ (.nil _) (.zom _ _ _ _ _ _ (.inr rfl))
  exact .cons _ _ _ _ ['a'] ['*'] [] _ _ _ _ h1
    (.cons _ _ _ _ ['*'] [] [] _ _ _ _ h2 (.nil _ _ _ _ _))

/-- the hypotheses of `parse_complete` / `Gram_functional` are satisfiable on an expression with a
rooted tree wildcard, an alternation, a bounded repetition, a class and inline flags -/
example : ∃ ts f, Gram false "a/**/{b,(?i)c}<[!x-z]:1,2>*".toList ts f ∧ ts.length = 5 ∧ f = true := by
  have hp : parse "a/**/{b,(?i)c}<[!x-z]:1,2>*".toList = .ok (.cat ⟨0, 27⟩
      [.lit ⟨0, 1⟩ ['a'] false, .tree ⟨1, 4⟩ true,
       .alt ⟨5, 9⟩ [.cat ⟨6, 1⟩ [.lit ⟨6, 1⟩ ['b'] false], .cat ⟨8, 5⟩ [.lit ⟨8, 5⟩ ['c'] true]],
       .rep ⟨14, 12⟩ (.cat ⟨15, 6⟩ [.cls ⟨15, 6⟩ true [.rng 'x' 'z']]) 1 (some 2),
       .zom ⟨26, 1⟩ false]) := by rfl
  obtain ⟨ts, f, hg, ht⟩ := parse_sound hp
  have hts : toksOf (topTok "a/**/{b,(?i)c}<[!x-z]:1,2>*".toList ts) = ts := toksOf_topTok hg
  rw [← ht] at hts
  refine ⟨ts, f, hg, by rw [← hts]; rfl, ?_⟩
  -- the final flag state is read off the parser run through completeness
  obtain ⟨sb, k1, _⟩ := cToks hg (.inl rfl) 0 200 [] (Nat.le_refl _) (by simp) (by decide)
  have : (parseTokens 200 .eof ⟨"a/**/{b,(?i)c}<[!x-z]:1,2>*".toList ++ [], 0, false, 0⟩ []).map
      (fun r => r.2.ci) = some true := by rfl
  rw [k1] at this
  simpa using this

/-- an expression the grammar does not derive: `**` in the middle of a component -/
example : ¬ ∃ ts f, Gram false "a**".toList ts f :=
  (parse_err_iff _).mp ⟨[1], by rfl⟩

/-! ### what the grammar says about some corner cases (each checked against the parser model) -/

/-- inline flags in front of a leading `**` make the expression invalid: after the flags the tree
wildcard no longer stands "at the very beginning" (`TreePre.start` needs `first && fl.isEmpty`;
`boe` in `parse.rs` compares the location after the flags with the start of the sub-expression) -/
example : ¬ ∃ ts f, Gram false "(?i)**".toList ts f :=
  (parse_err_iff _).mp ⟨[4, 0, 0, 0], by rfl⟩

/-- … whereas flags after the leading `**/` are fine -/
example : ∃ ts f, Gram false "**/(?i)a".toList ts f := by
  obtain ⟨ts, f, h, _⟩ := parse_sound (e := "**/(?i)a".toList)
    (t := .cat ⟨0, 8⟩ [.tree ⟨0, 3⟩ false, .lit ⟨3, 5⟩ ['a'] true]) (by rfl)
  exact ⟨ts, f, h⟩

/-- the flag state threads through the text linearly, in and out of alternations: a flag group in
the first branch also governs the later branches and what follows the alternation -/
example : parse "{(?i)a,b}c".toList = .ok (.cat ⟨0, 10⟩
    [.alt ⟨0, 9⟩ [.cat ⟨1, 5⟩ [.lit ⟨1, 5⟩ ['a'] true], .cat ⟨7, 1⟩ [.lit ⟨7, 1⟩ ['b'] true]],
     .lit ⟨9, 1⟩ ['c'] true]) := by rfl

/-- trailing inline flags belong to no token: the expression is invalid -/
example : ¬ ∃ ts f, Gram false "a(?i)".toList ts f := (parse_err_iff _).mp ⟨[1], by rfl⟩

/-- two tree wildcards need two separators between them (`**/**` is invalid, `**//**` is not) -/
example : ¬ ∃ ts f, Gram false "**/**".toList ts f := (parse_err_iff _).mp ⟨[3], by rfl⟩
example : parse "**//**".toList = .ok (.cat ⟨0, 6⟩ [.tree ⟨0, 3⟩ false, .tree ⟨3, 3⟩ true]) := by rfl

/-- a `-` in a class is a range operator or must be escaped -/
example : ¬ ∃ ts f, Gram false "[a-]".toList ts f := (parse_err_iff _).mp ⟨[0, 0, 0, 0], by rfl⟩

/-- a backslash cannot be spelled at all, not even doubled: it escapes meta-characters only -/
example : ¬ ∃ ts f, Gram false "a\\\\b".toList ts f := (parse_err_iff _).mp ⟨[0, 0, 0, 0], by rfl⟩

/-- the defaults of the bounds: none = zero or more, a bare `:` = one or more -/
example : parse "<a>".toList = .ok (.cat ⟨0, 3⟩
    [.rep ⟨0, 3⟩ (.cat ⟨1, 1⟩ [.lit ⟨1, 1⟩ ['a'] false]) 0 none]) := by rfl
example : parse "<a:>".toList = .ok (.cat ⟨0, 4⟩
    [.rep ⟨0, 4⟩ (.cat ⟨1, 1⟩ [.lit ⟨1, 1⟩ ['a'] false]) 1 none]) := by rfl

end Wax
